(* Device authorization grant (C16). *)
From FositeModel Require Import Base.Str Model.Scope Model.Core Model.Flows Proofs.CoreInv Proofs.StepInv Proofs.Family Proofs.Decay Proofs.StepProps.

Arguments upd : simpl never.

Definition device_grant : string := "urn:ietf:params:oauth:grant-type:device_code".

Lemma grant_tokens_dev_used s stored w : dev_used (st (fst (grant_tokens s stored w))) = dev_used (st s).
Proof.
  unfold grant_tokens.
  destruct (mint s KAccess (r_id stored)) as [ka s2] eqn:E2. destruct (mint_spec _ _ _ _ _ E2) as [_ [_ [H2 _]]].
  destruct w.
  - destruct (mint s2 KRefresh (r_id stored)) as [kr s3] eqn:E3. destruct (mint_spec _ _ _ _ _ E3) as [_ [_ [H3 _]]].
    cbn. congruence.
  - cbn. congruence.
Qed.

(* a successful poll: the user code was accepted (state neither "unused" nor "rejected"), the poller started the
   flow, the code is unexpired and genuine; the tokens carry the decision's scopes; the device code is consumed *)
Theorem poll_ok_facts cfg s auth dev :
  o_err (snd (device_poll cfg s auth dev)) = "" ->
  exists k stt r cl,
    key_of s dev = Some k /\ device (st s) k = Some (stt, r) /\ stt <> 0 /\ stt <> 2 /\ p_tampered dev = false /\
    auth = Some (r_client r) /\ clients s (r_client r) = Some cl /\ args_has (cl_grants cl) [device_grant] = true /\
    expired (s_exp_dev (r_sess r)) (r_at r) (cf_life_dev cfg) (now s) = false /\
    let res := device_poll cfg s auth dev in
    o_scopes (snd res) = r_gscopes r /\
    device (st (fst res)) k = None /\
    (exists ka, access (st (fst res)) ka = Some (minted_record cfg s r cl)) /\
    (In KRefresh (o_minted (snd res)) -> can_refresh cfg (r_gscopes r) cl = true) /\
    used_device cfg (st s) k = None /\ dev_used (st (fst res)) k = Some (r_id r).
Proof.
  unfold device_poll.
  destruct auth as [c|]; [|discriminate]. destruct (clients s c) as [cl|] eqn:Ecl; [|discriminate].
  destruct (negb (args_has (cl_grants cl) _)) eqn:Eg; [discriminate|].
  destruct (key_of s dev) as [k|]; [|discriminate].
  destruct (used_device cfg (st s) k) as [rid0|] eqn:Eu; [discriminate|].
  destruct (device (st s) k) as [[stt r]|] eqn:Ed; [|discriminate].
  destruct (Nat.eqb_spec stt 0); [discriminate|].
  destruct (Nat.eqb_spec stt 2); [discriminate|].
  destruct (expired _ _ _ _) eqn:Ex; [discriminate|].
  destruct (p_tampered dev) eqn:Et; [discriminate|].
  destruct (Nat.eqb_spec (r_client r) c) as [Hc|Hc]; cbn [negb]; [|discriminate].
  match goal with |- context [grant_tokens ?s2 ?stored ?w] =>
    pose proof (grant_tokens_records s2 stored w) as G; pose proof (grant_tokens_device s2 stored w) as GD;
    pose proof (grant_tokens_dev_used s2 stored w) as GU;
    destruct (grant_tokens s2 stored w) as [s3 minted] end.
  cbn [fst snd] in *. destruct G as [ka [Ha [_ [_ [_ Hm]]]]]. intros _.
  exists k, stt, r, cl. rewrite Hc.
  split; [reflexivity|]. split; [exact Ed|]. split; [assumption|]. split; [assumption|]. split; [reflexivity|].
  split; [reflexivity|]. split; [assumption|]. split; [now apply negb_false_iff in Eg|]. split; [assumption|].
  split; [reflexivity|]. split; [rewrite GD; cbn; apply upd_eq|].
  split; [exists ka; unfold minted_record; rewrite ?Hc; exact Ha|].
  split; [|split; [first [exact Eu|reflexivity]|rewrite GU; cbn; apply upd_eq]].
  intros Hin. rewrite Hm in Hin. destruct (can_refresh cfg (r_gscopes r) cl); [reflexivity|].
  cbn in Hin. destruct Hin as [H|[]]. discriminate.
Qed.

(* the verdicts, for an authenticated client that may use the grant *)
Section Verdicts.
  Variables (cfg : config) (s : state) (c : nat) (cl : client) (dev : pres) (k stt : nat) (r : req).
  Hypotheses (Hc : clients s c = Some cl) (Hg : args_has (cl_grants cl) [device_grant] = true)
             (Hk : key_of s dev = Some k) (Hd : device (st s) k = Some (stt, r))
             (Hu : used_device cfg (st s) k = None).

  Theorem poll_pending : stt = 0 -> device_poll cfg s (Some c) dev = (s, err_obs "authorization_pending").
  Proof. intros ->. unfold device_poll. unfold device_grant in Hg. rewrite Hc, Hg, Hk, Hu, Hd. reflexivity. Qed.

  Theorem poll_denied : stt = 2 -> device_poll cfg s (Some c) dev = (s, err_obs "access_denied").
  Proof. intros ->. unfold device_poll. unfold device_grant in Hg. rewrite Hc, Hg, Hk, Hu, Hd. reflexivity. Qed.

  Theorem poll_expired :
    stt <> 0 -> stt <> 2 -> expired (s_exp_dev (r_sess r)) (r_at r) (cf_life_dev cfg) (now s) = true ->
    device_poll cfg s (Some c) dev = (s, err_obs "expired_token").
  Proof.
    intros H0 H2 He. unfold device_poll. unfold device_grant in Hg. rewrite Hc, Hg, Hk, Hu, Hd. cbn [negb].
    destruct (Nat.eqb_spec stt 0); [contradiction|]. destruct (Nat.eqb_spec stt 2); [contradiction|]. now rewrite He.
  Qed.

  Theorem poll_foreign_client :
    stt <> 0 -> stt <> 2 -> expired (s_exp_dev (r_sess r)) (r_at r) (cf_life_dev cfg) (now s) = false ->
    p_tampered dev = false -> r_client r <> c ->
    device_poll cfg s (Some c) dev = (s, err_obs "invalid_grant").
  Proof.
    intros H0 H2 He Ht Hne. unfold device_poll. unfold device_grant in Hg. rewrite Hc, Hg, Hk, Hu, Hd. cbn [negb].
    destruct (Nat.eqb_spec stt 0); [contradiction|]. destruct (Nat.eqb_spec stt 2); [contradiction|]. rewrite He, Ht.
    destruct (Nat.eqb_spec (r_client r) c); [contradiction|reflexivity].
  Qed.
End Verdicts.

(* whatever the combination of conditions, a refused poll yields no tokens and leaves every code, token and device
   record as it was - except the replay of an already redeemed code at a contract-following device table, which
   revokes the tokens of the code's request and changes nothing else *)
Definition replay_revocation (s : state) (rid : nat) : state :=
  set_store s (fst (revoke_refresh (revoke_access (st s) rid) rid)).
Theorem poll_refused_changes_nothing cfg s auth dev :
  o_err (snd (device_poll cfg s auth dev)) <> "" ->
  o_minted (snd (device_poll cfg s auth dev)) = [] /\
  (fst (device_poll cfg s auth dev) = s \/
   exists k rid, key_of s dev = Some k /\ used_device cfg (st s) k = Some rid /\
                 fst (device_poll cfg s auth dev) = replay_revocation s rid).
Proof.
  unfold device_poll.
  assert (same : forall e, o_err (snd (fail s e)) <> "" -> o_minted (snd (fail s e)) = [] /\
     (fst (fail s e) = s \/ exists k rid, key_of s dev = Some k /\ used_device cfg (st s) k = Some rid /\
                                          fst (fail s e) = replay_revocation s rid))
    by (intros e _; split; [reflexivity|left; reflexivity]).
  destruct auth as [c|]; [|apply same]. destruct (clients s c) as [cl|]; [|apply same].
  destruct (negb (args_has (cl_grants cl) _)); [apply same|].
  destruct (key_of s dev) as [k|]; [|apply same].
  destruct (used_device cfg (st s) k) as [rid|] eqn:Eu; [intros _; split; [reflexivity|right; exists k, rid; auto]|].
  destruct (device (st s) k) as [[stt r]|]; [|apply same].
  repeat match goal with |- context [if ?c then fail s _ else _] => destruct c; [apply same|] end.
  match goal with |- context [grant_tokens ?s2 ?stored ?w] => destruct (grant_tokens s2 stored w) as [s3 minted] end.
  cbn. congruence.
Qed.
Theorem poll_refused_changes_nothing_reference cfg s auth dev :
  cf_dev_contract cfg = false ->
  o_err (snd (device_poll cfg s auth dev)) <> "" ->
  fst (device_poll cfg s auth dev) = s /\ o_minted (snd (device_poll cfg s auth dev)) = [].
Proof.
  intros Hc H. destruct (poll_refused_changes_nothing cfg s auth dev H) as [Hm [Hs|[k [rid [_ [Hu _]]]]]]; [auto|].
  unfold used_device in Hu. rewrite Hc in Hu. discriminate.
Qed.

(* a consumed device code stays consumed: device records are only created under fresh keys *)
Lemma device_gone_step cfg s o k : k < next_key s -> device (st s) k = None -> device (st (fst (step cfg s o))) k = None.
Proof.
  intros Hk Hn. destruct (device (st (fst (step cfg s o))) k) as [[b r]|] eqn:E; [|reflexivity].
  exfalso. destruct (dev_keeps_step cfg s o k b r E) as [[b0 [r0 [H0 _]]]|[_ Hge]]; [congruence|lia].
Qed.

Lemma device_gone_run cfg h : forall s k, k < next_key s -> device (st s) k = None -> device (st (run cfg s h)) k = None.
Proof.
  unfold run. induction h as [|o h IH]; intros s k Hk Hn; cbn [fold_left]; [assumption|].
  apply IH; [pose proof (next_key_step cfg s o); lia|now apply device_gone_step].
Qed.

(* at most once: after a successful poll, presenting the device code again — after any history, by any client —
   never yields tokens (the reference store has deleted the code: invalid_grant for an authenticated client) *)
Theorem device_code_single_use cfg cls h1 auth dev h2 auth' dev' :
  let s1 := run cfg (state0 cls) h1 in
  o_err (snd (device_poll cfg s1 auth dev)) = "" ->
  let s2 := run cfg (fst (device_poll cfg s1 auth dev)) h2 in
  key_of s2 dev' = key_of s1 dev ->
  o_err (snd (device_poll cfg s2 auth' dev')) <> "" /\ o_minted (snd (device_poll cfg s2 auth' dev')) = [] /\
  (forall c cl, auth' = Some c -> clients s2 c = Some cl -> args_has (cl_grants cl) [device_grant] = true ->
                o_err (snd (device_poll cfg s2 auth' dev')) = "invalid_grant").
Proof.
  intros s1 Hok s2 Hkey.
  assert (I1 : Inv s1) by apply Inv_reachable.
  destruct (poll_ok_facts cfg s1 auth dev Hok) as [k [stt [r [cl [Hk [Hd [_ [_ [_ [_ [_ [_ [_ [_ [Hgone _]]]]]]]]]]]]]]].
  assert (Hlt : k < next_key s1) by exact (proj1 (inv_owner_fresh s1 I1 _ _ _ (inv_owner_device s1 I1 _ _ _ Hd))).
  assert (Hg2 : device (st s2) k = None).
  { apply device_gone_run; [|exact Hgone].
    pose proof (next_key_step cfg s1 (ODevicePoll auth dev)) as Hn. cbn [step] in Hn. lia. }
  rewrite Hk in Hkey. unfold device_poll.
  destruct auth' as [c|]; [|cbn; repeat split; try reflexivity; easy].
  destruct (clients s2 c) as [cl'|] eqn:Ecl; [|cbn; repeat split; try reflexivity; try easy; intros c0 cl0 [= <-]; congruence].
  destruct (negb (args_has (cl_grants cl') _)) eqn:Eg.
  - cbn [snd fail err_obs o_err o_minted]. repeat split; try reflexivity; try easy.
    intros c0 cl0 [= <-] Hcl Hg. rewrite Ecl in Hcl. injection Hcl as <-. unfold device_grant in Hg. rewrite Hg in Eg. discriminate.
  - rewrite Hkey. destruct (used_device cfg (st s2) k); [|rewrite Hg2]; cbn; repeat split; try reflexivity; easy.
Qed.

(* the device-authorization endpoint: client authentication, grant type, confinement to the registration *)
Theorem device_authorize_ok_facts cfg s auth bc sc au :
  o_err (snd (device_authorize cfg s auth bc sc au)) = "" ->
  exists c cl, auth = Some c /\ bc = c /\ clients s c = Some cl /\ args_has (cl_grants cl) [device_grant] = true /\
    scopes_ok cfg cl sc = true /\ aud_ok cfg (cl_aud cl) au = true /\
    o_minted (snd (device_authorize cfg s auth bc sc au)) = [KDevice; KUser].
Proof.
  unfold device_authorize.
  destruct auth as [c|]; [|discriminate]. destruct (clients s c) as [cl|] eqn:Ecl; [|discriminate].
  destruct (Nat.eqb_spec c bc) as [Hb|Hb]; cbn [negb]; [|discriminate].
  destruct (negb (args_has (cl_grants cl) _)) eqn:Eg; [discriminate|].
  destruct (negb (scopes_ok cfg cl sc)) eqn:E1; [discriminate|].
  destruct (negb (aud_ok cfg (cl_aud cl) au)) eqn:E2; [discriminate|].
  destruct (fresh_rid s) as [rid s1]. destruct (mint s1 KDevice rid) as [kd s2]. destruct (mint s2 KUser rid) as [ku s3].
  intros _. exists c, cl. apply negb_false_iff in Eg, E1, E2. repeat split; auto.
Qed.
