(* C04 / C08: clauses of the history monitors (Cases/Monitors.v judge_C04, judge_C08) that are sound for the model
   whatever the tracker knows: an accepted refresh returns exactly a new access/refresh pair and was made with an
   untampered token, so the clause "exchange_did_not_return_a_new_pair" never fires on a model trace, and the reuse
   clause is only reached after a refused call; an unauthenticated revocation leaves the state - hence the probe
   vector - exactly as it was and is answered invalid_client, so "unauthenticated_revocation_changed_something" never
   fires when the tracker's previous probe vector is the state's. *)
From FositeModel Require Import Base.Str Model.Scope Model.Core Model.Flows Cases.Common Cases.CasesHist Cases.Monitors
     Proofs.CoreInv Proofs.StepInv Proofs.StepProps Proofs.C08Proofs Proofs.CorrMonitor.

Lemma refresh_ok_minted cfg s auth tok :
  o_err (snd (refresh_flow cfg s auth tok)) = "" -> o_minted (snd (refresh_flow cfg s auth tok)) = [KAccess; KRefresh].
Proof.
  unfold refresh_flow.
  destruct auth as [c|]; [|discriminate].
  destruct (clients s c) as [cl|]; [|discriminate].
  destruct (negb (args_has (cl_grants cl) ["refresh_token"])); [discriminate|].
  destruct (key_of s tok) as [k|]; cbn [find]; [|discriminate].
  destruct (refresh (st s) k) as [[[|] r]|]; [|discriminate|discriminate].
  destruct (expired_rt _ _); [discriminate|].
  destruct (p_tampered tok); [discriminate|].
  destruct (negb _) in |- *; [discriminate|].
  destruct (negb (Nat.eqb (r_client r) c)); [discriminate|].
  destruct (negb (scopes_ok cfg cl (r_gscopes r))); [discriminate|].
  destruct (negb (aud_ok cfg (cl_aud cl) (r_gaud r))); [discriminate|].
  destruct (rotate_refresh (st s) (r_id r)) as [st1 [e|]]; [discriminate|].
  match goal with |- context [grant_tokens ?s2 ?stored ?w] =>
    pose proof (grant_tokens_records s2 stored w) as G; destruct (grant_tokens s2 stored w) as [s3 minted] end.
  cbn [fst snd] in *. destruct G as [ka [_ [_ [_ [_ ->]]]]]. reflexivity.
Qed.

(* whatever the tracker state: the only alarm the C04 judge can raise on the model's answer to a refresh is one of the
   two that compare with the tracker's list of exchanged tokens - never "exchange_did_not_return_a_new_pair" *)
Theorem judge_C04_pair_clause_sound cfg m s auth tok sm pr :
  fst (fst (judge_C04 m (ORefresh auth tok sm) (snd (step cfg s (ORefresh auth tok sm))) pr))
  <> Some "exchange_did_not_return_a_new_pair".
Proof.
  cbn [step judge_C04]. destruct (cred m tok) as [[j c]|]; [|discriminate].
  destruct (String.eqb (o_err (snd (refresh_flow cfg s auth tok))) "") eqn:E.
  - apply String.eqb_eq in E. rewrite (refresh_ok_minted _ _ _ _ E).
    destruct (memn j (m_used_rt m)); discriminate.
  - destruct (memn j (m_used_rt m) && negb (p_tampered tok)); [|discriminate].
    destruct auth as [a|]; [|discriminate]. destruct (client_has_grant m a "refresh_token"); [|discriminate].
    destruct (String.eqb _ "invalid_grant"); discriminate.
Qed.

(* with a tracker that has not seen the presented token exchanged, the judge is silent on every model answer *)
Theorem judge_C04_fresh_token_sound cfg m s auth tok sm pr j c :
  cred m tok = Some (j, c) -> memn j (m_used_rt m) = false ->
  fst (fst (judge_C04 m (ORefresh auth tok sm) (snd (step cfg s (ORefresh auth tok sm))) pr)) = None.
Proof.
  intros Hc Hm. cbn [step judge_C04]. rewrite Hc, Hm. cbn [andb].
  destruct (String.eqb (o_err (snd (refresh_flow cfg s auth tok))) "") eqn:E; [|reflexivity].
  apply String.eqb_eq in E. rewrite (refresh_ok_minted _ _ _ _ E). reflexivity.
Qed.

Lemma opayload_eqb_refl x : opayload_eqb x x = true.
Proof.
  destruct x as [p|]; cbn; [|reflexivity]. unfold payload_eqb.
  assert (L : forall l : list string, list_eqb l l = true).
  { induction l as [|a l IH]; cbn; [reflexivity|]. rewrite String.eqb_refl, IH. reflexivity. }
  rewrite Nat.eqb_refl, String.eqb_refl, !L.
  destruct (pl_use p); cbn; destruct (pl_exp p); cbn; rewrite ?Z.eqb_refl; reflexivity.
Qed.

Lemma probes_eqb_refl l : probes_eqb l l = true.
Proof. induction l as [|x l IH]; cbn; [reflexivity|]. rewrite opayload_eqb_refl, IH. reflexivity. Qed.

(* C08: an unauthenticated revocation request on the model never trips the judge, for any tracker whose previous probe
   vector is that of the state the request meets *)
Theorem judge_C08_unauthenticated_sound cfg m s tok h :
  m_prev m = probes cfg s ->
  let res := step cfg s (ORevoke None tok h) in
  judge_C08 m (ORevoke None tok h) (snd res) (probes cfg (fst res)) = (None, [], []).
Proof.
  intros Hp. cbn [step]. rewrite revoke_unauthenticated. cbn [fst snd judge_C08].
  unfold same_probes. rewrite Hp, probes_eqb_refl. reflexivity.
Qed.
