(* C18: the monitor of Cases/CasesC18.v agrees with the fault model.  For every state, request and fault plan, the
   clauses of the monitor that read the call log and the observation accept what the model computes, except for the
   one clause that the faithful model violates (tokens after a not-found answer of the PKCE lookup), which is reported
   under its own tag; the clauses that read the table digests are implied by the state-level theorems below. *)
From FositeModel Require Import Base.Str Model.Scope Model.Core Model.Flows Model.Faults Cases.CasesC18
     Proofs.CoreInv Proofs.StepInv Proofs.FaultsProofs Proofs.FaultsFlows Proofs.FaultsFlows2 Proofs.FaultsTheorems.

Theorem monitor_accepts_the_model e cfg s o :
  faultable o = true ->
  let '(s', ob, calls) := fstep e cfg s o in
  mon_panic ob = None /\ mon_c (fe_tx e) calls = None /\
  mon_serial o calls ob = None /\
  (mon_b o calls ob = None \/ mon_b o calls ob = Some "tokens_issued_after_notfound_fault_on_pkce_lookup").
Proof.
  intros Hf. pose proof (fstep_ok e cfg s o Hf) as H. destruct (fstep e cfg s o) as [[s' ob] calls].
  destruct H as (H1 & H2 & H3 & _ & _ & _ & _ & _ & Hp). repeat split; auto.
  unfold mon_panic. now rewrite Hp.
Qed.

(* clause (d) of the monitor compares digests; equal tables and an equal log give equal status vectors *)
Lemma statuses_same s s' : st s' = st s -> log s' = log s -> map (status_of s') (log s') = map (status_of s) (log s).
Proof. intros H1 H2. rewrite H2. apply map_ext. intros a. unfold status_of. now rewrite H1. Qed.

Theorem monitor_rollback_clause e cfg s o :
  faultable o = true ->
  let '(s', ob, calls) := fstep e cfg s o in
  rolled_back (fe_tx e) calls = true -> fst (digest_of s') = fst (digest_of s).
Proof.
  intros Hf. pose proof (rolled_back_failure_restores_the_tables e cfg s o Hf) as H. destruct (fstep e cfg s o) as [[s' ob] calls].
  intros Hrb. destruct (H Hrb) as (H1 & _ & _ & H4). unfold digest_of. cbn [fst]. now apply statuses_same.
Qed.

(* clause (e): a status that is not "active" before the request is not "active" after it *)
Lemma status_mono n s s' e0 :
  store_le n (st s) (st s') -> i_key e0 < n -> status_of s e0 <> 1 -> status_of s' e0 <> 1.
Proof.
  intros Hle Hk. destruct (Hle _ Hk) as (Hc & Ha & Hr & Hd & _). unfold status_of.
  destruct (i_kind e0); try (intros _; discriminate).
  - destruct (codes (st s') (i_key e0)) as [[[|] r]|] eqn:E; try (intros _; discriminate).
    destruct (Hc (ex_intro _ r E)) as [r' ->]. intros H; exfalso; now apply H.
  - destruct (access (st s') (i_key e0)) as [r|] eqn:E; try (intros _; discriminate).
    destruct (Ha (ex_intro _ r E)) as [r' ->]. intros H; exfalso; now apply H.
  - destruct (refresh (st s') (i_key e0)) as [[[|] r]|] eqn:E; try (intros _; discriminate).
    destruct (Hr (ex_intro _ r E)) as [r' ->]. intros H; exfalso; now apply H.
  - destruct (device (st s') (i_key e0)) as [p|] eqn:E; try (intros _; discriminate).
    destruct (Hd (ex_intro _ p E)) as [p' ->]. intros H; exfalso; now apply H.
Qed.

Theorem monitor_fail_closed_clause e cfg s o :
  faultable o = true -> Inv s ->
  let '(s', ob, calls) := fstep e cfg s o in
  forall e0, In e0 (log s) -> status_of s e0 <> 1 -> status_of s' e0 <> 1.
Proof.
  intros Hf I. pose proof (fail_closed e cfg s o Hf) as H. destruct (fstep e cfg s o) as [[s' ob] calls].
  destruct H as (Hle & _). intros e0 Hin. eapply status_mono; [exact Hle|].
  pose proof (inv_log_owner s I e0 Hin) as Ho. now destruct (inv_owner_fresh s I _ _ _ Ho).
Qed.
