(* The registrations: only OSetClient changes them. *)
From FositeModel Require Import Base.Str Model.Scope Model.Core Model.Flows Proofs.CoreInv Proofs.StepInv Proofs.Family.

Ltac cl_tac := repeat first
  [ reflexivity
  | assumption
  | progress cbn [fst snd clients set_store set_now set_clients fail log_add]
  | match goal with
    | |- context [grant_tokens ?a ?b ?c] => fail 1
    | |- context [pkce_token ?a ?b ?c ?d ?e ?f] => fail 1
    | |- context [authorize_core ?a ?b ?c ?d] => fail 1
    | |- context [issue_implicit ?a ?b ?c ?d ?e ?f] => fail 1
    | |- context [store_implicit ?a ?b ?c ?d ?e ?f] => fail 1
    | |- context [match ?x with _ => _ end] => destruct x
    end ].

Lemma clients_grant_tokens s stored w : clients (fst (grant_tokens s stored w)) = clients s.
Proof. unfold grant_tokens, mint, log_add. destruct w; reflexivity. Qed.
Lemma clients_fresh_grant s mk w : clients (fst (fresh_grant s mk w)) = clients s.
Proof. unfold fresh_grant, fresh_rid. now rewrite clients_grant_tokens. Qed.
Lemma clients_pkce_token cfg s cl key v vh : clients (fst (pkce_token cfg s cl key v vh)) = clients s.
Proof. destruct (pkce_token_state cfg s cl key v vh) as [->|[k ->]]; reflexivity. Qed.
Lemma clients_store_implicit cfg s cl a rid ec : clients (fst (store_implicit cfg s cl a rid ec)) = clients s.
Proof. unfold store_implicit, mint. reflexivity. Qed.
Lemma clients_issue_implicit cfg s cl a rid ec : clients (fst (issue_implicit cfg s cl a rid ec)) = clients s.
Proof. unfold issue_implicit, store_implicit, mint, log_add. reflexivity. Qed.
Lemma clients_authorize_core cfg s cl a : clients (fst (authorize_core cfg s cl a)) = clients s.
Proof. unfold authorize_core, fresh_rid, mint, log_add, fail. cl_tac. Qed.
Lemma clients_authorize_implicit cfg s cl a : clients (fst (authorize_implicit cfg s cl a)) = clients s.
Proof.
  unfold authorize_implicit, fresh_rid, fail.
  repeat match goal with |- context [if ?c then (s, _) else _] => destruct c; [reflexivity|] end.
  match goal with |- context [issue_implicit ?a ?b ?c ?d ?e ?f] =>
    pose proof (clients_issue_implicit a b c d e f) as H; destruct (issue_implicit a b c d e f) end. exact H.
Qed.
Lemma clients_authorize_hybrid cfg s cl a : clients (fst (authorize_hybrid cfg s cl a)) = clients s.
Proof.
  unfold authorize_hybrid, fresh_rid, mint, fail.
  repeat match goal with |- context [if ?c then (s, _) else _] => destruct c; [reflexivity|] end.
  destruct (negb (args_has (cl_grants cl) ["implicit"])); [reflexivity|].
  destruct (pkce_validate cfg (az_challenge a) (az_method a) cl).
  - cbn [fst]. now rewrite clients_store_implicit.
  - match goal with |- context [issue_implicit ?a ?b ?c ?d ?e ?f] =>
      pose proof (clients_issue_implicit a b c d e f) as H; destruct (issue_implicit a b c d e f) end.
    cbn [fst] in *. destruct (String.eqb (az_challenge a) "" && String.eqb (az_method a) ""); exact H.
Qed.

Lemma clients_redeem cfg s auth code redirect v vh : clients (fst (redeem cfg s auth code redirect v vh)) = clients s.
Proof.
  unfold redeem, fail.
  destruct auth as [c|]; [|reflexivity]. destruct (clients s c) as [cl|]; [|reflexivity].
  destruct (negb (args_has (cl_grants cl) ["authorization_code"])); [reflexivity|].
  destruct (key_of s code) as [k|]; [|reflexivity].
  destruct (codes (st s) k) as [[[|] r]|]; [| reflexivity |reflexivity].
  destruct (p_tampered code); [reflexivity|].
  destruct (negb (Nat.eqb (r_client r) c)); [reflexivity|].
  destruct (negb (String.eqb (r_redirect r) "") && negb (String.eqb (r_redirect r) redirect)); [reflexivity|].
  pose proof (clients_pkce_token cfg s cl (Some k) v vh) as H1.
  destruct (pkce_token cfg s cl (Some k) v vh) as [s1 [e|]]; cbn [fst] in *; [exact H1|].
  destruct (expired _ _ _ _); [exact H1|].
  match goal with |- context [grant_tokens ?s2 ?stored ?w] =>
    pose proof (clients_grant_tokens s2 stored w) as G; destruct (grant_tokens s2 stored w) as [s3 minted] end.
  cbn [fst clients set_store] in *. congruence.
Qed.

Lemma clients_refresh_flow cfg s auth tok : clients (fst (refresh_flow cfg s auth tok)) = clients s.
Proof.
  unfold refresh_flow, fail.
  destruct auth as [c|]; [|reflexivity]. destruct (clients s c) as [cl|]; [|reflexivity].
  destruct (negb (args_has (cl_grants cl) ["refresh_token"])); [reflexivity|].
  destruct (key_of s tok) as [k|]; cbn [find]; [|reflexivity].
  destruct (refresh (st s) k) as [[[|] r]|]; [| reflexivity |reflexivity].
  repeat match goal with |- context [if ?c then (s, _) else _] => destruct c; [reflexivity|] end.
  destruct (rotate_refresh (st s) (r_id r)) as [st1 [e|]]; [reflexivity|].
  match goal with |- context [grant_tokens ?s2 ?stored ?w] =>
    pose proof (clients_grant_tokens s2 stored w) as G; destruct (grant_tokens s2 stored w) as [s3 minted] end.
  exact G.
Qed.

Lemma clients_revoke cfg s auth tok h : clients (fst (revoke cfg s auth tok h)) = clients s.
Proof.
  unfold revoke, fail.
  destruct auth as [c|]; [|reflexivity]. destruct (clients s c); [|reflexivity].
  destruct (revoke_lookup s (key_of s tok) h) as [r|]; [|reflexivity].
  destruct (negb (Nat.eqb (r_client r) c)); reflexivity.
Qed.

Lemma clients_push cfg s auth bc ru a : clients (fst (push cfg s auth bc ru a)) = clients s.
Proof. unfold push, fresh_rid, mint, log_add, fail. cl_tac. Qed.
Lemma clients_device_authorize cfg s auth bc sc au : clients (fst (device_authorize cfg s auth bc sc au)) = clients s.
Proof. unfold device_authorize, fresh_rid, mint, log_add, fail. cl_tac. Qed.
Lemma clients_decide cfg s dev acc g ga sub fr : clients (fst (decide cfg s dev acc g ga sub fr)) = clients s.
Proof. unfold decide, fail. cl_tac. Qed.

Lemma clients_device_poll cfg s auth dev : clients (fst (device_poll cfg s auth dev)) = clients s.
Proof.
  unfold device_poll, fail.
  destruct auth as [c|]; [|reflexivity]. destruct (clients s c) as [cl|]; [|reflexivity].
  destruct (negb (args_has (cl_grants cl) _)); [reflexivity|].
  destruct (key_of s dev) as [k|]; [|reflexivity].
  destruct (used_device cfg (st s) k) as [rid|]; [reflexivity|].
  destruct (device (st s) k) as [[stt r]|]; [|reflexivity].
  repeat match goal with |- context [if ?c then (s, _) else _] => destruct c; [reflexivity|] end.
  match goal with |- context [grant_tokens ?s2 ?stored ?w] =>
    pose proof (clients_grant_tokens s2 stored w) as G; destruct (grant_tokens s2 stored w) as [s3 minted] end.
  exact G.
Qed.

Lemma clients_authorize_par cfg s cp uri a : clients (fst (authorize_par cfg s cp uri a)) = clients s.
Proof.
  rewrite authorize_par_fst. unfold authorize_par0, fail.
  destruct (key_of s uri) as [k|]; [|reflexivity].
  destruct (par (st s) k) as [pr|]; [|reflexivity].
  repeat match goal with |- context [if ?c then (_, _) else _] => destruct c; [reflexivity|] end.
  now rewrite clients_authorize_core.
Qed.

Theorem clients_step cfg s o : clients (fst (step cfg s o)) = match o with OSetClient id c => upd (clients s) id (Some c) | _ => clients s end.
Proof.
  destruct o; cbn [step]; try reflexivity;
    try (new_flows_tac s clients_fresh_grant ltac:(reflexivity); exact FGfact).
  - unfold authorize, fail. destruct (cf_par_enforced cfg); [reflexivity|].
    destruct (clients s (az_client a)) as [cl|]; [|reflexivity].
    destruct (az_rtype a); [apply clients_authorize_core|apply clients_authorize_implicit|apply clients_authorize_hybrid].
  - apply clients_redeem.
  - apply clients_refresh_flow.
  - apply clients_revoke.
  - apply clients_push.
  - apply clients_authorize_par.
  - apply clients_device_authorize.
  - apply clients_decide.
  - apply clients_device_poll.
Qed.
