(* Access tokens minted by the authorization endpoint (implicit and hybrid flows): their table only gains records
   under the request id that is fresh at the time, and otherwise only loses records.  With it a dead family
   covers these tokens too (true since the repair of RevokeAccessToken, finding A10). *)
From FositeModel Require Import Base.Str Model.Scope Model.Core Model.Flows Proofs.CoreInv Proofs.StepInv Proofs.Family.

Definition imp_sub (x x' : store) : Prop := forall k r, implicit x' k = Some r -> implicit x k = Some r.
Lemma imp_sub_refl x : imp_sub x x. Proof. intros k r H. exact H. Qed.
Lemma imp_sub_eq x x' : implicit x' = implicit x -> imp_sub x x'. Proof. intros E k r H. now rewrite E in H. Qed.
Lemma imp_sub_trans x y z : imp_sub x y -> imp_sub y z -> imp_sub x z. Proof. intros A B k r H. auto. Qed.

Lemma revoke_access_imp x X : imp_sub x (revoke_access x X).
Proof. intros k r H. unfold revoke_access in H. cbn in H. now apply drop_rid_some in H as [H _]. Qed.
Lemma revoke_refresh_imp x X : implicit (fst (revoke_refresh x X)) = implicit x.
Proof. unfold revoke_refresh. destruct (rt_idx x X) as [k|]; [destruct (refresh x k) as [[? ?]|]|]; reflexivity. Qed.
Lemma invalidate_code_imp x k : implicit (fst (invalidate_code x k)) = implicit x.
Proof. unfold invalidate_code. destruct (codes x k) as [[? ?]|]; reflexivity. Qed.

Lemma grant_tokens_imp s stored w : implicit (st (fst (grant_tokens s stored w))) = implicit (st s).
Proof.
  unfold grant_tokens.
  destruct (mint s KAccess (r_id stored)) as [ka s2] eqn:E2. destruct (mint_spec _ _ _ _ _ E2) as [_ [_ [H2 _]]].
  destruct w.
  - destruct (mint s2 KRefresh (r_id stored)) as [kr s3] eqn:E3. destruct (mint_spec _ _ _ _ _ E3) as [_ [_ [H3 _]]].
    cbn. congruence.
  - cbn. congruence.
Qed.
Lemma fresh_grant_imp s mk w : implicit (st (fst (fresh_grant s mk w))) = implicit (st s).
Proof.
  unfold fresh_grant. destruct (fresh_rid s) as [rid s1] eqn:E1. destruct (fresh_rid_spec _ _ _ E1) as [_ [_ [H1 _]]].
  rewrite grant_tokens_imp. congruence.
Qed.
Lemma authorize_core_imp cfg s cl a : implicit (st (fst (authorize_core cfg s cl a))) = implicit (st s).
Proof.
  unfold authorize_core.
  destruct (negb (scopes_ok cfg cl (az_scopes a))); [reflexivity|].
  destruct (negb (aud_ok cfg (cl_aud cl) (az_aud a))); [reflexivity|].
  destruct (fresh_rid s) as [rid s1] eqn:E1. destruct (fresh_rid_spec _ _ _ E1) as [_ [_ [H1 _]]].
  destruct (mint s1 KCode rid) as [k s2] eqn:E2. destruct (mint_spec _ _ _ _ _ E2) as [_ [_ [H2 _]]].
  destruct (pkce_validate cfg (az_challenge a) (az_method a) cl); cbn [fst fail]; [cbn; congruence|].
  destruct (String.eqb (az_challenge a) "" && String.eqb (az_method a) ""); cbn; congruence.
Qed.

(* what a step can do to the table *)
Definition imp_keeps (s s' : state) : Prop :=
  forall k r, implicit (st s') k = Some r -> implicit (st s) k = Some r \/ r_id r = next_rid s.
Lemma imp_keeps_sub s s' : imp_sub (st s) (st s') -> imp_keeps s s'.
Proof. intros H k r E. left. auto. Qed.
Lemma imp_keeps_eq s s' : implicit (st s') = implicit (st s) -> imp_keeps s s'.
Proof. intros E. apply imp_keeps_sub, imp_sub_eq, E. Qed.

Lemma store_implicit_keeps cfg s0 s cl a ec :
  implicit (st s) = implicit (st s0) -> next_key s0 <= next_key s ->
  forall k r, implicit (st (fst (store_implicit cfg s cl a (next_rid s0) ec))) k = Some r ->
    implicit (st s0) k = Some r \/ r_id r = next_rid s0.
Proof.
  intros Hi Hk k r H. unfold store_implicit in H.
  destruct (mint s KImplicit (next_rid s0)) as [ka s1] eqn:E1. destruct (mint_spec _ _ _ _ _ E1) as [Hka [_ [Hst _]]].
  cbn in H. rewrite Hst in H. upd_case k ka.
  - injection H as <-. right. reflexivity.
  - left. now rewrite <- Hi.
Qed.

Lemma authorize_implicit_keeps cfg s cl a : imp_keeps s (fst (authorize_implicit cfg s cl a)).
Proof.
  unfold authorize_implicit.
  repeat match goal with |- context [if ?c then fail s _ else _] => destruct c; [apply imp_keeps_eq; reflexivity|] end.
  destruct (fresh_rid s) as [rid s1] eqn:E1.
  destruct (fresh_rid_spec _ _ _ E1) as [Hrid [_ [Hst1 [_ [Hnk1 _]]]]]. subst rid.
  intros k r H. unfold issue_implicit in H.
  pose proof (store_implicit_keeps cfg s s1 cl a None) as K.
  destruct (store_implicit cfg s1 cl a (next_rid s) None) as [s2 ka]. cbn [fst] in *.
  apply K; [now rewrite Hst1|lia|exact H].
Qed.

Lemma authorize_hybrid_keeps cfg s cl a : imp_keeps s (fst (authorize_hybrid cfg s cl a)).
Proof.
  unfold authorize_hybrid.
  repeat match goal with |- context [if ?c then fail s _ else _] => destruct c; [apply imp_keeps_eq; reflexivity|] end.
  destruct (fresh_rid s) as [rid s1] eqn:E1.
  destruct (fresh_rid_spec _ _ _ E1) as [Hrid [_ [Hst1 [_ [Hnk1 _]]]]]. subst rid.
  destruct (mint s1 KCode (next_rid s)) as [k s2] eqn:E2.
  destruct (mint_spec _ _ _ _ _ E2) as [_ [_ [Hst2 [_ [Hnk2 _]]]]].
  match goal with |- context [create_code _ k ?r] => set (rec := r) end.
  destruct (negb (args_has (cl_grants cl) ["implicit"])).
  { apply imp_keeps_eq. cbn. now rewrite Hst2, Hst1. }
  set (s3 := set_store s2 (create_code (st s2) k rec)).
  assert (Hi3 : implicit (st s3) = implicit (st s)) by (unfold s3; cbn; now rewrite Hst2, Hst1).
  assert (Hk3 : next_key s <= next_key s3) by (unfold s3; cbn; lia).
  destruct (pkce_validate cfg (az_challenge a) (az_method a) cl).
  { intros k0 r0 H. unfold fail in H. cbn [fst] in H. eapply store_implicit_keeps; eassumption. }
  intros k0 r0 H.
  match type of H with context [issue_implicit cfg s3 cl a (next_rid s) ?ec] =>
    pose proof (store_implicit_keeps cfg s s3 cl a ec Hi3 Hk3) as K; unfold issue_implicit in H;
    destruct (store_implicit cfg s3 cl a (next_rid s) ec) as [s4 ka] end.
  cbn [fst] in *. apply K.
  destruct (String.eqb (az_challenge a) "" && String.eqb (az_method a) ""); cbn in H; exact H.
Qed.

Lemma redeem_imp cfg s auth code redirect v vh : imp_sub (st s) (st (fst (redeem cfg s auth code redirect v vh))).
Proof.
  unfold redeem.
  destruct auth as [c|]; [|apply imp_sub_refl].
  destruct (clients s c) as [cl|]; [|apply imp_sub_refl].
  destruct (negb (args_has (cl_grants cl) ["authorization_code"])); [apply imp_sub_refl|].
  destruct (key_of s code) as [k|]; [|apply imp_sub_refl].
  destruct (codes (st s) k) as [[[|] r]|] eqn:Ec; [| |apply imp_sub_refl].
  - destruct (p_tampered code); [apply imp_sub_refl|].
    destruct (negb (Nat.eqb (r_client r) c)); [apply imp_sub_refl|].
    destruct (negb (String.eqb (r_redirect r) "") && negb (String.eqb (r_redirect r) redirect)); [apply imp_sub_refl|].
    assert (H1 : implicit (st (fst (pkce_token cfg s cl (Some k) v vh))) = implicit (st s))
      by (destruct (pkce_token_state cfg s cl (Some k) v vh) as [->|[k0 ->]]; reflexivity).
    destruct (pkce_token cfg s cl (Some k) v vh) as [s1 [e|]]; cbn [fst] in *; [now apply imp_sub_eq|].
    destruct (expired _ _ _ _); [now apply imp_sub_eq|].
    match goal with |- context [grant_tokens ?s2 ?stored ?w] =>
      pose proof (grant_tokens_imp s2 stored w) as G; destruct (grant_tokens s2 stored w) as [s3 minted] end.
    cbn [fst] in *. apply imp_sub_eq. transitivity (implicit (st s3)); [reflexivity|].
    rewrite G. cbn [st set_store]. rewrite invalidate_code_imp. exact H1.
  - cbn [fst fail st set_store].
    eapply imp_sub_trans; [apply revoke_access_imp|]. apply imp_sub_eq. apply revoke_refresh_imp.
Qed.

Lemma refresh_imp cfg s auth tok : imp_sub (st s) (st (fst (refresh_flow cfg s auth tok))).
Proof.
  unfold refresh_flow.
  destruct auth as [c|]; [|apply imp_sub_refl].
  destruct (clients s c) as [cl|]; [|apply imp_sub_refl].
  destruct (negb (args_has (cl_grants cl) ["refresh_token"])); [apply imp_sub_refl|].
  destruct (key_of s tok) as [k|]; cbn [find]; [|apply imp_sub_refl].
  destruct (refresh (st s) k) as [[[|] r]|] eqn:Er; [| |apply imp_sub_refl].
  - repeat match goal with |- context [if ?c then _ else _] => destruct c; [apply imp_sub_refl|] end.
    unfold rotate_refresh. pose proof (revoke_refresh_imp (st s) (r_id r)) as Td.
    destruct (revoke_refresh (st s) (r_id r)) as [st1 [e|]]; cbn [fst] in *; [cbn; now apply imp_sub_eq|].
    match goal with |- context [grant_tokens ?s2 ?stored ?w] =>
      pose proof (grant_tokens_imp s2 stored w) as G; destruct (grant_tokens s2 stored w) as [s3 minted] end.
    cbn in *. intros k0 r0 H. rewrite G in H. cbn in H. apply revoke_access_imp in H. now rewrite Td in H.
  - cbn [fst fail st set_store]. intros k0 r0 H. apply revoke_access_imp in H. now rewrite revoke_refresh_imp in H.
Qed.

Lemma revoke_imp cfg s auth tok h : imp_sub (st s) (st (fst (revoke cfg s auth tok h))).
Proof.
  unfold revoke.
  destruct auth as [c|]; [|apply imp_sub_refl].
  destruct (clients s c); [|apply imp_sub_refl].
  destruct (revoke_lookup s (key_of s tok) h) as [r|]; [|apply imp_sub_refl].
  destruct (negb (Nat.eqb (r_client r) c)); [apply imp_sub_refl|]. cbn [fst st set_store].
  intros k0 r0 H. apply revoke_access_imp in H. now rewrite revoke_refresh_imp in H.
Qed.

Lemma push_imp cfg s auth bc ru a : implicit (st (fst (push cfg s auth bc ru a))) = implicit (st s).
Proof.
  unfold push.
  destruct auth as [c|]; [|reflexivity]. destruct (clients s c); [|reflexivity].
  destruct ru; [reflexivity|].
  destruct (clients s _) as [cl|]; [|reflexivity].
  destruct (negb (scopes_ok cfg cl (az_scopes a))); [reflexivity|].
  destruct (negb (aud_ok cfg (cl_aud cl) (az_aud a))); [reflexivity|].
  destruct (negb (Nat.eqb _ c)); [reflexivity|].
  destruct (fresh_rid s) as [rid s1] eqn:E1. destruct (fresh_rid_spec _ _ _ E1) as [_ [_ [Hst1 _]]].
  destruct (mint s1 KPar rid) as [k s2] eqn:E2. destruct (mint_spec _ _ _ _ _ E2) as [_ [_ [Hst2 _]]].
  cbn. now rewrite Hst2, Hst1.
Qed.

Lemma device_authorize_imp cfg s auth bc sc au : implicit (st (fst (device_authorize cfg s auth bc sc au))) = implicit (st s).
Proof.
  unfold device_authorize.
  destruct auth as [c|]; [|reflexivity]. destruct (clients s c) as [cl|]; [|reflexivity].
  repeat match goal with |- context [if ?c then fail s _ else _] => destruct c; [reflexivity|] end.
  destruct (fresh_rid s) as [rid s1] eqn:E1. destruct (fresh_rid_spec _ _ _ E1) as [_ [_ [Hst1 _]]].
  destruct (mint s1 KDevice rid) as [kd s2] eqn:E2. destruct (mint_spec _ _ _ _ _ E2) as [_ [_ [Hst2 _]]].
  destruct (mint s2 KUser rid) as [ku s3] eqn:E3. destruct (mint_spec _ _ _ _ _ E3) as [_ [_ [Hst3 _]]].
  cbn. now rewrite Hst3, Hst2, Hst1.
Qed.

Lemma decide_imp cfg s dev acc g ga sub fr : implicit (st (fst (decide cfg s dev acc g ga sub fr))) = implicit (st s).
Proof.
  unfold decide.
  destruct (key_of s dev) as [k|]; [|reflexivity].
  destruct (device (st s) k) as [[b r]|]; [|reflexivity].
  destruct (expired _ _ _ _); reflexivity.
Qed.

Lemma device_poll_imp cfg s auth dev : imp_sub (st s) (st (fst (device_poll cfg s auth dev))).
Proof.
  unfold device_poll.
  destruct auth as [c|]; [|apply imp_sub_refl]. destruct (clients s c) as [cl|]; [|apply imp_sub_refl].
  destruct (negb (args_has (cl_grants cl) _)); [apply imp_sub_refl|].
  destruct (key_of s dev) as [k|]; [|apply imp_sub_refl].
  destruct (used_device cfg (st s) k) as [rid|].
  { cbn [fst fail st set_store]. eapply imp_sub_trans; [apply revoke_access_imp|]. apply imp_sub_eq. apply revoke_refresh_imp. }
  destruct (device (st s) k) as [[stt r]|]; [|apply imp_sub_refl].
  repeat match goal with |- context [if ?c then fail s _ else _] => destruct c; [apply imp_sub_refl|] end.
  match goal with |- context [grant_tokens ?s2 ?stored ?w] =>
    pose proof (grant_tokens_imp s2 stored w) as G; destruct (grant_tokens s2 stored w) as [s3 minted] end.
  cbn [fst] in *. apply imp_sub_eq. rewrite G. reflexivity.
Qed.

Theorem imp_keeps_step cfg s o : imp_keeps s (fst (step cfg s o)).
Proof.
  destruct o; cbn [step]; try (apply imp_keeps_eq; reflexivity);
    try (new_flows_tac s fresh_grant_imp ltac:(apply imp_keeps_eq; reflexivity); apply imp_keeps_eq; exact FGfact).
  - unfold authorize. destruct (cf_par_enforced cfg); [apply imp_keeps_eq; reflexivity|].
    destruct (clients s (az_client a)) as [cl|]; [|apply imp_keeps_eq; reflexivity].
    destruct (az_rtype a); [apply imp_keeps_eq, authorize_core_imp|apply authorize_implicit_keeps|apply authorize_hybrid_keeps].
  - apply imp_keeps_sub, redeem_imp.
  - apply imp_keeps_sub, refresh_imp.
  - apply imp_keeps_sub, revoke_imp.
  - apply imp_keeps_eq, push_imp.
  - apply imp_keeps_eq. rewrite ?authorize_par_fst; unfold authorize_par0.
    destruct (key_of s uri) as [k|]; [|reflexivity].
    destruct (par (st s) k) as [pr|]; [|reflexivity].
    repeat match goal with |- context [if ?c then fail _ _ else _] => destruct c; [reflexivity|] end.
    rewrite authorize_core_imp. reflexivity.
  - apply imp_keeps_eq, device_authorize_imp.
  - apply imp_keeps_eq, decide_imp.
  - apply imp_keeps_sub, device_poll_imp.
Qed.

(* ------------------------------------------------------------------ dead families, authorization-endpoint tokens included *)
Definition no_implicit_rid (x : store) (X : nat) : Prop := forall k r, implicit x k = Some r -> r_id r <> X.
Definition dead_all (x : store) (X : nat) : Prop := dead x X /\ no_implicit_rid x X.

Theorem no_implicit_step cfg s o X :
  no_implicit_rid (st s) X -> X < next_rid s -> no_implicit_rid (st (fst (step cfg s o))) X.
Proof.
  intros D Hlt k r H Heq. destruct (imp_keeps_step cfg s o k r H) as [H0|H0]; [exact (D k r H0 Heq)|lia].
Qed.

Theorem no_implicit_run cfg h : forall s X, no_implicit_rid (st s) X -> X < next_rid s -> no_implicit_rid (st (run cfg s h)) X.
Proof.
  unfold run. induction h as [|o h IH]; intros s X D Hlt; cbn [fold_left]; [assumption|].
  apply IH; [now apply no_implicit_step|]. pose proof (next_rid_step cfg s o). lia.
Qed.

Theorem dead_all_run cfg h s X : dead_all (st s) X -> X < next_rid s -> dead_all (st (run cfg s h)) X.
Proof. intros [D N] Hlt. split; [now apply dead_run|now apply no_implicit_run]. Qed.

(* no credential of the log that was minted for request id X is reported active: whatever its kind *)
Theorem dead_all_credential_inactive cfg s X i e tampered h scopes :
  Inv s -> dead_all (st s) X -> nth_error (log s) i = Some e -> i_rid e = X ->
  introspect cfg s {| p_ref := CRef i; p_tampered := tampered |} h scopes = None.
Proof.
  intros I [D N] Hn Hrid.
  destruct (ckind_eqb (i_kind e) KImplicit) eqn:Ek.
  - assert (Hk : i_kind e = KImplicit) by (destruct (i_kind e); try discriminate; reflexivity).
    assert (Ho : owner s (i_key e) = Some (KImplicit, X)).
    { rewrite <- Hrid, <- Hk. apply (inv_log_owner s I). eapply nth_error_In; eassumption. }
    assert (HA : introspect_access cfg s (Some (i_key e)) tampered scopes = None).
    { unfold introspect_access, lookup_access. destruct (access (st s) (i_key e)) as [r|] eqn:E.
      - exfalso. pose proof (inv_owner_access s I _ _ E) as Ho'. rewrite Ho in Ho'. discriminate.
      - destruct (implicit (st s) (i_key e)) as [r|] eqn:Ei; [|reflexivity].
        exfalso. pose proof (inv_owner_implicit s I _ _ Ei) as Ho'. rewrite Ho in Ho'. injection Ho' as Hx.
        exact (N _ _ Ei (eq_sym Hx)). }
    assert (HR : introspect_refresh cfg s (Some (i_key e)) tampered scopes = None).
    { unfold introspect_refresh. cbn [find]. destruct (refresh (st s) (i_key e)) as [[[|] r]|] eqn:E; try reflexivity.
      exfalso. pose proof (inv_owner_refresh s I _ _ _ E) as Ho'. rewrite Ho in Ho'. discriminate. }
    unfold introspect, key_of. cbn [p_ref p_tampered]. rewrite Hn. cbn [option_map].
    rewrite HA, HR. destruct (negb (cf_introspect_rt cfg)); [reflexivity|destruct h; reflexivity].
  - eapply dead_credential_inactive; try eassumption. intros Hk. rewrite Hk in Ek. discriminate.
Qed.

Lemma revoke_access_no_implicit x X : no_implicit_rid (revoke_access x X) X.
Proof. intros k r H. unfold revoke_access in H. cbn in H. now apply drop_rid_some in H as [_ Hn]. Qed.

Lemma kill_no_implicit x X :
  no_implicit_rid (revoke_access (fst (revoke_refresh x X)) X) X /\ no_implicit_rid (fst (revoke_refresh (revoke_access x X) X)) X.
Proof.
  split; [apply revoke_access_no_implicit|].
  intros k r H. rewrite revoke_refresh_imp in H. exact (revoke_access_no_implicit x X k r H).
Qed.

Theorem replay_kills_all cfg s c cl code redirect v vh k r :
  Inv s -> clients s c = Some cl -> args_has (cl_grants cl) ["authorization_code"] = true ->
  key_of s code = Some k -> codes (st s) k = Some (false, r) ->
  let res := redeem cfg s (Some c) code redirect v vh in
  o_err (snd res) = "invalid_grant" /\ o_minted (snd res) = [] /\ dead_all (st (fst res)) (r_id r).
Proof.
  intros I Hc Hg Hk Hcode. destruct (replay_kills cfg s c cl code redirect v vh k r I Hc Hg Hk Hcode) as [He [Hm Hd]].
  split; [exact He|]. split; [exact Hm|]. split; [exact Hd|].
  unfold redeem. rewrite Hc, Hg, Hk, Hcode. cbn [negb fst fail st set_store].
  apply (proj2 (kill_no_implicit (st s) (r_id r))).
Qed.

Theorem reuse_kills_all cfg s c cl tok k r :
  Inv s -> clients s c = Some cl -> args_has (cl_grants cl) ["refresh_token"] = true ->
  key_of s tok = Some k -> refresh (st s) k = Some (false, r) ->
  let res := refresh_flow cfg s (Some c) tok in
  o_err (snd res) = "invalid_grant" /\ o_minted (snd res) = [] /\ dead_all (st (fst res)) (r_id r).
Proof.
  intros I Hc Hg Hk Hr. destruct (reuse_kills cfg s c cl tok k r I Hc Hg Hk Hr) as [He [Hm Hd]].
  split; [exact He|]. split; [exact Hm|]. split; [exact Hd|].
  unfold refresh_flow. rewrite Hc, Hg, Hk. cbn [find negb]. rewrite Hr. cbn [fst fail st set_store].
  apply (proj1 (kill_no_implicit (delete_refresh (st s) k) (r_id r))).
Qed.

Theorem revoke_kills_all cfg s c cl tok h r :
  Inv s -> clients s c = Some cl -> revoke_lookup s (key_of s tok) h = Some r -> r_client r = c ->
  endpoint_token s tok ->
  let res := revoke cfg s (Some c) tok h in
  o_err (snd res) = "" /\ dead_all (st (fst res)) (r_id r).
Proof.
  intros I Hc Hl Hcl Hep. destruct (revoke_kills cfg s c cl tok h r I Hc Hl Hcl Hep) as [He Hd].
  split; [exact He|]. split; [exact Hd|].
  unfold revoke. rewrite Hc, Hl, Hcl, Nat.eqb_refl. cbn [negb fst st set_store].
  apply (proj1 (kill_no_implicit (st s) (r_id r))).
Qed.

(* an accepted revocation of ANY live token of a grant - the authorization endpoint's access token included - leaves no
   access token of that grant's request id, and none minted by the authorization endpoint ever comes back *)
Theorem revoke_removes_every_access_token cfg s c cl tok h r :
  Inv s -> clients s c = Some cl -> revoke_lookup s (key_of s tok) h = Some r -> r_client r = c ->
  let s' := fst (revoke cfg s (Some c) tok h) in
  o_err (snd (revoke cfg s (Some c) tok h)) = "" /\ no_access_rid (st s') (r_id r) /\ no_implicit_rid (st s') (r_id r).
Proof.
  intros I Hc Hl Hcl. unfold revoke. rewrite Hc, Hl, Hcl, Nat.eqb_refl. cbn [negb fst snd st set_store].
  split; [reflexivity|]. split.
  - pose proof (Inv_revoke_refresh s (r_id r) I) as I1.
    exact (revoke_access_no_access (set_store s (fst (revoke_refresh (st s) (r_id r)))) (r_id r) I1).
  - apply (proj1 (kill_no_implicit (st s) (r_id r))).
Qed.

(* in particular the presented authorization-endpoint token itself stays inactive after any further history *)
Theorem revoked_implicit_token_stays_inactive cfg s c cl tok hnt r h2 i e tampered h scopes :
  Inv s -> clients s c = Some cl -> revoke_lookup s (key_of s tok) hnt = Some r -> r_client r = c ->
  let s' := fst (revoke cfg s (Some c) tok hnt) in
  nth_error (log (run cfg s' h2)) i = Some e -> i_rid e = r_id r -> i_kind e = KImplicit ->
  introspect cfg (run cfg s' h2) {| p_ref := CRef i; p_tampered := tampered |} h scopes = None.
Proof.
  intros I Hc Hl Hcl s' Hn Hrid Hk.
  destruct (revoke_removes_every_access_token cfg s c cl tok hnt r I Hc Hl Hcl) as [_ [_ N]]. fold s' in N.
  assert (I' : Inv s') by (apply Inv_revoke; exact I).
  assert (Hlt : r_id r < next_rid s').
  { destruct (revoke_lookup_live _ _ _ _ Hl) as [k [_ [Ha|[[_ Hi]|Hr]]]].
    - pose proof (inv_owner_access s I _ _ Ha) as Ho. destruct (inv_owner_fresh s I _ _ _ Ho) as [_ Hx].
      pose proof (next_rid_step cfg s (ORevoke (Some c) tok hnt)) as Hs. cbn [step] in Hs. fold s' in Hs. lia.
    - pose proof (inv_owner_implicit s I _ _ Hi) as Ho. destruct (inv_owner_fresh s I _ _ _ Ho) as [_ Hx].
      pose proof (next_rid_step cfg s (ORevoke (Some c) tok hnt)) as Hs. cbn [step] in Hs. fold s' in Hs. lia.
    - pose proof (inv_owner_refresh s I _ _ _ Hr) as Ho. destruct (inv_owner_fresh s I _ _ _ Ho) as [_ Hx].
      pose proof (next_rid_step cfg s (ORevoke (Some c) tok hnt)) as Hs. cbn [step] in Hs. fold s' in Hs. lia. }
  pose proof (no_implicit_run cfg h2 s' (r_id r) N Hlt) as N2.
  pose proof (Inv_run cfg h2 s' I') as I2.
  assert (Ho : owner (run cfg s' h2) (i_key e) = Some (KImplicit, r_id r)).
  { rewrite <- Hrid, <- Hk. apply (inv_log_owner _ I2). eapply nth_error_In; eassumption. }
  assert (HA : introspect_access cfg (run cfg s' h2) (Some (i_key e)) tampered scopes = None).
  { unfold introspect_access, lookup_access. destruct (access (st (run cfg s' h2)) (i_key e)) as [r0|] eqn:E.
    - exfalso. pose proof (inv_owner_access _ I2 _ _ E) as Ho'. rewrite Ho in Ho'. discriminate.
    - destruct (implicit (st (run cfg s' h2)) (i_key e)) as [r0|] eqn:Ei; [|reflexivity].
      exfalso. pose proof (inv_owner_implicit _ I2 _ _ Ei) as Ho'. rewrite Ho in Ho'. injection Ho' as Hx.
      exact (N2 _ _ Ei (eq_sym Hx)). }
  assert (HR : introspect_refresh cfg (run cfg s' h2) (Some (i_key e)) tampered scopes = None).
  { unfold introspect_refresh. cbn [find]. destruct (refresh (st (run cfg s' h2)) (i_key e)) as [[[|] r0]|] eqn:E; try reflexivity.
    exfalso. pose proof (inv_owner_refresh _ I2 _ _ _ E) as Ho'. rewrite Ho in Ho'. discriminate. }
  unfold introspect, key_of. cbn [p_ref p_tampered]. rewrite Hn. cbn [option_map].
  rewrite HA, HR. destruct (negb (cf_introspect_rt cfg)); [reflexivity|destruct h; reflexivity].
Qed.

(* over a whole history: a record of the table was there before, or belongs to a request id that did not exist yet *)
Theorem imp_keeps_run cfg h : forall s k r,
  implicit (st (run cfg s h)) k = Some r -> implicit (st s) k = Some r \/ next_rid s <= r_id r.
Proof.
  unfold run. induction h as [|o h IH]; intros s k r H; cbn [fold_left] in H; [left; exact H|].
  destruct (IH _ _ _ H) as [H0|H0].
  - destruct (imp_keeps_step cfg s o k r H0) as [H1|H1]; [left; exact H1|right; lia].
  - right. pose proof (next_rid_step cfg s o). lia.
Qed.
