(* C20, first half: theorems about the error renderers (Model/Errors.v) and the Write* functions
   (Model/Writers.v), for all strings, all error chains, all configurations. *)
From FositeModel Require Import Base.Str Model.Errors Model.Writers.

(* ---------------------------------------------------------------- strings *)
Fixpoint chars (s : string) : list ascii :=
  match s with EmptyString => [] | String c r => c :: chars r end.

Lemma replace_dq_chars s : ~ In dq (chars (replace_dq s)).
Proof.
  induction s as [|c s IH]; cbn [chars replace_dq In]; [tauto|].
  intros [H|H]; [|tauto]. revert H.
  destruct (Ascii.eqb_spec c dq) as [E|E]; [vm_compute; intros X; discriminate X|congruence].
Qed.

(* the rendered description never contains a double quote, whatever description, hint and debug are *)
Theorem description_no_dquote e : ~ In dq (chars (get_description e)).
Proof. unfold get_description. apply replace_dq_chars. Qed.

Lemma replace_dq_app a b : replace_dq (a ++ b) = replace_dq a ++ replace_dq b.
Proof. induction a as [|c a IH]; cbn; [reflexivity|now rewrite IH]. Qed.

(* declarative reading of GetDescription: description, then the hint if there is one, then the debug
   text if there is one and exposure is on; all with quotes neutralised *)
Definition description_spec (e : rfcerr) (d : string) : Prop :=
  exists hint_part debug_part,
    d = replace_dq (e_desc e) ++ hint_part ++ debug_part /\
    (e_hint e = "" /\ hint_part = "" \/ e_hint e <> "" /\ hint_part = " " ++ replace_dq (e_hint e)) /\
    ((e_debug e = "" \/ e_expose e = false) /\ debug_part = "" \/
     (e_debug e <> "" /\ e_expose e = true) /\ debug_part = " " ++ replace_dq (e_debug e)).

Lemma nonempty_false s : nonempty s = false <-> s = "".
Proof. unfold nonempty. destruct (String.eqb_spec s ""); cbn; split; congruence. Qed.
Lemma nonempty_true s : nonempty s = true <-> s <> "".
Proof. unfold nonempty. destruct (String.eqb_spec s ""); cbn; split; congruence. Qed.

Lemma app_empty_r (s : string) : s ++ "" = s.
Proof. induction s; cbn; congruence. Qed.
Lemma app_assoc_s (a b c : string) : (a ++ b) ++ c = a ++ b ++ c.
Proof. induction a; cbn; congruence. Qed.

Theorem get_description_spec e : description_spec e (get_description e).
Proof.
  unfold description_spec, get_description.
  destruct (nonempty (e_hint e)) eqn:Hh; destruct (nonempty (e_debug e)) eqn:Hd; destruct (e_expose e) eqn:Hx; cbn [andb];
    repeat match goal with
           | H : nonempty _ = true |- _ => apply nonempty_true in H
           | H : nonempty _ = false |- _ => apply nonempty_false in H
           end.
  all: repeat rewrite replace_dq_app; cbn [replace_dq].
  all: try replace (if Ascii.eqb " " dq then sq else " "%char) with " "%char by reflexivity.
  - exists (" " ++ replace_dq (e_hint e)), (" " ++ replace_dq (e_debug e)).
    repeat split; [now rewrite !app_assoc_s|right; tauto|right; tauto].
  - exists (" " ++ replace_dq (e_hint e)), "". rewrite app_empty_r. repeat split; [right; tauto|left; tauto].
  - exists (" " ++ replace_dq (e_hint e)), "". rewrite app_empty_r. repeat split; [right; tauto|left; tauto].
  - exists (" " ++ replace_dq (e_hint e)), "". rewrite app_empty_r. repeat split; [right; tauto|left; tauto].
  - exists "", (" " ++ replace_dq (e_debug e)). repeat split; [left; tauto|right; tauto].
  - exists "", "". cbn. rewrite app_empty_r. repeat split; [left; tauto|left; tauto].
  - exists "", "". cbn. rewrite app_empty_r. repeat split; [left; tauto|left; tauto].
  - exists "", "". cbn. rewrite app_empty_r. repeat split; [left; tauto|left; tauto].
Qed.

(* ---------------------------------------------------------------- debug only when exposed: renderers *)
Theorem description_hides_debug e d1 d2 :
  e_expose e = false -> get_description (with_debug d1 e) = get_description (with_debug d2 e).
Proof. intros H. unfold get_description. cbn. rewrite H, !andb_false_r. reflexivity. Qed.

Theorem marshal_json_hides_debug e d1 d2 :
  e_expose e = false -> marshal_json (with_debug d1 e) = marshal_json (with_debug d2 e).
Proof.
  intros H. unfold marshal_json. cbn [e_legacy e_expose e_name e_desc e_hint e_code e_debug with_debug].
  rewrite H. rewrite (description_hides_debug e d1 d2 H). reflexivity.
Qed.

Theorem to_values_hides_debug e d1 d2 :
  e_expose e = false -> to_values (with_debug d1 e) = to_values (with_debug d2 e).
Proof.
  intros H. unfold to_values. cbn [e_legacy e_expose e_name e_desc e_hint e_code e_debug with_debug].
  rewrite H, !andb_false_r. rewrite (description_hides_debug e d1 d2 H). reflexivity.
Qed.

(* with exposure on, a non-empty debug text is rendered (the switch is not vacuous) *)
Theorem description_shows_debug e :
  e_expose e = true -> e_debug e <> "" ->
  exists prefix, get_description e = prefix ++ " " ++ replace_dq (e_debug e).
Proof.
  intros Hx Hd. unfold get_description. rewrite Hx. apply nonempty_true in Hd. rewrite Hd. cbn [andb].
  rewrite replace_dq_app. cbn [replace_dq].
  replace (if Ascii.eqb " " dq then sq else " "%char) with " "%char by reflexivity.
  eexists. reflexivity.
Qed.

(* ---------------------------------------------------------------- debug only when exposed: every writer *)
Definition scrub_err (e : rfcerr) : rfcerr := with_debug "" e.
Definition scrub_go (g : goerr) : goerr :=
  mkGo (map scrub_err (g_rfcs g)) (match g_tail g with Some _ => Some "" | None => None end).
Definition scrub_call (c : wcall) : wcall :=
  match c with
  | WAccessError g => WAccessError (scrub_go g)
  | WAuthorizeError ar g => WAuthorizeError ar (scrub_go g)
  | WIntrospectionError (Some g) => WIntrospectionError (Some (scrub_go g))
  | WRevocationResponse a b (Some g) => WRevocationResponse a b (Some (scrub_go g))
  | WParError g => WParError (scrub_go g)
  | c => c
  end.

Lemma as_rfc_scrub g : as_rfc (scrub_go g) = scrub_err (as_rfc g).
Proof. destruct g as [[|e r] [t|]]; reflexivity. Qed.

Lemma err_is_scrub g n c : err_is (scrub_go g) n c = err_is g n c.
Proof.
  unfold err_is, scrub_go. cbn [g_rfcs]. induction (g_rfcs g) as [|e r IH]; [reflexivity|].
  cbn. rewrite IH. reflexivity.
Qed.

Lemma cfg_err_scrub cfg g :
  c_expose cfg = false ->
  marshal_json (cfg_err cfg (scrub_go g)) = marshal_json (cfg_err cfg g) /\
  to_values (cfg_err cfg (scrub_go g)) = to_values (cfg_err cfg g) /\
  e_code (cfg_err cfg (scrub_go g)) = e_code (cfg_err cfg g).
Proof.
  intros H. unfold cfg_err. rewrite as_rfc_scrub, H.
  set (e := as_rfc g).
  change (with_expose false (with_legacy (c_legacy cfg) (scrub_err e)))
    with (with_debug "" (with_expose false (with_legacy (c_legacy cfg) e))).
  replace (with_expose false (with_legacy (c_legacy cfg) e))
    with (with_debug (e_debug e) (with_expose false (with_legacy (c_legacy cfg) e))) at 2 4 6
    by (destruct e; reflexivity).
  repeat split.
  - apply marshal_json_hides_debug. reflexivity.
  - apply to_values_hides_debug. reflexivity.
Qed.

(* With debug exposure off, blanking every debug text and every foreign error message of the error
   handed to a writer does not change a single byte of the abstract response: status, all headers,
   redirect target and parameters, body.  (Non-interference; hence two errors that differ only in
   debug detail are indistinguishable to the client.) *)
Theorem writers_hide_debug cfg c :
  c_expose cfg = false -> write cfg (scrub_call c) = write cfg c.
Proof.
  intros H. destruct c as [g| |ar g| |[g|]| |a b [g|]| |g|]; cbn [scrub_call write]; try reflexivity.
  - unfold write_json_error. destruct (cfg_err_scrub cfg g H) as (-> & _ & ->). reflexivity.
  - unfold write_authorize_error. destruct (cfg_err_scrub cfg g H) as (-> & -> & ->). reflexivity.
  - unfold write_introspection_error. rewrite !err_is_scrub.
    unfold write_json_error. destruct (cfg_err_scrub cfg g H) as (-> & _ & ->). reflexivity.
  - unfold write_revocation_response. rewrite !err_is_scrub. reflexivity.
  - unfold write_par_error. destruct (cfg_err_scrub cfg g H) as (-> & _ & ->). reflexivity.
Qed.

Corollary writers_noninterference cfg c1 c2 :
  c_expose cfg = false -> scrub_call c1 = scrub_call c2 -> write cfg c1 = write cfg c2.
Proof. intros H E. rewrite <- (writers_hide_debug cfg c1 H), <- (writers_hide_debug cfg c2 H), E. reflexivity. Qed.

(* ---------------------------------------------------------------- header maps *)
Lemma vget_vset_eq k v m : vget k (vset k v m) = [v].
Proof.
  induction m as [|[k' vs] r IH]; cbn; [now rewrite String.eqb_refl|].
  destruct (String.eqb k k') eqn:E; cbn; [now rewrite String.eqb_refl|now rewrite E].
Qed.
Lemma vget_vset_neq k k' v m : k <> k' -> vget k (vset k' v m) = vget k m.
Proof.
  intros N. induction m as [|[k2 vs] r IH]; cbn.
  - destruct (String.eqb_spec k k'); [congruence|reflexivity].
  - destruct (String.eqb_spec k' k2) as [->|N2]; cbn.
    + destruct (String.eqb_spec k k2); [congruence|reflexivity].
    + destruct (String.eqb_spec k k2); [reflexivity|apply IH].
Qed.
Lemma vget_vadd_eq k v m : vget k (vadd k v m) = (vget k m ++ [v])%list.
Proof.
  induction m as [|[k' vs] r IH]; cbn; [now rewrite String.eqb_refl|].
  destruct (String.eqb k k') eqn:E; cbn; [now rewrite String.eqb_refl|now rewrite E].
Qed.
Lemma vget_vadd_neq k k' v m : k <> k' -> vget k (vadd k' v m) = vget k m.
Proof.
  intros N. induction m as [|[k2 vs] r IH]; cbn.
  - destruct (String.eqb_spec k k'); [congruence|reflexivity].
  - destruct (String.eqb_spec k' k2) as [->|N2]; cbn.
    + destruct (String.eqb_spec k k2); [congruence|reflexivity].
    + destruct (String.eqb_spec k k2); [reflexivity|apply IH].
Qed.

(* the value a header has after a sequence of operations, when its last write was a Set *)
Fixpoint last_set (k : string) (ops : list hop) (acc : option string) : option string :=
  match ops with
  | [] => acc
  | HSet k' v :: r => last_set k r (if String.eqb k k' then Some v else acc)
  | HAdd k' v :: r => last_set k r (if String.eqb k k' then None else acc)
  end.

Lemma last_set_sound k ops : forall h acc,
  (forall v, acc = Some v -> vget k h = [v]) ->
  forall v, last_set k ops acc = Some v -> vget k (fold_left hrun1 ops h) = [v].
Proof.
  induction ops as [|o ops IH]; intros h acc Hacc v; cbn.
  - apply Hacc.
  - destruct o as [k' x|k' x]; cbn [hrun1]; apply IH; intros w.
    + destruct (String.eqb_spec k k') as [<-|N]; intros E.
      * injection E as <-. apply vget_vset_eq.
      * rewrite vget_vset_neq by assumption. now apply Hacc.
    + destruct (String.eqb_spec k k') as [<-|N]; intros E; [discriminate|].
      rewrite vget_vadd_neq by assumption. now apply Hacc.
Qed.

Lemma last_set_app k a b acc : last_set k (a ++ b) acc = last_set k b (last_set k a acc).
Proof. revert acc. induction a as [|o a IH]; intros acc; cbn; [reflexivity|]. destruct o; apply IH. Qed.

Lemma hrun_last k ops v : last_set k ops None = Some v -> vget k (hrun ops) = [v].
Proof. intros H. unfold hrun. eapply last_set_sound; [|exact H]. discriminate. Qed.

(* Every path of every writer leaves Cache-Control: no-store and Pragma: no-cache in the header
   map, whatever custom headers the responder carries (including its own Cache-Control / Pragma)
   and whatever the error, configuration or response mode. *)
Theorem writers_set_cache_headers cfg c r :
  write cfg c = Some r ->
  vget "Cache-Control" (r_headers r) = ["no-store"] /\ vget "Pragma" (r_headers r) = ["no-cache"].
Proof.
  intros W.
  assert (forall ops,
            (forall a, last_set "Cache-Control" ops a = Some "no-store") ->
            (forall a, last_set "Pragma" ops a = Some "no-cache") ->
            vget "Cache-Control" (hrun ops) = ["no-store"] /\ vget "Pragma" (hrun ops) = ["no-cache"]) as K.
  { intros ops H1 H2. split; apply hrun_last; [apply H1|apply H2]. }
  destruct c as [g|f|ar g|ar cu p|[g|]|a|sir sic og|cu f|g|cu dc uc vu vuc ex iv]; cbn [write] in W.
  - injection W as <-. unfold write_json_error. cbn [r_headers]. apply K; intros a; reflexivity.
  - injection W as <-. unfold write_access_response. cbn [r_headers]. apply K; intros a; reflexivity.
  - injection W as <-. unfold write_authorize_error.
    repeat match goal with |- context [if ?b then _ else _] => destruct b end; cbn [r_headers];
      (apply K; intros a; reflexivity).
  - injection W as <-. unfold write_authorize_response.
    repeat match goal with |- context [if ?b then _ else _] => destruct b end; cbn [r_headers];
      (apply K; intros a; rewrite ?last_set_app; reflexivity).
  - unfold write_introspection_error in W.
    destruct (negb _ && _) in W; injection W as <-; [unfold write_json_error|]; cbn [r_headers];
      (apply K; intros a; reflexivity).
  - discriminate.
  - injection W as <-. unfold write_introspection_response. cbn [r_headers]. apply K; intros x; reflexivity.
  - injection W as <-. unfold write_revocation_response. destruct og as [g|].
    + repeat match goal with |- context [if ?b then _ else _] => destruct b end; cbn [r_headers];
        (apply K; intros a; reflexivity).
    + cbn [r_headers]. apply K; intros a; reflexivity.
  - injection W as <-. unfold write_par_response. cbn [r_headers].
    apply K; intros a; rewrite ?last_set_app; reflexivity.
  - injection W as <-. unfold write_par_error. cbn [r_headers]. apply K; intros a; reflexivity.
  - injection W as <-. unfold write_device_response. cbn [r_headers].
    apply K; intros a; rewrite ?last_set_app; reflexivity.
Qed.

(* ... and the only call that writes nothing is WriteIntrospectionError(nil) *)
Theorem writers_always_respond cfg c : write cfg c = None -> c = WIntrospectionError None.
Proof. destruct c as [| | | |[g|]| | | | |]; cbn; try discriminate; [|reflexivity]. unfold write_introspection_error. destruct (_ && _); discriminate. Qed.
