(* The executable specification of Cases/CasesC11.v (the monitor) against the model:
   on every case whose observation the model reproduces (corr = None) the monitor is silent, except
   for the two recorded defects, which the faithful model reproduces and the monitor names:
     "werr:empty_redirect_uri"                      (error writer on a non-nil empty RedirectURI)
     "form_post:action_replaced_by_html_template"   (form_post towards a non-http(s) scheme)
   So an alarm with any other tag can only come from code that differs from the model. *)
From Coq Require Import Permutation.
From FositeModel Require Proofs.MonitorC12.
From FositeModel Require Import Base.Str Model.Redirect Cases.CasesC11 Proofs.RedirectProofs.

(* ------------------------------------------------------------------ multisets *)

Lemma pair_eqb_spec a b : reflect (a = b) (pair_eqb a b).
Proof.
  destruct a as [a1 a2], b as [b1 b2]. unfold pair_eqb. cbn.
  destruct (String.eqb_spec a1 b1), (String.eqb_spec a2 b2); cbn; constructor; congruence.
Qed.

Lemma remove1_perm x l l' : remove1 x l = Some l' -> Permutation l (x :: l').
Proof.
  revert l'. induction l as [|y r IH]; cbn; [easy|]. intros l'.
  destruct (pair_eqb_spec x y) as [->|N].
  - intros H. injection H as <-. reflexivity.
  - destruct (remove1 x r) as [r'|]; [|easy]. intros H. injection H as <-.
    rewrite (IH r' eq_refl). apply perm_swap.
Qed.

Lemma remove1_in x l : In x l -> exists l', remove1 x l = Some l'.
Proof.
  induction l as [|y r IH]; cbn; [easy|]. intros [->|H].
  - destruct (pair_eqb_spec x x); [eauto|congruence].
  - destruct (pair_eqb_spec x y); [eauto|]. destruct (IH H) as [l' ->]. eauto.
Qed.

Lemma perm_b_perm a b : perm_b a b = true <-> Permutation a b.
Proof.
  revert b. induction a as [|x r IH]; intros b; cbn.
  - destruct b; split; try easy. intros H. apply Permutation_nil in H. discriminate.
  - destruct (remove1 x b) as [b'|] eqn:R.
    + rewrite IH. apply remove1_perm in R. split.
      * intros H. rewrite R. now constructor.
      * intros H. rewrite R in H. now apply Permutation_cons_inv in H.
    + split; [easy|]. intros H.
      assert (Hin : In x b) by (eapply Permutation_in; [exact H|now left]).
      destruct (remove1_in _ _ Hin). congruence.
Qed.

Lemma perm_filter {A} (f : A -> bool) l l' : Permutation l l' -> Permutation (filter f l) (filter f l').
Proof.
  induction 1; cbn.
  - constructor.
  - destruct (f x); [now constructor|assumption].
  - destruct (f x), (f y); try reflexivity. apply perm_swap.
  - etransitivity; eassumption.
Qed.

Lemma has_key_in k v p : In (k, v) p -> has_key k p = true.
Proof.
  intros H. unfold has_key. apply existsb_exists. exists (k, v). split; [assumption|]. cbn. apply String.eqb_refl.
Qed.

Lemma strip_app P (a b : pairs) : strip P (a ++ b)%list = (strip P a ++ strip P b)%list.
Proof. apply filter_app. Qed.

Lemma strip_within P sub : (forall kv, In kv sub -> has_key (fst kv) P = true) -> strip P sub = [].
Proof.
  induction sub as [|x r IH]; intros H; cbn; [reflexivity|].
  rewrite (H x (or_introl eq_refl)). cbn. apply IH. intros kv Hin. apply H. now right.
Qed.

Lemma strip_self P : strip P P = [].
Proof. apply strip_within. intros [k v] H. cbn. eapply has_key_in; eassumption. Qed.

Lemma strip_pairs_set P k v acc : has_key k P = true -> strip P (pairs_set k v acc) = strip P acc.
Proof.
  intros Hk. unfold pairs_set. rewrite strip_app. cbn. rewrite Hk. cbn. rewrite app_nil_r.
  unfold strip. induction acc as [|x r IH]; cbn; [reflexivity|].
  destruct (String.eqb_spec (fst x) k) as [E|E]; cbn.
  - rewrite E, Hk. cbn. assumption.
  - destruct (has_key (fst x) P); cbn; [assumption|now rewrite IH].
Qed.

Lemma strip_set_all (P all params acc : pairs) :
  (forall kv, In kv params -> has_key (fst kv) P = true) ->
  strip P (fold_left (fun acc (kv : string * string) => pairs_set (fst kv) (pairs_get (fst kv) all) acc) params acc) = strip P acc.
Proof.
  revert acc. induction params as [|x r IH]; intros acc H; cbn [fold_left]; [reflexivity|].
  rewrite IH by (intros kv Hin; apply H; now right).
  apply strip_pairs_set. apply H. now left.
Qed.

Lemma keys_within_perm params fp : Permutation params fp -> keys_within fp params = true.
Proof.
  intros H. unfold keys_within. apply forallb_forall. intros [k v] Hin.
  apply Permutation_sym in H. cbn. eapply has_key_in. eapply Permutation_in; eassumption.
Qed.

(* ------------------------------------------------------------------ the boolean specification and the model *)

Lemma is_valid_b u : is_valid_redirect_uri u = u_requrl u && String.eqb (u_frag u) "".
Proof. unfold is_valid_redirect_uri. destruct (u_requrl u); cbn; [|reflexivity]. now destruct (String.eqb (u_frag u) ""). Qed.

Lemma loopback_rule_b_model req b : loopback_rule_b req b = is_matching_as_loopback req b.
Proof. unfold loopback_rule_b, is_matching_as_loopback. now destruct (u_ok b). Qed.

Lemma registered_b_model req regs : registered_b req regs = is_some (match_loop req regs).
Proof.
  unfold registered_b. induction regs as [|b r IH]; cbn; [reflexivity|].
  rewrite loopback_rule_b_model, IH.
  destruct (String.eqb (u_raw b) (u_raw req)); cbn; [reflexivity|].
  now destruct (is_matching_as_loopback req b).
Qed.

(* the candidates of the specification are headed by the model's answer *)
Lemma candidates_model req regs :
  candidates req regs =
  match match_redirect req regs with
  | Some u => u :: (if String.eqb (u_raw req) "" then [] else filter well_formed_b regs)
  | None => []
  end.
Proof.
  unfold candidates. destruct (String.eqb_spec (u_raw req) "") as [E|E].
  - rewrite (match_redirect_empty _ _ E). destruct regs as [|b [|c r]]; try reflexivity.
    unfold well_formed_b. rewrite is_valid_b, andb_assoc. now destruct (u_ok b && u_requrl b && String.eqb (u_frag b) "").
  - rewrite (match_redirect_nonempty _ _ E). unfold qualifies_b, well_formed_b.
    destruct (String.eqb_spec (u_raw req) ""); [contradiction|]. cbn [negb andb].
    rewrite registered_b_model, is_valid_b.
    destruct (u_ok req); cbn [andb]; [|reflexivity].
    destruct (match_loop req regs); cbn [is_some andb]; [|reflexivity].
    now destruct (u_requrl req && String.eqb (u_frag req) "").
Qed.

Lemma srev_acc_app s acc : srev_acc s acc = srev_acc s "" ++ acc.
Proof.
  revert acc. induction s as [|c r IH]; intros acc; cbn; [reflexivity|].
  rewrite IH, (IH (String c "")). rewrite MonitorC12.append_assoc. reflexivity.
Qed.

Lemma srev_app a b : srev (a ++ b) = srev b ++ srev a.
Proof.
  unfold srev. induction a as [|c r IH]; cbn.
  - induction (srev_acc b ""); cbn; congruence.
  - rewrite srev_acc_app, IH, (srev_acc_app r (String c "")). apply MonitorC12.append_assoc.
Qed.

Lemma srev_involutive s : srev (srev s) = s.
Proof.
  induction s as [|c r IH]; [reflexivity|].
  change (String c r) with (String c "" ++ r) at 1. rewrite srev_app, srev_app, IH. reflexivity.
Qed.

Lemma localhost_suffix_b hn : has_prefix (srev ".localhost") (srev hn) = has_suffix ".localhost" hn.
Proof.
  destruct (has_suffix ".localhost" hn) eqn:S.
  - apply has_suffix_iff in S as [p ->]. apply MonitorC12.has_prefix_iff. exists (srev p). apply srev_app.
  - destruct (has_prefix (srev ".localhost") (srev hn)) eqn:P; [|reflexivity].
    apply MonitorC12.has_prefix_iff in P as [r Hr].
    assert (hn = srev r ++ ".localhost").
    { rewrite <- (srev_involutive hn), Hr, srev_app, srev_involutive. reflexivity. }
    assert (has_suffix ".localhost" hn = true) by (apply has_suffix_iff; eauto). congruence.
Qed.

Lemma localhost_b_model u : localhost_b u = is_localhost u.
Proof.
  unfold localhost_b, is_localhost. rewrite localhost_suffix_b.
  destruct (String.eqb (u_hostname u) "localhost"), (has_suffix ".localhost" (u_hostname u)), (u_loop u); reflexivity.
Qed.

Lemma transport_ok_model ck u : transport_ok ck u = secure_checker ck u.
Proof.
  destruct ck; cbn; unfold is_redirect_uri_secure, is_redirect_uri_secure_strict; rewrite ?localhost_b_model; try reflexivity.
  now destruct (String.eqb (u_scheme u) "http"), (is_localhost u).
Qed.

(* ------------------------------------------------------------------ written responses *)

(* what either writer produces for target u *)
Inductive written_for (u : purl) (params : pairs) : mresp -> Prop :=
| WF_form : written_for u params (MForm (form_action u) params)
| WF_frag hq : written_for u params (MRedirect (u_base u) hq (QVerbatim (u_rawq u)) (FrParams params))
| WF_plain hq : written_for u params (MRedirect (u_base u) hq (QVerbatim (u_rawq u)) FrNone)
| WF_query hq q : strip params q = strip params (u_q u) ->
    written_for u params (MRedirect (u_base u) hq (QPairs q) FrNone).

Lemma write_error_written ar params u :
  ar_redirect ar = Some u -> is_redirect_uri_valid (ar_redirect ar) (ar_client ar) = true ->
  written_for u params (write_authorize_error ar params).
Proof.
  intros H V. unfold write_authorize_error. rewrite V, H. cbn [negb].
  destruct (ar_mode ar); try constructor.
  all: rewrite strip_app, strip_self; reflexivity.
Qed.

Lemma write_response_written ar params u :
  ar_redirect ar = Some u -> u_frag u = "" ->
  written_for u params (write_authorize_response ar params).
Proof.
  intros H F. unfold write_authorize_response. rewrite H, F. cbn [String.eqb].
  destruct (ar_mode ar); try constructor.
  1,2: apply strip_set_all; intros [k v] Hin; cbn; eapply has_key_in; eassumption.
  destruct (nonempty params); constructor.
Qed.

Definition quiet (t : option string) : Prop := t = None \/ t = Some zgot_tag.

Lemma target_check_written u params m o :
  written_for u params m -> wmatch m o = true -> quiet (target_check u params o).
Proof.
  intros W M. destruct W; destruct o; cbn in M; try discriminate.
  - (* form *)
    apply andb_true_iff in M as [A _]. apply String.eqb_eq in A. subst action. cbn.
    destruct (String.eqb (form_action u) (url_string_nofrag u)); [now left|].
    destruct (String.eqb (form_action u) "#ZgotmplZ"); [now right|].
    rewrite String.eqb_refl. now left.
  - (* fragment *)
    rewrite !andb_true_iff in M. destruct M as [[[B _] Q] [Hf P]].
    apply String.eqb_eq in B, Q. subst base rawq. cbn.
    rewrite !String.eqb_refl. cbn. apply perm_b_perm in P. rewrite (keys_within_perm _ _ P).
    destruct hasf; now left.
  - rewrite !andb_true_iff in M. destruct M as [[[B _] Q] Hf].
    apply String.eqb_eq in B, Q. subst base rawq. cbn.
    rewrite !String.eqb_refl. cbn. destruct hasf; [discriminate|now left].
  - rewrite !andb_true_iff in M. destruct M as [[[B _] Q] Hf].
    apply String.eqb_eq in B. subst base. cbn. rewrite String.eqb_refl. cbn.
    apply perm_b_perm in Q.
    assert (P : perm_b (strip params qp) (strip params (u_q u)) = true).
    { apply perm_b_perm. rewrite <- H. apply Permutation_sym. unfold strip. now apply perm_filter. }
    rewrite P, orb_true_r. cbn. destruct hasf; [discriminate|now left].
Qed.

Lemma wmatch_redirects m o : wmatch m o = true -> redirects o = true -> is_redirect m.
Proof. destruct m, o; cbn; try easy. Qed.

Lemma first_target_check_quiet cs params o first :
  quiet first -> (forall c, In c cs -> True) ->
  (exists c rest, cs = c :: rest /\ quiet (target_check c params o)) ->
  quiet (first_target_check cs params o None).
Proof.
  intros _ _ [c [rest [-> Q]]]. cbn.
  destruct Q as [Q|Q]; rewrite Q; [now left|].
  (* the head answered with the recorded tag: whatever follows, the result is None or that tag *)
  assert (G : forall l, quiet (first_target_check l params o (Some zgot_tag))).
  { induction l as [|x r IH]; cbn; [now right|]. destruct (target_check x params o); [apply IH|now left]. }
  apply G.
Qed.

Lemma mon_written_quiet pre req regs params o u m :
  match_redirect req regs = Some u -> written_for u params m -> wmatch m o = true ->
  quiet (mon_written pre req regs params o).
Proof.
  intros M W Hm. unfold mon_written. destruct (redirects o); cbn [negb]; [|now left].
  rewrite candidates_model, M.
  assert (Q := target_check_written _ _ _ _ W Hm).
  set (rest := if String.eqb (u_raw req) "" then [] else filter well_formed_b regs).
  assert (F : quiet (first_target_check (u :: rest) params o None)).
  { apply (first_target_check_quiet _ _ _ None); [now left|trivial|]. exists u, rest. auto. }
  destruct F as [F|F]; rewrite F; [now left|]. right. unfold tag. now rewrite String.eqb_refl.
Qed.

(* ------------------------------------------------------------------ the endpoint model's targets *)

Lemma new_request_match e ar err u :
  new_authorize_request e = (ar, err) -> ar_redirect ar = Some u ->
  exists regs, e_client e = Some regs /\ match_redirect (e_req e) regs = Some u /\ u_frag u = "".
Proof.
  intros N H. destruct (new_request_redirect _ _ _ _ N H) as [regs [C [_ [S _]]]].
  exists regs. split; [assumption|]. apply match_redirect_spec in S. split; [assumption|].
  now apply match_redirect_sound in S as [[_ [_ F]] _].
Qed.

Lemma error_written_or_direct ar params :
  write_authorize_error ar params = MDirect \/
  exists u, ar_redirect ar = Some u /\ written_for u params (write_authorize_error ar params).
Proof.
  destruct (is_redirect_uri_valid (ar_redirect ar) (ar_client ar)) eqn:V.
  - right. pose proof V as V'. apply is_redirect_uri_valid_spec in V' as [u [regs [v [H _]]]].
    exists u. split; [assumption|]. now apply write_error_written.
  - left. unfold write_authorize_error. now rewrite V.
Qed.

Lemma wmatch_direct o : wmatch MDirect o = true -> redirects o = false.
Proof. destruct o; cbn; easy. Qed.

Lemma mon_written_not_redirect pre req regs params o : redirects o = false -> mon_written pre req regs params o = None.
Proof. intros H. unfold mon_written. now rewrite H. Qed.

Lemma wmatch_not_redirect m o : wmatch m o = true -> redirects o = false -> m <> MPanic -> is_direct o = true.
Proof. destruct m, o; cbn; try easy. Qed.

Lemma write_response_never_panics ar params u : ar_redirect ar = Some u -> write_authorize_response ar params <> MPanic.
Proof. intros H. unfold write_authorize_response. rewrite H. destruct (ar_mode ar); discriminate. Qed.

Lemma endpoint_never_panics e params err m : authorize_endpoint e params = (err, m) -> m <> MPanic.
Proof.
  unfold authorize_endpoint. destruct (new_authorize_request e) as [ar er].
  assert (R : new_authorize_response e ar = true -> write_authorize_response ar params <> MPanic).
  { unfold new_authorize_response. destruct (ar_redirect ar) as [u|] eqn:Hu; [|discriminate].
    intros _. eapply write_response_never_panics; eassumption. }
  destruct er; [intros H; injection H as <- <-; apply write_error_never_panics|].
  destruct (e_fail e); try (intros H; injection H as <- <-; apply write_error_never_panics).
  all: destruct (new_authorize_response e ar); intros H; injection H as <- <-; auto using write_error_never_panics.
Qed.

(* ------------------------------------------------------------------ the theorem *)

Definition recorded (t : option string) : Prop :=
  t = None \/ t = Some "werr:empty_redirect_uri" \/ t = Some zgot_tag.

Lemma quiet_recorded t : quiet t -> recorded t.
Proof. intros [H|H]; [now left|right; now right]. Qed.

Lemma corr_of_none same strs : corr_of same strs = None -> same = true.
Proof. unfold corr_of. destruct strs, same; cbn; easy. Qed.

Theorem monitor_silent_on_model c :
  corr (check c) = None -> recorded (mon (check c)).
Proof.
  destruct c as [req regs impl | u impl | u secure strict localhost | ru cl impl | ar params o
                | e params impl_err o | e accepted follow]; cbn [check corr mon].
  - (* KMatch *)
    intros H. apply corr_of_none in H. unfold mon_match. destruct impl as [r|]; [|now left].
    destruct (match_redirect req regs) as [u|] eqn:M; cbn in H; [|discriminate].
    rewrite !andb_true_iff in H. destruct H as [[H1 H2] H3].
    apply String.eqb_eq in H1, H3. apply eqb_prop in H2.
    rewrite candidates_model, M. cbn [existsb]. rewrite H1, String.eqb_refl. cbn [orb negb].
    apply match_redirect_sound in M as [[_ [R F]] _].
    rewrite <- H2, R, <- H3, F. cbn. now left.
  - (* KValid *)
    intros H. apply corr_of_none in H. apply eqb_prop in H. unfold mon_valid. subst impl.
    rewrite is_valid_b. destruct (u_requrl u), (String.eqb (u_frag u) ""); cbn; now left.
  - (* KSecure *)
    intros H. apply corr_of_none in H. rewrite !andb_true_iff in H. destruct H as [[H1 H2] H3].
    apply eqb_prop in H1, H2, H3. subst. unfold mon_secure.
    rewrite !transport_ok_model, localhost_b_model. cbn [secure_checker].
    destruct (is_localhost u), (is_redirect_uri_secure u), (is_redirect_uri_secure_strict u); cbn; now left.
  - (* KReqValid *)
    intros H. apply corr_of_none in H. apply eqb_prop in H. subst impl. unfold mon_reqvalid.
    destruct (is_redirect_uri_valid ru cl) eqn:V; cbn [negb]; [|now left].
    unfold is_redirect_uri_valid in V. destruct ru as [u|]; [|discriminate]. destruct cl as [regs|]; [|discriminate].
    destruct (match_redirect (u_re u) regs) as [v|] eqn:M; [|discriminate].
    rewrite candidates_model, M. cbn. now left.
  - (* KWErr *)
    intros H. apply corr_of_none in H. unfold mon_werr.
    destruct (redirects o) eqn:R; cbn [negb].
    2:{ rewrite (wmatch_not_redirect _ _ H R (write_error_never_panics ar params)). now left. }
    destruct (error_written_or_direct ar params) as [E|[u [Hu W]]].
    + rewrite E in H. apply wmatch_direct in H. congruence.
    + assert (V : is_redirect_uri_valid (ar_redirect ar) (ar_client ar) = true).
      { apply (write_error_redirects_only_if_valid ar params). eapply wmatch_redirects; eassumption. }
      rewrite Hu in *. unfold is_redirect_uri_valid in V. destruct (ar_client ar) as [regs|]; [|discriminate].
      destruct (match_redirect (u_re u) regs) as [v|] eqn:M; [|discriminate].
      destruct (String.eqb_spec (u_raw (u_re u)) "") as [E|E]; [right; now left|].
      assert (Q : qualifies_b (u_re u) regs = true).
      { pose proof (candidates_model (u_re u) regs) as C. rewrite M in C. unfold candidates in C.
        destruct (String.eqb_spec (u_raw (u_re u)) ""); [contradiction|].
        destruct (qualifies_b (u_re u) regs); [reflexivity|discriminate]. }
      rewrite Q. cbn [negb].
      destruct (target_check_written _ _ _ _ W H) as [T|T]; rewrite T; [now left|].
      right. right. unfold tag. now rewrite String.eqb_refl.
  - (* KE2E *)
    destruct (authorize_endpoint e params) as [merr m] eqn:A. cbn [corr mon].
    intros H. apply corr_of_none in H. apply andb_true_iff in H as [H1 H2]. apply eqb_prop in H1. subst impl_err.
    unfold mon_e2e.
    destruct (redirects o) eqn:R.
    2:{ rewrite mon_written_not_redirect by assumption.
        rewrite (wmatch_not_redirect _ _ H2 R (endpoint_never_panics _ _ _ _ A)). cbn. now left. }
    (* the model's response is a redirect: find its target *)
    assert (T : exists regs u, e_client e = Some regs /\ match_redirect (e_req e) regs = Some u /\ written_for u params m /\
                (merr = false -> e_rtype e = RCode -> secure_checker (e_checker e) u = true)).
    { unfold authorize_endpoint in A. destruct (new_authorize_request e) as [ar er] eqn:N.
      assert (We : write_authorize_error ar params = m ->
                 exists regs u, e_client e = Some regs /\ match_redirect (e_req e) regs = Some u /\ written_for u params m).
      { intros <-. destruct (error_written_or_direct ar params) as [E|[u [Hu W]]].
        - rewrite E in H2. apply wmatch_direct in H2. congruence.
        - destruct (new_request_match _ _ _ _ N Hu) as [regs [C [M _]]]. exists regs, u. auto. }
      assert (Wr : new_authorize_response e ar = true -> write_authorize_response ar params = m ->
                 exists regs u, e_client e = Some regs /\ match_redirect (e_req e) regs = Some u /\ written_for u params m /\
                   (e_rtype e = RCode -> secure_checker (e_checker e) u = true)).
      { intros Rn <-. unfold new_authorize_response in Rn. destruct (ar_redirect ar) as [u|] eqn:Hu; [|discriminate].
        destruct (new_request_match _ _ _ _ N Hu) as [regs [C [M F]]]. exists regs, u.
        repeat split; try assumption; [now apply write_response_written|].
        intros RC. now rewrite RC in Rn. }
      destruct er.
      - injection A as <- <-. destruct (We eq_refl) as [regs [u [C [M W]]]]. exists regs, u. repeat split; auto. discriminate.
      - assert (A' : (if new_authorize_response e ar then (false, write_authorize_response ar params)
                      else (true, write_authorize_error ar params)) = (merr, m)
                     \/ (true, write_authorize_error ar params) = (merr, m)).
        { destruct (e_fail e); auto. }
        clear A. destruct A' as [A|A].
        + destruct (new_authorize_response e ar) eqn:Rn; injection A as <- <-.
          * destruct (Wr eq_refl eq_refl) as [regs [u [C [M [W S]]]]]. exists regs, u. repeat split; auto.
          * destruct (We eq_refl) as [regs [u [C [M W]]]]. exists regs, u. repeat split; auto. discriminate.
        + injection A as <- <-. destruct (We eq_refl) as [regs [u [C [M W]]]]. exists regs, u. repeat split; auto. discriminate. }
    destruct T as [regs [u [C [M [W S]]]]]. rewrite C. cbn [opt_regs].
    destruct (mon_written_quiet "e2e:" _ _ _ _ _ _ M W H2) as [Q|Q]; rewrite Q; [|right; now right].
    cbn [negb andb]. rewrite candidates_model, M. cbn [head_transport_ok]. rewrite transport_ok_model.
    destruct merr; cbn [negb andb]; [now left|].
    destruct (e_rtype e) eqn:RT; cbn [andb]; [|now left].
    rewrite (S eq_refl eq_refl). cbn. now left.
  - (* KPar *)
    intros H. apply corr_of_none in H. unfold mon_par.
    destruct accepted; cbn [negb]; [|now left].
    destruct (pushed_authorize e) as [ar|] eqn:P; [|destruct follow; discriminate].
    destruct (par_transport _ _ P) as [regs [u [C [Hu [Hc [S T]]]]]].
    apply match_redirect_spec in S. rewrite C. cbn [opt_regs]. rewrite candidates_model, S.
    rewrite transport_ok_model. apply secure_checker_spec in T. rewrite T. cbn [negb].
    destruct follow as [[[params ferr] o]|]; [|now left].
    destruct (authorize_from_par e ar params) as [merr m] eqn:A.
    apply andb_true_iff in H as [_ H2].
    destruct (redirects o) eqn:R.
    2:{ rewrite mon_written_not_redirect by assumption. now left. }
    assert (W : written_for u params m).
    { unfold authorize_from_par in A. destruct (new_authorize_response e ar); injection A as <- <-.
      - apply write_response_written; [assumption|]. now apply match_redirect_sound in S as [[_ [_ F]] _].
      - destruct (error_written_or_direct ar params) as [E|[u' [Hu' W]]].
        + rewrite E in H2. apply wmatch_direct in H2. congruence.
        + rewrite Hu in Hu'. injection Hu' as <-. assumption. }
    apply quiet_recorded. eapply mon_written_quiet; eassumption.
Qed.
