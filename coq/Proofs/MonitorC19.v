(* The verdicts computed in Cases/CasesC19.v agree with the checker of Model/Locks.v on every
   table: when the checker accepts, no static case raises an alarm and no pair of methods is
   predicted to race; when it rejects, one of the cases enumerated by the harness carries the tag. *)
From FositeModel Require Import Base.Str Model.Locks Proofs.LocksProofs Cases.CasesC19.
Local Open Scope list_scope.

Lemma first_some_none {A} (f : A -> option string) l :
  first_some f l = None <-> forall x, In x l -> f x = None.
Proof.
  induction l as [|x l IH]; cbn; [split; [intros _ ? []|reflexivity]|].
  destruct (f x) eqn:E.
  - split; [discriminate|]. intros H. specialize (H x (or_introl eq_refl)). congruence.
  - rewrite IH. split; [intros H y [<-|Hy]; auto|intros H y Hy; apply H; now right].
Qed.

Lemma fact_tag_none G rk f : fact_tag G rk f = None <-> fact_ok G rk f = true.
Proof.
  unfold fact_tag. destruct (fact_ok G rk f); [tauto|]. split; [|discriminate].
  destruct f; try discriminate.
  - destruct (holds m h); discriminate.
  - destruct (release_all ds acq) as [[|? ?]|]; discriminate.
Qed.

(* checker accepts => every static case is quiet, whatever it selects *)
Theorem static_cases_quiet ms sel : lock_discipline_ok ms = true -> find_tag sel ms = None.
Proof.
  unfold lock_discipline_ok, find_tag. intros H. apply andb_true_iff in H as [_ H].
  apply first_some_none. intros f Hf. destruct (sel f); [|reflexivity].
  apply fact_tag_none. exact (forallb_In _ _ _ H Hf).
Qed.

(* the case the harness emits for the syntactic element a fact stems from *)
Definition sel_of (f : fact) : fact -> bool :=
  match f with
  | FAcc me t _ _ => sel_access me t
  | FAcq me m _ _ => sel_acquire me m
  | FRel me _ _ | FRet me _ _ => sel_return me
  | FErr me _ => sel_calls me
  end.

Lemma sel_of_self f : sel_of f f = true.
Proof. destruct f; cbn; now rewrite ?String.eqb_refl. Qed.

(* checker rejects => the names case or the case of some element of the table alarms *)
Theorem static_cases_complete ms :
  lock_discipline_ok ms = false ->
  names_unique ms = false \/ exists f, In f (all_facts ms) /\ find_tag (sel_of f) ms <> None.
Proof.
  unfold lock_discipline_ok. intros H. apply andb_false_iff in H as [H|H]; [now left|right].
  assert (E : exists f, In f (all_facts ms) /\ fact_ok (infer_guards (all_facts ms)) (infer_ranks (all_facts ms)) f = false).
  { revert H. generalize (fact_ok (infer_guards (all_facts ms)) (infer_ranks (all_facts ms))). intros p.
    induction (all_facts ms) as [|x l IH]; cbn; [discriminate|]. intros H.
    destruct (p x) eqn:Ex; cbn in H.
    - destruct (IH H) as [f [Hf Hp]]. exists f. auto.
    - exists x. auto. }
  destruct E as [f [Hf Hbad]]. exists f. split; [assumption|].
  unfold find_tag. intros Hn. rewrite first_some_none in Hn. specialize (Hn f Hf).
  rewrite sel_of_self in Hn. apply fact_tag_none in Hn. congruence.
Qed.

(* ---------------------------------------------------------------- pairs *)
Lemma entry_facts_incl ms f x : In x (entry_facts ms f) -> In x (all_facts ms).
Proof.
  unfold entry_facts, all_facts. destruct (lookup_method f ms) as [fb|] eqn:E; [|intros []].
  destruct (lookup_method_In _ _ _ E) as [m [Hm [Hn Hb]]]. subst. intros Hx.
  apply in_flat_map. exists m. auto.
Qed.

Lemma covered_excluded G t a h a' h' :
  (a = MW \/ a' = MW) -> acc_ok G h t a = true -> acc_ok G h' t a' = true -> excluded h h' = true.
Proof.
  unfold acc_ok. intros Hw. destruct (alookup t G) as [g|].
  - intros H1 H2. apply existsb_exists in H1 as [[g1 m1] [Hi1 Hc1]]. apply existsb_exists in H2 as [[g2 m2] [Hi2 Hc2]].
    cbn in Hc1, Hc2. apply andb_true_iff in Hc1 as [Hg1 Hs1]. apply andb_true_iff in Hc2 as [Hg2 Hs2].
    apply String.eqb_eq in Hg1, Hg2. subst g1 g2.
    unfold excluded. apply existsb_exists. exists (g, m1). split; [assumption|].
    apply existsb_exists. exists (g, m2). split; [assumption|]. cbn. rewrite String.eqb_refl. cbn.
    destruct Hw as [-> | ->]; cbn in *; [now rewrite Hs1|rewrite Hs2; apply orb_true_r].
  - intros H1 H2. destruct Hw as [-> | ->]; discriminate.
Qed.

(* checker accepts => the pairwise lockset criterion predicts no race for any two methods *)
Theorem ok_no_predicted_race ms f g : lock_discipline_ok ms = true -> may_race ms f g = None.
Proof.
  unfold lock_discipline_ok. intros H. apply andb_true_iff in H as [_ H].
  unfold may_race.
  match goal with |- match ?l with _ => _ end = None => assert (E : l = []); [|now rewrite E] end.
  destruct (flat_map _ (entry_facts ms f)) as [|t0 l0] eqn:E; [reflexivity|exfalso].
  assert (Hin : In t0 (t0 :: l0)) by now left. rewrite <- E in Hin. clear E.
  apply in_flat_map in Hin as [x [Hx Hin]]. destruct x as [me t a h| | | |]; try (destruct Hin; fail).
  apply in_flat_map in Hin as [y [Hy Hin]]. destruct y as [me' t' a' h'| | | |]; try (destruct Hin; fail).
  destruct (String.eqb_spec t t') as [<-|]; [|destruct Hin]. cbn [andb] in Hin.
  destruct (mode_eqb a MW || mode_eqb a' MW) eqn:Ew; [|destruct Hin]. cbn [andb] in Hin.
  destruct (excluded h h') eqn:Ex; [destruct Hin|].
  pose proof (forallb_In _ _ _ H (entry_facts_incl _ _ _ Hx)) as Ok1.
  pose proof (forallb_In _ _ _ H (entry_facts_incl _ _ _ Hy)) as Ok2. cbn in Ok1, Ok2.
  assert (Hw : a = MW \/ a' = MW) by (destruct a, a'; cbn in Ew; auto; discriminate).
  rewrite (covered_excluded _ _ _ _ _ _ Hw Ok1 Ok2) in Ex. discriminate.
Qed.

(* so a pair case can only report a correspondence failure on an accepted table when the race
   detector saw a race inside the store: the theorem [no_race] says the model has none *)
Corollary pair_case_corr ms f g raced in_store :
  lock_discipline_ok ms = true ->
  corr (check (KPair ms f g raced in_store)) = None <-> raced && in_store = false.
Proof.
  intros H. cbn. rewrite (ok_no_predicted_race ms f g H). destruct (raced && in_store); split; congruence.
Qed.
