(* The executable specification used as C20's monitor (Cases/CasesC20.v), evaluated on the model's
   own response, never alarms -- except for the one shape recorded as a finding
   (WriteRevocationResponse answering 200 to an error), for which it returns exactly that tag.
   Hence a monitor alarm on code that matches the model can only be that finding.
   Also: shape theorems for the error responses, soundness of the error-table check. *)
From FositeModel Require Import Base.Str Model.Errors Model.Writers Model.Secrecy Cases.CasesC20 Proofs.WritersProofs.

(* ---------------------------------------------------------------- small facts *)
Lemma str_has_chars c s : str_has c s = true <-> In c (chars s).
Proof.
  induction s as [|a s IH]; cbn; [split; [discriminate|tauto]|].
  rewrite orb_true_iff, IH. destruct (Ascii.eqb_spec a c); split; intros [H|H]; auto; discriminate.
Qed.

Lemma no_dq_description e : no_dq (get_description e) = true.
Proof.
  unfold no_dq. destruct (str_has dq (get_description e)) eqn:E; [|reflexivity].
  apply str_has_chars in E. now apply description_no_dquote in E.
Qed.

Lemma jget_error e : jget "error" (marshal_json e) = Some (JS (e_name e)).
Proof. unfold marshal_json. destruct (e_legacy e); reflexivity. Qed.

Lemma jget_desc_new e : e_legacy e = false -> jget "error_description" (marshal_json e) = Some (JS (get_description e)).
Proof. intros H. unfold marshal_json. rewrite H. reflexivity. Qed.

Lemma vget_error_to_values e : vget "error" (to_values e) = [e_name e].
Proof.
  unfold to_values. destruct (e_legacy e); [|reflexivity].
  destruct (nonempty (e_hint e)); destruct (nonempty (e_debug e) && e_expose e); reflexivity.
Qed.

Lemma vget_desc_to_values_new e : e_legacy e = false -> vget "error_description" (to_values e) = [get_description e].
Proof. intros H. unfold to_values. rewrite H. reflexivity. Qed.

Lemma vget_add1 k k' v m : vget k m <> [] -> exists t, vget k (vadd k' v m) = (vget k m ++ t)%list.
Proof.
  intros _. destruct (String.eqb_spec k k') as [<-|N].
  - exists [v]. apply vget_vadd_eq.
  - exists []. rewrite vget_vadd_neq by assumption. now rewrite app_nil_r.
Qed.

Lemma vfirst_app k m m' t : vget k m <> [] -> vget k m' = (vget k m ++ t)%list -> vfirst k m' = vfirst k m.
Proof. unfold vfirst. intros N E. rewrite E. destruct (vget k m); [congruence|reflexivity]. Qed.

Lemma vget_add_all k q : forall m, vget k m <> [] -> exists t, vget k (add_all q m) = (vget k m ++ t)%list.
Proof.
  unfold add_all. induction q as [|[k' vs] q IH]; intros m N; cbn [fold_left].
  - exists []. now rewrite app_nil_r.
  - cbn [fst snd].
    assert (forall vs m, vget k m <> [] ->
              exists t, vget k (fold_left (fun a v => vadd k' v a) vs m) = (vget k m ++ t)%list) as In.
    { clear. induction vs as [|v vs IHv]; intros m N; cbn [fold_left].
      - exists []. now rewrite app_nil_r.
      - destruct (vget_add1 k k' v m N) as [t1 E1].
        destruct (IHv (vadd k' v m)) as [t2 E2]; [rewrite E1; destruct (vget k m); [congruence|discriminate]|].
        exists (t1 ++ t2)%list. rewrite E2, E1, app_assoc. reflexivity. }
    destruct (In vs m N) as [t1 E1].
    destruct (IH (fold_left (fun a v => vadd k' v a) vs m)) as [t2 E2]; [rewrite E1; destruct (vget k m); [congruence|discriminate]|].
    exists (t1 ++ t2)%list. rewrite E2, E1, app_assoc. reflexivity.
Qed.

Lemma vfirst_add_all k q m : vget k m <> [] -> vfirst k (add_all q m) = vfirst k m.
Proof. intros N. destruct (vget_add_all k q m N) as [t E]. eapply vfirst_app; eauto. Qed.

Lemma in_candidates g : In (as_rfc g) (err_candidates g).
Proof. unfold err_candidates, as_rfc. destruct (g_rfcs g); cbn; auto. Qed.

Lemma existsb_in {A} (f : A -> bool) l x : In x l -> f x = true -> existsb f l = true.
Proof. intros. apply existsb_exists. eauto. Qed.

Lemma cfg_err_name cfg g : e_name (cfg_err cfg g) = e_name (as_rfc g).
Proof. reflexivity. Qed.
Lemma cfg_err_code cfg g : e_code (cfg_err cfg g) = e_code (as_rfc g).
Proof. reflexivity. Qed.
Lemma cfg_err_legacy cfg g : e_legacy (cfg_err cfg g) = c_legacy cfg.
Proof. reflexivity. Qed.

(* ---------------------------------------------------------------- shape of the error responses *)
(* JSON error writers (WriteAccessError, WritePushedAuthorizeError, the JSON branch of
   WriteIntrospectionError): status = the error's CodeField, body = JSON object whose "error" member
   is the error's RFC code; in the new format "error_description" is GetDescription. *)
Theorem json_error_shape cfg g :
  let r := write_json_error cfg g in
  let e := as_rfc g in
  r_status r = e_code e /\ r_loc r = None /\ vget "Content-Type" (r_headers r) = [ct_json] /\
  exists j, r_body r = BJson j /\ jget "error" j = Some (JS (e_name e)) /\
            (c_legacy cfg = false -> exists d, jget "error_description" j = Some (JS d) /\ ~ In dq (chars d)).
Proof.
  cbn zeta. unfold write_json_error. cbn [r_status r_loc r_headers r_body]. repeat split.
  eexists; split; [reflexivity|]. split; [rewrite jget_error; reflexivity|].
  intros L. eexists. split; [apply jget_desc_new; exact L|apply description_no_dquote].
Qed.

(* WriteAuthorizeError, library-handled response modes: an unusable redirect URI is never
   redirected to (JSON error with the error's status instead); otherwise the error code and the
   request's state travel as parameters of the registered target -- form fields (form_post),
   fragment parameters (fragment) or query parameters (anything else), status 303 / 200 *)
Theorem authorize_error_shape cfg ar g :
  mem (a_mode ar) (c_custom_modes cfg) = false ->
  let r := write_authorize_error cfg ar g in
  let e := as_rfc g in
  (a_valid ar = false ->
     r_status r = e_code e /\ r_loc r = None /\ exists j, r_body r = BJson j /\ jget "error" j = Some (JS (e_name e))) /\
  (a_valid ar = true ->
     exists target params,
       vfirst "error" params = e_name e /\ vfirst "state" params = a_state ar /\
       l_base target = u_base (a_uri ar) /\
       (c_legacy cfg = false -> ~ In dq (chars (vfirst "error_description" params))) /\
       ((a_mode ar = "form_post" /\ r_status r = 200%Z /\ r_loc r = None /\ r_body r = BForm target params) \/
        (a_mode ar = "fragment" /\ r_status r = 303%Z /\ r_body r = BEmpty /\
           r_loc r = Some target /\ l_frag target = FParams params /\ l_query target = u_query (a_uri ar)) \/
        (a_mode ar <> "form_post" /\ a_mode ar <> "fragment" /\ r_status r = 303%Z /\ r_body r = BEmpty /\
           r_loc r = Some target /\ l_frag target = FNone /\ l_query target = params))).
Proof.
  intros Hm. cbn zeta. unfold write_authorize_error. rewrite Hm. split; intros Hv; rewrite Hv; cbn [negb].
  - cbn [r_status r_loc r_body]. repeat split. eexists; split; [reflexivity|rewrite jget_error; reflexivity].
  - set (e := cfg_err cfg g).
    set (errors := vset "state" (a_state ar) (to_values e)).
    assert (vget "error" errors = [e_name (as_rfc g)]) as He.
    { unfold errors. rewrite vget_vset_neq by discriminate. rewrite vget_error_to_values. reflexivity. }
    assert (vget "state" errors = [a_state ar]) as Hs by apply vget_vset_eq.
    assert (c_legacy cfg = false -> vget "error_description" errors = [get_description e]) as Hd.
    { intros L. unfold errors. rewrite vget_vset_neq by discriminate. now apply vget_desc_to_values_new. }
    destruct (String.eqb_spec (a_mode ar) "form_post") as [Ef|Nf]; [|destruct (String.eqb_spec (a_mode ar) "fragment") as [Eg|Ng]].
    + exists (mkLoc (u_base (a_uri ar)) (u_query (a_uri ar)) FNone), errors.
      unfold vfirst. rewrite He, Hs. split; [reflexivity|]. split; [reflexivity|]. split; [reflexivity|]. split.
      * intros L. rewrite (Hd L). apply description_no_dquote.
      * left. cbn. repeat split; auto.
    + exists (mkLoc (u_base (a_uri ar)) (u_query (a_uri ar)) (FParams errors)), errors.
      unfold vfirst. rewrite He, Hs. split; [reflexivity|]. split; [reflexivity|]. split; [reflexivity|]. split.
      * intros L. rewrite (Hd L). apply description_no_dquote.
      * right; left. cbn. repeat split; auto.
    + exists (mkLoc (u_base (a_uri ar)) (add_all (u_query (a_uri ar)) errors) FNone), (add_all (u_query (a_uri ar)) errors).
      rewrite !vfirst_add_all by (rewrite ?He, ?Hs; discriminate). unfold vfirst at 1 2. rewrite He, Hs.
      split; [reflexivity|]. split; [reflexivity|]. split; [reflexivity|]. split.
      * intros L. rewrite vfirst_add_all by (rewrite (Hd L); discriminate). unfold vfirst. rewrite (Hd L). apply description_no_dquote.
      * right; right. cbn. repeat split; auto.
Qed.

(* WriteRevocationResponse: what it does, exactly *)
Theorem revocation_shape sir sic og :
  let r := write_revocation_response sir sic og in
  match og with
  | None => r_status r = 200%Z /\ r_body r = BEmpty
  | Some g =>
      if err_is g (e_name sir) (e_code sir) then
        r_status r = e_code sir /\ exists j, r_body r = BJson j /\ jget "error" j = Some (JS (e_name sir))
      else if err_is g (e_name sic) (e_code sic) then
        r_status r = e_code sic /\ exists j, r_body r = BJson j /\ jget "error" j = Some (JS (e_name sic))
      else r_status r = 200%Z /\ r_body r = BEmpty
  end.
Proof.
  cbn zeta. unfold write_revocation_response. destruct og as [g|]; [|cbn; auto].
  destruct (err_is g (e_name sir) (e_code sir)); [|destruct (err_is g (e_name sic) (e_code sic))]; cbn [r_status r_body].
  - split; [reflexivity|eexists; split; [reflexivity|rewrite jget_error; reflexivity]].
  - split; [reflexivity|eexists; split; [reflexivity|rewrite jget_error; reflexivity]].
  - split; reflexivity.
Qed.

(* The clause "error responses of every endpoint carry the RFC error code and matching status" is
   false of WriteRevocationResponse: temporarily_unavailable (a storage failure, RFC 7009 2.2.1:
   503) and unauthorized_client (token of another client, RFC 7009 2.1) are answered 200, empty. *)
Definition std_ir := mkErr "invalid_request" "d" "" 400 "" false false.
Definition std_ic := mkErr "invalid_client" "d" "" 401 "" false false.
Theorem revocation_status_refuted :
  exists g, (e_name (as_rfc g) = "temporarily_unavailable" /\ e_code (as_rfc g) = 503%Z) /\
            r_status (write_revocation_response std_ir std_ic (Some g)) = 200%Z /\
            r_body (write_revocation_response std_ir std_ic (Some g)) = BEmpty.
Proof. exists (mkGo [mkErr "temporarily_unavailable" "d" "" 503 "" false false] None). vm_compute. auto. Qed.
Theorem revocation_status_refuted_unauthorized_client :
  exists g, (e_name (as_rfc g) = "unauthorized_client" /\ e_code (as_rfc g) = 400%Z) /\
            r_status (write_revocation_response std_ir std_ic (Some g)) = 200%Z /\
            r_body (write_revocation_response std_ir std_ic (Some g)) = BEmpty.
Proof. exists (mkGo [mkErr "unauthorized_client" "d" "" 400 "" false false] None). vm_compute. auto. Qed.

(* ---------------------------------------------------------------- the error table *)
Theorem table_ok_sound t :
  table_ok t = true ->
  (forall x, In x t -> forall s, rfc_status (t_name x) = Some s -> t_code x = s) /\
  (forall x, In x t -> rfc_status (t_name x) = None -> (400 <= t_code x <= 599)%Z) /\
  (forall v, In v required_vars -> exists x, In x t /\ t_var x = v).
Proof.
  unfold table_ok, mon_table. destruct (table_complete t) eqn:C; cbn [negb]; [|discriminate].
  destruct (filter (fun x => negb (entry_ok x)) t) eqn:F; [intros _|discriminate].
  assert (forall x, In x t -> entry_ok x = true) as A.
  { intros x Hx. destruct (entry_ok x) eqn:E; [reflexivity|].
    assert (In x (filter (fun x => negb (entry_ok x)) t)) as Hf by (apply filter_In; rewrite E; auto).
    rewrite F in Hf. destruct Hf. }
  repeat split.
  - intros x Hx s Hs. specialize (A x Hx). unfold entry_ok in A. rewrite Hs in A. now apply Z.eqb_eq.
  - specialize (A x H). unfold entry_ok in A. rewrite H0 in A. apply andb_true_iff in A as [A _]. now apply Z.leb_le.
  - specialize (A x H). unfold entry_ok in A. rewrite H0 in A. apply andb_true_iff in A as [_ A]. now apply Z.leb_le.
  - intros v Hv. unfold table_complete in C. rewrite forallb_forall in C. specialize (C v Hv).
    apply existsb_exists in C as [x [Hx E]]. exists x. split; [assumption|]. apply String.eqb_eq in E. assumption.
Qed.

(* every table entry with an RFC-prescribed status, rendered by a JSON error writer with any hint,
   any debug text, either format and either debug switch, is answered with exactly that status *)
Theorem table_status_on_the_wire t :
  table_ok t = true ->
  forall x, In x t -> forall s, rfc_status (t_name x) = Some s ->
  forall cfg desc hint debug rest tail,
    let e := mkErr (t_name x) desc hint (t_code x) debug false false in
    let r := write_json_error cfg (mkGo (e :: rest) tail) in
    r_status r = s /\ exists j, r_body r = BJson j /\ jget "error" j = Some (JS (t_name x)).
Proof.
  intros T x Hx s Hs cfg desc hint debug rest tail. cbn zeta.
  destruct (table_ok_sound t T) as [A _]. rewrite <- (A x Hx s Hs).
  split; [reflexivity|]. eexists; split; [reflexivity|]. apply jget_error.
Qed.

(* ---------------------------------------------------------------- the monitor on the model's responses *)
Definition model_alarm (c : wcall) : option string :=
  match c with
  | WRevocationResponse sir sic (Some g) =>
      if err_is g (e_name sir) (e_code sir) || err_is g (e_name sic) (e_code sic) || token_invalid g then None
      else Some "revocation_error_answered_200"
  | _ => None
  end.

Definition wf_call (c : wcall) : Prop :=
  match c with
  | WAuthorizeResponse _ _ params => NoDup (map fst params)
  | _ => True
  end.

Lemma vget_notin k (m : values) : ~ In k (map fst m) -> vget k m = [].
Proof.
  induction m as [|[k' vs] r IH]; cbn; [reflexivity|]. intros N.
  destruct (String.eqb_spec k k'); [subst; tauto|]. apply IH. tauto.
Qed.

Lemma vget_nodup k vs (m : values) : NoDup (map fst m) -> In (k, vs) m -> vget k m = vs.
Proof.
  induction m as [|[k' vs'] r IH]; cbn; [tauto|]. intros N [E|I].
  - injection E as -> ->. now rewrite String.eqb_refl.
  - inversion N; subst. destruct (String.eqb_spec k k') as [->|_]; [|now apply IH].
    exfalso. apply H1. change k' with (fst (k', vs)). now apply in_map.
Qed.

Lemma set_firsts_notin k params : forall q, ~ In k (map fst params) -> vget k (set_firsts params q) = vget k q.
Proof.
  unfold set_firsts. induction params as [|[k' vs] r IH]; intros q N; cbn [fold_left]; [reflexivity|].
  cbn in N. rewrite IH by tauto. cbn [fst snd]. apply vget_vset_neq. intros ->. tauto.
Qed.

Lemma set_firsts_in k v vs params : forall q,
  NoDup (map fst params) -> In (k, v :: vs) params -> vget k (set_firsts params q) = [v].
Proof.
  unfold set_firsts. induction params as [|[k' vs'] r IH]; intros q N I; cbn [fold_left]; [destruct I|].
  inversion N; subst. destruct I as [E|I].
  - injection E as -> ->. cbn [fst snd]. fold (set_firsts r (vset k v q)).
    rewrite set_firsts_notin by assumption. apply vget_vset_eq.
  - now apply IH.
Qed.

Lemma reflect_params_ok (f : string -> string) params p :
  (forall k v vs, In (k, v :: vs) params -> vfirst k p = v) ->
  forallb (fun kv => match snd kv with
                     | v :: _ => String.eqb (f (vfirst (fst kv) p)) (f v)
                     | [] => true
                     end) params = true.
Proof.
  intros H. apply forallb_forall. intros [k [|v vs]] I; cbn [fst snd]; [reflexivity|].
  rewrite (H k v vs I). apply String.eqb_refl.
Qed.

Lemma cache_obs cfg c r :
  write cfg c = Some r ->
  slist_eqb idn (vget h_cc (r_headers r)) ["no-store"] && slist_eqb idn (vget h_pragma (r_headers r)) ["no-cache"] = true.
Proof. intros W. destruct (writers_set_cache_headers cfg c r W) as [A B]. unfold h_cc, h_pragma. rewrite A, B. reflexivity. Qed.

Lemma json_error_ok_model cfg g r :
  r_status r = e_code (as_rfc g) -> r_loc r = None -> vget h_ct (r_headers r) = [ct_json] ->
  r_body r = BJson (marshal_json (cfg_err cfg g)) ->
  json_error_ok g (obs_of_model (Some r)) = true.
Proof.
  intros S L C B. unfold json_error_ok, obs_of_model. cbn [o_body o_status o_ct o_loc]. rewrite B, L, C.
  rewrite andb_true_r. apply andb_true_iff. split; [|reflexivity].
  eapply existsb_in; [apply in_candidates|]. unfold js_is. rewrite jget_error, cfg_err_name, String.eqb_refl, S. apply Z.eqb_refl.
Qed.

Lemma js_no_dq_model e : e_legacy e = false -> js_no_dq "error_description" (marshal_json e) = true.
Proof. intros L. unfold js_no_dq. rewrite (jget_desc_new e L). apply no_dq_description. Qed.

Ltac tag_none := unfold first_tag; cbn [filter]; reflexivity.

Theorem monitor_on_model cfg c :
  wf_call c -> mon_writer cfg c (obs_of_model (write cfg c)) = model_alarm c.
Proof.
  intros WF. unfold mon_writer.
  destruct (write cfg c) as [r|] eqn:W.
  2:{ apply writers_always_respond in W. subst c. reflexivity. }
  change (o_written (obs_of_model (Some r))) with true.
  change (o_cc (obs_of_model (Some r))) with (vget h_cc (r_headers r)).
  change (o_pragma (obs_of_model (Some r))) with (vget h_pragma (r_headers r)).
  change (o_scrub_same (obs_of_model (Some r))) with true.
  cbn [negb]. rewrite (cache_obs cfg c r W), orb_true_r. cbn [tag_if].
  destruct c as [g|f|ar g|ar cu p|[g|]|a|sir sic og|cu f|g|cu dc uc vu vuc ex iv]; cbn [write] in W; cbn [mon_error mon_success call_error model_alarm].
  - (* WAccessError *)
    injection W as <-.
    rewrite (json_error_ok_model cfg g (write_json_error cfg g)) by reflexivity. cbn [tag_if].
    unfold desc_no_dq, obs_of_model. cbn [o_body write_json_error r_body].
    destruct (c_legacy cfg) eqn:L; cbn [orb tag_if]; [tag_none|].
    rewrite js_no_dq_model by (rewrite cfg_err_legacy; exact L). tag_none.
  - injection W as <-. tag_none.
  - (* WAuthorizeError *)
    injection W as <-. unfold write_authorize_error.
    destruct (mem (a_mode ar) (c_custom_modes cfg)) eqn:Hm.
    { cbn. destruct (c_legacy cfg); tag_none. }
    destruct (a_valid ar) eqn:Hv; cbn [negb].
    2:{ rewrite (json_error_ok_model cfg g) by reflexivity. cbn [tag_if].
        unfold desc_no_dq, obs_of_model. cbn [o_body r_body].
        destruct (c_legacy cfg) eqn:L; cbn [orb tag_if]; [tag_none|].
        rewrite js_no_dq_model by (rewrite cfg_err_legacy; exact L). tag_none. }
    set (e := cfg_err cfg g).
    set (errors := vset "state" (a_state ar) (to_values e)).
    assert (vget "error" errors = [e_name (as_rfc g)]) as He.
    { unfold errors. rewrite vget_vset_neq by discriminate. rewrite vget_error_to_values. reflexivity. }
    assert (vget "state" errors = [a_state ar]) as Hs by apply vget_vset_eq.
    assert (c_legacy cfg = false -> vget "error_description" errors = [get_description e]) as Hd.
    { intros L. unfold errors. rewrite vget_vset_neq by discriminate. now apply vget_desc_to_values_new. }
    assert (forall p, vfirst "error" p = e_name (as_rfc g) -> params_error_ok g p = true) as Hp.
    { intros p E. unfold params_error_ok. eapply existsb_in; [apply in_candidates|]. rewrite E. apply String.eqb_refl. }
    unfold redirect_params.
    destruct (String.eqb (a_mode ar) "form_post") eqn:Ef; [|destruct (String.eqb (a_mode ar) "fragment") eqn:Eg];
      cbn [obs_of_model o_body o_loc o_status r_body r_loc r_status Z.eqb Pos.eqb l_frag l_query l_base].
    + rewrite Hp by (unfold vfirst; now rewrite He). rewrite String.eqb_refl.
      unfold vfirst at 1. rewrite Hs, String.eqb_refl. cbn [tag_if].
      destruct (c_legacy cfg) eqn:L; cbn [orb tag_if desc_no_dq o_body]; [tag_none|].
      unfold vfirst. rewrite (Hd eq_refl), no_dq_description. tag_none.
    + rewrite Hp by (unfold vfirst; now rewrite He). rewrite String.eqb_refl.
      unfold vfirst at 1. rewrite Hs, String.eqb_refl. cbn [tag_if].
      destruct (c_legacy cfg) eqn:L; cbn [orb tag_if desc_no_dq o_body]; [tag_none|].
      unfold vfirst. rewrite (Hd eq_refl), no_dq_description. tag_none.
    + rewrite Hp by (rewrite vfirst_add_all by (rewrite He; discriminate); unfold vfirst; now rewrite He).
      rewrite String.eqb_refl.
      rewrite (vfirst_add_all "state") by (rewrite Hs; discriminate). unfold vfirst at 1. rewrite Hs. unfold idn at 1 2. rewrite String.eqb_refl. cbn [tag_if].
      destruct (c_legacy cfg) eqn:L; cbn [orb tag_if desc_no_dq o_body]; [tag_none|].
      rewrite vfirst_add_all by (rewrite (Hd eq_refl); discriminate).
      unfold vfirst. rewrite (Hd eq_refl), no_dq_description. tag_none.
  - (* WAuthorizeResponse *)
    injection W as <-. cbn [wf_call] in WF. unfold write_authorize_response, redirect_params.
    destruct (String.eqb (a_mode ar) "form_post") eqn:Ef; cbn [orb].
    { cbn [obs_of_model o_body o_loc o_status r_body r_loc r_status Z.eqb Pos.eqb l_base]. rewrite String.eqb_refl.
      rewrite reflect_params_ok; [tag_none|]. intros k v vs I. unfold vfirst. now rewrite (vget_nodup k (v :: vs) p WF I). }
    destruct (String.eqb (a_mode ar) "query" || String.eqb (a_mode ar) "") eqn:Eq; cbn [orb].
    { assert (String.eqb (a_mode ar) "fragment" = false) as Eg.
      { apply orb_true_iff in Eq as [E|E]; apply String.eqb_eq in E; rewrite E; reflexivity. }
      rewrite Eg.
      cbn [obs_of_model o_body o_loc o_status r_body r_loc r_status Z.eqb Pos.eqb l_base l_query]. rewrite String.eqb_refl.
      rewrite reflect_params_ok; [tag_none|]. intros k v vs I. unfold vfirst. now rewrite (set_firsts_in k v vs p _ WF I). }
    cbn [orb].
    destruct (String.eqb (a_mode ar) "fragment") eqn:Eg.
    { cbn [obs_of_model o_body o_loc o_status r_body r_loc r_status Z.eqb Pos.eqb l_base l_frag].
      destruct p as [|kv p']; [cbn [l_frag l_base]; rewrite String.eqb_refl; cbn [forallb tag_if]; tag_none|].
      cbn [l_frag]. rewrite String.eqb_refl.
      rewrite reflect_params_ok; [tag_none|]. intros k v vs I. unfold vfirst. now rewrite (vget_nodup k (v :: vs) _ WF I). }
    destruct (mem (a_mode ar) (c_custom_modes cfg)); tag_none.
  - (* WIntrospectionError (Some g) *)
    unfold write_introspection_error in W.
    destruct (err_is g "token_inactive" 401) eqn:Ei; cbn [negb andb] in W.
    + injection W as <-. cbn. rewrite orb_true_r. tag_none.
    + destruct (err_is g "invalid_request" 400 || err_is g "request_unauthorized" 401) eqn:Eo; injection W as <-.
      * rewrite (json_error_ok_model cfg g (write_json_error cfg g)) by reflexivity. rewrite orb_true_r. cbn [tag_if].
        unfold desc_no_dq, obs_of_model. cbn [o_body write_json_error r_body].
        destruct (c_legacy cfg) eqn:L; cbn [orb tag_if]; [tag_none|].
        rewrite js_no_dq_model by (rewrite cfg_err_legacy; exact L). tag_none.
      * cbn. destruct (c_legacy cfg); tag_none.
  - discriminate.
  - injection W as <-. tag_none.
  - (* WRevocationResponse *)
    injection W as <-. destruct og as [g|]; [|tag_none].
    unfold write_revocation_response.
    assert (forall s, err_is g (e_name s) (e_code s) = true ->
              json_error_ok g (obs_of_model (Some (mkResp (e_code s) (hrun (cache_ops ++ [HSet h_ct ct_json])) None
                                                         (BJson (marshal_json (static_err s)))))) = true) as J.
    { intros s E. unfold json_error_ok, obs_of_model. cbn [o_body o_status o_ct o_loc r_body r_status r_loc r_headers].
      apply andb_true_iff; split; [apply andb_true_iff; split|reflexivity]; [|reflexivity].
      unfold err_is in E. apply existsb_exists in E as [e [Ie Ee]]. apply andb_true_iff in Ee as [E1 E2].
      apply String.eqb_eq in E1. apply Z.eqb_eq in E2.
      assert (In e (err_candidates g)) as Ic by (unfold err_candidates; destruct (g_rfcs g); [destruct Ie|exact Ie]).
      eapply existsb_in; [exact Ic|]. unfold js_is. rewrite jget_error. cbn [static_err with_expose with_legacy e_name].
      rewrite <- E1, String.eqb_refl, E2. apply Z.eqb_refl. }
    destruct (err_is g (e_name sir) (e_code sir)) eqn:E1; [|destruct (err_is g (e_name sic) (e_code sic)) eqn:E2]; cbn [orb].
    + rewrite (J sir E1). cbn [tag_if]. unfold desc_no_dq, obs_of_model. cbn [o_body r_body].
      rewrite js_no_dq_model by reflexivity. rewrite orb_true_r. tag_none.
    + rewrite (J sic E2). cbn [tag_if]. unfold desc_no_dq, obs_of_model. cbn [o_body r_body].
      rewrite js_no_dq_model by reflexivity. rewrite orb_true_r. tag_none.
    + cbn [json_error_ok obs_of_model o_body r_body o_status r_status]. unfold json_error_ok. cbn [o_body obs_of_model r_body].
      destruct (token_invalid g); cbn [andb Z.eqb Pos.eqb]; [cbn; destruct (c_legacy cfg); tag_none|].
      unfold first_tag. reflexivity.
  - injection W as <-. tag_none.
  - (* WParError *)
    injection W as <-. unfold write_par_error.
    rewrite (json_error_ok_model cfg g) by reflexivity. cbn [tag_if].
    unfold desc_no_dq, obs_of_model. cbn [o_body r_body].
    destruct (c_legacy cfg) eqn:L; cbn [orb tag_if]; [tag_none|].
    rewrite js_no_dq_model by (rewrite cfg_err_legacy; exact L). tag_none.
  - injection W as <-. tag_none.
Qed.

(* the function-level monitor on the model's renderings *)
Theorem err_monitor_on_model e :
  mon_err e (get_description e) (marshal_json e) (to_values e) true = None.
Proof.
  unfold mon_err. fold (no_dq (get_description e)). rewrite no_dq_description. cbn [tag_if].
  unfold js_is. rewrite jget_error, String.eqb_refl. unfold vfirst at 2. rewrite vget_error_to_values, String.eqb_refl.
  rewrite orb_true_r. cbn [andb tag_if].
  destruct (e_legacy e) eqn:L; cbn [orb tag_if]; [tag_none|].
  rewrite js_no_dq_model by exact L. unfold vfirst. rewrite (vget_desc_to_values_new e L), no_dq_description. tag_none.
Qed.
