(* Step-level characterisations used by C02, C03, C05, C07, C09: what a successful (or refused)
   operation implies about its inputs and what it leaves in the store. *)
From FositeModel Require Import Base.Str Model.Scope Model.Core Model.Flows Proofs.CoreInv Proofs.StepInv Proofs.Family Proofs.Implicit Proofs.Decay.

Arguments upd : simpl never.

Definition not_expired (exp : option Z) (now_ : Z) : Prop := forall e, exp = Some e -> (now_ <= e)%Z.

Lemma expired_false_some e ra life n : expired (Some e) ra life n = false -> (n <= e)%Z.
Proof. unfold expired, before. intros H. apply Z.ltb_ge in H. lia. Qed.
Lemma expired_rt_false exp n : expired_rt exp n = false -> not_expired exp n.
Proof. unfold expired_rt, before, not_expired. intros H e ->. apply Z.ltb_ge in H. lia. Qed.

(* ------------------------------------------------------------------ PKCE *)
Definition verifier_well_formed (v : string) : Prop :=
  43 <= String.length v <= 128 /\ verifier_chars_ok v = true.

(* what the token-endpoint PKCE check guarantees when it lets a request through *)
Lemma pkce_token_ok cfg s cl k v vh s1 :
  pkce_token cfg s cl (Some k) v vh = (s1, None) ->
  match pkce (st s) k with
  | Some pr =>
      pkce_validate cfg (r_challenge pr) (r_method pr) (r_cl pr) = None /\
      ((r_challenge pr = "" /\ v = "" /\ cf_pkce_enforce cfg = false) \/
       (r_challenge pr <> "" /\ verifier_well_formed v /\
        (if String.eqb (r_method pr) "S256" then vh = r_challenge pr else v = r_challenge pr)))
  | None => v = "" /\ pkce_no_pkce cfg cl = None
  end.
Proof.
  unfold pkce_token. cbn [find].
  destruct (pkce (st s) k) as [pr|].
  - destruct (pkce_validate cfg (r_challenge pr) (r_method pr) (r_cl pr)) eqn:Ev; [discriminate|].
    intros H. split; [reflexivity|].
    destruct (negb (cf_pkce_enforce cfg) && Nat.eqb (String.length (r_challenge pr)) 0 && Nat.eqb (String.length v) 0) eqn:E0.
    + left. apply andb_true_iff in E0 as [E0 E2]. apply andb_true_iff in E0 as [E0 E1].
      apply Nat.eqb_eq in E1, E2. apply negb_true_iff in E0.
      destruct (r_challenge pr); [|discriminate]. destruct v; [|discriminate]. auto.
    + right.
      destruct (Nat.ltb_spec (String.length v) 43); [discriminate|].
      destruct (Nat.ltb_spec 128 (String.length v)); [discriminate|].
      destruct (verifier_chars_ok v) eqn:Ec; cbn [negb] in H; [|discriminate].
      destruct (Nat.eqb_spec (String.length (r_challenge pr)) 0) as [E|E]; [discriminate|].
      split; [intros Heq; rewrite Heq in E; cbn in E; congruence|].
      split; [split; [lia|assumption]|].
      destruct (String.eqb (r_method pr) "S256").
      * destruct (String.eqb_spec vh (r_challenge pr)); [assumption|discriminate].
      * destruct (String.eqb_spec v (r_challenge pr)); [assumption|discriminate].
  - destruct (Nat.eqb_spec (String.length v) 0) as [E|E]; [|discriminate].
    intros H. injection H as _ H. split; [destruct v; [reflexivity|discriminate]|assumption].
Qed.

Lemma pkce_validate_ok cfg challenge method cl :
  pkce_validate cfg challenge method cl = None ->
  (challenge = "" /\ pkce_no_pkce cfg cl = None) \/
  (challenge <> "" /\ (method = "S256" \/ ((method = "plain" \/ method = "") /\ cf_pkce_plain cfg = true))).
Proof.
  unfold pkce_validate.
  destruct (String.eqb_spec challenge ""); [auto|].
  destruct (String.eqb_spec method "S256"); [auto|].
  destruct (String.eqb_spec method "plain"); cbn [orb].
  - destruct (cf_pkce_plain cfg); [auto 6|discriminate].
  - destruct (String.eqb_spec method ""); [|discriminate]. destruct (cf_pkce_plain cfg); [auto 6|discriminate].
Qed.

Lemma pkce_no_pkce_ok cfg cl :
  pkce_no_pkce cfg cl = None -> cf_pkce_enforce cfg = false /\ (cf_pkce_enforce_public cfg = true -> cl_public cl = false).
Proof.
  unfold pkce_no_pkce. destruct (cf_pkce_enforce cfg); [discriminate|].
  destruct (cf_pkce_enforce_public cfg); destruct (cl_public cl); cbn; try discriminate; auto.
Qed.

Lemma pkce_token_err_nonempty cfg s cl key v vh : snd (pkce_token cfg s cl key v vh) <> Some "".
Proof.
  unfold pkce_token, pkce_validate, pkce_no_pkce.
  destruct (find (pkce (st s)) key) as [pr|]; [destruct key as [k|]|];
  repeat match goal with
         | |- context [if ?c then _ else _] => destruct c
         | |- context [match ?x with Some _ => _ | None => _ end] => destruct x eqn:?
         end; cbn; try congruence;
  repeat match goal with
         | H : context [if ?c then _ else _] |- _ => destruct c
         end; try congruence.
Qed.

(* ------------------------------------------------------------------ successful redemption *)
Record redeem_facts (cfg : config) (s : state) (auth : option nat) (code : pres) (redirect v vh : string)
       (k : nat) (r : req) (cl : client) : Prop := {
  rf_key : key_of s code = Some k;
  rf_active : codes (st s) k = Some (true, r);
  rf_genuine : p_tampered code = false;
  rf_client : auth = Some (r_client r);
  rf_registered : clients s (r_client r) = Some cl;
  rf_grant : args_has (cl_grants cl) ["authorization_code"] = true;
  rf_redirect : r_redirect r = "" \/ r_redirect r = redirect;
  rf_time : not_expired (s_exp_code (r_sess r)) (now s);
  rf_pkce : match pkce (st s) k with
            | Some pr =>
                pkce_validate cfg (r_challenge pr) (r_method pr) (r_cl pr) = None /\
                ((r_challenge pr = "" /\ v = "" /\ cf_pkce_enforce cfg = false) \/
                 (r_challenge pr <> "" /\ verifier_well_formed v /\
                  (if String.eqb (r_method pr) "S256" then vh = r_challenge pr else v = r_challenge pr)))
            | None => v = "" /\ pkce_no_pkce cfg cl = None
            end
}.

Definition minted_record (cfg : config) (s : state) (r : req) (cl : client) : req :=
  {| r_id := r_id r; r_client := r_client r; r_cl := cl; r_rscopes := r_rscopes r; r_gscopes := r_gscopes r;
     r_raud := r_raud r; r_gaud := r_gaud r; r_sess := set_token_expiries cfg (now s) (r_sess r); r_redirect := "";
     r_challenge := ""; r_method := ""; r_mode := ""; r_at := now s |}.

Lemma grant_tokens_records s stored w :
  let s' := fst (grant_tokens s stored w) in
  exists ka, access (st s') ka = Some stored /\ owner s' ka = Some (KAccess, r_id stored) /\ next_key s <= ka /\
  (w = true -> exists kr, refresh (st s') kr = Some (true, stored) /\ next_key s <= kr) /\
  snd (grant_tokens s stored w) = (if w then [KAccess; KRefresh] else [KAccess]).
Proof.
  unfold grant_tokens.
  destruct (mint s KAccess (r_id stored)) as [ka s2] eqn:E2.
  destruct (mint_spec _ _ _ _ _ E2) as [Hka [_ [Hst2 [_ [Hk2 [Ho2 _]]]]]].
  destruct w.
  - destruct (mint s2 KRefresh (r_id stored)) as [kr s3] eqn:E3.
    destruct (mint_spec _ _ _ _ _ E3) as [Hkr [_ [Hst3 [_ [Hk3 [Ho3 _]]]]]].
    cbn. exists ka. split; [apply upd_eq|]. split.
    { rewrite Ho3, Ho2, upd_neq by lia. subst ka. apply upd_eq. }
    split; [lia|]. split; [|reflexivity].
    intros _. exists kr. split; [apply upd_eq|lia].
  - cbn. exists ka. split; [apply upd_eq|]. split; [rewrite Ho2; subst ka; apply upd_eq|].
    split; [lia|]. split; [discriminate|reflexivity].
Qed.

Theorem redeem_ok_facts cfg s auth code redirect v vh :
  o_err (snd (redeem cfg s auth code redirect v vh)) = "" ->
  exists k r cl, redeem_facts cfg s auth code redirect v vh k r cl /\
    let res := redeem cfg s auth code redirect v vh in
    o_scopes (snd res) = r_gscopes r /\
    o_expires_in (snd res) = expires_in (set_token_expiries (eff_cfg cfg cl LAuthCode) (now s) (r_sess r)) cfg (now s) /\
    (exists ka, access (st (fst res)) ka = Some (minted_record (eff_cfg cfg cl LAuthCode) s r cl)) /\
    (In KRefresh (o_minted (snd res)) ->
       can_refresh cfg (r_gscopes r) (r_cl r) = true /\
       exists kr, refresh (st (fst res)) kr = Some (true, minted_record (eff_cfg cfg cl LAuthCode) s r cl)).
Proof.
  unfold redeem.
  destruct auth as [c|]; [|discriminate].
  destruct (clients s c) as [cl|] eqn:Ecl; [|discriminate].
  destruct (negb (args_has (cl_grants cl) ["authorization_code"])) eqn:Eg; [discriminate|].
  destruct (key_of s code) as [k|] eqn:Ek; [|discriminate].
  destruct (codes (st s) k) as [[[|] r]|] eqn:Ec; [| discriminate |discriminate].
  destruct (p_tampered code) eqn:Et; [discriminate|].
  destruct (Nat.eqb_spec (r_client r) c) as [Hc|Hc]; cbn [negb]; [|discriminate].
  destruct (negb (String.eqb (r_redirect r) "") && negb (String.eqb (r_redirect r) redirect)) eqn:Er; [discriminate|].
  pose proof (pkce_token_ok cfg s cl k v vh) as Hp.
  pose proof (pkce_token_state cfg s cl (Some k) v vh) as Hst.
  destruct (pkce_token cfg s cl (Some k) v vh) as [s1 [e|]] eqn:Ep; cbn [fst] in *.
  - cbn. intros He. exfalso. apply (pkce_token_err_nonempty cfg s cl (Some k) v vh). rewrite Ep. cbn. congruence.
  - assert (Hnow : now s1 = now s) by (destruct Hst as [->|[k0 ->]]; reflexivity).
    destruct (expired _ _ _ _) eqn:Ex; [discriminate|]. intros _.
    exists k, r, cl. split.
    + constructor; try assumption; try reflexivity.
      * now rewrite Hc.
      * now rewrite Hc.
      * now apply negb_false_iff in Eg.
      * apply andb_false_iff in Er as [Er|Er]; apply negb_false_iff in Er; apply String.eqb_eq in Er; auto.
      * intros e He. unfold set_token_expiries in Ex. cbn [s_exp_code] in Ex. rewrite He, Hnow in Ex. now apply expired_false_some in Ex.
      * exact (Hp s1 eq_refl).
    + match goal with |- context [grant_tokens ?s2 ?stored ?w] =>
        pose proof (grant_tokens_records s2 stored w) as G; destruct (grant_tokens s2 stored w) as [s3 minted] end.
      cbn [fst snd] in *. destruct G as [ka [Ha [_ [_ [Hr Hm]]]]].
      assert (Hrec : forall x, x = minted_record (eff_cfg cfg cl LAuthCode) s r cl -> True) by trivial.
      unfold minted_record. rewrite Hc. cbn.
      repeat split; try reflexivity.
      * exists ka. exact Ha.
      * rewrite Hm in H. destruct (can_refresh cfg (r_gscopes r) (r_cl r)); [reflexivity|].
        cbn in H. destruct H as [H|[]]. discriminate.
      * rewrite Hm in H. destruct (can_refresh cfg (r_gscopes r) (r_cl r)) eqn:Ecr.
        -- destruct (Hr eq_refl) as [kr [Hkr _]]. exists kr. exact Hkr.
        -- cbn in H. destruct H as [H|[]]. discriminate.
Qed.

(* a refused redemption of an active code touches no code and no token *)
Theorem redeem_refused_tables cfg s auth code redirect v vh k r :
  key_of s code = Some k -> codes (st s) k = Some (true, r) ->
  o_err (snd (redeem cfg s auth code redirect v vh)) <> "" ->
  let s' := fst (redeem cfg s auth code redirect v vh) in
  codes (st s') = codes (st s) /\ access (st s') = access (st s) /\ refresh (st s') = refresh (st s) /\
  at_idx (st s') = at_idx (st s) /\ rt_idx (st s') = rt_idx (st s) /\ o_minted (snd (redeem cfg s auth code redirect v vh)) = [].
Proof.
  intros Hk Hc. unfold redeem.
  destruct auth as [c|]; [|cbn; auto 10].
  destruct (clients s c) as [cl|]; [|cbn; auto 10].
  destruct (negb (args_has (cl_grants cl) ["authorization_code"])); [cbn; auto 10|].
  rewrite Hk, Hc.
  destruct (p_tampered code); [cbn; auto 10|].
  destruct (negb (Nat.eqb (r_client r) c)); [cbn; auto 10|].
  destruct (negb (String.eqb (r_redirect r) "") && negb (String.eqb (r_redirect r) redirect)); [cbn; auto 10|].
  pose proof (pkce_token_state cfg s cl (Some k) v vh) as Hst.
  destruct (pkce_token cfg s cl (Some k) v vh) as [s1 [e|]]; cbn [fst] in *.
  - intros _. destruct Hst as [->|[k0 ->]]; cbn; auto 10.
  - destruct (expired _ _ _ _).
    + intros _. destruct Hst as [->|[k0 ->]]; cbn; auto 10.
    + match goal with |- context [grant_tokens ?s2 ?stored ?w] => destruct (grant_tokens s2 stored w) as [s3 minted] end.
      cbn. intros H. congruence.
Qed.

(* foreign client / different redirect_uri: invalid_grant and the state is untouched *)
Theorem redeem_wrong_client cfg s c cl code redirect v vh k r :
  clients s c = Some cl -> args_has (cl_grants cl) ["authorization_code"] = true ->
  key_of s code = Some k -> codes (st s) k = Some (true, r) -> p_tampered code = false ->
  r_client r <> c ->
  redeem cfg s (Some c) code redirect v vh = (s, err_obs "invalid_grant").
Proof.
  intros Hc Hg Hk Hcode Ht Hne. unfold redeem. rewrite Hc, Hg, Hk, Hcode, Ht. cbn [negb].
  destruct (Nat.eqb_spec (r_client r) c); [contradiction|reflexivity].
Qed.

Theorem redeem_wrong_redirect cfg s c cl code redirect v vh k r :
  clients s c = Some cl -> args_has (cl_grants cl) ["authorization_code"] = true ->
  key_of s code = Some k -> codes (st s) k = Some (true, r) -> p_tampered code = false ->
  r_client r = c -> r_redirect r <> "" -> r_redirect r <> redirect ->
  redeem cfg s (Some c) code redirect v vh = (s, err_obs "invalid_grant").
Proof.
  intros Hc Hg Hk Hcode Ht Heq Hr1 Hr2. unfold redeem. rewrite Hc, Hg, Hk, Hcode, Ht, Heq, Nat.eqb_refl. cbn [negb].
  destruct (String.eqb_spec (r_redirect r) ""); [contradiction|].
  destruct (String.eqb_spec (r_redirect r) redirect); [contradiction|reflexivity].
Qed.

(* parameters of the token request other than code, redirect_uri, code_verifier and the client
   credentials do not exist for the flow *)
Theorem redeem_ignores_smuggled cfg s auth code redirect v vh sm sm' :
  step cfg s (ORedeem auth code redirect v vh sm) = step cfg s (ORedeem auth code redirect v vh sm').
Proof. reflexivity. Qed.
Theorem refresh_ignores_smuggled cfg s auth tok sm sm' :
  step cfg s (ORefresh auth tok sm) = step cfg s (ORefresh auth tok sm').
Proof. reflexivity. Qed.

(* ------------------------------------------------------------------ successful refresh *)
Theorem refresh_ok_facts cfg s auth tok :
  o_err (snd (refresh_flow cfg s auth tok)) = "" ->
  exists k r cl,
    key_of s tok = Some k /\ refresh (st s) k = Some (true, r) /\ p_tampered tok = false /\
    auth = Some (r_client r) /\ clients s (r_client r) = Some cl /\
    args_has (cl_grants cl) ["refresh_token"] = true /\
    scopes_ok cfg cl (r_gscopes r) = true /\ aud_ok cfg (cl_aud cl) (r_gaud r) = true /\
    not_expired (s_exp_rt (r_sess r)) (now s) /\
    (match cf_refresh_scopes cfg with [] => true | sc => args_has_one_of (r_gscopes r) sc end) = true /\
    let res := refresh_flow cfg s auth tok in
    o_scopes (snd res) = r_gscopes r /\
    (exists ka, access (st (fst res)) ka = Some (minted_record (eff_cfg cfg cl LRefresh) s r cl)) /\
    (exists kr, refresh (st (fst res)) kr = Some (true, minted_record (eff_cfg cfg cl LRefresh) s r cl)).
Proof.
  unfold refresh_flow.
  destruct auth as [c|]; [|discriminate].
  destruct (clients s c) as [cl|] eqn:Ecl; [|discriminate].
  destruct (negb (args_has (cl_grants cl) ["refresh_token"])) eqn:Eg; [discriminate|].
  destruct (key_of s tok) as [k|] eqn:Ek; cbn [find]; [|discriminate].
  destruct (refresh (st s) k) as [[[|] r]|] eqn:Er; [|discriminate|discriminate].
  destruct (expired_rt _ _) eqn:Ex; [discriminate|].
  destruct (p_tampered tok) eqn:Et; [discriminate|].
  destruct (negb _) eqn:Es in |- *; [discriminate|].
  destruct (Nat.eqb_spec (r_client r) c) as [Hc|Hc]; cbn [negb]; [|discriminate].
  destruct (negb (scopes_ok cfg cl (r_gscopes r))) eqn:Esc; [discriminate|].
  destruct (negb (aud_ok cfg (cl_aud cl) (r_gaud r))) eqn:Ea; [discriminate|].
  destruct (rotate_refresh (st s) (r_id r)) as [st1 [e|]]; [discriminate|].
  match goal with |- context [grant_tokens ?s2 ?stored ?w] =>
    pose proof (grant_tokens_records s2 stored w) as G; destruct (grant_tokens s2 stored w) as [s3 minted] end.
  cbn [fst snd] in *. destruct G as [ka [Ha [_ [_ [Hr _]]]]]. destruct (Hr eq_refl) as [kr [Hkr _]].
  intros _. exists k, r, cl. rewrite Hc.
  split; [reflexivity|]. split; [exact Er|]. split; [reflexivity|]. split; [reflexivity|]. split; [assumption|].
  split; [now apply negb_false_iff in Eg|]. split; [now apply negb_false_iff in Esc|].
  split; [now apply negb_false_iff in Ea|]. split; [now apply expired_rt_false|].
  split; [now apply negb_false_iff in Es|]. split; [reflexivity|].
  split; [exists ka|exists kr]; unfold minted_record; rewrite ?Hc; assumption.
Qed.

(* ------------------------------------------------------------------ introspection *)
Theorem introspect_access_truth cfg s key tampered scopes p :
  introspect_access cfg s key tampered scopes = Some p <->
  exists k r, key = Some k /\ lookup_access (st s) (Some k) = Some r /\
    expired (s_exp_at (r_sess r)) (r_at r) (cf_life_at cfg) (now s) = false /\ tampered = false /\
    match_scopes cfg (r_gscopes r) scopes = true /\
    p = {| pl_use := KAccess; pl_client := r_client r; pl_subject := s_subject (r_sess r);
           pl_scopes := r_gscopes r; pl_aud := map a_raw (r_gaud r); pl_exp := s_exp_at (r_sess r) |}.
Proof.
  unfold introspect_access. split.
  - destruct key as [k|]; [|discriminate].
    destruct (lookup_access (st s) (Some k)) as [r|] eqn:Ea; [|discriminate].
    destruct (expired _ _ _ _) eqn:E1; [discriminate|]. destruct tampered; [discriminate|].
    destruct (match_scopes cfg (r_gscopes r) scopes) eqn:E2; cbn [negb]; [|discriminate].
    intros [= <-]. exists k, r. repeat split; try reflexivity; assumption.
  - intros [k [r [-> [Ha [E1 [-> [E2 ->]]]]]]]. rewrite Ha, E1, E2. reflexivity.
Qed.

Theorem introspect_refresh_truth cfg s key tampered scopes p :
  introspect_refresh cfg s key tampered scopes = Some p <->
  exists k r, key = Some k /\ refresh (st s) k = Some (true, r) /\
    expired_rt (s_exp_rt (r_sess r)) (now s) = false /\ tampered = false /\
    match_scopes cfg (r_gscopes r) scopes = true /\
    p = {| pl_use := KRefresh; pl_client := r_client r; pl_subject := s_subject (r_sess r);
           pl_scopes := r_gscopes r; pl_aud := map a_raw (r_gaud r); pl_exp := s_exp_rt (r_sess r) |}.
Proof.
  unfold introspect_refresh. split.
  - destruct key as [k|]; cbn [find]; [|discriminate].
    destruct (refresh (st s) k) as [[[|] r]|] eqn:Ea; try discriminate.
    destruct (expired_rt _ _) eqn:E1; [discriminate|]. destruct tampered; [discriminate|].
    destruct (match_scopes cfg (r_gscopes r) scopes) eqn:E2; cbn [negb]; [|discriminate].
    intros [= <-]. exists k, r. repeat split; try reflexivity; assumption.
  - intros [k [r [-> [Ha [E1 [-> [E2 ->]]]]]]]. cbn [find]. rewrite Ha, E1, E2. reflexivity.
Qed.

(* in a reachable state the hint changes neither the verdict nor the payload *)
Theorem introspect_hint_irrelevant cfg s tok h h' scopes :
  Inv s -> introspect cfg s tok h scopes = introspect cfg s tok h' scopes.
Proof.
  intros I. unfold introspect.
  destruct (negb (cf_introspect_rt cfg)); [reflexivity|].
  destruct (introspect_access cfg s (key_of s tok) (p_tampered tok) scopes) as [pa|] eqn:Ea;
  destruct (introspect_refresh cfg s (key_of s tok) (p_tampered tok) scopes) as [pr|] eqn:Er;
    try (destruct h, h'; reflexivity).
  exfalso. apply introspect_access_truth in Ea as [k [r [Hk [Ha _]]]].
  apply introspect_refresh_truth in Er as [k' [r' [Hk' [Hr _]]]].
  rewrite Hk in Hk'. injection Hk' as <-. unfold lookup_access in Ha.
  destruct (access (st s) k) as [ra|] eqn:Eacc.
  - pose proof (inv_access_not_refresh s k ra I Eacc). congruence.
  - pose proof (inv_owner_implicit s I _ _ Ha) as H1. pose proof (inv_owner_refresh s I _ _ _ Hr) as H2. congruence.
Qed.

(* the endpoint answers only authenticated callers *)
Theorem introspect_ep_requires_caller cfg s cal tok h scopes :
  o_err (introspect_ep cfg s cal tok h scopes) <> "request_unauthorized" ->
  match cal with
  | CallerClient auth => exists c cl, auth = Some c /\ clients s c = Some cl
  | CallerBearer ct =>
      pres_eqb ct tok = false /\
      exists p, introspect cfg s ct HAccess [] = Some p /\ pl_use p = KAccess
  end.
Proof.
  unfold introspect_ep. destruct (caller_ok cfg s cal tok) eqn:E; cbn [negb]; [|cbn; congruence].
  intros _. unfold caller_ok in E. destruct cal as [[c|]|ct]; try discriminate.
  - destruct (clients s c) as [cl|] eqn:Ec; [eauto|discriminate].
  - destruct (pres_eqb ct tok); [discriminate|]. split; [reflexivity|].
    destruct (introspect cfg s ct HAccess []) as [p|]; [|discriminate].
    exists p. split; [reflexivity|]. destruct (pl_use p); try discriminate; reflexivity.
Qed.

(* expires_in is the stored expiry, in whole seconds *)
Lemma secs_bounds d : (0 <= d)%Z -> (0 <= d - 1000 * secs d < 1000)%Z.
Proof.
  intros H. unfold secs. pose proof (Z.quot_rem' d 1000) as E.
  pose proof (Z.rem_bound_pos d 1000 H ltac:(lia)). lia.
Qed.

(* ------------------------------------------------------------------ glue for the property statements *)
(* the authorization endpoint's PKCE gate *)
Theorem authorize_pkce_gate cfg s a :
  az_rtype a = RCode -> o_err (snd (authorize cfg s a)) = "" ->
  exists cl, clients s (az_client a) = Some cl /\ pkce_validate cfg (az_challenge a) (az_method a) cl = None.
Proof.
  intros Hrt. unfold authorize. rewrite Hrt. destruct (cf_par_enforced cfg); [discriminate|].
  destruct (clients s (az_client a)) as [cl|]; [|discriminate]. unfold authorize_core.
  destruct (negb (scopes_ok cfg cl (az_scopes a))); [discriminate|].
  destruct (negb (aud_ok cfg (cl_aud cl) (az_aud a))); [discriminate|].
  destruct (fresh_rid s) as [rid s1]. destruct (mint s1 KCode rid) as [k s2].
  destruct (pkce_validate cfg (az_challenge a) (az_method a) cl) as [e|] eqn:Ev.
  - cbn. intros He. exfalso. unfold pkce_validate, pkce_no_pkce in Ev.
    repeat match type of Ev with context [if ?c then _ else _] => destruct c end; try discriminate; injection Ev as <-; discriminate.
  - intros _. eauto.
Qed.

(* the authorization endpoint confines the request to the client's registration *)
Theorem authorize_confined cfg s a :
  az_rtype a = RCode -> o_err (snd (authorize cfg s a)) = "" ->
  exists cl, clients s (az_client a) = Some cl /\ scopes_ok cfg cl (az_scopes a) = true /\ aud_ok cfg (cl_aud cl) (az_aud a) = true.
Proof.
  intros Hrt. unfold authorize. rewrite Hrt. destruct (cf_par_enforced cfg); [discriminate|].
  destruct (clients s (az_client a)) as [cl|]; [|discriminate]. unfold authorize_core.
  destruct (negb (scopes_ok cfg cl (az_scopes a))) eqn:E1; [discriminate|].
  destruct (negb (aud_ok cfg (cl_aud cl) (az_aud a))) eqn:E2; [discriminate|].
  intros _. exists cl. apply negb_false_iff in E1, E2. auto.
Qed.

(* the PKCE record written at authorization carries the request's challenge and method and the client *)
Theorem authorize_stores_challenge cfg s a :
  az_rtype a = RCode -> o_err (snd (authorize cfg s a)) = "" ->
  exists cl, clients s (az_client a) = Some cl /\
  let s' := fst (authorize cfg s a) in
  exists k, nth_error (log s') (List.length (log s)) = Some {| i_kind := KCode; i_key := k; i_rid := next_rid s; i_endpoint_token := false |} /\
    (az_challenge a = "" /\ az_method a = "" -> pkce (st s') k = pkce (st s) k) /\
    (~ (az_challenge a = "" /\ az_method a = "") ->
       exists pr, pkce (st s') k = Some pr /\ r_challenge pr = az_challenge a /\ r_method pr = az_method a /\ r_cl pr = cl).
Proof.
  intros Hrt. unfold authorize. rewrite Hrt. destruct (cf_par_enforced cfg); [discriminate|].
  destruct (clients s (az_client a)) as [cl|]; [|discriminate]. unfold authorize_core.
  destruct (negb (scopes_ok cfg cl (az_scopes a))); [discriminate|].
  destruct (negb (aud_ok cfg (cl_aud cl) (az_aud a))); [discriminate|].
  destruct (fresh_rid s) as [rid s1] eqn:E1. destruct (fresh_rid_spec _ _ _ E1) as [Hrid [_ [Hst1 [_ [_ [_ Hl1]]]]]].
  destruct (mint s1 KCode rid) as [k s2] eqn:E2. destruct (mint_spec _ _ _ _ _ E2) as [_ [_ [Hst2 [_ [_ [_ Hl2]]]]]].
  destruct (pkce_validate cfg (az_challenge a) (az_method a) cl) as [e|] eqn:Ev.
  - cbn. intros He. exfalso. unfold pkce_validate, pkce_no_pkce in Ev.
    repeat match type of Ev with context [if ?c then _ else _] => destruct c end; try discriminate; injection Ev as <-; discriminate.
  - intros _. exists cl. split; [reflexivity|]. cbn [fst]. exists k. subst rid. split.
    + destruct (String.eqb (az_challenge a) "" && String.eqb (az_method a) ""); cbn; rewrite Hl2, Hl1;
        rewrite nth_error_app2 by lia; rewrite Nat.sub_diag; reflexivity.
    + destruct (String.eqb_spec (az_challenge a) ""); destruct (String.eqb_spec (az_method a) ""); cbn [andb].
      * split; [intros _; cbn; now rewrite Hst2, Hst1|intros H; exfalso; auto].
      * split; [intros [_ H]; contradiction|intros _]. cbn. rewrite upd_eq. eexists. repeat split.
      * split; [intros [H _]; contradiction|intros _]. cbn. rewrite upd_eq. eexists. repeat split.
      * split; [intros [H _]; contradiction|intros _]. cbn. rewrite upd_eq. eexists. repeat split.
Qed.

(* advertised lifetime vs. the instant the token stops being honoured *)
Theorem expires_in_consistent cfg se now_ e :
  s_exp_at se = Some e -> (now_ <= e)%Z ->
  (0 <= e - (now_ + 1000 * expires_in se cfg now_) < 1000)%Z.
Proof. intros He Hle. unfold expires_in. rewrite He. pose proof (secs_bounds (e - now_) ltac:(lia)). lia. Qed.

(* access tokens: honoured only up to the stored expiry *)
Theorem access_honoured_not_expired cfg s tok h scopes p :
  introspect cfg s tok h scopes = Some p -> pl_use p = KAccess -> not_expired (pl_exp p) (now s).
Proof.
  unfold introspect. intros H Hu.
  assert (G : forall key, introspect_access cfg s key (p_tampered tok) scopes = Some p -> not_expired (pl_exp p) (now s)).
  { intros key Hk. apply introspect_access_truth in Hk as [k [r [_ [_ [E [_ [_ ->]]]]]]]. cbn.
    intros e He. rewrite He in E. now apply expired_false_some in E. }
  assert (R : forall key, introspect_refresh cfg s key (p_tampered tok) scopes = Some p -> False).
  { intros key Hk. apply introspect_refresh_truth in Hk as [k [r [_ [_ [_ [_ [_ ->]]]]]]]. discriminate. }
  destruct (negb (cf_introspect_rt cfg)); [eauto|].
  destruct (introspect_access _ _ _ _ _) eqn:Ea; destruct (introspect_refresh _ _ _ _ _) eqn:Er; destruct h;
    try discriminate; injection H as ->; eauto; exfalso; eauto.
Qed.

Theorem refresh_honoured_not_expired cfg s tok h scopes p :
  introspect cfg s tok h scopes = Some p -> pl_use p = KRefresh -> not_expired (pl_exp p) (now s).
Proof.
  unfold introspect. intros H Hu.
  assert (G : forall key, introspect_refresh cfg s key (p_tampered tok) scopes = Some p -> not_expired (pl_exp p) (now s)).
  { intros key Hk. apply introspect_refresh_truth in Hk as [k [r [_ [_ [E [_ [_ ->]]]]]]]. cbn. now apply expired_rt_false. }
  assert (R : forall key, introspect_access cfg s key (p_tampered tok) scopes = Some p -> False).
  { intros key Hk. apply introspect_access_truth in Hk as [k [r [_ [_ [_ [_ [_ ->]]]]]]]. discriminate. }
  destruct (negb (cf_introspect_rt cfg)); [exfalso; eauto|].
  destruct (introspect_access _ _ _ _ _) eqn:Ea; destruct (introspect_refresh _ _ _ _ _) eqn:Er; destruct h;
    try discriminate; injection H as ->; eauto; exfalso; eauto.
Qed.

(* refresh tokens without a recorded expiry (configured lifespan -1) never expire *)
Theorem unlimited_refresh_never_expires cfg s key tampered scopes r k :
  key = Some k -> refresh (st s) k = Some (true, r) -> s_exp_rt (r_sess r) = None ->
  tampered = false -> match_scopes cfg (r_gscopes r) scopes = true ->
  forall t, introspect_refresh cfg (set_now s t) key tampered scopes <> None.
Proof.
  intros -> Hr He -> Hm t. unfold introspect_refresh. cbn. rewrite Hr, He. cbn. rewrite Hm. discriminate.
Qed.

(* once a credential's key holds no access record and no active refresh record, it is never reported active again *)
Theorem inactive_forever cfg s h i e tampered scopes :
  Inv s -> nth_error (log s) i = Some e -> i_kind e <> KImplicit -> access (st s) (i_key e) = None -> rt_dead (st s) (i_key e) ->
  introspect_access cfg (run cfg s h) (Some (i_key e)) tampered scopes = None /\
  introspect_refresh cfg (run cfg s h) (Some (i_key e)) tampered scopes = None.
Proof.
  intros I Hn Hkind Ha Hr.
  assert (Hlt : i_key e < next_key s).
  { exact (proj1 (inv_owner_fresh s I _ _ _ (inv_log_owner s I e (nth_error_In _ _ Hn)))). }
  pose proof (decay_run cfg h s) as D.
  pose proof (decay_access_gone _ _ _ _ D Hlt Ha) as Ha'.
  pose proof (decay_rt_dead _ _ _ _ D Hlt Hr) as Hr'.
  assert (Hi' : implicit (st (run cfg s h)) (i_key e) = None).
  { destruct (implicit (st (run cfg s h)) (i_key e)) as [ri|] eqn:Ei; [|reflexivity]. exfalso.
    pose proof (Inv_run cfg h s I) as I2. pose proof (inv_owner_implicit _ I2 _ _ Ei) as Ho1.
    pose proof (inv_log_owner _ I2 e (nth_error_In _ _ (log_run_nth cfg h s i e Hn))) as Ho2. rewrite Ho1 in Ho2. congruence. }
  unfold introspect_access, introspect_refresh, lookup_access. cbn [find]. rewrite Ha', Hi'.
  destruct Hr' as [->|[r ->]]; auto.
Qed.

(* the same for every kind of credential, the authorization endpoint's access tokens included *)
Theorem inactive_forever_any cfg s h i e tampered scopes :
  Inv s -> nth_error (log s) i = Some e ->
  access (st s) (i_key e) = None -> implicit (st s) (i_key e) = None -> rt_dead (st s) (i_key e) ->
  introspect_access cfg (run cfg s h) (Some (i_key e)) tampered scopes = None /\
  introspect_refresh cfg (run cfg s h) (Some (i_key e)) tampered scopes = None.
Proof.
  intros I Hn Ha Hi Hr.
  pose proof (inv_log_owner s I e (nth_error_In _ _ Hn)) as Ho.
  destruct (inv_owner_fresh s I _ _ _ Ho) as [Hlt Hrid].
  pose proof (decay_run cfg h s) as D.
  pose proof (decay_access_gone _ _ _ _ D Hlt Ha) as Ha'.
  pose proof (decay_rt_dead _ _ _ _ D Hlt Hr) as Hr'.
  assert (Hi' : implicit (st (run cfg s h)) (i_key e) = None).
  { destruct (implicit (st (run cfg s h)) (i_key e)) as [ri|] eqn:Ei; [|reflexivity]. exfalso.
    destruct (imp_keeps_run cfg h s _ _ Ei) as [H0|H0]; [congruence|].
    pose proof (Inv_run cfg h s I) as I2. pose proof (inv_owner_implicit _ I2 _ _ Ei) as Ho1.
    pose proof (inv_log_owner _ I2 e (nth_error_In _ _ (log_run_nth cfg h s i e Hn))) as Ho2. rewrite Ho1 in Ho2.
    injection Ho2 as _ Hx. lia. }
  unfold introspect_access, introspect_refresh, lookup_access. cbn [find]. rewrite Ha', Hi'.
  destruct Hr' as [->|[r ->]]; auto.
Qed.

(* ------------------------------------------------------------------ the same for the hybrid flow (response type "code token"):
   the code is the second credential the response hands out *)
Definition code_pos (a : authz) : nat := match az_rtype a with RCodeToken => 1 | _ => 0 end.

Theorem authorize_hybrid_stores_challenge cfg s a :
  az_rtype a = RCodeToken -> o_err (snd (authorize cfg s a)) = "" ->
  exists cl, clients s (az_client a) = Some cl /\ pkce_validate cfg (az_challenge a) (az_method a) cl = None /\
  let s' := fst (authorize cfg s a) in
  exists k, nth_error (log s') (List.length (log s) + 1) = Some {| i_kind := KCode; i_key := k; i_rid := next_rid s; i_endpoint_token := false |} /\
    (az_challenge a = "" /\ az_method a = "" -> pkce (st s') k = pkce (st s) k) /\
    (~ (az_challenge a = "" /\ az_method a = "") ->
       exists pr, pkce (st s') k = Some pr /\ r_challenge pr = az_challenge a /\ r_method pr = az_method a /\ r_cl pr = cl).
Proof.
  intros Hrt. unfold authorize. rewrite Hrt. destruct (cf_par_enforced cfg); [discriminate|].
  destruct (clients s (az_client a)) as [cl|]; [|discriminate]. unfold authorize_hybrid.
  repeat match goal with |- context [if ?c then fail s _ else _] => destruct c; [discriminate|] end.
  destruct (fresh_rid s) as [rid s1] eqn:E1. destruct (fresh_rid_spec _ _ _ E1) as [Hrid [_ [Hst1 [_ [_ [_ Hl1]]]]]].
  destruct (mint s1 KCode rid) as [k s2] eqn:E2. destruct (mint_spec _ _ _ _ _ E2) as [_ [_ [Hst2 [_ [_ [_ Hl2]]]]]].
  match goal with |- context [create_code _ k ?r] => set (rec := r) end.
  destruct (negb (args_has (cl_grants cl) ["implicit"])); [discriminate|].
  destruct (pkce_validate cfg (az_challenge a) (az_method a) cl) as [e|] eqn:Ev.
  - cbn. intros He. exfalso. unfold pkce_validate, pkce_no_pkce in Ev.
    repeat match type of Ev with context [if ?c then _ else _] => destruct c end; try discriminate; injection Ev as <-; discriminate.
  - match goal with |- context [issue_implicit cfg ?s3 cl a rid ?ec] =>
      pose proof (issue_implicit_spec cfg s3 cl a rid ec) as SP; destruct (issue_implicit cfg s3 cl a rid ec) as [s4 ein] end.
    cbn [fst] in SP. destruct SP as [_ [_ [_ [_ [_ [Hp4 [_ [_ [_ [_ [[e4 [Hl4 _]] _]]]]]]]]]]].
    intros _. exists cl. split; [reflexivity|]. split; [exact Ev|]. cbn [fst]. exists k. subst rid.
    assert (Hlen : List.length (log s4) = List.length (log s) + 1).
    { rewrite Hl4. cbn [log set_store]. rewrite app_length, Hl2, Hl1. cbn. reflexivity. }
    split.
    + destruct (String.eqb (az_challenge a) "" && String.eqb (az_method a) ""); cbn;
        rewrite nth_error_app2 by lia; rewrite Hlen, Nat.sub_diag; reflexivity.
    + cbn [st set_store] in Hp4.
      assert (Hp : pkce (st s4) = pkce (st s)) by (rewrite Hp4; cbn; now rewrite Hst2, Hst1).
      destruct (String.eqb_spec (az_challenge a) ""); destruct (String.eqb_spec (az_method a) ""); cbn [andb].
      * split; [intros _; cbn; now rewrite Hp|intros H; exfalso; auto].
      * split; [intros [_ H]; contradiction|intros _]. cbn. rewrite upd_eq. eexists. repeat split.
      * split; [intros [H _]; contradiction|intros _]. cbn. rewrite upd_eq. eexists. repeat split.
      * split; [intros [H _]; contradiction|intros _]. cbn. rewrite upd_eq. eexists. repeat split.
Qed.

(* both flows that hand out a code *)
Theorem authorize_code_stores_challenge cfg s a :
  az_rtype a <> RToken -> o_err (snd (authorize cfg s a)) = "" ->
  exists cl, clients s (az_client a) = Some cl /\ pkce_validate cfg (az_challenge a) (az_method a) cl = None /\
  let s' := fst (authorize cfg s a) in
  exists k, nth_error (log s') (List.length (log s) + code_pos a) = Some {| i_kind := KCode; i_key := k; i_rid := next_rid s; i_endpoint_token := false |} /\
    (az_challenge a = "" /\ az_method a = "" -> pkce (st s') k = pkce (st s) k) /\
    (~ (az_challenge a = "" /\ az_method a = "") ->
       exists pr, pkce (st s') k = Some pr /\ r_challenge pr = az_challenge a /\ r_method pr = az_method a /\ r_cl pr = cl).
Proof.
  intros Hrt Hok. unfold code_pos. destruct (az_rtype a) eqn:E; [|contradiction|].
  - destruct (authorize_pkce_gate cfg s a E Hok) as [cl [Hcl Hv]].
    destruct (authorize_stores_challenge cfg s a E Hok) as [cl' [Hcl' H]].
    assert (cl' = cl) by congruence. subst cl'. exists cl. split; [exact Hcl|]. split; [exact Hv|].
    rewrite Nat.add_0_r. exact H.
  - exact (authorize_hybrid_stores_challenge cfg s a E Hok).
Qed.
