(* C12, second half: under whichever strategy is configured, no endpoint of the history model accepts a
   request whose scopes or audience the client's registration does not cover, and what is minted
   carries the grant and nothing else. *)
From FositeModel Require Import Base.Str Model.Scope Model.Core Model.Flows Proofs.CoreInv Proofs.StepInv Proofs.Family Proofs.Decay Proofs.StepProps Proofs.C16Proofs Proofs.C17Proofs.

Definition covered (cfg : config) (cl : client) (sc : list string) (au : list aurl) : Prop :=
  scopes_ok cfg cl sc = true /\ aud_ok cfg (cl_aud cl) au = true.

Lemma authorize_core_covered cfg s cl a :
  o_err (snd (authorize_core cfg s cl a)) = "" -> covered cfg cl (az_scopes a) (az_aud a).
Proof.
  unfold authorize_core.
  destruct (negb (scopes_ok cfg cl (az_scopes a))) eqn:E1; [discriminate|].
  destruct (negb (aud_ok cfg (cl_aud cl) (az_aud a))) eqn:E2; [discriminate|].
  intros _. apply negb_false_iff in E1, E2. split; assumption.
Qed.

Lemma authorize_implicit_covered cfg s cl a :
  o_err (snd (authorize_implicit cfg s cl a)) = "" -> covered cfg cl (az_scopes a) (az_aud a).
Proof.
  unfold authorize_implicit.
  destruct (negb (scopes_ok cfg cl (az_scopes a))) eqn:E1; [discriminate|].
  destruct (negb (aud_ok cfg (cl_aud cl) (az_aud a))) eqn:E2; [discriminate|].
  intros _. apply negb_false_iff in E1, E2. split; assumption.
Qed.

Lemma authorize_hybrid_covered cfg s cl a :
  o_err (snd (authorize_hybrid cfg s cl a)) = "" -> covered cfg cl (az_scopes a) (az_aud a).
Proof.
  unfold authorize_hybrid.
  destruct (negb (scopes_ok cfg cl (az_scopes a))) eqn:E1; [discriminate|].
  destruct (negb (aud_ok cfg (cl_aud cl) (az_aud a))) eqn:E2; [discriminate|].
  intros _. apply negb_false_iff in E1, E2. split; assumption.
Qed.

(* every endpoint that takes a requested scope / audience *)
Theorem accepted_request_is_covered cfg s o c sc au :
  request_of o = Some (c, sc, au) -> o_err (snd (step cfg s o)) = "" ->
  exists cl, clients s c = Some cl /\ covered cfg cl sc au.
Proof.
  destruct o as [a|? ? ? ? ? ?|? ? ?|? ? ?|? ? ?|?|? ?|auth ok sc' au' g ga|auth sc' au' g ga|? ? ? ?|auth bc ru a|? ? ?|auth bc sc' au'|? ? ? ? ?|? ?|?];
    cbn [request_of]; try discriminate.
  - (* authorize *)
    intros [= <- <- <-]. cbn [step]. unfold authorize.
    destruct (cf_par_enforced cfg); [discriminate|].
    destruct (clients s (az_client a)) as [cl|]; [|discriminate].
    intros H. exists cl. split; [reflexivity|].
    destruct (az_rtype a); [now apply authorize_core_covered in H|now apply authorize_implicit_covered in H|now apply authorize_hybrid_covered in H].
  - (* password *)
    destruct auth as [c'|]; [|discriminate]. intros [= <- <- <-]. cbn [step]. unfold password_flow.
    destruct (clients s c') as [cl|]; [|discriminate].
    destruct (negb (args_has (cl_grants cl) ["password"])); [discriminate|].
    destruct (negb (scopes_ok cfg cl sc')) eqn:E1; [discriminate|].
    destruct (negb (aud_ok cfg (cl_aud cl) au')) eqn:E2; [discriminate|].
    intros _. exists cl. apply negb_false_iff in E1, E2. repeat split; assumption.
  - (* client credentials *)
    destruct auth as [c'|]; [|discriminate]. intros [= <- <- <-]. cbn [step]. unfold client_credentials_flow.
    destruct (clients s c') as [cl|]; [|discriminate].
    destruct (negb (scopes_ok cfg cl sc')) eqn:E1; [discriminate|].
    destruct (negb (aud_ok cfg (cl_aud cl) au')) eqn:E2; [discriminate|].
    intros _. exists cl. apply negb_false_iff in E1, E2. repeat split; assumption.
  - (* push *)
    destruct auth as [c'|]; [|discriminate]. intros [= <- <- <-]. cbn [step]. intros H.
    destruct (push_ok_facts cfg s (Some c') bc ru a H) as [c0 [cl [Hc [Hcl [_ [_ [Hs [Ha _]]]]]]]].
    injection Hc as <-. exists cl. repeat split; assumption.
  - (* device authorization *)
    destruct auth as [c'|]; [|discriminate]. intros [= <- <- <-]. cbn [step]. unfold device_authorize.
    destruct (clients s c') as [cl|]; [|discriminate].
    destruct (negb (Nat.eqb c' bc)); [discriminate|].
    destruct (negb (args_has (cl_grants cl) _)); [discriminate|].
    destruct (negb (scopes_ok cfg cl sc')) eqn:E1; [discriminate|].
    destruct (negb (aud_ok cfg (cl_aud cl) au')) eqn:E2; [discriminate|].
    intros _. exists cl. apply negb_false_iff in E1, E2. repeat split; assumption.
Qed.

(* an authorization started from a request_uri re-validates the pushed scopes and audience against the
   registration stored with the pushed request *)
Theorem par_authorization_is_covered cfg s cp uri a :
  o_err (snd (authorize_par cfg s cp uri a)) = "" ->
  exists k pr, key_of s uri = Some k /\ par (st s) k = Some pr /\ covered cfg (r_cl pr) (r_rscopes pr) (r_raud pr).
Proof.
  intros H. destruct (authorize_par_ok_facts cfg s cp uri a H) as [k [pr [Hk [Hp [_ [_ Hc]]]]]].
  exists k, pr. split; [assumption|]. split; [assumption|].
  apply authorize_core_covered in Hc. exact Hc.
Qed.

(* a refresh is honoured only while the client's current registration covers everything that was granted *)
Theorem refresh_is_covered cfg s auth tok :
  o_err (snd (refresh_flow cfg s auth tok)) = "" ->
  exists k r cl, key_of s tok = Some k /\ refresh (st s) k = Some (true, r) /\ clients s (r_client r) = Some cl /\
    covered cfg cl (r_gscopes r) (r_gaud r).
Proof.
  intros H. destruct (refresh_ok_facts cfg s auth tok H) as [k [r [cl [Hk [Hr [_ [_ [Hcl [_ [Hs [Ha _]]]]]]]]]]].
  exists k, r, cl. repeat split; assumption.
Qed.

(* what the token endpoint mints for a grant that starts there carries exactly the granted scopes and audience *)
Lemma fresh_grant_records s mk w :
  let res := fresh_grant s mk w in
  exists ka, access (st (fst res)) ka = Some (mk (next_rid s)) /\
    (w = true -> exists kr, refresh (st (fst res)) kr = Some (true, mk (next_rid s))).
Proof.
  unfold fresh_grant. destruct (fresh_rid s) as [rid s1] eqn:E1.
  destruct (fresh_rid_spec _ _ _ E1) as [Hrid _]. subst rid.
  destruct (grant_tokens_records s1 (mk (next_rid s)) w) as [ka [Ha [_ [_ [Hr _]]]]].
  exists ka. split; [exact Ha|]. intros Hw. destruct (Hr Hw) as [kr [Hkr _]]. eauto.
Qed.

Theorem password_mints_the_grant cfg s auth ok sc au g ga :
  o_err (snd (password_flow cfg s auth ok sc au g ga)) = "" ->
  o_scopes (snd (password_flow cfg s auth ok sc au g ga)) = g /\
  exists ka r, access (st (fst (password_flow cfg s auth ok sc au g ga))) ka = Some r /\ r_gscopes r = g /\ r_gaud r = ga.
Proof.
  unfold password_flow.
  destruct auth as [c|]; [|discriminate]. destruct (clients s c) as [cl|]; [|discriminate].
  repeat match goal with |- context [if ?c then fail s _ else _] => destruct c; [discriminate|] end.
  match goal with |- context [fresh_grant s ?mk ?w] =>
    pose proof (fresh_grant_records s mk w) as FG; destruct (fresh_grant s mk w) as [s2 minted] end.
  cbn [fst snd] in *. intros _. split; [reflexivity|].
  destruct FG as [ka [Ha _]]. eexists ka, _. split; [exact Ha|]. split; reflexivity.
Qed.

Theorem client_credentials_mints_the_grant cfg s auth sc au g ga :
  o_err (snd (client_credentials_flow cfg s auth sc au g ga)) = "" ->
  o_scopes (snd (client_credentials_flow cfg s auth sc au g ga)) = g /\
  exists ka r, access (st (fst (client_credentials_flow cfg s auth sc au g ga))) ka = Some r /\ r_gscopes r = g /\ r_gaud r = ga.
Proof.
  unfold client_credentials_flow.
  destruct auth as [c|]; [|discriminate]. destruct (clients s c) as [cl|]; [|discriminate].
  repeat match goal with |- context [if ?c then fail s _ else _] => destruct c; [discriminate|] end.
  match goal with |- context [fresh_grant s ?mk ?w] =>
    pose proof (fresh_grant_records s mk w) as FG; destruct (fresh_grant s mk w) as [s2 minted] end.
  cbn [fst snd] in *. intros _. split; [reflexivity|].
  destruct FG as [ka [Ha _]]. eexists ka, _. split; [exact Ha|]. split; reflexivity.
Qed.

(* introspection reports the stored record's own scopes and audience *)
Theorem reported_scopes_are_the_records cfg s key tampered scopes p :
  introspect_access cfg s key tampered scopes = Some p ->
  exists k r, key = Some k /\ lookup_access (st s) (Some k) = Some r /\
    pl_scopes p = r_gscopes r /\ pl_aud p = map a_raw (r_gaud r).
Proof.
  intros H. apply introspect_access_truth in H. destruct H as [k [r [Hk [Hl [_ [_ [_ ->]]]]]]].
  exists k, r. cbn. auto.
Qed.
