(* Old keys only decay: a step never re-creates a record under a key that was handed out before, never
   re-activates a code or a refresh token, never brings back a deleted token. *)
From FositeModel Require Import Base.Str Model.Scope Model.Core Model.Flows Proofs.CoreInv Proofs.StepInv Proofs.Family.

Arguments upd : simpl never.

Definition decay (K : nat) (x x' : store) : Prop :=
  forall k, k < K ->
    (access x' k = access x k \/ access x' k = None) /\
    (refresh x' k = refresh x k \/ refresh x' k = None \/ exists b r, refresh x k = Some (b, r) /\ refresh x' k = Some (false, r)) /\
    (codes x' k = codes x k \/ exists b r, codes x k = Some (b, r) /\ codes x' k = Some (false, r)).

Lemma decay_refl K x : decay K x x.
Proof. intros k _. auto. Qed.

Lemma decay_trans K x y z : decay K x y -> decay K y z -> decay K x z.
Proof.
  intros D1 D2 k Hk. destruct (D1 k Hk) as [A1 [R1 C1]]. destruct (D2 k Hk) as [A2 [R2 C2]]. repeat split.
  - destruct A2 as [->| ->]; auto.
  - destruct R2 as [->|[->|[b [r [E ->]]]]]; auto.
    destruct R1 as [E1|[E1|[b1 [r1 [E1 E1']]]]].
    + right. right. exists b, r. rewrite <- E1. auto.
    + congruence.
    + rewrite E1' in E. injection E as <- <-. right. right. eauto.
  - destruct C2 as [->|[b [r [E ->]]]]; auto.
    destruct C1 as [E1|[b1 [r1 [E1 E1']]]].
    + right. exists b, r. rewrite <- E1. auto.
    + rewrite E1' in E. injection E as <- <-. right. eauto.
Qed.

Lemma decay_eq_tables K x y : codes y = codes x -> access y = access x -> refresh y = refresh x -> decay K x y.
Proof. intros Hc Ha Hr k _. rewrite Hc, Ha, Hr. auto. Qed.

Lemma decay_delete_access K x k0 : decay K x (delete_access x k0).
Proof. intros k _. cbn. repeat split; auto. upd_case k k0; auto. Qed.
Lemma decay_revoke_access K x X : decay K x (revoke_access x X).
Proof.
  intros k _. unfold revoke_access. cbn. repeat split; auto.
  unfold drop_rid. destruct (access x k) as [r|]; [|auto]. destruct (Nat.eqb (r_id r) X); auto.
Qed.
Lemma decay_delete_refresh K x k0 : decay K x (delete_refresh x k0).
Proof. intros k _. cbn. repeat split; auto. upd_case k k0; auto. Qed.
Lemma decay_revoke_refresh K x X : decay K x (fst (revoke_refresh x X)).
Proof.
  unfold revoke_refresh. destruct (rt_idx x X) as [k0|]; [|apply decay_refl].
  destruct (refresh x k0) as [[b r]|] eqn:E; [|apply decay_refl]. cbn [fst].
  intros k _. cbn. repeat split; auto. upd_case k k0; [subst; right; right; eauto|auto].
Qed.
Lemma decay_invalidate_code K x k0 : decay K x (fst (invalidate_code x k0)).
Proof.
  unfold invalidate_code. destruct (codes x k0) as [[b r]|] eqn:E; [|apply decay_refl]. cbn [fst].
  intros k _. cbn. repeat split; auto. upd_case k k0; [subst; right; eauto|auto].
Qed.
Lemma decay_create_access K x k0 r : K <= k0 -> decay K x (create_access x k0 r).
Proof. intros H k Hk. cbn. repeat split; auto. rewrite upd_neq by lia. auto. Qed.
Lemma decay_create_refresh K x k0 r : K <= k0 -> decay K x (create_refresh x k0 r).
Proof. intros H k Hk. cbn. repeat split; auto. rewrite upd_neq by lia. auto. Qed.
Lemma decay_create_code K x k0 r : K <= k0 -> decay K x (create_code x k0 r).
Proof. intros H k Hk. cbn. repeat split; auto. rewrite upd_neq by lia. auto. Qed.

Lemma decay_grant_tokens s stored w : decay (next_key s) (st s) (st (fst (grant_tokens s stored w))).
Proof.
  unfold grant_tokens.
  destruct (mint s KAccess (r_id stored)) as [ka s2] eqn:E2.
  destruct (mint_spec _ _ _ _ _ E2) as [Hka [_ [Hst2 [_ [Hk2 _]]]]].
  assert (H1 : next_key s <= ka) by lia.
  destruct w.
  - destruct (mint s2 KRefresh (r_id stored)) as [kr s3] eqn:E3.
    destruct (mint_spec _ _ _ _ _ E3) as [Hkr [_ [Hst3 _]]].
    assert (H2 : next_key s <= kr) by lia.
    cbn [fst st log_add set_store]. rewrite Hst3, Hst2.
    eapply decay_trans; [exact (decay_create_access _ (st s) ka stored H1)|exact (decay_create_refresh _ _ kr stored H2)].
  - cbn [fst st log_add set_store]. rewrite Hst2. exact (decay_create_access _ (st s) ka stored H1).
Qed.

Lemma decay_pkce_token K cfg s cl key v vh : decay K (st s) (st (fst (pkce_token cfg s cl key v vh))).
Proof.
  destruct (pkce_token_state cfg s cl key v vh) as [->|[k ->]]; [apply decay_refl|].
  apply decay_eq_tables; reflexivity.
Qed.

Lemma next_key_pkce_token cfg s cl key v vh : next_key (fst (pkce_token cfg s cl key v vh)) = next_key s.
Proof. destruct (pkce_token_state cfg s cl key v vh) as [->|[k ->]]; reflexivity. Qed.

Lemma decay_fresh_grant s mk w : decay (next_key s) (st s) (st (fst (fresh_grant s mk w))).
Proof.
  unfold fresh_grant. destruct (fresh_rid s) as [rid s1] eqn:E1.
  destruct (fresh_rid_spec _ _ _ E1) as [_ [_ [Hst [_ [Hk _]]]]].
  rewrite <- Hst, <- Hk. apply decay_grant_tokens.
Qed.
Lemma fresh_grant_next_key s mk w : next_key s <= next_key (fst (fresh_grant s mk w)).
Proof.
  unfold fresh_grant. destruct (fresh_rid s) as [rid s1] eqn:E1.
  destruct (fresh_rid_spec _ _ _ E1) as [_ [_ [_ [_ [Hk _]]]]].
  unfold grant_tokens, mint. destruct w; cbn; lia.
Qed.
Lemma fresh_grant_log s mk w : exists l, log (fst (fresh_grant s mk w)) = (log s ++ l)%list.
Proof.
  unfold fresh_grant. destruct (fresh_rid s) as [rid s1] eqn:E1.
  destruct (fresh_rid_spec _ _ _ E1) as [_ [_ [_ [_ [_ [_ Hl]]]]]].
  unfold grant_tokens, mint. destruct w; cbn; rewrite Hl; eauto.
Qed.

Lemma decay_authorize_core cfg s cl a : decay (next_key s) (st s) (st (fst (authorize_core cfg s cl a))).
Proof.
  set (K := next_key s). unfold authorize_core.
  destruct (negb (scopes_ok cfg cl (az_scopes a))); [apply decay_refl|].
  destruct (negb (aud_ok cfg (cl_aud cl) (az_aud a))); [apply decay_refl|].
  destruct (fresh_rid s) as [rid s1] eqn:E1.
  destruct (fresh_rid_spec _ _ _ E1) as [_ [_ [Hst1 [_ [Hk1 _]]]]].
  destruct (mint s1 KCode rid) as [k s2] eqn:E2.
  destruct (mint_spec _ _ _ _ _ E2) as [Hk [_ [Hst2 _]]].
  assert (P : forall r, decay K (st s) (create_code (st s2) k r)).
  { intros r. rewrite Hst2, Hst1. apply decay_create_code. unfold K. lia. }
  destruct (pkce_validate cfg (az_challenge a) (az_method a) cl); cbn [fst fail st set_store log_add]; [apply P|].
  destruct (String.eqb (az_challenge a) "" && String.eqb (az_method a) ""); cbn [st set_store]; [apply P|].
  eapply decay_trans; [apply P|]. apply decay_eq_tables; reflexivity.
Qed.

Theorem decay_step cfg s o : decay (next_key s) (st s) (st (fst (step cfg s o))).
Proof.
  set (K := next_key s).
  destruct o; cbn [step]; try apply decay_refl;
    try (new_flows_tac s decay_fresh_grant ltac:(apply decay_refl); exact FGfact).
  - unfold authorize. destruct (cf_par_enforced cfg); [apply decay_refl|].
    destruct (clients s (az_client a)) as [cl|]; [|apply decay_refl].
    destruct (az_rtype a); [apply decay_authorize_core| |].
    + destruct (authorize_implicit_effect cfg s cl a) as [Ha [Hr [_ [_ [_ [_ [_ [_ [Hold _]]]]]]]]].
      intros k Hk. rewrite Ha, Hr. destruct (Hold k Hk) as [Hc _]. rewrite Hc. auto.
    + destruct (authorize_hybrid_effect cfg s cl a) as [Ha [Hr [_ [_ [_ [_ [_ [_ [Hold _]]]]]]]]].
      intros k Hk. rewrite Ha, Hr. destruct (Hold k Hk) as [Hc _]. rewrite Hc. auto.
  - unfold redeem.
    destruct auth as [c|]; [|apply decay_refl].
    destruct (clients s c) as [cl|]; [|apply decay_refl].
    destruct (negb (args_has (cl_grants cl) ["authorization_code"])); [apply decay_refl|].
    destruct (key_of s code) as [k|]; [|apply decay_refl].
    destruct (codes (st s) k) as [[[|] r]|] eqn:Ec; [| |apply decay_refl].
    + destruct (p_tampered code); [apply decay_refl|].
      destruct (negb (Nat.eqb (r_client r) c)); [apply decay_refl|].
      destruct (negb (String.eqb (r_redirect r) "") && negb (String.eqb (r_redirect r) redirect)); [apply decay_refl|].
      pose proof (decay_pkce_token K cfg s cl (Some k) verifier verifier_s256) as P1.
      pose proof (next_key_pkce_token cfg s cl (Some k) verifier verifier_s256) as N1.
      destruct (pkce_token cfg s cl (Some k) verifier verifier_s256) as [s1 [e|]]; cbn [fst] in *; [assumption|].
      destruct (expired _ _ _ _); [assumption|].
      match goal with |- context [grant_tokens ?s2 ?stored ?w] =>
        pose proof (decay_grant_tokens s2 stored w) as G; destruct (grant_tokens s2 stored w) as [s3 minted] end.
      cbn [fst st set_store] in *. eapply decay_trans; [exact P1|].
      eapply decay_trans; [apply decay_invalidate_code|]. cbn in G. rewrite N1 in G.
      eapply decay_trans; [exact G|]. apply decay_eq_tables; reflexivity.
    + cbn [fst fail st set_store]. eapply decay_trans; [apply decay_revoke_access|apply decay_revoke_refresh].
  - unfold refresh_flow.
    destruct auth as [c|]; [|apply decay_refl].
    destruct (clients s c) as [cl|]; [|apply decay_refl].
    destruct (negb (args_has (cl_grants cl) ["refresh_token"])); [apply decay_refl|].
    destruct (key_of s tok) as [k|]; cbn [find]; [|apply decay_refl].
    destruct (refresh (st s) k) as [[[|] r]|] eqn:Er; [| |apply decay_refl].
    + repeat match goal with |- context [if ?c then _ else _] => destruct c; [apply decay_refl|] end.
      unfold rotate_refresh.
      pose proof (decay_revoke_refresh K (st s) (r_id r)) as P1.
      destruct (revoke_refresh (st s) (r_id r)) as [st1 [e|]]; cbn [fst] in *; [assumption|].
      match goal with |- context [grant_tokens ?s2 ?stored ?w] =>
        pose proof (decay_grant_tokens s2 stored w) as G; destruct (grant_tokens s2 stored w) as [s3 minted] end.
      cbn [fst] in *. eapply decay_trans; [exact P1|].
      eapply decay_trans; [apply decay_revoke_access|]. exact G.
    + cbn [fst fail st set_store].
      eapply decay_trans; [apply decay_delete_refresh|].
      eapply decay_trans; [apply decay_revoke_refresh|apply decay_revoke_access].
  - unfold revoke.
    destruct auth as [c|]; [|apply decay_refl].
    destruct (clients s c); [|apply decay_refl].
    destruct (revoke_lookup s (key_of s tok) h) as [r|]; [|apply decay_refl].
    destruct (negb (Nat.eqb (r_client r) c)); [apply decay_refl|].
    cbn [fst st set_store]. eapply decay_trans; [apply decay_revoke_refresh|apply decay_revoke_access].
  - match goal with |- context [push cfg s ?x1 ?x2 ?x3 ?x4] => destruct (push_tables cfg s x1 x2 x3 x4) as [Hc [Ha [Hr _]]] end.
    now apply decay_eq_tables.
  - rewrite ?authorize_par_fst; unfold authorize_par0.
    destruct (key_of s uri) as [k|]; [|apply decay_refl].
    destruct (par (st s) k) as [pr|]; [|apply decay_refl].
    repeat match goal with |- context [if ?c then fail _ _ else _] => destruct c; [apply decay_eq_tables; reflexivity|] end.
    match goal with |- context [authorize_core cfg ?s1 ?cl ?a'] =>
      eapply (decay_trans _ _ (st s1)); [apply decay_eq_tables; reflexivity|exact (decay_authorize_core cfg s1 cl a')] end.
  - match goal with |- context [device_authorize cfg s ?x1 ?x2 ?x3 ?x4] => destruct (device_authorize_tables cfg s x1 x2 x3 x4) as [Hc [Ha [Hr _]]] end.
    now apply decay_eq_tables.
  - match goal with |- context [decide cfg s ?x1 ?x2 ?x3 ?x4 ?x5 ?x6] => destruct (decide_tables cfg s x1 x2 x3 x4 x5 x6) as [Hc [Ha [Hr _]]] end.
    now apply decay_eq_tables.
  - unfold device_poll.
    destruct auth as [c|]; [|apply decay_refl]. destruct (clients s c) as [cl|]; [|apply decay_refl].
    destruct (negb (args_has (cl_grants cl) _)); [apply decay_refl|].
    destruct (key_of s dev) as [k|]; [|apply decay_refl].
    destruct (used_device cfg (st s) k) as [rid|].
    { cbn [fst fail st set_store]. eapply decay_trans; [apply decay_revoke_access|apply decay_revoke_refresh]. }
    destruct (device (st s) k) as [[stt r]|] eqn:Ed; [|apply decay_refl].
    repeat match goal with |- context [if ?c then fail s _ else _] => destruct c; [apply decay_refl|] end.
    match goal with |- context [grant_tokens ?s2 ?stored ?w] =>
      pose proof (decay_grant_tokens s2 stored w) as G; destruct (grant_tokens s2 stored w) as [s3 minted] end.
    cbn [fst] in *. match type of G with decay _ ?x _ => eapply (decay_trans _ _ x); [apply decay_eq_tables; reflexivity|exact G] end.
Qed.

Theorem decay_run cfg h : forall s, decay (next_key s) (st s) (st (run cfg s h)).
Proof.
  unfold run. induction h as [|o h IH]; intros s; cbn [fold_left]; [apply decay_refl|].
  eapply decay_trans; [apply decay_step|].
  pose proof (IH (fst (step cfg s o))) as D. pose proof (next_key_step cfg s o) as Hk.
  intros k Hlt. apply D. lia.
Qed.

(* consequences used by the property theorems *)
Definition rt_dead (x : store) (k : nat) : Prop := refresh x k = None \/ exists r, refresh x k = Some (false, r).

Lemma decay_access_gone K x x' k : decay K x x' -> k < K -> access x k = None -> access x' k = None.
Proof. intros D Hk H. destruct (D k Hk) as [[E|E] _]; congruence. Qed.
Lemma decay_rt_dead K x x' k : decay K x x' -> k < K -> rt_dead x k -> rt_dead x' k.
Proof.
  intros D Hk H. destruct (D k Hk) as [_ [[E|[E|[b [r [E E']]]]] _]].
  - unfold rt_dead. now rewrite E.
  - now left.
  - right. eauto.
Qed.

(* a used code stays used *)
Lemma code_inactive_step cfg s o k r :
  Inv s -> codes (st s) k = Some (false, r) -> exists r', codes (st (fst (step cfg s o))) k = Some (false, r') /\ r_id r' = r_id r.
Proof.
  intros I H. pose proof (proj1 (inv_code_fresh s _ _ _ I H)) as Hk.
  destruct (decay_step cfg s o k Hk) as [_ [_ [E|[b [r0 [E E']]]]]].
  - exists r. rewrite E. auto.
  - rewrite H in E. injection E as <- <-. eauto.
Qed.

Theorem code_inactive_run cfg h : forall s k r,
  Inv s -> codes (st s) k = Some (false, r) -> exists r', codes (st (run cfg s h)) k = Some (false, r') /\ r_id r' = r_id r.
Proof.
  unfold run. induction h as [|o h IH]; intros s k r I H; cbn [fold_left]; [eauto|].
  destruct (code_inactive_step cfg s o k r I H) as [r' [H' Hr]].
  destruct (IH _ k r' (Inv_step cfg s o I) H') as [r'' [H'' Hr']]. exists r''. split; [assumption|congruence].
Qed.
