(* Specification and theorems for Model/Jwt.v, written from the property text: a JWT access token is
   accepted only with a valid signature from the configured key and an asymmetric algorithm, never
   with alg=none (unless the operator opted in with the dedicated constant) or a symmetric one. *)
From FositeModel Require Import Base.Str Model.Hmac Model.Jwt Proofs.HmacProofs.

Definition structure_ok (f : jfacts) : Prop := j_parse f = true /\ j_claims f = true /\ j_headers f = 1.
Definition claims_ok (f : jfacts) : Prop := j_exp f = true /\ j_iat f = true /\ j_nbf f = true.

Definition is_magic (vk : vkey) : bool := match vk with VNoneMagic => true | _ => false end.
Definition parse_ok_b (vk : vkey) (f : jfacts) : bool :=
  j_parse f && j_claims f && Nat.eqb (j_headers f) 1 && (j_exp f && j_iat f && j_nbf f) &&
  ((String.eqb (j_alg f) "none" && is_magic vk) || (alg_fits vk (j_alg f) && j_sig f)).

Lemma parse_ok_b_spec vk f : parse_with_claims vk f = None <-> parse_ok_b vk f = true.
Proof.
  unfold parse_with_claims, parse_ok_b.
  destruct (j_parse f); cbn [negb andb]; [|split; discriminate].
  destruct (j_claims f); cbn [negb andb]; [|split; discriminate].
  destruct (Nat.eqb (j_headers f) 1); cbn [negb andb]; [|split; discriminate].
  destruct (alg_fits vk (j_alg f)) eqn:Ef; destruct (String.eqb (j_alg f) "none");
    destruct (j_sig f); destruct (j_exp f); destruct (j_iat f); destruct (j_nbf f);
    destruct vk; cbn in *; try discriminate; split; congruence.
Qed.

(* ParseWithClaims accepts iff the token parses with one header, the time claims hold, and either the
   explicit alg=none opt-in applies or the algorithm fits the key type and the signature verifies *)
Theorem parse_accept_iff vk f :
  parse_with_claims vk f = None <->
  structure_ok f /\ claims_ok f /\
  ((j_alg f = "none" /\ vk = VNoneMagic) \/ (alg_fits vk (j_alg f) = true /\ j_sig f = true)).
Proof.
  rewrite parse_ok_b_spec. unfold parse_ok_b, structure_ok, claims_ok.
  rewrite !andb_true_iff, orb_true_iff, !andb_true_iff, Nat.eqb_eq, String.eqb_eq.
  assert (Hm : is_magic vk = true <-> vk = VNoneMagic) by (destruct vk; cbn; split; congruence).
  rewrite Hm. tauto.
Qed.

Lemma jerr_name_nonempty e : jerr_name e <> "".
Proof. destruct e; discriminate. Qed.

Theorem jwt_accept_iff pk f :
  jwt_validate pk f = "" <-> exists vk, decode_key pk = Some vk /\ parse_with_claims vk f = None.
Proof.
  unfold jwt_validate, jwt_decode. destruct (decode_key pk) as [vk|].
  - destruct (parse_with_claims vk f) as [e|] eqn:E.
    + split; [intros H; now apply jerr_name_nonempty in H|]. intros [vk' [Hq Hp]]. injection Hq as <-. congruence.
    + split; [intros _; now exists vk|reflexivity].
  - split; [discriminate|]. intros [vk [H _]]. discriminate.
Qed.

(* the key types fosite documents: an RSA or ECDSA private key, directly, inside a *jose.JSONWebKey,
   or behind an opaque signer whose public key is an RSA / ECDSA public key *)
Definition std_base (pk : pkey) : bool :=
  match pk with
  | PRsa | PEc _ => true
  | POpaque _ VRsa | POpaque _ (VEc _) => true
  | _ => false
  end.
Definition standard_key (pk : pkey) : bool :=
  match pk with PJwkPtr _ inner => std_base inner | _ => std_base pk end.

Lemma standard_decode pk : standard_key pk = true -> exists vk, decode_key pk = Some vk /\ (vk = VRsa \/ exists c, vk = VEc c).
Proof.
  destruct pk as [|c|a inner|a inner|algs pub| |]; cbn; try discriminate.
  - intros _. exists VRsa. tauto.
  - intros _. exists (VEc c). split; [reflexivity|right; now exists c].
  - destruct inner as [|c| | |algs pub| |]; cbn; try discriminate.
    + intros _. exists VRsa. tauto.
    + intros _. exists (VEc c). split; [reflexivity|right; now exists c].
    + destruct pub; try discriminate; intros _; eexists; (split; [reflexivity|]); [tauto|right; eauto].
  - destruct pub; try discriminate; intros _; eexists; (split; [reflexivity|]); [tauto|right; eauto].
Qed.

Lemma fits_asym vk alg : (vk = VRsa \/ exists c, vk = VEc c) -> alg_fits vk alg = true ->
  asymmetric alg = true /\ mem alg sym_algs = false /\ alg <> "none".
Proof.
  intros [->|[c ->]]; cbn [alg_fits].
  - intros H. assert (In alg rsa_algs) as Hin by (now apply mem_In). cbn in Hin.
    destruct Hin as [<-|[<-|[<-|[<-|[<-|[<-|[]]]]]]]; (split; [reflexivity|split; [reflexivity|discriminate]]).
  - destruct c.
    + intros H. apply String.eqb_eq in H. subst alg. split; [reflexivity|split; [reflexivity|discriminate]].
    + intros H. apply String.eqb_eq in H. subst alg. split; [reflexivity|split; [reflexivity|discriminate]].
Qed.

(* the property's JWT clause *)
Theorem jwt_accept_standard pk f :
  standard_key pk = true -> jwt_validate pk f = "" ->
  structure_ok f /\ claims_ok f /\ j_sig f = true /\ asymmetric (j_alg f) = true /\
  mem (j_alg f) sym_algs = false /\ j_alg f <> "none".
Proof.
  intros Hstd H. apply jwt_accept_iff in H as [vk [Hd Hp]].
  destruct (standard_decode pk Hstd) as [vk' [Hd' Hk]]. rewrite Hd in Hd'. injection Hd' as <-.
  apply parse_accept_iff in Hp as [Hs [Hc [[_ Hn]|[Hf Hsig]]]].
  - exfalso. destruct Hk as [->|[c ->]]; discriminate.
  - destruct (fits_asym vk _ Hk Hf) as [Ha [Hsym Hnone]]. tauto.
Qed.

(* alg=none is accepted only under the explicit opt-in: an opaque signer that publishes
   jwt.UnsafeAllowNoneSignatureType as its public key; no RSA/ECDSA/JWK configuration does *)
Theorem jwt_none_needs_optin pk f :
  jwt_validate pk f = "" -> j_alg f = "none" -> decode_key pk = Some VNoneMagic.
Proof.
  intros H Ha. apply jwt_accept_iff in H as [vk [Hd Hp]]. apply parse_accept_iff in Hp as [_ [_ [[_ ->]|[Hf _]]]]; [assumption|].
  rewrite Ha in Hf. destruct vk as [|[|]| | | | | |]; discriminate.
Qed.

Theorem jwt_symmetric_needs_symmetric_key pk f :
  jwt_validate pk f = "" -> mem (j_alg f) sym_algs = true -> decode_key pk = Some VSym.
Proof.
  intros H Ha. apply jwt_accept_iff in H as [vk [Hd Hp]]. apply parse_accept_iff in Hp as [_ [_ [[Hn _]|[Hf _]]]].
  - rewrite Hn in Ha. discriminate.
  - destruct vk as [|c| | | | | |]; try discriminate; [| |assumption].
    + exfalso. destruct (fits_asym VRsa _ (or_introl eq_refl) Hf) as [_ [H' _]]. congruence.
    + exfalso. destruct (fits_asym (VEc c) _ (or_intror (ex_intro _ c eq_refl)) Hf) as [_ [H' _]]. congruence.
Qed.

(* whatever the key: an accepted token whose alg is not "none" has an algorithm that fits the type of
   the verification key *)
Theorem jwt_signed_alg_fits pk f :
  jwt_validate pk f = "" -> j_alg f <> "none" ->
  exists vk, decode_key pk = Some vk /\ alg_fits vk (j_alg f) = true.
Proof.
  intros H Ha. apply jwt_accept_iff in H as [vk [Hd Hp]]. apply parse_accept_iff in Hp as [_ [_ [[Hn _]|[Hf _]]]]; [contradiction|].
  now exists vk.
Qed.

(* the unrestricted statement "whatever key object is configured, only asymmetric algorithms are
   accepted" is FALSE of the faithful model: an opaque signer may publish a symmetric JSONWebKey, or
   the alg=none opt-in constant, as its public key *)
Theorem jwt_any_key_asymmetric_refuted :
  exists pk f, jwt_validate pk f = "" /\ asymmetric (j_alg f) = false /\ j_sig f = true.
Proof. exists (POpaque [] VSym), (JF true true 1 "HS256" true true true true). repeat split. Qed.

Theorem jwt_any_key_none_refuted :
  exists pk f, jwt_validate pk f = "" /\ j_alg f = "none" /\ j_sig f = false.
Proof. exists (POpaque [] VNoneMagic), (JF true true 1 "none" false true true true). repeat split. Qed.

(* whatever the key, a token whose alg is not "none" is accepted only with a verifying signature *)
Theorem jwt_signed_needs_signature pk f :
  jwt_validate pk f = "" -> j_alg f <> "none" -> j_sig f = true.
Proof.
  intros H Ha. apply jwt_accept_iff in H as [vk [_ Hp]]. apply parse_accept_iff in Hp as [_ [_ [[Hn _]|[_ Hs]]]]; [contradiction|assumption].
Qed.

(* minting: RSA keys sign RS256, ECDSA keys ES256; both are asymmetric and (for P-256) fit the key
   that Decode derives, so minted tokens verify *)
Theorem gen_alg_roundtrip pk : (pk = PRsa \/ pk = PEc true) ->
  exists a vk, gen_alg pk = Some a /\ decode_key pk = Some vk /\ alg_fits vk a = true /\ asymmetric a = true.
Proof. intros [->| ->]; eexists _, _; repeat split. Qed.

(* quirk: a jose.JSONWebKey passed BY VALUE mints tokens but can never validate one *)
Theorem jwk_value_mints_but_never_validates a inner f :
  priv_fits inner a = true ->
  gen_alg (PJwkVal a inner) = Some a /\ jwt_validate (PJwkVal a inner) f = "error:500".
Proof. intros H. cbn. rewrite H. split; reflexivity. Qed.

(* quirk: an opaque signer can either mint (Public().Key is a private key object, which go-jose cannot
   verify with) or validate (Public().Key is a public key), never both *)
Theorem opaque_signer_mints_xor_validates algs pub f a :
  gen_alg (POpaque algs pub) = Some a -> jwt_validate (POpaque algs pub) f <> "".
Proof.
  intros Hg Hv. apply jwt_accept_iff in Hv as [vk [Hd Hp]]. cbn in Hd. injection Hd as <-.
  apply parse_accept_iff in Hp as [_ [_ [[_ ->]|[Hf _]]]]; [destruct algs; discriminate|].
  destruct pub; cbn in Hg, Hf; try discriminate; destruct algs; discriminate.
Qed.

(* a symmetric secret as key is refused for minting and for validation *)
Theorem bytes_key_refused f : gen_alg PBytes = None /\ jwt_validate PBytes f = "error:500".
Proof. split; reflexivity. Qed.

(* storage key of a JWT access token: the third of exactly three parts *)
Theorem jwt_signature_three h p s :
  has_char dot h = false -> has_char dot p = false -> has_char dot s = false ->
  jwt_signature (h ++ String dot (p ++ String dot s)) = s.
Proof.
  intros Hh Hp Hs. unfold jwt_signature. rewrite (split_app _ _ _ Hh), (split_app _ _ _ Hp), (split_nodot _ _ Hs). reflexivity.
Qed.

Theorem jwt_e2e_sound stored tok pk f :
  standard_key pk = true -> jwt_e2e stored tok pk f = true ->
  In (jwt_signature tok) stored /\ j_sig f = true /\ asymmetric (j_alg f) = true /\ j_alg f <> "none".
Proof.
  intros Hstd H. unfold jwt_e2e in H. apply andb_true_iff in H as [Hm Hv].
  apply mem_In in Hm. apply String.eqb_eq in Hv.
  destruct (jwt_accept_standard pk f Hstd Hv) as [_ [_ [Hs [Ha [_ Hn]]]]]. tauto.
Qed.

(* non-vacuity *)
Definition ex_f (alg : string) (sig : bool) : jfacts := JF true true 1 alg sig true true true.
Example ex_rs256 : jwt_validate PRsa (ex_f "RS256" true) = "". Proof. reflexivity. Qed.
Example ex_none : jwt_validate PRsa (ex_f "none" true) = "token_signature_mismatch:400". Proof. reflexivity. Qed.
Example ex_hs256 : jwt_validate PRsa (ex_f "HS256" true) = "token_signature_mismatch:400". Proof. reflexivity. Qed.
Example ex_es256_on_rsa : jwt_validate PRsa (ex_f "ES256" true) = "token_signature_mismatch:400". Proof. reflexivity. Qed.
Example ex_optin : jwt_validate (POpaque [] VNoneMagic) (ex_f "none" false) = "". Proof. reflexivity. Qed.
Example ex_jwkptr : jwt_validate (PJwkPtr "RS256" PRsa) (ex_f "PS256" true) = "". Proof. reflexivity. Qed.
