(* C15 - the monitor of Cases/CasesC15.v evaluated on the model's own trace raises no tag, for every
   world, start state and history.  Hence any alarm on an implementation trace means the
   implementation left the model (or the property). *)
From FositeModel Require Import Base.Str Model.Scope Model.Assertion Proofs.ScopeProofs Proofs.MonitorC12
     Proofs.JwtStore Proofs.AssertionProofs Proofs.JwtHistory Cases.CasesC15.
Local Open Scope Z_scope.

Lemma ca_marks_eq a : ca_marks a = ca_mark a.
Proof. reflexivity. Qed.
Lemma ba_marks_eq b : ba_marks b = ba_mark b.
Proof. reflexivity. Qed.

Fixpoint model_steps (w : world) (s : state) (ops : list op) : list (op * obs) :=
  match ops with
  | [] => []
  | o :: r => let (s', x) := step w s o in (o, res_obs x) :: model_steps w s' r
  end.

Lemma tag_unless_true t : tag_unless true t = [].
Proof. reflexivity. Qed.

Lemma aud_has_of_contains aud tus : aud_contains aud tus -> aud_has aud tus = true.
Proof.
  intros [tu [Hin [->|[l [-> Hl]]]]]; cbn.
  - now apply mem_in.
  - apply existsb_exists. exists (Some tu). split; [assumption|now apply mem_in].
Qed.

Lemma asymmetric_of_class a : alg_class_of a = ARsa \/ alg_class_of a = AEc -> asymmetric_alg a = true.
Proof.
  unfold alg_class_of, asymmetric_alg.
  intros H.
  destruct (mem a ["RS256"; "RS384"; "RS512"; "PS256"; "PS384"; "PS512"]) eqn:H1.
  - apply mem_in in H1. apply mem_in. cbn in *. tauto.
  - destruct (mem a ["ES256"; "ES384"; "ES512"]) eqn:H2.
    + apply mem_in in H2. apply mem_in. cbn in *. tauto.
    + destruct (mem a ["HS256"; "HS384"; "HS512"]); destruct H; discriminate.
Qed.

(* ------------------------------------------------------------------ clauses of an accepted client assertion *)
Lemma ca_checks_model w nw st a st' cid sub :
  client_auth (w_tus w) (w_clients w) nw st a = (st', Acc cid sub) ->
  ca_checks w nw a cid = [].
Proof.
  intros H. pose proof H as H0. apply client_auth_accept_iff in H0 as (_ & j0 & e0 & Hpre & _).
  destruct Hpre as (Hty & _).
  apply client_assertion_sound in H as (c & keys & k & j & e & Hs).
  destruct Hs as (Hc & Hm & Hk & Hin & Hu & Hv & _ & Ha & Hcls & Hi & Hsub & Haud & He & _ & Hexp & Hj & Hj0 & _).
  unfold ca_checks. rewrite Hty, String.eqb_refl, Hc, Hm, Ha, Hk, Hi, Hsub, He, Hj. cbn [jstr_is tag_unless app].
  rewrite !String.eqb_refl. cbn [andb tag_unless app].
  assert (A1 : asymmetric_alg (ca_alg a) = true) by (apply asymmetric_of_class; tauto).
  assert (A2 : existsb (fun k0 => existsb (Nat.eqb (k_kp k0)) (ca_ver a)) keys = true).
  { apply existsb_exists. exists k. split; [assumption|now apply existsb_nat_in]. }
  rewrite A1, A2, (aud_has_of_contains _ _ Haud). apply String.eqb_neq in Hj0. rewrite Hj0. cbn [negb tag_unless app].
  destruct (Z.leb_spec (unix nw) e); [reflexivity|lia].
Qed.

(* ------------------------------------------------------------------ clauses of an accepted grant *)
Lemma jb_checks_model w nw st cl_id cl_grants b st' c s :
  run_flow nw st (ba_flow (w_bcfg w) (w_tus w) (w_ikeys w) nw cl_id cl_grants b) = (st', Acc c s) ->
  jb_checks w nw b = [].
Proof.
  intros H. apply bearer_accept_iff in H as (_ & _ & _ & _ & _ & _ & _ & _ & k & e & Hk & Hv & Hspec & Hsc & _).
  apply find_issuer_key_sound in Hk as (K1 & K2 & K3 & _).
  destruct Hspec as ((tu & T1 & T2) & He & Hle & Hmax & Hnbf & Hiat & Hjti).
  unfold jb_checks. cbv zeta.
  set (signed := fun k0 : ikey => ik_for (ba_iss b) (ba_sub b) k0 && existsb (Nat.eqb (ik_kp k0)) (ba_ver b)).
  assert (S1 : signed k = true).
  { unfold signed, ik_for. rewrite K2, K3, !String.eqb_refl. cbn. now apply existsb_nat_in. }
  assert (E1 : existsb signed (w_ikeys w) = true) by (apply existsb_exists; eauto).
  assert (E2 : existsb (fun k0 => ik_for (ba_iss b) (ba_sub b) k0 && existsb (Nat.eqb (ik_kp k0)) (ba_ver b)
                                   && forallb (scope_spec_b (b_strategy (w_bcfg w)) (ik_scopes k0)) (ba_scopes b)) (w_ikeys w) = true).
  { apply existsb_exists. exists k. split; [assumption|]. unfold signed in S1. rewrite S1. cbn. apply forallb_forall. intros sc Hin.
    rewrite scope_spec_b_is_model. now apply Hsc. }
  assert (E3 : existsb (fun tu0 => mem tu0 (ba_aud b)) (w_tus w) = true).
  { apply existsb_exists. exists tu. split; [assumption|now apply mem_in]. }
  rewrite E1, E2, E3, He. cbn [negb orb tag_unless app].
  assert (E4 : Z.leb nw (e * 1000) = true) by now apply Z.leb_le.
  assert (E5 : Z.leb (e * 1000 - match ba_iat b with Some i => i * 1000 | None => nw end) (max_duration (w_bcfg w)) = true)
    by now apply Z.leb_le.
  rewrite E4, E5. cbn [tag_unless app].
  assert (E6 : match ba_nbf b with Some n => tag_unless (Z.leb (n * 1000) nw) "jb:nbf" | None => [] end = []).
  { destruct (ba_nbf b) as [n|]; [|reflexivity]. specialize (Hnbf n eq_refl).
    assert (Z.leb (n * 1000) nw = true) as -> by (apply Z.leb_le; lia). reflexivity. }
  rewrite E6. cbn [app].
  assert (E7 : b_iat_optional (w_bcfg w) || match ba_iat b with Some _ => true | None => false end = true).
  { destruct (b_iat_optional (w_bcfg w)); [reflexivity|]. specialize (Hiat eq_refl). now destruct (ba_iat b). }
  assert (E8 : b_id_optional (w_bcfg w) || negb (String.eqb (ba_jti b) "") = true).
  { destruct (b_id_optional (w_bcfg w)); [reflexivity|]. specialize (Hjti eq_refl). apply String.eqb_neq in Hjti. now rewrite Hjti. }
  rewrite E7, E8. reflexivity.
Qed.

(* ------------------------------------------------------------------ the jti clause *)
Definition no_live (nw : Z) (seen : list (string * Z)) (j : string) : Prop :=
  forall e0, In (j, e0) seen -> e0 * 1000 < nw.

Lemma reuse_false nw seen j : no_live nw seen j ->
  existsb (fun p : string * Z => String.eqb (fst p) j && Z.leb nw (snd p * 1000)) seen = false.
Proof.
  intros H. destruct (existsb _ seen) eqn:E; [|reflexivity].
  apply existsb_exists in E as [[j0 e0] [Hin Hb]]. cbn in Hb. apply andb_true_iff in Hb as [Hj Hle].
  apply String.eqb_eq in Hj. subst j0. apply Z.leb_le in Hle. specialize (H e0 Hin). lia.
Qed.

(* both kinds of assertion: an accepted one is not past the instant of its exp, so it cannot be an
   assertion the monitor has already seen accepted *)
Lemma jti_checks_silent ic nw seen j e :
  no_live nw seen j -> nw <= e * 1000 -> jti_checks ic nw seen (j, e) = [].
Proof.
  intros Hn Hle. unfold jti_checks. rewrite (reuse_false _ _ _ Hn).
  destruct (existsb _ seen) eqn:E; [|reflexivity].
  apply existsb_exists in E as [[j0 e0] [Hin Hb]]. cbn in Hb. apply andb_true_iff in Hb as [Hj He].
  apply String.eqb_eq in Hj. apply Z.eqb_eq in He. subst. specialize (Hn e Hin). lia.
Qed.

(* ------------------------------------------------------------------ the invariant between the monitor's memory and the model's *)
Definition mon_inv (seen : list (string * Z)) (s : state) : Prop :=
  forall j e, In (j, e) seen -> now s <= e * 1000 -> jget (jt s) j = Some e.

Lemma inv_no_live w s o seen j e2 :
  mon_inv seen s -> In (j, e2) (marks o (snd (step w s o))) -> no_live (now s) seen j.
Proof.
  intros Hinv Hin e0 Hs. destruct (Z.lt_ge_cases (e0 * 1000) (now s)) as [|Hle]; [assumption|exfalso].
  eapply step_refuse; [apply (Hinv j e0 Hs Hle)|exact Hle|exact Hin].
Qed.

Lemma inv_step w s o seen :
  mon_inv seen s -> now (fst (step w s o)) = now s ->
  mon_inv (marks o (snd (step w s o)) ++ seen)%list (fst (step w s o)).
Proof.
  intros Hinv Hnow j e Hin Hle. rewrite Hnow in Hle. apply in_app_or in Hin as [Hin|Hin].
  - now apply step_establish.
  - apply step_persist; [now apply Hinv|now rewrite Hnow].
Qed.


Lemma step_tags_model w s o seen :
  mon_inv seen s ->
  (forall tag, In tag (fst (step_tags w (now s) seen o (res_obs (snd (step w s o))))) -> False) /\
  snd (step_tags w (now s) seen o (res_obs (snd (step w s o)))) = marks o (snd (step w s o)).
Proof.
  intros Hinv. destruct o as [d|a|ca b].
  - cbn. split; [easy|reflexivity].
  - pose proof (inv_no_live w s (OAuth a) seen) as Hnl.
    cbn in *. destruct (client_auth (w_tus w) (w_clients w) (now s) (jt s) a) as [st' r] eqn:H. cbn in *.
    destruct r as [cid sub|x]; cbn; [|split; [easy|reflexivity]].
    split; [|reflexivity]. intros tag Ht. apply in_app_or in Ht as [Ht|Ht].
    + rewrite (ca_checks_model _ _ _ _ _ _ _ H) in Ht. easy.
    + destruct (client_auth_mark _ _ _ _ _ _ _ _ H) as (j & e & Hm & _ & Hle).
      rewrite ca_marks_eq, Hm in Ht. unfold flat_map in Ht. rewrite app_nil_r in Ht.
      rewrite jti_checks_silent in Ht; [easy| |assumption].
      apply (Hnl j e Hinv). rewrite Hm. now left.
  - pose proof (inv_no_live w s (OGrant ca b) seen) as Hnl.
    cbn in *. destruct (grant_request w (now s) (jt s) ca b) as [st' r] eqn:H. cbn in *.
    destruct r as [cid sub|x]; cbn; [|split; [easy|reflexivity]].
    split; [|now rewrite ba_marks_eq].
    apply grant_request_acc in H as (st1 & grants & Hb & Hc).
    intros tag Ht. apply in_app_or in Ht as [Ht|Ht].
    { (* clauses of the client assertion *)
      destruct Hc as [[-> _]|(a & s0 & -> & Hc)].
      - destruct ca; cbn in Ht; easy.
      - destruct (String.eqb cid ""); [easy|]. rewrite (ca_checks_model _ _ _ _ _ _ _ Hc) in Ht. easy. }
    apply in_app_or in Ht as [Ht|Ht]. { rewrite (jb_checks_model _ _ _ _ _ _ _ _ _ Hb) in Ht. easy. }
    apply in_app_or in Ht as [Ht|Ht].
    { (* jti of the client assertion *)
      destruct ca as [a|]; [|easy]. destruct (String.eqb_spec cid "") as [|Hne]; [easy|].
      destruct Hc as [[-> _]|(a' & s0 & [= <-] & Hc)]; [easy|].
      destruct (client_auth_mark _ _ _ _ _ _ _ _ Hc) as (j & e & Hm & _ & Hle).
      rewrite ca_marks_eq, Hm in Ht. unfold flat_map in Ht. rewrite app_nil_r in Ht.
      rewrite jti_checks_silent in Ht; [easy| |assumption].
      apply (Hnl j e Hinv). apply in_or_app. left. rewrite Hm. now left. }
    (* jti of the grant assertion *)
    destruct (bearer_mark _ _ _ _ _ _ _ _ _ _ _ Hb) as [(_ & Hm & _)|(e & Hm & _ & Hle)];
      rewrite ba_marks_eq, Hm in Ht; [easy|].
    unfold flat_map in Ht. rewrite app_nil_r in Ht. rewrite jti_checks_silent in Ht; [easy| |assumption].
    apply (Hnl (ba_jti b) e Hinv). apply in_or_app. right. rewrite Hm. now left.
Qed.

Theorem monitor_on_model_trace w ops : forall s seen,
  mon_inv seen s ->
  forall tag, In tag (mon_steps w (now s) seen (model_steps w s ops)) -> False.
Proof.
  induction ops as [|o r IH]; intros s seen Hinv tag; [easy|].
  cbn [model_steps]. destruct (step w s o) as [s' x] eqn:Hs. cbn [mon_steps].
  destruct o as [d|a|ca b].
  - (* the clock moves: fewer obligations *)
    cbn in Hs. injection Hs as <- <-. apply (IH {| now := now s + Z.max 0 d; jt := jt s |} seen).
    intros j e Hin Hle. cbn in *. apply Hinv; [assumption|lia].
  - pose proof (step_tags_model w s (OAuth a) seen Hinv) as [Ht Hm]. rewrite Hs in Ht, Hm. cbn [snd] in Ht, Hm.
    destruct (step_tags w (now s) seen (OAuth a) (res_obs x)) as [tags ms]. cbn [fst snd] in *. subst ms.
    intros Hin. apply in_app_or in Hin as [Hin|Hin]; [now apply (Ht tag)|].
    assert (Hnow : now s' = now s).
    { cbn in Hs. destruct (client_auth _ _ _ _ _); injection Hs as <- _. reflexivity. }
    rewrite <- Hnow in Hin. eapply IH; [|exact Hin].
    pose proof (inv_step w s (OAuth a) seen Hinv) as Hi. rewrite Hs in Hi. cbn [fst snd] in Hi. now apply Hi.
  - pose proof (step_tags_model w s (OGrant ca b) seen Hinv) as [Ht Hm]. rewrite Hs in Ht, Hm. cbn [snd] in Ht, Hm.
    destruct (step_tags w (now s) seen (OGrant ca b) (res_obs x)) as [tags ms]. cbn [fst snd] in *. subst ms.
    intros Hin. apply in_app_or in Hin as [Hin|Hin]; [now apply (Ht tag)|].
    assert (Hnow : now s' = now s).
    { cbn in Hs. destruct (grant_request _ _ _ _ _); injection Hs as <- _. reflexivity. }
    rewrite <- Hnow in Hin. eapply IH; [|exact Hin].
    pose proof (inv_step w s (OGrant ca b) seen Hinv) as Hi. rewrite Hs in Hi. cbn [fst snd] in Hi. now apply Hi.
Qed.

(* from the empty memory, any start time: the monitor raises no tag at all on a model trace, and its
   verdict is silence *)
Corollary monitor_silent_on_model w t0 ops :
  mon_steps w t0 [] (model_steps w (start t0) ops) = [] /\
  pick (mon_steps w t0 [] (model_steps w (start t0) ops)) = None.
Proof.
  assert (H : mon_steps w t0 [] (model_steps w (start t0) ops) = []).
  { destruct (mon_steps w t0 [] (model_steps w (start t0) ops)) as [|x r] eqn:E; [reflexivity|exfalso].
    apply (monitor_on_model_trace w ops (start t0) [] (fun j e (H : In (j, e) []) => match H with end) x).
    cbn [start now]. rewrite E. now left. }
  rewrite H. split; reflexivity.
Qed.

(* correspondence and monitor judge the same thing: on the model's trace the correspondence check
   of a history case passes *)
Lemma corr_steps_model w ops : forall s i,
  fst (corr_steps w s i (model_steps w s ops)) = None.
Proof.
  induction ops as [|o r IH]; intros s i; [reflexivity|].
  cbn [model_steps]. destruct (step w s o) as [s' x] eqn:Hs. cbn [corr_steps]. rewrite Hs.
  assert (obs_eqb (res_obs x) (res_obs x) = true) as ->.
  { destruct (res_obs x); cbn; now rewrite ?String.eqb_refl, ?Z.eqb_refl. }
  apply IH.
Qed.

(* the flow raced in the interleaving / race cases is the one the history model executes for that operation *)
Lemma op_flow_step w s o f :
  op_flow w s o = Some f ->
  step w s o = (let (st', r) := run_flow (now s) (jt s) f in ({| now := now s; jt := st' |}, r)).
Proof.
  destruct o as [d|a|[a|] b]; cbn; try discriminate.
  - intros [= <-]. reflexivity.
  - destruct (b_skip_auth (w_bcfg w)); intros [= <-]; reflexivity.
Qed.
