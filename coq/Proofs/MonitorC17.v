(* C17: the clauses of the history monitor (Cases/Monitors.v judge_C17) that read nothing of the tracker - pushes and
   plain authorizations - are sound for the model: whatever the tracker state and probe vector, they accept the
   model's answer to the operation, for every configuration and state. *)
From FositeModel Require Import Base.Str Model.Scope Model.Core Model.Flows Cases.Common Cases.CasesHist Cases.Monitors
     Proofs.CoreInv Proofs.StepInv.

Lemma push_accepted_facts cfg s auth bc ru a :
  o_err (snd (push cfg s auth bc ru a)) = "" ->
  exists c, auth = Some c /\ ru = false /\ (forall b, bc = Some b -> b = c).
Proof.
  unfold push. destruct auth as [c|]; [|discriminate]. destruct (clients s c); [|discriminate].
  destruct ru; [discriminate|].
  destruct (clients s _) as [cl|]; [|discriminate].
  destruct (negb (scopes_ok cfg cl (az_scopes a))); [discriminate|].
  destruct (negb (aud_ok cfg (cl_aud cl) (az_aud a))); [discriminate|].
  destruct (negb (Nat.eqb _ c)) eqn:E; [discriminate|]. intros _.
  exists c. split; [reflexivity|]. split; [reflexivity|].
  intros b ->. apply Bool.negb_false_iff, Nat.eqb_eq in E. exact E.
Qed.

Theorem judge_C17_push_sound cfg m s auth bc ru a pr :
  fst (fst (judge_C17 cfg m (OPush auth bc ru a) (snd (step cfg s (OPush auth bc ru a))) pr)) = None.
Proof.
  cbn [step judge_C17]. destruct (String.eqb (o_err (snd (push cfg s auth bc ru a))) "") eqn:E; [|reflexivity].
  apply String.eqb_eq in E. destruct (push_accepted_facts cfg s auth bc ru a E) as [c [-> [-> Hb]]].
  destruct bc as [b|]; [|reflexivity]. rewrite (Hb b eq_refl), Nat.eqb_refl. reflexivity.
Qed.

Theorem judge_C17_authorize_sound cfg m s a pr :
  fst (fst (judge_C17 cfg m (OAuthorize a) (snd (step cfg s (OAuthorize a))) pr)) = None.
Proof.
  cbn [step judge_C17]. unfold authorize. destruct (cf_par_enforced cfg); [reflexivity|].
  rewrite Bool.andb_false_r. reflexivity.
Qed.
