(* C11: declarative reading of the redirect rules (written from the property text and RFC 6749
   3.1.2 / RFC 8252 7.3, not from the loops) and the proofs that the Go-shaped model of
   Model/Redirect.v decides exactly that, for every URI record, every registered list, every
   requester state and every end-to-end input. *)
From FositeModel Require Import Base.Str Model.Redirect.

(* ------------------------------------------------------------------ specification *)

(* "an http URI on a loopback IP literal whose host, path and query equal those of a registered
   URI (any port)" *)
Definition loopback_rule (req b : purl) : Prop :=
  u_ok b = true /\ u_scheme req = "http" /\ u_loop req = true /\
  u_hostname b = u_hostname req /\ u_path b = u_path req /\ u_rawq b = u_rawq req.

(* "the target is absolute and has no fragment of its own" (and is a URI at all) *)
Definition absolute_no_fragment (u : purl) : Prop :=
  u_ok u = true /\ u_requrl u = true /\ u_frag u = "".

(* the URI that a request for [req] against the registered list [regs] may be answered at *)
Inductive redirect_spec (req : purl) (regs : list purl) : purl -> Prop :=
| RS_single b :
    u_raw req = "" -> regs = [b] -> absolute_no_fragment b -> redirect_spec req regs b
| RS_exact b :
    u_raw req <> "" -> In b regs -> u_raw b = u_raw req ->
    absolute_no_fragment req -> redirect_spec req regs req
| RS_loopback b :
    u_raw req <> "" -> In b regs -> loopback_rule req b ->
    absolute_no_fragment req -> redirect_spec req regs req.

(* loopback / localhost hosts *)
Definition local_host (u : purl) : Prop :=
  u_hostname u = "localhost" \/ (exists p, u_hostname u = p ++ ".localhost") \/ u_loop u = true.

(* ------------------------------------------------------------------ small facts *)

Lemma is_valid_iff u : is_valid_redirect_uri u = true <-> u_requrl u = true /\ u_frag u = "".
Proof.
  unfold is_valid_redirect_uri. destruct (u_requrl u); cbn; [|split; [easy|intros [H _]; discriminate]].
  destruct (String.eqb_spec (u_frag u) ""); cbn; split; try easy; intros [_ H]; congruence.
Qed.

Lemma loopback_iff req b : is_matching_as_loopback req b = true <-> loopback_rule req b.
Proof.
  unfold is_matching_as_loopback, loopback_rule.
  destruct (u_ok b); cbn [negb]; [|split; [easy|intros [H _]; discriminate]].
  rewrite !andb_true_iff, !String.eqb_eq. tauto.
Qed.

Lemma match_loop_some req hay s :
  match_loop req hay = Some s ->
  s = u_raw req /\ exists b, In b hay /\ (u_raw b = u_raw req \/ loopback_rule req b).
Proof.
  induction hay as [|b r IH]; cbn; [easy|].
  destruct (String.eqb_spec (u_raw b) (u_raw req)) as [E|E].
  - intros H. injection H as <-. split; [assumption|]. exists b. auto.
  - destruct (is_matching_as_loopback req b) eqn:L.
    + intros H. injection H as <-. split; [reflexivity|]. exists b. split; [auto|]. right. now apply loopback_iff.
    + intros H. destruct (IH H) as [-> [b' [Hin Hb]]]. split; [reflexivity|]. exists b'. auto.
Qed.

Lemma match_loop_none req hay :
  match_loop req hay = None ->
  forall b, In b hay -> u_raw b <> u_raw req /\ ~ loopback_rule req b.
Proof.
  induction hay as [|b r IH]; cbn; [easy|].
  destruct (String.eqb_spec (u_raw b) (u_raw req)) as [E|E]; [easy|].
  destruct (is_matching_as_loopback req b) eqn:L; [easy|].
  intros H b' [<-|Hin]; [|now apply IH].
  split; [assumption|]. rewrite <- loopback_iff. congruence.
Qed.

Lemma match_loop_complete req hay b :
  In b hay -> (u_raw b = u_raw req \/ loopback_rule req b) -> match_loop req hay = Some (u_raw req).
Proof.
  intros Hin Hb. destruct (match_loop req hay) as [s|] eqn:E.
  - now destruct (match_loop_some _ _ _ E) as [-> _].
  - destruct (match_loop_none _ _ E b Hin). tauto.
Qed.

Lemma parse_of_head req regs : parse_of (u_raw req) (req :: regs) = Some req.
Proof. cbn. now rewrite String.eqb_refl. Qed.

(* the two branches of MatchRedirectURIWithClientRedirectURIs, in closed form *)
Lemma match_redirect_empty req regs :
  u_raw req = "" ->
  match_redirect req regs =
  match regs with
  | [b] => if u_ok b && is_valid_redirect_uri b then Some b else None
  | _ => None
  end.
Proof.
  intros E. unfold match_redirect. rewrite E. cbn [String.eqb andb negb].
  destruct regs as [|b [|c r]]; cbn [List.length Nat.eqb]; try reflexivity.
  - unfold is_matching_redirect_uri. destruct (u_ok req); reflexivity.
  - destruct (is_matching_redirect_uri req (b :: c :: r)); reflexivity.
Qed.

Lemma match_redirect_nonempty req regs :
  u_raw req <> "" ->
  match_redirect req regs =
  if u_ok req then
    match match_loop req regs with
    | Some _ => if is_valid_redirect_uri req then Some req else None
    | None => None
    end
  else None.
Proof.
  intros E. unfold match_redirect, is_matching_redirect_uri.
  destruct (String.eqb_spec (u_raw req) "") as [E'|_]; [contradiction|]. cbn [andb negb].
  destruct (u_ok req) eqn:Ok; cbn [negb]; [|reflexivity].
  destruct (match_loop req regs) as [s|] eqn:L; [|reflexivity].
  destruct (match_loop_some _ _ _ L) as [-> _]. rewrite parse_of_head, Ok. reflexivity.
Qed.

(* ------------------------------------------------------------------ the matcher *)

Theorem match_redirect_spec req regs u :
  match_redirect req regs = Some u <-> redirect_spec req regs u.
Proof.
  destruct (String.eqb_spec (u_raw req) "") as [E|E].
  - rewrite (match_redirect_empty _ _ E). split.
    + destruct regs as [|b [|c r]]; try easy.
      destruct (u_ok b) eqn:Ok; cbn [andb]; [|easy].
      destruct (is_valid_redirect_uri b) eqn:V; [|easy].
      intros H. injection H as <-. apply is_valid_iff in V as [V1 V2].
      apply (RS_single _ _ b); [assumption|reflexivity|]. repeat split; assumption.
    + intros H. inversion H as [b E1 -> [Ok [R F]] | b E1 | b E1]; subst; try contradiction.
      rewrite Ok. cbn [andb]. replace (is_valid_redirect_uri u) with true; [reflexivity|].
      symmetry. apply is_valid_iff. split; assumption.
  - rewrite (match_redirect_nonempty _ _ E). split.
    + destruct (u_ok req) eqn:Ok; [|easy].
      destruct (match_loop req regs) as [s|] eqn:L; [|easy].
      destruct (is_valid_redirect_uri req) eqn:V; [|easy].
      intros H. injection H as <-. apply is_valid_iff in V as [V1 V2].
      destruct (match_loop_some _ _ _ L) as [_ [b [Hin [Hb|Hb]]]].
      * apply (RS_exact _ _ b); try assumption. repeat split; assumption.
      * apply (RS_loopback _ _ b); try assumption. repeat split; assumption.
    + intros H.
      assert (G : forall b, In b regs -> (u_raw b = u_raw req \/ loopback_rule req b) ->
                  absolute_no_fragment req -> u = req ->
                  (if u_ok req then match match_loop req regs with
                     | Some _ => if is_valid_redirect_uri req then Some req else None
                     | None => None end else None) = Some u).
      { intros b Hin Hb [Ok [R F]] ->. rewrite Ok, (match_loop_complete _ _ b Hin Hb).
        replace (is_valid_redirect_uri req) with true; [reflexivity|].
        symmetry. apply is_valid_iff. split; assumption. }
      inversion H as [b E1 | b E1 Hin Hb Habs | b E1 Hin Hb Habs]; subst; try contradiction.
      * apply (G b); auto.
      * apply (G b); auto.
Qed.

(* the clause as the property words it *)
Theorem match_redirect_sound req regs u :
  match_redirect req regs = Some u ->
  absolute_no_fragment u /\
  ((u_raw req = "" /\ regs = [u]) \/
   (u_raw req <> "" /\ u = req /\
    exists b, In b regs /\ (u_raw b = u_raw req \/ loopback_rule req b))).
Proof.
  intros H. apply match_redirect_spec in H.
  inversion H as [b E R A | b E Hin Hb A | b E Hin Hb A]; subst.
  - split; [assumption|]. left. auto.
  - split; [assumption|]. right. split; [assumption|]. split; [reflexivity|]. exists b. auto.
  - split; [assumption|]. right. split; [assumption|]. split; [reflexivity|]. exists b. auto.
Qed.

Theorem missing_uri_needs_single_registration req regs :
  u_raw req = "" -> List.length regs <> 1 -> match_redirect req regs = None.
Proof.
  intros E L. rewrite (match_redirect_empty _ _ E).
  destruct regs as [|b [|c r]]; cbn in L; congruence.
Qed.

Theorem unparsable_or_unregistered_is_refused req regs :
  u_raw req <> "" ->
  (u_ok req = false \/ forall b, In b regs -> u_raw b <> u_raw req /\ ~ loopback_rule req b) ->
  match_redirect req regs = None.
Proof.
  intros E H. destruct (match_redirect req regs) as [u|] eqn:M; [|reflexivity].
  pose proof M as M'.
  apply match_redirect_sound in M' as [[Ok _] [[E' _]|[_ [-> [b [Hin Hb]]]]]]; [contradiction|].
  destruct H as [H|H].
  - congruence.
  - destruct (H b Hin). tauto.
Qed.

(* validateAuthorizeRedirectURI adds nothing but the OpenID rule *)
Lemma validate_spec openid req regs u :
  validate_authorize_redirect_uri openid req regs = Some u <->
  redirect_spec req regs u /\ ~ (u_raw req = "" /\ openid = true).
Proof.
  unfold validate_authorize_redirect_uri.
  destruct (String.eqb_spec (u_raw req) "") as [E|E]; destruct openid; cbn [andb].
  - split; [easy|]. intros [_ H]. tauto.
  - destruct (match_redirect req regs) as [v|] eqn:M.
    + pose proof M as M'. apply match_redirect_sound in M' as [[_ [R F]] _].
      replace (is_valid_redirect_uri v) with true by (symmetry; apply is_valid_iff; tauto). cbn [negb].
      rewrite <- match_redirect_spec, M. split; [intros H; injection H as <-; split; [reflexivity|intros [_ ?]; discriminate]|intros [H _]; assumption].
    + rewrite <- match_redirect_spec, M. split; [easy|intros [H _]; discriminate].
  - destruct (match_redirect req regs) as [v|] eqn:M.
    + pose proof M as M'. apply match_redirect_sound in M' as [[_ [R F]] _].
      replace (is_valid_redirect_uri v) with true by (symmetry; apply is_valid_iff; tauto). cbn [negb].
      rewrite <- match_redirect_spec, M. split; [intros H; injection H as <-; split; [reflexivity|tauto]|intros [H _]; assumption].
    + rewrite <- match_redirect_spec, M. split; [easy|intros [H _]; discriminate].
  - destruct (match_redirect req regs) as [v|] eqn:M.
    + pose proof M as M'. apply match_redirect_sound in M' as [[_ [R F]] _].
      replace (is_valid_redirect_uri v) with true by (symmetry; apply is_valid_iff; tauto). cbn [negb].
      rewrite <- match_redirect_spec, M. split; [intros H; injection H as <-; split; [reflexivity|tauto]|intros [H _]; assumption].
    + rewrite <- match_redirect_spec, M. split; [easy|intros [H _]; discriminate].
Qed.

(* ------------------------------------------------------------------ transport security *)

Lemma has_suffix_iff suf s : has_suffix suf s = true <-> exists p, s = p ++ suf.
Proof.
  induction s as [|c r IH]; cbn [has_suffix].
  - destruct (String.eqb_spec suf "") as [->|N]; split; try easy.
    + intros _. now exists "".
    + intros [p Hp]. destruct p; cbn in Hp; [congruence|discriminate].
  - destruct (String.eqb_spec suf (String c r)) as [->|N].
    + split; [|easy]. intros _. now exists "".
    + rewrite IH. split.
      * intros [p ->]. exists (String c p). reflexivity.
      * intros [p Hp]. destruct p as [|c' p]; cbn in Hp; [congruence|].
        injection Hp as -> ->. now exists p.
Qed.

Theorem is_localhost_spec u : is_localhost u = true <-> local_host u.
Proof.
  unfold is_localhost, local_host. rewrite !orb_true_iff, has_suffix_iff, String.eqb_eq. tauto.
Qed.

Theorem is_secure_spec u :
  is_redirect_uri_secure u = true <-> (u_scheme u = "http" -> local_host u).
Proof.
  unfold is_redirect_uri_secure. rewrite <- is_localhost_spec.
  destruct (String.eqb_spec (u_scheme u) "http") as [E|E]; destruct (is_localhost u); cbn; split; try easy; auto.
Qed.

Theorem is_secure_strict_spec u :
  is_redirect_uri_secure_strict u = true <->
  u_scheme u = "https" \/ (u_scheme u = "http" /\ local_host u).
Proof.
  unfold is_redirect_uri_secure_strict.
  rewrite orb_true_iff, andb_true_iff, !String.eqb_eq, is_localhost_spec. tauto.
Qed.

Definition transport_spec (c : checker) (u : purl) : Prop :=
  match c with
  | CkDefault => u_scheme u = "http" -> local_host u
  | CkStrict => u_scheme u = "https" \/ (u_scheme u = "http" /\ local_host u)
  | CkAny => True
  end.

Theorem secure_checker_spec c u : secure_checker c u = true <-> transport_spec c u.
Proof.
  destruct c; cbn; [apply is_secure_spec|apply is_secure_strict_spec|tauto].
Qed.

Theorem secure_checker_all c u :
  (is_localhost u = true <-> local_host u) /\
  (is_redirect_uri_secure u = true <-> (u_scheme u = "http" -> local_host u)) /\
  (is_redirect_uri_secure_strict u = true <-> u_scheme u = "https" \/ (u_scheme u = "http" /\ local_host u)) /\
  (secure_checker c u = true <-> transport_spec c u).
Proof.
  exact (conj (is_localhost_spec u) (conj (is_secure_spec u) (conj (is_secure_strict_spec u) (secure_checker_spec c u)))).
Qed.

(* ------------------------------------------------------------------ IsRedirectURIValid *)

Theorem is_redirect_uri_valid_spec ru cl :
  is_redirect_uri_valid ru cl = true <->
  exists u regs v, ru = Some u /\ cl = Some regs /\ redirect_spec (u_re u) regs v.
Proof.
  unfold is_redirect_uri_valid. destruct ru as [u|]; [|split; [easy|intros [? [? [? [? _]]]]; discriminate]].
  destruct cl as [regs|]; [|split; [easy|intros [? [? [? [_ [? _]]]]]; discriminate]].
  destruct (match_redirect (u_re u) regs) as [v|] eqn:M.
  - pose proof M as M'. apply match_redirect_sound in M' as [[_ [R F]] _].
    replace (is_valid_redirect_uri v) with true by (symmetry; apply is_valid_iff; tauto).
    split; [|reflexivity]. intros _. exists u, regs, v. rewrite <- match_redirect_spec. auto.
  - split; [easy|]. intros [u' [regs' [v [H1 [H2 H3]]]]]. injection H1 as <-. injection H2 as <-.
    apply match_redirect_spec in H3. congruence.
Qed.

(* ------------------------------------------------------------------ the writers *)

(* the written response goes to [u]: same base (scheme, authority, path), own query kept (verbatim,
   or as pairs next to the response parameters), fragment = the response's own or none *)
Definition query_kept (params : pairs) (u : purl) (q : qspec) : Prop :=
  match q with
  | QVerbatim r => r = u_rawq u
  | QPairs p =>
      (forall kv, In kv (u_q u) -> In kv p \/ exists v, In (fst kv, v) params) /\
      (forall kv, In kv p -> In kv (u_q u) \/ exists v, In (fst kv, v) params)
  end.

Definition targets (params : pairs) (m : mresp) (u : purl) : Prop :=
  match m with
  | MRedirect b _ q f => b = u_base u /\ query_kept params u q /\ (f = FrNone \/ f = FrParams params)
  | MForm a i => a = form_action u /\ i = params
  | _ => False
  end.

Definition is_redirect (m : mresp) : Prop :=
  match m with MRedirect _ _ _ _ => True | MForm _ _ => True | _ => False end.

Lemma in_app_l {A} (x : A) l1 l2 : In x l1 -> In x (l1 ++ l2)%list.
Proof. intros; apply in_or_app; auto. Qed.

Theorem write_error_spec ar params :
  (is_redirect_uri_valid (ar_redirect ar) (ar_client ar) = false /\ write_authorize_error ar params = MDirect)
  \/ (exists u regs v, ar_redirect ar = Some u /\ ar_client ar = Some regs /\
        redirect_spec (u_re u) regs v /\ targets params (write_authorize_error ar params) u).
Proof.
  unfold write_authorize_error.
  destruct (is_redirect_uri_valid (ar_redirect ar) (ar_client ar)) eqn:V; cbn [negb]; [right|left; auto].
  apply is_redirect_uri_valid_spec in V as [u [regs [v [H1 [H2 H3]]]]].
  exists u, regs, v. rewrite H1. repeat split; try assumption.
  destruct (ar_mode ar); cbn; repeat split; auto.
  - intros kv Hin. left. apply in_or_app. auto.
  - intros [k x] Hin. apply in_app_or in Hin as [Hin|Hin]; [right; now exists x|auto].
  - intros kv Hin. left. apply in_or_app. auto.
  - intros [k x] Hin. apply in_app_or in Hin as [Hin|Hin]; [right; now exists x|auto].
Qed.

Corollary write_error_redirects_only_if_valid ar params :
  is_redirect (write_authorize_error ar params) ->
  is_redirect_uri_valid (ar_redirect ar) (ar_client ar) = true.
Proof.
  destruct (write_error_spec ar params) as [[_ ->]|[u [regs [v [H1 [H2 [H3 _]]]]]]]; [easy|].
  intros _. apply is_redirect_uri_valid_spec. exists u, regs, v. auto.
Qed.

Corollary write_error_never_panics ar params : write_authorize_error ar params <> MPanic.
Proof.
  destruct (write_error_spec ar params) as [[_ ->]|[u [regs [v [_ [_ [_ T]]]]]]]; [easy|].
  intros E. rewrite E in T. exact T.
Qed.

(* fold of q.Set over the response parameters *)
Lemma pairs_set_in k v acc kv :
  In kv (pairs_set k v acc) <-> (In kv acc /\ fst kv <> k) \/ kv = (k, v).
Proof.
  unfold pairs_set. rewrite in_app_iff, filter_In. cbn [In].
  destruct (String.eqb_spec (fst kv) k) as [E|E]; cbn [negb]; intuition congruence.
Qed.

Lemma set_all_in (params all : pairs) acc kv :
  In kv (fold_left (fun acc kv => pairs_set (fst kv) (pairs_get (fst kv) all) acc) params acc) ->
  In kv acc \/ exists v, In (fst kv, v) params.
Proof.
  revert acc. induction params as [|[k x] r IH]; intros acc; cbn [fold_left]; [auto|].
  intros H. apply IH in H as [H|[v H]].
  - apply pairs_set_in in H as [[H _]| ->]; [auto|]. right. exists x. left. reflexivity.
  - right. exists v. right. assumption.
Qed.

Lemma set_all_keeps (params all : pairs) acc kv :
  In kv acc -> (forall v, ~ In (fst kv, v) params) ->
  In kv (fold_left (fun acc kv => pairs_set (fst kv) (pairs_get (fst kv) all) acc) params acc).
Proof.
  revert acc. induction params as [|[k x] r IH]; intros acc Hin Hno; cbn [fold_left]; [assumption|].
  apply IH.
  - apply pairs_set_in. left. split; [assumption|]. cbn. intros E. apply (Hno x). left. now rewrite E.
  - intros v Hv. apply (Hno v). right. assumption.
Qed.

Theorem write_response_spec ar params u :
  ar_redirect ar = Some u -> u_frag u = "" ->
  targets params (write_authorize_response ar params) u.
Proof.
  intros H F. unfold write_authorize_response. rewrite H, F. cbn [String.eqb].
  assert (Q : query_kept params u (QPairs (fold_left (fun acc kv => pairs_set (fst kv) (pairs_get (fst kv) params) acc) params (u_q u)))).
  { split.
    - intros kv Hin.
      destruct (existsb (fun p => String.eqb (fst p) (fst kv)) params) eqn:Ex.
      + apply existsb_exists in Ex as [[k v] [Hp Hk]]. cbn in Hk. apply String.eqb_eq in Hk. subst k.
        right. now exists v.
      + left. apply set_all_keeps; [assumption|]. intros v Hv.
        assert (existsb (fun p => String.eqb (fst p) (fst kv)) params = true); [|congruence].
        apply existsb_exists. exists (fst kv, v). split; [assumption|]. cbn. apply String.eqb_refl.
    - intros kv Hin. now apply set_all_in in Hin. }
  destruct (ar_mode ar); cbn [targets].
  - split; [reflexivity|]. split; [exact Q|auto].
  - split; [reflexivity|]. split; [exact Q|auto].
  - split; [reflexivity|]. split; [reflexivity|]. destruct params; cbn; auto.
  - split; reflexivity.
Qed.

(* ------------------------------------------------------------------ the endpoint *)

Lemma new_request_redirect e ar err u :
  new_authorize_request e = (ar, err) -> ar_redirect ar = Some u ->
  exists regs, e_client e = Some regs /\ ar_client ar = Some regs /\
    redirect_spec (e_req e) regs u /\ ~ (u_raw (e_req e) = "" /\ e_openid e = true).
Proof.
  unfold new_authorize_request. destruct (e_client e) as [regs|]; [|intros H; injection H as <- _; easy].
  intros H Hu. exists regs. split; [reflexivity|].
  assert (G : forall m, ar = AR (Some u) (Some regs) m ->
              validate_authorize_redirect_uri (e_openid e) (e_req e) regs = Some u ->
              ar_client ar = Some regs /\ redirect_spec (e_req e) regs u /\ ~ (u_raw (e_req e) = "" /\ e_openid e = true)).
  { intros m -> V. split; [reflexivity|]. now apply validate_spec. }
  destruct (e_fail e) eqn:Fl;
    try (destruct (e_mode e) as [m|]; [|injection H as <- _; easy];
         destruct (validate_authorize_redirect_uri (e_openid e) (e_req e) regs) as [v|] eqn:V;
           [|injection H as <- _; easy]).
  all: try (injection H as <- _; easy).
  all: try (destruct (negb (mode_is_default m) && negb (e_mode_allowed e))).
  all: injection H as <- _; cbn in Hu; injection Hu as ->; eapply G; eauto.
Qed.

Lemma new_request_no_redirect e regs :
  e_client e = Some regs -> (forall u, ~ redirect_spec (e_req e) regs u) ->
  exists m, new_authorize_request e = (AR None (Some regs) m, true).
Proof.
  intros C N. unfold new_authorize_request. rewrite C.
  assert (V : validate_authorize_redirect_uri (e_openid e) (e_req e) regs = None).
  { destruct (validate_authorize_redirect_uri (e_openid e) (e_req e) regs) as [u|] eqn:V; [|reflexivity].
    apply validate_spec in V as [V _]. now apply N in V. }
  rewrite V. destruct (e_fail e); destruct (e_mode e); eauto.
Qed.

Lemma write_error_no_redirect cl m params : write_authorize_error (AR None cl m) params = MDirect.
Proof. reflexivity. Qed.

(* every redirect of the authorization endpoint, success and error alike, goes to the URI that the
   specification allows for the request *)
Theorem endpoint_redirects_only_to_allowed e params err m :
  authorize_endpoint e params = (err, m) -> is_redirect m ->
  exists regs u, e_client e = Some regs /\ redirect_spec (e_req e) regs u /\ targets params m u.
Proof.
  unfold authorize_endpoint. destruct (new_authorize_request e) as [ar er] eqn:N.
  assert (W : forall m, write_authorize_error ar params = m -> is_redirect m ->
              exists regs u, e_client e = Some regs /\ redirect_spec (e_req e) regs u /\ targets params m u).
  { intros m0 <- R. destruct (write_error_spec ar params) as [[_ E]|[u [regs [v [H1 [H2 [_ T]]]]]]].
    - rewrite E in R. easy.
    - destruct (new_request_redirect _ _ _ _ N H1) as [regs' [C [_ [S _]]]]. exists regs', u. auto. }
  assert (G : forall m, write_authorize_response ar params = m -> new_authorize_response e ar = true ->
              exists regs u, e_client e = Some regs /\ redirect_spec (e_req e) regs u /\ targets params m u).
  { intros m0 <- R. unfold new_authorize_response in R. destruct (ar_redirect ar) as [u|] eqn:Hu; [|easy].
    destruct (new_request_redirect _ _ _ _ N Hu) as [regs [C [_ [S _]]]]. exists regs, u.
    split; [assumption|]. split; [assumption|]. apply write_response_spec; [assumption|].
    apply match_redirect_spec in S. now apply match_redirect_sound in S as [[_ [_ F]] _]. }
  destruct er.
  - intros H. injection H as <- <-. now apply W.
  - destruct (e_fail e); try (intros H; injection H as <- <-; now apply W).
    all: destruct (new_authorize_response e ar) eqn:R; intros H; injection H as <- <-; intros Hr;
      [now apply G|now apply W].
Qed.

(* "When the requested redirect_uri does not qualify (or is missing while several are registered)
   the error is rendered to the user agent directly and no redirect is issued" *)
Theorem endpoint_renders_directly_when_not_allowed e params :
  (e_client e = None \/ exists regs, e_client e = Some regs /\ forall u, ~ redirect_spec (e_req e) regs u) ->
  authorize_endpoint e params = (true, MDirect).
Proof.
  intros [C|[regs [C N]]]; unfold authorize_endpoint.
  - unfold new_authorize_request. rewrite C. reflexivity.
  - destruct (new_request_no_redirect _ _ C N) as [m ->]. reflexivity.
Qed.

(* code issuance: plain http only for loopback / localhost hosts, unless configured otherwise *)
Theorem code_flow_transport e params m :
  authorize_endpoint e params = (false, m) -> e_rtype e = RCode ->
  exists regs u, e_client e = Some regs /\ redirect_spec (e_req e) regs u /\ targets params m u /\
                 transport_spec (e_checker e) u.
Proof.
  unfold authorize_endpoint. destruct (new_authorize_request e) as [ar er] eqn:N.
  intros H RC. destruct er; [discriminate|].
  assert (R : new_authorize_response e ar = true /\ m = write_authorize_response ar params).
  { destruct (e_fail e); try discriminate;
      destruct (new_authorize_response e ar); try discriminate; injection H as <-; auto. }
  destruct R as [R ->]. unfold new_authorize_response in R. rewrite RC in R.
  destruct (ar_redirect ar) as [u|] eqn:Hu; [|discriminate].
  destruct (new_request_redirect _ _ _ _ N Hu) as [regs [C [_ [S _]]]]. exists regs, u.
  repeat split; try assumption.
  - apply write_response_spec; [assumption|].
    apply match_redirect_spec in S. now apply match_redirect_sound in S as [[_ [_ F]] _].
  - now apply secure_checker_spec.
Qed.

(* pushed authorization requests *)
Theorem par_transport e ar :
  pushed_authorize e = Some ar ->
  exists regs u, e_client e = Some regs /\ ar_redirect ar = Some u /\ ar_client ar = Some regs /\
                 redirect_spec (e_req e) regs u /\ transport_spec (e_checker e) u.
Proof.
  unfold pushed_authorize. destruct (new_authorize_request e) as [ar0 er] eqn:N.
  destruct er; [discriminate|].
  assert (G : match ar_redirect ar0 with
              | Some u => if secure_checker (e_checker e) u then Some ar0 else None
              | None => None end = Some ar ->
              exists regs u, e_client e = Some regs /\ ar_redirect ar = Some u /\ ar_client ar = Some regs /\
                 redirect_spec (e_req e) regs u /\ transport_spec (e_checker e) u).
  { destruct (ar_redirect ar0) as [u|] eqn:Hu; [|discriminate].
    destruct (secure_checker (e_checker e) u) eqn:Sc; [|discriminate].
    intros H. injection H as <-.
    destruct (new_request_redirect _ _ _ _ N Hu) as [regs [C [C' [S _]]]]. exists regs, u.
    repeat split; try assumption. now apply secure_checker_spec. }
  destruct (e_fail e); try discriminate; exact G.
Qed.

Theorem par_follow_up_target e ar params err m :
  pushed_authorize e = Some ar -> authorize_from_par e ar params = (err, m) -> is_redirect m ->
  exists regs u, e_client e = Some regs /\ redirect_spec (e_req e) regs u /\ targets params m u.
Proof.
  intros P. destruct (par_transport _ _ P) as [regs [u [C [Hu [Hc [S _]]]]]].
  unfold authorize_from_par. destruct (new_authorize_response e ar); intros H; injection H as <- <-; intros R.
  - exists regs, u. repeat split; try assumption. apply write_response_spec; [assumption|].
    apply match_redirect_spec in S. now apply match_redirect_sound in S as [[_ [_ F]] _].
  - destruct (write_error_spec ar params) as [[_ E]|[u' [regs' [v [H1 [H2 [_ T]]]]]]].
    + rewrite E in R. easy.
    + rewrite Hu in H1. injection H1 as <-. exists regs, u. auto.
Qed.

(* ------------------------------------------------------------------ non-vacuity and the recorded defect *)

Definition ex_reg : purl :=
  U "http://127.0.0.1/cb" true "http" "127.0.0.1" "/cb" "" false "" true true "http://127.0.0.1/cb" None [] None None.
Definition ex_req : purl :=
  U "http://127.0.0.1:49152/cb" true "http" "127.0.0.1" "/cb" "" false "" true true "http://127.0.0.1:49152/cb" None [] None None.
Definition ex_web : purl :=
  U "https://app.example.com/cb?x=1" true "https" "app.example.com" "/cb" "x=1" false "" false true "https://app.example.com/cb" None [("x","1")] None None.
Definition ex_evil : purl :=
  U "http://127.0.0.1.evil.com/cb" true "http" "127.0.0.1.evil.com" "/cb" "" false "" false true "http://127.0.0.1.evil.com/cb" None [] None None.
Definition ex_empty : purl := U "" true "" "" "" "" false "" false false "" None [] None None.

Example ex_loopback_port : match_redirect ex_req [ex_web; ex_reg] = Some ex_req.
Proof. reflexivity. Qed.
Example ex_exact : match_redirect ex_web [ex_web; ex_reg] = Some ex_web.
Proof. reflexivity. Qed.
Example ex_lookalike : match_redirect ex_evil [ex_web; ex_reg] = None.
Proof. reflexivity. Qed.
Example ex_default_single : match_redirect ex_empty [ex_web] = Some ex_web.
Proof. reflexivity. Qed.
Example ex_default_several : match_redirect ex_empty [ex_web; ex_reg] = None.
Proof. reflexivity. Qed.
Example ex_e2e_code :
  authorize_endpoint (E2E (Some [ex_web; ex_reg]) ex_req false (Some MDefault) false RCode FNone CkDefault) [("code","c");("state","s")]
  = (false, MRedirect "http://127.0.0.1:49152/cb" true (QPairs [("code","c");("state","s")]) FrNone).
Proof. reflexivity. Qed.
Example ex_e2e_error_redirected :
  authorize_endpoint (E2E (Some [ex_web]) ex_web false (Some MDefault) false RToken FPostEarly CkDefault) [("error","invalid_scope")]
  = (true, MRedirect "https://app.example.com/cb" true (QPairs [("error","invalid_scope");("x","1")]) FrNone).
Proof. reflexivity. Qed.
Example ex_e2e_error_direct :
  authorize_endpoint (E2E (Some [ex_web]) ex_evil false (Some MDefault) false RCode FNone CkDefault) [("error","invalid_request")]
  = (true, MDirect).
Proof. reflexivity. Qed.

(* The error writer on a requester whose RedirectURI is a non-nil EMPTY URL, client with exactly
   one registration: IsRedirectURIValid re-matches the empty string through the "no redirect_uri,
   single registration" branch and says true; the redirect then goes to the requester's own
   (empty) URL.  The written target is not the registered URI.  (NewAuthorizeRequest never
   produces this state: theorem endpoint_redirects_only_to_allowed.) *)
Theorem error_writer_empty_uri_refuted :
  exists ar params b hq q f,
    ar_client ar = Some [ex_web] /\
    write_authorize_error ar params = MRedirect b hq q f /\ b <> u_base ex_web /\
    forall u, ar_redirect ar = Some u -> ~ redirect_spec (u_re u) [ex_web] u.
Proof.
  exists (AR (Some ex_empty) (Some [ex_web]) MQuery), [("error","access_denied")].
  eexists _, _, _, _. split; [reflexivity|]. split; [reflexivity|]. split; [discriminate|].
  intros u H. injection H as <-. intros S. apply match_redirect_spec in S. vm_compute in S. discriminate.
Qed.

(* with that state excluded the error writer's target is the very URI that qualifies *)
Theorem error_writer_target_qualifies ar params u :
  is_redirect (write_authorize_error ar params) -> ar_redirect ar = Some u ->
  u_raw (u_re u) = u_str u -> u_str u <> "" ->
  exists regs, ar_client ar = Some regs /\ redirect_spec (u_re u) regs (u_re u) /\
               targets params (write_authorize_error ar params) u.
Proof.
  intros R Hu Wf Ne.
  destruct (write_error_spec ar params) as [[_ E]|[u' [regs [v [H1 [H2 [S T]]]]]]].
  - rewrite E in R. easy.
  - rewrite Hu in H1. injection H1 as <-. exists regs. repeat split; try assumption.
    inversion S as [b E | b E | b E]; subst; try assumption. rewrite Wf in E. contradiction.
Qed.
