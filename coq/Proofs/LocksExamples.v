(* Non-vacuity of the lock-discipline theorems and a semantic witness for the checker's alarm.

   [tbl_pinned] is the refresh-token part of the table as the translator emits it for the pinned
   tree (RevokeRefreshToken takes only the index mutex); [tbl_repaired] is the same with the
   table mutex taken after the index mutex.  The checker rejects the first and accepts the second;
   for the first, a state with two conflicting accesses is reachable in the thread semantics, so
   the rejection is not an artefact of the checker. *)
From FositeModel Require Import Base.Str Model.Locks Proofs.LocksProofs.
Local Open Scope list_scope.

Definition m_create := Meth "CreateRefreshTokenSession"
  [SAcq "refreshTokenRequestIDsMutex" MW; SAcq "refreshTokensMutex" MW;
   SItems [IAcc "RefreshTokens" MW]; SItems [IAcc "RefreshTokenRequestIDs" MW]].
Definition m_get := Meth "GetRefreshTokenSession" [SAcq "refreshTokensMutex" MR; SItems [IAcc "RefreshTokens" MR]].
Definition m_delete := Meth "DeleteRefreshTokenSession" [SAcq "refreshTokensMutex" MW; SItems [IAcc "RefreshTokens" MW]].
Definition m_delete_at := Meth "DeleteAccessTokenSession" [SAcq "accessTokensMutex" MW; SItems [IAcc "AccessTokens" MW]].
Definition m_revoke_at := Meth "RevokeAccessToken"
  [SAcq "accessTokenRequestIDsMutex" MR; SItems [IAcc "AccessTokenRequestIDs" MR; ICall "DeleteAccessTokenSession"]].
Definition m_rotate := Meth "RotateRefreshToken" [SItems [ICall "RevokeRefreshToken"]; SItems [ICall "RevokeAccessToken"]].

Definition m_revoke_pinned := Meth "RevokeRefreshToken"
  [SAcq "refreshTokenRequestIDsMutex" MW;
   SItems [IAcc "RefreshTokenRequestIDs" MR; IAcc "RefreshTokens" MR; IAcc "RefreshTokens" MW]; SRet; SRet].
Definition m_revoke_repaired := Meth "RevokeRefreshToken"
  [SAcq "refreshTokenRequestIDsMutex" MW; SAcq "refreshTokensMutex" MW;
   SItems [IAcc "RefreshTokenRequestIDs" MR; IAcc "RefreshTokens" MR; IAcc "RefreshTokens" MW]; SRet; SRet].

Definition tbl_pinned := [m_create; m_get; m_delete; m_delete_at; m_revoke_at; m_rotate; m_revoke_pinned].
Definition tbl_repaired := [m_create; m_get; m_delete; m_delete_at; m_revoke_at; m_rotate; m_revoke_repaired].

Example pinned_rejected : lock_discipline_ok tbl_pinned = false.
Proof. vm_compute. reflexivity. Qed.
Example pinned_tags : diagnose tbl_pinned = ["unguarded:RevokeRefreshToken:RefreshTokens"].
Proof. vm_compute. reflexivity. Qed.
Example pinned_pair : may_race tbl_pinned "GetRefreshTokenSession" "RotateRefreshToken" = Some "RefreshTokens".
Proof. vm_compute. reflexivity. Qed.
Example repaired_accepted : lock_discipline_ok tbl_repaired = true.
Proof. vm_compute. reflexivity. Qed.

(* other shapes the checker must reject *)
Example reacquire_rejected :
  diagnose [Meth "A" [SAcq "m" MR; SItems [ICall "B"]]; Meth "B" [SAcq "m" MR; SItems [IAcc "T" MR]]]
  = ["reacquire:B:m"].
Proof. vm_compute. reflexivity. Qed.
Example cycle_rejected :
  diagnose [Meth "A" [SAcq "m" MW; SAcq "n" MW; SItems [IAcc "T" MW]]; Meth "B" [SAcq "n" MW; SAcq "m" MW; SItems [IAcc "T" MW]]]
  = ["lockorder:A:m>n"; "lockorder:B:n>m"].
Proof. vm_compute. reflexivity. Qed.
Example read_lock_for_write_rejected :
  diagnose [Meth "A" [SAcq "m" MR; SItems [IAcc "T" MW]]; Meth "B" [SAcq "m" MR; SItems [IAcc "T" MR]]]
  = ["unguarded:A:T"].
Proof. vm_compute. reflexivity. Qed.
Example recursion_rejected :
  diagnose [Meth "A" [SItems [ICall "A"]]] = ["calls:A:recursion"].
Proof. vm_compute. reflexivity. Qed.

(* the hypotheses of the generic theorems are inhabited: paths exist, including a nested call and
   an early return *)
Definition q_del := [Acq "accessTokensMutex" MW; Acc "AccessTokens" MW; Rel "accessTokensMutex"].
Definition q_rat := Acq "accessTokenRequestIDsMutex" MR :: Acc "AccessTokenRequestIDs" MR :: (q_del ++ [Rel "accessTokenRequestIDsMutex"]).
Definition q_rrt := [Acq "refreshTokenRequestIDsMutex" MW; Acq "refreshTokensMutex" MW; Acc "RefreshTokens" MR;
                     Rel "refreshTokensMutex"; Rel "refreshTokenRequestIDsMutex"].

Example rotate_path : tpath tbl_repaired ((q_rrt ++ (q_rat ++ [])) ++ []).
Proof.
  apply (tp_cons _ "RotateRefreshToken"); [|apply tp_nil].
  exists (m_body m_rotate). split; [reflexivity|]. cbn [m_body m_rotate].
  (* RevokeRefreshToken: read, then return early (no write) *)
  apply (bp_call _ [] [ICall "RevokeRefreshToken"] [SItems [ICall "RevokeAccessToken"]] "RevokeRefreshToken"
                 (m_body m_revoke_repaired) q_rrt (q_rat ++ [])); [left; reflexivity|reflexivity| |].
  { cbn [m_body m_revoke_repaired]. unfold q_rrt. apply bp_acq, bp_acq.
    eapply bp_acc; [right; left; reflexivity|].
    apply bp_next, bp_ret. }
  apply bp_next.
  apply (bp_call _ [] [ICall "RevokeAccessToken"] [] "RevokeAccessToken" (m_body m_revoke_at) q_rat []);
    [left; reflexivity|reflexivity| |apply bp_next, bp_end].
  cbn [m_body m_revoke_at]. unfold q_rat. apply bp_acq.
  eapply bp_acc; [left; reflexivity|].
  apply (bp_call _ ["accessTokenRequestIDsMutex"] _ [] "DeleteAccessTokenSession" (m_body m_delete_at) q_del
                 [Rel "accessTokenRequestIDsMutex"]); [right; left; reflexivity|reflexivity| |].
  { cbn [m_body m_delete_at]. unfold q_del. apply bp_acq. eapply bp_acc; [left; reflexivity|].
    apply bp_next, bp_end. }
  apply bp_next, bp_end.
Qed.

Example rotate_path_events :
  (q_rrt ++ (q_rat ++ [])) ++ [] =
  [Acq "refreshTokenRequestIDsMutex" MW; Acq "refreshTokensMutex" MW; Acc "RefreshTokens" MR;
   Rel "refreshTokensMutex"; Rel "refreshTokenRequestIDsMutex";
   Acq "accessTokenRequestIDsMutex" MR; Acc "AccessTokenRequestIDs" MR;
   Acq "accessTokensMutex" MW; Acc "AccessTokens" MW; Rel "accessTokensMutex";
   Rel "accessTokenRequestIDsMutex"].
Proof. reflexivity. Qed.

(* ---------------------------------------------------------------- the pinned shape races *)
Definition p_get := [Acq "refreshTokensMutex" MR; Acc "RefreshTokens" MR; Rel "refreshTokensMutex"].
Definition p_revoke := [Acq "refreshTokenRequestIDsMutex" MW; Acc "RefreshTokens" MW; Rel "refreshTokenRequestIDsMutex"].

Lemma p_get_path : tpath tbl_pinned p_get.
Proof.
  rewrite <- (app_nil_r p_get). eapply (tp_cons _ "GetRefreshTokenSession"); [|apply tp_nil].
  exists (m_body m_get). split; [reflexivity|]. cbn. apply bp_acq.
  eapply bp_acc; [left; reflexivity|]. apply bp_next, bp_end.
Qed.

Lemma p_revoke_path : tpath tbl_pinned p_revoke.
Proof.
  rewrite <- (app_nil_r p_revoke). eapply (tp_cons _ "RevokeRefreshToken"); [|apply tp_nil].
  exists (m_body m_revoke_pinned). split; [reflexivity|]. cbn. apply bp_acq.
  eapply bp_acc; [right; right; left; reflexivity|].
  apply bp_next, bp_ret.
Qed.

Ltac nobody :=
  let u := fresh "u" in
  intros u; unfold whold, rhold, pending, upd, init;
  destruct u as [|[|[|u]]]; cbn; repeat split;
  try (intros [H|H]; [discriminate H|try destruct H]); try discriminate; try tauto;
  try (destruct u; cbn; tauto); try (destruct u; cbn; discriminate).

(* one goroutine in GetRefreshTokenSession, one in RevokeRefreshToken: after three steps the first
   is about to read RefreshTokens while the second is about to write it *)
Theorem pinned_shape_races :
  exists progs s, Forall (tpath tbl_pinned) progs /\ steps (init progs) s /\ race s.
Proof.
  exists [p_get; p_revoke].
  eexists. split; [repeat constructor; [apply p_get_path|apply p_revoke_path]|]. split.
  - eapply steps_step. eapply steps_step. eapply steps_step. apply steps_refl.
    + apply (st_rlock _ 0 "refreshTokensMutex" [Acc "RefreshTokens" MR; Rel "refreshTokensMutex"]); [reflexivity|reflexivity|nobody].
    + eapply (st_lock_announce _ 1 "refreshTokenRequestIDsMutex"); [reflexivity|reflexivity|nobody].
    + eapply (st_lock_granted _ 1 "refreshTokenRequestIDsMutex"); [reflexivity|reflexivity|nobody].
  - exists 0, 1, "RefreshTokens", MR, MW. eexists. eexists.
    split; [discriminate|]. split; [reflexivity|]. split; [reflexivity|]. now right.
Qed.

(* and on the repaired table no such state exists, for any programs: instance of [no_race] *)
Corollary repaired_shape_never_races progs s :
  Forall (tpath tbl_repaired) progs -> steps (init progs) s -> ~ race s.
Proof. intros Hp Hs. exact (no_race _ repaired_accepted progs Hp s Hs). Qed.

(* ---------------------------------------------------------------- the repaired tree (commits 0f6e2d9, 208b00a)
   RevokeAccessToken no longer calls DeleteAccessTokenSession: it takes the index mutex (shared),
   then the table mutex (exclusive), and loops over AccessTokens deleting every record of the
   request.  [tbl_current] is the access/refresh-token part of the table as the translator emits it
   for that tree: accepted, with the same order (index mutex before table mutex) as
   CreateAccessTokenSession; taking the two mutexes the other way round is rejected as a cycle. *)
Definition m_create_at := Meth "CreateAccessTokenSession"
  [SAcq "accessTokenRequestIDsMutex" MW; SAcq "accessTokensMutex" MW;
   SItems [IAcc "AccessTokens" MW]; SItems [IAcc "AccessTokenRequestIDs" MW]].
Definition m_get_at := Meth "GetAccessTokenSession" [SAcq "accessTokensMutex" MR; SItems [IAcc "AccessTokens" MR]].
Definition m_revoke_at_current := Meth "RevokeAccessToken"
  [SAcq "accessTokenRequestIDsMutex" MR; SAcq "accessTokensMutex" MW;
   SItems [IAcc "AccessTokens" MR; IAcc "AccessTokens" MW]].
Definition m_revoke_at_swapped := Meth "RevokeAccessToken"
  [SAcq "accessTokensMutex" MW; SAcq "accessTokenRequestIDsMutex" MR;
   SItems [IAcc "AccessTokens" MR; IAcc "AccessTokens" MW]].

Definition tbl_current :=
  [m_create_at; m_get_at; m_delete_at; m_revoke_at_current; m_create; m_get; m_delete; m_rotate; m_revoke_repaired].

Example current_accepted : lock_discipline_ok tbl_current = true.
Proof. vm_compute. reflexivity. Qed.
Example current_order :
  rank (rk_of tbl_current) "accessTokenRequestIDsMutex" < rank (rk_of tbl_current) "accessTokensMutex" /\
  rank (rk_of tbl_current) "refreshTokenRequestIDsMutex" < rank (rk_of tbl_current) "refreshTokensMutex".
Proof. vm_compute. split; repeat constructor. Qed.
Example current_guards :
  G_of tbl_current = [("AccessTokens", "accessTokensMutex"); ("AccessTokenRequestIDs", "accessTokenRequestIDsMutex");
                      ("RefreshTokens", "refreshTokensMutex"); ("RefreshTokenRequestIDs", "refreshTokenRequestIDsMutex")].
Proof. vm_compute. reflexivity. Qed.
Example swapped_rejected :
  diagnose [m_create_at; m_get_at; m_delete_at; m_revoke_at_swapped]
  = ["lockorder:CreateAccessTokenSession:accessTokenRequestIDsMutex>accessTokensMutex";
     "lockorder:RevokeAccessToken:accessTokensMutex>accessTokenRequestIDsMutex"].
Proof. vm_compute. reflexivity. Qed.

(* a path of the repaired RevokeAccessToken: the loop body runs twice (read, delete, read, delete) *)
Example revoke_at_loop_path :
  tpath tbl_current
    ([Acq "accessTokenRequestIDsMutex" MR; Acq "accessTokensMutex" MW;
      Acc "AccessTokens" MR; Acc "AccessTokens" MW; Acc "AccessTokens" MR; Acc "AccessTokens" MW;
      Rel "accessTokensMutex"; Rel "accessTokenRequestIDsMutex"] ++ []).
Proof.
  apply (tp_cons _ "RevokeAccessToken"); [|apply tp_nil].
  exists (m_body m_revoke_at_current). split; [reflexivity|]. cbn [m_body m_revoke_at_current].
  apply bp_acq, bp_acq.
  eapply bp_acc; [left; reflexivity|]. eapply bp_acc; [right; left; reflexivity|].
  eapply bp_acc; [left; reflexivity|]. eapply bp_acc; [right; left; reflexivity|].
  apply bp_next, bp_end.
Qed.

Corollary current_shape_safe progs s :
  Forall (tpath tbl_current) progs -> steps (init progs) s ->
  ~ race s /\ (finished s \/ exists s', step s s').
Proof.
  intros Hp Hs. split; [exact (no_race _ current_accepted progs Hp s Hs)|exact (no_deadlock _ current_accepted progs Hp s Hs)].
Qed.

(* ---------------------------------------------------------------- explicit Unlock and early returns
   The shape of a "tidied" SetClientAssertionJWT: Lock without defer, an early return on the
   "already known" path, Unlock before the final return.  The early return leaves the mutex held:
   rejected with [held-at-return], and the rejection is semantic — after one such call the next
   call of the same goroutine can never acquire the mutex and no thread can step.  With the
   Unlock on every path (or with defer) the shape is accepted. *)
Definition m_setjwt_leaky := Meth "SetClientAssertionJWT"
  [SLock "blacklistedJTIsMutex" MW; SItems [IAcc "BlacklistedJTIs" MR; IAcc "BlacklistedJTIs" MW];
   SItems [IAcc "BlacklistedJTIs" MR]; SRet; SItems [IAcc "BlacklistedJTIs" MW]; SUnlock "blacklistedJTIsMutex"; SRet].
Definition m_setjwt_explicit_ok := Meth "SetClientAssertionJWT"
  [SLock "blacklistedJTIsMutex" MW; SItems [IAcc "BlacklistedJTIs" MR; IAcc "BlacklistedJTIs" MW];
   SItems [IAcc "BlacklistedJTIs" MR; IAcc "BlacklistedJTIs" MW]; SUnlock "blacklistedJTIsMutex"; SRet].
Definition m_jwtvalid := Meth "ClientAssertionJWTValid" [SAcq "blacklistedJTIsMutex" MR; SItems [IAcc "BlacklistedJTIs" MR]; SRet; SRet].

Example leaky_tags : diagnose [m_setjwt_leaky; m_jwtvalid] = ["held-at-return:SetClientAssertionJWT:blacklistedJTIsMutex"].
Proof. vm_compute. reflexivity. Qed.
Example explicit_ok_accepted : lock_discipline_ok [m_setjwt_explicit_ok; m_jwtvalid] = true.
Proof. vm_compute. reflexivity. Qed.
Example double_unlock_tags :
  diagnose [Meth "A" [SLock "m" MW; SItems [IAcc "T" MW]; SUnlock "m"; SUnlock "m"]] = ["unlock-not-held:A:m"].
Proof. vm_compute. reflexivity. Qed.
Example unlock_of_deferred_tags :
  diagnose [Meth "A" [SAcq "m" MW; SItems [IAcc "T" MW]; SUnlock "m"]] = ["deferred-unlock-not-held:A"].
Proof. vm_compute. reflexivity. Qed.

Definition p_leak := [Acq "blacklistedJTIsMutex" MW; Acc "BlacklistedJTIs" MR].

Lemma p_leak_path : mpath [m_setjwt_leaky; m_jwtvalid] "SetClientAssertionJWT" p_leak.
Proof.
  exists (m_body m_setjwt_leaky). split; [reflexivity|]. cbn. apply bp_lock, bp_next.
  eapply bp_acc; [left; reflexivity|]. apply bp_next, bp_ret.
Qed.

Theorem leaky_shape_deadlocks :
  exists progs s, Forall (tpath [m_setjwt_leaky; m_jwtvalid]) progs /\ steps (init progs) s /\
                  ~ finished s /\ ~ exists s', step s s'.
Proof.
  exists [p_leak ++ (p_leak ++ [])].
  eexists. split; [|split; [|split]].
  - repeat constructor. eapply tp_cons; [apply p_leak_path|]. eapply tp_cons; [apply p_leak_path|apply tp_nil].
  - eapply steps_step. eapply steps_step. eapply steps_step. apply steps_refl.
    + eapply (st_lock_announce _ 0 "blacklistedJTIsMutex"); [reflexivity|reflexivity|nobody].
    + eapply (st_lock_granted _ 0 "blacklistedJTIsMutex"); [reflexivity|reflexivity|nobody].
    + eapply (st_access _ 0). reflexivity.
  - intros Hf. specialize (Hf 0). discriminate Hf.
  - intros [s' Hs]. inversion Hs as [t m r Hr Hp Hen | t m r Hr Hp Hen | t m r Hr Hp Hen | t tbl a r Hr | t m r Hr];
      destruct t as [|t]; cbn in Hr; try discriminate;
      try (destruct t; discriminate).
    + (* thread 0 asks for the mutex it still holds *)
      injection Hr as <- _. destruct (Hen 0) as [Hw _]. apply Hw. unfold whold. cbn. now left.
Qed.
