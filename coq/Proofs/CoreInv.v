(* Invariants of the server state and their preservation by every store primitive. *)
From FositeModel Require Import Base.Str Model.Scope Model.Core Model.Flows.

Arguments upd : simpl never.

Lemma upd_eq {A} (m : fmap A) k v : upd m k v k = v.
Proof. unfold upd. now rewrite Nat.eqb_refl. Qed.
Lemma upd_neq {A} (m : fmap A) k k' v : k' <> k -> upd m k v k' = m k'.
Proof. unfold upd. intros H. destruct (Nat.eqb_spec k' k); congruence. Qed.
Lemma upd_cases {A} (m : fmap A) k k' v : (k' = k /\ upd m k v k' = v) \/ (k' <> k /\ upd m k v k' = m k').
Proof. destruct (Nat.eq_dec k' k) as [->|H]; [left; split; [reflexivity|apply upd_eq]|right; split; [assumption|now apply upd_neq]]. Qed.

Ltac upd_case k' k :=
  let Hk := fresh "Hk" in let E := fresh "Eu" in
  match goal with
  | |- context [upd ?m k ?v k'] => destruct (upd_cases m k k' v) as [[Hk E]|[Hk E]]
  | H : context [upd ?m k ?v k'] |- _ => destruct (upd_cases m k k' v) as [[Hk E]|[Hk E]]
  end; rewrite E in *; clear E.

(* ------------------------------------------------------------------ family predicates *)
Definition no_access_rid (x : store) (X : nat) : Prop := forall k r, access x k = Some r -> r_id r <> X.
Definition no_active_refresh_rid (x : store) (X : nat) : Prop := forall k r, refresh x k = Some (true, r) -> r_id r <> X.
Definition no_active_code_rid (x : store) (X : nat) : Prop := forall k r, codes x k = Some (true, r) -> r_id r <> X.
(* the grant with request id X is dead: nothing of it is live and nothing can bring it back *)
Definition no_device_rid (x : store) (X : nat) : Prop := forall k b r, device x k = Some (b, r) -> r_id r <> X.
Definition dead (x : store) (X : nat) : Prop :=
  no_access_rid x X /\ no_active_refresh_rid x X /\ no_active_code_rid x X /\ no_device_rid x X.

Record Inv (s : state) : Prop := {
  inv_owner_code : forall k b r, codes (st s) k = Some (b, r) -> owner s k = Some (KCode, r_id r);
  inv_owner_access : forall k r, access (st s) k = Some r -> owner s k = Some (KAccess, r_id r);
  inv_owner_refresh : forall k b r, refresh (st s) k = Some (b, r) -> owner s k = Some (KRefresh, r_id r);
  inv_owner_fresh : forall k kd rid, owner s k = Some (kd, rid) -> k < next_key s /\ rid < next_rid s;
  inv_log_owner : forall e, In e (log s) -> owner s (i_key e) = Some (i_kind e, i_rid e);
  inv_at_idx : forall k r, access (st s) k = Some r -> at_idx (st s) (r_id r) = Some k;
  inv_rt_idx : forall k r, refresh (st s) k = Some (true, r) -> rt_idx (st s) (r_id r) = Some k;
  inv_at_idx_owner : forall X k, at_idx (st s) X = Some k -> owner s k = Some (KAccess, X) \/ owner s k = Some (KImplicit, X);
  inv_owner_implicit : forall k r, implicit (st s) k = Some r -> owner s k = Some (KImplicit, r_id r);
  inv_rt_idx_owner : forall X k, rt_idx (st s) X = Some k -> owner s k = Some (KRefresh, X);
  inv_code_rid : forall k k' b b' r r', codes (st s) k = Some (b, r) -> codes (st s) k' = Some (b', r') ->
                                        r_id r = r_id r' -> k = k';
  inv_access_code : forall k r, access (st s) k = Some r -> no_active_code_rid (st s) (r_id r);
  inv_refresh_code : forall k b r, refresh (st s) k = Some (b, r) -> no_active_code_rid (st s) (r_id r);
  (* device authorizations: a grant that still waits at the device endpoint has no code and no token *)
  inv_owner_device : forall k b r, device (st s) k = Some (b, r) -> owner s k = Some (KDevice, r_id r);
  inv_device_rid : forall k k' b b' r r', device (st s) k = Some (b, r) -> device (st s) k' = Some (b', r') ->
                                          r_id r = r_id r' -> k = k';
  inv_access_device : forall k r, access (st s) k = Some r -> no_device_rid (st s) (r_id r);
  inv_refresh_device : forall k b r, refresh (st s) k = Some (b, r) -> no_device_rid (st s) (r_id r);
  inv_code_device : forall k b r, codes (st s) k = Some (b, r) -> no_device_rid (st s) (r_id r)
}.

Lemma Inv_state0 cls : Inv (state0 cls).
Proof. constructor; cbn; unfold fempty; intros; try discriminate; try contradiction. Qed.

(* ------------------------------------------------------------------ consequences *)
Lemma inv_code_fresh s k b r : Inv s -> codes (st s) k = Some (b, r) -> k < next_key s /\ r_id r < next_rid s.
Proof. intros I H. eapply inv_owner_fresh; [eassumption|]. eapply inv_owner_code; eassumption. Qed.
Lemma inv_access_fresh s k r : Inv s -> access (st s) k = Some r -> k < next_key s /\ r_id r < next_rid s.
Proof. intros I H. eapply inv_owner_fresh; [eassumption|]. eapply inv_owner_access; eassumption. Qed.
Lemma inv_refresh_fresh s k b r : Inv s -> refresh (st s) k = Some (b, r) -> k < next_key s /\ r_id r < next_rid s.
Proof. intros I H. eapply inv_owner_fresh; [eassumption|]. eapply inv_owner_refresh; eassumption. Qed.

(* a key lives in at most one table *)
Lemma inv_access_not_refresh s k r : Inv s -> access (st s) k = Some r -> refresh (st s) k = None.
Proof.
  intros I H. destruct (refresh (st s) k) as [[b r']|] eqn:E; [|reflexivity].
  pose proof (inv_owner_access s I _ _ H). pose proof (inv_owner_refresh s I _ _ _ E). congruence.
Qed.
Lemma inv_refresh_not_access s k b r : Inv s -> refresh (st s) k = Some (b, r) -> access (st s) k = None.
Proof.
  intros I H. destruct (access (st s) k) as [r'|] eqn:E; [|reflexivity].
  pose proof (inv_owner_access s I _ _ E). pose proof (inv_owner_refresh s I _ _ _ H). congruence.
Qed.
Lemma inv_code_not_token s k b r : Inv s -> codes (st s) k = Some (b, r) -> access (st s) k = None /\ refresh (st s) k = None.
Proof.
  intros I H. pose proof (inv_owner_code s I _ _ _ H) as Ho. split.
  - destruct (access (st s) k) eqn:E; [|reflexivity]. pose proof (inv_owner_access s I _ _ E). congruence.
  - destruct (refresh (st s) k) as [[? ?]|] eqn:E; [|reflexivity]. pose proof (inv_owner_refresh s I _ _ _ E). congruence.
Qed.

(* ------------------------------------------------------------------ state transformers *)
(* changes outside the code/token tables *)
Lemma Inv_same_tables s s' :
  Inv s -> codes (st s') = codes (st s) -> access (st s') = access (st s) -> refresh (st s') = refresh (st s) ->
  at_idx (st s') = at_idx (st s) -> rt_idx (st s') = rt_idx (st s) -> device (st s') = device (st s) ->
  implicit (st s') = implicit (st s) ->
  owner s' = owner s -> log s' = log s -> next_key s <= next_key s' -> next_rid s <= next_rid s' -> Inv s'.
Proof.
  intros I Hc Ha Hr Hai Hri Hd Him Ho Hl Hk Hn.
  constructor; unfold no_active_code_rid, no_device_rid; rewrite ?Hc, ?Ha, ?Hr, ?Hai, ?Hri, ?Hd, ?Him, ?Ho, ?Hl.
  - apply I. - apply I. - apply I.
  - intros k kd rid H. destruct (inv_owner_fresh s I _ _ _ H). lia.
  - apply I. - apply I. - apply I. - apply I. - apply I. - apply I. - apply I.
  - intros k r H. exact (inv_access_code s I k r H).
  - intros k b r H. exact (inv_refresh_code s I k b r H).
  - apply I. - apply I.
  - intros k r H. exact (inv_access_device s I k r H).
  - intros k b r H. exact (inv_refresh_device s I k b r H).
  - intros k b r H. exact (inv_code_device s I k b r H).
Qed.

Lemma Inv_set_par s v : Inv s -> Inv (set_store s (set_par (st s) v)).
Proof. intros I. eapply Inv_same_tables; eauto. Qed.

Lemma Inv_set_dev_used s v : Inv s -> Inv (set_store s (set_dev_used (st s) v)).
Proof. intros I. eapply Inv_same_tables; eauto. Qed.

Lemma Inv_set_now s t : Inv s -> Inv (set_now s t).
Proof. intros I. eapply Inv_same_tables; eauto. Qed.
Lemma Inv_set_clients s c : Inv s -> Inv (set_clients s c).
Proof. intros I. eapply Inv_same_tables; eauto. Qed.
Lemma Inv_fresh_rid s : Inv s -> Inv (snd (fresh_rid s)).
Proof. intros I. eapply Inv_same_tables; eauto. cbn. lia. Qed.
Lemma Inv_set_pkce s v : Inv s -> Inv (set_store s (set_pkce (st s) v)).
Proof. intros I. eapply Inv_same_tables; eauto. Qed.

Lemma Inv_mint s kd rid : Inv s -> rid < next_rid s -> Inv (snd (mint s kd rid)).
Proof.
  intros I Hrid. unfold mint. cbn [snd].
  assert (Hno : forall kd' rid', owner s (next_key s) = Some (kd', rid') -> False).
  { intros kd' rid' H. destruct (inv_owner_fresh s I _ _ _ H). lia. }
  constructor; cbn.
  - intros k b r H. pose proof (inv_owner_code s I _ _ _ H) as Ho.
    upd_case k (next_key s); [subst; exfalso; eauto|assumption].
  - intros k r H. pose proof (inv_owner_access s I _ _ H) as Ho.
    upd_case k (next_key s); [subst; exfalso; eauto|assumption].
  - intros k b r H. pose proof (inv_owner_refresh s I _ _ _ H) as Ho.
    upd_case k (next_key s); [subst; exfalso; eauto|assumption].
  - intros k kd' rid' H. upd_case k (next_key s).
    + injection H as <- <-. subst. lia.
    + destruct (inv_owner_fresh s I _ _ _ H). lia.
  - intros e He. pose proof (inv_log_owner s I e He) as Ho.
    upd_case (i_key e) (next_key s); [exfalso; rewrite Hk in Ho; eauto|assumption].
  - apply I. - apply I.
  - intros X k H. pose proof (inv_at_idx_owner s I _ _ H) as Ho.
    upd_case k (next_key s); [subst; exfalso; destruct Ho; eauto|assumption].
  - intros k r H. pose proof (inv_owner_implicit s I _ _ H) as Ho.
    upd_case k (next_key s); [subst; exfalso; eauto|assumption].
  - intros X k H. pose proof (inv_rt_idx_owner s I _ _ H) as Ho.
    upd_case k (next_key s); [subst; exfalso; eauto|assumption].
  - apply I. - apply I. - apply I.
  - intros k b r H. pose proof (inv_owner_device s I _ _ _ H) as Ho.
    upd_case k (next_key s); [subst; exfalso; eauto|assumption].
  - apply I. - apply I. - apply I. - apply I.
Qed.

Lemma Inv_log_add s l :
  Inv s -> (forall e, In e l -> owner s (i_key e) = Some (i_kind e, i_rid e)) -> Inv (log_add s l).
Proof.
  intros I Hl. constructor; unfold no_active_code_rid, no_device_rid; cbn; try apply I.
  intros e He. apply in_app_or in He as [He|He]; [now apply I|now apply Hl].
Qed.

(* removing or deactivating never hurts *)
Lemma Inv_delete_access s k : Inv s -> Inv (set_store s (delete_access (st s) k)).
Proof.
  intros I. constructor; unfold no_active_code_rid, no_device_rid; cbn; try apply I.
  - intros k' r H. upd_case k' k; [discriminate|now apply I].
  - intros k' r H. upd_case k' k; [discriminate|now apply I].
  - intros k' r H. upd_case k' k; [discriminate|now apply I].
  - intros k' r H. upd_case k' k; [discriminate|]. exact (inv_access_code s I _ _ H).
  - intros k' r H. upd_case k' k; [discriminate|]. exact (inv_access_device s I _ _ H).
Qed.

Lemma drop_rid_some t X k r : drop_rid t X k = Some r -> t k = Some r /\ r_id r <> X.
Proof.
  unfold drop_rid. destruct (t k) as [r0|]; [|discriminate].
  destruct (Nat.eqb_spec (r_id r0) X); [discriminate|]. intros [= <-]. auto.
Qed.
Lemma drop_rid_keep t X k r : t k = Some r -> r_id r <> X -> drop_rid t X k = Some r.
Proof. intros H Hn. unfold drop_rid. rewrite H. destruct (Nat.eqb_spec (r_id r) X); [contradiction|reflexivity]. Qed.
Lemma drop_rid_none t X k : t k = None -> drop_rid t X k = None.
Proof. intros H. unfold drop_rid. now rewrite H. Qed.

Lemma Inv_revoke_access s X : Inv s -> Inv (set_store s (revoke_access (st s) X)).
Proof.
  intros I. constructor; unfold no_active_code_rid, no_device_rid, revoke_access; cbn; try apply I.
  - intros k' r H. apply drop_rid_some in H as [H _]. now apply I.
  - intros k' r H. apply drop_rid_some in H as [H _]. now apply I.
  - intros k' r H. apply drop_rid_some in H as [H _]. now apply I.
  - intros k' r H. apply drop_rid_some in H as [H _]. exact (inv_access_code s I _ _ H).
  - intros k' r H. apply drop_rid_some in H as [H _]. exact (inv_access_device s I _ _ H).
Qed.

Lemma Inv_delete_refresh s k : Inv s -> Inv (set_store s (delete_refresh (st s) k)).
Proof.
  intros I. constructor; unfold no_active_code_rid, no_device_rid; cbn; try apply I.
  - intros k' b r H. upd_case k' k; [discriminate|]. eapply inv_owner_refresh; eassumption.
  - intros k' r H. upd_case k' k; [discriminate|now apply I].
  - intros k' b r H. upd_case k' k; [discriminate|]. exact (inv_refresh_code s I _ _ _ H).
  - intros k' b r H. upd_case k' k; [discriminate|]. exact (inv_refresh_device s I _ _ _ H).
Qed.

Lemma Inv_revoke_refresh s X : Inv s -> Inv (set_store s (fst (revoke_refresh (st s) X))).
Proof.
  intros I. unfold revoke_refresh.
  destruct (rt_idx (st s) X) as [k|]; [|eapply Inv_same_tables; eauto].
  destruct (refresh (st s) k) as [[b r]|] eqn:E; [|eapply Inv_same_tables; eauto].
  cbn [fst]. constructor; unfold no_active_code_rid, no_device_rid; cbn; try apply I.
  - intros k' b' r' H. upd_case k' k.
    + injection H as <- <-. subst. eapply inv_owner_refresh; eassumption.
    + eapply inv_owner_refresh; eassumption.
  - intros k' r' H. upd_case k' k; [discriminate|now apply I].
  - intros k' b' r' H. upd_case k' k; [injection H as <- <-; exact (inv_refresh_code s I _ _ _ E)|exact (inv_refresh_code s I _ _ _ H)].
  - intros k' b' r' H. upd_case k' k; [injection H as <- <-; exact (inv_refresh_device s I _ _ _ E)|exact (inv_refresh_device s I _ _ _ H)].
Qed.

Lemma Inv_invalidate_code s k : Inv s -> Inv (set_store s (fst (invalidate_code (st s) k))).
Proof.
  intros I. unfold invalidate_code.
  destruct (codes (st s) k) as [[b r]|] eqn:E; [|eapply Inv_same_tables; eauto].
  cbn [fst]. constructor; unfold no_active_code_rid, no_device_rid; cbn; try apply I.
  - intros k' b' r' H. upd_case k' k.
    + injection H as <- <-. subst. eapply inv_owner_code; eassumption.
    + eapply inv_owner_code; eassumption.
  - intros k1 k2 b1 b2 r1 r2 H1 H2 Hr.
    upd_case k1 k; upd_case k2 k; subst; try reflexivity.
    + injection H1 as <- <-. eapply (inv_code_rid s I); eassumption.
    + injection H2 as <- <-. eapply (inv_code_rid s I); eassumption.
    + eapply (inv_code_rid s I); eassumption.
  - intros k' r' H kc rc Hc. upd_case kc k; [discriminate|]. exact (inv_access_code s I _ _ H kc rc Hc).
  - intros k' b' r' H kc rc Hc. upd_case kc k; [discriminate|]. exact (inv_refresh_code s I _ _ _ H kc rc Hc).
  - intros k' b' r' H. upd_case k' k; [injection H as <- <-; exact (inv_code_device s I _ _ _ E)|exact (inv_code_device s I _ _ _ H)].
Qed.

Lemma Inv_create_code s k r :
  Inv s -> owner s k = Some (KCode, r_id r) -> codes (st s) k = None ->
  (forall k' b' r', codes (st s) k' = Some (b', r') -> r_id r' <> r_id r) ->
  no_access_rid (st s) (r_id r) -> (forall k' b' r', refresh (st s) k' = Some (b', r') -> r_id r' <> r_id r) ->
  no_device_rid (st s) (r_id r) ->
  Inv (set_store s (create_code (st s) k r)).
Proof.
  intros I Ho Hnone Hrid Hna Hnr Hnd. constructor; unfold no_active_code_rid, no_device_rid; cbn; try apply I.
  - intros k' b' r' H. upd_case k' k.
    + injection H as <- <-. subst. assumption.
    + eapply inv_owner_code; eassumption.
  - intros k1 k2 b1 b2 r1 r2 H1 H2 Hr.
    upd_case k1 k; upd_case k2 k; subst; try reflexivity.
    + injection H1 as <- <-. exfalso. eapply Hrid; [eassumption|congruence].
    + injection H2 as <- <-. exfalso. eapply Hrid; [eassumption|congruence].
    + eapply (inv_code_rid s I); eassumption.
  - intros k' r' H kc rc Hc. upd_case kc k.
    + injection Hc as <-. intros Heq. eapply Hna; [eassumption|congruence].
    + exact (inv_access_code s I _ _ H kc rc Hc).
  - intros k' b' r' H kc rc Hc. upd_case kc k.
    + injection Hc as <-. intros Heq. eapply Hnr; [eassumption|congruence].
    + exact (inv_refresh_code s I _ _ _ H kc rc Hc).
  - intros k' b' r' H. upd_case k' k; [injection H as <- <-; assumption|exact (inv_code_device s I _ _ _ H)].
Qed.

Lemma Inv_create_access s k r :
  Inv s -> owner s k = Some (KAccess, r_id r) -> no_access_rid (st s) (r_id r) -> no_active_code_rid (st s) (r_id r) ->
  no_device_rid (st s) (r_id r) ->
  Inv (set_store s (create_access (st s) k r)).
Proof.
  intros I Ho Hna Hnc Hnd. constructor; unfold no_active_code_rid, no_device_rid; cbn; try apply I.
  - intros k' r' H. upd_case k' k; [injection H as <-; subst; assumption|now apply I].
  - intros k' r' H. upd_case k' k.
    + injection H as <-. subst. apply upd_eq.
    + rewrite upd_neq; [now apply I|]. intros Heq. eapply Hna; eassumption.
  - intros X k' H. upd_case X (r_id r); [injection H as <-; subst; left; assumption|now apply I].
  - intros k' r' H. upd_case k' k.
    + injection H as <-. assumption.
    + exact (inv_access_code s I _ _ H).
  - intros k' r' H. upd_case k' k; [injection H as <-; assumption|exact (inv_access_device s I _ _ H)].
Qed.

Lemma Inv_create_refresh s k r :
  Inv s -> owner s k = Some (KRefresh, r_id r) -> no_active_refresh_rid (st s) (r_id r) -> no_active_code_rid (st s) (r_id r) ->
  no_device_rid (st s) (r_id r) ->
  Inv (set_store s (create_refresh (st s) k r)).
Proof.
  intros I Ho Hnr Hnc Hnd. constructor; unfold no_active_code_rid, no_device_rid; cbn; try apply I.
  - intros k' b' r' H. upd_case k' k.
    + injection H as <- <-. subst. assumption.
    + eapply inv_owner_refresh; eassumption.
  - intros k' r' H. upd_case k' k.
    + injection H as <-. subst. apply upd_eq.
    + rewrite upd_neq; [now apply I|]. intros Heq. eapply Hnr; eassumption.
  - intros X k' H. upd_case X (r_id r); [injection H as <-; subst; assumption|now apply I].
  - intros k' b' r' H. upd_case k' k.
    + injection H as <- <-. assumption.
    + exact (inv_refresh_code s I _ _ _ H).
  - intros k' b' r' H. upd_case k' k; [injection H as <- <-; assumption|exact (inv_refresh_device s I _ _ _ H)].
Qed.

(* ------------------------------------------------------------------ device records *)
Lemma Inv_put_device_new s k r :
  Inv s -> owner s k = Some (KDevice, r_id r) -> device (st s) k = None ->
  no_device_rid (st s) (r_id r) -> no_access_rid (st s) (r_id r) ->
  (forall k' b' r', refresh (st s) k' = Some (b', r') -> r_id r' <> r_id r) ->
  (forall k' b' r', codes (st s) k' = Some (b', r') -> r_id r' <> r_id r) ->
  Inv (set_store s (put_device (st s) k (0, r))).
Proof.
  intros I Ho Hnone Hnd Hna Hnr Hnc.
  constructor; unfold no_active_code_rid, no_device_rid; cbn; try apply I.
  - intros k' b' r' H. upd_case k' k; [injection H as <- <-; subst; assumption|eapply inv_owner_device; eassumption].
  - intros k1 k2 b1 b2 r1 r2 H1 H2 Hr.
    upd_case k1 k; upd_case k2 k; subst; try reflexivity.
    + injection H1 as <- <-. exfalso. eapply Hnd; [eassumption|congruence].
    + injection H2 as <- <-. exfalso. eapply Hnd; [eassumption|congruence].
    + eapply (inv_device_rid s I); eassumption.
  - intros k' r' H kd bd rd Hd. upd_case kd k.
    + injection Hd as <- <-. intros Heq. eapply Hna; [eassumption|congruence].
    + exact (inv_access_device s I _ _ H kd bd rd Hd).
  - intros k' b' r' H kd bd rd Hd. upd_case kd k.
    + injection Hd as <- <-. intros Heq. eapply Hnr; [eassumption|congruence].
    + exact (inv_refresh_device s I _ _ _ H kd bd rd Hd).
  - intros k' b' r' H kd bd rd Hd. upd_case kd k.
    + injection Hd as <- <-. intros Heq. eapply Hnc; [eassumption|congruence].
    + exact (inv_code_device s I _ _ _ H kd bd rd Hd).
Qed.

Lemma Inv_put_device_update s k b r b' r' :
  Inv s -> device (st s) k = Some (b, r) -> r_id r' = r_id r ->
  Inv (set_store s (put_device (st s) k (b', r'))).
Proof.
  intros I Hd Hrid.
  constructor; unfold no_active_code_rid, no_device_rid; cbn; try apply I.
  - intros k0 b0 r0 H. upd_case k0 k.
    + injection H as <- <-. subst. rewrite Hrid. eapply inv_owner_device; eassumption.
    + eapply inv_owner_device; eassumption.
  - intros k1 k2 b1 b2 r1 r2 H1 H2 Hr.
    upd_case k1 k; upd_case k2 k; subst; try reflexivity.
    + injection H1 as <- <-. eapply (inv_device_rid s I); [exact Hd|exact H2|congruence].
    + injection H2 as <- <-. eapply (inv_device_rid s I); [exact H1|exact Hd|congruence].
    + eapply (inv_device_rid s I); eassumption.
  - intros k0 r0 H kd bd rd Hd'. upd_case kd k.
    + injection Hd' as <- <-. rewrite Hrid. exact (inv_access_device s I _ _ H k b r Hd).
    + exact (inv_access_device s I _ _ H kd bd rd Hd').
  - intros k0 b0 r0 H kd bd rd Hd'. upd_case kd k.
    + injection Hd' as <- <-. rewrite Hrid. exact (inv_refresh_device s I _ _ _ H k b r Hd).
    + exact (inv_refresh_device s I _ _ _ H kd bd rd Hd').
  - intros k0 b0 r0 H kd bd rd Hd'. upd_case kd k.
    + injection Hd' as <- <-. rewrite Hrid. exact (inv_code_device s I _ _ _ H k b r Hd).
    + exact (inv_code_device s I _ _ _ H kd bd rd Hd').
Qed.

Lemma Inv_delete_device s k : Inv s -> Inv (set_store s (delete_device (st s) k)).
Proof.
  intros I. constructor; unfold no_active_code_rid, no_device_rid; cbn; try apply I.
  - intros k0 b0 r0 H. upd_case k0 k; [discriminate|eapply inv_owner_device; eassumption].
  - intros k1 k2 b1 b2 r1 r2 H1 H2 Hr. upd_case k1 k; [discriminate|]. upd_case k2 k; [discriminate|].
    eapply (inv_device_rid s I); eassumption.
  - intros k0 r0 H kd bd rd Hd. upd_case kd k; [discriminate|]. exact (inv_access_device s I _ _ H kd bd rd Hd).
  - intros k0 b0 r0 H kd bd rd Hd. upd_case kd k; [discriminate|]. exact (inv_refresh_device s I _ _ _ H kd bd rd Hd).
  - intros k0 b0 r0 H kd bd rd Hd. upd_case kd k; [discriminate|]. exact (inv_code_device s I _ _ _ H kd bd rd Hd).
Qed.

Lemma delete_device_no_device s k b r :
  Inv s -> device (st s) k = Some (b, r) -> no_device_rid (delete_device (st s) k) (r_id r).
Proof.
  intros I Hd k' b' r' H Heq. cbn in H. upd_case k' k; [discriminate|].
  apply Hk. eapply (inv_device_rid s I); eassumption.
Qed.

Lemma Inv_invalidate_device s k rid : Inv s -> Inv (set_store s (invalidate_device (st s) k rid)).
Proof.
  intros I. exact (Inv_set_dev_used (set_store s (delete_device (st s) k)) _ (Inv_delete_device s k I)).
Qed.
Lemma invalidate_device_no_device s k b r rid :
  Inv s -> device (st s) k = Some (b, r) -> no_device_rid (invalidate_device (st s) k rid) (r_id r).
Proof. intros I Hd. exact (delete_device_no_device s k b r I Hd). Qed.

(* access tokens minted by the authorization endpoint *)
Lemma Inv_create_implicit s k r :
  Inv s -> owner s k = Some (KImplicit, r_id r) -> no_access_rid (st s) (r_id r) ->
  Inv (set_store s (create_implicit (st s) k r)).
Proof.
  intros I Ho Hna. constructor; unfold no_active_code_rid, no_device_rid; cbn; try apply I.
  - intros k' r' H. rewrite upd_neq; [now apply I|]. intros Heq. eapply Hna; eassumption.
  - intros X k' H. upd_case X (r_id r); [injection H as <-; subst; right; assumption|now apply I].
  - intros k' r' H. upd_case k' k; [injection H as <-; subst; assumption|now apply I].
Qed.
