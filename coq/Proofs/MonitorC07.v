(* C07: the expiry clause of the history monitor ([Cases/Monitors.v clock_from]) is sound for the model - on the
   model's own trace of ANY history it never reports a credential that is honoured after its expiry.  Together with the
   correspondence check (which compares the implementation's observations and probe vectors with the model's) this
   says what the tag means: an implementation trace that carries it differs from every trace of the model. *)
From FositeModel Require Import Base.Str Model.Scope Model.Core Model.Flows Cases.Common Cases.CasesHist Cases.Monitors
     Proofs.CoreInv Proofs.StepInv Proofs.StepProps Proofs.NowStep.

Lemma introspect_use cfg s tok h scopes p :
  introspect cfg s tok h scopes = Some p -> pl_use p = KAccess \/ pl_use p = KRefresh.
Proof.
  unfold introspect.
  assert (A : forall key, introspect_access cfg s key (p_tampered tok) scopes = Some p -> pl_use p = KAccess)
    by (intros key Hk; apply introspect_access_truth in Hk as [k [r [_ [_ [_ [_ [_ ->]]]]]]]; reflexivity).
  assert (R : forall key, introspect_refresh cfg s key (p_tampered tok) scopes = Some p -> pl_use p = KRefresh)
    by (intros key Hk; apply introspect_refresh_truth in Hk as [k [r [_ [_ [_ [_ [_ ->]]]]]]]; reflexivity).
  destruct (negb (cf_introspect_rt cfg)); [eauto|].
  destruct (introspect_access _ _ _ _ _) eqn:Ea; destruct (introspect_refresh _ _ _ _ _) eqn:Er; destruct h;
    intros H; try discriminate; injection H as ->; eauto.
Qed.

Lemma probe_unexpired_sound cfg s tok h scopes : probe_unexpired (now s) (introspect cfg s tok h scopes) = true.
Proof.
  destruct (introspect cfg s tok h scopes) as [p|] eqn:E; [|reflexivity]. cbn.
  destruct (pl_exp p) as [e|] eqn:Ee; [|reflexivity]. apply Z.leb_le.
  destruct (introspect_use _ _ _ _ _ _ E) as [U|U].
  - exact (access_honoured_not_expired cfg s tok h scopes p E U e Ee).
  - exact (refresh_honoured_not_expired cfg s tok h scopes p E U e Ee).
Qed.

Lemma probes_unexpired cfg s : forallb (probe_unexpired (now s)) (probes cfg s) = true.
Proof.
  unfold probes. generalize 0 as i. induction (log s) as [|e l IH]; intros i; cbn [probes_from forallb]; [reflexivity|].
  rewrite IH, Bool.andb_true_r. unfold probe_one. destruct (i_kind e); try reflexivity; apply probe_unexpired_sound.
Qed.

Definition expiry_tag (r : option string) : Prop :=
  r = Some "token_reported_active_after_its_expiry"%string \/
  r = Some "jwt_access_token_honoured_within_the_second_after_its_expiry"%string.

Theorem expiry_clause_sound cfg h : forall s jwt cfg' cls n,
  ~ expiry_tag (clock_from jwt cfg' cls (now s) n (trace cfg s h)).
Proof.
  induction h as [|o h IH]; intros s jwt cfg' cls n; cbn [trace clock_from]; [intros [H|H]; discriminate|].
  pose proof (now_step cfg s o) as Hn. pose proof (probes_unexpired cfg (fst (step cfg s o))) as Hp.
  destruct (step cfg s o) as [s' ob]. cbn [fst] in *. cbn [clock_from].
  assert (Ht : match o with OAdvance ms => (now s + ms)%Z | _ => now s end = now s') by (destruct o; congruence).
  rewrite Ht, Hp.
  destruct (negb (advertised_ok _ _ _ _)); [intros [H|H]; discriminate|].
  destruct (negb (life_ok _ _ _ _ _ _ _ _)); [intros [H|H]; discriminate|].
  apply IH.
Qed.

(* for every configuration, registration and history: the C07 monitor, run on the model's trace from the initial state,
   does not report an expired credential as honoured *)
Corollary model_never_honours_an_expired_credential cfg cls h jwt :
  ~ expiry_tag (clock_from jwt cfg cls 0%Z 0 (trace cfg (state0 (clients_of cls)) h)).
Proof. exact (expiry_clause_sound cfg h (state0 (clients_of cls)) jwt cfg cls 0). Qed.

Corollary monitor_expiry_clause_sound cfg cls h jwt :
  let r := clock_from jwt cfg cls 0%Z 0 (trace cfg (state0 (clients_of cls)) h) in
  r <> Some "token_reported_active_after_its_expiry"%string /\
  r <> Some "jwt_access_token_honoured_within_the_second_after_its_expiry"%string.
Proof.
  intros r. pose proof (model_never_honours_an_expired_credential cfg cls h jwt) as H.
  unfold expiry_tag in H. fold r in H. split; intros E; apply H; [left|right]; exact E.
Qed.
