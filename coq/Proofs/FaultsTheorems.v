(* C18: the theorems about the fault model in the form the property states them. *)
From FositeModel Require Import Base.Str Model.Scope Model.Core Model.Flows Model.Faults Cases.CasesC18
     Proofs.CoreInv Proofs.StepInv Proofs.FaultsProofs Proofs.FaultsFlows Proofs.FaultsFlows2.
Arguments upd : simpl never.

(* ================================================================== every request that touches the token tables *)
Definition faultable (o : op) : bool :=
  match o with
  | ORedeem _ _ _ _ _ _ | ORefresh _ _ _ | ORevoke _ _ _ | OPassword _ _ _ _ _ _ | OClientCreds _ _ _ _ _ | ODevicePoll _ _ => true
  | _ => false
  end.

Definition pkce_tag : string := "tokens_issued_after_notfound_fault_on_pkce_lookup".

Definition step_ok (e : fenv) (s : state) (o : op) (s' : state) (ob : obs) (calls : list call) : Prop :=
  mon_c (fe_tx e) calls = None /\
  mon_serial o calls ob = None /\
  (mon_b o calls ob = None \/ mon_b o calls ob = Some pkce_tag) /\
  (rolled_back (fe_tx e) calls = true -> st s' = st s /\ log s' = log s) /\
  (succeeded ob = false -> log s' = log s) /\
  clients s' = clients s /\ now s' = now s /\
  store_le (next_key s) (st s) (st s') /\
  panicked ob = false.

Theorem fstep_ok e cfg s o :
  faultable o = true -> let '(s', ob, calls) := fstep e cfg s o in step_ok e s o s' ob calls.
Proof.
  assert (K : forall (r : fstate * obs), flow_okp e s o r -> step_ok e s o (f_s (fst r)) (snd r) (f_calls (fst r))).
  { intros r (H1 & H2 & H3 & H4 & H5 & H6 & H7 & H8 & _ & H10). repeat split; auto; try (apply H4; assumption).
    all: try (match goal with Hk : _ < _ |- _ => destruct (H8 _ Hk) as [? [? [? [? ?]]]]; assumption end). }
  destruct o; try discriminate; intros _; cbn [fstep]; apply K.
  - apply fredeem_ok. - apply frefresh_ok. - apply frevoke_ok. - apply fpassword_ok.
  - apply fclient_credentials_ok. - apply fdevice_ok.
Qed.

(* ------------------------------------------------------------------ (b) a storage failure refuses the request *)
Lemma in_injected m f l : In (m, RInj f) l -> injected l = true.
Proof. unfold injected. intros H. apply existsb_exists. exists (m, RInj f). split; [assumption|reflexivity]. Qed.
Lemma in_not_only_pkce m f l : In (m, RInj f) l -> ~ (m = MGetPkce /\ f = FNotFound) -> only_pkce_nf l = false.
Proof.
  unfold only_pkce_nf. intros H Hn. destruct (forallb (fun c : call => negb (is_inj c) || pkce_nf c) l) eqn:E; [|reflexivity].
  rewrite forallb_forall in E. specialize (E _ H). cbn in E.
  destruct m; try discriminate E; destruct f; try discriminate E. exfalso. apply Hn. auto.
Qed.

Theorem fault_refuses e cfg s o :
  faultable o = true -> is_revoke o = false ->
  let '(s', ob, calls) := fstep e cfg s o in
  (o_err ob <> "" -> o_minted ob = []) /\
  forall m f, In (m, RInj f) calls -> ~ (m = MGetPkce /\ f = FNotFound) -> o_err ob <> "" /\ o_minted ob = [].
Proof.
  intros Hf Hr. pose proof (fstep_ok e cfg s o Hf) as H. destruct (fstep e cfg s o) as [[s' ob] calls].
  destruct H as (_ & _ & Hb & _).
  assert (Hmint : o_err ob <> "" -> o_minted ob = []).
  { intros He. unfold mon_b, succeeded, no_tokens in Hb. apply String.eqb_neq in He. rewrite He in Hb. cbn [negb andb] in Hb.
    destruct (o_minted ob); [reflexivity|]. cbn in Hb. destruct Hb; discriminate. }
  split; [exact Hmint|].
  intros m f Hin Hn.
  assert (He : o_err ob <> "").
  { intros He. unfold mon_b, succeeded in Hb. rewrite He in Hb. cbn [String.eqb negb andb orb] in Hb.
    rewrite Hr, (in_injected _ _ _ Hin), (in_not_only_pkce _ _ _ Hin Hn) in Hb. cbn in Hb. destruct Hb; discriminate. }
  split; [exact He|auto].
Qed.

(* serialization conflicts inside the refresh handler's transactions are answered with the retry class *)
Theorem serialization_conflict_is_retryable e cfg s auth tok sm :
  let '(s', ob, calls) := fstep e cfg s (ORefresh auth tok sm) in
  forall m, In (m, RInj FSerial) calls -> in_refresh_tx m = true ->
            (forall f, ~ In (MRollback, RInj f) calls) -> o_err ob = "invalid_request".
Proof.
  pose proof (fstep_ok e cfg s (ORefresh auth tok sm) eq_refl) as H. destruct (fstep e cfg s _) as [[s' ob] calls].
  destruct H as (_ & Hs & _). intros m Hin Hm Hnr.
  unfold mon_serial in Hs. cbn [is_refresh andb] in Hs.
  assert (E1 : existsb (fun c : call => in_refresh_tx (fst c) && rclass_eqb (snd c) (RInj FSerial)) calls = true).
  { apply existsb_exists. exists (m, RInj FSerial). split; [assumption|]. cbn. now rewrite Hm. }
  assert (E2 : has_call calls MRollback is_injr = false).
  { unfold has_call. destruct (existsb (fun c : call => meth_eqb (fst c) MRollback && is_injr (snd c)) calls) eqn:E; [|exact E]. apply existsb_exists in E as [[m' r] [Hin' Hc]].
    cbn in Hc. apply andb_true_iff in Hc as [Hm' Hr]. destruct m'; try discriminate Hm'. destruct r; try discriminate Hr.
    exfalso. eapply Hnr; eassumption. }
  unfold call in *. rewrite E1, E2 in Hs. cbn [negb andb] in Hs.
  destruct (String.eqb_spec (o_err ob) "invalid_request"); [assumption|discriminate].
Qed.

(* ------------------------------------------------------------------ (c) begin / commit / rollback *)
Theorem transaction_trace_wellformed e cfg s o :
  faultable o = true ->
  let '(s', ob, calls) := fstep e cfg s o in
  tx_wf calls = true /\ (fe_tx e = false -> forall c, In c calls -> is_tx_meth (fst c) = false).
Proof.
  intros Hf. pose proof (fstep_ok e cfg s o Hf) as H. destruct (fstep e cfg s o) as [[s' ob] calls].
  destruct H as (Hc & _). unfold mon_c in Hc.
  destruct (tx_wf calls); [|discriminate]. split; [reflexivity|].
  intros Htx c Hin. rewrite Htx in Hc. cbn [negb andb] in Hc. unfold call in *.
  destruct (existsb (fun c0 : meth * rclass => is_tx_meth (fst c0)) calls) eqn:E; [discriminate|].
  destruct (is_tx_meth (fst c)) eqn:Ec; [|reflexivity].
  assert (existsb (fun c0 : meth * rclass => is_tx_meth (fst c0)) calls = true) by (apply existsb_exists; eauto). congruence.
Qed.

(* every request is answered: no execution of the model ends in the panic observation (after 8ec4c3a the refresh handler
   refuses a reuse report that comes without the stored request) *)
Theorem every_request_is_answered e cfg s o :
  faultable o = true ->
  let '(s', ob, calls) := fstep e cfg s o in o_err ob <> "PANIC".
Proof.
  intros Hf. pose proof (fstep_ok e cfg s o Hf) as H. destruct (fstep e cfg s o) as [[s' ob] calls].
  destruct H as (_ & _ & _ & _ & _ & _ & _ & _ & Hp). unfold panicked in Hp. now apply String.eqb_neq.
Qed.

(* ------------------------------------------------------------------ (d) a rolled-back transaction changes nothing *)
Theorem rolled_back_failure_restores_the_tables e cfg s o :
  faultable o = true ->
  let '(s', ob, calls) := fstep e cfg s o in
  rolled_back (fe_tx e) calls = true -> vis_eq s' s.
Proof.
  intros Hf. pose proof (fstep_ok e cfg s o Hf) as H. destruct (fstep e cfg s o) as [[s' ob] calls].
  destruct H as (_ & _ & _ & Hd & _ & Hcl & Hnow & _). intros Hrb. destruct (Hd Hrb). repeat split; assumption.
Qed.

(* hence the credential that was being exchanged is still usable: the holder's retry is answered exactly as the
   request would have been answered without the fault *)
Corollary retry_after_rollback_as_if_nothing_happened e cfg s o :
  match o with ORedeem _ _ _ _ _ _ | ORefresh _ _ _ | ODevicePoll _ _ => True | _ => False end ->
  let '(s', ob, calls) := fstep e cfg s o in
  rolled_back (fe_tx e) calls = true -> snd (step cfg s' o) = snd (step cfg s o).
Proof.
  intros Ho. assert (Hf : faultable o = true) by (destruct o; try contradiction; reflexivity).
  pose proof (rolled_back_failure_restores_the_tables e cfg s o Hf) as H. destruct (fstep e cfg s o) as [[s' ob] calls].
  intros Hrb. specialize (H Hrb). destruct o; try contradiction; cbn [step].
  - now apply redeem_obs_vis. - now apply refresh_obs_vis. - now apply device_obs_vis.
Qed.

(* ------------------------------------------------------------------ (e) fail-closed *)
Theorem fail_closed e cfg s o :
  faultable o = true ->
  let '(s', ob, calls) := fstep e cfg s o in
  store_le (next_key s) (st s) (st s') /\
  (o_err ob <> "" -> log s' = log s /\ forall p, key_of s' p = key_of s p).
Proof.
  intros Hf. pose proof (fstep_ok e cfg s o Hf) as H. destruct (fstep e cfg s o) as [[s' ob] calls].
  destruct H as (_ & _ & _ & _ & Hl & _ & _ & Hle & _). split; [exact Hle|].
  intros He. assert (Hlog : log s' = log s) by (apply Hl; unfold succeeded; now apply String.eqb_neq).
  split; [exact Hlog|]. intros p. unfold key_of. now rewrite Hlog.
Qed.
