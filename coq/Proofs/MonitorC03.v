(* C03: the clauses of the history monitor (Cases/Monitors.v judge_C03) that read nothing of the tracker - the challenge
   method accepted at the authorization endpoint, and token requests under a grant type no handler owns - are sound for
   the model, in every state and for every tracker and probe vector. *)
From FositeModel Require Import Base.Str Model.Scope Model.Core Model.Flows Cases.Common Cases.CasesHist Cases.Monitors
     Proofs.CoreInv Proofs.StepInv Proofs.StepProps Proofs.FaultsProofs.

Lemma authorize_accepts_only_valid_challenges cfg s a :
  o_err (snd (authorize cfg s a)) = "" -> az_rtype a <> RToken ->
  exists cl, pkce_validate cfg (az_challenge a) (az_method a) cl = None.
Proof.
  intros H Hrt. destruct (az_rtype a) eqn:Ert; [|contradiction|].
  - destruct (authorize_pkce_gate cfg s a Ert H) as [cl [_ Hv]]. eauto.
  - revert H. unfold authorize. rewrite Ert. destruct (cf_par_enforced cfg); [discriminate|].
    destruct (clients s (az_client a)) as [cl|]; [|discriminate]. unfold authorize_hybrid.
    repeat match goal with |- context [if ?c then fail s _ else _] => destruct c; [discriminate|] end.
    destruct (fresh_rid s) as [rid s1]. destruct (mint s1 KCode rid) as [k s2].
    destruct (negb (args_has (cl_grants cl) ["implicit"])); [discriminate|].
    destruct (pkce_validate cfg (az_challenge a) (az_method a) cl) as [e|] eqn:Ev; [|eauto].
    rewrite (pkce_validate_err _ _ _ _ _ Ev). discriminate.
Qed.

Theorem judge_C03_authorize_sound cfg m s a pr :
  fst (fst (judge_C03 cfg m (OAuthorize a) (snd (step cfg s (OAuthorize a))) pr)) = None.
Proof.
  cbn [step judge_C03].
  destruct (String.eqb (o_err (snd (authorize cfg s a))) "") eqn:Ee; [|reflexivity]. apply String.eqb_eq in Ee.
  destruct (negb (String.eqb (az_challenge a) "")) eqn:Ec; [|reflexivity].
  destruct (az_rtype a) eqn:Ert; cbn [andb]; try reflexivity;
    (destruct (authorize_accepts_only_valid_challenges cfg s a Ee) as [cl Hv]; [rewrite Ert; discriminate|];
     unfold pkce_validate in Hv; apply Bool.negb_true_iff in Ec; rewrite Ec in Hv;
     destruct (String.eqb (az_method a) "S256"); [reflexivity|];
     destruct (String.eqb (az_method a) "plain" || String.eqb (az_method a) ""); [|discriminate];
     destruct (cf_pkce_plain cfg); [reflexivity|discriminate]).
Qed.

Theorem judge_C03_other_grant_sound cfg m s auth pr :
  fst (fst (judge_C03 cfg m (OTokenOther auth) (snd (step cfg s (OTokenOther auth))) pr)) = None.
Proof. reflexivity. Qed.
