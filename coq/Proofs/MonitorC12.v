(* The executable specifications used as C12's monitor agree with the declarative ones and hence,
   by Proofs/ScopeProofs.v, with the Go-shaped loops on every input. *)
From FositeModel Require Import Base.Str Model.Scope Proofs.ScopeProofs Cases.CasesC12.

Lemma seg_match_b_iff c n : seg_match_b c n = true <-> seg_match c n.
Proof.
  unfold seg_match_b, seg_match. destruct (String.eqb c "*").
  - destruct (String.eqb_spec n ""); cbn; split; congruence.
  - destruct (String.eqb_spec c n); split; congruence.
Qed.

Lemma wild_spec_b_iff ms ns : wild_spec_b ms ns = true <-> wild_spec ms ns.
Proof.
  revert ns. induction ms as [|c ms IH]; intros ns.
  - destruct ns; cbn; split; try easy. constructor.
  - destruct ns as [|n ns]; cbn [wild_spec_b]; [split; [easy|inversion 1]|].
    rewrite orb_true_iff, andb_true_iff, seg_match_b_iff, IH. split.
    + intros [[H1 H2]|H].
      * now constructor.
      * destruct ms; [|easy]. destruct ns; [easy|].
        apply andb_true_iff in H as [H1 H2]. apply String.eqb_eq in H1. subst c.
        constructor; [|discriminate]. destruct (String.eqb_spec n ""); [easy|assumption].
    + intros H. inversion H as [| n' rest Hn Hr | c' n' ms' ns' Hs Hw]; subst.
      * right. match goal with Hx : ?r <> [] |- _ => destruct r; [congruence|] end. cbn.
        destruct (String.eqb_spec n ""); [congruence|reflexivity].
      * left. split; assumption.
Qed.

Lemma proper_prefix_b_iff hs ns : proper_prefix_b hs ns = true <-> proper_prefix hs ns.
Proof.
  rewrite <- hier_loop_spec. revert ns. induction hs as [|h hs IH]; intros ns; destruct ns as [|n ns]; cbn; try tauto.
  destruct (String.eqb h n); cbn; [apply IH|tauto].
Qed.

Lemma existsb_ext_iff {A} (f g : A -> bool) l :
  (forall x, f x = true <-> g x = true) -> existsb f l = existsb g l.
Proof.
  intros H. induction l as [|x l IH]; [reflexivity|]. cbn. rewrite IH.
  specialize (H x). destruct (f x), (g x); try reflexivity; intuition congruence.
Qed.

Lemma mem_existsb needle hay : mem needle hay = existsb (fun this => String.eqb needle this) hay.
Proof. induction hay as [|h r IH]; [reflexivity|]. cbn. rewrite IH. now destruct (String.eqb needle h). Qed.

(* the monitor never disagrees with the model: whatever the implementation answers, [corr] and
   [mon] of a scope case are the same verdict *)
Theorem scope_spec_b_is_model s hay needle : scope_spec_b s hay needle = scope_match s hay needle.
Proof.
  destruct s; cbn [scope_spec_b scope_match].
  - apply mem_existsb.
  - unfold hierarchic_strategy. apply existsb_ext_iff. intros h.
    rewrite hier_one_spec, orb_true_iff, String.eqb_eq, proper_prefix_b_iff. reflexivity.
  - unfold wildcard_strategy. apply existsb_ext_iff. intros m.
    rewrite wildcard_one_spec, wild_spec_b_iff. reflexivity.
Qed.

Lemma mem_forallb hs ns : forallb (fun n => mem n hs) ns = exact_audience hs ns.
Proof. unfold exact_audience. induction ns as [|n r IH]; [reflexivity|]. cbn. now rewrite IH, mem_existsb. Qed.

(* ---- default audience strategy: the prefix computation of the Go code is a "/"-boundary prefix test *)
Lemma trim_right_app_slash s : trim_right slash (s ++ "/") = trim_right slash s.
Proof.
  induction s as [|a s IH]; [reflexivity|].
  cbn [append trim_right]. rewrite IH. reflexivity.
Qed.

Lemma trim_right_idem s : trim_right slash (trim_right slash s) = trim_right slash s.
Proof.
  induction s as [|a s IH]; [reflexivity|].
  cbn [trim_right]. destruct (trim_right slash s) as [|b t] eqn:E.
  - destruct (Ascii.eqb a slash) eqn:Ea; [reflexivity|]. cbn. now rewrite Ea.
  - cbn [trim_right]. cbn [trim_right] in IH. rewrite IH. reflexivity.
Qed.

Lemma trim_right_length s : String.length (trim_right slash s) <= String.length s.
Proof.
  induction s as [|a s IH]; [cbn; lia|]. cbn [trim_right].
  destruct (trim_right slash s); [destruct (Ascii.eqb a slash)|]; cbn in *; lia.
Qed.

Lemma trim_right_fix_last s c : trim_right slash (s ++ String c "") = s ++ String c "" -> True.
Proof. trivial. Qed.

Lemma trim_right_noslash s c : c <> slash -> trim_right slash (s ++ String c "") = s ++ String c "".
Proof.
  intros Hc. induction s as [|a s IH].
  - cbn. destruct (Ascii.eqb_spec c slash); congruence.
  - cbn [append trim_right]. rewrite IH. destruct s; reflexivity.
Qed.

Lemma take_app_exact a b : take (String.length a) (a ++ b) = a.
Proof. induction a as [|x a IH]; cbn; [now destruct b|now rewrite IH]. Qed.

Lemma take_succ_app a c r : take (String.length a + 1) (a ++ String c r) = a ++ String c "".
Proof. induction a as [|x a IH]; cbn; [reflexivity|]. cbn in IH. now rewrite IH. Qed.

Lemma take_split n s : String.length s > n ->
  exists c rest, take (n + 1) s = take n s ++ String c "" /\ s = take n s ++ String c rest.
Proof.
  revert s. induction n as [|n IH]; intros s Hl.
  - destruct s as [|c r]; [cbn in Hl; lia|]. exists c, r. split; reflexivity.
  - destruct s as [|a r]; [cbn in Hl; lia|]. cbn in Hl.
    destruct (IH r ltac:(lia)) as [c [rest [H1 H2]]]. exists c, rest. cbn [Nat.add take append].
    split; [now rewrite H1|now rewrite <- H2].
Qed.

Lemma take_length n s : n <= String.length s -> String.length (take n s) = n.
Proof.
  revert s. induction n as [|n IH]; intros s Hl; [reflexivity|].
  destruct s; cbn in *; [lia|]. rewrite IH; lia.
Qed.

Lemma has_prefix_iff p s : has_prefix p s = true <-> exists r, s = p ++ r.
Proof.
  revert s. induction p as [|a p IH]; intros s; cbn.
  - split; [intros _; now exists s|reflexivity].
  - destruct s as [|b s]; [split; [easy|intros [r Hr]; discriminate]|].
    destruct (Ascii.eqb_spec a b) as [->|Hne].
    + rewrite IH. split; intros [r Hr]; exists r; congruence.
    + split; [easy|]. intros [r Hr]. congruence.
Qed.

Lemma append_assoc (a b c : string) : (a ++ b) ++ c = a ++ (b ++ c).
Proof. induction a as [|x a IH]; cbn; [reflexivity|now rewrite IH]. Qed.

Lemma append_inj_l a b b' : a ++ b = a ++ b' -> b = b'.
Proof. induction a; cbn; intros H; [assumption|]. injection H. auto. Qed.

Lemma append_eq_length a a' b b' : String.length a = String.length a' -> a ++ b = a' ++ b' -> a = a' /\ b = b'.
Proof.
  revert a'. induction a as [|x a IH]; intros [|y a'] Hl H; cbn in *; try lia; [tauto|].
  injection H as -> H. destruct (IH a' ltac:(lia) H) as [-> ->]. tauto.
Qed.

(* the third disjunct of the Go condition, for an allowed path that is already right-trimmed *)
Lemma boundary_prefix ap np :
  trim_right slash ap = ap ->
  (Nat.ltb (String.length ap) (String.length np)
   && String.eqb (trim_right slash (take (String.length ap + 1) np) ++ "/") (ap ++ "/")) = has_prefix (ap ++ "/") np.
Proof.
  intros Htrim.
  destruct (Nat.ltb_spec (String.length ap) (String.length np)) as [Hlt|Hge]; cbn [andb].
  - destruct (take_split (String.length ap) np Hlt) as [c [rest [H1 H2]]].
    destruct (has_prefix (ap ++ "/") np) eqn:Ep; [|rewrite H1].
    + apply has_prefix_iff in Ep as [r Hr]. rewrite append_assoc in Hr. cbn [append] in Hr.
      rewrite Hr, take_succ_app.
      change (String "/" "") with "/". rewrite trim_right_app_slash, Htrim. apply String.eqb_refl.
    + apply String.eqb_neq. intros Heq.
      assert (Hx : trim_right slash (take (String.length ap) np ++ String c "") = ap).
      { revert Heq. generalize (trim_right slash (take (String.length ap) np ++ String c "")). intros t Ht.
        clear -Ht. revert ap Ht. induction t as [|x t IH]; intros [|y ap] Ht; cbn in Ht; try congruence.
        - destruct ap; discriminate.
        - destruct t; discriminate.
        - injection Ht as -> Ht. f_equal. now apply IH. }
      destruct (Ascii.eqb_spec c slash) as [->|Hc].
      * change (String slash "") with "/" in Hx. rewrite trim_right_app_slash in Hx.
        assert (Hl : String.length (take (String.length ap) np) = String.length ap) by (apply take_length; lia).
        pose proof (trim_right_length (take (String.length ap) np)) as Hle.
        assert (Hq : take (String.length ap) np = ap).
        { (* a trimmed string of full length is the string itself *)
          remember (take (String.length ap) np) as t eqn:Et. clear Et H1 H2.
          assert (G : forall t, String.length (trim_right slash t) = String.length t -> trim_right slash t = t).
          { clear. induction t as [|a t IH]; [reflexivity|]. cbn [trim_right].
            pose proof (trim_right_length t) as Hl.
            destruct (trim_right slash t) as [|b u] eqn:E.
            - destruct (Ascii.eqb a slash); cbn; intros H; [lia|].
              destruct t; [reflexivity|cbn in H; lia].
            - cbn [String.length]. intros H. f_equal. apply IH. cbn in *. lia. }
          rewrite <- Hx. symmetry. apply G. rewrite Hx. lia. }
        rewrite Hq in H2. rewrite H2 in Ep.
        assert (has_prefix (ap ++ "/") (ap ++ String slash rest) = true)
          by (apply has_prefix_iff; exists rest; rewrite append_assoc; reflexivity).
        congruence.
      * rewrite trim_right_noslash in Hx by assumption.
        assert (Hl : String.length (take (String.length ap) np) = String.length ap) by (apply take_length; lia).
        rewrite <- Hx in Hl at 2. rewrite append_length in Hl. cbn in Hl. lia.
  - destruct (has_prefix (ap ++ "/") np) eqn:Ep; [|reflexivity].
    apply has_prefix_iff in Ep as [r Hr]. rewrite Hr, !append_length in Hge. cbn in Hge. lia.
Qed.

Lemma aud_pair_spec_b_is_model h n : aud_pair_spec_b h n = default_aud_pair h n.
Proof.
  unfold aud_pair_spec_b, default_aud_pair. f_equal. f_equal.
  symmetry. apply boundary_prefix. apply trim_right_idem.
Qed.

Lemma default_aud_hay_spec hs n found :
  default_aud_hay hs n found =
  if forallb a_ok hs then Some (found || existsb (fun h => default_aud_pair h n) hs) else None.
Proof.
  revert found. induction hs as [|h r IH]; intros found; cbn [default_aud_hay forallb existsb].
  - now rewrite orb_false_r.
  - destruct (a_ok h); cbn [negb andb]; [|reflexivity]. rewrite IH. destruct (forallb a_ok r); [|reflexivity].
    now rewrite orb_assoc.
Qed.

Theorem default_aud_spec_b_is_model hs ns : default_aud_spec_b hs ns = default_audience hs ns.
Proof.
  unfold default_aud_spec_b. destruct ns as [|n0 r0]; [reflexivity|].
  revert n0. induction r0 as [|n1 r IH]; intros n0.
  - cbn [default_audience forallb]. rewrite default_aud_hay_spec.
    destruct (a_ok n0); cbn [negb andb]; [|reflexivity].
    destruct (forallb a_ok hs); cbn [andb]; [|reflexivity].
    rewrite (existsb_ext_iff _ (fun h => default_aud_pair h n0)) by (intros h; now rewrite aud_pair_spec_b_is_model).
    cbn [orb]. now destruct (existsb _ hs).
  - specialize (IH n1).
    change (default_audience hs (n0 :: n1 :: r)) with
      (if negb (a_ok n0) then false
       else match default_aud_hay hs n0 false with
            | None => false | Some false => false | Some true => default_audience hs (n1 :: r) end).
    rewrite default_aud_hay_spec, <- IH.
    cbn [forallb]. destruct (a_ok n0); cbn [negb andb]; [|reflexivity].
    destruct (a_ok n1); cbn [andb]; [|now destruct (forallb a_ok hs); [destruct (false || existsb _ hs)|]].
    destruct (forallb a_ok r); cbn [andb]; [|now destruct (forallb a_ok hs); [destruct (false || existsb _ hs)|]].
    destruct (forallb a_ok hs); cbn [andb]; [|reflexivity].
    rewrite (existsb_ext_iff (fun h => aud_pair_spec_b h n0) (fun h => default_aud_pair h n0)) by (intros h; now rewrite aud_pair_spec_b_is_model).
    cbn [orb]. now destruct (existsb (fun h => default_aud_pair h n0) hs).
Qed.

(* declarative reading of the audience rule *)
Definition aud_covers (h n : aurl) : Prop :=
  a_scheme n = a_scheme h /\ a_host n = a_host h /\
  (a_path n = a_path h \/ a_path n = trim_right slash (a_path h)
   \/ exists rest, a_path n = (trim_right slash (a_path h) ++ "/") ++ rest).

Lemma aud_pair_spec_b_iff h n : aud_pair_spec_b h n = true <-> aud_covers h n.
Proof.
  unfold aud_pair_spec_b, aud_covers.
  rewrite !andb_true_iff, !orb_true_iff, !String.eqb_eq, has_prefix_iff. tauto.
Qed.

Theorem default_audience_spec hs ns :
  default_audience hs ns = true <->
  ns = [] \/ ((forall n, In n ns -> a_ok n = true) /\ (forall h, In h hs -> a_ok h = true) /\
              forall n, In n ns -> exists h, In h hs /\ aud_covers h n).
Proof.
  rewrite <- default_aud_spec_b_is_model. unfold default_aud_spec_b.
  destruct ns as [|n0 r]; [tauto|].
  rewrite !andb_true_iff, !forallb_forall.
  split.
  - intros [[H1 H2] H3]. right. repeat split; auto.
    intros n Hn. specialize (H3 n Hn). apply existsb_exists in H3 as [h [Hh Hp]].
    exists h. split; [assumption|now apply aud_pair_spec_b_iff].
  - intros [H|[H1 [H2 H3]]]; [discriminate|]. repeat split; auto.
    intros n Hn. apply existsb_exists. destruct (H3 n Hn) as [h [Hh Hc]].
    exists h. split; [assumption|now apply aud_pair_spec_b_iff].
Qed.
