(* Client authentication: declarative specification (from the property text, RFC 6749 2.3.1 / 3.2.1,
   OpenID Connect Core 9) and the theorems that the Go-shaped model of Model/ClientAuth.v decides
   exactly that specification, for every hasher verdict function, store and request. *)
From FositeModel Require Import Base.Str Model.ClientAuth.

Local Open Scope string_scope.

Lemma eqb_eq' : forall a b, String.eqb a b = true <-> a = b.
Proof. intros; apply String.eqb_eq. Qed.
Lemma eqb_neq' : forall a b, String.eqb a b = false <-> a <> b.
Proof. intros; apply String.eqb_neq. Qed.

Lemma nonempty_true : forall s, nonempty s = true <-> s <> "".
Proof. intros s. unfold nonempty. rewrite negb_true_iff. apply String.eqb_neq. Qed.
Lemma nonempty_false : forall s, nonempty s = false <-> s = "".
Proof. intros s. unfold nonempty. rewrite negb_false_iff. apply String.eqb_eq. Qed.

Lemma lookup_some : forall st id c, lookup st id = Some c -> In c st /\ c_id c = id.
Proof.
  induction st as [|x r IH]; simpl; intros id c H; [easy|].
  destruct (String.eqb (c_id x) id) eqn:E.
  - inversion H; subst. split; [now left | now apply String.eqb_eq].
  - destruct (IH _ _ H) as [H1 H2]. split; [now right | exact H2].
Qed.

Lemma lookup_none : forall st id, lookup st id = None -> forall c, In c st -> c_id c <> id.
Proof.
  induction st as [|x r IH]; simpl; intros id H c Hin; [easy|].
  destruct (String.eqb (c_id x) id) eqn:E; [easy|].
  destruct Hin as [->|Hin]; [now apply String.eqb_neq | now apply IH].
Qed.

(* ------------------------------------------------------------------ specification *)
Section Spec.
  Variable cmp : string -> string -> bool.

  (* the request proves knowledge of a secret that the hasher accepts for the client's current
     or one of its rotated hashes *)
  Definition knows (c : client) (s : string) : Prop :=
    exists h, (h = c_hash c \/ In h (c_rot c)) /\ cmp h s = true.

  (* RFC 6749 2.3.1: credentials are presented in the Basic header (both components
     form-urlencoded) or, when there is no Basic header, as client_id / client_secret in the body *)
  Inductive presents (rq : request) : string -> string -> Prop :=
  | PrBasic : forall raw i s, r_hdr rq = HBasic raw (Some i) (Some s) -> presents rq i s
  | PrBody : r_hdr rq = HNone -> r_fid rq <> "" -> presents rq (r_fid rq) (r_fsec rq).

  Definition body_secret (rq : request) : Prop := r_fid rq <> "" /\ r_fsec rq <> "".
  Definition header_secret (rq : request) : Prop :=
    exists raw i s, r_hdr rq = HBasic raw i s /\ raw <> "".

  (* the registered token_endpoint_auth_method permits the transports the request uses; plain
     OAuth2 registrations have no method *)
  Definition method_permits (c : client) (rq : request) : Prop :=
    c_oidc c = false \/
    ((body_secret rq -> c_method c = m_post) /\
     (header_secret rq -> c_method c = m_basic) /\
     (c_public c = true -> c_method c = m_none)).

  Definition by_secret (st : list client) (rq : request) (c : client) : Prop :=
    r_atype rq = "" /\
    exists i s, presents rq i s /\ lookup st i = Some c /\ method_permits c rq /\
                (c_public c = true \/ knows c s).

  Definition assertion_valid_for (cid : string) (rq : request) : Prop :=
    let a := r_as rq in
    as_parse a = true /\ as_sub a = Some cid /\ as_iss a = cid /\ as_key_of a = Some cid /\
    as_time_ok a = true /\ as_jti a = true /\ as_jti_known a = false /\ as_aud_ok a = true.

  Definition by_assertion (st : list client) (rq : request) (c : client) : Prop :=
    r_atype rq = jwt_bearer_type /\ r_ahas rq = true /\
    (r_fid rq = "" \/ r_fid rq = c_id c) /\
    lookup st (c_id c) = Some c /\ c_oidc c = true /\ c_method c = m_pkjwt /\
    assertion_valid_for (c_id c) rq.

  (* ---------------------------------------------------------------- model = specification *)
  Lemma check_secret_knows : forall c s, check_secret cmp c s = true <-> knows c s.
  Proof.
    intros c s. unfold check_secret, knows. split.
    - destruct (cmp (c_hash c) s) eqn:E.
      + intros _. exists (c_hash c). auto.
      + intros H. apply existsb_exists in H. destruct H as [h [Hin Hc]]. exists h. auto.
    - intros [h [[->|Hin] Hc]].
      + now rewrite Hc.
      + destruct (cmp (c_hash c) s); [reflexivity|]. apply existsb_exists. now exists h.
  Qed.

  Lemma creds_presents : forall rq i s, creds rq = inr (i, s) <-> presents rq i s.
  Proof.
    intros rq i s. unfold creds. split.
    - destruct (r_hdr rq) as [|raw [i'|] [s'|]] eqn:H; try easy.
      + destruct (String.eqb (r_fid rq) "") eqn:E; [easy|].
        intros X. inversion X; subst. apply PrBody; [exact H | now apply String.eqb_neq].
      + intros X. inversion X; subst. now apply PrBasic with raw.
    - intros [raw i' s' H | H Hne].
      + now rewrite H.
      + rewrite H. apply String.eqb_neq in Hne. now rewrite Hne.
  Qed.

  Lemma method_violation_permits : forall c rq, method_violation c rq = false <-> method_permits c rq.
  Proof.
    intros c rq. unfold method_violation, method_permits, body_secret, header_secret, basic_secret_nonempty.
    destruct (c_oidc c); simpl; [|split; auto].
    split.
    - intros H. right.
      destruct (nonempty (r_fid rq) && nonempty (r_fsec rq) && negb (String.eqb (c_method c) m_post)) eqn:E1; [easy|].
      destruct ((match r_hdr rq with HNone => false | HBasic raw _ _ => nonempty raw end) && negb (String.eqb (c_method c) m_basic)) eqn:E2; [easy|].
      destruct (negb (String.eqb (c_method c) m_none) && c_public c) eqn:E3; [easy|].
      repeat split.
      + intros [A B]. apply nonempty_true in A, B. rewrite A, B in E1. simpl in E1.
        apply negb_false_iff in E1. now apply String.eqb_eq.
      + intros [raw [i [s [Hh Hr]]]]. rewrite Hh in E2. apply nonempty_true in Hr. rewrite Hr in E2.
        simpl in E2. apply negb_false_iff in E2. now apply String.eqb_eq.
      + intros P. rewrite P in E3. rewrite andb_true_r in E3. apply negb_false_iff in E3. now apply String.eqb_eq.
    - intros [X|[A [B C]]]; [easy|].
      destruct (nonempty (r_fid rq) && nonempty (r_fsec rq) && negb (String.eqb (c_method c) m_post)) eqn:E1.
      { apply andb_true_iff in E1. destruct E1 as [E1 E1']. apply andb_true_iff in E1. destruct E1 as [F1 F2].
        apply nonempty_true in F1, F2. rewrite (A (conj F1 F2)) in E1'. now rewrite String.eqb_refl in E1'. }
      destruct ((match r_hdr rq with HNone => false | HBasic raw _ _ => nonempty raw end) && negb (String.eqb (c_method c) m_basic)) eqn:E2.
      { apply andb_true_iff in E2. destruct E2 as [F1 F2]. destruct (r_hdr rq) as [|raw i s] eqn:Hh; [easy|].
        apply nonempty_true in F1. rewrite B in F2; [now rewrite String.eqb_refl in F2|]. now exists raw, i, s. }
      destruct (negb (String.eqb (c_method c) m_none) && c_public c) eqn:E3; [|reflexivity].
      apply andb_true_iff in E3. destruct E3 as [F1 F2]. rewrite (C F2) in F1. now rewrite String.eqb_refl in F1.
  Qed.

  Lemma auth_assertion_ok : forall st rq c,
    auth_assertion st rq = AOk c <->
    (r_ahas rq = true /\ (r_fid rq = "" \/ r_fid rq = c_id c) /\ lookup st (c_id c) = Some c /\
     c_oidc c = true /\ c_method c = m_pkjwt /\ assertion_valid_for (c_id c) rq).
  Proof.
    intros st rq c. unfold auth_assertion, assertion_valid_for. split.
    - destruct (r_ahas rq); simpl; [|easy].
      destruct (as_parse (r_as rq)); simpl; [|easy].
      destruct (if nonempty (r_fid rq) then Some (r_fid rq) else as_sub (r_as rq)) as [cid|] eqn:Ecid; [|easy].
      destruct (lookup st cid) as [c'|] eqn:El; [|easy].
      destruct (c_oidc c') eqn:Eo; simpl; [|easy].
      destruct (String.eqb (c_method c') m_pkjwt) eqn:Em; simpl; [|easy].
      destruct (as_key_of (r_as rq)) as [k|] eqn:Ek; simpl; [|easy].
      destruct (String.eqb k cid) eqn:Ekc; simpl; [|easy].
      destruct (as_time_ok (r_as rq)); simpl; [|easy].
      destruct (String.eqb (as_iss (r_as rq)) cid) eqn:Ei; simpl; [|easy].
      destruct (as_sub (r_as rq)) as [sb|] eqn:Es; simpl; [|easy].
      destruct (String.eqb sb cid) eqn:Esc; simpl; [|easy].
      destruct (as_jti (r_as rq)); simpl; [|easy].
      destruct (as_jti_known (r_as rq)); simpl; [easy|].
      destruct (as_aud_ok (r_as rq)); simpl; [|easy].
      intros X. inversion X; subst c'.
      destruct (lookup_some _ _ _ El) as [_ Hid].
      apply String.eqb_eq in Em, Ekc, Ei, Esc. subst k sb.
      rewrite Hid. repeat split; auto.
      destruct (nonempty (r_fid rq)) eqn:En.
      * right. now inversion Ecid.
      * left. now apply nonempty_false.
    - intros [Ha [Hf [Hl [Ho [Hm [Hp [Hs [Hi [Hk [Ht [Hj [Hjk Hau]]]]]]]]]]]].
      rewrite Ha, Hp. simpl.
      assert (Hc : (if nonempty (r_fid rq) then Some (r_fid rq) else as_sub (r_as rq)) = Some (c_id c)).
      { destruct Hf as [Hf|Hf].
        - apply nonempty_false in Hf. now rewrite Hf.
        - destruct (nonempty (r_fid rq)); [now rewrite Hf | exact Hs]. }
      rewrite Hc, Hl, Ho, Hm, Hk, Ht, Hi, Hs, Hj, Hjk, Hau. simpl.
      now rewrite !String.eqb_refl.
  Qed.

  (* The model accepts a request as client c exactly when the specification says so. *)
  Theorem authenticate_ok_iff : forall st rq c,
    authenticate cmp st rq = AOk c <-> by_secret st rq c \/ by_assertion st rq c.
  Proof.
    intros st rq c. unfold authenticate. split.
    - destruct (String.eqb (r_atype rq) jwt_bearer_type) eqn:Et.
      + intros H. right. apply auth_assertion_ok in H. unfold by_assertion.
        apply String.eqb_eq in Et. tauto.
      + destruct (nonempty (r_atype rq)) eqn:En; [easy|].
        apply nonempty_false in En.
        destruct (creds rq) as [e|[i s]] eqn:Ec; [easy|].
        destruct (lookup st i) as [c'|] eqn:El; [|easy].
        destruct (method_violation c' rq) eqn:Ev; [easy|].
        intros H. left. split; [exact En|]. exists i, s.
        apply creds_presents in Ec. apply method_violation_permits in Ev.
        destruct (c_public c') eqn:Ep.
        * inversion H; subst c'. auto.
        * destruct (check_secret cmp c' s) eqn:Ek; [|easy]. inversion H; subst c'.
          apply check_secret_knows in Ek. auto 6.
    - intros [[Ht [i [s [Hp [Hl [Hm Hk]]]]]] | [Ht H]].
      + rewrite Ht. simpl. apply creds_presents in Hp. rewrite Hp, Hl.
        apply method_violation_permits in Hm. rewrite Hm.
        destruct (c_public c) eqn:Ep; [reflexivity|].
        destruct Hk as [Hk|Hk]; [easy|]. apply check_secret_knows in Hk. now rewrite Hk.
      + rewrite Ht, String.eqb_refl. apply auth_assertion_ok. tauto.
  Qed.

  (* Every refusal carries invalid_client or invalid_request; the only other answer the code has is
     jti_known for a client assertion whose jti the store already knows (replay memory, property C15). *)
  Theorem authenticate_err_class : forall st rq e,
    authenticate cmp st rq = AErr e ->
    e = EInvalidClient \/ e = EInvalidRequest \/
    (e = EJtiKnown /\ r_atype rq = jwt_bearer_type /\ as_jti_known (r_as rq) = true).
  Proof.
    intros st rq e. unfold authenticate.
    destruct (String.eqb (r_atype rq) jwt_bearer_type) eqn:Et.
    - apply String.eqb_eq in Et. unfold auth_assertion.
      destruct (r_ahas rq); simpl; [|intros X; inversion X; auto].
      destruct (as_parse (r_as rq)); simpl; [|intros X; inversion X; auto].
      destruct (if nonempty (r_fid rq) then Some (r_fid rq) else as_sub (r_as rq)) as [cid|]; [|intros X; inversion X; auto].
      destruct (lookup st cid) as [c'|]; [|intros X; inversion X; auto].
      destruct (c_oidc c'); simpl; [|intros X; inversion X; auto].
      destruct (String.eqb (c_method c') m_pkjwt); simpl; [|intros X; inversion X; auto].
      destruct (match as_key_of (r_as rq) with Some k => String.eqb k cid | None => false end); simpl; [|intros X; inversion X; auto].
      destruct (as_time_ok (r_as rq)) eqn:Etm; simpl; [|intros X; inversion X; auto].
      destruct (String.eqb (as_iss (r_as rq)) cid); simpl; [|intros X; inversion X; auto].
      destruct (match as_sub (r_as rq) with Some s => String.eqb s cid | None => false end); simpl; [|intros X; inversion X; auto].
      destruct (as_jti (r_as rq)); simpl; [|intros X; inversion X; auto].
      destruct (as_jti_known (r_as rq)) eqn:Ej; simpl; [intros X; inversion X; right; right; auto|].
      destruct (as_aud_ok (r_as rq)); simpl; intros X; inversion X; auto.
    - destruct (nonempty (r_atype rq)); [intros X; inversion X; auto|].
      destruct (creds rq) as [e'|[i s]] eqn:Ec.
      + intros X; inversion X; subst. unfold creds in Ec.
        destruct (r_hdr rq) as [|raw [i|] [s|]]; try (inversion Ec; auto).
        destruct (String.eqb (r_fid rq) ""); inversion Ec; auto.
      + destruct (lookup st i) as [c'|]; [|intros X; inversion X; auto].
        destruct (method_violation c' rq); [intros X; inversion X; auto|].
        destruct (c_public c'); [easy|].
        destruct (check_secret cmp c' s); [easy|intros X; inversion X; auto].
  Qed.

  (* the clause of the property at full strength: every refused presentation of a secret (any
     request without a client assertion), and every refused assertion that is not a replay of a
     known jti, is answered invalid_client or invalid_request *)
  Theorem refusal_class : forall st rq e,
    authenticate cmp st rq = AErr e ->
    (r_atype rq <> jwt_bearer_type \/ as_jti_known (r_as rq) = false) ->
    e = EInvalidClient \/ e = EInvalidRequest.
  Proof.
    intros st rq e H Hn. apply authenticate_err_class in H.
    destruct H as [H|[H|[_ [Ht Hj]]]]; auto.
    destruct Hn as [Hn|Hn]; [contradiction|congruence].
  Qed.

  (* The first sentence of the property, for the authentication function: acceptance as a
     CONFIDENTIAL client means that the client is registered under the presented id and that the
     request proved knowledge of its current or a rotated secret over a transport its method
     permits, or carried a valid private_key_jwt assertion. *)
  Theorem confidential_needs_proof : forall st rq c,
    authenticate cmp st rq = AOk c -> c_public c = false ->
    In c st /\
    ((exists s, presents rq (c_id c) s /\ knows c s /\ method_permits c rq) \/
     (c_method c = m_pkjwt /\ r_ahas rq = true /\ assertion_valid_for (c_id c) rq)).
  Proof.
    intros st rq c H Hp. apply authenticate_ok_iff in H.
    destruct H as [[Ht [i [s [Hpr [Hl [Hm Hk]]]]]] | [Ht [Ha [Hf [Hl [Ho [Hm Hv]]]]]]].
    - destruct (lookup_some _ _ _ Hl) as [Hin Hid]. split; [exact Hin|]. left.
      destruct Hk as [Hk|Hk]; [congruence|]. exists s. subst i. auto.
    - destruct (lookup_some _ _ _ Hl) as [Hin _]. split; [exact Hin|]. right. auto.
  Qed.

  (* Public clients are identified without a secret: naming the client suffices, provided an
     OpenID Connect registration says "none" and no secret is pushed through a transport. *)
  Theorem public_identified : forall st rq c,
    authenticate cmp st rq = AOk c -> c_public c = true ->
    In c st /\ ((exists s, presents rq (c_id c) s /\ method_permits c rq) \/ c_method c = m_pkjwt).
  Proof.
    intros st rq c H Hp. apply authenticate_ok_iff in H.
    destruct H as [[Ht [i [s [Hpr [Hl [Hm Hk]]]]]] | [Ht [Ha [Hf [Hl [Ho [Hm Hv]]]]]]].
    - destruct (lookup_some _ _ _ Hl) as [Hin Hid]. split; [exact Hin|]. left. exists s. subst i. auto.
    - destruct (lookup_some _ _ _ Hl) as [Hin _]. split; [exact Hin|]. now right.
  Qed.

  (* The enumerated bad presentations, each with the class the code answers. *)
  Theorem unknown_client_refused : forall st rq i s,
    r_atype rq = "" -> presents rq i s -> lookup st i = None ->
    authenticate cmp st rq = AErr EInvalidClient.
  Proof.
    intros st rq i s Ht Hp Hl. unfold authenticate. rewrite Ht. simpl.
    apply creds_presents in Hp. now rewrite Hp, Hl.
  Qed.

  Theorem wrong_secret_refused : forall st rq i s c,
    r_atype rq = "" -> presents rq i s -> lookup st i = Some c -> c_public c = false ->
    ~ knows c s -> authenticate cmp st rq = AErr EInvalidClient.
  Proof.
    intros st rq i s c Ht Hp Hl Hpub Hk. unfold authenticate. rewrite Ht. simpl.
    apply creds_presents in Hp. rewrite Hp, Hl.
    destruct (method_violation c rq); [reflexivity|]. rewrite Hpub.
    destruct (check_secret cmp c s) eqn:E; [|reflexivity].
    apply check_secret_knows in E. contradiction.
  Qed.

  Theorem disallowed_method_refused : forall st rq i s c,
    r_atype rq = "" -> presents rq i s -> lookup st i = Some c -> ~ method_permits c rq ->
    authenticate cmp st rq = AErr EInvalidClient.
  Proof.
    intros st rq i s c Ht Hp Hl Hm. unfold authenticate. rewrite Ht. simpl.
    apply creds_presents in Hp. rewrite Hp, Hl.
    destruct (method_violation c rq) eqn:E; [reflexivity|].
    apply method_violation_permits in E. contradiction.
  Qed.

  (* no usable credentials at all: no Basic header (absent or malformed) and no client_id in the
     body, or a Basic header whose components are not form-urlencoded *)
  Theorem no_credentials_refused : forall st rq,
    r_atype rq = "" -> (forall i s, ~ presents rq i s) ->
    authenticate cmp st rq = AErr EInvalidRequest.
  Proof.
    intros st rq Ht Hn. unfold authenticate. rewrite Ht. simpl.
    destruct (creds rq) as [e|[i s]] eqn:Ec.
    - unfold creds in Ec. destruct (r_hdr rq) as [|raw [i|] [s|]]; try (now inversion Ec).
      destruct (String.eqb (r_fid rq) ""); now inversion Ec.
    - apply creds_presents in Ec. now apply Hn in Ec.
  Qed.
End Spec.

(* non-vacuity: each way of being accepted is inhabited, and a wrong secret is refused *)
Definition ex_cmp (h s : string) : bool :=
  (String.eqb h "h-cur" && String.eqb s "cur") || (String.eqb h "h-rot" && String.eqb s "old").
Definition ex_conf : client := Cl "app" false true m_basic "h-cur" ["h-rot"].
Definition ex_pub : client := Cl "spa" true true m_none "" [].
Definition ex_pk : client := Cl "svc" false true m_pkjwt "" [].
Definition ex_store : list client := [ex_conf; ex_pub; ex_pk].
Definition ex_noas : assertion := As false None "" None false false false false.
Definition ex_as : assertion := As true (Some "svc") "svc" (Some "svc") true true false true.

Example ex_basic_current :
  authenticate ex_cmp ex_store (Rq (HBasic "cur" (Some "app") (Some "cur")) "" "" "" false ex_noas) = AOk ex_conf.
Proof. reflexivity. Qed.
Example ex_basic_rotated :
  authenticate ex_cmp ex_store (Rq (HBasic "old" (Some "app") (Some "old")) "" "" "" false ex_noas) = AOk ex_conf.
Proof. reflexivity. Qed.
Example ex_wrong_secret :
  authenticate ex_cmp ex_store (Rq (HBasic "curx" (Some "app") (Some "curx")) "" "" "" false ex_noas) = AErr EInvalidClient.
Proof. reflexivity. Qed.
Example ex_post_not_permitted :
  authenticate ex_cmp ex_store (Rq HNone "app" "cur" "" false ex_noas) = AErr EInvalidClient.
Proof. reflexivity. Qed.
Example ex_public :
  authenticate ex_cmp ex_store (Rq HNone "spa" "" "" false ex_noas) = AOk ex_pub.
Proof. reflexivity. Qed.
Example ex_assertion :
  authenticate ex_cmp ex_store (Rq HNone "" "" jwt_bearer_type true ex_as) = AOk ex_pk.
Proof. reflexivity. Qed.
Example ex_by_secret_inhabited : by_secret ex_cmp ex_store (Rq (HBasic "cur" (Some "app") (Some "cur")) "" "" "" false ex_noas) ex_conf.
Proof. pose proof ex_basic_current as E. apply authenticate_ok_iff in E. destruct E as [H|[H _]]; [exact H|discriminate H]. Qed.

(* ------------------------------------------------------------------ endpoints *)

Local Arguments responsible : simpl never.
Local Arguments is_cc : simpl never.
Local Arguments skip_eval : simpl never.
Local Arguments String.eqb : simpl never.

Lemma responsible_exact : forall h gts, responsible h gts = true -> gts = [th_grant h].
Proof.
  intros h gts. unfold responsible, args_exact_one.
  destruct gts as [|x [|y r]]; try easy. intros H. apply String.eqb_eq in H. now subst.
Qed.

Definition no_skipper (switch : bool) (hs : list th) (gts : list string) : Prop :=
  forall h, In h hs -> responsible h gts = true -> skip_eval switch h = false.

(* When authentication failed and no responsible handler may skip it, the loop calls no handler
   and returns the authentication error (or invalid_request when no handler is responsible). *)
Lemma token_loop_gate : forall switch hs i gts e houts found,
  no_skipper switch hs gts ->
  snd (token_loop switch hs i gts (AErr e) houts found) = [] /\
  (fst (token_loop switch hs i gts (AErr e) houts found) = TErr e \/
   ((forall h, In h hs -> responsible h gts = false) /\
    fst (token_loop switch hs i gts (AErr e) houts found) = (if found then TOk else TErr EInvalidRequest))).
Proof.
  intros switch hs. induction hs as [|h r IH]; intros i gts e houts found Hn; simpl.
  - split; [reflexivity|]. right. split; [easy|reflexivity].
  - destruct (responsible h gts) eqn:Er; simpl.
    + unfold gate. rewrite (Hn h (or_introl eq_refl) Er). simpl. split; [reflexivity|now left].
    + assert (Hn' : no_skipper switch r gts) by (intros h' Hin; apply Hn; now right).
      destruct (IH (S i) gts e houts found Hn') as [A [B|[B C]]].
      * split; [exact A|now left].
      * split; [exact A|]. right. split; [|exact C].
        intros h' [<-|Hin]; [exact Er|now apply B].
Qed.

(* Whenever the loop calls a handler, authentication succeeded or a responsible handler skips. *)
Lemma token_loop_calls : forall switch hs i gts a houts found,
  snd (token_loop switch hs i gts a houts found) <> [] ->
  (exists c, a = AOk c) \/ exists h, In h hs /\ responsible h gts = true /\ skip_eval switch h = true.
Proof.
  intros switch hs. induction hs as [|h r IH]; intros i gts a houts found; simpl; [easy|].
  destruct (responsible h gts) eqn:Er; simpl.
  - destruct a as [c|e]; [intros _; left; now exists c|].
    unfold gate. destruct (skip_eval switch h) eqn:Es; simpl; [|easy].
    intros _. right. exists h. auto.
  - intros H. destruct (IH _ _ _ _ _ H) as [A|[h' [B [C D]]]]; [now left|].
    right. exists h'. auto.
Qed.

(* a public client in the loop of a table that routes client_credentials to the
   client-credentials handler (and to nothing else) is refused by that handler *)
Lemma token_loop_public_cc : forall switch hs i c houts found,
  c_public c = true ->
  (forall h, In h hs -> responsible h ["client_credentials"] = true -> is_cc h = true) ->
  (exists h, In h hs /\ responsible h ["client_credentials"] = true) ->
  fst (token_loop switch hs i ["client_credentials"] (AOk c) houts found) = TErr (EOther "invalid_grant").
Proof.
  intros switch hs. induction hs as [|h r IH]; intros i c houts found Hp Hcc [h0 [Hin Hr]]; simpl; [easy|].
  destruct (responsible h ["client_credentials"]) eqn:Er; simpl.
  - rewrite (Hcc h (or_introl eq_refl) Er). simpl. rewrite Hp. reflexivity.
  - destruct Hin as [<-|Hin]; [congruence|].
    apply IH; auto.
    + intros h' Hin'. apply Hcc. now right.
    + exists h0. auto.
Qed.

Section EndpointTheorems.
  Variable cmp : string -> string -> bool.
  Variable st : list client.

  (* token endpoint: a failed authentication and no responsible handler that may skip it *)
  Theorem token_rejects_before_handlers : forall switch hs rq g houts e,
    authenticate cmp st rq = AErr e ->
    no_skipper switch hs (grant_types g) ->
    let o := token_endpoint cmp st switch hs rq g houts in
    ob_calls o = [] /\ ob_client o = "" /\
    (ob_res o = ecode_str e \/ ob_res o = "invalid_request").
  Proof.
    intros switch hs rq g houts e Ha Hn. unfold token_endpoint.
    destruct (grant_types g) as [|g0 gr] eqn:Eg; simpl; [auto|].
    rewrite Ha.
    destruct (token_loop_gate switch hs 0 (g0 :: gr) e houts false Hn) as [A B].
    destruct (token_loop switch hs 0 (g0 :: gr) (AErr e) houts false) as [t calls] eqn:El.
    simpl in *. subst calls. simpl. repeat split; auto.
    destruct B as [B|[_ B]]; subst t; simpl; auto.
  Qed.

  (* token endpoint: a handler runs only after successful authentication, or because a
     responsible handler's CanSkipClientAuth says so; it runs in the name of the authenticated client *)
  Theorem token_handler_needs_auth : forall switch hs rq g houts,
    let o := token_endpoint cmp st switch hs rq g houts in
    ob_calls o <> [] ->
    (exists c, authenticate cmp st rq = AOk c /\ ob_client o = c_id c) \/
    (ob_client o = "" /\ exists h, In h hs /\ responsible h (grant_types g) = true /\ skip_eval switch h = true).
  Proof.
    intros switch hs rq g houts. unfold token_endpoint.
    destruct (grant_types g) as [|g0 gr] eqn:Eg; simpl; [easy|].
    destruct (token_loop switch hs 0 (g0 :: gr) (authenticate cmp st rq) houts false) as [t calls] eqn:El.
    simpl. intros Hc.
    assert (Hs : snd (token_loop switch hs 0 (g0 :: gr) (authenticate cmp st rq) houts false) <> []) by now rewrite El.
    destruct (authenticate cmp st rq) as [c|e] eqn:Ea.
    - left. exists c. split; [reflexivity|]. destruct calls; [easy|reflexivity].
    - right. destruct (token_loop_calls _ _ _ _ _ _ _ Hs) as [[c X]|X]; [easy|].
      split; [now destruct calls|exact X].
  Qed.

  (* the token endpoint answers "" (accepted) only if some handler ran *)
  Lemma token_loop_ok_calls : forall switch hs i gts a houts,
    fst (token_loop switch hs i gts a houts false) = TOk -> snd (token_loop switch hs i gts a houts false) <> [].
  Proof.
    intros switch hs. induction hs as [|h r IH]; intros i gts a houts; simpl; [easy|].
    destruct (responsible h gts); simpl; [|apply IH].
    destruct (gate switch h a); [easy|].
    destruct (if is_cc h then cc_handle (client_of a) else hout houts i).
    - destruct (token_loop switch r (S i) gts a houts true). easy.
    - destruct (token_loop switch r (S i) gts a houts false). easy.
    - easy.
  Qed.

  Theorem revoke_rejects_before_handlers : forall n rq houts e,
    authenticate cmp st rq = AErr e ->
    revoke_endpoint cmp st n rq houts = Obs (ecode_str e) "" [].
  Proof. intros n rq houts e Ha. unfold revoke_endpoint. now rewrite Ha. Qed.

  Theorem par_rejects : forall rq u e,
    authenticate cmp st rq = AErr e -> par_endpoint cmp st rq u = Obs (par_err e) "" [].
  Proof. intros rq u e Ha. unfold par_endpoint. now rewrite Ha. Qed.

  Theorem device_rejects : forall rq e,
    authenticate cmp st rq = AErr e -> device_endpoint cmp st rq = Obs (ecode_str e) "" [].
  Proof. intros rq e Ha. unfold device_endpoint. now rewrite Ha. Qed.

  (* revocation and device authorization act in the name of the authenticated client only *)
  Theorem revoke_acts_as_authenticated : forall n rq houts,
    let o := revoke_endpoint cmp st n rq houts in
    (ob_calls o <> [] \/ ob_res o = "") ->
    exists c, authenticate cmp st rq = AOk c /\ (ob_calls o <> [] -> ob_client o = c_id c).
  Proof.
    intros n rq houts. unfold revoke_endpoint.
    destruct (authenticate cmp st rq) as [c|e] eqn:Ea.
    - intros _. exists c. split; [reflexivity|].
      destruct (rev_loop n 0 houts false) as [t calls]. simpl. now destruct calls.
    - simpl. intros [H|H]; [easy|]. destruct e; simpl in H; try discriminate H.
      subst. exfalso. revert Ea. clear. intros Ea. apply authenticate_err_class in Ea.
      destruct Ea as [X|[X|[X _]]]; discriminate X.
  Qed.

  Theorem device_acts_as_authenticated : forall rq,
    let o := device_endpoint cmp st rq in
    ob_res o = "" ->
    exists c, authenticate cmp st rq = AOk c /\ ob_client o = c_id c /\ r_fid rq = c_id c.
  Proof.
    intros rq. unfold device_endpoint.
    destruct (authenticate cmp st rq) as [c|e] eqn:Ea.
    - destruct (String.eqb (c_id c) (r_fid rq)) eqn:E; simpl; [|easy].
      intros _. exists c. apply String.eqb_eq in E. auto.
    - simpl. intros H. exfalso. apply authenticate_err_class in Ea.
      destruct Ea as [X|[X|[X _]]]; subst e; discriminate H.
  Qed.

  (* PAR: accepted only after successful authentication, and the pushed request is the
     authenticated client's *)
  Theorem par_acts_as_authenticated : forall rq u,
    let o := par_endpoint cmp st rq u in
    ob_res o = "" ->
    exists c, authenticate cmp st rq = AOk c /\ ob_client o = c_id c.
  Proof.
    intros rq u. unfold par_endpoint.
    destruct (authenticate cmp st rq) as [c|e] eqn:Ea.
    2: { simpl. intros H. exfalso. apply authenticate_err_class in Ea.
         destruct Ea as [X|[X|[X _]]]; subst e; discriminate H. }
    destruct u; [easy|].
    destruct (lookup st (if nonempty (r_fid rq) then r_fid rq else c_id c)) as [c'|] eqn:El; [|easy].
    destruct (String.eqb (c_id c') (c_id c)) eqn:E; [|easy].
    simpl. intros _. exists c. split; [reflexivity|]. now apply String.eqb_eq.
  Qed.

  (* a body client_id naming another registered client is refused *)
  Theorem par_other_client_refused : forall rq c c',
    authenticate cmp st rq = AOk c -> r_fid rq <> "" -> lookup st (r_fid rq) = Some c' ->
    c_id c' <> c_id c ->
    par_endpoint cmp st rq false = Obs "invalid_request" "" [].
  Proof.
    intros rq c c' Ha Hf Hl Hne. unfold par_endpoint. rewrite Ha.
    apply nonempty_true in Hf. rewrite Hf, Hl.
    apply String.eqb_neq in Hne. now rewrite Hne.
  Qed.
End EndpointTheorems.

(* ------------------------------------------------------------------ the handler table *)
Lemma table_ok_skip : forall t switch h gts,
  table_ok t = true -> In h t -> responsible h gts = true -> skip_eval switch h = true ->
  switch = true /\ gts = [jwt_bearer_grant].
Proof.
  intros t switch h gts Ht Hin Hr Hs. unfold table_ok in Ht.
  apply andb_true_iff in Ht. destruct Ht as [Ht _]. apply andb_true_iff in Ht. destruct Ht as [Ht _].
  rewrite forallb_forall in Ht. specialize (Ht h Hin). unfold entry_ok in Ht. unfold skip_eval in Hs.
  apply responsible_exact in Hr.
  destruct (th_skip h); try easy. apply String.eqb_eq in Ht. rewrite Ht in Hr. auto.
Qed.

(* "a handler processes a request without client authentication only if it explicitly allows
   that": over any table that passes [table_ok], a handler of the token endpoint runs without an
   authenticated client only for grant_type = jwt-bearer with the switch turned on *)
Theorem only_the_switch_skips : forall cmp st switch hs rq g houts,
  table_ok hs = true ->
  let o := token_endpoint cmp st switch hs rq g houts in
  ob_calls o <> [] ->
  (exists c, authenticate cmp st rq = AOk c /\ ob_client o = c_id c) \/
  (ob_client o = "" /\ switch = true /\ grant_types g = [jwt_bearer_grant]).
Proof.
  intros cmp st switch hs rq g houts Ht o Hc.
  destruct (token_handler_needs_auth cmp st switch hs rq g houts Hc) as [A|[A [h [B [C D]]]]]; [now left|].
  right. split; [exact A|]. eapply table_ok_skip; eauto.
Qed.

Lemma table_no_skipper : forall t switch gts,
  table_ok t = true -> (switch = false \/ gts <> [jwt_bearer_grant]) -> no_skipper switch t gts.
Proof.
  intros t switch gts Ht Hs h Hin Hr. destruct (skip_eval switch h) eqn:E; [|reflexivity].
  destruct (table_ok_skip _ _ _ _ Ht Hin Hr E) as [A B]. destruct Hs; congruence.
Qed.

(* failure at the token endpoint: error returned before any handler, nothing processed *)
Theorem token_failure_guarded : forall cmp st switch hs rq g houts e,
  table_ok hs = true ->
  authenticate cmp st rq = AErr e ->
  (switch = false \/ grant_types g <> [jwt_bearer_grant]) ->
  let o := token_endpoint cmp st switch hs rq g houts in
  ob_calls o = [] /\ ob_client o = "" /\ (ob_res o = ecode_str e \/ ob_res o = "invalid_request").
Proof.
  intros. apply token_rejects_before_handlers; auto. now apply table_no_skipper.
Qed.

(* public clients never obtain tokens through client_credentials: the request phase ends with
   invalid_grant, so NewAccessResponse (which mints the token) is never reached *)
Theorem public_never_client_credentials : forall cmp st switch hs rq g houts c,
  table_ok hs = true ->
  authenticate cmp st rq = AOk c -> c_public c = true ->
  grant_types g = ["client_credentials"] ->
  ob_res (token_endpoint cmp st switch hs rq g houts) = "invalid_grant".
Proof.
  intros cmp st switch hs rq g houts c Ht Ha Hp Hg. unfold token_endpoint. rewrite Hg, Ha.
  assert (Hne : fst (token_loop switch hs 0 ["client_credentials"] (AOk c) houts false) = TErr (EOther "invalid_grant")).
  { unfold table_ok in Ht. apply andb_true_iff in Ht. destruct Ht as [Ht H3].
    apply andb_true_iff in Ht. destruct Ht as [_ H2].
    apply token_loop_public_cc; auto.
    - intros h Hin Hr. rewrite forallb_forall in H3. specialize (H3 h Hin).
      apply responsible_exact in Hr. inversion Hr as [Hg']. rewrite <- Hg' in H3.
      simpl in H3. exact H3.
    - apply existsb_exists in H2. destruct H2 as [h [Hin Hh]]. apply andb_true_iff in Hh.
      destruct Hh as [_ Hh]. apply String.eqb_eq in Hh. exists h. split; [exact Hin|].
      unfold responsible. simpl. rewrite Hh. reflexivity. }
  destruct (token_loop switch hs 0 ["client_credentials"] (AOk c) houts false) as [t calls].
  simpl in *. now subst t.
Qed.

(* a client that failed authentication does not get them either (no handler may skip for this grant) *)
Theorem unauthenticated_never_client_credentials : forall cmp st switch hs rq g houts e,
  table_ok hs = true ->
  authenticate cmp st rq = AErr e -> grant_types g = ["client_credentials"] ->
  ob_calls (token_endpoint cmp st switch hs rq g houts) = [].
Proof.
  intros cmp st switch hs rq g houts e Ht Ha Hg.
  apply (token_failure_guarded cmp st switch hs rq g houts e Ht Ha).
  right. rewrite Hg. unfold jwt_bearer_grant. easy.
Qed.

(* ------------------------------------------------------------------ the two repaired defects, as examples *)

(* Before commit 59b9417 the model (like the code) built the pushed request for the confidential
   client o although only t had authenticated; now the same request is refused. *)
Definition wit_cmp (h s : string) : bool := String.eqb h "hash-t" && String.eqb s "secret-t".
Definition wit_t : client := Cl "t" false false "" "hash-t" [].
Definition wit_o : client := Cl "o" false false "" "hash-o" [].
Definition wit_st : list client := [wit_t; wit_o].
Definition wit_rq : request :=
  Rq (HBasic "secret-t" (Some "t") (Some "secret-t")) "o" "" "" false
     (As false None "" None false false false false).

Example par_other_client_example :
  authenticate wit_cmp wit_st wit_rq = AOk wit_t /\
  par_endpoint wit_cmp wit_st wit_rq false = Obs "invalid_request" "" [].
Proof. split; reflexivity. Qed.

(* Before commit 37f391e a correctly signed assertion with unacceptable time claims was answered
   with a plain error ("error" / 500); now it is invalid_client. *)
Example time_invalid_assertion_example :
  authenticate wit_cmp [Cl "svc" false true m_pkjwt "" []]
    (Rq HNone "" "" jwt_bearer_type true (As true (Some "svc") "svc" (Some "svc") false true false true))
  = AErr EInvalidClient.
Proof. reflexivity. Qed.
