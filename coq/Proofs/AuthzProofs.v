(* Lemmas about the authorization-endpoint model (Model/Authz.v) for property C13.
   Part 1: Arguments.Matches is equality of duplicate-free sets (ASCII case-insensitively).
   Part 2: what acceptance by NewAuthorizeRequest implies.
   Part 3: when a request object's parameters are merged into the request.
   The handler loop and the writers are treated in Proofs/AuthzHandlers.v. *)
From FositeModel Require Import Base.Str Model.Scope Model.Authz.

(* ------------------------------------------------------------------ basics *)
Lemma mem_In x l : mem x l = true <-> In x l.
Proof.
  induction l as [|y r IH]; cbn; [split; [discriminate|tauto]|].
  destruct (String.eqb_spec x y) as [->|Hne]; [split; auto|].
  rewrite IH. split; [auto|]. intros [H|H]; [congruence|assumption].
Qed.

Lemma mem_false x l : mem x l = false <-> ~ In x l.
Proof. rewrite <- mem_In. destruct (mem x l); split; congruence. Qed.

Lemma in_slice_ci_In x l : in_slice_ci x l = true <-> In (lower x) (map lower l).
Proof.
  induction l as [|y r IH]; cbn; [split; [discriminate|tauto]|].
  destruct (String.eqb_spec (lower y) (lower x)) as [E|Hne]; [split; auto|].
  rewrite IH. split; [auto|]. intros [H|H]; [congruence|assumption].
Qed.

(* ------------------------------------------------------------------ Part 1: Matches *)
Fixpoint add_all (items found : list string) : list string :=
  match items with
  | [] => found
  | i :: r => add_all r (if mem i found then found else i :: found)
  end.

Lemma matches_loop_eq r items found :
  matches_loop r items found =
  forallb (fun i => in_slice_ci i r) items && Nat.eqb (List.length (add_all items found)) (List.length r).
Proof.
  revert found. induction items as [|i rest IH]; intros found; cbn; [reflexivity|].
  destruct (in_slice_ci i r); cbn; [apply IH|reflexivity].
Qed.

Lemma add_all_length_le items found :
  List.length (add_all items found) <= List.length items + List.length found.
Proof.
  revert found. induction items as [|i r IH]; intros found; cbn; [lia|].
  destruct (mem i found); [specialize (IH found); lia|].
  specialize (IH (i :: found)). cbn in IH. lia.
Qed.

Lemma add_all_length_eq items found :
  List.length (add_all items found) = List.length items + List.length found <->
  NoDup items /\ (forall x, In x items -> ~ In x found).
Proof.
  revert found. induction items as [|i r IH]; intros found; cbn.
  - split; [intros _; split; [constructor|tauto]|reflexivity].
  - destruct (mem i found) eqn:Em.
    + apply mem_In in Em. pose proof (add_all_length_le r found) as Hle. split; [lia|].
      intros [_ Hd]. exfalso. apply (Hd i); auto.
    + apply mem_false in Em. specialize (IH (i :: found)). cbn [List.length] in IH.
      replace (S (List.length r + List.length found)) with (List.length r + S (List.length found)) by lia.
      rewrite IH. split.
      * intros [Hnd Hd]. split.
        -- constructor; [|assumption]. intros Hi. apply (Hd i Hi). now left.
        -- intros x [<-|Hx]; [assumption|]. intros Hf. apply (Hd x Hx). now right.
      * intros [Hnd Hd]. inversion Hnd as [|? ? Hni Hnd']; subst. split; [assumption|].
        intros x Hx [<-|Hf]; [contradiction|]. apply (Hd x); auto.
Qed.

(* the Go loop, characterised: same length, every item occurs (case-insensitively) among the
   arguments, and the items are pairwise different strings *)
Theorem args_matches_spec r items :
  args_matches r items = true <->
  List.length r = List.length items /\ (forall i, In i items -> in_slice_ci i r = true) /\ NoDup items.
Proof.
  unfold args_matches. destruct (Nat.eqb_spec (List.length r) (List.length items)) as [El|Hl]; cbn [negb].
  - rewrite matches_loop_eq, andb_true_iff, forallb_forall, Nat.eqb_eq.
    pose proof (add_all_length_eq items []) as H. cbn [List.length] in H. rewrite Nat.add_0_r in H.
    split.
    + intros [Hin Hlen]. repeat split; [assumption..|]. apply H. congruence.
    + intros [_ [Hin Hnd]]. split; [assumption|]. rewrite El. apply H. split; [assumption|]. intros x _ [].
  - split; [discriminate|]. intros [H _]. contradiction.
Qed.

(* "as a set": when the registered combination is duplicate-free (case-insensitively), Matches
   holds exactly when the requested response types are duplicate-free too and both have the same
   members *)
Theorem args_matches_sets r items :
  NoDup (map lower items) ->
  (args_matches r items = true <->
   NoDup (map lower r) /\ (forall x, In x (map lower r) <-> In x (map lower items))).
Proof.
  intros Hnd. rewrite args_matches_spec. split.
  - intros [Hl [Hin _]].
    assert (Hincl : incl (map lower items) (map lower r)).
    { intros x Hx. apply in_map_iff in Hx as [i [<- Hi]]. apply in_slice_ci_In. auto. }
    assert (Hlen : List.length (map lower r) <= List.length (map lower items)) by (rewrite !map_length; lia).
    split.
    + eapply NoDup_incl_NoDup; eassumption.
    + intros x. split; [|apply Hincl]. apply NoDup_length_incl; assumption.
  - intros [Hndr Heq]. repeat split.
    + assert (H1 : List.length (map lower r) <= List.length (map lower items))
        by (apply NoDup_incl_length; [assumption|intros x; apply Heq]).
      assert (H2 : List.length (map lower items) <= List.length (map lower r))
        by (apply NoDup_incl_length; [assumption|intros x; apply Heq]).
      rewrite !map_length in *. lia.
    + intros i Hi. apply in_slice_ci_In, Heq, in_map. assumption.
    + eapply NoDup_map_inv. eassumption.
Qed.

(* the quirk behind the hypothesis above: a registered combination that repeats a value in another
   case matches a request that names something else *)
Example args_matches_case_quirk : args_matches ["code"; "zzz"] ["code"; "CODE"] = true.
Proof. reflexivity. Qed.

Example args_matches_examples :
  args_matches ["token"; "code"] ["code"; "token"] = true /\
  args_matches ["code"; "code"] ["code"] = false /\
  args_matches ["code"; "code"] ["code"; "token"] = false /\
  args_matches ["CODE"; "token"] ["code"; "token"] = true.
Proof. repeat split. Qed.

(* ------------------------------------------------------------------ Part 2: NewAuthorizeRequest *)
Lemma min_entropy_pos cfg : 1 <= min_entropy cfg.
Proof. unfold min_entropy. destruct (Nat.eqb_spec (cf_min_raw cfg) 0); lia. Qed.

(* what the validation after the request-object step establishes *)
Record validated (cfg : config) (cl : client) (rq : request) (f : form) (ar : areq) : Prop := {
  v_rtypes : a_rtypes ar = fields (fget "response_type" f);
  v_rtypes_ne : a_rtypes ar <> [];
  v_registered : rtypes_registered cl (a_rtypes ar) = true;
  v_mode_known : known_mode (fget "response_mode" f) = true;
  v_mode_permitted : rmode_permitted cl (fget "response_mode" f) = true;
  v_rmode : a_rmode ar = if String.eqb (fget "response_mode" f) ""
                         then (if args_exact_one (a_rtypes ar) "code" then "query" else "fragment")
                         else fget "response_mode" f;
  v_state_len : min_entropy cfg <= String.length (a_state ar);
  v_scopes : a_scopes ar = fields (fget "scope" f);
  v_scopes_ok : scopes_ok cfg cl (a_scopes ar) = true;
  v_openid_redirect : args_has (a_scopes ar) ["openid"] = true -> fget "redirect_uri" f <> "";
  v_redir : exists e, a_redir ar = Some e /\ find_redir (fget "redirect_uri" f) (q_redirs rq) = Some e
                      /\ rv_match e = true /\ rv_valid e = true;
  v_registration : fget "registration" f = ""
}.

Lemma fallback_mode_frame ar :
  a_form (fallback_mode ar) = a_form ar /\ a_state (fallback_mode ar) = a_state ar /\
  a_cl (fallback_mode ar) = a_cl ar /\ a_scopes (fallback_mode ar) = a_scopes ar /\
  a_granted (fallback_mode ar) = a_granted ar /\ a_redir (fallback_mode ar) = a_redir ar /\
  a_rtypes (fallback_mode ar) = a_rtypes ar /\ a_handled (fallback_mode ar) = a_handled ar.
Proof.
  unfold fallback_mode, set_default_mode.
  destruct (String.eqb (a_rmode ar) ""); [destruct (args_exact_one (a_rtypes ar) "code")|]; cbn; repeat split; reflexivity.
Qed.

Lemma fallback_mode_rmode ar :
  a_rmode (fallback_mode ar) =
  if String.eqb (a_rmode ar) "" then (if args_exact_one (a_rtypes ar) "code" then "query" else "fragment") else a_rmode ar.
Proof.
  unfold fallback_mode, set_default_mode.
  destruct (String.eqb (a_rmode ar) "") eqn:E; [destruct (args_exact_one (a_rtypes ar) "code")|]; cbn; rewrite ?E; reflexivity.
Qed.

Lemma nar_validate_ok cfg cl rq ar2 f ar :
  nar_validate cfg cl rq ar2 f = (ar, None) ->
  validated cfg cl rq f ar /\
  a_form ar = a_form ar2 /\ a_state ar = a_state ar2 /\ a_cl ar = a_cl ar2 /\
  a_granted ar = a_granted ar2 /\ a_handled ar = a_handled ar2.
Proof.
  unfold nar_validate.
  destruct (known_mode (fget "response_mode" f)) eqn:Ekm; cbn [negb]; [|discriminate].
  destruct (String.eqb (fget "redirect_uri" f) "" && args_has (fields (fget "scope" f)) ["openid"]) eqn:Eor; [discriminate|].
  destruct (find_redir (fget "redirect_uri" f) (q_redirs rq)) as [e|] eqn:Efr; [|discriminate].
  destruct (rv_match e) eqn:Erm; cbn [negb]; [|discriminate].
  destruct (rv_valid e) eqn:Erv; cbn [negb]; [|discriminate].
  destruct (scopes_ok cfg cl (fields (fget "scope" f))) eqn:Eso; cbn [negb]; [|discriminate].
  destruct (String.eqb (fget "registration" f) "") eqn:Ereg; cbn [negb]; [|discriminate].
  destruct (fields (fget "response_type" f)) as [|t0 ts] eqn:Erts; [discriminate|].
  destruct (rtypes_registered cl (t0 :: ts)) eqn:Err; cbn [negb]; [|discriminate].
  destruct (rmode_permitted cl (fget "response_mode" f)) eqn:Epm; cbn [negb]; [|discriminate].
  set (ar6 := with_rtypes _ _).
  destruct (Nat.ltb_spec (String.length (a_state (fallback_mode ar6))) (min_entropy cfg)) as [Hlt|Hge]; [discriminate|].
  intros H. injection H as <-.
  apply String.eqb_eq in Ereg.
  assert (Hor : args_has (fields (fget "scope" f)) ["openid"] = true -> fget "redirect_uri" f <> "").
  { intros Ha Hr. rewrite Hr, Ha in Eor. discriminate. }
  destruct (fallback_mode_frame ar6) as [F1 [F2 [F3 [F4 [F5 [F6 [F7 F8]]]]]]].
  split; [constructor|repeat split]; rewrite ?fallback_mode_rmode, ?F1, ?F2, ?F3, ?F4, ?F5, ?F6, ?F7, ?F8;
    try reflexivity; try assumption.
  - now rewrite Erts.
  - discriminate.
  - now rewrite F2 in Hge.
  - exists e. repeat split; assumption.
Qed.

(* acceptance by NewAuthorizeRequest: the client exists; either the query's own parameters were
   validated, or those of a request object that [ro_process] allowed to be used *)
Theorem new_authorize_request_ok cfg lookup rq ar :
  new_authorize_request cfg lookup rq = (ar, None) ->
  exists cl f,
    lookup (fget "client_id" (q_form rq)) = Some cl /\ a_cl ar = Some cl /\
    (ro_process cl rq = RoSkip /\ f = q_form rq \/
     exists claims, ro_process cl rq = RoUse claims /\ f = ro_apply claims (q_form rq)) /\
    a_form ar = f /\ a_state ar = fget "state" f /\ a_granted ar = [] /\ a_handled ar = [] /\
    validated cfg cl rq f ar.
Proof.
  unfold new_authorize_request.
  destruct (negb (String.eqb (fget "request_uri" (q_form rq)) "") && has_prefix par_prefix (fget "request_uri" (q_form rq)));
    [discriminate|].
  destruct (lookup (fget "client_id" (q_form rq))) as [cl|] eqn:El; [|discriminate].
  destruct (ro_process cl rq) as [|claims|e] eqn:Ero; [| |discriminate]; intros H;
    apply nar_validate_ok in H as [Hv [Hf [Hs [Hc [Hg Hh]]]]]; cbn in Hf, Hs, Hc, Hg, Hh.
  - exists cl, (q_form rq). split; [reflexivity|]. split; [assumption|]. split; [left; split; [assumption|reflexivity]|].
    repeat (split; [assumption|]). assumption.
  - exists cl, (ro_apply claims (q_form rq)). split; [reflexivity|]. split; [assumption|].
    split; [right; exists claims; split; [assumption|reflexivity]|].
    repeat (split; [assumption|]). assumption.
Qed.

(* every path through NewAuthorizeRequest leaves State equal to the form's state parameter, and
   the form differs from the query only when a request object was accepted *)
Lemma nar_validate_frame cfg cl rq ar2 f ar r :
  nar_validate cfg cl rq ar2 f = (ar, r) ->
  a_form ar = a_form ar2 /\ a_state ar = a_state ar2 /\ a_cl ar = a_cl ar2.
Proof.
  unfold nar_validate.
  repeat match goal with
  | |- (if ?c then _ else _) = _ -> _ => destruct c
  | |- match ?c with _ => _ end = _ -> _ => destruct c
  end; intros H; injection H as <- _;
  repeat match goal with |- context [fallback_mode ?a] =>
    let F := fresh in destruct (fallback_mode_frame a) as [F [? [? _]]]; rewrite F; clear F end;
  cbn; repeat split; try reflexivity; try (etransitivity; [eassumption|reflexivity]).
Qed.

Theorem new_authorize_request_form cfg lookup rq ar r :
  new_authorize_request cfg lookup rq = (ar, r) ->
  a_state ar = fget "state" (a_form ar) /\
  (a_form ar = q_form rq \/
   exists cl claims, lookup (fget "client_id" (q_form rq)) = Some cl /\ ro_process cl rq = RoUse claims /\
                     a_form ar = ro_apply claims (q_form rq)).
Proof.
  unfold new_authorize_request.
  destruct (negb (String.eqb (fget "request_uri" (q_form rq)) "") && has_prefix par_prefix (fget "request_uri" (q_form rq))).
  { intros H. injection H as <- _. cbn. split; [reflexivity|now left]. }
  destruct (lookup (fget "client_id" (q_form rq))) as [cl|] eqn:El.
  2:{ intros H. injection H as <- _. cbn. split; [reflexivity|now left]. }
  destruct (ro_process cl rq) as [|claims|e] eqn:Ero.
  - intros H. apply nar_validate_frame in H as [Hf [Hs _]]. cbn in Hf, Hs. rewrite Hf, Hs. split; [reflexivity|now left].
  - intros H. apply nar_validate_frame in H as [Hf [Hs _]]. cbn in Hf, Hs. rewrite Hf, Hs. split; [reflexivity|].
    right. exists cl, claims. repeat split; assumption || reflexivity.
  - intros H. injection H as <- _. cbn. split; [reflexivity|now left].
Qed.

(* ------------------------------------------------------------------ Part 3: request objects *)

(* "signed with a key and algorithm registered for that client (unsigned only where the
   registration permits)" *)
Definition ro_key_ok (keys : list jwk) (j : jwt) : Prop :=
  j_alg j = "none" \/
  exists k rsa, In k keys /\ alg_family (j_alg j) = Some rsa /\ k_rsa k = rsa /\ k_use k = "sig" /\
                (j_kid j = "" \/ k_kid k = j_kid j) /\ j_signer j = Some (k_mat k).

Definition ro_alg_ok (cl : client) (j : jwt) : Prop := c_ro_alg cl = "" \/ c_ro_alg cl = j_alg j.

Lemma find_public_key_sound keys kid rsa k :
  find_public_key keys kid rsa = Some k ->
  In k keys /\ k_use k = "sig" /\ k_rsa k = rsa /\ (kid = "" \/ k_kid k = kid).
Proof.
  unfold find_public_key. destruct keys as [|k0 ks]; [discriminate|].
  intros H. apply find_some in H as [Hin Hp]. apply andb_true_iff in Hp as [Hu Hr].
  apply String.eqb_eq in Hu. apply Bool.eqb_prop in Hr.
  destruct (String.eqb_spec kid "") as [->|Hk].
  - repeat split; auto.
  - apply filter_In in Hin as [Hin Hkid]. apply String.eqb_eq in Hkid. repeat split; auto.
Qed.

Lemma ro_verify_sound cl keys ro claims :
  ro_verify cl keys ro = RoUse claims ->
  exists j, ro = Some (RoJwt j) /\ claims = j_claims j /\ j_claims_ok j = true /\
            ro_alg_ok cl j /\ ro_key_ok keys j.
Proof.
  unfold ro_verify. destruct ro as [[|j]|]; try discriminate.
  destruct (String.eqb_spec (c_ro_alg cl) "") as [Ea|Ea]; cbn [negb andb].
  - destruct (String.eqb_spec (j_alg j) "none") as [En|En].
    + destruct (j_claims_ok j) eqn:Ec; [|discriminate]. intros H. injection H as <-.
      exists j. repeat split; try assumption; try reflexivity; [now left|now left].
    + destruct (alg_family (j_alg j)) as [rsa|] eqn:Ef; [|discriminate].
      destruct (find_public_key keys (j_kid j) rsa) as [k|] eqn:Ek; [|discriminate].
      destruct (j_signer j) as [m|] eqn:Es; [|discriminate].
      destruct (Nat.eqb_spec m (k_mat k)) as [->|]; [|discriminate].
      destruct (j_claims_ok j) eqn:Ec; [|discriminate]. intros H. injection H as <-.
      apply find_public_key_sound in Ek as [Hin [Hu [Hr Hk]]].
      exists j. repeat split; try assumption; try reflexivity; [now left|]. right. exists k, rsa. repeat split; assumption.
  - destruct (String.eqb_spec (c_ro_alg cl) (j_alg j)) as [Eb|Eb]; cbn [negb]; [|discriminate].
    destruct (String.eqb_spec (j_alg j) "none") as [En|En].
    + destruct (j_claims_ok j) eqn:Ec; [|discriminate]. intros H. injection H as <-.
      exists j. repeat split; try assumption; try reflexivity; [now right|now left].
    + destruct (alg_family (j_alg j)) as [rsa|] eqn:Ef; [|discriminate].
      destruct (find_public_key keys (j_kid j) rsa) as [k|] eqn:Ek; [|discriminate].
      destruct (j_signer j) as [m|] eqn:Es; [|discriminate].
      destruct (Nat.eqb_spec m (k_mat k)) as [->|]; [|discriminate].
      destruct (j_claims_ok j) eqn:Ec; [|discriminate]. intros H. injection H as <-.
      apply find_public_key_sound in Ek as [Hin [Hu [Hr Hk]]].
      exists j. repeat split; try assumption; try reflexivity; [now right|]. right. exists k, rsa. repeat split; assumption.
Qed.

(* the conditions under which parameters of a request object may be used *)
Record ro_honourable (cl : client) (rq : request) (claims : form) : Prop := {
  h_openid : args_has (fields (fget "scope" (q_form rq))) ["openid"] = true;
  h_one : (fget "request" (q_form rq) = "" /\ fget "request_uri" (q_form rq) <> "") \/
          (fget "request" (q_form rq) <> "" /\ fget "request_uri" (q_form rq) = "");
  h_oidc : c_oidc cl = true;
  h_uri : fget "request_uri" (q_form rq) <> "" ->
          In (fget "request_uri" (q_form rq)) (c_req_uris cl) /\ q_fetch_ok rq = true;
  h_signed : exists keys j, c_jwks cl = Some keys /\ q_ro rq = Some (RoJwt j) /\ claims = j_claims j /\
                            j_claims_ok j = true /\ ro_alg_ok cl j /\ ro_key_ok keys j
}.

Theorem ro_process_sound cl rq claims :
  ro_process cl rq = RoUse claims -> ro_honourable cl rq claims.
Proof.
  unfold ro_process.
  destruct (args_has (fields (fget "scope" (q_form rq))) ["openid"]) eqn:Eo; cbn [negb]; [|discriminate].
  destruct (String.eqb_spec (fget "request" (q_form rq)) "") as [Er|Er];
  destruct (String.eqb_spec (fget "request_uri" (q_form rq)) "") as [Eu|Eu]; cbn [negb andb]; try discriminate.
  - destruct (c_oidc cl) eqn:Ec; cbn [negb]; [|discriminate].
    destruct (c_jwks cl) as [keys|] eqn:Ej; [|discriminate].
    destruct (mem (fget "request_uri" (q_form rq)) (c_req_uris cl)) eqn:Em; cbn [negb]; [|discriminate].
    destruct (q_fetch_ok rq) eqn:Ef; cbn [negb]; [|discriminate].
    intros H. apply ro_verify_sound in H as [j [H1 [H2 [H3 [H4 H5]]]]].
    constructor; auto.
    + intros _. split; [now apply mem_In|assumption].
    + exists keys, j. repeat split; assumption.
  - destruct (c_oidc cl) eqn:Ec; cbn [negb]; [|discriminate].
    destruct (c_jwks cl) as [keys|] eqn:Ej; [|discriminate].
    intros H. apply ro_verify_sound in H as [j [H1 [H2 [H3 [H4 H5]]]]].
    constructor; auto.
    + intros Hu. contradiction.
    + exists keys, j. repeat split; assumption.
Qed.

(* merging claims: a key the object names takes the object's value, every other key keeps the query's *)
Lemma fget_fmerge k claims f :
  fget k (fmerge claims f) =
  if existsb (fun kv => String.eqb (fst kv) k) claims then fget k claims else fget k f.
Proof.
  induction claims as [|[k' v] r IH]; cbn; [reflexivity|].
  rewrite (String.eqb_sym k' k). destruct (String.eqb k k'); cbn; [reflexivity|apply IH].
Qed.

Lemma fget_ro_apply k claims f :
  k <> "scope" ->
  fget k (ro_apply claims f) =
  if existsb (fun kv => String.eqb (fst kv) k) claims then fget k claims else fget k f.
Proof.
  intros Hk. unfold ro_apply, fset. cbn [fget].
  destruct (String.eqb_spec k "scope"); [contradiction|]. apply fget_fmerge.
Qed.

(* non-vacuity: a request object signed with a registered RSA key is used, one signed with a key
   the client never registered is not *)
Definition ex_client : client :=
  {| c_public := false; c_grants := ["authorization_code"]; c_rtypes := ["code"]; c_scopes := ["openid"];
     c_rm_iface := false; c_rmodes := []; c_oidc := true;
     c_jwks := Some [{| k_kid := "k1"; k_use := "sig"; k_rsa := true; k_mat := 1 |}];
     c_req_uris := []; c_ro_alg := "RS256" |}.
Definition ex_request (signer : nat) : request :=
  {| q_form := [("client_id", "c"); ("scope", "openid"); ("request", "<jwt>"); ("state", "from-the-query")];
     q_ro := Some (RoJwt {| j_alg := "RS256"; j_kid := "k1"; j_signer := Some signer; j_claims_ok := true;
                            j_claims := [("state", "from-the-object")] |});
     q_fetch_ok := false; q_redirs := [] |}.
Example ro_process_examples :
  ro_process ex_client (ex_request 1) = RoUse [("state", "from-the-object")] /\
  ro_process ex_client (ex_request 9) = RoErr "invalid_request_object".
Proof. split; reflexivity. Qed.
