(* C15 - concrete instances: the hypotheses of the theorems are satisfiable (non-vacuity); the
   witnesses of the two defects repaired by commit 3e32ae1 (exp = 0 accepted; replay inside the
   second named by exp, sequential and concurrent) with the verdicts of the repaired code
   (vm_compute).  Corollaries of the interleaving theorem for the concrete flows. *)
From FositeModel Require Import Base.Str Model.Scope Model.Assertion Proofs.JwtStore Proofs.AssertionProofs Proofs.JwtHistory.
Local Open Scope Z_scope.

Definition ex_tu : string := "https://as.example/token".
Definition ex_client : client :=
  {| c_id := "c0"; c_oidc := true; c_method := "private_key_jwt"; c_alg := "RS256";
     c_jwks := Some [{| k_kid := "k0"; k_use := "sig"; k_kty := KRsa; k_kp := 0 |}];
     c_grants := ["client_credentials"] |}.
Definition ex_world : world :=
  {| w_tus := [ex_tu]; w_clients := [ex_client];
     w_ikeys := [{| ik_iss := "https://idp.example"; ik_sub := "alice"; ik_kid := "ik0"; ik_kp := 1; ik_scopes := ["photos"; "users.*"] |}];
     w_bcfg := {| b_skip_auth := true; b_id_optional := false; b_iat_optional := false; b_max_ms := 0; b_strategy := SWildcard |} |}.

Definition t0 : Z := 946684800000.       (* 2000-01-01T00:00:00Z in ms *)
Definition start_at (t : Z) : state := {| now := t; jt := [] |}.

(* a client assertion for c0 signed with its registered key, exp = [e], jti = [j] *)
Definition ex_ca (j : string) (e : Z) : cassert :=
  {| ca_type := assertion_type; ca_empty := false; ca_form_cid := ""; ca_parse := true;
     ca_alg := "RS256"; ca_kid := "k0"; ca_ver := [0%nat];
     ca_iss := JStr "c0"; ca_sub := JStr "c0"; ca_aud := JList [Some "https://api.example"; Some ex_tu];
     ca_exp := JInt e; ca_iat := JAbsent; ca_nbf := JAbsent; ca_jti := JStr j |}.

Definition ex_ba (j : string) (e : Z) : bassert :=
  {| ba_empty := false; ba_parse := true; ba_claims_ok := true; ba_kid := ""; ba_ver := [1%nat];
     ba_iss := "https://idp.example"; ba_sub := "alice"; ba_aud := [ex_tu];
     ba_exp := Some e; ba_nbf := None; ba_iat := Some 946684800; ba_jti := j; ba_scopes := ["users.read"] |}.

(* ---- non-vacuity: both decision functions accept something, and refuse the replay *)
Example client_assertion_accepted_then_refused :
  snd (run ex_world (start_at t0) [OAuth (ex_ca "j1" 946684860); OAuth (ex_ca "j1" 946684860)])
  = [Acc "c0" ""; Rej EJtiKnown].
Proof. vm_compute. reflexivity. Qed.

Example bearer_accepted_then_refused :
  snd (run ex_world (start_at t0) [OGrant None (ex_ba "g1" 946684860); OTick 60000; OGrant None (ex_ba "g1" 946684860)])
  = [Acc "" "alice"; Acc "" ""; Rej EServerError].
Proof. vm_compute. reflexivity. Qed.

Example bearer_refused_after_exp :
  snd (run ex_world (start_at t0) [OGrant None (ex_ba "g1" 946684860); OTick 60001; OGrant None (ex_ba "g1" 946684860)])
  = [Acc "" "alice"; Acc "" ""; Rej EInvalidGrant].
Proof. vm_compute. reflexivity. Qed.

(* ---- former finding 1 (repaired by 3e32ae1): exp = 0 was taken for "no expiry" by MapClaims.Valid
   and then stored as the expiry of the jti.  The expiry instant is now also judged as the replay
   memory judges it: the old witness is refused, at every presentation *)
Example exp_zero_refused :
  snd (run ex_world (start_at t0) [OAuth (ex_ca "j1" 0); OAuth (ex_ca "j1" 0); OTick 86400000; OAuth (ex_ca "j1" 0)])
  = [Rej EInvalidClient; Rej EInvalidClient; Acc "" ""; Rej EInvalidClient].
Proof. vm_compute. reflexivity. Qed.

(* ... and leaves nothing in the replay memory *)
Example exp_zero_not_recorded :
  jt (fst (run ex_world (start_at t0) [OAuth (ex_ca "j1" 0)])) = [].
Proof. vm_compute. reflexivity. Qed.

(* ---- former finding 2 (repaired by 3e32ae1): during the second named by exp the client assertion
   passed MapClaims.Valid (now.Unix() <= exp) while the replay memory had already dropped its jti.
   The old witness: the replay half a second after the expiry instant is refused, as is every later one *)
Example replay_in_final_second_refused :
  snd (run ex_world (start_at t0)
         [OAuth (ex_ca "j1" 946684860); OTick 60000; OAuth (ex_ca "j1" 946684860);
          OTick 500; OAuth (ex_ca "j1" 946684860); OAuth (ex_ca "j1" 946684860); OTick 500; OAuth (ex_ca "j1" 946684860)])
  = [Acc "c0" ""; Acc "" ""; Rej EJtiKnown; Acc "" ""; Rej EInvalidClient; Rej EInvalidClient; Acc "" ""; Rej EInvalidClient].
Proof. vm_compute. reflexivity. Qed.

(* a first presentation inside the second named by exp, after the expiry instant, is refused too;
   at the expiry instant itself it is still accepted (once) *)
Example first_presentation_around_exp :
  snd (run ex_world (start_at t0) [OTick 60000; OAuth (ex_ca "j1" 946684860); OAuth (ex_ca "j1" 946684860); OTick 1; OAuth (ex_ca "j2" 946684860)])
  = [Acc "" ""; Acc "c0" ""; Rej EJtiKnown; Acc "" ""; Rej EInvalidClient].
Proof. vm_compute. reflexivity. Qed.

(* ---- interleavings *)
(* non-vacuity: three threads presenting one valid assertion, a schedule where all checks pass
   first: exactly one test-and-set wins *)
Example race_three_threads :
  let f := ca_flow [ex_tu] [ex_client] t0 (ex_ca "j1" 946684860) in
  let '(st, ts) := run_sched t0 ([], [(f, TStart); (f, TStart); (f, TStart)]) [0; 1; 2; 2; 0; 1]%nat in
  wins "j1" ts = 1%nat /\ map thread_result ts = [Some (Rej EJtiKnown); Some (Rej EJtiKnown); Some (Acc "c0" "")].
Proof. vm_compute. split; reflexivity. Qed.

(* the old witness of the concurrent form of finding 2: inside the second named by exp both
   simultaneous presentations are now refused before they reach the test-and-set *)
Example race_in_final_second_refused :
  let f := ca_flow [ex_tu] [ex_client] (t0 + 60500) (ex_ca "j1" 946684860) in
  let '(st, ts) := run_sched (t0 + 60500) ([], [(f, TStart); (f, TStart)]) [0; 0; 1; 1]%nat in
  wins "j1" ts = 0%nat /\ st = [] /\ map thread_result ts = [Some (Rej EInvalidClient); Some (Rej EInvalidClient)].
Proof. vm_compute. repeat split; reflexivity. Qed.

(* JWT-bearer grant: the hypothesis of the interleaving theorem always holds (the handler has
   already refused an assertion that is past the instant of its exp), so for any number of
   simultaneous grant requests, any assertions, any schedule, at most one consumes a given jti *)
Theorem bearer_race_once cfg tus iks nw st (reqs : list (string * list string * bassert)) sched j :
  (wins j (snd (run_sched nw (st, map (fun r => (ba_flow cfg tus iks nw (fst (fst r)) (snd (fst r)) (snd r), TStart)) reqs) sched)) <= 1)%nat.
Proof.
  rewrite <- (map_map (fun r => ba_flow cfg tus iks nw (fst (fst r)) (snd (fst r)) (snd r)) (fun f => (f, TStart))).
  apply at_most_one_winner. intros f e Hin Hp Hm.
  apply in_map_iff in Hin as [[[cl gr] b] [<- _]]. cbn [fst snd] in *.
  destruct (ba_flow_ok cfg tus iks nw cl gr b) as [[x Hx]|(k & e0 & Hfacts & Hflow)]; [congruence|].
  rewrite Hflow in Hm. cbn [f_mid] in Hm.
  destruct Hfacts as (_ & _ & _ & _ & _ & _ & _ & _ & Hspec). destruct Hspec as (_ & _ & Hle & _).
  destruct (forallb _ _); [|discriminate]. now injection Hm as <-.
Qed.

(* private_key_jwt: since fix 3e32ae1 the same holds unconditionally for client assertions: a thread
   reaches the test-and-set only with an exp whose instant has not passed *)
Lemma ca_flow_live tus clients nw a e : f_mid (ca_flow tus clients nw a) = inr e -> nw <= e * 1000.
Proof.
  destruct (ca_flow_pre tus clients nw a) as [[x Hx]|(cid & j0 & Hpre & _ & _ & Hm')].
  - unfold ca_flow in *. destruct (ca_pre tus clients nw a) as [y|[c j]]; cbn in *; [discriminate|discriminate].
  - rewrite Hm'. destruct (to_int64 (ca_exp a)) as [e0|]; [|discriminate].
    destruct (before_now nw e0) eqn:Hb; [discriminate|]. intros [= <-]. now apply not_before_iff.
Qed.

Theorem client_race_once tus clients nw st (asserts : list cassert) sched j :
  (wins j (snd (run_sched nw (st, map (fun a => (ca_flow tus clients nw a, TStart)) asserts) sched)) <= 1)%nat.
Proof.
  rewrite <- (map_map (fun a => ca_flow tus clients nw a) (fun f => (f, TStart))).
  apply at_most_one_winner. intros f e Hin Hp Hm.
  apply in_map_iff in Hin as [a [<- Hin]]. eapply ca_flow_live; eassumption.
Qed.

(* any mix of simultaneous client-assertion presentations and grant requests, any number, any
   schedule, any initial replay memory: at most one of them consumes a given jti *)
Inductive request :=
| RClient (a : cassert)
| RGrant (cl_id : string) (cl_grants : list string) (b : bassert).

Definition request_flow (w : world) (nw : Z) (r : request) : jflow :=
  match r with
  | RClient a => ca_flow (w_tus w) (w_clients w) nw a
  | RGrant cl gr b => ba_flow (w_bcfg w) (w_tus w) (w_ikeys w) nw cl gr b
  end.

Theorem race_once w nw st (reqs : list request) sched j :
  (wins j (snd (run_sched nw (st, map (fun r => (request_flow w nw r, TStart)) reqs) sched)) <= 1)%nat.
Proof.
  rewrite <- (map_map (request_flow w nw) (fun f => (f, TStart))).
  apply at_most_one_winner. intros f e Hin Hp Hm.
  apply in_map_iff in Hin as [[a|cl gr b] [<- _]]; cbn [request_flow] in *.
  - eapply ca_flow_live; eassumption.
  - destruct (ba_flow_ok (w_bcfg w) (w_tus w) (w_ikeys w) nw cl gr b) as [[x Hx]|(k & e0 & Hfacts & Hflow)]; [congruence|].
    rewrite Hflow in Hm. cbn [f_mid] in Hm.
    destruct Hfacts as (_ & _ & _ & _ & _ & _ & _ & _ & Hspec). destruct Hspec as (_ & _ & Hle & _).
    destruct (forallb _ _); [|discriminate]. now injection Hm as <-.
Qed.
