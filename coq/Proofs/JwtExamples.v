(* C15 - concrete instances: the hypotheses of the theorems are satisfiable (non-vacuity), and the
   two clauses that the faithful model does not satisfy are refuted by explicit witnesses
   (vm_compute).  Corollaries of the interleaving theorem for the two concrete flows. *)
From FositeModel Require Import Base.Str Model.Scope Model.Assertion Proofs.JwtStore Proofs.AssertionProofs Proofs.JwtHistory.
Local Open Scope Z_scope.

Definition ex_tu : string := "https://as.example/token".
Definition ex_client : client :=
  {| c_id := "c0"; c_oidc := true; c_method := "private_key_jwt"; c_alg := "RS256";
     c_jwks := Some [{| k_kid := "k0"; k_use := "sig"; k_kty := KRsa; k_kp := 0 |}];
     c_grants := ["client_credentials"] |}.
Definition ex_world : world :=
  {| w_tus := [ex_tu]; w_clients := [ex_client];
     w_ikeys := [{| ik_iss := "https://idp.example"; ik_sub := "alice"; ik_kid := "ik0"; ik_kp := 1; ik_scopes := ["photos"; "users.*"] |}];
     w_bcfg := {| b_skip_auth := true; b_id_optional := false; b_iat_optional := false; b_max_ms := 0; b_strategy := SWildcard |} |}.

Definition t0 : Z := 946684800000.       (* 2000-01-01T00:00:00Z in ms *)
Definition start_at (t : Z) : state := {| now := t; jt := [] |}.

(* a client assertion for c0 signed with its registered key, exp = [e], jti = [j] *)
Definition ex_ca (j : string) (e : Z) : cassert :=
  {| ca_type := assertion_type; ca_empty := false; ca_form_cid := ""; ca_parse := true;
     ca_alg := "RS256"; ca_kid := "k0"; ca_ver := [0%nat];
     ca_iss := JStr "c0"; ca_sub := JStr "c0"; ca_aud := JList [Some "https://api.example"; Some ex_tu];
     ca_exp := JInt e; ca_iat := JAbsent; ca_nbf := JAbsent; ca_jti := JStr j |}.

Definition ex_ba (j : string) (e : Z) : bassert :=
  {| ba_empty := false; ba_parse := true; ba_claims_ok := true; ba_kid := ""; ba_ver := [1%nat];
     ba_iss := "https://idp.example"; ba_sub := "alice"; ba_aud := [ex_tu];
     ba_exp := Some e; ba_nbf := None; ba_iat := Some 946684800; ba_jti := j; ba_scopes := ["users.read"] |}.

(* ---- non-vacuity: both decision functions accept something, and refuse the replay *)
Example client_assertion_accepted_then_refused :
  snd (run ex_world (start_at t0) [OAuth (ex_ca "j1" 946684860); OAuth (ex_ca "j1" 946684860)])
  = [Acc "c0" ""; Rej EJtiKnown].
Proof. vm_compute. reflexivity. Qed.

Example bearer_accepted_then_refused :
  snd (run ex_world (start_at t0) [OGrant None (ex_ba "g1" 946684860); OTick 60000; OGrant None (ex_ba "g1" 946684860)])
  = [Acc "" "alice"; Acc "" ""; Rej EServerError].
Proof. vm_compute. reflexivity. Qed.

Example bearer_refused_after_exp :
  snd (run ex_world (start_at t0) [OGrant None (ex_ba "g1" 946684860); OTick 60001; OGrant None (ex_ba "g1" 946684860)])
  = [Acc "" "alice"; Acc "" ""; Rej EInvalidGrant].
Proof. vm_compute. reflexivity. Qed.

(* ---- finding 1: exp = 0 is taken for "no expiry" by MapClaims.Valid (verifyExp with required =
   false) and then stored as the expiry of the jti: the assertion is accepted although it expired
   in 1970, and -- its jti being forgotten at once -- as often as one likes *)
Theorem client_assertion_unexpired_refuted :
  exists tus clients nw st a st' cid e,
    client_auth tus clients nw st a = (st', Acc cid "") /\
    to_int64 (ca_exp a) = Some e /\ (e + 1) * 1000 <= nw.
Proof.
  exists [ex_tu], [ex_client], t0, [], (ex_ca "j1" 0), [("j1", 0)], "c0", 0.
  split; [vm_compute; reflexivity|]. split; [reflexivity|]. vm_compute. discriminate.
Qed.

Example exp_zero_replayed_forever :
  snd (run ex_world (start_at t0) [OAuth (ex_ca "j1" 0); OAuth (ex_ca "j1" 0); OTick 86400000; OAuth (ex_ca "j1" 0)])
  = [Acc "c0" ""; Acc "c0" ""; Acc "" ""; Acc "c0" ""].
Proof. vm_compute. reflexivity. Qed.

(* ---- finding 2: during the second named by exp the client assertion is still unexpired
   (now.Unix() <= exp) while the replay memory has already dropped its jti (exp.Before(now)):
   one assertion is accepted twice *)
Theorem client_assertion_once_refuted :
  exists w s a d c,
    snd (run w s [OAuth a; OTick d; OAuth a]) = [Acc c ""; Acc "" ""; Acc c ""] /\
    to_int64 (ca_exp a) <> Some 0.
Proof.
  exists ex_world, (start_at t0), (ex_ca "j1" 946684860), 60500, "c0".
  split; [vm_compute; reflexivity|]. vm_compute. discriminate.
Qed.

(* at the instant of exp itself the replay is still refused (by the test-and-set) *)
Example client_assertion_refused_at_exp_instant :
  snd (run ex_world (start_at t0) [OAuth (ex_ca "j1" 946684860); OTick 60000; OAuth (ex_ca "j1" 946684860)])
  = [Acc "c0" ""; Acc "" ""; Rej EJtiKnown].
Proof. vm_compute. reflexivity. Qed.

(* ---- interleavings *)
(* non-vacuity: three threads presenting one valid assertion, a schedule where all checks pass
   first: exactly one test-and-set wins *)
Example race_three_threads :
  let f := ca_flow [ex_tu] [ex_client] t0 (ex_ca "j1" 946684860) in
  let '(st, ts) := run_sched t0 ([], [(f, TStart); (f, TStart); (f, TStart)]) [0; 1; 2; 2; 0; 1]%nat in
  wins "j1" ts = 1%nat /\ map thread_result ts = [Some (Rej EJtiKnown); Some (Rej EJtiKnown); Some (Acc "c0" "")].
Proof. vm_compute. split; reflexivity. Qed.

(* the hypothesis of [at_most_one_winner] is necessary: inside the second named by exp two
   simultaneous presentations of one client assertion both succeed *)
Theorem client_race_refuted :
  exists nw f sched j,
    (wins j (snd (run_sched nw ([], [(f, TStart); (f, TStart)]) sched)) = 2)%nat.
Proof.
  exists (t0 + 60500), (ca_flow [ex_tu] [ex_client] (t0 + 60500) (ex_ca "j1" 946684860)), [0; 0; 1; 1]%nat, "j1".
  vm_compute. reflexivity.
Qed.

(* JWT-bearer grant: the hypothesis of the interleaving theorem always holds (the handler has
   already refused an assertion that is past the instant of its exp), so for any number of
   simultaneous grant requests, any assertions, any schedule, at most one consumes a given jti *)
Theorem bearer_race_once cfg tus iks nw st (reqs : list (string * list string * bassert)) sched j :
  (wins j (snd (run_sched nw (st, map (fun r => (ba_flow cfg tus iks nw (fst (fst r)) (snd (fst r)) (snd r), TStart)) reqs) sched)) <= 1)%nat.
Proof.
  rewrite <- (map_map (fun r => ba_flow cfg tus iks nw (fst (fst r)) (snd (fst r)) (snd r)) (fun f => (f, TStart))).
  apply at_most_one_winner. intros f e Hin Hp Hm.
  apply in_map_iff in Hin as [[[cl gr] b] [<- _]]. cbn [fst snd] in *.
  destruct (ba_flow_ok cfg tus iks nw cl gr b) as [[x Hx]|(k & e0 & Hfacts & Hflow)]; [congruence|].
  rewrite Hflow in Hm. cbn [f_mid] in Hm.
  destruct Hfacts as (_ & _ & _ & _ & _ & _ & _ & _ & Hspec). destruct Hspec as (_ & _ & Hle & _).
  destruct (forallb _ _); [|discriminate]. now injection Hm as <-.
Qed.

(* private_key_jwt: the same for client assertions that are not past the instant of their exp *)
Theorem client_race_once tus clients nw st (asserts : list cassert) sched j :
  (forall a e, In a asserts -> ca_jti a = JStr j -> to_int64 (ca_exp a) = Some e -> nw <= e * 1000) ->
  (wins j (snd (run_sched nw (st, map (fun a => (ca_flow tus clients nw a, TStart)) asserts) sched)) <= 1)%nat.
Proof.
  intros Hlive.
  rewrite <- (map_map (fun a => ca_flow tus clients nw a) (fun f => (f, TStart))).
  apply at_most_one_winner. intros f e Hin Hp Hm.
  apply in_map_iff in Hin as [a [<- Hin]].
  destruct (ca_flow_pre tus clients nw a) as [[x Hx]|(cid & j0 & _ & Hp' & Hj & Hm')]; [congruence|].
  rewrite Hp' in Hp. injection Hp as ->. rewrite Hm' in Hm.
  destruct (to_int64 (ca_exp a)) as [e0|] eqn:He; [|discriminate]. injection Hm as <-.
  eapply Hlive; eassumption.
Qed.
