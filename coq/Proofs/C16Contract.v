(* Device authorization grant (C16): the table of invalidated device codes, and what a replay does at a store that
   follows the storage contract (handler/rfc8628/storage.go: an invalidated code is answered with its request and
   ErrInvalidatedDeviceCode). *)
From FositeModel Require Import Base.Str Model.Scope Model.Core Model.Flows Proofs.CoreInv Proofs.StepInv Proofs.Family
     Proofs.Decay Proofs.Implicit Proofs.StepProps Proofs.C16Proofs.

Arguments upd : simpl never.

(* ------------------------------------------------------------------ which steps write the table *)
Lemma used_revoke_access x X : dev_used (revoke_access x X) = dev_used x.
Proof. reflexivity. Qed.
Lemma used_revoke_refresh x X : dev_used (fst (revoke_refresh x X)) = dev_used x.
Proof. unfold revoke_refresh. destruct (rt_idx x X) as [k|]; [destruct (refresh x k) as [[? ?]|]|]; reflexivity. Qed.
Lemma used_invalidate_code x k : dev_used (fst (invalidate_code x k)) = dev_used x.
Proof. unfold invalidate_code. destruct (codes x k) as [[? ?]|]; reflexivity. Qed.

Lemma used_fresh_grant s mk w : dev_used (st (fst (fresh_grant s mk w))) = dev_used (st s).
Proof.
  unfold fresh_grant. destruct (fresh_rid s) as [rid s1] eqn:E1. destruct (fresh_rid_spec _ _ _ E1) as [_ [_ [H1 _]]].
  rewrite grant_tokens_dev_used. congruence.
Qed.

Lemma used_authorize_core cfg s cl a : dev_used (st (fst (authorize_core cfg s cl a))) = dev_used (st s).
Proof.
  unfold authorize_core.
  destruct (negb (scopes_ok cfg cl (az_scopes a))); [reflexivity|].
  destruct (negb (aud_ok cfg (cl_aud cl) (az_aud a))); [reflexivity|].
  destruct (fresh_rid s) as [rid s1] eqn:E1. destruct (fresh_rid_spec _ _ _ E1) as [_ [_ [H1 _]]].
  destruct (mint s1 KCode rid) as [k0 s2] eqn:E2. destruct (mint_spec _ _ _ _ _ E2) as [_ [_ [H2 _]]].
  destruct (pkce_validate cfg (az_challenge a) (az_method a) cl); cbn [fst fail]; [cbn; congruence|].
  destruct (String.eqb (az_challenge a) "" && String.eqb (az_method a) ""); cbn; congruence.
Qed.

Lemma used_store_implicit cfg s cl a rid ec : dev_used (st (fst (store_implicit cfg s cl a rid ec))) = dev_used (st s).
Proof.
  unfold store_implicit. destruct (mint s KImplicit rid) as [ka s1] eqn:E1. destruct (mint_spec _ _ _ _ _ E1) as [_ [_ [H1 _]]].
  cbn. congruence.
Qed.
Lemma used_issue_implicit cfg s cl a rid ec : dev_used (st (fst (issue_implicit cfg s cl a rid ec))) = dev_used (st s).
Proof.
  unfold issue_implicit. pose proof (used_store_implicit cfg s cl a rid ec) as H.
  destruct (store_implicit cfg s cl a rid ec) as [s2 ka]. exact H.
Qed.

Lemma used_authorize_implicit cfg s cl a : dev_used (st (fst (authorize_implicit cfg s cl a))) = dev_used (st s).
Proof.
  unfold authorize_implicit.
  repeat match goal with |- context [if ?c then fail s _ else _] => destruct c; [reflexivity|] end.
  destruct (fresh_rid s) as [rid s1] eqn:E1. destruct (fresh_rid_spec _ _ _ E1) as [_ [_ [H1 _]]].
  pose proof (used_issue_implicit cfg s1 cl a rid None) as H.
  destruct (issue_implicit cfg s1 cl a rid None) as [s2 ein]. cbn [fst] in *. congruence.
Qed.

Lemma used_authorize_hybrid cfg s cl a : dev_used (st (fst (authorize_hybrid cfg s cl a))) = dev_used (st s).
Proof.
  unfold authorize_hybrid.
  repeat match goal with |- context [if ?c then fail s _ else _] => destruct c; [reflexivity|] end.
  destruct (fresh_rid s) as [rid s1] eqn:E1. destruct (fresh_rid_spec _ _ _ E1) as [_ [_ [H1 _]]].
  destruct (mint s1 KCode rid) as [k s2] eqn:E2. destruct (mint_spec _ _ _ _ _ E2) as [_ [_ [H2 _]]].
  match goal with |- context [create_code _ k ?r] => set (rec := r) end.
  destruct (negb (args_has (cl_grants cl) ["implicit"])); [cbn; congruence|].
  set (s3 := set_store s2 (create_code (st s2) k rec)).
  assert (H3 : dev_used (st s3) = dev_used (st s)) by (unfold s3; cbn; congruence).
  destruct (pkce_validate cfg (az_challenge a) (az_method a) cl).
  { unfold fail. cbn [fst]. now rewrite used_store_implicit. }
  match goal with |- context [issue_implicit cfg s3 cl a rid ?ec] =>
    pose proof (used_issue_implicit cfg s3 cl a rid ec) as H; destruct (issue_implicit cfg s3 cl a rid ec) as [s4 ein] end.
  cbn [fst] in *.
  destruct (String.eqb (az_challenge a) "" && String.eqb (az_method a) ""); cbn; congruence.
Qed.

Lemma used_push cfg s auth bc ru a : dev_used (st (fst (push cfg s auth bc ru a))) = dev_used (st s).
Proof.
  unfold push.
  destruct auth as [c|]; [|reflexivity]. destruct (clients s c); [|reflexivity].
  destruct ru; [reflexivity|].
  destruct (clients s _) as [cl|]; [|reflexivity].
  destruct (negb (scopes_ok cfg cl (az_scopes a))); [reflexivity|].
  destruct (negb (aud_ok cfg (cl_aud cl) (az_aud a))); [reflexivity|].
  destruct (negb (Nat.eqb _ c)); [reflexivity|].
  destruct (fresh_rid s) as [rid s1] eqn:E1. destruct (fresh_rid_spec _ _ _ E1) as [_ [_ [Hst1 _]]].
  destruct (mint s1 KPar rid) as [k s2] eqn:E2. destruct (mint_spec _ _ _ _ _ E2) as [_ [_ [Hst2 _]]].
  cbn. now rewrite Hst2, Hst1.
Qed.

Lemma used_device_authorize cfg s auth bc sc au : dev_used (st (fst (device_authorize cfg s auth bc sc au))) = dev_used (st s).
Proof.
  unfold device_authorize.
  destruct auth as [c|]; [|reflexivity]. destruct (clients s c) as [cl|]; [|reflexivity].
  repeat match goal with |- context [if ?c then fail s _ else _] => destruct c; [reflexivity|] end.
  destruct (fresh_rid s) as [rid s1] eqn:E1. destruct (fresh_rid_spec _ _ _ E1) as [_ [_ [Hst1 _]]].
  destruct (mint s1 KDevice rid) as [kd s2] eqn:E2. destruct (mint_spec _ _ _ _ _ E2) as [_ [_ [Hst2 _]]].
  destruct (mint s2 KUser rid) as [ku s3] eqn:E3. destruct (mint_spec _ _ _ _ _ E3) as [_ [_ [Hst3 _]]].
  cbn. now rewrite Hst3, Hst2, Hst1.
Qed.

Lemma used_decide cfg s dev acc g ga sub fr : dev_used (st (fst (decide cfg s dev acc g ga sub fr))) = dev_used (st s).
Proof.
  unfold decide.
  destruct (key_of s dev) as [k|]; [|reflexivity].
  destruct (device (st s) k) as [[b r]|]; [|reflexivity].
  destruct (expired _ _ _ _); reflexivity.
Qed.

Lemma used_redeem cfg s auth code redirect v vh : dev_used (st (fst (redeem cfg s auth code redirect v vh))) = dev_used (st s).
Proof.
  unfold redeem.
  destruct auth as [c|]; [|reflexivity]. destruct (clients s c) as [cl|]; [|reflexivity].
  destruct (negb (args_has (cl_grants cl) ["authorization_code"])); [reflexivity|].
  destruct (key_of s code) as [k|]; [|reflexivity].
  destruct (codes (st s) k) as [[[|] r]|] eqn:Ec; [| |reflexivity].
  - destruct (p_tampered code); [reflexivity|].
    destruct (negb (Nat.eqb (r_client r) c)); [reflexivity|].
    destruct (negb (String.eqb (r_redirect r) "") && negb (String.eqb (r_redirect r) redirect)); [reflexivity|].
    assert (H1 : dev_used (st (fst (pkce_token cfg s cl (Some k) v vh))) = dev_used (st s))
      by (destruct (pkce_token_state cfg s cl (Some k) v vh) as [->|[k0 ->]]; reflexivity).
    destruct (pkce_token cfg s cl (Some k) v vh) as [s1 [e|]]; cbn [fst] in *; [exact H1|].
    destruct (expired _ _ _ _); [exact H1|].
    match goal with |- context [grant_tokens ?s2 ?stored ?w] =>
      pose proof (grant_tokens_dev_used s2 stored w) as G; destruct (grant_tokens s2 stored w) as [s3 minted] end.
    cbn [fst] in *. transitivity (dev_used (st s3)); [reflexivity|].
    rewrite G. cbn [st set_store]. rewrite used_invalidate_code. exact H1.
  - cbn [fst fail st set_store]. now rewrite used_revoke_refresh, used_revoke_access.
Qed.

Lemma used_refresh_flow cfg s auth tok : dev_used (st (fst (refresh_flow cfg s auth tok))) = dev_used (st s).
Proof.
  unfold refresh_flow.
  destruct auth as [c|]; [|reflexivity]. destruct (clients s c) as [cl|]; [|reflexivity].
  destruct (negb (args_has (cl_grants cl) ["refresh_token"])); [reflexivity|].
  destruct (key_of s tok) as [k|]; cbn [find]; [|reflexivity].
  destruct (refresh (st s) k) as [[[|] r]|] eqn:Er; [| |reflexivity].
  - repeat match goal with |- context [if ?c then _ else _] => destruct c; [reflexivity|] end.
    unfold rotate_refresh. pose proof (used_revoke_refresh (st s) (r_id r)) as Td.
    destruct (revoke_refresh (st s) (r_id r)) as [st1 [e|]]; cbn [fst] in *; [exact Td|].
    match goal with |- context [grant_tokens ?s2 ?stored ?w] =>
      pose proof (grant_tokens_dev_used s2 stored w) as G; destruct (grant_tokens s2 stored w) as [s3 minted] end.
    cbn in *. rewrite G. cbn. now rewrite used_revoke_access.
  - cbn [fst fail st set_store]. now rewrite used_revoke_access, used_revoke_refresh.
Qed.

Lemma used_revoke cfg s auth tok h : dev_used (st (fst (revoke cfg s auth tok h))) = dev_used (st s).
Proof.
  unfold revoke.
  destruct auth as [c|]; [|reflexivity]. destruct (clients s c); [|reflexivity].
  destruct (revoke_lookup s (key_of s tok) h) as [r|]; [|reflexivity].
  destruct (negb (Nat.eqb (r_client r) c)); [reflexivity|]. cbn [fst st set_store].
  now rewrite used_revoke_access, used_revoke_refresh.
Qed.

Lemma used_authorize_par cfg s cp uri a : dev_used (st (fst (authorize_par cfg s cp uri a))) = dev_used (st s).
Proof.
  rewrite ?authorize_par_fst; unfold authorize_par0.
  destruct (key_of s uri) as [k|]; [|reflexivity].
  destruct (par (st s) k) as [pr|]; [|reflexivity].
  repeat match goal with |- context [if ?c then fail _ _ else _] => destruct c; [reflexivity|] end.
  rewrite used_authorize_core. reflexivity.
Qed.

(* the only writer is a successful poll: it records the request id of the pending record it redeems *)
Lemma used_device_poll cfg s auth dev k :
  dev_used (st (fst (device_poll cfg s auth dev))) k = dev_used (st s) k \/
  exists stt r, device (st s) k = Some (stt, r) /\ dev_used (st (fst (device_poll cfg s auth dev))) k = Some (r_id r) /\
                device (st (fst (device_poll cfg s auth dev))) k = None.
Proof.
  unfold device_poll.
  destruct auth as [c|]; [|auto]. destruct (clients s c) as [cl|]; [|auto].
  destruct (negb (args_has (cl_grants cl) _)); [auto|].
  destruct (key_of s dev) as [k0|]; [|auto].
  destruct (used_device cfg (st s) k0) as [rid|].
  { left. cbn [fst fail st set_store]. now rewrite used_revoke_refresh, used_revoke_access. }
  destruct (device (st s) k0) as [[stt r]|] eqn:Ed; [|auto].
  repeat match goal with |- context [if ?c then fail s _ else _] => destruct c; [auto|] end.
  match goal with |- context [grant_tokens ?s2 ?stored ?w] =>
    pose proof (grant_tokens_dev_used s2 stored w) as G; pose proof (grant_tokens_device s2 stored w) as GD;
    destruct (grant_tokens s2 stored w) as [s3 minted] end.
  cbn [fst] in *. rewrite G, GD. cbn. upd_case k k0.
  - right. exists stt, r. subst. rewrite ?upd_eq. auto.
  - left. reflexivity.
Qed.

Theorem used_step cfg s o k :
  dev_used (st (fst (step cfg s o))) k = dev_used (st s) k \/
  exists stt r, device (st s) k = Some (stt, r) /\ dev_used (st (fst (step cfg s o))) k = Some (r_id r) /\
                device (st (fst (step cfg s o))) k = None.
Proof.
  destruct o; cbn [step]; try (left; reflexivity);
    try (new_flows_tac s used_fresh_grant ltac:(left; reflexivity); left; cbn [fst] in *; now rewrite FGfact).
  - left. unfold authorize. destruct (cf_par_enforced cfg); [reflexivity|].
    destruct (clients s (az_client a)) as [cl|]; [|reflexivity].
    destruct (az_rtype a); [now rewrite used_authorize_core|now rewrite used_authorize_implicit|now rewrite used_authorize_hybrid].
  - left. now rewrite used_redeem.
  - left. now rewrite used_refresh_flow.
  - left. now rewrite used_revoke.
  - left. now rewrite used_push.
  - left. now rewrite used_authorize_par.
  - left. now rewrite used_device_authorize.
  - left. now rewrite used_decide.
  - apply used_device_poll.
Qed.

(* ------------------------------------------------------------------ pending and invalidated codes are disjoint *)
Definition used_inv (s : state) : Prop :=
  forall k rid, dev_used (st s) k = Some rid -> device (st s) k = None /\ k < next_key s.

Lemma used_inv_init cls : used_inv (state0 cls).
Proof. intros k rid H. discriminate. Qed.

Lemma used_inv_step cfg s o : Inv s -> used_inv s -> used_inv (fst (step cfg s o)).
Proof.
  intros I U k rid H. pose proof (next_key_step cfg s o) as Hn.
  destruct (used_step cfg s o k) as [E|[stt [r [Hd [_ Hgone]]]]].
  - rewrite E in H. destruct (U k rid H) as [Hd Hk]. split; [now apply device_gone_step|lia].
  - split; [exact Hgone|].
    pose proof (proj1 (inv_owner_fresh s I _ _ _ (inv_owner_device s I _ _ _ Hd))). lia.
Qed.

Lemma used_inv_run cfg h : forall s, Inv s -> used_inv s -> used_inv (run cfg s h).
Proof.
  unfold run. induction h as [|o h IH]; intros s I U; cbn [fold_left]; [assumption|].
  apply IH; [now apply Inv_step|now apply used_inv_step].
Qed.

Theorem used_inv_reachable cfg cls h : used_inv (run cfg (state0 cls) h).
Proof. apply used_inv_run; [apply Inv_state0|apply used_inv_init]. Qed.

(* a pending code was never redeemed: the verdict theorems' premise holds on every reachable state *)
Theorem pending_code_not_used cfg cls h k stt r :
  let s := run cfg (state0 cls) h in device (st s) k = Some (stt, r) -> used_device cfg (st s) k = None.
Proof.
  intros s Hd. unfold used_device. destruct (cf_dev_contract cfg); [|reflexivity].
  destruct (dev_used (st s) k) as [rid|] eqn:E; [|reflexivity].
  destruct (used_inv_reachable cfg cls h k rid E) as [Hn _]. fold s in Hn. congruence.
Qed.

(* an invalidated code stays invalidated, with the same request id *)
Lemma used_keep_step cfg s o k rid : used_inv s -> dev_used (st s) k = Some rid -> dev_used (st (fst (step cfg s o))) k = Some rid.
Proof.
  intros U H. destruct (used_step cfg s o k) as [E|[stt [r [Hd _]]]]; [congruence|].
  destruct (U k rid H) as [Hn _]. congruence.
Qed.

Lemma used_keep_run cfg h : forall s k rid,
  Inv s -> used_inv s -> dev_used (st s) k = Some rid -> dev_used (st (run cfg s h)) k = Some rid.
Proof.
  unfold run. induction h as [|o h IH]; intros s k rid I U H; cbn [fold_left]; [assumption|].
  apply IH; [now apply Inv_step|now apply used_inv_step|now apply used_keep_step].
Qed.

(* ------------------------------------------------------------------ the code table under the token-endpoint flows *)
Lemma codes_invalidate x k0 k b r : codes (fst (invalidate_code x k0)) k = Some (b, r) -> exists b0, codes x k = Some (b0, r).
Proof.
  unfold invalidate_code. destruct (codes x k0) as [[b1 r1]|] eqn:E; cbn; [|intros H; eauto].
  intros H. upd_case k k0.
  - injection H as _ <-. exists b1. congruence.
  - exists b. exact H.
Qed.

Lemma codes_redeem cfg s auth code redirect v vh k b r :
  codes (st (fst (redeem cfg s auth code redirect v vh))) k = Some (b, r) ->
  (exists b0, codes (st s) k = Some (b0, r)) \/ r_id r = next_rid s.
Proof.
  intros H. left. revert H. unfold redeem.
  destruct auth as [c|]; [|eauto]. destruct (clients s c) as [cl|]; [|eauto].
  destruct (negb (args_has (cl_grants cl) ["authorization_code"])); [eauto|].
  destruct (key_of s code) as [k0|]; [|eauto].
  destruct (codes (st s) k0) as [[[|] r0]|] eqn:Ec; [| |eauto].
  - destruct (p_tampered code); [eauto|].
    destruct (negb (Nat.eqb (r_client r0) c)); [eauto|].
    destruct (negb (String.eqb (r_redirect r0) "") && negb (String.eqb (r_redirect r0) redirect)); [eauto|].
    assert (H1 : codes (st (fst (pkce_token cfg s cl (Some k0) v vh))) = codes (st s))
      by (destruct (pkce_token_state cfg s cl (Some k0) v vh) as [->|[k1 ->]]; reflexivity).
    destruct (pkce_token cfg s cl (Some k0) v vh) as [s1 [e|]]; cbn [fst] in *; [cbn [fst fail]; rewrite H1; eauto|].
    destruct (expired _ _ _ _); [cbn [fst fail]; rewrite H1; eauto|].
    match goal with |- context [grant_tokens ?s2 ?stored ?w] =>
      pose proof (grant_tokens_codes s2 stored w) as G; destruct (grant_tokens s2 stored w) as [s3 minted] end.
    cbn [fst] in *. intros H. change (codes (st s3) k = Some (b, r)) in H. rewrite G in H. cbn [st set_store] in H.
    apply codes_invalidate in H. now rewrite H1 in H.
  - cbn [fst fail st set_store]. destruct (revoke_refresh_tables (revoke_access (st s) (r_id r0)) (r_id r0)) as [Tc _].
    destruct (revoke_access_tables (st s) (r_id r0)) as [Tc' _]. rewrite Tc, Tc'. eauto.
Qed.

Lemma codes_refresh_flow cfg s auth tok : codes (st (fst (refresh_flow cfg s auth tok))) = codes (st s).
Proof.
  unfold refresh_flow.
  destruct auth as [c|]; [|reflexivity]. destruct (clients s c) as [cl|]; [|reflexivity].
  destruct (negb (args_has (cl_grants cl) ["refresh_token"])); [reflexivity|].
  destruct (key_of s tok) as [k|]; cbn [find]; [|reflexivity].
  destruct (refresh (st s) k) as [[[|] r]|] eqn:Er; [| |reflexivity].
  - repeat match goal with |- context [if ?c then _ else _] => destruct c; [reflexivity|] end.
    unfold rotate_refresh. destruct (revoke_refresh_tables (st s) (r_id r)) as [Td _].
    destruct (revoke_refresh (st s) (r_id r)) as [st1 [e|]]; cbn [fst] in *; [exact Td|].
    match goal with |- context [grant_tokens ?s2 ?stored ?w] =>
      pose proof (grant_tokens_codes s2 stored w) as G; destruct (grant_tokens s2 stored w) as [s3 minted] end.
    cbn in *. rewrite G. cbn. destruct (revoke_access_tables st1 (r_id r)) as [Tc _]. now rewrite Tc.
  - cbn [fst fail st set_store].
    destruct (revoke_access_tables (fst (revoke_refresh (delete_refresh (st s) k) (r_id r))) (r_id r)) as [Tc _].
    destruct (revoke_refresh_tables (delete_refresh (st s) k) (r_id r)) as [Tc' _]. now rewrite Tc, Tc'.
Qed.

Lemma codes_revoke cfg s auth tok h : codes (st (fst (revoke cfg s auth tok h))) = codes (st s).
Proof.
  unfold revoke.
  destruct auth as [c|]; [|reflexivity]. destruct (clients s c); [|reflexivity].
  destruct (revoke_lookup s (key_of s tok) h) as [r|]; [|reflexivity].
  destruct (negb (Nat.eqb (r_client r) c)); [reflexivity|]. cbn [fst st set_store].
  destruct (revoke_access_tables (fst (revoke_refresh (st s) (r_id r))) (r_id r)) as [Tc _].
  destruct (revoke_refresh_tables (st s) (r_id r)) as [Tc' _]. now rewrite Tc, Tc'.
Qed.

Lemma codes_device_poll cfg s auth dev : codes (st (fst (device_poll cfg s auth dev))) = codes (st s).
Proof.
  unfold device_poll.
  destruct auth as [c|]; [|reflexivity]. destruct (clients s c) as [cl|]; [|reflexivity].
  destruct (negb (args_has (cl_grants cl) _)); [reflexivity|].
  destruct (key_of s dev) as [k|]; [|reflexivity].
  destruct (used_device cfg (st s) k) as [rid|].
  { cbn [fst fail st set_store]. destruct (revoke_refresh_tables (revoke_access (st s) rid) rid) as [Tc _].
    destruct (revoke_access_tables (st s) rid) as [Tc' _]. now rewrite Tc, Tc'. }
  destruct (device (st s) k) as [[stt r]|]; [|reflexivity].
  repeat match goal with |- context [if ?c then fail s _ else _] => destruct c; [reflexivity|] end.
  match goal with |- context [grant_tokens ?s2 ?stored ?w] =>
    pose proof (grant_tokens_codes s2 stored w) as G; destruct (grant_tokens s2 stored w) as [s3 minted] end.
  cbn [fst] in *. rewrite G. reflexivity.
Qed.

(* ------------------------------------------------------------------ a device grant's request id never gets a code or a new device record *)
Definition code_free (x : store) (X : nat) : Prop := forall k b r, codes x k = Some (b, r) -> r_id r <> X.

Lemma code_keeps_step cfg s o k b r :
  codes (st (fst (step cfg s o))) k = Some (b, r) -> (exists b0, codes (st s) k = Some (b0, r)) \/ r_id r = next_rid s.
Proof.
  assert (EQ : forall s', codes (st s') = codes (st s) -> codes (st s') k = Some (b, r) ->
               (exists b0, codes (st s) k = Some (b0, r)) \/ r_id r = next_rid s).
  { intros s' E H. rewrite E in H. left. eauto. }
  assert (AC : forall s0 cl a, codes (st s0) = codes (st s) -> next_rid s0 = next_rid s ->
               codes (st (fst (authorize_core cfg s0 cl a))) k = Some (b, r) ->
               (exists b0, codes (st s) k = Some (b0, r)) \/ r_id r = next_rid s).
  { intros s0 cl a E0 En H. unfold authorize_core in H.
    destruct (negb (scopes_ok cfg cl (az_scopes a))); [now apply (EQ s0)|].
    destruct (negb (aud_ok cfg (cl_aud cl) (az_aud a))); [now apply (EQ s0)|].
    destruct (fresh_rid s0) as [rid s1] eqn:E1. destruct (fresh_rid_spec _ _ _ E1) as [Hrid [_ [H1 _]]].
    destruct (mint s1 KCode rid) as [k0 s2] eqn:E2. destruct (mint_spec _ _ _ _ _ E2) as [_ [_ [H2 _]]].
    assert (C : forall s' rec, r_id rec = rid -> codes (st s') = upd (codes (st s2)) k0 (Some (true, rec)) ->
                codes (st s') k = Some (b, r) -> (exists b0, codes (st s) k = Some (b0, r)) \/ r_id r = next_rid s).
    { intros s' rec Hrec E H'. rewrite E in H'. upd_case k k0.
      - injection H' as _ <-. right. congruence.
      - left. rewrite H2, H1, E0 in H'. eauto. }
    destruct (pkce_validate cfg (az_challenge a) (az_method a) cl); cbn [fst fail] in H;
      [refine (C _ _ _ _ H); [|reflexivity]; reflexivity|].
    destruct (String.eqb (az_challenge a) "" && String.eqb (az_method a) ""); (refine (C _ _ _ _ H); [|reflexivity]; reflexivity). }
  destruct o; cbn [step]; try (apply EQ; reflexivity);
    try (new_flows_tac s fresh_grant_codes ltac:(apply EQ; reflexivity); apply EQ; exact FGfact).
  - unfold authorize. destruct (cf_par_enforced cfg); [apply EQ; reflexivity|].
    destruct (clients s (az_client a)) as [cl|]; [|apply EQ; reflexivity].
    destruct (az_rtype a); [apply AC; reflexivity| |].
    + destruct (authorize_implicit_effect cfg s cl a) as [_ [_ [_ [_ [_ [_ [_ [_ [_ Hc]]]]]]]]].
      intros H. destruct (Hc _ _ _ H); [left; eauto|right; assumption].
    + destruct (authorize_hybrid_effect cfg s cl a) as [_ [_ [_ [_ [_ [_ [_ [_ [_ Hc]]]]]]]]].
      intros H. destruct (Hc _ _ _ H); [left; eauto|right; assumption].
  - apply codes_redeem.
  - apply EQ, codes_refresh_flow.
  - apply EQ, codes_revoke.
  - apply EQ. match goal with |- context [push cfg s ?x1 ?x2 ?x3 ?x4] => destruct (push_tables cfg s x1 x2 x3 x4) as [Hc _] end. exact Hc.
  - rewrite ?authorize_par_fst; unfold authorize_par0.
    destruct (key_of s uri) as [k0|]; [|apply EQ; reflexivity].
    destruct (par (st s) k0) as [pr|]; [|apply EQ; reflexivity].
    repeat match goal with |- context [if ?c then fail _ _ else _] => destruct c; [apply EQ; reflexivity|] end.
    apply AC; reflexivity.
  - apply EQ. match goal with |- context [device_authorize cfg s ?x1 ?x2 ?x3 ?x4] => destruct (device_authorize_tables cfg s x1 x2 x3 x4) as [Hc _] end. exact Hc.
  - apply EQ. match goal with |- context [decide cfg s ?x1 ?x2 ?x3 ?x4 ?x5 ?x6] => destruct (decide_tables cfg s x1 x2 x3 x4 x5 x6) as [Hc _] end. exact Hc.
  - apply EQ, codes_device_poll.
Qed.

Lemma code_free_step cfg s o X : code_free (st s) X -> X < next_rid s -> code_free (st (fst (step cfg s o))) X.
Proof.
  intros F Hlt k b r H Heq. destruct (code_keeps_step cfg s o k b r H) as [[b0 H0]|Hn]; [exact (F _ _ _ H0 Heq)|lia].
Qed.

Lemma no_device_step cfg s o X : no_device_rid (st s) X -> X < next_rid s -> no_device_rid (st (fst (step cfg s o))) X.
Proof.
  intros D Hlt k b r H Heq. destruct (dev_keeps_step cfg s o k b r H) as [[b0 [r0 [H0 Hr0]]]|[Hn _]]; [|lia].
  apply (D _ _ _ H0). congruence.
Qed.

Lemma spent_run cfg h : forall s X,
  code_free (st s) X -> no_device_rid (st s) X -> X < next_rid s ->
  code_free (st (run cfg s h)) X /\ no_device_rid (st (run cfg s h)) X /\ X < next_rid (run cfg s h).
Proof.
  unfold run. induction h as [|o h IH]; intros s X F D Hlt; cbn [fold_left]; [auto|].
  pose proof (next_rid_step cfg s o). apply IH; [now apply code_free_step|now apply no_device_step|lia].
Qed.

(* ------------------------------------------------------------------ the replay of a redeemed device code *)
(* at a store that follows the contract, presenting a device code that was redeemed before - after any history, by any
   authenticated client registered for the grant - is refused with invalid_grant, yields nothing, and kills the grant
   the code was redeemed for: no access token of its request remains (whichever endpoint minted it), no refresh token
   of it is active, and nothing can bring one back *)
Theorem device_replay_kills cfg cls h1 auth dev h2 c cl dev' :
  cf_dev_contract cfg = true ->
  let s1 := run cfg (state0 cls) h1 in
  o_err (snd (device_poll cfg s1 auth dev)) = "" ->
  let s2 := run cfg (fst (device_poll cfg s1 auth dev)) h2 in
  key_of s2 dev' = key_of s1 dev ->
  clients s2 c = Some cl -> args_has (cl_grants cl) [device_grant] = true ->
  exists k stt r, key_of s1 dev = Some k /\ device (st s1) k = Some (stt, r) /\
    let res := device_poll cfg s2 (Some c) dev' in
    o_err (snd res) = "invalid_grant" /\ o_minted (snd res) = [] /\
    fst res = replay_revocation s2 (r_id r) /\ dead_all (st (fst res)) (r_id r).
Proof.
  intros Hct s1 Hok s2 Hkey Hcl Hg.
  assert (I1 : Inv s1) by apply Inv_reachable.
  destruct (poll_ok_facts cfg s1 auth dev Hok) as [k [stt [r [cl1 F]]]].
  destruct F as [Hk [Hd [_ [_ [_ [_ [_ [_ [_ [_ [Hgone [_ [_ [_ Hused]]]]]]]]]]]]]].
  set (sp := fst (device_poll cfg s1 auth dev)) in *.
  assert (Ip : Inv sp) by (unfold sp; exact (Inv_step cfg s1 (ODevicePoll auth dev) I1)).
  assert (Up : used_inv sp) by (unfold sp; exact (used_inv_step cfg s1 (ODevicePoll auth dev) I1 (used_inv_reachable cfg cls h1))).
  assert (I2 : Inv s2) by (unfold s2; apply Inv_run; exact Ip).
  assert (Hu2 : dev_used (st s2) k = Some (r_id r)) by (unfold s2; apply used_keep_run; assumption).
  assert (Hlt : r_id r < next_rid s1) by exact (proj2 (inv_owner_fresh s1 I1 _ _ _ (inv_owner_device s1 I1 _ _ _ Hd))).
  assert (Hn : next_rid s1 <= next_rid sp) by exact (next_rid_step cfg s1 (ODevicePoll auth dev)).
  (* at s1 the request id has a pending device record: no code carries it; the poll removes the record *)
  assert (F1 : code_free (st s1) (r_id r)).
  { intros k' b' r' H Heq. exact (inv_code_device s1 I1 _ _ _ H k stt r Hd (eq_sym Heq)). }
  assert (Fp : code_free (st sp) (r_id r)) by (unfold sp; exact (code_free_step cfg s1 (ODevicePoll auth dev) _ F1 Hlt)).
  assert (Dp : no_device_rid (st sp) (r_id r)).
  { intros k' b' r' H Heq.
    destruct (dev_keeps_step cfg s1 (ODevicePoll auth dev) k' b' r' H) as [[b0 [r0 [H0 Hr0]]]|[Hx _]]; [|lia].
    assert (k' = k) by (eapply (inv_device_rid s1 I1); [exact H0|exact Hd|congruence]). subst k'.
    congruence. }
  destruct (spent_run cfg h2 sp (r_id r) Fp Dp ltac:(lia)) as [F2 [D2 Hlt2]]. fold s2 in F2, D2, Hlt2.
  exists k, stt, r. split; [exact Hk|]. split; [exact Hd|].
  rewrite Hk in Hkey. unfold device_poll, used_device. unfold device_grant in Hg. rewrite Hcl, Hg, Hkey, Hct, Hu2. cbn [negb fst snd fail err_obs o_err o_minted].
  split; [reflexivity|]. split; [reflexivity|]. split; [reflexivity|].
  unfold replay_revocation. cbn [st set_store]. split.
  - apply kill_dead; [exact I2| |exact D2]. intros k' r' H. exact (F2 _ _ _ H).
  - apply (proj2 (kill_no_implicit (st s2) (r_id r))).
Qed.

(* ... and so every credential ever minted for that request - by the poll or by a later refresh - is reported inactive
   from then on, after any further history *)
Theorem device_replay_credentials_inactive cfg cls h1 auth dev h2 c cl dev' h3 i e tampered hint scopes :
  cf_dev_contract cfg = true ->
  let s1 := run cfg (state0 cls) h1 in
  o_err (snd (device_poll cfg s1 auth dev)) = "" ->
  let s2 := run cfg (fst (device_poll cfg s1 auth dev)) h2 in
  key_of s2 dev' = key_of s1 dev ->
  clients s2 c = Some cl -> args_has (cl_grants cl) [device_grant] = true ->
  forall k stt r, key_of s1 dev = Some k -> device (st s1) k = Some (stt, r) ->
  let s3 := run cfg (fst (device_poll cfg s2 (Some c) dev')) h3 in
  nth_error (log s3) i = Some e -> i_rid e = r_id r ->
  introspect cfg s3 {| p_ref := CRef i; p_tampered := tampered |} hint scopes = None.
Proof.
  intros Hct s1 Hok s2 Hkey Hcl Hg k stt r Hk Hd s3 Hn Hrid.
  destruct (device_replay_kills cfg cls h1 auth dev h2 c cl dev' Hct Hok Hkey Hcl Hg) as [k0 [stt0 [r0 [Hk0 [Hd0 [_ [_ [_ Hdead]]]]]]]].
  fold s1 in Hk0, Hd0. rewrite Hk in Hk0. injection Hk0 as <-. rewrite Hd in Hd0. injection Hd0 as <- <-.
  fold s2 in Hdead.
  assert (I1 : Inv s1) by apply Inv_reachable.
  assert (I2 : Inv s2) by (unfold s2; apply Inv_run; exact (Inv_step cfg s1 (ODevicePoll auth dev) I1)).
  set (sr := fst (device_poll cfg s2 (Some c) dev')) in *.
  assert (Ir : Inv sr) by (unfold sr; exact (Inv_step cfg s2 (ODevicePoll (Some c) dev') I2)).
  assert (Hlt : r_id r < next_rid sr).
  { pose proof (proj2 (inv_owner_fresh s1 I1 _ _ _ (inv_owner_device s1 I1 _ _ _ Hd))) as H1.
    pose proof (next_rid_step cfg s1 (ODevicePoll auth dev)) as H2. cbn [step] in H2.
    assert (H3 : next_rid (fst (device_poll cfg s1 auth dev)) <= next_rid s2).
    { unfold s2, run. clear. generalize (fst (device_poll cfg s1 auth dev)). induction h2 as [|o h IH]; intros s; cbn [fold_left]; [lia|].
      pose proof (next_rid_step cfg s o). specialize (IH (fst (step cfg s o))). lia. }
    pose proof (next_rid_step cfg s2 (ODevicePoll (Some c) dev')) as H4. cbn [step] in H4. fold sr in H4. lia. }
  eapply dead_all_credential_inactive; [unfold s3; apply Inv_run; exact Ir| |exact Hn|exact Hrid].
  unfold s3. apply dead_all_run; assumption.
Qed.

(* ------------------------------------------------------------------ the verdicts on reachable states *)
Section ReachableVerdicts.
  Variables (cfg : config) (cls : fmap client) (h : list op) (c : nat) (cl : client) (dev : pres) (k stt : nat) (r : req).
  Let s := run cfg (state0 cls) h.
  Hypotheses (Hc : clients s c = Some cl) (Hg : args_has (cl_grants cl) [device_grant] = true)
             (Hk : key_of s dev = Some k) (Hd : device (st s) k = Some (stt, r)).
  Let Hu : used_device cfg (st s) k = None := pending_code_not_used cfg cls h k stt r Hd.

  Theorem reachable_poll_pending : stt = 0 -> device_poll cfg s (Some c) dev = (s, err_obs "authorization_pending").
  Proof. exact (poll_pending cfg s c cl dev k stt r Hc Hg Hk Hd Hu). Qed.
  Theorem reachable_poll_denied : stt = 2 -> device_poll cfg s (Some c) dev = (s, err_obs "access_denied").
  Proof. exact (poll_denied cfg s c cl dev k stt r Hc Hg Hk Hd Hu). Qed.
  Theorem reachable_poll_expired :
    stt <> 0 -> stt <> 2 -> expired (s_exp_dev (r_sess r)) (r_at r) (cf_life_dev cfg) (now s) = true ->
    device_poll cfg s (Some c) dev = (s, err_obs "expired_token").
  Proof. exact (poll_expired cfg s c cl dev k stt r Hc Hg Hk Hd Hu). Qed.
  Theorem reachable_poll_foreign_client :
    stt <> 0 -> stt <> 2 -> expired (s_exp_dev (r_sess r)) (r_at r) (cf_life_dev cfg) (now s) = false ->
    p_tampered dev = false -> r_client r <> c ->
    device_poll cfg s (Some c) dev = (s, err_obs "invalid_grant").
  Proof. exact (poll_foreign_client cfg s c cl dev k stt r Hc Hg Hk Hd Hu). Qed.
End ReachableVerdicts.
