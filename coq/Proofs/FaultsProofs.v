(* Theorems about the fault model (Model/Faults.v), for all states, requests and fault plans. *)
From FositeModel Require Import Base.Str Model.Scope Model.Core Model.Flows Model.Faults Cases.CasesC18
     Proofs.CoreInv Proofs.StepInv.

Arguments upd : simpl never.

(* ================================================================== (a) consistency with the history model *)
Definition no_faults (e : fenv) : Prop := forall n, fe_plan e n = None.

Section NoFaults.
Variable e : fenv.
Hypothesis NF : no_faults e.

Lemma rd_nf x m c : rd e x m c = (None, logc x m c).
Proof. unfold rd, planned. now rewrite NF. Qed.
Lemma wr_nf x m c : wr e x m c = (None, logc x m c).
Proof. unfold wr, planned. now rewrite NF. Qed.

Lemma rotate_refresh_err v rid v' er : rotate_refresh v rid = (v', Some er) -> v' = v.
Proof.
  unfold rotate_refresh, revoke_refresh. destruct (rt_idx v rid); [|discriminate].
  destruct (refresh v n) as [[? ?]|]; [discriminate|]. now intros [= <- _].
Qed.

(* the issuing transaction without faults: all writes applied; or the first write's own failure *)
Lemma tx_block_nf x m1 w1 rid with_rt stored errf :
  exists x',
    match w1 (st (f_s x)) with
    | (st1, ROk) =>
        let '(ka, kr, s3) := mint_pair (set_store (f_s x) st1) rid with_rt in
        tx_block e x m1 w1 rid with_rt stored errf = (x', inr (ka, kr)) /\
        f_s x' = set_store s3
                   match kr with
                   | Some kr' => create_refresh (create_access st1 ka stored) kr' stored
                   | None => create_access st1 ka stored
                   end
    | (st1, _) =>
        tx_block e x m1 w1 rid with_rt stored errf = (x', inl (errf FNotFound)) /\
        f_s x' = set_store (f_s x) (if fe_tx e then st (f_s x) else st1)
    end.
Proof.
  unfold tx_block, begin_tx, commit_part, commit_tx, abort, rollback_tx, planned, mint_pair.
  rewrite !NF.
  destruct (fe_tx e) eqn:Etx; cbn [f_s f_n logc set_snap fst snd st];
  destruct (w1 (st (f_s x))) as [st1 c1]; rewrite !wr_nf;
  destruct c1; try destruct with_rt; cbn; rewrite ?wr_nf, ?NF; cbn; rewrite ?wr_nf, ?NF; cbn; eexists; split; reflexivity.
Qed.

Lemma pkce_token_fst cfg s cl key v vh : fst (pkce_token cfg s cl key v vh) = s.
Proof.
  unfold pkce_token. destruct (find (pkce (st s)) key), key; try (destruct (Nat.eqb _ 0); reflexivity).
  destruct (pkce_validate _ _ _ _); [reflexivity|].
  repeat match goal with |- context [if ?b then _ else _] => destruct b end; reflexivity.
Qed.

Lemma fredeem_nf cfg s auth code redirect v vh :
  let r := fredeem e cfg (finit s) auth code redirect v vh in
  (f_s (fst r), snd r) = redeem cfg s auth code redirect v vh.
Proof.
  unfold fredeem, redeem, ffail, fail, fpkce_handle, rd, wr, planned. cbv zeta. repeat (progress (rewrite ?NF; cbn [f_s f_n finit logc with_store with_s])).
  destruct auth as [c|]; [|reflexivity].
  destruct (clients s c) as [cl|]; [|reflexivity].
  destruct (negb (args_has (cl_grants cl) ["authorization_code"])); [reflexivity|].
  destruct (key_of s code) as [k|]; [|reflexivity].
  destruct (codes (st s) k) as [[[|] r]|] eqn:Ec; [| |reflexivity].
  2:{ cbn [f_s logc with_store with_s fst snd st set_store].
      destruct (revoke_refresh (revoke_access (st s) (r_id r)) (r_id r)) as [st2 oe] eqn:E.
      cbn. reflexivity. }
  destruct (p_tampered code); [reflexivity|].
  destruct (negb (Nat.eqb (r_client r) c)); [reflexivity|].
  destruct (negb (String.eqb (r_redirect r) "") && negb (String.eqb (r_redirect r) redirect)); [reflexivity|].
  cbn [f_s logc].
  pose proof (pkce_token_fst cfg s cl (Some k) v vh) as Hp.
  destruct (pkce_token cfg s cl (Some k) v vh) as [s1 [er|]]; cbn [fst snd] in *; subst s1; [reflexivity|].
  destruct (expired _ _ _ _); [reflexivity|].
  match goal with |- context [tx_block e ?x ?m ?w ?rid ?wrt ?sr ?ef] =>
    destruct (tx_block_nf x m w rid wrt sr ef) as [x' Hx];
    assert (Hw : w (st (f_s x)) = (fst (invalidate_code (st s) k), ROk))
      by (cbn; unfold inval_code, invalidate_code; rewrite Ec; reflexivity);
    rewrite Hw in Hx; clear Hw
  end.
  unfold mint_pair, grant_tokens in *.
  destruct (can_refresh cfg (r_gscopes r) (r_cl r)); cbn [mint] in *;
    destruct Hx as [Hx Hs]; rewrite Hx; clear Hx;
    repeat (progress (rewrite ?NF; cbn [f_s f_n finit logc with_store with_s]));
    rewrite Hs; reflexivity.
Qed.

Ltac nf_simpl := repeat (progress (rewrite ?NF; cbn [f_s f_n finit logc with_store with_s])).

(* the reuse handler without faults *)
Lemma freuse_nf x k rid :
  exists x', freuse e x k rid = (x', None) /\
    f_s x' = set_store (f_s x) (revoke_access (fst (revoke_refresh (delete_refresh (st (f_s x)) k) rid)) rid).
Proof.
  unfold freuse, begin_tx, commit_part, commit_tx, wr, planned. rewrite !NF.
  destruct (fe_tx e); cbn [f_s f_n logc set_snap with_store with_s st set_store]; rewrite ?NF; cbn [f_s f_n logc set_snap with_store with_s st set_store];
  destruct (revoke_refresh (delete_refresh (st (f_s x)) k) rid) as [st4 oe]; rewrite ?NF; cbn [f_s f_n logc set_snap with_store with_s st set_store]; rewrite ?NF;
  cbn; eexists; split; reflexivity.
Qed.

Lemma frefresh_nf cfg s auth tok :
  let r := frefresh e cfg (finit s) auth tok in
  (f_s (fst r), snd r) = refresh_flow cfg s auth tok.
Proof.
  unfold frefresh, refresh_flow, ffail, fail, rd, wr, planned. cbv zeta. nf_simpl.
  destruct auth as [c|]; [|reflexivity].
  destruct (clients s c) as [cl|]; [|reflexivity].
  destruct (negb (args_has (cl_grants cl) ["refresh_token"])); [reflexivity|].
  destruct (find (refresh (st s)) (key_of s tok)) as [[[|] r]|] eqn:Ef; destruct (key_of s tok) as [k|] eqn:Ek; try reflexivity.
  2:{ destruct (freuse_nf (logc (finit s) MGetRT (rt_class s (Some k))) k (r_id r)) as [x' [Hx Hs]].
      rewrite Hx. cbn [fst snd]. rewrite Hs. reflexivity. }
  repeat match goal with |- context [if ?b then _ else _] => destruct b; [reflexivity|] end.
  match goal with |- context [tx_block e ?x ?m ?w ?rid ?wrt ?sr ?ef] =>
    destruct (tx_block_nf x m w rid wrt sr ef) as [x' Hx];
    assert (Hw : w (st (f_s x)) = (let (v', oe) := rotate_refresh (st s) (r_id r) in (v', serr_class oe))) by reflexivity;
    rewrite Hw in Hx; clear Hw end.
  destruct (rotate_refresh (st s) (r_id r)) as [v' [er|]] eqn:Er.
  - apply rotate_refresh_err in Er; subst v'.
    destruct er; cbn [serr_class] in Hx; destruct Hx as [Hx Hs]; rewrite Hx; cbn [fst snd]; rewrite Hs;
      cbn [f_s with_s logc finit]; destruct (fe_tx e); reflexivity.
  - cbn [serr_class] in Hx. unfold mint_pair, grant_tokens in *. cbn [mint] in *.
    destruct Hx as [Hx Hs]. rewrite Hx. cbn [fst snd f_s with_s]. rewrite Hs. reflexivity.
Qed.

Lemma fdevice_nf cfg s auth dev :
  cf_dev_contract cfg = false ->
  let r := fdevice e cfg (finit s) auth dev in
  (f_s (fst r), snd r) = device_poll cfg s auth dev.
Proof.
  intros Hrc. unfold fdevice, device_poll, used_device, ffail, fail, rd, wr, planned. rewrite Hrc. cbv zeta. nf_simpl.
  destruct auth as [c|]; [|reflexivity].
  destruct (clients s c) as [cl|]; [|reflexivity].
  destruct (negb (args_has (cl_grants cl) _)); [reflexivity|].
  destruct (key_of s dev) as [k|]; [|reflexivity].
  destruct (device (st s) k) as [[stt r]|]; [|reflexivity].
  repeat match goal with |- context [if ?b then _ else _] => destruct b; [reflexivity|] end.
  match goal with |- context [tx_block e ?x ?m ?w ?rid ?wrt ?sr ?ef] =>
    destruct (tx_block_nf x m w rid wrt sr ef) as [x' Hx] end.
  cbn beta in Hx. unfold mint_pair, grant_tokens in *.
  destruct (can_refresh cfg (r_gscopes r) cl); cbn [mint] in *;
    destruct Hx as [Hx Hs]; rewrite Hx; clear Hx;
    nf_simpl; rewrite Hs; reflexivity.
Qed.

Lemma fpassword_nf cfg s auth ok sc au g ga :
  let r := fpassword e cfg (finit s) auth ok sc au g ga in
  (f_s (fst r), snd r) = password_flow cfg s auth ok sc au g ga.
Proof.
  unfold fpassword, password_flow, ffail, fail, rd, wr, planned. cbv zeta. nf_simpl.
  destruct auth as [c|]; [|reflexivity].
  destruct (clients s c) as [cl|]; [|reflexivity].
  repeat match goal with |- context [if negb ?b then _ else _] => destruct (negb b); [reflexivity|] end.
  unfold fresh_grant, mint_pair, grant_tokens, fresh_rid. cbn [mint].
  destruct (cf_refresh_scopes cfg) as [|s0 l]; [|destruct (args_has_one_of g (s0 :: l))];
    cbn [mint]; nf_simpl; reflexivity.
Qed.

Lemma fclient_credentials_nf cfg s auth sc au g ga :
  let r := fclient_credentials e cfg (finit s) auth sc au g ga in
  (f_s (fst r), snd r) = client_credentials_flow cfg s auth sc au g ga.
Proof.
  unfold fclient_credentials, client_credentials_flow, ffail, fail, rd, wr, planned. cbv zeta. nf_simpl.
  destruct auth as [c|]; [|reflexivity].
  destruct (clients s c) as [cl|]; [|reflexivity].
  repeat match goal with |- context [if ?b then _ else _] => destruct b; [reflexivity|] end.
  unfold fresh_grant, mint_pair, grant_tokens, fresh_rid. cbn [mint]. nf_simpl. reflexivity.
Qed.

Lemma frevoke_nf cfg s auth tok h :
  let r := frevoke e cfg (finit s) auth tok h in
  (f_s (fst r), snd r) = revoke cfg s auth tok h.
Proof.
  unfold frevoke, revoke, revoke_lookup, lookup_rt, lookup_at, ffail, fail, rd, wr, planned. cbv zeta. nf_simpl.
  destruct auth as [c|]; [|reflexivity].
  destruct (clients s c) as [cl|]; [|reflexivity].
  destruct (find (refresh (st s)) (key_of s tok)) as [[[|] rr]|] eqn:Efr;
  destruct (lookup_access (st s) (key_of s tok)) as [ra|] eqn:Efa;
  destruct h; unfold rt_class;
    repeat (progress (nf_simpl; cbn [benign andb fst snd]; rewrite ?Efr, ?Efa));
    try reflexivity;
    try (destruct (negb (Nat.eqb (r_client _) c)); [reflexivity|]);
    match goal with |- context [revoke_refresh ?v ?i] => destruct (revoke_refresh v i) as [st3 [[|]|]] end;
    nf_simpl; cbn [benign andb fst snd serr_class]; reflexivity.
Qed.

Theorem fstep_nf cfg s o :
  cf_dev_contract cfg = false ->
  let '(s', ob, _) := fstep e cfg s o in (s', ob) = step cfg s o.
Proof.
  intros Hrc. destruct o; cbn [fstep step];
    try (match goal with |- context [let (s', ob) := ?t in (s', ob, [])] => destruct t; reflexivity end);
    try reflexivity.
  - apply fredeem_nf. - apply frefresh_nf. - apply frevoke_nf. - apply fpassword_nf.
  - apply fclient_credentials_nf. - apply fdevice_nf; exact Hrc.
Qed.
End NoFaults.

(* ================================================================== fail-closed order on stores *)
(* every record that is live in [b] under a key older than [n] was live in [a] *)
Definition live_code (v : store) k := exists r, codes v k = Some (true, r).
Definition live_access (v : store) k := exists r, access v k = Some r.
Definition live_refresh (v : store) k := exists r, refresh v k = Some (true, r).
Definition live_device (v : store) k := exists p, device v k = Some p.
Definition live_implicit (v : store) k := exists r, implicit v k = Some r.   (* access tokens minted by the authorization endpoint *)
Definition store_le (n : nat) (a b : store) : Prop :=
  forall k, k < n ->
    (live_code b k -> live_code a k) /\ (live_access b k -> live_access a k) /\
    (live_refresh b k -> live_refresh a k) /\ (live_device b k -> live_device a k) /\
    (live_implicit b k -> live_implicit a k).

Lemma sle_refl n a : store_le n a a.
Proof. intros k _. tauto. Qed.
Lemma sle_trans n a b c : store_le n a b -> store_le n b c -> store_le n a c.
Proof. intros H1 H2 k Hk. specialize (H1 k Hk). specialize (H2 k Hk). tauto. Qed.

Lemma sle_step n a b c : store_le n b c -> store_le n a b -> store_le n a c.
Proof. intros; eapply sle_trans; eassumption. Qed.

Lemma sle_create_access n b k r : n <= k -> store_le n b (create_access b k r).
Proof.
  intros Hn k' Hk. unfold live_code, live_access, live_refresh, live_device, live_implicit, create_access. cbn.
  repeat split; auto. intros [r' H]. rewrite upd_neq in H by lia. eauto.
Qed.
Lemma sle_create_refresh n b k r : n <= k -> store_le n b (create_refresh b k r).
Proof.
  intros Hn k' Hk. unfold live_code, live_access, live_refresh, live_device, live_implicit, create_refresh. cbn.
  repeat split; auto. intros [r' H]. rewrite upd_neq in H by lia. eauto.
Qed.
Lemma sle_invalidate_code n b k v' bb : invalidate_code b k = (v', bb) -> store_le n b v'.
Proof.
  unfold invalidate_code. destruct (codes b k) as [[? r]|] eqn:E; intros [= <- <-]; [|apply sle_refl].
  intros k' Hk. unfold live_code, live_access, live_refresh, live_device, live_implicit. cbn. repeat split; auto.
  intros [r' H]. destruct (upd_cases (codes b) k k' (Some (false, r))) as [[-> Eu]|[Hne Eu]]; rewrite Eu in H; [discriminate|eauto].
Qed.
Lemma sle_delete_pkce n b k : store_le n b (delete_pkce b k).
Proof. intros k' Hk. unfold live_code, live_access, live_refresh, live_device, live_implicit, delete_pkce. cbn. tauto. Qed.
Lemma sle_delete_refresh n b k : store_le n b (delete_refresh b k).
Proof.
  intros k' Hk. unfold live_code, live_access, live_refresh, live_device, live_implicit, delete_refresh. cbn. repeat split; auto.
  intros [r' H]. destruct (upd_cases (refresh b) k k' None) as [[-> Eu]|[Hne Eu]]; rewrite Eu in H; [discriminate|eauto].
Qed.
Lemma sle_delete_access n b k : store_le n b (delete_access b k).
Proof.
  intros k' Hk. unfold live_code, live_access, live_refresh, live_device, live_implicit, delete_access. cbn. repeat split; auto.
  - intros [r' H]. destruct (upd_cases (access b) k k' None) as [[-> Eu]|[Hne Eu]]; rewrite Eu in H; [discriminate|eauto].
  - intros [r' H]. destruct (upd_cases (implicit b) k k' None) as [[-> Eu]|[Hne Eu]]; rewrite Eu in H; [discriminate|eauto].
Qed.
Lemma sle_delete_device n b k rid : store_le n b (invalidate_device b k rid).
Proof.
  intros k' Hk. unfold live_code, live_access, live_refresh, live_device, live_implicit, invalidate_device, delete_device. cbn. repeat split; auto.
  intros [r' H]. destruct (upd_cases (device b) k k' None) as [[-> Eu]|[Hne Eu]]; rewrite Eu in H; [discriminate|eauto].
Qed.
Lemma sle_revoke_access n b rid : store_le n b (revoke_access b rid).
Proof.
  destruct (revoke_access_tables b rid) as (Hc & Hr & _).
  assert (Hd : device (revoke_access b rid) = device b) by (unfold revoke_access; reflexivity).
  assert (Hi : forall k r, implicit (revoke_access b rid) k = Some r -> implicit b k = Some r).
  { unfold revoke_access. cbn. intros k r H. now apply drop_rid_some in H as [H _]. }
  intros k Hk. unfold live_code, live_access, live_refresh, live_device, live_implicit. rewrite Hc, Hr, Hd. repeat split; auto.
  - intros [r H]. eauto using revoke_access_sub.
  - intros [r H]. eauto.
Qed.
Lemma sle_revoke_refresh n b rid v' oe : revoke_refresh b rid = (v', oe) -> store_le n b v'.
Proof.
  unfold revoke_refresh. destruct (rt_idx b rid) as [k|]; [|intros [= <- <-]; apply sle_refl].
  destruct (refresh b k) as [[? r]|] eqn:E; intros [= <- <-]; [|apply sle_refl].
  intros k' Hk. unfold live_code, live_access, live_refresh, live_device, live_implicit. cbn. repeat split; auto.
  intros [r' H]. destruct (upd_cases (refresh b) k k' (Some (false, r))) as [[-> Eu]|[Hne Eu]]; rewrite Eu in H; [discriminate|eauto].
Qed.
Lemma sle_rotate_refresh n b rid v' oe : rotate_refresh b rid = (v', oe) -> store_le n b v'.
Proof.
  unfold rotate_refresh. destruct (revoke_refresh b rid) as [v1 [er|]] eqn:E; intros [= <- <-].
  - eapply sle_revoke_refresh; eassumption.
  - eapply sle_trans; [eapply sle_revoke_refresh; eassumption|apply sle_revoke_access].
Qed.

(* ================================================================== errors of the PKCE check are never empty *)
Lemma pkce_no_pkce_err cfg cl err : pkce_no_pkce cfg cl = Some err -> err = "invalid_request".
Proof. unfold pkce_no_pkce. repeat match goal with |- context [if ?b then _ else _] => destruct b end; congruence. Qed.
Lemma pkce_validate_err cfg ch m cl err : pkce_validate cfg ch m cl = Some err -> err = "invalid_request".
Proof.
  unfold pkce_validate. repeat match goal with |- context [if ?b then _ else _] => destruct b end;
    try congruence; apply pkce_no_pkce_err.
Qed.
Lemma pkce_token_err cfg s cl key v vh err :
  snd (pkce_token cfg s cl key v vh) = Some err -> err = "invalid_request" \/ err = "invalid_grant".
Proof.
  unfold pkce_token. destruct (find (pkce (st s)) key), key.
  - destruct (pkce_validate _ _ _ _) eqn:E; cbn [snd].
    + intros [= <-]. left. eapply pkce_validate_err; eassumption.
    + repeat match goal with |- context [if ?b then _ else _] => destruct b end; cbn [snd]; intros [= <-]; auto.
  - destruct (Nat.eqb _ 0); cbn [snd]; [intros H; left; eapply pkce_no_pkce_err; eassumption|intros [= <-]; auto].
  - destruct (Nat.eqb _ 0); cbn [snd]; [intros H; left; eapply pkce_no_pkce_err; eassumption|intros [= <-]; auto].
  - destruct (Nat.eqb _ 0); cbn [snd]; [intros H; left; eapply pkce_no_pkce_err; eassumption|intros [= <-]; auto].
Qed.

(* ================================================================== what every execution satisfies *)
Definition flow_ok (e : fenv) (s : state) (o : op) (x' : fstate) (ob : obs) : Prop :=
  mon_c (fe_tx e) (f_calls x') = None /\
  mon_serial o (f_calls x') ob = None /\
  (mon_b o (f_calls x') ob = None \/
   mon_b o (f_calls x') ob = Some "tokens_issued_after_notfound_fault_on_pkce_lookup") /\
  (rolled_back (fe_tx e) (f_calls x') = true -> st (f_s x') = st s /\ log (f_s x') = log s) /\
  (succeeded ob = false -> log (f_s x') = log s) /\
  clients (f_s x') = clients s /\ now (f_s x') = now s /\
  store_le (next_key s) (st s) (st (f_s x')) /\
  f_snap x' = None /\
  panicked ob = false.

Definition flow_okp e s o (r : fstate * obs) : Prop := flow_ok e s o (fst r) (snd r).


(* ================================================================== the two transactional blocks *)
Lemma tx_run_app q a b : tx_run q (a ++ b) = match tx_run q a with Some q' => tx_run q' b | None => None end.
Proof. revert q. induction a as [|c a IH]; intros q; cbn; [reflexivity|]. destruct (tx_step q (ev_of c)); [apply IH|reflexivity]. Qed.

Definition any_tx (l : list call) : bool := existsb (fun c => is_tx_meth (fst c)) l.
Definition serial_in_tx (l : list call) : bool :=
  existsb (fun c => in_refresh_tx (fst c) && rclass_eqb (snd c) (RInj FSerial)) l.
Definition any_rollback (l : list call) : bool := has_call l MRollback (fun _ => true).

(* what one issuing transaction does, whatever the plan: [l] = the storage calls it made *)
Record blk_ok (e : fenv) (rf : bool) (x x' : fstate) (res : string + (nat * option nat)) (l : list call) : Prop := {
  bk_calls : f_calls x' = (f_calls x ++ l)%list;
  bk_wf : tx_run QIdle l = Some QIdle;
  bk_plain : fe_tx e = false -> any_tx l = false;
  bk_snap : f_snap x' = None;
  bk_clients : clients (f_s x') = clients (f_s x);
  bk_now : now (f_s x') = now (f_s x);
  bk_log : log (f_s x') = log (f_s x);
  bk_key : next_key (f_s x) <= next_key (f_s x');
  bk_le : store_le (next_key (f_s x)) (st (f_s x)) (st (f_s x'));
  bk_res : match res with
           | inr _ => injected l = false /\ any_rollback l = false /\ has_call l MCommit is_ok = fe_tx e /\ has_call l MBegin is_ok = fe_tx e
           | inl err => (err = "server_error" \/ err = "invalid_request") /\ (rolled_back (fe_tx e) l = true -> st (f_s x') = st (f_s x)) /\
                        (rf = true -> serial_in_tx l = true -> has_call l MRollback is_injr = false -> err = "invalid_request")
           end
}.

Ltac fl_unfold :=
  unfold fredeem, frefresh, fdevice, fpassword, fclient_credentials, frevoke, freuse, lookup_rt, lookup_at,
         fpkce_handle, tx_block, commit_part, abort, begin_tx, commit_tx, rollback_tx, rd, wr, planned, ffail,
         inval_code, mint_pair, mint, fresh_rid, code_class, rt_class, srv; cbv zeta.
Ltac fl_cbn :=
  cbn [f_s f_n f_calls f_snap finit logc with_s with_store set_snap fst snd app coincides o_err o_minted err_obs ok_obs
       nf_grant refresh_err raw_err serr_class kinds_of benign andb orb negb find
       st clients now next_key next_rid log owner set_store log_add].
Ltac fl_split :=
  repeat (fl_cbn; match goal with
          | |- context [match ?x with _ => _ end] =>
              lazymatch x with
              | context [match _ with _ => _ end] => fail
              | _ => destruct x eqn:?
              end
          end).

Definition blk_okp e rf x (r : fstate * (string + (nat * option nat))) : Prop :=
  exists l, blk_ok e rf x (fst r) (snd r) l.

Ltac sle_tac :=
  repeat first
    [ apply sle_refl
    | eapply sle_step; [apply sle_create_access; cbn; lia|]
    | eapply sle_step; [apply sle_create_refresh; cbn; lia|]
    | eapply sle_step; [apply sle_delete_pkce|]
    | eapply sle_step; [apply sle_delete_refresh|]
    | eapply sle_step; [apply sle_delete_device|]
    | eapply sle_step; [apply sle_revoke_access|]
    | match goal with H : invalidate_code ?b ?k = (?v', _) |- store_le _ _ ?v' => eapply sle_step; [eapply sle_invalidate_code; exact H|] end
    | match goal with H : revoke_refresh ?b ?k = (?v', _) |- store_le _ _ ?v' => eapply sle_step; [eapply sle_revoke_refresh; exact H|] end
    | match goal with H : rotate_refresh ?b ?k = (?v', _) |- store_le _ _ ?v' => eapply sle_step; [eapply sle_rotate_refresh; exact H|] end
    | match goal with Hw : (forall v v' c, ?w v = (v', c) -> store_le _ v v'), H : ?w ?b = (?v', _) |- store_le _ _ ?v' => eapply sle_step; [eapply Hw; exact H|] end ].

Ltac split_faults :=
  repeat match goal with
  | |- context [RInj ?f] => is_var f; destruct f
  | |- context [refresh_err ?f] => is_var f; destruct f
  | |- context [nf_grant ?f] => is_var f; destruct f
  | |- context [raw_err ?f] => is_var f; destruct f
  | |- context [match ?f with FGen => _ | FNotFound => _ | FInactive => _ | FSerial => _ end] => is_var f; destruct f
  end.
Ltac blk_bool Hm := try (destruct Hm as [ -> | [ -> | -> ] ]); split_faults; vm_compute; try reflexivity; try discriminate; auto.

Ltac blk_leaf Hm Etx :=
  unfold blk_okp; cbn [fst snd]; eexists; constructor; fl_cbn; rewrite ?Etx;
  [ rewrite <- ?app_assoc; reflexivity
  | cbn [app]; blk_bool Hm
  | cbn [app]; intros; blk_bool Hm
  | try reflexivity; assumption | reflexivity | reflexivity | reflexivity
  | cbn; lia
  | sle_tac
  | cbn [app];
    match goal with
    | |- _ /\ _ /\ _ /\ _ = _ => split; [blk_bool Hm|split; [blk_bool Hm|split; blk_bool Hm]]
    | |- _ /\ _ /\ _ =>
        split; [try (match goal with b : bool |- _ => destruct b end); split_faults; cbn; auto
               |split; [intros Hrb; try reflexivity; exfalso; revert Hrb; blk_bool Hm
                       |intros Hrf Hs Hr; try discriminate Hrf; revert Hs Hr; blk_bool Hm]]
    end ].

Lemma tx_block_ok e rf x m1 w1 rid with_rt stored :
  (m1 = MInvalidateCode \/ m1 = MRotateRT \/ m1 = MInvalidateDevice) ->
  (forall v v' c, w1 v = (v', c) -> store_le (next_key (f_s x)) v v') ->
  f_snap x = None ->
  blk_okp e rf x (tx_block e x m1 w1 rid with_rt stored (if rf then refresh_err else srv)).
Proof.
  intros Hm Hw Hsn. fl_unfold. destruct (fe_tx e) eqn:Etx.
  all: fl_split.
  all: solve [blk_leaf Hm Etx].
Qed.

(* the reuse handler's transaction *)
Record reuse_ok (e : fenv) (x x' : fstate) (res : option string) (l : list call) : Prop := {
  ru_calls : f_calls x' = (f_calls x ++ l)%list;
  ru_wf : tx_run QIdle l = Some QIdle;
  ru_plain : fe_tx e = false -> any_tx l = false;
  ru_snap : f_snap x' = None;
  ru_clients : clients (f_s x') = clients (f_s x);
  ru_now : now (f_s x') = now (f_s x);
  ru_log : log (f_s x') = log (f_s x);
  ru_key : next_key (f_s x') = next_key (f_s x);
  ru_le : store_le (next_key (f_s x)) (st (f_s x)) (st (f_s x'));
  ru_err : forall err, res = Some err -> err = "server_error" \/ err = "invalid_request";
  ru_rb : rolled_back (fe_tx e) l = true -> st (f_s x') = st (f_s x);
  ru_serial : serial_in_tx l = true -> has_call l MRollback is_injr = false -> res = Some "invalid_request"
}.
Definition reuse_okp e x (r : fstate * option string) : Prop := exists l, reuse_ok e x (fst r) (snd r) l.

Lemma revoke_refresh_class v rid v' oe : revoke_refresh v rid = (v', oe) -> oe = None \/ oe = Some SNotFound.
Proof.
  unfold revoke_refresh. destruct (rt_idx v rid); [|intros [= _ <-]; auto].
  destruct (refresh v n) as [[? ?]|]; intros [= _ <-]; auto.
Qed.
Ltac rr_class :=
  repeat match goal with
  | H : revoke_refresh _ _ = (_, ?o) |- _ => is_var o; destruct (revoke_refresh_class _ _ _ _ H); subst o
  end.

Ltac ru_bool := split_faults; vm_compute; try reflexivity; try discriminate; auto.
Ltac reuse_leaf1 Etx :=
  unfold reuse_okp; cbn [fst snd]; eexists; constructor; fl_cbn; rewrite ?Etx;
  [ rewrite <- ?app_assoc; reflexivity
  | cbn [app]; ru_bool
  | cbn [app]; intros; ru_bool
  | try reflexivity; assumption | reflexivity | reflexivity | reflexivity | reflexivity
  | sle_tac
  | intros err Herr; try discriminate Herr; injection Herr as <-; split_faults; cbn; auto
  | cbn [app]; intros Hrb; try reflexivity; exfalso; revert Hrb; ru_bool
  | cbn [app]; intros Hs Hr; revert Hs Hr; ru_bool ].
Ltac reuse_leaf Etx := rr_class; reuse_leaf1 Etx.

Lemma freuse_ok e x k rid : f_snap x = None -> reuse_okp e x (freuse e x k rid).
Proof.
  intros Hsn. fl_unfold. destruct (fe_tx e) eqn:Etx.
  all: fl_split.
  all: solve [reuse_leaf Etx].
Qed.

(* ================================================================== flows without a transaction: case analysis over the whole flow *)
Ltac err_nonempty :=
  repeat match goal with
  | H : snd (pkce_token _ _ _ _ _ _) = Some ?err |- _ => destruct (pkce_token_err _ _ _ _ _ _ _ H); subst err; clear H
  | H : pkce_no_pkce _ _ = Some ?err |- _ => apply pkce_no_pkce_err in H; subst err
  end.

(* the boolean clauses are closed terms once the fault variables are instantiated *)
Ltac bool_leaf :=
  split_faults; vm_compute; auto.

Ltac leaf1 :=
  unfold flow_okp, flow_ok; fl_cbn;
  match goal with H : fe_tx _ = _ |- _ => rewrite !H end;
  split; [bool_leaf|];
  split; [bool_leaf|];
  split; [bool_leaf|];
  split; [try (intros; split; reflexivity); try (intros Hrb; exfalso; revert Hrb; bool_leaf; discriminate)|];
  split; [try reflexivity; try (intros Hrb; exfalso; revert Hrb; vm_compute; discriminate)|];
  split; [reflexivity|];
  split; [reflexivity|];
  split; [sle_tac|split; [reflexivity|bool_leaf]].
Ltac leaf := err_nonempty; leaf1.

Lemma fclient_credentials_ok e cfg s auth sc au g ga :
  flow_okp e s (OClientCreds auth sc au g ga) (fclient_credentials e cfg (finit s) auth sc au g ga).
Proof.
  fl_unfold. destruct (fe_tx e) eqn:Etx. all: fl_split. all: leaf.
Qed.

Lemma fpassword_ok e cfg s auth ok sc au g ga :
  flow_okp e s (OPassword auth ok sc au g ga) (fpassword e cfg (finit s) auth ok sc au g ga).
Proof.
  fl_unfold. destruct (fe_tx e) eqn:Etx. all: fl_split. all: leaf.
Qed.


(* ================================================================== observations do not depend on the key counters *)
Definition vis_eq (s1 s2 : state) : Prop :=
  st s1 = st s2 /\ clients s1 = clients s2 /\ now s1 = now s2 /\ log s1 = log s2.

Lemma grant_tokens_kinds s r w : snd (grant_tokens s r w) = if w then [KAccess; KRefresh] else [KAccess].
Proof. unfold grant_tokens. destruct w; reflexivity. Qed.

Lemma pkce_token_vis cfg s1 s2 cl key v vh :
  st s1 = st s2 -> snd (pkce_token cfg s1 cl key v vh) = snd (pkce_token cfg s2 cl key v vh).
Proof.
  intros H. unfold pkce_token. rewrite H.
  destruct (find (pkce (st s2)) key), key; try (destruct (Nat.eqb _ 0); reflexivity).
  destruct (pkce_validate _ _ _ _); [reflexivity|].
  repeat match goal with |- context [if ?b then _ else _] => destruct b end; reflexivity.
Qed.

Lemma redeem_obs_vis cfg s1 s2 auth code redirect v vh :
  vis_eq s1 s2 -> snd (redeem cfg s1 auth code redirect v vh) = snd (redeem cfg s2 auth code redirect v vh).
Proof.
  intros (Hst & Hcl & Hnow & Hlog). unfold redeem, fail, key_of. rewrite Hst, Hcl, Hnow, Hlog.
  destruct auth as [c|]; [|reflexivity].
  destruct (clients s2 c) as [cl|]; [|reflexivity].
  destruct (negb _); [reflexivity|].
  destruct (match p_ref code with CRef i => option_map i_key (nth_error (log s2) i) | CUnknown => None end) as [k|]; [|reflexivity].
  destruct (codes (st s2) k) as [[[|] r]|]; try reflexivity.
  repeat match goal with |- context [if ?b then _ else _] => destruct b; [reflexivity|] end.
  pose proof (pkce_token_vis cfg s1 s2 cl (Some k) v vh Hst) as Hp.
  pose proof (pkce_token_fst cfg s1 cl (Some k) v vh) as H1. pose proof (pkce_token_fst cfg s2 cl (Some k) v vh) as H2.
  destruct (pkce_token cfg s1 cl (Some k) v vh) as [a v1]; destruct (pkce_token cfg s2 cl (Some k) v vh) as [b v2].
  cbn [fst snd] in *. subst a b v2. destruct v1; [reflexivity|]. rewrite Hnow.
  destruct (expired _ _ _ _); [reflexivity|].
  match goal with |- snd (let (s3, minted) := grant_tokens ?A ?r ?w in _) = snd (let (s3', minted') := grant_tokens ?B ?r ?w in _) =>
    pose proof (grant_tokens_kinds A r w) as Ha; pose proof (grant_tokens_kinds B r w) as Hb;
    destruct (grant_tokens A r w); destruct (grant_tokens B r w) end.
  cbn [snd] in *. subst. reflexivity.
Qed.

Lemma refresh_obs_vis cfg s1 s2 auth tok :
  vis_eq s1 s2 -> snd (refresh_flow cfg s1 auth tok) = snd (refresh_flow cfg s2 auth tok).
Proof.
  intros (Hst & Hcl & Hnow & Hlog). unfold refresh_flow, fail, key_of. rewrite Hst, Hcl, Hnow, Hlog.
  destruct auth as [c|]; [|reflexivity].
  destruct (clients s2 c) as [cl|]; [|reflexivity].
  destruct (negb _); [reflexivity|].
  destruct (match p_ref tok with CRef i => option_map i_key (nth_error (log s2) i) | CUnknown => None end) as [k|]; [|reflexivity].
  cbn [find]. destruct (refresh (st s2) k) as [[[|] r]|]; try reflexivity.
  repeat match goal with |- context [if ?b then _ else _] => destruct b; [reflexivity|] end.
  destruct (rotate_refresh (st s2) (r_id r)) as [st1 [er|]]; [reflexivity|].
  match goal with |- snd (let (s3, minted) := grant_tokens ?A ?r ?w in _) = snd (let (s3', minted') := grant_tokens ?B ?r ?w in _) =>
    pose proof (grant_tokens_kinds A r w) as Ha; pose proof (grant_tokens_kinds B r w) as Hb;
    destruct (grant_tokens A r w); destruct (grant_tokens B r w) end.
  cbn [snd] in *. subst. reflexivity.
Qed.

Lemma device_obs_vis cfg s1 s2 auth dev :
  vis_eq s1 s2 -> snd (device_poll cfg s1 auth dev) = snd (device_poll cfg s2 auth dev).
Proof.
  intros (Hst & Hcl & Hnow & Hlog). unfold device_poll, fail, key_of. rewrite Hst, Hcl, Hnow, Hlog.
  destruct auth as [c|]; [|reflexivity].
  destruct (clients s2 c) as [cl|]; [|reflexivity].
  destruct (negb _); [reflexivity|].
  destruct (match p_ref dev with CRef i => option_map i_key (nth_error (log s2) i) | CUnknown => None end) as [k|]; [|reflexivity].
  destruct (used_device cfg (st s2) k); [reflexivity|].
  destruct (device (st s2) k) as [[stt r]|]; try reflexivity.
  repeat match goal with |- context [if ?b then _ else _] => destruct b; [reflexivity|] end.
  match goal with |- snd (let (s3, minted) := grant_tokens ?A ?r ?w in _) = snd (let (s3', minted') := grant_tokens ?B ?r ?w in _) =>
    pose proof (grant_tokens_kinds A r w) as Ha; pose proof (grant_tokens_kinds B r w) as Hb;
    destruct (grant_tokens A r w); destruct (grant_tokens B r w) end.
  cbn [snd] in *. subst. reflexivity.
Qed.
