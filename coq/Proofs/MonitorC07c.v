(* C07: the "lifetime of its grant" clause of the history monitor (Cases/Monitors.v life_ok) is sound for the model. *)
From FositeModel Require Import Base.Str Model.Scope Model.Core Model.Flows Cases.Common Cases.CasesHist Cases.Monitors
     Proofs.CoreInv Proofs.StepInv Proofs.Family Proofs.StepProps Proofs.NowStep Proofs.LogStep Proofs.MonitorC07
     Proofs.FaultsProofs Proofs.MonitorC07b Proofs.ClientsStep.
From Coq Require Import ZifyBool.
Ltac Zify.zify_post_hook ::= Z.div_mod_to_equations.

Arguments upd : simpl never.

Lemma round_s_near x : (Z.abs (round_s x - x) <= 500)%Z.
Proof. unfold round_s. lia. Qed.

Definition lifeA (cfg : config) (cl : client) (g : lgrant) : Z := eff (override cl g false) (cf_life_at cfg).
Definition lifeR (cfg : config) (cl : client) (g : lgrant) : Z := eff (override cl g true) (cf_life_rt cfg).

(* the session of the record stored by a minting step *)
Definition at_ok (cfg : config) (s : state) (cl : client) (g : lgrant) (se : sess) : Prop :=
  exists X, s_exp_at se = Some X /\ (Z.abs (X - (now s + lifeA cfg cl g)) <= 500)%Z.
Definition rt_ok (cfg : config) (s : state) (cl : client) (g : lgrant) (se : sess) : Prop :=
  (0 <= lifeR cfg cl g)%Z -> exists X, s_exp_rt se = Some X /\ (Z.abs (X - (now s + lifeR cfg cl g)) <= 500)%Z.

Definition life_fact (cfg : config) (s : state) (o : op) (r : state * obs) : Prop :=
  o_err (snd r) = "" ->
  forall c g cl new, minting_grant o = Some (c, g) -> clients s c = Some cl -> log (fst r) = (log s ++ new)%list ->
  (forall j e, minted_access_pos (o_minted (snd r)) = Some j -> nth_error new j = Some e ->
     exists rec, lookup_access (st (fst r)) (Some (i_key e)) = Some rec /\
       exists X, s_exp_at (r_sess rec) = Some X /\ (Z.abs (X - (now s + lifeA cfg cl g)) <= 500)%Z) /\
  (forall j e, minted_refresh_pos (o_minted (snd r)) = Some j -> nth_error new j = Some e ->
     exists rec, refresh (st (fst r)) (i_key e) = Some (true, rec) /\
       ((0 <= lifeR cfg cl g)%Z -> exists X, s_exp_rt (r_sess rec) = Some X /\ (Z.abs (X - (now s + lifeR cfg cl g)) <= 500)%Z)).

Lemma life_fact_fail cfg s o s' e : e <> ""%string -> life_fact cfg s o (fail s' e).
Proof. intros He H. cbn in H. congruence. Qed.

(* grant_tokens: both records sit under the keys of the new log entries *)
Lemma grant_tokens_both s stored w :
  exists ka, access (st (fst (grant_tokens s stored w))) ka = Some stored /\
  if w then exists kr,
      log (fst (grant_tokens s stored w)) =
        (log s ++ [{| i_kind := KAccess; i_key := ka; i_rid := r_id stored; i_endpoint_token := true |};
                   {| i_kind := KRefresh; i_key := kr; i_rid := r_id stored; i_endpoint_token := true |}])%list /\
      refresh (st (fst (grant_tokens s stored w))) kr = Some (true, stored) /\ snd (grant_tokens s stored w) = [KAccess; KRefresh]
  else log (fst (grant_tokens s stored w)) =
        (log s ++ [{| i_kind := KAccess; i_key := ka; i_rid := r_id stored; i_endpoint_token := true |}])%list /\
       snd (grant_tokens s stored w) = [KAccess].
Proof.
  unfold grant_tokens, mint, log_add. destruct w; cbn.
  - eexists. split; [rewrite upd_eq; reflexivity|]. eexists. split; [reflexivity|]. split; [rewrite upd_eq; reflexivity|reflexivity].
  - eexists. split; [rewrite upd_eq; reflexivity|]. split; reflexivity.
Qed.

Lemma life_after_grant cfg s o s2 stored w sc ein sF c0 g0 cl0 :
  minting_grant o = Some (c0, g0) -> clients s c0 = Some cl0 ->
  at_ok cfg s cl0 g0 (r_sess stored) -> (w = true -> rt_ok cfg s cl0 g0 (r_sess stored)) ->
  log s2 = log s ->
  log sF = log (fst (grant_tokens s2 stored w)) -> access (st sF) = access (st (fst (grant_tokens s2 stored w))) ->
  refresh (st sF) = refresh (st (fst (grant_tokens s2 stored w))) ->
  life_fact cfg s o (sF, ok_obs (snd (grant_tokens s2 stored w)) ein sc).
Proof.
  intros Hmg Hcl HA HR H2 HF HAc HRf _ c g cl new Hmg' Hcl' Hlog. cbn [fst snd ok_obs o_minted] in *.
  rewrite Hmg in Hmg'. injection Hmg' as <- <-. rewrite Hcl in Hcl'. injection Hcl' as <-.
  destruct (grant_tokens_both s2 stored w) as [ka [Hacc Hw]]. rewrite HF in Hlog. destruct w.
  - destruct Hw as [kr [Hl [Href Hm]]]. rewrite Hl, H2 in Hlog. apply app_inv_head in Hlog. subst new. rewrite Hm. split.
    + intros j e Hp Hn. cbn in Hp. injection Hp as <-. cbn in Hn. injection Hn as <-. cbn [i_key].
      exists stored. split; [unfold lookup_access; rewrite HAc, Hacc; reflexivity|exact HA].
    + intros j e Hp Hn. cbn in Hp. injection Hp as <-. cbn in Hn. injection Hn as <-. cbn [i_key].
      exists stored. split; [rewrite HRf; exact Href|exact (HR eq_refl)].
  - destruct Hw as [Hl Hm]. rewrite Hl, H2 in Hlog. apply app_inv_head in Hlog. subst new. rewrite Hm. split.
    + intros j e Hp Hn. cbn in Hp. injection Hp as <-. cbn in Hn. injection Hn as <-. cbn [i_key].
      exists stored. split; [unfold lookup_access; rewrite HAc, Hacc; reflexivity|exact HA].
    + intros j e Hp Hn. cbn in Hp. discriminate.
Qed.


Lemma at_ok_set cfg s cl g se : at_ok cfg s cl g (set_token_expiries (eff_cfg cfg cl g) (now s) se).
Proof. eexists. split; [reflexivity|]. apply round_s_near. Qed.
Lemma rt_ok_set cfg s cl g se : rt_ok cfg s cl g (set_token_expiries (eff_cfg cfg cl g) (now s) se).
Proof.
  intros H. unfold set_token_expiries. cbn [s_exp_rt].
  change (cf_life_rt (eff_cfg cfg cl g)) with (lifeR cfg cl g). destruct (Z.leb_spec 0 (lifeR cfg cl g)); [|lia].
  eexists. split; [reflexivity|]. apply round_s_near.
Qed.
(* the device grant has no entry in the client's table *)
Lemma lifeA_device cfg cl : lifeA cfg cl LDevice = cf_life_at cfg.
Proof. unfold lifeA, override. destruct (cl_life cl); reflexivity. Qed.
Lemma lifeR_device cfg cl : lifeR cfg cl LDevice = cf_life_rt cfg.
Proof. unfold lifeR, override. destruct (cl_life cl); reflexivity. Qed.
Lemma at_ok_set_device cfg s cl se : at_ok cfg s cl LDevice (set_token_expiries cfg (now s) se).
Proof. eexists. split; [reflexivity|]. rewrite lifeA_device. apply round_s_near. Qed.
Lemma rt_ok_set_device cfg s cl se : rt_ok cfg s cl LDevice (set_token_expiries cfg (now s) se).
Proof.
  intros H. unfold set_token_expiries. cbn [s_exp_rt]. rewrite lifeR_device in *.
  destruct (Z.leb_spec 0 (cf_life_rt cfg)); [|lia]. eexists. split; [reflexivity|]. apply round_s_near.
Qed.

Ltac lnofail := apply life_fact_fail; discriminate.

Lemma life_redeem cfg s auth code redirect v vh sm :
  life_fact cfg s (ORedeem auth code redirect v vh sm) (redeem cfg s auth code redirect v vh).
Proof.
  unfold redeem.
  destruct auth as [c|]; [|lnofail]. destruct (clients s c) as [cl|] eqn:Ecl; [|lnofail].
  destruct (negb (args_has (cl_grants cl) ["authorization_code"])); [lnofail|].
  destruct (key_of s code) as [k|]; [|lnofail].
  destruct (codes (st s) k) as [[[|] r]|]; [| lnofail |lnofail].
  destruct (p_tampered code); [lnofail|].
  destruct (negb (Nat.eqb (r_client r) c)); [lnofail|].
  destruct (negb (String.eqb (r_redirect r) "") && negb (String.eqb (r_redirect r) redirect)); [lnofail|].
  pose proof (log_pkce_token cfg s cl (Some k) v vh) as H1.
  pose proof (pkce_token_err_nonempty cfg s cl (Some k) v vh) as Hne.
  destruct (pkce_token cfg s cl (Some k) v vh) as [s1 [e|]]; cbn [fst snd] in *;
    [apply life_fact_fail; intros ->; apply Hne; reflexivity|].
  destruct (expired _ _ _ _); [lnofail|].
  match goal with |- context [grant_tokens ?s2 ?stored ?w] =>
    pose proof (life_after_grant cfg s (ORedeem (Some c) code redirect v vh sm) s2 stored w (r_gscopes r)) as G;
    destruct (grant_tokens s2 stored w) as [s3 minted] end.
  cbn [fst snd] in G. eapply G; try reflexivity; try exact Ecl; try exact H1.
  - apply at_ok_set.
  - intros _. apply rt_ok_set.
Qed.

Lemma life_refresh_flow cfg s auth tok sm : life_fact cfg s (ORefresh auth tok sm) (refresh_flow cfg s auth tok).
Proof.
  unfold refresh_flow.
  destruct auth as [c|]; [|lnofail]. destruct (clients s c) as [cl|] eqn:Ecl; [|lnofail].
  destruct (negb (args_has (cl_grants cl) ["refresh_token"])); [lnofail|].
  destruct (key_of s tok) as [k|]; cbn [find]; [|lnofail].
  destruct (refresh (st s) k) as [[[|] r]|]; [| lnofail |lnofail].
  repeat match goal with |- context [if ?c then fail s _ else _] => destruct c; [lnofail|] end.
  destruct (rotate_refresh (st s) (r_id r)) as [st1 [e|]]; [lnofail|].
  match goal with |- context [grant_tokens ?s2 ?stored ?w] =>
    pose proof (life_after_grant cfg s (ORefresh (Some c) tok sm) s2 stored w (r_gscopes r)) as G;
    destruct (grant_tokens s2 stored w) as [s3 minted] end.
  cbn [fst snd] in G. eapply G; try reflexivity; try exact Ecl.
  - apply at_ok_set.
  - intros _. apply rt_ok_set.
Qed.

Lemma life_device_poll cfg s auth dev : life_fact cfg s (ODevicePoll auth dev) (device_poll cfg s auth dev).
Proof.
  unfold device_poll.
  destruct auth as [c|]; [|lnofail]. destruct (clients s c) as [cl|] eqn:Ecl; [|lnofail].
  destruct (negb (args_has (cl_grants cl) _)); [lnofail|].
  destruct (key_of s dev) as [k|]; [|lnofail].
  destruct (used_device cfg (st s) k) as [rid|]; [lnofail|].
  destruct (device (st s) k) as [[stt r]|]; [|lnofail].
  repeat match goal with |- context [if ?c then fail s _ else _] => destruct c; [lnofail|] end.
  match goal with |- context [grant_tokens ?s2 ?stored ?w] =>
    pose proof (life_after_grant cfg s (ODevicePoll (Some c) dev) s2 stored w (r_gscopes r)) as G;
    destruct (grant_tokens s2 stored w) as [s3 minted] end.
  cbn [fst snd] in G. eapply G; try reflexivity; try exact Ecl.
  - apply at_ok_set_device.
  - intros _. apply rt_ok_set_device.
Qed.

Lemma life_password_flow cfg s auth ok sc au g ga : life_fact cfg s (OPassword auth ok sc au g ga) (password_flow cfg s auth ok sc au g ga).
Proof.
  unfold password_flow. destruct auth as [c|]; [|lnofail]. destruct (clients s c) as [cl|] eqn:Ecl; [|lnofail].
  repeat match goal with |- context [if ?c then fail s _ else _] => destruct c; [lnofail|] end.
  unfold fresh_grant, fresh_rid.
  match goal with |- context [grant_tokens ?s2 ?stored ?w] =>
    pose proof (life_after_grant cfg s (OPassword (Some c) true sc au g ga) s2 stored w g) as G; destruct (grant_tokens s2 stored w) as [s3 minted] end.
  cbn [fst snd] in G. eapply G; try reflexivity; try exact Ecl.
  - eexists. split; [reflexivity|]. apply round_s_near.
  - intros _ H. unfold fresh_session. cbn [s_exp_rt r_sess andb].
    change (cf_life_rt (eff_cfg cfg cl LPassword)) with (lifeR cfg cl LPassword).
    destruct (Z.leb_spec 0 (lifeR cfg cl LPassword)); [|lia]. eexists. split; [reflexivity|]. apply round_s_near.
Qed.

Lemma life_client_credentials_flow cfg s auth sc au g ga :
  life_fact cfg s (OClientCreds auth sc au g ga) (client_credentials_flow cfg s auth sc au g ga).
Proof.
  unfold client_credentials_flow. destruct auth as [c|]; [|lnofail]. destruct (clients s c) as [cl|] eqn:Ecl; [|lnofail].
  repeat match goal with |- context [if ?c then fail s _ else _] => destruct c; [lnofail|] end.
  unfold fresh_grant, fresh_rid.
  match goal with |- context [grant_tokens ?s2 ?stored ?w] =>
    pose proof (life_after_grant cfg s (OClientCreds (Some c) sc au g ga) s2 stored w g) as G; destruct (grant_tokens s2 stored w) as [s3 minted] end.
  cbn [fst snd] in G. eapply G; try reflexivity; try exact Ecl.
  - exists (now s + lifeA cfg cl LClientCreds)%Z. split; [reflexivity|lia].
  - discriminate.
Qed.

Lemma life_fact_nothing cfg s o r :
  minted_access_pos (o_minted (snd r)) = None -> minted_refresh_pos (o_minted (snd r)) = None -> life_fact cfg s o r.
Proof. intros H1 H2 _ c g cl new _ _ _. split; intros j e Hp; congruence. Qed.

Lemma life_fact_no_grant cfg s o r : minting_grant o = None -> life_fact cfg s o r.
Proof. intros H _ c g cl new Hm. congruence. Qed.

Lemma life_authorize_implicit cfg s cl a :
  Inv s -> clients s (az_client a) = Some cl -> life_fact cfg s (OAuthorize a) (authorize_implicit cfg s cl a).
Proof.
  intros I Ecl. unfold authorize_implicit.
  repeat match goal with |- context [if ?c then fail s _ else _] => destruct c; [lnofail|] end.
  unfold fresh_rid, issue_implicit, store_implicit, mint, log_add.
  intros _ c g cl0 new Hmg Hcl Hlog. cbn in Hmg. injection Hmg as <- <-. rewrite Ecl in Hcl. injection Hcl as <-.
  cbn in Hlog. apply app_inv_head in Hlog. subst new. split.
  - intros j e Hp Hn. cbn in Hp. injection Hp as <-. cbn in Hn. injection Hn as <-. cbn [i_key fst snd].
    eexists. split; [unfold lookup_access; cbn; rewrite (fresh_key_no_access s I), upd_eq; reflexivity|].
    eexists. split; [reflexivity|]. apply round_s_near.
  - intros j e Hp. cbn in Hp. discriminate.
Qed.

Lemma life_authorize_hybrid cfg s cl a :
  Inv s -> clients s (az_client a) = Some cl -> life_fact cfg s (OAuthorize a) (authorize_hybrid cfg s cl a).
Proof.
  intros I Ecl. unfold authorize_hybrid.
  repeat match goal with |- context [if ?c then fail s _ else _] => destruct c; [lnofail|] end.
  unfold fresh_rid, issue_implicit, store_implicit, mint, log_add.
  destruct (negb (args_has (cl_grants cl) ["implicit"])); [lnofail|].
  destruct (pkce_validate cfg (az_challenge a) (az_method a) cl) as [e|] eqn:Ev.
  { apply life_fact_fail. rewrite (pkce_validate_err _ _ _ _ _ Ev). discriminate. }
  assert (Hk : access (st s) (S (next_key s)) = None).
  { destruct (access (st s) (S (next_key s))) as [r|] eqn:E; [|reflexivity]. pose proof (proj1 (inv_access_fresh s _ _ I E)). lia. }
  destruct (String.eqb (az_challenge a) "" && String.eqb (az_method a) "");
    intros _ c g cl0 new Hmg Hcl Hlog; cbn in Hmg; injection Hmg as <- <-; rewrite Ecl in Hcl; injection Hcl as <-;
    cbn in Hlog; rewrite <- app_assoc in Hlog; apply app_inv_head in Hlog; subst new; (split;
    [ intros j e0 Hp Hn; cbn in Hp; injection Hp as <-; cbn in Hn; injection Hn as <-; cbn [i_key fst snd];
      eexists; split; [unfold lookup_access; cbn; rewrite Hk, upd_eq; reflexivity|];
      eexists; split; [reflexivity|apply round_s_near]
    | intros j e0 Hp; cbn in Hp; discriminate ]).
Qed.

Lemma life_authorize_core cfg s0 s o cl a : life_fact cfg s o (authorize_core cfg s0 cl a).
Proof.
  unfold authorize_core, fresh_rid, mint, log_add.
  destruct (negb (scopes_ok cfg cl (az_scopes a))); [lnofail|].
  destruct (negb (aud_ok cfg (cl_aud cl) (az_aud a))); [lnofail|].
  destruct (pkce_validate cfg (az_challenge a) (az_method a) cl) as [e|] eqn:Ev.
  { apply life_fact_fail. rewrite (pkce_validate_err _ _ _ _ _ Ev). discriminate. }
  destruct (String.eqb (az_challenge a) "" && String.eqb (az_method a) ""); apply life_fact_nothing; reflexivity.
Qed.

Theorem life_step cfg s o : Inv s -> life_fact cfg s o (step cfg s o).
Proof.
  intros I. destruct o; cbn [step]; try (apply life_fact_no_grant; reflexivity).
  - unfold authorize. destruct (cf_par_enforced cfg); [lnofail|].
    destruct (clients s (az_client a)) as [cl|] eqn:Ecl; [|lnofail].
    destruct (az_rtype a); [apply life_authorize_core|now apply life_authorize_implicit|now apply life_authorize_hybrid].
  - apply life_redeem.
  - apply life_refresh_flow.
  - apply life_password_flow.
  - apply life_client_credentials_flow.
  - apply life_device_poll.
Qed.

(* ------------------------------------------------------------------ from the step fact to the monitor's clause *)
Lemma minted_refresh_pos_kind : forall l j, minted_refresh_pos l = Some j -> nth_error l j = Some KRefresh.
Proof.
  induction l as [|k l IH]; intros j H; cbn in H; [discriminate|].
  destruct k; try (injection H as <-; reflexivity);
    (destruct (minted_refresh_pos l) as [j0|] eqn:E; cbn in H; [injection H as <-; cbn; now apply IH|discriminate]).
Qed.

Definition cls_agree (cls : list client) (s : state) : Prop :=
  forall c cl, nth_error cls c = Some cl -> clients s c = Some cl.

Lemma replace_nth_spec {A} (v : A) : forall l i c x,
  nth_error (replace_nth l i v) c = Some x -> (c = i /\ x = v) \/ nth_error l c = Some x.
Proof.
  induction l as [|y l IH]; intros i c x H; cbn in H; [destruct i; cbn in H; destruct c; discriminate|].
  destruct i as [|i]; destruct c as [|c]; cbn in H |- *; auto.
  - injection H as <-. left. auto.
  - destruct (IH i c x H) as [[-> ->]|H']; auto.
Qed.

Lemma replace_nth_hit {A} (v : A) : forall l i x, nth_error l i = Some x -> nth_error (replace_nth l i v) i = Some v.
Proof.
  induction l as [|y l IH]; intros i x H; [destruct i; discriminate|].
  destruct i as [|i]; cbn in *; [reflexivity|eapply IH; exact H].
Qed.

Lemma cls_agree_step cfg cls s o :
  cls_agree cls s ->
  cls_agree (match o with OSetClient id c => replace_nth cls id c | _ => cls end) (fst (step cfg s o)).
Proof.
  intros A c cl H. rewrite clients_step. destruct o; try (apply A; exact H).
  destruct (replace_nth_spec _ _ _ _ _ H) as [[-> ->]|H']; [apply upd_eq|].
  destruct (Nat.eq_dec c id) as [->|Hne]; [|rewrite upd_neq by exact Hne; apply A; exact H'].
  rewrite (replace_nth_hit _ _ _ _ H') in H. injection H as <-. apply upd_eq.
Qed.

Lemma life_ok_step jwt cfg cls s o :
  Inv s -> cls_agree cls s -> let r := step cfg s o in
  life_ok jwt cfg cls (now (fst r)) (List.length (log s)) o (snd r) (probes cfg (fst r)) = true.
Proof.
  intros I A r. pose proof (life_step cfg s o I) as L. pose proof (log_step_minted cfg s o) as [new [Hlog Hm]].
  pose proof (now_step cfg s o) as Hn. pose proof (Inv_step cfg s o I) as I'.
  fold r in L, Hlog, Hm, Hn, I'. unfold life_ok.
  destruct (String.eqb (o_err (snd r)) "") eqn:Ee; [|reflexivity]. apply String.eqb_eq in Ee.
  destruct (minting_grant o) as [[c g]|] eqn:Eg; [|reflexivity].
  destruct (nth_error cls c) as [cl|] eqn:Ec; [|reflexivity].
  destruct (L Ee c g cl new Eg (A _ _ Ec) Hlog) as [LA LR].
  assert (Ht : now (fst r) = now s) by (destruct o; try exact Hn; cbn in Eg; discriminate).
  assert (Hkey : forall j e, nth_error new j = Some e ->
            key_of (fst r) {| p_ref := CRef (List.length (log s) + j); p_tampered := false |} = Some (i_key e)).
  { intros j e En. unfold key_of. cbn [p_ref]. rewrite Hlog, nth_error_app2 by lia.
    replace (List.length (log s) + j - List.length (log s)) with j by lia. rewrite En. reflexivity. }
  assert (Hnth : forall j, nth_error (probes cfg (fst r)) (List.length (log s) + j) =
                           option_map (probe_one cfg (fst r) (List.length (log s) + j)) (nth_error new j)).
  { intros j. rewrite probes_nth, Hlog, nth_error_app2 by lia.
    replace (List.length (log s) + j - List.length (log s)) with j by lia. reflexivity. }
  apply andb_true_iff. split.
  - (* the access token *)
    destruct (minted_access_pos (o_minted (snd r))) as [j|] eqn:Ep; [|reflexivity].
    fold (lifeA cfg cl g). destruct (Z.ltb (lifeA cfg cl g) 0) eqn:El; [reflexivity|].
    rewrite Hnth. destruct (nth_error new j) as [e|] eqn:En; [|reflexivity]. cbn [option_map].
    destruct (LA j e eq_refl En) as [rec [Hlk [X [HX Hnear]]]].
    assert (Hk : i_kind e = KAccess \/ i_kind e = KImplicit).
    { destruct (minted_access_pos_kind _ _ Ep) as [H|H]; rewrite <- Hm, nth_error_map, En in H; cbn in H; injection H as H; auto. }
    assert (Hp : probe_one cfg (fst r) (List.length (log s) + j) e =
                 introspect cfg (fst r) {| p_ref := CRef (List.length (log s) + j); p_tampered := false |} HAccess [])
      by (unfold probe_one; destruct Hk as [-> | ->]; reflexivity).
    rewrite Hp. destruct (introspect cfg (fst r) _ HAccess []) as [pl|] eqn:Ei; [|reflexivity].
    unfold introspect in Ei. rewrite (Hkey j e En) in Ei. cbn [p_tampered] in Ei.
    assert (Hacc : introspect_access cfg (fst r) (Some (i_key e)) false [] = Some pl).
    { destruct (introspect_access cfg (fst r) (Some (i_key e)) false []) as [p|] eqn:Ea.
      - destruct (negb (cf_introspect_rt cfg)); congruence.
      - exfalso. destruct (negb (cf_introspect_rt cfg)); [discriminate|].
        apply introspect_refresh_truth in Ei as [k [r0 [Hk0 [Hr0 _]]]]. injection Hk0 as <-.
        pose proof (inv_owner_refresh _ I' _ _ _ Hr0) as O1.
        unfold lookup_access in Hlk. destruct (access (st (fst r)) (i_key e)) as [ra|] eqn:Eaa.
        + pose proof (inv_owner_access _ I' _ _ Eaa) as O2. congruence.
        + pose proof (inv_owner_implicit _ I' _ _ Hlk) as O2. congruence. }
    apply introspect_access_truth in Hacc as [k [r0 [Hk0 [Hl0 [_ [_ [_ Hpl]]]]]]]. injection Hk0 as <-.
    rewrite Hlk in Hl0. injection Hl0 as <-. rewrite Hpl. cbn [pl_exp]. rewrite HX, Ht.
    apply Z.leb_le. destruct jwt; lia.
  - (* the refresh token *)
    destruct (minted_refresh_pos (o_minted (snd r))) as [j|] eqn:Ep; [|reflexivity].
    fold (lifeR cfg cl g). destruct (Z.ltb (lifeR cfg cl g) 0) eqn:El; [reflexivity|]. apply Z.ltb_ge in El.
    rewrite Hnth. destruct (nth_error new j) as [e|] eqn:En; [|reflexivity]. cbn [option_map].
    destruct (LR j e eq_refl En) as [rec [Href HR]]. destruct (HR El) as [X [HX Hnear]].
    assert (Hk : i_kind e = KRefresh).
    { pose proof (minted_refresh_pos_kind _ _ Ep) as H. rewrite <- Hm, nth_error_map, En in H. cbn in H. now injection H. }
    assert (Hp : probe_one cfg (fst r) (List.length (log s) + j) e =
                 introspect cfg (fst r) {| p_ref := CRef (List.length (log s) + j); p_tampered := false |} HRefresh [])
      by (unfold probe_one; rewrite Hk; reflexivity).
    rewrite Hp. destruct (introspect cfg (fst r) _ HRefresh []) as [pl|] eqn:Ei; [|reflexivity].
    unfold introspect in Ei. rewrite (Hkey j e En) in Ei. cbn [p_tampered] in Ei.
    assert (Hrf : introspect_refresh cfg (fst r) (Some (i_key e)) false [] = Some pl).
    { assert (Hna : introspect_access cfg (fst r) (Some (i_key e)) false [] = None).
      { destruct (introspect_access cfg (fst r) (Some (i_key e)) false []) as [p|] eqn:Ea; [|reflexivity]. exfalso.
        apply introspect_access_truth in Ea as [k [r0 [Hk0 [Hl0 _]]]]. injection Hk0 as <-.
        pose proof (inv_owner_refresh _ I' _ _ _ Href) as O1.
        unfold lookup_access in Hl0. destruct (access (st (fst r)) (i_key e)) as [ra|] eqn:Eaa.
        - pose proof (inv_owner_access _ I' _ _ Eaa) as O2. congruence.
        - pose proof (inv_owner_implicit _ I' _ _ Hl0) as O2. congruence. }
      rewrite Hna in Ei. destruct (negb (cf_introspect_rt cfg)); [discriminate|].
      destruct (introspect_refresh cfg (fst r) (Some (i_key e)) false []); [exact Ei|discriminate]. }
    apply introspect_refresh_truth in Hrf as [k [r0 [Hk0 [Hr0 [_ [_ [_ Hpl]]]]]]]. injection Hk0 as <-.
    rewrite Href in Hr0. injection Hr0 as <-. rewrite Hpl. cbn [pl_exp]. rewrite HX, Ht.
    apply Z.leb_le. destruct jwt; lia.
Qed.

(* the whole C07 monitor accepts the model's own trace of every history *)
Theorem clock_sound cfg h : forall s jwt cls,
  Inv s -> cls_agree cls s -> clock_from jwt cfg cls (now s) (List.length (log s)) (trace cfg s h) = None.
Proof.
  induction h as [|o h IH]; intros s jwt cls I A; cbn [trace clock_from]; [reflexivity|].
  pose proof (now_step cfg s o) as Hn. pose proof (probes_unexpired cfg (fst (step cfg s o))) as Hp.
  pose proof (advertised_ok_step cfg s o I) as Ha. pose proof (life_ok_step jwt cfg cls s o I A) as Hl.
  pose proof (Inv_step cfg s o I) as I'. pose proof (cls_agree_step cfg cls s o A) as A'.
  destruct (step cfg s o) as [s' ob]. cbn [fst snd] in *. cbn [clock_from].
  assert (Ht : match o with OAdvance ms => (now s + ms)%Z | _ => now s end = now s') by (destruct o; congruence).
  rewrite Ht, Hp, Ha, Hl. cbn [negb]. rewrite probes_length. apply IH; assumption.
Qed.

Corollary monitor_C07_accepts_every_model_trace cfg cls h jwt :
  clock_from jwt cfg cls 0%Z 0 (trace cfg (state0 (clients_of cls)) h) = None.
Proof.
  apply (clock_sound cfg h (state0 (clients_of cls)) jwt cls (Inv_state0 _)).
  intros c cl H. exact H.
Qed.
