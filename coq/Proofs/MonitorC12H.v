(* C12 (flow confinement): the request clause of the history monitor (Cases/Monitors.v judge_C12: "an accepted request
   names only scopes and audiences the client's registration covers, and a registered client") is sound for the model:
   for every configuration, state and operation that carries a requested scope/audience, and every tracker whose view
   of the requesting client's registration is the state's, the judge is silent on the model's answer. *)
From FositeModel Require Import Base.Str Model.Scope Model.Core Model.Flows Cases.Common Cases.CasesHist Cases.Monitors
     Proofs.CoreInv Proofs.StepInv Proofs.StepProps Proofs.C12Flows.

Theorem judge_C12_request_clause_sound cfg m s o c sc au pr :
  request_of o = Some (c, sc, au) ->
  nth_error (m_clients m) c = clients s c ->
  judge_C12 cfg m o (snd (step cfg s o)) pr = (None, [], []).
Proof.
  intros Hr Hm. unfold judge_C12. rewrite Hr.
  destruct (String.eqb (o_err (snd (step cfg s o))) "") eqn:E; [|reflexivity].
  apply String.eqb_eq in E.
  destruct (accepted_request_is_covered cfg s o c sc au Hr E) as [cl [Hcl [Hs Ha]]].
  rewrite Hm, Hcl, Hs, Ha. reflexivity.
Qed.

Lemma list_eqb_refl (l : list string) : list_eqb l l = true.
Proof. induction l as [|a l IH]; cbn; [reflexivity|]. rewrite String.eqb_refl, IH. reflexivity. Qed.

(* C05, refresh clauses of judge_C05 ("honoured for a foreign client / without the refresh grant / although the client
   lost a granted scope or audience / with changed scopes / without authentication"): silent on every model answer for a
   tracker whose view of the presented token (client, granted scopes and audience) is the stored record's and whose
   registrations are the state's. *)
Theorem judge_C05_refresh_sound cfg m s auth tok sm pr j c :
  cred m tok = Some (j, c) ->
  (forall a, nth_error (m_clients m) a = clients s a) ->
  (forall k r, key_of s tok = Some k -> refresh (st s) k = Some (true, r) ->
     ci_client c = r_client r /\ ci_scopes c = r_gscopes r /\ ci_aud c = r_gaud r) ->
  judge_C05 cfg m (ORefresh auth tok sm) (snd (step cfg s (ORefresh auth tok sm))) pr = (None, [], []).
Proof.
  intros Hc Hm Hv. cbn [step judge_C05]. rewrite Hc.
  destruct (String.eqb (o_err (snd (refresh_flow cfg s auth tok))) "") eqn:E; [|reflexivity].
  apply String.eqb_eq in E.
  destruct (refresh_ok_facts cfg s auth tok E) as [k [r [cl [Hk [Hr [_ [Ha [Hcl [Hg [Hs [Hau [_ [_ [Hsc _]]]]]]]]]]]]]].
  destruct (Hv k r Hk Hr) as [V1 [V2 V3]]. subst auth. rewrite V1, Nat.eqb_refl. cbn [negb].
  unfold client_has_grant. rewrite Hm, Hcl, Hg. cbn [negb].
  rewrite V2, V3. unfold scopes_ok in Hs. rewrite Hs, Hau. cbn [negb].
  cbn zeta in Hsc. rewrite Hsc, list_eqb_refl. reflexivity.
Qed.

(* the refresh clause of judge_C12 under the same agreement *)
Theorem judge_C12_refresh_clause_sound cfg m s a tok sm pr j c :
  cred m tok = Some (j, c) ->
  (forall a, nth_error (m_clients m) a = clients s a) ->
  (forall k r, key_of s tok = Some k -> refresh (st s) k = Some (true, r) -> ci_scopes c = r_gscopes r) ->
  judge_C12 cfg m (ORefresh (Some a) tok sm) (snd (step cfg s (ORefresh (Some a) tok sm))) pr = (None, [], []).
Proof.
  intros Hc Hm Hv. unfold judge_C12. cbn [request_of step]. rewrite Hc.
  destruct (String.eqb (o_err (snd (refresh_flow cfg s (Some a) tok))) "") eqn:E; [|reflexivity].
  apply String.eqb_eq in E.
  destruct (refresh_ok_facts cfg s (Some a) tok E) as [k [r [cl [Hk [Hr [_ [Ha [Hcl [Hg [Hs [Hau [_ [_ [Hsc _]]]]]]]]]]]]]].
  injection Ha as ->. rewrite Hm, Hcl, (Hv k r Hk Hr), Hs. cbn [negb].
  cbn zeta in Hsc. rewrite Hsc, list_eqb_refl. reflexivity.
Qed.
