(* The sequential store model satisfies the schedule monitor on EVERY log of storage calls:
   whenever the keys under which records are created are pairwise distinct, a credential that was
   created is, after the whole log, either live or was killed by a later call of the log that
   deletes its record, revokes / rotates its request id, or invalidates the code.
   Hence the monitor of the schedule cases cannot raise an alarm on an implementation whose
   observations (final store, liveness) are those of the model ([sched_mon_quiet]). *)
From FositeModel Require Import Base.Str Model.ConcStore Model.Locks Cases.CasesC19.
Local Open Scope list_scope.

(* ------------------------------------------------------------------ tables *)
Lemma tget_In {A} k (v : A) t : tget k t = Some v -> In (k, v) t.
Proof.
  induction t as [|[k' v'] t IH]; cbn [tset tget tdel In]; [discriminate|].
  destruct (Nat.eqb_spec k' k); [intros H; injection H as <-; subst; now left|auto].
Qed.

Lemma In_tset {A} k (v : A) k' v' t : In (k, v) (tset k' v' t) -> (k, v) = (k', v') \/ In (k, v) t.
Proof.
  induction t as [|[k1 v1] t IH]; cbn [tset tget tdel In].
  - intros [H|[]]; auto.
  - destruct (Nat.eqb k1 k'); [cbn [tset tget tdel In]; intros [H|H]; auto|].
    destruct (Nat.ltb k' k1); cbn [tset tget tdel In]; [intros [H|[H|H]]; auto|].
    intros [H|H]; [auto|]. destruct (IH H); auto.
Qed.

Lemma In_tdel {A} (x : nat * A) k t : In x (tdel k t) -> In x t.
Proof.
  induction t as [|[k1 v1] t IH]; cbn [tset tget tdel In]; [auto|].
  destruct (Nat.eqb k1 k); cbn [tset tget tdel In]; [auto|]. intros [H|H]; auto.
Qed.

Lemma tget_tset_same {A} k (v : A) t : tget k (tset k v t) = Some v.
Proof.
  induction t as [|[k1 v1] t IH]; cbn [tset tget tdel In]; [now rewrite Nat.eqb_refl|].
  destruct (Nat.eqb_spec k1 k); cbn [tset tget tdel In]; [now rewrite Nat.eqb_refl|].
  destruct (Nat.ltb k k1); cbn [tset tget tdel In]; [now rewrite Nat.eqb_refl|].
  destruct (Nat.eqb_spec k1 k); [contradiction|exact IH].
Qed.

Lemma tget_tset_other {A} k k' (v : A) t : k <> k' -> tget k (tset k' v t) = tget k t.
Proof.
  intros Hne. induction t as [|[k1 v1] t IH]; cbn [tset tget tdel In].
  - destruct (Nat.eqb_spec k' k); [congruence|reflexivity].
  - destruct (Nat.eqb_spec k1 k'); cbn [tset tget tdel In].
    + subst. destruct (Nat.eqb_spec k' k); [congruence|reflexivity].
    + destruct (Nat.ltb k' k1); cbn [tset tget tdel In].
      * destruct (Nat.eqb_spec k' k); [congruence|reflexivity].
      * destruct (Nat.eqb k1 k); [reflexivity|exact IH].
Qed.

Lemma tget_tdel_other {A} k k' (t : tab A) : k <> k' -> tget k (tdel k' t) = tget k t.
Proof.
  intros Hne. induction t as [|[k1 v1] t IH]; cbn [tset tget tdel In]; [reflexivity|].
  destruct (Nat.eqb_spec k1 k'); cbn [tset tget tdel In].
  - subst. destruct (Nat.eqb_spec k' k); [congruence|reflexivity].
  - destruct (Nat.eqb k1 k); [reflexivity|exact IH].
Qed.

Lemma In_tdrop r (x : nat * nat) t : In x (tdrop_rid r t) -> In x t /\ snd x <> r.
Proof.
  unfold tdrop_rid. rewrite filter_In. intros [H1 H2]. split; [assumption|].
  apply negb_true_iff in H2. now apply Nat.eqb_neq.
Qed.

Lemma tget_tdrop_other k r r' t : tget k t = Some r -> r <> r' -> tget k (tdrop_rid r' t) = Some r.
Proof.
  intros Hk Hne. induction t as [|[k1 v1] t IH]; cbn [tget] in *; [discriminate|].
  unfold tdrop_rid in *. cbn [filter snd].
  destruct (Nat.eqb_spec k1 k).
  - injection Hk as ->. destruct (Nat.eqb_spec r r'); [contradiction|]. cbn [negb tget]. subst. now rewrite Nat.eqb_refl.
  - destruct (negb (Nat.eqb v1 r')); [cbn [tget]; destruct (Nat.eqb_spec k1 k); [contradiction|]|]; now apply IH.
Qed.

(* ------------------------------------------------------------------ where records come from *)
Definition J (pre : list scall) (s : cstore) : Prop :=
  (forall k r, In (k, r) (c_at s) -> In (CAt k r) pre) /\
  (forall r k, In (r, k) (c_atidx s) -> In (CAt k r) pre) /\
  (forall k b r, In (k, (b, r)) (c_rt s) -> exists a, In (CRt k a r) pre) /\
  (forall r k, In (r, k) (c_rtidx s) -> exists a, In (CRt k a r) pre) /\
  (forall k b r, In (k, (b, r)) (c_codes s) -> In (CCo k r) pre).

Lemma J_weaken pre c s : J pre s -> J (pre ++ [c]) s.
Proof.
  intros (H1 & H2 & H3 & H4 & H5). repeat split; intros.
  - apply in_or_app; left; eauto.
  - apply in_or_app; left; eauto.
  - destruct (H3 _ _ _ H) as [a Ha]. exists a. apply in_or_app; now left.
  - destruct (H4 _ _ H) as [a Ha]. exists a. apply in_or_app; now left.
  - apply in_or_app; left; eauto.
Qed.

Lemma J_revoke_rt pre s r : J pre s -> J pre (fst (revoke_rt s r)).
Proof.
  intros HJ. unfold revoke_rt. destruct (tget r (c_rtidx s)) as [k|]; [|exact HJ].
  destruct (tget k (c_rt s)) as [[b r']|] eqn:E; [|exact HJ]. cbn.
  destruct HJ as (H1 & H2 & H3 & H4 & H5). repeat split; cbn; auto.
  intros k0 b0 r0 Hin. apply In_tset in Hin as [Heq|Hin]; [|eauto].
  injection Heq as -> -> ->. apply tget_In in E. eauto.
Qed.

Lemma J_revoke_at pre s r : J pre s -> J pre (fst (revoke_at s r)).
Proof.
  intros HJ. unfold revoke_at. cbn.
  destruct HJ as (H1 & H2 & H3 & H4 & H5). repeat split; cbn; auto.
  intros k0 r0 Hin. apply In_tdrop in Hin as [Hin _]. auto.
Qed.

Lemma J_step clients pre s c : J pre s -> J (pre ++ [c]) (fst (sstep clients s c)).
Proof.
  intros HJ. pose proof (J_weaken pre c s HJ) as HW.
  assert (Hlast : In c (pre ++ [c])) by (apply in_or_app; right; now left).
  destruct c; cbn [sstep fst]; try exact HW;
    try (destruct HW as (H1 & H2 & H3 & H4 & H5); repeat split; cbn; auto;
         intros; repeat match goal with
                        | H : In _ (tset _ _ _) |- _ => apply In_tset in H as [H|H]; [injection H as <- <-|]
                        | H : In _ (tdel _ _) |- _ => apply In_tdel in H
                        end; eauto; fail).
  - (* CCo *) destruct HW as (H1 & H2 & H3 & H4 & H5). repeat split; cbn; auto.
    intros k0 b0 r0 Hin. apply In_tset in Hin as [Heq|Hin]; [injection Heq as -> -> ->; assumption|eauto].
  - (* ICo *) destruct (tget k (c_codes s)) as [[b r]|] eqn:E; [|exact HW]. cbn.
    destruct HW as (H1 & H2 & H3 & H4 & H5). repeat split; cbn; auto.
    intros k0 b0 r0 Hin. apply In_tset in Hin as [Heq|Hin]; [|eauto].
    injection Heq as -> -> ->. apply tget_In in E. eauto.
  - (* CRt *) destruct HW as (H1 & H2 & H3 & H4 & H5). repeat split; cbn; auto.
    + intros k0 b0 r0 Hin. apply In_tset in Hin as [Heq|Hin]; [injection Heq as -> -> ->; eauto|eauto].
    + intros r0 k0 Hin. apply In_tset in Hin as [Heq|Hin]; [injection Heq as -> ->; eauto|eauto].
  - (* VRt *) now apply J_revoke_rt.
  - (* VAt *) now apply J_revoke_at.
  - (* Rot *) destruct (revoke_rt s r) as [s' e] eqn:E.
    assert (HJ' : J (pre ++ [Rot r k]) s') by (change s' with (fst (s', e)); rewrite <- E; now apply J_revoke_rt).
    destruct e; try exact HJ'. now apply J_revoke_at.
Qed.

Lemma J_replay clients pre s suf : J pre s -> J (pre ++ suf) (replay clients s suf).
Proof.
  revert pre s. induction suf as [|c suf IH]; intros pre s HJ; cbn; [now rewrite app_nil_r|].
  replace (pre ++ c :: suf) with ((pre ++ [c]) ++ suf) by (now rewrite <- app_assoc).
  apply IH. now apply J_step.
Qed.

Lemma J_init : J [] cs0.
Proof. repeat split; cbn; intros; contradiction. Qed.

(* ------------------------------------------------------------------ distinct creation keys *)
Lemma nodupb_app_disjoint l1 l2 x : nodupb (l1 ++ l2) = true -> In x l1 -> In x l2 -> False.
Proof.
  induction l1 as [|y l1 IH]; cbn; [easy|]. intros H [->|H1] H2.
  - apply andb_true_iff in H as [H _]. apply negb_true_iff in H.
    assert (existsb (Nat.eqb x) (l1 ++ l2) = true); [|congruence].
    apply existsb_exists. exists x. split; [apply in_or_app; now right|apply Nat.eqb_refl].
  - apply andb_true_iff in H as [_ H]. eauto.
Qed.

Lemma nodupb_twice l x : nodupb l = true -> forall l1 l2 l3, l = l1 ++ x :: l2 ++ x :: l3 -> False.
Proof.
  intros H l1 l2 l3 ->. eapply (nodupb_app_disjoint (l1 ++ [x]) (l2 ++ x :: l3) x).
  - now rewrite <- app_assoc.
  - apply in_or_app; right; now left.
  - apply in_or_app; right; now left.
Qed.

Lemma created_keys_app kd a b : created_keys kd (a ++ b) = created_keys kd a ++ created_keys kd b.
Proof. unfold created_keys. now rewrite flat_map_app. Qed.

Lemma created_In kd k c l : creates kd k c <> None -> In c l -> In k (created_keys kd l).
Proof.
  intros Hc Hin. unfold created_keys. apply in_flat_map. exists c. split; [assumption|].
  destruct kd, c; cbn in Hc; try congruence;
    match type of Hc with context [Nat.eqb ?a ?b] => destruct (Nat.eqb_spec a b) end;
    try congruence; subst; now left.
Qed.

(* two creations of the same key, one in the prefix and one later, contradict distinctness *)
Lemma created_twice kd k c1 c2 pre suf :
  nodupb (created_keys kd (pre ++ suf)) = true ->
  creates kd k c1 <> None -> In c1 pre -> creates kd k c2 <> None -> In c2 suf -> False.
Proof.
  intros Hn H1 I1 H2 I2. rewrite created_keys_app in Hn.
  exact (nodupb_app_disjoint _ _ k Hn (created_In kd k c1 pre H1 I1) (created_In kd k c2 suf H2 I2)).
Qed.

(* the creations of one key inside a duplicate-free prefix agree on the request id *)
Lemma created_same_rid kd k c1 c2 l :
  nodupb (created_keys kd l) = true -> In c1 l -> In c2 l ->
  forall r1 r2, creates kd k c1 = Some r1 -> creates kd k c2 = Some r2 -> r1 = r2.
Proof.
  intros Hn I1 I2 r1 r2 H1 H2.
  apply in_split in I1 as [l1 [l2 ->]].
  apply in_app_or in I2 as [I2|[<-|I2]].
  - exfalso. eapply (created_twice kd k c2 c1 l1 (c1 :: l2)); eauto; [congruence|congruence|now left].
  - congruence.
  - exfalso. replace (l1 ++ c1 :: l2) with ((l1 ++ [c1]) ++ l2) in Hn by (now rewrite <- app_assoc).
    eapply (created_twice kd k c1 c2 (l1 ++ [c1]) l2); eauto; [congruence| |congruence].
    apply in_or_app; right; now left.
Qed.

(* ------------------------------------------------------------------ a live record stays live or is killed *)
Section Survive.
Variable clients : list nat.

Lemma at_survives suf : forall pre s k r,
  J pre s -> nodupb (created_keys TAccess (pre ++ suf)) = true ->
  tget k (c_at s) = Some r ->
  live (replay clients s suf) TAccess k = true \/ existsb (kills TAccess k r) suf = true.
Proof.
  induction suf as [|c suf IH]; intros pre s k r HJ Hn Hk.
  - left. cbn. now rewrite Hk.
  - cbn [replay existsb]. destruct (kills TAccess k r c) eqn:Ekill; [now right|]. cbn [orb].
    replace (pre ++ c :: suf) with ((pre ++ [c]) ++ suf) in Hn by (now rewrite <- app_assoc).
    apply (IH (pre ++ [c])); [now apply J_step|exact Hn|].
    pose proof (tget_In _ _ _ Hk) as Hin. destruct HJ as (H1 & H2 & _).
    assert (Hrv : forall s0 r', tget k (c_at s0) = Some r -> Nat.eqb r' r = false ->
                   tget k (c_at (fst (revoke_at s0 r'))) = Some r).
    { intros s0 r' Gk Hne. unfold revoke_at. cbn. apply tget_tdrop_other; [exact Gk|].
      intros ->. now rewrite Nat.eqb_refl in Hne. }
    destruct c; cbn [sstep fst]; try exact Hk; cbn in Ekill.
    + (* ICo *) destruct (tget k0 (c_codes s)) as [[b r0]|]; exact Hk.
    + (* CAt k0 r0 *) cbn. destruct (Nat.eq_dec k k0) as [<-|Hd]; [|now rewrite tget_tset_other].
      exfalso. apply H1 in Hin.
      eapply (created_twice TAccess k (CAt k r) (CAt k r0) pre (CAt k r0 :: suf)); eauto;
        [rewrite <- app_assoc in Hn; exact Hn|cbn; rewrite Nat.eqb_refl; discriminate|cbn; rewrite Nat.eqb_refl; discriminate|now left].
    + (* DAt k0 *) cbn. destruct (Nat.eq_dec k k0) as [<-|Hd]; [now rewrite Nat.eqb_refl in Ekill|now rewrite tget_tdel_other].
    + (* VRt *) unfold revoke_rt. destruct (tget r0 (c_rtidx s)); [|exact Hk]. destruct (tget n (c_rt s)) as [[? ?]|]; exact Hk.
    + (* VAt *) now apply Hrv.
    + (* Rot *) unfold revoke_rt. destruct (tget r0 (c_rtidx s)) as [k1|]; [|now apply Hrv].
      destruct (tget k1 (c_rt s)) as [[b1 r1]|]; [|exact Hk].
      apply Hrv; cbn; auto.
Qed.

Lemma nodupb_prefix l1 l2 : nodupb (l1 ++ l2) = true -> nodupb l1 = true.
Proof.
  induction l1 as [|x l IHl]; [reflexivity|]. cbn. intros Hn.
  apply andb_true_iff in Hn as [Ha Hb]. rewrite (IHl Hb), andb_true_r.
  apply negb_true_iff. apply negb_true_iff in Ha. destruct (existsb (Nat.eqb x) l) eqn:E; [|reflexivity].
  apply existsb_exists in E as [y [Hy Hxy]]. rewrite <- Ha. symmetry. apply existsb_exists. exists y.
  split; [apply in_or_app; now left|assumption].
Qed.

Lemma rt_survives suf : forall pre s k r,
  J pre s -> nodupb (created_keys TRefresh (pre ++ suf)) = true ->
  tget k (c_rt s) = Some (true, r) ->
  live (replay clients s suf) TRefresh k = true \/ existsb (kills TRefresh k r) suf = true.
Proof.
  induction suf as [|c suf IH]; intros pre s k r HJ Hn Hk.
  - left. cbn. now rewrite Hk.
  - cbn [replay existsb]. destruct (kills TRefresh k r c) eqn:Ekill; [now right|]. cbn [orb].
    replace (pre ++ c :: suf) with ((pre ++ [c]) ++ suf) in Hn by (now rewrite <- app_assoc).
    apply (IH (pre ++ [c])); [now apply J_step|exact Hn|].
    pose proof (tget_In _ _ _ Hk) as Hin. destruct HJ as (_ & _ & H3 & H4 & _).
    assert (Hn' : nodupb (created_keys TRefresh pre) = true).
    { rewrite <- app_assoc, created_keys_app in Hn. eapply nodupb_prefix; exact Hn. }
    assert (Hrv : forall r', Nat.eqb r' r = false -> tget k (c_rt (fst (revoke_rt s r'))) = Some (true, r)).
    { intros r' Hne. unfold revoke_rt. destruct (tget r' (c_rtidx s)) as [k'|] eqn:Ei; [|exact Hk].
      destruct (tget k' (c_rt s)) as [[b1 r1]|] eqn:Er; [|exact Hk]. cbn.
      destruct (Nat.eq_dec k k') as [<-|Hd]; [|now rewrite tget_tset_other].
      exfalso. apply tget_In in Ei. apply H4 in Ei as [a1 Ei]. apply H3 in Hin as [a2 Hin].
      assert (r' = r); [|subst; now rewrite Nat.eqb_refl in Hne].
      eapply (created_same_rid TRefresh k (CRt k a1 r') (CRt k a2 r) pre Hn' Ei Hin); cbn; now rewrite Nat.eqb_refl. }
    destruct c; cbn [sstep fst]; try exact Hk; cbn in Ekill.
    + (* ICo *) destruct (tget k0 (c_codes s)) as [[b r0]|]; exact Hk.
    + (* CRt k0 a r0 *) cbn. destruct (Nat.eq_dec k k0) as [<-|Hd]; [|now rewrite tget_tset_other].
      exfalso. apply H3 in Hin as [a2 Hin].
      eapply (created_twice TRefresh k (CRt k a2 r) (CRt k a r0) pre (CRt k a r0 :: suf)); eauto;
        [rewrite <- app_assoc in Hn; exact Hn|cbn; rewrite Nat.eqb_refl; discriminate|cbn; rewrite Nat.eqb_refl; discriminate|now left].
    + (* DRt *) cbn. destruct (Nat.eq_dec k k0) as [<-|Hd]; [now rewrite Nat.eqb_refl in Ekill|now rewrite tget_tdel_other].
    + (* VRt *) now apply Hrv.
    + (* Rot *) pose proof (Hrv r0 Ekill) as Hs. destruct (revoke_rt s r0) as [s' e]. cbn in Hs.
      destruct e; cbn; exact Hs.
Qed.

Lemma code_survives suf : forall pre s k r,
  J pre s -> nodupb (created_keys TCode (pre ++ suf)) = true ->
  tget k (c_codes s) = Some (true, r) ->
  live (replay clients s suf) TCode k = true \/ existsb (kills TCode k r) suf = true.
Proof.
  induction suf as [|c suf IH]; intros pre s k r HJ Hn Hk.
  - left. cbn. now rewrite Hk.
  - cbn [replay existsb]. destruct (kills TCode k r c) eqn:Ekill; [now right|]. cbn [orb].
    replace (pre ++ c :: suf) with ((pre ++ [c]) ++ suf) in Hn by (now rewrite <- app_assoc).
    apply (IH (pre ++ [c])); [now apply J_step|exact Hn|].
    pose proof (tget_In _ _ _ Hk) as Hin. destruct HJ as (_ & _ & _ & _ & H5).
    destruct c; cbn [sstep fst]; try exact Hk; cbn in Ekill.
    + (* CCo k0 r0 *) cbn. destruct (Nat.eq_dec k k0) as [<-|Hd]; [|now rewrite tget_tset_other].
      exfalso. apply H5 in Hin.
      eapply (created_twice TCode k (CCo k r) (CCo k r0) pre (CCo k r0 :: suf)); eauto;
        [rewrite <- app_assoc in Hn; exact Hn|cbn; rewrite Nat.eqb_refl; discriminate|cbn; rewrite Nat.eqb_refl; discriminate|now left].
    + (* ICo k0 *) destruct (Nat.eq_dec k k0) as [<-|Hd]; [now rewrite Nat.eqb_refl in Ekill|].
      destruct (tget k0 (c_codes s)) as [[b r0]|]; [cbn; now rewrite tget_tset_other|exact Hk].
    + (* VRt *) unfold revoke_rt. destruct (tget r0 (c_rtidx s)); [|exact Hk]. destruct (tget n (c_rt s)) as [[? ?]|]; exact Hk.
    + (* Rot *) unfold revoke_rt, revoke_at.
      destruct (tget r0 (c_rtidx s)) as [k1|]; [destruct (tget k1 (c_rt s)) as [[b1 r1]|]|]; cbn; exact Hk.
Qed.

(* ---- after RevokeAccessToken r no access token created earlier under r exists any more *)
Definition absent (k : nat) (s : cstore) : Prop := forall x, ~ In (k, x) (c_at s).

Lemma at_entries_step s c k x :
  In (k, x) (c_at (fst (sstep clients s c))) -> In (k, x) (c_at s) \/ c = CAt k x.
Proof.
  destruct c; cbn [sstep fst]; auto.
  - destruct (tget k0 (c_codes s)) as [[b r]|]; auto.
  - cbn. intros H. apply In_tset in H as [H|H]; [injection H as -> ->; now right|now left].
  - cbn. intros H. apply In_tdel in H. now left.
  - unfold revoke_rt. destruct (tget r (c_rtidx s)) as [k1|]; auto. destruct (tget k1 (c_rt s)) as [[? ?]|]; auto.
  - cbn. intros H. apply In_tdrop in H as [H _]. now left.
  - unfold revoke_rt. destruct (tget r (c_rtidx s)) as [k1|]; [destruct (tget k1 (c_rt s)) as [[? ?]|]|]; cbn; auto;
      intros H; apply In_tdrop in H as [H _]; now left.
Qed.

Lemma absent_preserved suf : forall pre s k rid,
  nodupb (created_keys TAccess (pre ++ suf)) = true -> In (CAt k rid) pre ->
  absent k s -> absent k (replay clients s suf).
Proof.
  induction suf as [|c suf IH]; intros pre s k rid Hn Hc Ha; [exact Ha|]. cbn [replay].
  replace (pre ++ c :: suf) with ((pre ++ [c]) ++ suf) in Hn by (now rewrite <- app_assoc).
  apply (IH (pre ++ [c]) _ k rid Hn); [apply in_or_app; now left|].
  intros x Hx. apply at_entries_step in Hx as [Hx|Hx]; [exact (Ha x Hx)|]. subst c.
  rewrite <- app_assoc in Hn.
  eapply (created_twice TAccess k (CAt k rid) (CAt k x) pre (CAt k x :: suf)); eauto;
    [cbn; rewrite Nat.eqb_refl; discriminate|cbn; rewrite Nat.eqb_refl; discriminate|now left].
Qed.

Lemma revoked_then_absent suf : forall pre s k rid,
  J pre s -> nodupb (created_keys TAccess (pre ++ suf)) = true -> In (CAt k rid) pre ->
  existsb (revokes_at rid) suf = true -> absent k (replay clients s suf).
Proof.
  induction suf as [|c suf IH]; intros pre s k rid HJ Hn Hc He; [discriminate|]. cbn [replay existsb] in *.
  pose proof Hn as Hn0.
  replace (pre ++ c :: suf) with ((pre ++ [c]) ++ suf) in Hn by (now rewrite <- app_assoc).
  destruct (revokes_at rid c) eqn:Er.
  - destruct c; try discriminate. cbn in Er. apply Nat.eqb_eq in Er. subst r.
    apply (absent_preserved suf (pre ++ [VAt rid]) _ k rid Hn); [apply in_or_app; now left|].
    intros x Hx. cbn in Hx. apply In_tdrop in Hx as [Hx Hne]. cbn in Hne.
    destruct HJ as (H1 & _). apply H1 in Hx.
    assert (Hp : nodupb (created_keys TAccess pre) = true) by (rewrite created_keys_app in Hn0; eapply nodupb_prefix; exact Hn0).
    apply Hne. eapply (created_same_rid TAccess k (CAt k x) (CAt k rid) pre Hp Hx Hc); cbn; now rewrite Nat.eqb_refl.
  - cbn [orb] in He. apply (IH (pre ++ [c]) _ k rid); [now apply J_step|exact Hn|apply in_or_app; now left|exact He].
Qed.

(* right after its creation a record is present *)
Lemma created_present kd k c rid s :
  creates kd k c = Some rid ->
  match kd with
  | TAccess => tget k (c_at (fst (sstep clients s c))) = Some rid
  | TRefresh => tget k (c_rt (fst (sstep clients s c))) = Some (true, rid)
  | TCode => tget k (c_codes (fst (sstep clients s c))) = Some (true, rid)
  end.
Proof.
  destruct kd, c; cbn; try discriminate;
    match goal with |- context [Nat.eqb ?a ?b] => destruct (Nat.eqb_spec a b) end; try discriminate;
    intros H; injection H as <-; subst; cbn; apply tget_tset_same.
Qed.

Theorem model_satisfies_liveness_clause : forall calls kd k b,
  distinct_creates calls = true ->
  invalidated_later kd k calls = Some b ->
  live (replay clients cs0 calls) kd k || b = true.
Proof.
  intros calls kd k b Hd.
  assert (Hkd : nodupb (created_keys kd calls) = true).
  { unfold distinct_creates in Hd. repeat (apply andb_true_iff in Hd as [Hd ?]). destruct kd; assumption. }
  clear Hd.
  assert (G : forall suf pre s, J pre s -> nodupb (created_keys kd (pre ++ suf)) = true ->
              invalidated_later kd k suf = Some b -> live (replay clients s suf) kd k || b = true).
  { induction suf as [|c suf IH]; intros pre s HJ Hn Hi; [discriminate|].
    cbn [invalidated_later] in Hi. cbn [replay].
    replace (pre ++ c :: suf) with ((pre ++ [c]) ++ suf) in Hn by (now rewrite <- app_assoc).
    destruct (creates kd k c) as [rid|] eqn:Ec.
    - injection Hi as <-. pose proof (created_present kd k c rid s Ec) as Hp.
      pose proof (J_step clients pre s c HJ) as HJ'.
      apply orb_true_iff.
      destruct kd; [eapply at_survives|eapply rt_survives|eapply code_survives]; eauto.
    - apply (IH (pre ++ [c])); [now apply J_step|exact Hn|exact Hi]. }
  intros Hi. apply (G calls [] cs0 J_init Hkd Hi).
Qed.

(* revocation reaches every access token of the request: a token created under request id r and
   followed by RevokeAccessToken r is dead after the whole sequence *)
Theorem revoked_access_token_is_dead : forall calls k,
  distinct_creates calls = true ->
  revoked_later k calls = Some true ->
  live (replay clients cs0 calls) TAccess k = false.
Proof.
  intros calls k Hd.
  assert (Hkd : nodupb (created_keys TAccess calls) = true).
  { unfold distinct_creates in Hd. repeat (apply andb_true_iff in Hd as [Hd ?]). assumption. }
  clear Hd.
  assert (G : forall suf pre s, J pre s -> nodupb (created_keys TAccess (pre ++ suf)) = true ->
              revoked_later k suf = Some true -> absent k (replay clients s suf)).
  { induction suf as [|c suf IH]; intros pre s HJ Hn Hi; [discriminate|].
    cbn [revoked_later] in Hi. cbn [replay].
    replace (pre ++ c :: suf) with ((pre ++ [c]) ++ suf) in Hn by (now rewrite <- app_assoc).
    destruct (creates TAccess k c) as [rid|] eqn:Ec.
    - injection Hi as Hi. apply (revoked_then_absent suf (pre ++ [c]) _ k rid); [now apply J_step|exact Hn| |exact Hi].
      apply in_or_app; right. destruct c; cbn in Ec; try discriminate.
      destruct (Nat.eqb_spec k0 k); [|discriminate]. injection Ec as <-. subst. now left.
    - apply (IH (pre ++ [c])); [now apply J_step|exact Hn|exact Hi]. }
  intros Hi. pose proof (G calls [] cs0 J_init Hkd Hi) as Ha.
  unfold live. destruct (tget k (c_at (replay clients cs0 calls))) as [x|] eqn:E; [|reflexivity].
  exfalso. exact (Ha x (tget_In _ _ _ E)).
Qed.

(* one step: after RevokeAccessToken r, and after a RotateRefreshToken r that answered nil, the
   store holds no access-token record of request r at all *)
Theorem revoke_step_clears_request : forall s r k,
  ~ In (k, r) (c_at (fst (sstep clients s (VAt r)))).
Proof. intros s r k H. cbn in H. apply In_tdrop in H as [_ H]. now apply H. Qed.

Theorem rotate_step_clears_request : forall s r k0 k,
  snd (sstep clients s (Rot r k0)) = K -> ~ In (k, r) (c_at (fst (sstep clients s (Rot r k0)))).
Proof.
  intros s r k0 k. cbn [sstep]. destruct (revoke_rt s r) as [s' e]. destruct e; cbn; try discriminate.
  intros _ H. apply In_tdrop in H as [_ H]. now apply H.
Qed.
End Survive.

(* ------------------------------------------------------------------ monitor = model *)
Lemma tab_eqb_refl {A} (e : A -> A -> bool) (t : tab A) : (forall x, e x x = true) -> tab_eqb e t t = true.
Proof.
  intros He. induction t as [|[k v] t IH]; [reflexivity|]. cbn. now rewrite Nat.eqb_refl, He, IH.
Qed.

Lemma cstore_eqb_refl s : cstore_eqb s s = true.
Proof.
  unfold cstore_eqb.
  assert (Hb : forall x, bn_eqb x x = true) by (intros [b n]; unfold bn_eqb; cbn; now rewrite Bool.eqb_reflx, Nat.eqb_refl).
  assert (Hn : forall x, nn_eqb x x = true) by (intros [a n]; unfold nn_eqb; cbn; now rewrite !Nat.eqb_refl).
  rewrite !tab_eqb_refl; auto using Nat.eqb_refl.
Qed.

(* An implementation whose observations are the model's — the store afterwards is the replay of
   the logged calls, a credential is reported live exactly when its record is live there, no
   operation panicked — and whose creation keys are pairwise distinct is accepted by the monitor. *)
Theorem sched_mon_quiet : forall clients (log : list entry) minted,
  let calls := map (fun e => snd (fst e)) log in
  let s := replay clients cs0 calls in
  distinct_creates calls = true ->
  (forall kd k alive, In (kd, k, alive) minted ->
     alive = live s kd k /\ invalidated_later kd k calls <> None) ->
  sched_mon clients log s minted 0 = None.
Proof.
  intros clients log minted calls s Hd Hm. unfold sched_mon. fold calls. cbn [Nat.eqb negb].
  rewrite Hd. cbn [negb]. fold s. rewrite cstore_eqb_refl. cbn [negb].
  assert (Hall : forallb (minted_ok calls) minted = true).
  { apply forallb_forall. intros [[kd k] alive] Hin. destruct (Hm kd k alive Hin) as [-> Hc]. cbn.
    destruct (invalidated_later kd k calls) as [b|] eqn:Ei; [|congruence].
    exact (model_satisfies_liveness_clause clients calls kd k b Hd Ei). }
  rewrite Hall. cbn [negb].
  assert (Hrev : forallb (revoked_dead calls) minted = true).
  { apply forallb_forall. intros [[kd k] alive] Hin. destruct (Hm kd k alive Hin) as [-> _]. unfold revoked_dead.
    destruct kd; try reflexivity. destruct (live s TAccess k) eqn:El; [|reflexivity].
    destruct (revoked_later k calls) as [[|]|] eqn:Er; try reflexivity.
    unfold s in El. rewrite (revoked_access_token_is_dead clients calls k Hd Er) in El. discriminate. }
  now rewrite Hrev.
Qed.

(* non-vacuity: a refresh racing a revocation (the log of one recorded run): the rotated-in access
   token 4 is dead at the end and the monitor finds the RevokeAccessToken call that killed it *)
Definition ex_log : list entry :=
  [(0,GCl 0,K); (0,CCo 0 0,K); (0,GCl 0,K); (0,GCo 0,Rq 0); (0,GPk 0,NF); (0,GCo 0,Rq 0); (0,ICo 0,K);
   (0,CAt 2 0,K); (0,CRt 3 2 0,K); (1,GCl 0,K); (2,GCl 0,K); (2,GAt 2,Rq 0); (1,GRt 3,Rq 0); (2,VRt 0,K);
   (1,Rot 0 3,K); (1,CAt 4 0,K); (1,CRt 5 4 0,K); (2,VAt 0,K)].
Definition ex_calls := map (fun e : entry => snd (fst e)) ex_log.

Example ex_killed : invalidated_later TAccess 4 ex_calls = Some true /\ live (replay [0;1] cs0 ex_calls) TAccess 4 = false.
Proof. vm_compute. split; reflexivity. Qed.
Example ex_accepted :
  check (KSched [0;1] ex_log (replay [0;1] cs0 ex_calls)
           [(TCode,0,false); (TAccess,2,false); (TRefresh,3,false); (TAccess,4,false); (TRefresh,5,true)] 0) = V None None.
Proof. vm_compute. reflexivity. Qed.
(* ... and rejects a token that vanished without any such call, a duplicate signature, a panic *)
Example ex_rejected_dead :
  mon (check (KSched [0;1] [(0,CAt 2 0,K); (1,GAt 2,Rq 0)] (CS [] [] [] [(0,2)] [] [] [] [] [] []) [(TAccess,2,false)] 0))
  = Some "final-state-not-sequential".
Proof. vm_compute. reflexivity. Qed.
Example ex_rejected_dup :
  mon (check (KSched [0;1] [(1,CAt 2 0,K); (2,CAt 2 1,K)] (CS [] [(2,1)] [] [(0,2);(1,2)] [] [] [] [] [] []) [(TAccess,2,true)] 0))
  = Some "duplicate-signature".
Proof. vm_compute. reflexivity. Qed.

(* the repaired RevokeAccessToken: two access tokens created under one request id (as the hybrid
   flow does); the index remembers only the second, revocation deletes both *)
Example ex_revoke_all :
  let calls := [CAt 1 0; CAt 2 0; CAt 3 7; VAt 0] in
  c_at (replay [0] cs0 calls) = [(3, 7)] /\ c_atidx (replay [0] cs0 calls) = [(0, 2); (7, 3)] /\
  revoked_later 1 calls = Some true /\ revoked_later 3 calls = Some false.
Proof. vm_compute. repeat split; reflexivity. Qed.
Example ex_rejected_revoked_alive :
  mon (check (KSched [0] [(1,CAt 1 0,K); (1,CAt 2 0,K); (2,VAt 0,K)] (replay [0] cs0 [CAt 1 0; CAt 2 0; VAt 0])
                [(TAccess,1,true); (TAccess,2,false)] 0))
  = Some "revoked-access-token-alive".
Proof. vm_compute. reflexivity. Qed.
