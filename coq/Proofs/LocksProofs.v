(* Generic theorems about the lock-discipline checker of Model/Locks.v, proved once for every
   list of methods (the list itself is regenerated from storage/memory.go on every run):

     lock_discipline_ok ms = true ->
       every event sequence of every method (any control flow, calls expanded) keeps the
       discipline at run time ([ok_tpath]), and therefore, for any number of threads each running
       any sequence of methods under any interleaving of their events,
         - no state is reachable in which two threads are about to access the same table, one of
           them writing ([no_race]);
         - in every reachable state either all threads have finished or some thread can take a
           step ([no_deadlock]), under sync.RWMutex's writer-preference blocking rules. *)
From FositeModel Require Import Base.Str Model.Locks.
Local Open Scope list_scope.

(* ------------------------------------------------------------------ small list facts *)
Lemma forallb_flat_map {A B} (f : B -> bool) (g : A -> list B) l :
  forallb f (flat_map g l) = forallb (fun x => forallb f (g x)) l.
Proof. induction l as [|x l IH]; [reflexivity|]. cbn. now rewrite forallb_app, IH. Qed.

Lemma forallb_In {A} (f : A -> bool) l x : forallb f l = true -> In x l -> f x = true.
Proof. intros H Hi. rewrite forallb_forall in H. now apply H. Qed.

Lemma remove_first_In m (h : hset) x : In x (remove_first m h) -> In x h.
Proof.
  induction h as [|p h IH]; cbn; [easy|]. destruct (String.eqb (fst p) m); cbn; intuition.
Qed.

Lemma remove_first_In_fst m (h : hset) x : In x (map fst (remove_first m h)) -> In x (map fst h).
Proof.
  rewrite !in_map_iff. intros [p [Hp Hi]]. exists p. split; [assumption|]. eapply remove_first_In; eassumption.
Qed.

Lemma lookup_method_In f ms fb : lookup_method f ms = Some fb -> exists m, In m ms /\ m_name m = f /\ m_body m = fb.
Proof.
  induction ms as [|m ms IH]; cbn; [easy|].
  destruct (String.eqb_spec (m_name m) f).
  - intros H. injection H as <-. exists m. auto.
  - intros H. destruct (IH H) as [m' [Hi Hm]]. exists m'. auto.
Qed.

(* ------------------------------------------------------------------ part 1: paths keep the discipline *)
Section Static.
Variable ms : list method.
Variable G : guards.
Variable rk : ranks.

Lemma run_app h a b :
  run G rk h (a ++ b) = match run G rk h a with Some h' => run G rk h' b | None => None end.
Proof.
  revert h. induction a as [|e a IH]; intros h; [reflexivity|].
  cbn [app run]. destruct e.
  - destruct (acq_ok rk h m); [apply IH|reflexivity].
  - destruct (holds m h); [apply IH|reflexivity].
  - destruct (acc_ok G h tbl a0); [apply IH|reflexivity].
Qed.

Lemma holds_app m (a b : hset) : holds m a = true -> holds m (a ++ b) = true.
Proof. unfold holds. rewrite existsb_app. intros ->. reflexivity. Qed.

Lemma remove_first_app m (a b : hset) : holds m a = true -> remove_first m (a ++ b) = remove_first m a ++ b.
Proof.
  induction a as [|p a IH]; cbn; [discriminate|].
  destruct (String.eqb (fst p) m); cbn; [reflexivity|]. intros H. now rewrite IH.
Qed.

(* the deferred unlocks of a return, in the context of the callers' locks *)
Lemma run_releases ds acq r outer :
  release_all ds acq = Some r -> run G rk (acq ++ outer) (releases ds) = Some (r ++ outer).
Proof.
  revert acq. induction ds as [|m ds IH]; intros acq; cbn [release_all releases map run].
  - intros H. injection H as <-. reflexivity.
  - destruct (holds m acq) eqn:Hh; [|discriminate]. intros H.
    rewrite (holds_app m acq outer Hh), (remove_first_app m acq outer Hh). exact (IH _ H).
Qed.

Lemma facts_S fuel cur h body :
  facts (S fuel) ms cur h body =
  facts_stmts (fun h' g => match lookup_method g ms with
                           | Some gb => facts fuel ms g h' gb
                           | None => [FErr cur ("unknown-callee-" ++ g)%string]
                           end) cur [] h [] body.
Proof. reflexivity. Qed.

Lemma ret_ok_run cur acq ds outer :
  fact_ok G rk (FRet cur acq ds) = true -> run G rk (acq ++ outer) (releases ds) = Some outer.
Proof.
  cbn [fact_ok]. destruct (release_all ds acq) as [[|p r]|] eqn:E; try discriminate.
  intros _. exact (run_releases ds acq [] outer E).
Qed.

(* general form: the method has acquired [acq] so far, its callers hold [outer] *)
Lemma bpath_run_gen callf ds body p :
  bpath ms ds body p ->
  (forall h g gb q, lookup_method g ms = Some gb -> bpath ms [] gb q ->
     forallb (fact_ok G rk) (callf h g) = true -> run G rk h q = Some h) ->
  (forall h g, lookup_method g ms = None -> forallb (fact_ok G rk) (callf h g) = false) ->
  forall cur acq outer,
    forallb (fact_ok G rk) (facts_stmts callf cur acq outer ds body) = true ->
    run G rk (acq ++ outer) p = Some outer.
Proof.
  intros Hp Hcall Hnone.
  induction Hp as [ds | ds rest0 | ds rest0 p Hp IH | ds m md rest0 p Hp IH | ds m md rest0 p Hp IH
                  | ds m rest0 p Hp IH | ds its rest0 p Hp IH
                  | ds its rest0 t a p Hin Hp IH | ds its rest0 f fb q p Hin Hl Hq _ Hp IH];
    intros cur acq outer Hok; cbn [facts_stmts forallb] in Hok.
  - apply andb_true_iff in Hok as [Hr _]. exact (ret_ok_run cur acq ds outer Hr).
  - apply andb_true_iff in Hok as [Hr _]. exact (ret_ok_run cur acq ds outer Hr).
  - apply andb_true_iff in Hok as [_ Hrest]. exact (IH cur acq outer Hrest).
  - apply andb_true_iff in Hok as [Hacq Hrest]. cbn [fact_ok] in Hacq.
    cbn [run]. rewrite Hacq. exact (IH cur ((m, md) :: acq) outer Hrest).
  - apply andb_true_iff in Hok as [Hacq Hrest]. cbn [fact_ok] in Hacq.
    cbn [run]. rewrite Hacq. exact (IH cur ((m, md) :: acq) outer Hrest).
  - apply andb_true_iff in Hok as [Hrel Hrest]. cbn [fact_ok] in Hrel.
    cbn [run]. rewrite (holds_app m acq outer Hrel), (remove_first_app m acq outer Hrel).
    exact (IH cur (remove_first m acq) outer Hrest).
  - rewrite forallb_app in Hok. apply andb_true_iff in Hok as [_ Hrest]. exact (IH cur acq outer Hrest).
  - pose proof Hok as Hok'. rewrite forallb_app in Hok'. apply andb_true_iff in Hok' as [Hits _].
    rewrite forallb_flat_map in Hits. pose proof (forallb_In _ _ _ Hits Hin) as Ha. cbn in Ha. rewrite andb_true_r in Ha.
    cbn [run]. rewrite Ha. exact (IH cur acq outer Hok).
  - pose proof Hok as Hok'. rewrite forallb_app in Hok'. apply andb_true_iff in Hok' as [Hits _].
    rewrite forallb_flat_map in Hits. pose proof (forallb_In _ _ _ Hits Hin) as Hc. cbn beta iota in Hc.
    rewrite run_app, (Hcall (acq ++ outer) f fb q Hl Hq Hc). exact (IH cur acq outer Hok).
Qed.

Lemma bpath_run fuel : forall body p cur outer,
  bpath ms [] body p ->
  forallb (fact_ok G rk) (facts fuel ms cur outer body) = true ->
  run G rk outer p = Some outer.
Proof.
  induction fuel as [|fuel IHf]; intros body p cur outer Hp Hok; [discriminate|].
  rewrite facts_S in Hok.
  refine (bpath_run_gen _ [] body p Hp _ _ cur [] outer Hok).
  - intros h g gb q Hl Hq Hc. rewrite Hl in Hc. exact (IHf gb q g h Hq Hc).
  - intros h g Hl. rewrite Hl. reflexivity.
Qed.

Lemma mpath_run f p :
  forallb (fact_ok G rk) (all_facts ms) = true -> mpath ms f p -> run G rk [] p = Some [].
Proof.
  intros Hok [fb [Hl Hp]]. destruct (lookup_method_In _ _ _ Hl) as [m [Hi [Hn Hb]]]. subst.
  unfold all_facts in Hok. rewrite forallb_flat_map in Hok.
  pose proof (forallb_In _ _ _ Hok Hi) as Hm.
  exact (bpath_run (depth ms) (m_body m) p (m_name m) [] Hp Hm).
Qed.

Lemma tpath_run p :
  forallb (fact_ok G rk) (all_facts ms) = true -> tpath ms p -> run G rk [] p = Some [].
Proof.
  intros Hok. induction 1 as [|f p q Hp Hq IH]; [reflexivity|].
  rewrite run_app, (mpath_run f p Hok Hp). exact IH.
Qed.
End Static.

(* the checker's verdict in terms of the inferred guards and ranks *)
Definition G_of (ms : list method) := infer_guards (all_facts ms).
Definition rk_of (ms : list method) := infer_ranks (all_facts ms).

Theorem ok_tpath ms p :
  lock_discipline_ok ms = true -> tpath ms p -> run (G_of ms) (rk_of ms) [] p = Some [].
Proof.
  unfold lock_discipline_ok. intros H. apply andb_true_iff in H as [_ H]. now apply tpath_run.
Qed.

(* no tag <-> checker accepts *)
Lemma fold_add_new_nil {A} (f : A -> option string) l acc :
  fold_left (fun acc x => match f x with Some t => add_new t acc | None => acc end) l acc = [] ->
  acc = [] /\ forall x, In x l -> f x = None.
Proof.
  revert acc. induction l as [|x l IH]; intros acc H; cbn in *; [split; [assumption|intros ? []]|].
  destruct (IH _ H) as [Hacc Hall]. destruct (f x) eqn:E.
  - destruct acc; cbn in Hacc; [discriminate|]. destruct (String.eqb s s0); discriminate.
  - split; [assumption|]. intros y [<-|Hy]; auto.
Qed.

Theorem diagnose_nil_ok ms : diagnose ms = [] <-> lock_discipline_ok ms = true.
Proof.
  unfold diagnose, lock_discipline_ok. split.
  - intros H. apply app_eq_nil in H as [H1 H2]. destruct (names_unique ms); [|discriminate]. cbn.
    apply fold_add_new_nil in H2 as [_ H2]. apply forallb_forall. intros f Hf.
    specialize (H2 f Hf). unfold fact_tag in H2.
    destruct (fact_ok _ _ f); [reflexivity|]. destruct f; try discriminate.
    + destruct (holds m h); discriminate.
    + destruct (release_all ds acq) as [[|? ?]|]; discriminate.
  - intros H. apply andb_true_iff in H as [H1 H2]. rewrite H1. cbn.
    rewrite forallb_forall in H2.
    assert (E : forall l acc, (forall f, In f l -> In f (all_facts ms)) ->
              fold_left (fun acc f => match fact_tag (infer_guards (all_facts ms)) (infer_ranks (all_facts ms)) f with
                                      | Some t => add_new t acc | None => acc end) l acc = acc).
    { induction l as [|f l IH]; intros acc Hl; [reflexivity|]. cbn [fold_left].
      assert (Ht : fact_tag (infer_guards (all_facts ms)) (infer_ranks (all_facts ms)) f = None)
        by (unfold fact_tag; now rewrite (H2 f (Hl f (or_introl eq_refl)))).
      rewrite Ht. apply IH. intros g Hg. apply Hl. now right. }
    apply E. auto.
Qed.

(* ------------------------------------------------------------------ part 2: threads *)
Section Dynamic.
Variable G : guards.
Variable rk : ranks.

Definition inv_run (s : state) := forall t, run G rk (held (s t)) (rest (s t)) = Some [].
Definition inv_pend (s : state) := forall t m, pend (s t) = Some m -> exists r, rest (s t) = Acq m MW :: r.
Definition inv_excl (s : state) := forall t u m, whold s t m -> u <> t ->
  ~ In m (map fst (held (s u))) /\ pend (s u) <> Some m.
Definition inv_pend1 (s : state) := forall t u m, pend (s t) = Some m -> pend (s u) = Some m -> t = u.
Definition inv_pendw (s : state) := forall t u m, pend (s t) = Some m -> ~ whold s u m.
Definition inv_idle (n : nat) (s : state) := forall t, n <= t -> rest (s t) = [].

Record Inv (n : nat) (s : state) : Prop := {
  i_run : inv_run s; i_pend : inv_pend s; i_excl : inv_excl s;
  i_pend1 : inv_pend1 s; i_pendw : inv_pendw s; i_idle : inv_idle n s }.

Lemma upd_same s t th : upd s t th t = th.
Proof. unfold upd. now rewrite Nat.eqb_refl. Qed.
Lemma upd_other s t th u : u <> t -> upd s t th u = s u.
Proof. unfold upd. intros H. destruct (Nat.eqb_spec u t); [contradiction|reflexivity]. Qed.

Lemma In_fst_mode (h : hset) m : In m (map fst h) -> In (m, MR) h \/ In (m, MW) h.
Proof.
  rewrite in_map_iff. intros [[m' md] [Hm Hi]]. cbn in Hm. subst. destruct md; auto.
Qed.

Lemma In_pair_fst (h : hset) m md : In (m, md) h -> In m (map fst h).
Proof. intros H. apply in_map_iff. exists (m, md). auto. Qed.

Ltac ucase x t :=
  destruct (Nat.eq_dec x t) as [->|?];
  [rewrite ?upd_same in *|rewrite ?upd_other in * by assumption]; cbn [held pend rest] in *.

Lemma step_inv n s s' : Inv n s -> step s s' -> Inv n s'.
Proof.
  intros [Hrun Hpend Hexcl Hp1 Hpw Hidle] Hstep.
  destruct Hstep as [t m r Hr Hp Hen | t m r Hr Hp Hen | t m r Hr Hp Hen | t tbl a r Hr | t m r Hr].
  - (* RLock *)
    pose proof (Hrun t) as Ht. rewrite Hr in Ht. cbn [run] in Ht.
    destruct (acq_ok rk (held (s t)) m) eqn:Ea; [|discriminate].
    split.
    + intros x. ucase x t; [exact Ht|apply Hrun].
    + intros x m'. ucase x t; [discriminate|apply Hpend].
    + intros x y m' Hw Hne. unfold whold in Hw. ucase x t.
      * destruct Hw as [Hw|Hw]; [discriminate|]. rewrite upd_other by assumption. exact (Hexcl t y m' Hw Hne).
      * ucase y t.
        -- split; [|discriminate]. intros [<-|Hi].
           ++ exact (proj1 (Hen x) Hw).
           ++ exact (proj1 (Hexcl x t m' Hw ltac:(congruence)) Hi).
        -- exact (Hexcl x y m' Hw Hne).
    + intros x y m'. ucase x t; [discriminate|]. ucase y t; [discriminate|]. apply Hp1.
    + intros x y m'. unfold whold. ucase x t; [discriminate|]. intros Hx. ucase y t.
      * intros [Hw|Hw]; [discriminate|]. exact (Hpw x t m' Hx Hw).
      * exact (Hpw x y m' Hx).
    + intros x Hx. ucase x t; [|now apply Hidle]. rewrite (Hidle t Hx) in Hr. discriminate.
  - (* Lock, first half: become the pending writer *)
    split.
    + intros x. ucase x t; [rewrite <- Hr; apply Hrun|apply Hrun].
    + intros x m'. ucase x t; [|apply Hpend]. intros H. injection H as <-. eauto.
    + intros x y m' Hw Hne. unfold whold in Hw.
      assert (Hw' : whold s x m') by (unfold whold; ucase x t; assumption).
      ucase y t.
      * split; [exact (proj1 (Hexcl x t m' Hw' Hne))|]. intros H. injection H as ->.
        exact (proj1 (Hen x) Hw').
      * exact (Hexcl x y m' Hw' Hne).
    + intros x y m'. ucase x t.
      * intros H. injection H as <-. ucase y t; [reflexivity|]. intros Hy. destruct (proj2 (Hen y) Hy).
      * intros Hx. ucase y t; [|now apply Hp1]. intros H. injection H as <-. destruct (proj2 (Hen x) Hx).
    + intros x y m' Hx Hw.
      assert (Hw' : whold s y m') by (unfold whold in *; ucase y t; assumption).
      ucase x t.
      * injection Hx as <-. exact (proj1 (Hen y) Hw').
      * exact (Hpw x y m' Hx Hw').
    + intros x Hx. ucase x t; [|now apply Hidle]. rewrite (Hidle t Hx) in Hr. discriminate.
  - (* Lock, second half: the readers have left *)
    pose proof (Hrun t) as Ht. rewrite Hr in Ht. cbn [run] in Ht.
    destruct (acq_ok rk (held (s t)) m) eqn:Ea; [|discriminate].
    split.
    + intros x. ucase x t; [exact Ht|apply Hrun].
    + intros x m'. ucase x t; [discriminate|apply Hpend].
    + intros x y m' Hw Hne. unfold whold in Hw. ucase x t.
      * rewrite upd_other by assumption. destruct Hw as [Hw|Hw].
        -- injection Hw as <-. split.
           ++ intros Hi. apply In_fst_mode in Hi as [Hi|Hi]; [exact (Hen y Hi)|exact (Hpw t y m Hp Hi)].
           ++ intros Hy. apply Hne. exact (Hp1 y t m Hy Hp).
        -- exact (Hexcl t y m' Hw Hne).
      * ucase y t.
        -- split; [|discriminate]. intros [<-|Hi].
           ++ exact (Hpw t x m Hp Hw).
           ++ exact (proj1 (Hexcl x t m' Hw ltac:(congruence)) Hi).
        -- exact (Hexcl x y m' Hw Hne).
    + intros x y m'. ucase x t; [discriminate|]. ucase y t; [discriminate|]. apply Hp1.
    + intros x y m'. unfold whold. ucase x t; [discriminate|]. intros Hx. ucase y t.
      * intros [Hw|Hw].
        -- injection Hw as <-. apply n0. exact (Hp1 x t m Hx Hp).
        -- exact (Hpw x t m' Hx Hw).
      * exact (Hpw x y m' Hx).
    + intros x Hx. ucase x t; [|now apply Hidle]. rewrite (Hidle t Hx) in Hr. discriminate.
  - (* table access *)
    pose proof (Hrun t) as Ht. rewrite Hr in Ht. cbn [run] in Ht.
    destruct (acc_ok G (held (s t)) tbl a) eqn:Ea; [|discriminate].
    assert (Hnp : pend (s t) = None).
    { destruct (pend (s t)) eqn:E; [|reflexivity]. destruct (Hpend t s0 E) as [r' Hr']. congruence. }
    split.
    + intros x. ucase x t; [exact Ht|apply Hrun].
    + intros x m'. ucase x t; [congruence|apply Hpend].
    + intros x y m' Hw Hne.
      assert (Hw' : whold s x m') by (unfold whold in *; ucase x t; assumption).
      ucase y t; exact (Hexcl _ _ m' Hw' Hne).
    + intros x y m'. ucase x t; [congruence|]. ucase y t; [congruence|]. apply Hp1.
    + intros x y m' Hx Hw.
      assert (Hw' : whold s y m') by (unfold whold in *; ucase y t; assumption).
      ucase x t; [congruence|]. exact (Hpw x y m' Hx Hw').
    + intros x Hx. ucase x t; [|now apply Hidle]. rewrite (Hidle t Hx) in Hr. discriminate.
  - (* Unlock / RUnlock *)
    pose proof (Hrun t) as Ht. rewrite Hr in Ht. cbn [run] in Ht.
    destruct (holds m (held (s t))) eqn:Ea; [|discriminate].
    assert (Hnp : pend (s t) = None).
    { destruct (pend (s t)) eqn:E; [|reflexivity]. destruct (Hpend t s0 E) as [r' Hr']. congruence. }
    split.
    + intros x. ucase x t; [exact Ht|apply Hrun].
    + intros x m'. ucase x t; [congruence|apply Hpend].
    + intros x y m' Hw Hne.
      assert (Hw' : whold s x m') by (unfold whold in *; ucase x t; [eapply remove_first_In; eassumption|assumption]).
      ucase y t.
      * destruct (Hexcl x t m' Hw' Hne) as [H1 H2]. split; [|assumption].
        intros Hi. apply H1. eapply remove_first_In_fst; eassumption.
      * exact (Hexcl x y m' Hw' Hne).
    + intros x y m'. ucase x t; [congruence|]. ucase y t; [congruence|]. apply Hp1.
    + intros x y m' Hx Hw.
      assert (Hw' : whold s y m') by (unfold whold in *; ucase y t; [eapply remove_first_In; eassumption|assumption]).
      ucase x t; [congruence|]. exact (Hpw x y m' Hx Hw').
    + intros x Hx. ucase x t; [|now apply Hidle]. rewrite (Hidle t Hx) in Hr. discriminate.
Qed.

Lemma init_inv progs :
  Forall (fun p => run G rk [] p = Some []) progs -> Inv (List.length progs) (init progs).
Proof.
  intros Hp. split; unfold init.
  - intros t. cbn. destruct (Nat.lt_ge_cases t (List.length progs)) as [Hlt|Hge].
    + rewrite Forall_forall in Hp. apply Hp. now apply nth_In.
    + now rewrite nth_overflow.
  - intros t m H. discriminate.
  - intros t u m H. destruct H.
  - intros t u m H. discriminate.
  - intros t u m H. discriminate.
  - intros t Ht. cbn. now rewrite nth_overflow.
Qed.

Lemma steps_inv n s s' : Inv n s -> steps s s' -> Inv n s'.
Proof. intros Hi Hs. induction Hs as [|s s' s'' Hs IH Hst]; [assumption|]. eapply step_inv; [exact (IH Hi)|exact Hst]. Qed.

(* -------- mutual exclusion of conflicting accesses *)
Lemma acc_write_holds h tbl : acc_ok G h tbl MW = true -> exists g, alookup tbl G = Some g /\ In (g, MW) h.
Proof.
  unfold acc_ok. destruct (alookup tbl G) as [g|]; [|discriminate]. intros H.
  apply existsb_exists in H as [[g' md] [Hi Hc]]. cbn in Hc. apply andb_true_iff in Hc as [Hg Hm].
  apply String.eqb_eq in Hg. subst. destruct md; [discriminate|]. eauto.
Qed.

Lemma acc_any_holds h tbl a g : alookup tbl G = Some g -> acc_ok G h tbl a = true -> In g (map fst h).
Proof.
  unfold acc_ok. intros ->. intros H. apply existsb_exists in H as [[g' md] [Hi Hc]]. cbn in Hc.
  apply andb_true_iff in Hc as [Hg _]. apply String.eqb_eq in Hg. subst. eapply In_pair_fst; eassumption.
Qed.

Lemma inv_no_race n s : Inv n s -> ~ race s.
Proof.
  intros [Hrun _ Hexcl _ _ _] [t1 [t2 [tbl [a1 [a2 [r1 [r2 [Hne [H1 [H2 Hw]]]]]]]]]].
  pose proof (Hrun t1) as R1. rewrite H1 in R1. cbn [run] in R1.
  destruct (acc_ok G (held (s t1)) tbl a1) eqn:E1; [|discriminate].
  pose proof (Hrun t2) as R2. rewrite H2 in R2. cbn [run] in R2.
  destruct (acc_ok G (held (s t2)) tbl a2) eqn:E2; [|discriminate].
  destruct Hw as [-> | ->].
  - destruct (acc_write_holds _ _ E1) as [g [Hg Hin]].
    pose proof (acc_any_holds _ _ _ _ Hg E2) as Hin2.
    exact (proj1 (Hexcl t1 t2 g Hin ltac:(congruence)) Hin2).
  - destruct (acc_write_holds _ _ E2) as [g [Hg Hin]].
    pose proof (acc_any_holds _ _ _ _ Hg E1) as Hin1.
    exact (proj1 (Hexcl t2 t1 g Hin Hne) Hin1).
Qed.

(* -------- deadlock freedom *)
Definition maxrank : nat := fold_right (fun p n => Nat.max (snd p) n) 0 rk.

Lemma rank_le_max m : rank rk m <= maxrank.
Proof.
  unfold rank, maxrank. induction rk as [|[k v] l IH]; cbn; [lia|].
  destruct (String.eqb k m); [lia|]. etransitivity; [exact IH|lia].
Qed.

Lemma bounded_dec (P : nat -> Prop) n :
  (forall u, P u \/ ~ P u) -> (exists u, u < n /\ P u) \/ (forall u, u < n -> ~ P u).
Proof.
  intros Hd. induction n as [|n IH].
  - right. intros u Hu. lia.
  - destruct IH as [[u [Hu Hp]]|Hn]; [left; exists u; split; [lia|assumption]|].
    destruct (Hd n) as [Hp|Hp]; [left; exists n; split; [lia|assumption]|].
    right. intros u Hu. destruct (Nat.eq_dec u n) as [->|]; [assumption|apply Hn; lia].
Qed.

Lemma hold_dec (h : hset) m md : In (m, md) h \/ ~ In (m, md) h.
Proof.
  destruct (in_dec (fun a b : string * mode => ltac:(decide equality; [decide equality|apply string_dec]) : {a = b} + {a <> b}) (m, md) h); auto.
Qed.

Lemma pend_dec (o : option string) m : o = Some m \/ o <> Some m.
Proof.
  destruct o as [x|]; [|right; discriminate]. destruct (string_dec x m); [left; congruence|right; congruence].
Qed.

Lemma idle_holds_nothing n s : Inv n s -> forall u, n <= u -> held (s u) = [] /\ pend (s u) = None.
Proof.
  intros I u Hu. pose proof (i_idle _ _ I u Hu) as Hr. pose proof (i_run _ _ I u) as Hrun.
  rewrite Hr in Hrun. cbn in Hrun. split; [congruence|].
  destruct (pend (s u)) eqn:E; [|reflexivity]. destruct (i_pend _ _ I u s0 E). congruence.
Qed.

(* a thread that holds m can step, or waits for a mutex that comes later in the order *)
Lemma holder_progress n s v m md :
  Inv n s -> In (m, md) (held (s v)) ->
  (exists s', step s s') \/ (exists m' md' r, rest (s v) = Acq m' md' :: r /\ rank rk m < rank rk m').
Proof.
  intros I Hin. pose proof (i_run _ _ I v) as Hrun.
  destruct (rest (s v)) as [|e r] eqn:Er.
  - cbn in Hrun. injection Hrun as H0. rewrite H0 in Hin. destruct Hin.
  - destruct e as [m' md'|m'|tbl a].
    + right. exists m', md', r. split; [reflexivity|]. cbn [run] in Hrun.
      destruct (acq_ok rk (held (s v)) m') eqn:Ea; [|discriminate].
      unfold acq_ok in Ea. apply andb_true_iff in Ea as [_ Ea].
      pose proof (forallb_In _ _ _ Ea Hin) as Hlt. cbn in Hlt. now apply Nat.ltb_lt.
    + left. eexists. eapply st_unlock. exact Er.
    + left. eexists. eapply st_access. exact Er.
Qed.

Lemma acq_progress n s : Inv n s ->
  forall d t m md r, rest (s t) = Acq m md :: r -> maxrank < rank rk m + d -> exists s', step s s'.
Proof.
  intros I. induction d as [|d IH]; intros t m md r Hr Hd.
  { pose proof (rank_le_max m). lia. }
  (* whoever holds m makes progress *)
  assert (Hholder : forall v md', In (m, md') (held (s v)) -> exists s', step s s').
  { intros v md' Hin. destruct (holder_progress n s v m md' I Hin) as [Hs|[m' [md'' [r' [Hr' Hlt]]]]]; [assumption|].
    apply (IH v m' md'' r' Hr'). lia. }
  (* so does a pending writer of m *)
  assert (Hpending : forall u, pend (s u) = Some m -> exists s', step s s').
  { intros u Hu. destruct (i_pend _ _ I u m Hu) as [r' Hr'].
    destruct (bounded_dec (fun v => rhold s v m) n) as [[v [_ Hv]]|Hnone].
    - intros v. apply hold_dec.
    - exact (Hholder v MR Hv).
    - eexists. eapply st_lock_granted; [exact Hr'|exact Hu|].
      intros v Hv. destruct (Nat.lt_ge_cases v n) as [Hlt|Hge]; [exact (Hnone v Hlt Hv)|].
      unfold rhold in Hv. rewrite (proj1 (idle_holds_nothing n s I v Hge)) in Hv. destruct Hv. }
  destruct (pend (s t)) as [m0|] eqn:Ep.
  { destruct (i_pend _ _ I t m0 Ep) as [r' Hr']. rewrite Hr in Hr'. injection Hr' as -> -> ->. exact (Hpending t Ep). }
  destruct (bounded_dec (fun u => whold s u m) n) as [[u [_ Hu]]|Hnw].
  { intros u. apply hold_dec. }
  { exact (Hholder u MW Hu). }
  destruct (bounded_dec (fun u => pending s u m) n) as [[u [_ Hu]]|Hnp].
  { intros u. apply pend_dec. }
  { exact (Hpending u Hu). }
  assert (Hen : forall u, ~ whold s u m /\ ~ pending s u m).
  { intros u. destruct (Nat.lt_ge_cases u n) as [Hlt|Hge]; [split; [exact (Hnw u Hlt)|exact (Hnp u Hlt)]|].
    destruct (idle_holds_nothing n s I u Hge) as [Hh Hp]. unfold whold, pending. rewrite Hh, Hp. split; [easy|discriminate]. }
  destruct md.
  - eexists. eapply st_rlock; eassumption.
  - eexists. eapply st_lock_announce; eassumption.
Qed.

Lemma inv_no_deadlock n s : Inv n s -> finished s \/ exists s', step s s'.
Proof.
  intros I.
  destruct (bounded_dec (fun t => rest (s t) <> []) n) as [[t [_ Ht]]|Hnone].
  - intros t. destruct (rest (s t)); [right; congruence|left; discriminate].
  - right. destruct (rest (s t)) as [|e r] eqn:Er; [congruence|]. destruct e as [m md|m|tbl a].
    + apply (acq_progress n s I (S maxrank) t m md r Er). lia.
    + eexists. eapply st_unlock. exact Er.
    + eexists. eapply st_access. exact Er.
  - left. intros t. destruct (Nat.lt_ge_cases t n) as [Hlt|Hge]; [|exact (i_idle _ _ I t Hge)].
    specialize (Hnone t Hlt). destruct (rest (s t)); [reflexivity|]. exfalso. apply Hnone. discriminate.
Qed.
End Dynamic.

(* ------------------------------------------------------------------ the generic theorems *)
Theorem no_race ms :
  lock_discipline_ok ms = true ->
  forall progs, Forall (tpath ms) progs ->
  forall s, steps (init progs) s -> ~ race s.
Proof.
  intros Hok progs Hp s Hs.
  apply (inv_no_race (G_of ms) (rk_of ms) (List.length progs)).
  eapply steps_inv; [|exact Hs]. apply init_inv.
  rewrite Forall_forall in *. intros p Hin. apply ok_tpath; auto.
Qed.

Theorem no_deadlock ms :
  lock_discipline_ok ms = true ->
  forall progs, Forall (tpath ms) progs ->
  forall s, steps (init progs) s -> finished s \/ exists s', step s s'.
Proof.
  intros Hok progs Hp s Hs.
  apply (inv_no_deadlock (G_of ms) (rk_of ms) (List.length progs)).
  eapply steps_inv; [|exact Hs]. apply init_inv.
  rewrite Forall_forall in *. intros p Hin. apply ok_tpath; auto.
Qed.

(* ------------------------------------------------------------------ one critical section per written table *)
Lemma add_new_In x l : In x (add_new x l).
Proof.
  induction l as [|y r IH]; cbn; [auto|]. destruct (String.eqb x y) eqn:E; [|right; exact IH].
  apply String.eqb_eq in E. subst. left. reflexivity.
Qed.
Lemma add_new_keeps x y l : In x l -> In x (add_new y l).
Proof.
  induction l as [|z r IH]; cbn; [auto|]. intros [<-|H]; destruct (String.eqb y z); cbn; auto.
Qed.
Lemma existsb_eqb_In t l : existsb (String.eqb t) l = true <-> In t l.
Proof.
  rewrite existsb_exists. split.
  - intros [x [Hx E]]. apply String.eqb_eq in E. now subst.
  - intros H. exists t. split; [exact H|apply String.eqb_refl].
Qed.

(* an access to a table that is already closed is reported, whatever comes first *)
Lemma split_scan_closed G t a : forall l r opened closed,
  In t closed -> split_scan G (l ++ Acc t a :: r) opened closed <> None.
Proof.
  induction l as [|e l IH]; intros r opened closed Hc; cbn [app split_scan].
  - apply existsb_eqb_In in Hc. rewrite Hc. discriminate.
  - destruct e as [m md|m|t0 a0].
    + apply IH. exact Hc.
    + apply IH. apply in_or_app. right. exact Hc.
    + destruct (existsb (String.eqb t0) closed); [discriminate|]. apply IH. exact Hc.
Qed.

(* a table that is open when its guard is released and accessed afterwards is reported *)
Lemma split_scan_opened G t m a : alookup t G = Some m -> forall l l3 r opened closed,
  In t opened -> split_scan G (l ++ Rel m :: l3 ++ Acc t a :: r) opened closed <> None.
Proof.
  intros Hg. induction l as [|e l IH]; intros l3 r opened closed Ho; cbn [app split_scan].
  - apply split_scan_closed. apply in_or_app. left. apply filter_In. split; [exact Ho|].
    rewrite Hg. apply String.eqb_refl.
  - destruct e as [m0 md|m0|t0 a0].
    + apply IH. exact Ho.
    + destruct (String.eqb m m0) eqn:E.
      * apply String.eqb_eq in E. subst m0.
        replace (l ++ Rel m :: l3 ++ Acc t a :: r)%list with ((l ++ Rel m :: l3) ++ Acc t a :: r)%list
          by (rewrite <- app_assoc; reflexivity).
        apply split_scan_closed. apply in_or_app. left. apply filter_In. split; [exact Ho|].
        rewrite Hg. apply String.eqb_refl.
      * apply IH. apply filter_In. split; [exact Ho|].
        apply Bool.negb_true_iff. apply Bool.not_true_is_false. intros H. apply existsb_eqb_In in H.
        apply filter_In in H as [_ H]. rewrite Hg in H. rewrite H in E. discriminate.
    + destruct (existsb (String.eqb t0) closed); [discriminate|]. apply IH. now apply add_new_keeps.
Qed.

(* the scan accepts only sequences in which no table is accessed, then has its guard released, then is accessed again *)
Theorem split_scan_sound G t m a a' l1 l2 l3 l4 :
  alookup t G = Some m ->
  split_scan G (l1 ++ Acc t a :: l2 ++ Rel m :: l3 ++ Acc t a' :: l4) [] [] <> None.
Proof.
  intros Hg. generalize (@nil string) at 1 as opened. generalize (@nil string) as closed.
  induction l1 as [|e l IH]; intros closed opened; cbn [app split_scan].
  - destruct (existsb (String.eqb t) closed); [discriminate|].
    apply (split_scan_opened G t m a' Hg). apply add_new_In.
  - destruct e as [m0 md|m0|t0 a0]; try apply IH.
    destruct (existsb (String.eqb t0) closed); [discriminate|]. apply IH.
Qed.

(* non-vacuity: a test under the read lock followed by a set under the write lock is reported, the same accesses inside
   one critical section are not *)
Example split_section_detects :
  split_section [Meth "Valid" [SAcq "mu" MR; SItems [IAcc "T" MR]];
                 Meth "Set" [SItems [ICall "Valid"]; SRet; SAcq "mu" MW; SItems [IAcc "T" MW]]] "Set"
  = Some "split-critical-section:Set:T"%string /\
  split_section [Meth "Set" [SAcq "mu" MW; SItems [IAcc "T" MR]; SRet; SItems [IAcc "T" MW]]] "Set" = None.
Proof. split; vm_compute; reflexivity. Qed.
