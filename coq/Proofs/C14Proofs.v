(* C14: the clauses of the property for each issuing path, the code-flow chain through storage,
   the two refuted clauses (findings) and non-vacuity examples. *)
From FositeModel Require Import Base.Str Model.IDToken Proofs.IDTokenProofs Cases.CasesC14.
Local Open Scope Z_scope.

(* the claims every issued token has, relative to the session claims [c1] it was generated from *)
Definition bound_to (g : config) (client_id : string) (lifespan : Z) (request_nonce : string)
                    (c1 : claims) (now : Z) (t : tokclaims) : Prop :=
  c_sub c1 <> "" /\ t_sub t = c_sub c1 /\
  In client_id (t_aud t) /\
  t_iss t = (if String.eqb (c_iss c1) "" then g_iss g else c_iss c1) /\
  t_nonce t = (if String.eqb request_nonce "" then c_nonce c1 else request_nonce) /\
  (exists e, t_exp t = Some e /\ now <= e /\
     match c_exp c1 with Some preset => e = preset | None => e = now + life_of lifespan end) /\
  t_iat t = Some now /\
  (forall k v, In (k, v) (t_extra t) -> ~ In k std_claims).

Lemma generate_bound g cid lifespan f p c1 now c' t :
  generate g cid lifespan f p c1 now = (c', OTok t) ->
  bound_to g cid lifespan (fget "nonce" f) c1 now t /\ t_at t = c_at c1 /\ t_ch t = c_ch c1.
Proof.
  intros H. pose proof (generate_expiry _ _ _ _ _ _ _ _ _ H) as He.
  apply generate_token_claims in H.
  destruct H as (H1 & H2 & H3 & _ & H5 & H6 & _ & _ & H9 & _ & H11 & H12 & H13).
  repeat split; try assumption. intros k v Hk. now apply (H13 k v).
Qed.

Lemma bound_same g cid l n c1 c now t :
  same_but_hashes c1 c -> bound_to g cid l n c1 now t -> bound_to g cid l n c now t.
Proof.
  intros (S1 & S2 & S3 & S4 & S5 & S6 & S7 & S8). unfold bound_to.
  now rewrite S1, S2, S4, S5.
Qed.

(* ---------------------------------------------------------------- authorization endpoint (implicit, hybrid) *)
Theorem authorization_endpoint_id_token g cl h a c now t :
  r_idt (authorize_step g cl h a c now) = Some t ->
  let r := authorize_step g cl h a c now in
  has_openid (a_granted a) = true /\
  fget "nonce" (a_form a) <> "" /\
  bound_to g (cl_id cl) (eff_life g cl GImplicit) (fget "nonce" (a_form a)) c now t /\
  (r_at r = true -> t_at t = HOf (hash_of_hdr h) (a_token a)) /\
  (r_code r = true -> t_ch t = HOf (hash_of_hdr h) (a_code a)) /\
  ~ requirement_unmet_at_authorization (a_form a) (a_parsed a) c.
Proof.
  intros H r. apply authorize_step_idt in H. fold r in H.
  destruct H as (Ho & Hn & Hv & _ & c1 & Hs & Hat & Hch & Hg).
  apply generate_bound in Hg. destruct Hg as (Hb & Ha & Hc).
  split; [exact Ho|]. split; [exact Hn|]. split; [|split; [|split]].
  - eapply bound_same; eassumption.
  - intros E. rewrite Ha, Hat, E. reflexivity.
  - intros E. rewrite Hc, Hch, E. reflexivity.
  - apply validate_prompt_pass in Hv. apply Hv.
Qed.

(* ---------------------------------------------------------------- token endpoint *)
(* [requirement_unmet] is checked again at redemption unless the stored request says
   grant_type=refresh_token (a parameter the white-list lets through); the requirements were
   already enforced by ValidatePrompt when the code was issued, see [code_flow_binding]. *)
Theorem redemption_id_token g cl h st at_ c now t :
  x_idt (redeem_step g cl h st at_ c now) = Some t ->
  exists s, st = Some s /\ has_openid (s_granted s) = true /\
    bound_to g (cl_id (s_client s)) (eff_life g cl GCode) (fget "nonce" (s_form s)) c now t /\
    t_at t = HOf (hash_of_hdr h) at_ /\ t_ch t = c_ch c /\
    (fget "grant_type" (s_form s) <> "refresh_token" -> ~ requirement_unmet (s_form s) (s_parsed s) c).
Proof.
  intros H. apply redeem_step_idt in H. destruct H as (s & c2 & -> & Ho & Hg & _).
  exists s. pose proof (generate_sound _ _ _ _ _ _ _ _ _ Hg) as ([_ Hauth _ _] & _).
  apply generate_bound in Hg. destruct Hg as (Hb & Ha & Hc).
  split; [reflexivity|]. split; [exact Ho|]. split; [|split; [|split]].
  - eapply bound_same; [apply same_set_at|exact Hb].
  - exact Ha.
  - exact Hc.
  - intros Hr Hu. apply (auth_ok_met _ _ _ _ (Hauth Hr)).
    destruct Hu as [Hu|[Hu|[Hu|Hu]]]; [left|right; left|right; right; left|right; right; right]; exact Hu.
Qed.

Theorem device_id_token g cl h st at_ c now t :
  x_idt (device_step g cl h st at_ c now) = Some t ->
  exists s, st = Some s /\ has_openid (s_granted s) = true /\
    bound_to g (cl_id (s_client s)) (eff_life g cl GDevice) (fget "nonce" (s_form s)) c now t /\
    t_at t = HOf (hash_of_hdr h) at_ /\ t_ch t = c_ch c /\
    (fget "grant_type" (s_form s) <> "refresh_token" -> ~ requirement_unmet (s_form s) (s_parsed s) c).
Proof.
  intros H. apply device_step_idt in H. destruct H as (s & c2 & -> & Ho & Hg & _).
  exists s. pose proof (generate_sound _ _ _ _ _ _ _ _ _ Hg) as ([_ Hauth _ _] & _).
  apply generate_bound in Hg. destruct Hg as (Hb & Ha & Hc).
  split; [reflexivity|]. split; [exact Ho|]. split; [|split; [|split]].
  - eapply bound_same; [apply same_set_at|exact Hb].
  - exact Ha.
  - exact Hc.
  - intros Hr Hu. apply (auth_ok_met _ _ _ _ (Hauth Hr)).
    destruct Hu as [Hu|[Hu|[Hu|Hu]]]; [left|right; left|right; right; left|right; right; right]; exact Hu.
Qed.

(* refresh: same rules for the new access token, c_hash dropped, the previous expiry is not
   carried over (always now + lifetime) *)
Theorem refresh_id_token g cl h granted f at_ c now t :
  x_idt (refresh_step g cl h granted f at_ c now) = Some t ->
  has_openid granted = true /\
  c_sub c <> "" /\ t_sub t = c_sub c /\ In (cl_id cl) (t_aud t) /\
  t_iss t = (if String.eqb (c_iss c) "" then g_iss g else c_iss c) /\
  t_at t = HOf (hash_of_hdr h) at_ /\ t_ch t = HNone /\
  t_exp t = Some (now + life_of (eff_life g cl GRefresh)) /\ now <= now + life_of (eff_life g cl GRefresh) /\
  t_nonce t = (if String.eqb (fget "nonce" f) "" then c_nonce c else fget "nonce" f).
Proof.
  intros H. apply refresh_step_idt in H. destruct H as (Ho & c2 & Hg & _).
  apply generate_bound in Hg. destruct Hg as ((H1 & H2 & H3 & H4 & H5 & (e & He & Hle & Hx) & _) & Ha & Hc).
  cbn in Hx. subst e.
  repeat split; try assumption.
Qed.

(* ---------------------------------------------------------------- the code flow through storage *)
Lemma oidc_nonce_kept f : fget "nonce" (sanitize oidc_parameters f) = fget "nonce" f.
Proof. now rewrite fget_sanitize. Qed.

(* whatever white-list the source declares: if it passes [whitelist_ok] the four parameters survive *)
Theorem whitelist_keeps wl f :
  whitelist_ok wl = true ->
  fget "nonce" (sanitize wl f) = fget "nonce" f /\ fget "max_age" (sanitize wl f) = fget "max_age" f /\
  fget "prompt" (sanitize wl f) = fget "prompt" f /\ fget "id_token_hint" (sanitize wl f) = fget "id_token_hint" f.
Proof.
  unfold whitelist_ok. intros H.
  apply andb_true_iff in H. destruct H as [H H4]. apply andb_true_iff in H. destruct H as [H H3].
  apply andb_true_iff in H. destruct H as [H1 H2].
  rewrite !fget_sanitize, H1, H2, H3, H4. now repeat split.
Qed.

(* what a successful authorization response leaves behind for the token endpoint *)
Lemma authorize_step_stored g cl h a c now s :
  let r := authorize_step g cl h a c now in
  r_err r = None -> r_stored r = Some s ->
  s = mk_stored cl a /\ has_openid (a_granted a) = true /\
  validate_prompt g (cl_public cl) (a_redirect_secure a) (a_form a) (a_parsed a) c now = None /\
  r_code r = true /\
  c_sub (r_claims r) = c_sub c /\
  (fget "nonce" (a_form a) = "" -> c_nonce (r_claims r) = c_nonce c) /\
  (c_ch (r_claims r) = c_ch c \/ c_ch (r_claims r) = HOf (hash_of_hdr h) (a_code a)).
Proof.
  unfold authorize_step.
  destruct (args_exact_one (a_rts a) "code").
  { unfold authorize_code.
    destruct (a_redirect_secure a); [|easy]. destruct (a_scopes_ok a); [|easy]. cbn [negb].
    destruct (has_openid (a_granted a)) eqn:Eo; [|easy]. cbn [negb].
    destruct (redirect_present (a_form a)); [|easy]. cbn [negb].
    destruct (validate_prompt _ _ _ _ _ _ _) eqn:Ev; [easy|].
    cbn [r_err r_stored r_code r_claims]. intros _ H. inversion H.
    do 5 (split; [reflexivity|]). split; [reflexivity|left; reflexivity]. }
  destruct (args_exact_one (a_rts a) "token").
  { destruct (args_has (cl_grants cl) ["implicit"]); [|easy]. now destruct (a_scopes_ok a). }
  destruct (has_openid (a_granted a) && _ && negb (args_has (a_rts a) ["code"])).
  { unfold authorize_implicit.
    destruct (args_has (cl_grants cl) ["implicit"]); [|easy]. cbn [negb].
    destruct (redirect_present (a_form a)); [|easy]. cbn [negb].
    destruct (String.eqb (fget "nonce" (a_form a)) ""); [easy|].
    destruct (Nat.ltb _ _); [easy|].
    destruct (a_scopes_ok a); [|easy]. cbn [negb].
    destruct (validate_prompt _ _ _ _ _ _ _); [easy|].
    now destruct (generate _ _ _ _ _ _ _) as [c2 [e|t']]. }
  destruct (Nat.leb 2 (List.length (a_rts a)) && _); [|easy].
  unfold authorize_hybrid.
  destruct (String.eqb (fget "nonce" (a_form a)) "" && args_has (a_rts a) ["id_token"]) eqn:E1; [easy|].
  destruct (negb (String.eqb (fget "nonce" (a_form a)) "") && Nat.ltb _ _); [easy|].
  destruct (redirect_present (a_form a)); [|easy]. cbn [negb].
  destruct (validate_prompt _ _ _ _ _ _ _) eqn:Ev; [easy|].
  destruct (a_scopes_ok a); [|easy]. cbn [negb].
  destruct (args_has (cl_grants cl) ["authorization_code"]); [|easy]. cbn [negb].
  destruct (args_has (a_rts a) ["token"] && negb (args_has (cl_grants cl) ["implicit"])); [easy|].
  destruct (has_openid (a_granted a)) eqn:Eo.
  2:{ cbn. easy. }
  cbn [negb orb].
  destruct (args_has (a_rts a) ["id_token"]) eqn:Ei; cbn [negb].
  - cbn zeta. destruct (generate _ _ _ _ _ _ _) as [c3 [e|t']] eqn:Eg; [easy|].
    cbn [r_err r_stored r_code r_claims]. intros _ H. inversion H.
    apply generate_sound in Eg. destruct Eg as (_ & -> & _).
    do 4 (split; [reflexivity|]). split; [|split].
    + unfold issued_claims. cbn [c_sub]. now destruct (args_has (a_rts a) ["token"]).
    + intros Hn. unfold issued_claims. cbn [c_nonce]. rewrite Hn. cbn [String.eqb].
      now destruct (args_has (a_rts a) ["token"]).
    + right. unfold issued_claims. cbn [c_ch]. now destruct (args_has (a_rts a) ["token"]).
  - cbn [r_err r_stored r_code r_claims]. intros _ H. inversion H.
    do 4 (split; [reflexivity|]). split; [|split].
    + now destruct (args_has (a_rts a) ["token"]).
    + intros _. now destruct (args_has (a_rts a) ["token"]).
    + right. now destruct (args_has (a_rts a) ["token"]).
Qed.

(* The ID token obtained by redeeming a code is bound to the client, user and nonce of the
   AUTHORIZATION request (the nonce travels through the stored, sanitized request), to the access
   token of the token response, and its c_hash, if any, is that of the redeemed code. *)
Theorem code_flow_binding g cl h a c now1 cl2 at2 now2 t :
  let r1 := authorize_step g cl h a c now1 in
  r_err r1 = None ->
  x_idt (redeem_step g cl2 h (r_stored r1) at2 (r_claims r1) now2) = Some t ->
  has_openid (a_granted a) = true /\
  c_sub c <> "" /\ t_sub t = c_sub c /\
  In (cl_id cl) (t_aud t) /\
  t_nonce t = (if String.eqb (fget "nonce" (a_form a)) "" then c_nonce c else fget "nonce" (a_form a)) /\
  t_at t = HOf (hash_of_hdr h) at2 /\
  (c_ch c = HNone -> t_ch t = HNone \/ t_ch t = HOf (hash_of_hdr h) (a_code a)) /\
  (exists e, t_exp t = Some e /\ now2 <= e) /\
  ~ requirement_unmet_at_authorization (a_form a) (a_parsed a) c.
Proof.
  intros r1 Herr H. apply redemption_id_token in H.
  destruct H as (s & Hst & _ & Hb & Hat & Hch & _).
  destruct (authorize_step_stored g cl h a c now1 s Herr Hst) as (-> & Ho & Hv & _ & Hsub & Hnon & Hc).
  fold r1 in Hsub, Hnon, Hc.
  destruct Hb as (B1 & B2 & B3 & _ & B5 & (e & He & Hle & _) & _).
  cbn [mk_stored s_client s_form] in *. rewrite oidc_nonce_kept in B5.
  apply validate_prompt_pass in Hv. destruct Hv as [Hs Hu].
  repeat split; try assumption.
  - congruence.
  - rewrite B5. destruct (String.eqb_spec (fget "nonce" (a_form a)) ""); [now apply Hnon|reflexivity].
  - intros Hz. rewrite Hch. destruct Hc as [Hc|Hc]; [left; congruence|right; exact Hc].
  - now exists e.
Qed.

(* ---------------------------------------------------------------- hash function: the session header decides (A6) *)
Definition header_consistent (g : config) (h : hdr) : Prop :=
  hash_of_jwa (key_alg (g_key g)) = Some (hash_of_hdr h).

(* under a consistent header the hashes are those the token's algorithm prescribes ... *)
Theorem hashes_follow_token_alg g cl h a c now t :
  header_consistent g h ->
  r_idt (authorize_step g cl h a c now) = Some t ->
  let r := authorize_step g cl h a c now in
  (r_at r = true -> hash_is (key_alg (g_key g)) (t_at t) (a_token a) = true) /\
  (r_code r = true -> hash_is (key_alg (g_key g)) (t_ch t) (a_code a) = true).
Proof.
  intros Hc H r. apply authorization_endpoint_id_token in H. fold r in H.
  destruct H as (_ & _ & _ & Ha & Hch & _). unfold hash_is. rewrite Hc.
  split; intros E; [rewrite (Ha E)|rewrite (Hch E)]; cbn;
    destruct (hash_of_hdr h); cbn; now rewrite Nat.eqb_refl.
Qed.

(* ... and the clause "chosen by the token's algorithm" is FALSE without that assumption:
   an ES384 JWK key, a session whose header carries no alg: the token is signed ES384 and at_hash
   is the left half of SHA-256. *)
Definition a6_config : config := mkConfig (KJwk "ES384") "https://as.example" 8 3600 [].
Definition a6_client : client := mkClient "c0" false ["authorization_code"; "implicit"; "refresh_token"] None None None.
Definition a6_claims : claims := mkClaims "alice" "" [] "" None None (Some 0) (Some 0) HNone HNone "" false [].
Definition a6_request : areq :=
  mkAreq ["id_token"; "token"] ["openid"] [("nonce", "nonce-0123456789"); ("redirect_uri", "https://app.example/cb")]
         (mkParsed 0 HintAbsent) true true 0 1.

Theorem hash_by_token_alg_refuted :
  exists g cl h a c now t,
    r_idt (authorize_step g cl h a c now) = Some t /\ r_at (authorize_step g cl h a c now) = true /\
    key_alg (g_key g) = "ES384" /\ t_at t = HOf SHA256 (a_token a) /\
    hash_is (key_alg (g_key g)) (t_at t) (a_token a) = false.
Proof.
  exists a6_config, a6_client, (mkHdr None None), a6_request, a6_claims, 0.
  eexists. vm_compute. repeat split.
Qed.

(* ---------------------------------------------------------------- nonce on refresh *)
(* the refreshed token echoes the nonce parameter of the REFRESH request when there is one *)
Theorem refresh_nonce_refuted :
  exists g cl h granted f at_ c now t,
    x_idt (refresh_step g cl h granted f at_ c now) = Some t /\
    c_nonce c = "nonce-of-the-authorization" /\ t_nonce t = "smuggled-nonce-0123456789".
Proof.
  exists a6_config, a6_client, (mkHdr None None), ["openid"],
         [("grant_type", "refresh_token"); ("nonce", "smuggled-nonce-0123456789")], 2%nat,
         (mkClaims "alice" "" ["c0"] "nonce-of-the-authorization" (Some 3600) (Some 0) (Some 0) (Some 0) HNone HNone "" false []), 10.
  eexists. vm_compute. repeat split.
Qed.

(* without a nonce parameter in the refresh request the nonce is the one the session carries *)
Corollary refresh_nonce_kept g cl h granted f at_ c now t :
  fget "nonce" f = "" ->
  x_idt (refresh_step g cl h granted f at_ c now) = Some t -> t_nonce t = c_nonce c.
Proof.
  intros Hn H. apply refresh_id_token in H. rewrite Hn in H. cbn in H. apply H.
Qed.

(* ---------------------------------------------------------------- non-vacuity *)
Example ex_implicit_issues :
  exists t, r_idt (authorize_step a6_config a6_client (mkHdr (Some "ES384") (Some 384)) a6_request a6_claims 0) = Some t
            /\ t_at t = HOf SHA384 1 /\ t_nonce t = "nonce-0123456789" /\ t_aud t = ["c0"] /\ t_exp t = Some 3600.
Proof. eexists. vm_compute. repeat split. Qed.

Definition ex_code_request : areq :=
  mkAreq ["code"] ["openid"; "offline"] [("nonce", "nonce-0123456789"); ("redirect_uri", "https://app.example/cb"); ("state", "x")]
         (mkParsed 0 HintAbsent) true true 0 1.

Example ex_code_flow :
  let r1 := authorize_step a6_config a6_client (mkHdr None None) ex_code_request a6_claims 0 in
  r_err r1 = None /\
  exists t, x_idt (redeem_step a6_config a6_client (mkHdr None None) (r_stored r1) 1 (r_claims r1) 30) = Some t
            /\ t_nonce t = "nonce-0123456789" /\ t_at t = HOf SHA256 1 /\ t_ch t = HNone /\ t_exp t = Some 3630.
Proof. cbn zeta. split; [reflexivity|]. eexists. vm_compute. repeat split. Qed.

Example ex_max_age_unmet :
  requirement_unmet [("max_age", "60")] (mkParsed 60 HintAbsent)
                    (mkClaims "alice" "" [] "" None None (Some 1000) (Some 900) HNone HNone "" false []).
Proof. left. cbn. split; [lia|]. right. right. cbn. lia. Qed.

Example ex_issuable :
  issuable a6_config 0 [("nonce", "nonce-0123456789")] (mkParsed 0 HintAbsent) a6_claims 5.
Proof.
  constructor; cbn; try easy; try lia.
Qed.
