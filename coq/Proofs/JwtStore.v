(* C15 - the replay memory (storage/memory.go jti methods) and programs over it:
   persistence of a remembered jti until the instant of its exp, refusal while it is remembered,
   and the interleaving theorem (at most one test-and-set per jti succeeds, any number of threads,
   any schedule). *)
From FositeModel Require Import Base.Str Model.Assertion.
Local Open Scope Z_scope.

(* ------------------------------------------------------------------ lookups and the purge *)
Lemma jget_purge_inv nw s j e :
  jget (purge nw s) j = Some e -> before_now nw e = false /\ jget s j <> None.
Proof.
  induction s as [|[k x] r IH]; cbn; [easy|].
  destruct (before_now nw x) eqn:Hb; cbn.
  - intros H. destruct (IH H) as [H1 H2]. split; [assumption|]. destruct (String.eqb k j); easy.
  - destruct (String.eqb k j) eqn:Hk.
    + intros H. injection H as <-. split; [assumption|easy].
    + intros H. destruct (IH H). split; assumption.
Qed.

Lemma jget_purge_keep nw s j e :
  jget s j = Some e -> before_now nw e = false -> jget (purge nw s) j = Some e.
Proof.
  induction s as [|[k x] r IH]; cbn; [easy|].
  destruct (String.eqb k j) eqn:Hk.
  - intros H Hb. injection H as ->. rewrite Hb. cbn. now rewrite Hk.
  - intros H Hb. destruct (before_now nw x); cbn; [|rewrite Hk]; now apply IH.
Qed.

Lemma jget_purge_none nw s j : jget s j = None -> jget (purge nw s) j = None.
Proof.
  intros H. destruct (jget (purge nw s) j) eqn:E; [|reflexivity].
  apply jget_purge_inv in E. tauto.
Qed.

Lemma not_before_iff nw e : before_now nw e = false <-> nw <= e * 1000.
Proof. unfold before_now. rewrite Z.ltb_ge. reflexivity. Qed.

Lemma before_iff nw e : before_now nw e = true <-> e * 1000 < nw.
Proof. unfold before_now. apply Z.ltb_lt. Qed.

(* a successful test-and-set implies that the preceding validity check passes *)
Lemma jti_set_ok_inv nw s j e s' :
  jti_set nw s j e = (s', true) -> jget (purge nw s) j = None /\ s' = (j, e) :: purge nw s.
Proof.
  unfold jti_set. destruct (jget (purge nw s) j); intros H; inversion H. tauto.
Qed.

Lemma jti_set_fail_inv nw s j e s' :
  jti_set nw s j e = (s', false) -> jget (purge nw s) j <> None /\ s' = purge nw s.
Proof.
  unfold jti_set. destruct (jget (purge nw s) j); intros H; inversion H. split; easy.
Qed.

Lemma set_ok_implies_valid nw s j e s' : jti_set nw s j e = (s', true) -> jti_valid nw s j = true.
Proof.
  intros H. apply jti_set_ok_inv in H as [H _]. unfold jti_valid.
  destruct (jget s j) as [x|] eqn:E; [|reflexivity].
  destruct (before_now nw x) eqn:Hb.
  - apply before_iff in Hb. unfold after_now. apply negb_true_iff, Z.ltb_ge. lia.
  - rewrite (jget_purge_keep _ _ _ _ E Hb) in H. discriminate.
Qed.

(* while now <= exp*1000 a remembered jti stays remembered through any test-and-set ... *)
Lemma jti_set_persist nw s j e j' e' s' ok :
  jget s j = Some e -> nw <= e * 1000 -> jti_set nw s j' e' = (s', ok) -> jget s' j = Some e.
Proof.
  intros Hg Hn Hs. apply not_before_iff in Hn.
  pose proof (jget_purge_keep _ _ _ _ Hg Hn) as Hk.
  unfold jti_set in Hs. destruct (jget (purge nw s) j') eqn:E; inversion Hs; subst; [assumption|].
  cbn. destruct (String.eqb j' j) eqn:Hj; [|assumption].
  apply String.eqb_eq in Hj. subst. congruence.
Qed.

(* ... and a test-and-set on it fails *)
Lemma jti_set_refused nw s j e e' s' ok :
  jget s j = Some e -> nw <= e * 1000 -> jti_set nw s j e' = (s', ok) -> ok = false.
Proof.
  intros Hg Hn Hs. apply not_before_iff in Hn.
  pose proof (jget_purge_keep _ _ _ _ Hg Hn) as Hk.
  unfold jti_set in Hs. rewrite Hk in Hs. now inversion Hs.
Qed.

(* ------------------------------------------------------------------ one flow *)
(* the pair (jti, exp) that an accepted flow has written *)
Definition flow_mark (f : jflow) : option (string * Z) :=
  match f_pre f, f_mid f with
  | inr (Some j), inr e => Some (j, e)
  | _, _ => None
  end.

Lemma run_flow_acc nw st f st' c s :
  run_flow nw st f = (st', Acc c s) ->
  f_post f = Acc c s /\
  ((f_pre f = inr None /\ st' = st /\ exists x, f_mid f = inr x) \/
   exists j e, f_pre f = inr (Some j) /\ f_mid f = inr e /\ jti_set nw st j e = (st', true)).
Proof.
  unfold run_flow. destruct (f_pre f) as [e|[j|]].
  - intros H; inversion H.
  - destruct (jti_valid nw st j); cbn [negb]; [|intros H; inversion H].
    destruct (f_mid f) as [e|x]; [intros H; inversion H|].
    destruct (jti_set nw st j x) as [s1 ok] eqn:E. destruct ok; intros H; inversion H; subst.
    split; [reflexivity|]. right. exists j, x. auto.
  - destruct (f_mid f); intros H; inversion H; subst. split; [reflexivity|]. left. eauto.
Qed.

Lemma run_flow_mark nw st f st' c s j e :
  run_flow nw st f = (st', Acc c s) -> flow_mark f = Some (j, e) ->
  jget (purge nw st) j = None /\ st' = (j, e) :: purge nw st.
Proof.
  intros H Hm. apply run_flow_acc in H as [_ [[Hp _]|[j0 [e0 [Hp [Hmid Hs]]]]]];
    unfold flow_mark in Hm; rewrite Hp in Hm; [discriminate|].
  rewrite Hmid in Hm. injection Hm as -> ->. now apply jti_set_ok_inv.
Qed.

Lemma run_flow_persist nw st f st' r j e :
  jget st j = Some e -> nw <= e * 1000 -> run_flow nw st f = (st', r) -> jget st' j = Some e.
Proof.
  intros Hg Hn. unfold run_flow. destruct (f_pre f) as [x|[k|]].
  - intros H; inversion H; subst; assumption.
  - destruct (negb (jti_valid nw st k)); [intros H; inversion H; subst; assumption|].
    destruct (f_mid f) as [x|x]; [intros H; inversion H; subst; assumption|].
    destruct (jti_set nw st k x) as [s1 ok] eqn:E. pose proof (jti_set_persist _ _ _ _ _ _ _ _ Hg Hn E).
    destruct ok; intros H'; inversion H'; subst; assumption.
  - intros H; inversion H; subst; assumption.
Qed.

Lemma run_flow_refused nw st f st' r j e :
  jget st j = Some e -> nw <= e * 1000 -> f_pre f = inr (Some j) ->
  run_flow nw st f = (st', r) -> exists x, r = Rej x.
Proof.
  intros Hg Hn Hp. unfold run_flow. rewrite Hp.
  destruct (negb (jti_valid nw st j)); [intros H; inversion H; eauto|].
  destruct (f_mid f) as [x|x]; [intros H; inversion H; eauto|].
  destruct (jti_set nw st j x) as [s1 ok] eqn:E. rewrite (jti_set_refused _ _ _ _ _ _ _ Hg Hn E).
  intros H; inversion H; eauto.
Qed.

(* ------------------------------------------------------------------ interleavings *)
Definition b2n (b : bool) : nat := if b then 1%nat else 0%nat.

Lemma wins_cons j t ts : wins j (t :: ts) = (b2n (thread_won j t) + wins j ts)%nat.
Proof. unfold wins. cbn. destruct (thread_won j t); reflexivity. Qed.

Lemma wins_upd j ts i t t' :
  nth_error ts i = Some t ->
  (wins j (upd_nth ts i t') + b2n (thread_won j t) = wins j ts + b2n (thread_won j t'))%nat.
Proof.
  revert i. induction ts as [|x r IH]; intros [|i]; cbn [nth_error upd_nth]; try easy.
  - intros H. injection H as ->. rewrite !wins_cons. lia.
  - intros H. rewrite !wins_cons. specialize (IH i H). lia.
Qed.

Lemma upd_nth_in {A} (l : list A) i v x : In x (upd_nth l i v) -> x = v \/ In x l.
Proof.
  revert i. induction l as [|y r IH]; intros [|i]; cbn; try tauto.
  - intros [H|H]; [left; now symmetry|tauto].
  - intros [H|H]; [tauto|]. destruct (IH i H); tauto.
Qed.

(* well-formed thread: a thread that has passed its check is about to set the jti of its own flow *)
Definition twf (t : thread) : Prop :=
  forall k, snd t = TChecked k -> f_pre (fst t) = inr (Some k).

(* the hypothesis under which a jti is protected during the race: the assertions carrying it
   are not yet past the instant of their exp *)
Definition live_exp (nw : Z) (j : string) (t : thread) : Prop :=
  forall e, thread_jti t = Some j -> f_mid (fst t) = inr e -> nw <= e * 1000.

Definition race_inv (nw : Z) (j : string) (cfg : jstore * list thread) : Prop :=
  let (st, ts) := cfg in
  (forall t, In t ts -> twf t /\ live_exp nw j t) /\
  (wins j ts = 0%nat \/ (wins j ts = 1%nat /\ exists e, jget st j = Some e /\ nw <= e * 1000)).

Lemma tstep_flow nw st t st' t' : tstep nw st t = (st', t') -> fst t' = fst t.
Proof.
  destruct t as [f ts]. unfold tstep. destruct ts.
  - destruct (f_pre f) as [e|[j|]]; [| |]; try (intros H; inversion H; reflexivity).
    destruct (negb (jti_valid nw st j)); intros H; inversion H; reflexivity.
  - destruct (f_mid f) as [e|x]; [intros H; inversion H; reflexivity|].
    destruct (jti_set nw st j x) as [s1 ok]. destruct ok; intros H; inversion H; reflexivity.
  - intros H; inversion H; reflexivity.
Qed.

Lemma thread_won_start j f : thread_won j (f, TStart) = false.
Proof. reflexivity. Qed.
Lemma thread_won_checked j f k : thread_won j (f, TChecked k) = false.
Proof. reflexivity. Qed.
Lemma thread_won_lost j f r : thread_won j (f, TDone r false) = false.
Proof. reflexivity. Qed.

Lemma race_inv_step nw j cfg i : race_inv nw j cfg -> race_inv nw j (sched_step nw cfg i).
Proof.
  destruct cfg as [st ts]. unfold sched_step. destruct (nth_error ts i) as [t|] eqn:Hn; [|easy].
  destruct (tstep nw st t) as [st' t'] eqn:Hs. intros [Hwf Hw].
  pose proof (nth_error_In _ _ Hn) as Hin. destruct (Hwf t Hin) as [Ht Hl].
  pose proof (tstep_flow _ _ _ _ _ Hs) as Hf.
  pose proof (wins_upd j ts i t t' Hn) as Hcount.
  (* the flow, hence jti and exp, of the stepped thread is unchanged *)
  assert (Hl' : live_exp nw j t').
  { unfold live_exp, thread_jti in *. rewrite Hf. exact Hl. }
  destruct t as [f s]. cbn [fst snd] in *. destruct t' as [f' s']. cbn [fst] in Hf. subst f'.
  unfold tstep in Hs. destruct s as [|k|r won].
  - (* check step: no write, nobody wins *)
    assert (Hst : st' = st /\ thread_won j (f, s') = false /\ twf (f, s')).
    { destruct (f_pre f) as [e|[k|]] eqn:Hp.
      - inversion Hs; subst. repeat split; try reflexivity. intros k Hk; discriminate.
      - destruct (negb (jti_valid nw st k)); inversion Hs; subst; repeat split; try reflexivity.
        + intros k' Hk; discriminate.
        + intros k' Hk. cbn in Hk. injection Hk as <-. exact Hp.
      - inversion Hs; subst. repeat split; try reflexivity. intros k Hk; discriminate. }
    destruct Hst as [-> [Hnw Hwf']]. rewrite thread_won_start, Hnw in Hcount.
    split.
    + intros x Hx. apply upd_nth_in in Hx as [->|Hx]; [split; assumption|auto].
    + replace (wins j (upd_nth ts i (f, s'))) with (wins j ts) by lia. exact Hw.
  - (* test-and-set step *)
    rewrite thread_won_checked in Hcount.
    specialize (Ht k eq_refl). cbn [fst] in Ht.
    destruct (f_mid f) as [e|x] eqn:Hm.
    + inversion Hs; subst. rewrite thread_won_lost in Hcount. split.
      * intros y Hy. apply upd_nth_in in Hy as [->|Hy]; [split; [intros k' Hk; discriminate|assumption]|auto].
      * replace (wins j (upd_nth ts i (f, TDone (Rej e) false))) with (wins j ts) by lia. exact Hw.
    + destruct (jti_set nw st k x) as [s1 ok] eqn:Hset.
      assert (Hwf' : forall y, In y (upd_nth ts i (f, s')) -> twf y /\ live_exp nw j y).
      { intros y Hy. apply upd_nth_in in Hy as [->|Hy]; [|auto]. split; [|assumption].
        destruct ok; inversion Hs; subst; intros k' Hk; discriminate. }
      split; [exact Hwf'|].
      destruct ok; inversion Hs; subst.
      * (* success *)
        assert (Hwon : thread_won j (f, TDone (f_post f) true) = String.eqb k j).
        { unfold thread_won, thread_jti. cbn [fst snd]. rewrite Ht. reflexivity. }
        rewrite Hwon in Hcount. destruct (String.eqb k j) eqn:Hkj.
        -- apply String.eqb_eq in Hkj. subst k. destruct Hw as [Hw|[_ [e [Hg Hle]]]].
           ++ right. split; [cbn [b2n] in Hcount; lia|]. exists x.
              apply jti_set_ok_inv in Hset as [_ ->]. cbn. rewrite String.eqb_refl. split; [reflexivity|].
              apply (Hl x); [unfold thread_jti; cbn [fst]; now rewrite Ht|assumption].
           ++ pose proof (jti_set_refused _ _ _ _ _ _ _ Hg Hle Hset). discriminate.
        -- cbn [b2n] in Hcount. replace (wins j (upd_nth ts i (f, TDone (f_post f) true))) with (wins j ts) by lia.
           destruct Hw as [Hw|[Hw [e [Hg Hle]]]]; [left; assumption|right]. split; [assumption|].
           exists e. split; [|assumption]. eapply jti_set_persist; eassumption.
      * (* refused *)
        rewrite thread_won_lost in Hcount.
        replace (wins j (upd_nth ts i (f, TDone (Rej (f_kerr f)) false))) with (wins j ts) by lia.
        destruct Hw as [Hw|[Hw [e [Hg Hle]]]]; [left; assumption|right]. split; [assumption|].
        exists e. split; [|assumption]. eapply jti_set_persist; eassumption.
  - (* finished thread: nothing happens *)
    inversion Hs; subst. split.
    + intros y Hy. apply upd_nth_in in Hy as [->|Hy]; auto.
    + replace (wins j (upd_nth ts i (f, TDone r won))) with (wins j ts) by lia. exact Hw.
Qed.

Lemma race_inv_run nw j sched : forall cfg, race_inv nw j cfg -> race_inv nw j (run_sched nw cfg sched).
Proof.
  unfold run_sched. induction sched as [|i r IH]; intros cfg H; cbn; [assumption|].
  apply IH. now apply race_inv_step.
Qed.

Lemma wins_fresh j ts : (forall t, In t ts -> snd t = TStart) -> wins j ts = 0%nat.
Proof.
  induction ts as [|[f s] r IH]; intros H; [reflexivity|]. rewrite wins_cons.
  rewrite IH by (intros t Ht; apply H; now right).
  specialize (H (f, s) (or_introl eq_refl)). cbn in H. subst s. reflexivity.
Qed.

(* Any number of threads, any flows, any schedule, any initial memory: if the assertions that carry
   jti j are not past the instant of their exp, at most one test-and-set on j succeeds. *)
Theorem at_most_one_winner nw st (flows : list jflow) sched j :
  (forall f e, In f flows -> f_pre f = inr (Some j) -> f_mid f = inr e -> nw <= e * 1000) ->
  (wins j (snd (run_sched nw (st, map (fun f => (f, TStart)) flows) sched)) <= 1)%nat.
Proof.
  intros Hlive.
  assert (H0 : race_inv nw j (st, map (fun f => (f, TStart)) flows)).
  { split.
    - intros t Ht. apply in_map_iff in Ht as [f [<- Hf]]. split.
      + intros k Hk; discriminate.
      + intros e Hj Hm. unfold thread_jti in Hj. cbn [fst] in *.
        destruct (f_pre f) as [|[k|]] eqn:Hp; try discriminate. injection Hj as ->. eapply Hlive; eassumption.
    - left. apply wins_fresh. intros t Ht. apply in_map_iff in Ht as [f [<- _]]. reflexivity. }
  pose proof (race_inv_run nw j sched _ H0) as H.
  destruct (run_sched nw (st, map (fun f => (f, TStart)) flows) sched) as [st' ts']. cbn [snd].
  destruct H as [_ [H|[H _]]]; lia.
Qed.

(* the sequential run of a flow is the two-step schedule of a single thread *)
Lemma run_flow_is_single_thread nw st f :
  let (st', ts) := run_sched nw (st, [(f, TStart)]) [0%nat; 0%nat] in
  st' = fst (run_flow nw st f) /\
  exists won, ts = [(f, TDone (snd (run_flow nw st f)) won)].
Proof.
  unfold run_sched, run_flow. cbn [fold_left sched_step nth_error tstep upd_nth].
  destruct (f_pre f) as [e|[j|]]; cbn [fold_left sched_step nth_error tstep upd_nth fst snd].
  - split; [reflexivity|eauto].
  - destruct (negb (jti_valid nw st j)); cbn [fold_left sched_step nth_error tstep upd_nth fst snd].
    + split; [reflexivity|eauto].
    + destruct (f_mid f) as [e|x]; cbn [fst snd upd_nth]; [split; [reflexivity|eauto]|].
      destruct (jti_set nw st j x) as [s1 ok]. destruct ok; cbn [fst snd upd_nth]; split; try reflexivity; eauto.
  - split; [reflexivity|eauto].
Qed.
