(* C07: the "advertised lifetime" clause of the history monitor (Cases/Monitors.v advertised_ok) is sound for the model:
   on the model's own trace of any history from the initial state, the expires_in of a token response lies within one
   second of the expiry that the introspection of the freshly minted access token reports. *)
From FositeModel Require Import Base.Str Model.Scope Model.Core Model.Flows Cases.Common Cases.CasesHist Cases.Monitors
     Proofs.CoreInv Proofs.StepInv Proofs.Family Proofs.StepProps Proofs.NowStep Proofs.LogStep Proofs.MonitorC07 Proofs.FaultsProofs.

Arguments upd : simpl never.

(* what a step that minted an access token did: the first new log entry of an access kind names a key under which the
   store now finds a record whose session produced the advertised expires_in *)
Definition adv_fact (cfg : config) (s : state) (r : state * obs) : Prop :=
  o_err (snd r) = "" ->
  forall new j e, log (fst r) = (log s ++ new)%list -> minted_access_pos (o_minted (snd r)) = Some j -> nth_error new j = Some e ->
  exists rec, lookup_access (st (fst r)) (Some (i_key e)) = Some rec /\
              o_expires_in (snd r) = expires_in (r_sess rec) cfg (now s).

Lemma adv_fact_fail cfg s s' e : e <> ""%string -> adv_fact cfg s (fail s' e).
Proof. intros He H. cbn in H. congruence. Qed.

Lemma adv_fact_no_access cfg s r : minted_access_pos (o_minted (snd r)) = None -> adv_fact cfg s r.
Proof. intros H _ new j e _ Hj. congruence. Qed.

Lemma app_inv_head_eq {A} (l a b : list A) : (l ++ a = l ++ b)%list -> a = b.
Proof. apply app_inv_head. Qed.

(* grant_tokens: the access record sits under the key of the first new log entry *)
Lemma grant_tokens_first s stored w :
  exists ka rest, log (fst (grant_tokens s stored w)) =
                    (log s ++ {| i_kind := KAccess; i_key := ka; i_rid := r_id stored; i_endpoint_token := true |} :: rest)%list /\
                  access (st (fst (grant_tokens s stored w))) ka = Some stored /\
                  snd (grant_tokens s stored w) = KAccess :: map i_kind rest.
Proof.
  unfold grant_tokens, mint, log_add. destruct w; cbn.
  - eexists _, _. split; [reflexivity|]. split; [|reflexivity]. rewrite upd_eq. reflexivity.
  - eexists _, _. split; [reflexivity|]. split; [|reflexivity]. rewrite upd_eq. reflexivity.
Qed.

Lemma adv_after_grant cfg s s2 stored w sc sF :
  log s2 = log s ->
  log sF = log (fst (grant_tokens s2 stored w)) -> access (st sF) = access (st (fst (grant_tokens s2 stored w))) ->
  adv_fact cfg s (sF, ok_obs (snd (grant_tokens s2 stored w)) (expires_in (r_sess stored) cfg (now s)) sc).
Proof.
  intros H2 HF HA _ new j e Hlog Hpos Hnth. cbn [fst snd ok_obs o_minted o_expires_in] in *.
  destruct (grant_tokens_first s2 stored w) as [ka [rest [Hl [Hacc Hm]]]].
  rewrite Hm in Hpos. cbn in Hpos. injection Hpos as <-.
  rewrite HF, Hl, H2 in Hlog. apply app_inv_head in Hlog. subst new. cbn in Hnth. injection Hnth as <-. cbn [i_key].
  exists stored. split; [|reflexivity]. unfold lookup_access. rewrite HA, Hacc. reflexivity.
Qed.

Lemma adv_redeem cfg s auth code redirect v vh : adv_fact cfg s (redeem cfg s auth code redirect v vh).
Proof.
  unfold redeem.
  destruct auth as [c|]; [|apply adv_fact_fail; discriminate]. destruct (clients s c) as [cl|]; [|apply adv_fact_fail; discriminate].
  destruct (negb (args_has (cl_grants cl) ["authorization_code"])); [apply adv_fact_fail; discriminate|].
  destruct (key_of s code) as [k|]; [|apply adv_fact_fail; discriminate].
  destruct (codes (st s) k) as [[[|] r]|]; [| apply adv_fact_fail; discriminate |apply adv_fact_fail; discriminate].
  destruct (p_tampered code); [apply adv_fact_fail; discriminate|].
  destruct (negb (Nat.eqb (r_client r) c)); [apply adv_fact_fail; discriminate|].
  destruct (negb (String.eqb (r_redirect r) "") && negb (String.eqb (r_redirect r) redirect)); [apply adv_fact_fail; discriminate|].
  pose proof (log_pkce_token cfg s cl (Some k) v vh) as H1.
  pose proof (pkce_token_err_nonempty cfg s cl (Some k) v vh) as Hne.
  destruct (pkce_token cfg s cl (Some k) v vh) as [s1 [e|]]; cbn [fst snd] in *;
    [apply adv_fact_fail; intros ->; apply Hne; reflexivity|].
  destruct (expired _ _ _ _); [apply adv_fact_fail; discriminate|].
  match goal with |- context [grant_tokens ?s2 ?stored ?w] =>
    pose proof (adv_after_grant cfg s s2 stored w (r_gscopes r)) as G; destruct (grant_tokens s2 stored w) as [s3 minted] end.
  cbn [fst snd] in G. apply G; try reflexivity. exact H1.
Qed.

Ltac nofail := apply adv_fact_fail; discriminate.

Lemma adv_refresh_flow cfg s auth tok : adv_fact cfg s (refresh_flow cfg s auth tok).
Proof.
  unfold refresh_flow.
  destruct auth as [c|]; [|nofail]. destruct (clients s c) as [cl|]; [|nofail].
  destruct (negb (args_has (cl_grants cl) ["refresh_token"])); [nofail|].
  destruct (key_of s tok) as [k|]; cbn [find]; [|nofail].
  destruct (refresh (st s) k) as [[[|] r]|]; [| nofail |nofail].
  repeat match goal with |- context [if ?c then fail s _ else _] => destruct c; [nofail|] end.
  destruct (rotate_refresh (st s) (r_id r)) as [st1 [e|]]; [nofail|].
  match goal with |- context [grant_tokens ?s2 ?stored ?w] =>
    pose proof (adv_after_grant cfg s s2 stored w (r_gscopes r)) as G; destruct (grant_tokens s2 stored w) as [s3 minted] end.
  cbn [fst snd] in G. apply G; reflexivity.
Qed.

Lemma adv_device_poll cfg s auth dev : adv_fact cfg s (device_poll cfg s auth dev).
Proof.
  unfold device_poll.
  destruct auth as [c|]; [|nofail]. destruct (clients s c) as [cl|]; [|nofail].
  destruct (negb (args_has (cl_grants cl) _)); [nofail|].
  destruct (key_of s dev) as [k|]; [|nofail].
  destruct (used_device cfg (st s) k) as [rid|]; [nofail|].
  destruct (device (st s) k) as [[stt r]|]; [|nofail].
  repeat match goal with |- context [if ?c then fail s _ else _] => destruct c; [nofail|] end.
  match goal with |- context [grant_tokens ?s2 ?stored ?w] =>
    pose proof (adv_after_grant cfg s s2 stored w (r_gscopes r)) as G; destruct (grant_tokens s2 stored w) as [s3 minted] end.
  cbn [fst snd] in G. apply G; reflexivity.
Qed.

Lemma adv_password_flow cfg s auth ok sc au g ga : adv_fact cfg s (password_flow cfg s auth ok sc au g ga).
Proof.
  unfold password_flow. destruct auth as [c|]; [|nofail]. destruct (clients s c) as [cl|]; [|nofail].
  repeat match goal with |- context [if ?c then fail s _ else _] => destruct c; [nofail|] end.
  unfold fresh_grant, fresh_rid.
  match goal with |- context [grant_tokens ?s2 ?stored ?w] =>
    pose proof (adv_after_grant cfg s s2 stored w g) as G; destruct (grant_tokens s2 stored w) as [s3 minted] end.
  cbn [fst snd] in G. apply G; reflexivity.
Qed.

Lemma adv_client_credentials_flow cfg s auth sc au g ga : adv_fact cfg s (client_credentials_flow cfg s auth sc au g ga).
Proof.
  unfold client_credentials_flow. destruct auth as [c|]; [|nofail]. destruct (clients s c) as [cl|]; [|nofail].
  repeat match goal with |- context [if ?c then fail s _ else _] => destruct c; [nofail|] end.
  unfold fresh_grant, fresh_rid.
  match goal with |- context [grant_tokens ?s2 ?stored ?w] =>
    pose proof (adv_after_grant cfg s s2 stored w g) as G; destruct (grant_tokens s2 stored w) as [s3 minted] end.
  cbn [fst snd] in G. apply G; reflexivity.
Qed.

Lemma fresh_key_no_access s : Inv s -> access (st s) (next_key s) = None.
Proof.
  intros I. destruct (access (st s) (next_key s)) as [r|] eqn:E; [|reflexivity].
  pose proof (proj1 (inv_access_fresh s _ _ I E)). lia.
Qed.

Lemma adv_authorize_implicit cfg s cl a : Inv s -> adv_fact cfg s (authorize_implicit cfg s cl a).
Proof.
  intros I. unfold authorize_implicit.
  repeat match goal with |- context [if ?c then fail s _ else _] => destruct c; [nofail|] end.
  unfold fresh_rid, issue_implicit, store_implicit, mint, log_add.
  intros _ new j e Hlog Hpos Hnth. cbn in Hlog, Hpos. injection Hpos as <-.
  apply app_inv_head in Hlog. subst new. cbn in Hnth. injection Hnth as <-. cbn [i_key fst snd].
  eexists. split; [unfold lookup_access; cbn; rewrite (fresh_key_no_access s I), upd_eq; reflexivity|reflexivity].
Qed.

Lemma adv_authorize_hybrid cfg s cl a : Inv s -> adv_fact cfg s (authorize_hybrid cfg s cl a).
Proof.
  intros I. unfold authorize_hybrid.
  repeat match goal with |- context [if ?c then fail s _ else _] => destruct c; [nofail|] end.
  unfold fresh_rid, issue_implicit, store_implicit, mint, log_add.
  destruct (negb (args_has (cl_grants cl) ["implicit"])); [nofail|].
  destruct (pkce_validate cfg (az_challenge a) (az_method a) cl) as [e|] eqn:Ev.
  { apply adv_fact_fail. rewrite (pkce_validate_err _ _ _ _ _ Ev). discriminate. }
  assert (Hk : access (st s) (S (next_key s)) = None).
  { destruct (access (st s) (S (next_key s))) as [r|] eqn:E; [|reflexivity]. pose proof (proj1 (inv_access_fresh s _ _ I E)). lia. }
  destruct (String.eqb (az_challenge a) "" && String.eqb (az_method a) "");
    intros _ new j e0 Hlog Hpos Hnth; cbn in Hlog, Hpos; injection Hpos as <-;
    rewrite <- app_assoc in Hlog; apply app_inv_head in Hlog; subst new; cbn in Hnth; injection Hnth as <-; cbn [i_key fst snd];
    (eexists; split; [unfold lookup_access; cbn; rewrite Hk, upd_eq; reflexivity|reflexivity]).
Qed.

Lemma adv_authorize_core cfg s0 s cl a : adv_fact cfg s (authorize_core cfg s0 cl a).
Proof.
  unfold authorize_core, fresh_rid, mint, log_add.
  destruct (negb (scopes_ok cfg cl (az_scopes a))); [nofail|].
  destruct (negb (aud_ok cfg (cl_aud cl) (az_aud a))); [nofail|].
  destruct (pkce_validate cfg (az_challenge a) (az_method a) cl) as [e|] eqn:Ev.
  { apply adv_fact_fail. rewrite (pkce_validate_err _ _ _ _ _ Ev). discriminate. }
  destruct (String.eqb (az_challenge a) "" && String.eqb (az_method a) ""); apply adv_fact_no_access; reflexivity.
Qed.

Theorem adv_step cfg s o : Inv s -> adv_fact cfg s (step cfg s o).
Proof.
  intros I. destruct o; cbn [step]; try (apply adv_fact_no_access; reflexivity).
  - unfold authorize. destruct (cf_par_enforced cfg); [nofail|].
    destruct (clients s (az_client a)) as [cl|]; [|nofail].
    destruct (az_rtype a); [apply adv_authorize_core|now apply adv_authorize_implicit|now apply adv_authorize_hybrid].
  - apply adv_redeem.
  - apply adv_refresh_flow.
  - unfold revoke. destruct auth as [c|]; [|nofail]. destruct (clients s c); [|nofail].
    destruct (revoke_lookup s (key_of s tok) h) as [r|]; [|apply adv_fact_no_access; reflexivity].
    destruct (negb (Nat.eqb (r_client r) c)); [nofail|]. apply adv_fact_no_access. reflexivity.
  - apply adv_fact_no_access. cbn. destruct (introspect _ _ _ _ _); reflexivity.
  - apply adv_password_flow.
  - apply adv_client_credentials_flow.
  - apply adv_fact_no_access. cbn. unfold introspect_ep.
    repeat match goal with |- context [match ?x with _ => _ end] => destruct x end; reflexivity.
  - unfold push, fresh_rid, mint, log_add.
    destruct auth as [c|]; [|nofail]. destruct (clients s c); [|nofail].
    destruct has_request_uri; [nofail|].
    destruct (clients s _) as [cl|]; [|nofail].
    repeat match goal with |- context [if ?c then fail s _ else _] => destruct c; [nofail|] end.
    apply adv_fact_no_access. reflexivity.
  - intros He new j e Hlog Hpos Hnth. revert He Hlog Hpos. rewrite authorize_par_fst, authorize_par_minted, authorize_par_err.
    unfold authorize_par0.
    destruct (key_of s uri) as [k|]; [|discriminate].
    destruct (par (st s) k) as [pr|]; [|discriminate].
    repeat match goal with |- context [if ?c then fail _ _ else _] => destruct c; [discriminate|] end.
    intros He Hlog Hpos. exfalso. revert He Hpos. unfold authorize_core, fresh_rid, mint, log_add.
    repeat match goal with |- context [if ?c then _ else _] => destruct c; cbn; try discriminate end;
    repeat match goal with |- context [match ?x with _ => _ end] => destruct x; cbn; try discriminate end.
  - unfold device_authorize, fresh_rid, mint, log_add.
    destruct auth as [c|]; [|nofail]. destruct (clients s c) as [cl|]; [|nofail].
    repeat match goal with |- context [if ?c then fail s _ else _] => destruct c; [nofail|] end.
    apply adv_fact_no_access. reflexivity.
  - unfold decide.
    destruct (key_of s dev) as [k|]; [|nofail].
    destruct (device (st s) k) as [[b r]|]; [|nofail].
    destruct (expired _ _ _ _); [nofail|]. apply adv_fact_no_access. reflexivity.
  - apply adv_device_poll.
Qed.

(* ------------------------------------------------------------------ from the step fact to the monitor's clause *)
Lemma probes_from_nth cfg s : forall l i0 i,
  nth_error (probes_from cfg s i0 l) i = option_map (probe_one cfg s (i0 + i)) (nth_error l i).
Proof.
  induction l as [|e l IH]; intros i0 i; cbn [probes_from]; [destruct i; reflexivity|].
  destruct i as [|i]; cbn [nth_error option_map]; [rewrite Nat.add_0_r; reflexivity|].
  rewrite IH. replace (S i0 + i) with (i0 + S i) by lia. reflexivity.
Qed.

Lemma probes_nth cfg s i : nth_error (probes cfg s) i = option_map (probe_one cfg s i) (nth_error (log s) i).
Proof. unfold probes. rewrite probes_from_nth. reflexivity. Qed.

Lemma probes_from_length cfg s : forall l i0, List.length (probes_from cfg s i0 l) = List.length l.
Proof. induction l as [|e l IH]; intros i0; cbn; [reflexivity|now rewrite IH]. Qed.
Lemma probes_length cfg s : List.length (probes cfg s) = List.length (log s).
Proof. apply probes_from_length. Qed.

Lemma minted_access_pos_kind : forall l j, minted_access_pos l = Some j ->
  nth_error l j = Some KAccess \/ nth_error l j = Some KImplicit.
Proof.
  induction l as [|k l IH]; intros j H; cbn in H; [discriminate|].
  destruct k; try (injection H as <-; cbn; auto; fail);
    (destruct (minted_access_pos l) as [j0|] eqn:E; cbn in H; [injection H as <-; cbn; now apply IH|discriminate]).
Qed.

Lemma advertised_ok_step cfg s o :
  Inv s -> let r := step cfg s o in
  advertised_ok (now (fst r)) (List.length (log s)) (snd r) (probes cfg (fst r)) = true.
Proof.
  intros I r. pose proof (adv_step cfg s o I) as A. pose proof (log_step_minted cfg s o) as [new [Hlog Hm]].
  pose proof (now_step cfg s o) as Hn. pose proof (Inv_step cfg s o I) as I'.
  fold r in A, Hlog, Hm, Hn, I'. unfold advertised_ok.
  destruct (String.eqb (o_err (snd r)) "") eqn:Ee; [|reflexivity]. apply String.eqb_eq in Ee.
  destruct (minted_access_pos (o_minted (snd r))) as [j|] eqn:Ep; [|reflexivity].
  rewrite probes_nth, Hlog, nth_error_app2 by lia. replace (List.length (log s) + j - List.length (log s)) with j by lia.
  destruct (nth_error new j) as [e|] eqn:En; [|reflexivity]. cbn [option_map].
  destruct (A Ee new j e Hlog Ep En) as [rec [Hlk Hein]].
  (* the clock did not move: an operation that mints is not OAdvance *)
  assert (Ht : now (fst r) = now s).
  { destruct o; try exact Hn. unfold r in Ep. cbn in Ep. discriminate. }
  (* the kind of the entry *)
  assert (Hk : i_kind e = KAccess \/ i_kind e = KImplicit).
  { destruct (minted_access_pos_kind _ _ Ep) as [H|H]; rewrite <- Hm, nth_error_map, En in H; cbn in H; injection H as H; auto. }
  assert (Hkey : key_of (fst r) {| p_ref := CRef (List.length (log s) + j); p_tampered := false |} = Some (i_key e)).
  { unfold key_of. cbn [p_ref]. rewrite Hlog, nth_error_app2 by lia.
    replace (List.length (log s) + j - List.length (log s)) with j by lia. rewrite En. reflexivity. }
  assert (Hp : probe_one cfg (fst r) (List.length (log s) + j) e =
               introspect cfg (fst r) {| p_ref := CRef (List.length (log s) + j); p_tampered := false |} HAccess []).
  { unfold probe_one. destruct Hk as [-> | ->]; reflexivity. }
  rewrite Hp. destruct (introspect cfg (fst r) _ HAccess []) as [pl|] eqn:Ei; [|reflexivity].
  destruct (pl_exp pl) as [e0|] eqn:Ex; [|reflexivity].
  (* which branch answered *)
  unfold introspect in Ei. rewrite Hkey in Ei. cbn [p_tampered] in Ei.
  assert (Hacc : introspect_access cfg (fst r) (Some (i_key e)) false [] = Some pl).
  { destruct (introspect_access cfg (fst r) (Some (i_key e)) false []) as [p|] eqn:Ea.
    - destruct (negb (cf_introspect_rt cfg)); congruence.
    - exfalso. destruct (negb (cf_introspect_rt cfg)); [discriminate|].
      apply introspect_refresh_truth in Ei as [k [r0 [Hk0 [Hr0 _]]]]. injection Hk0 as <-.
      pose proof (inv_owner_refresh _ I' _ _ _ Hr0) as O1.
      unfold lookup_access in Hlk. destruct (access (st (fst r)) (i_key e)) as [ra|] eqn:Eaa.
      + pose proof (inv_owner_access _ I' _ _ Eaa) as O2. congruence.
      + pose proof (inv_owner_implicit _ I' _ _ Hlk) as O2. congruence. }
  apply introspect_access_truth in Hacc as [k [r0 [Hk0 [Hl0 [Hexp [_ [_ Hpl]]]]]]]. injection Hk0 as <-.
  rewrite Hlk in Hl0. injection Hl0 as <-. rewrite Hpl in Ex. cbn [pl_exp] in Ex.
  rewrite Ex in Hexp. apply expired_false_some in Hexp.
  rewrite Hein. unfold expires_in. rewrite Ex, Ht. apply Z.ltb_lt.
  pose proof (secs_bounds (e0 - now s) ltac:(lia)). lia.
Qed.

Definition clock_tag (r : option string) : Prop :=
  expiry_tag r \/ r = Some "advertised_expires_in_differs_from_the_honoured_expiry"%string.

Theorem clock_clauses_sound cfg h : forall s jwt cfg' cls,
  Inv s -> ~ clock_tag (clock_from jwt cfg' cls (now s) (List.length (log s)) (trace cfg s h)).
Proof.
  induction h as [|o h IH]; intros s jwt cfg' cls I; cbn [trace clock_from].
  { intros [[H|H]|H]; discriminate. }
  pose proof (now_step cfg s o) as Hn. pose proof (probes_unexpired cfg (fst (step cfg s o))) as Hp.
  pose proof (advertised_ok_step cfg s o I) as Ha. pose proof (Inv_step cfg s o I) as I'.
  destruct (step cfg s o) as [s' ob]. cbn [fst snd] in *. cbn [clock_from].
  assert (Ht : match o with OAdvance ms => (now s + ms)%Z | _ => now s end = now s') by (destruct o; congruence).
  rewrite Ht, Hp, Ha. cbn [negb].
  destruct (negb (life_ok _ _ _ _ _ _ _ _)); [intros [[H|H]|H]; discriminate|].
  rewrite probes_length. apply IH. exact I'.
Qed.

(* for every configuration, registration and history: run on the model's own trace from the initial state, the C07
   monitor reports neither a credential honoured after its expiry nor an advertised lifetime that differs from the
   honoured one *)
Corollary monitor_expiry_and_advertised_clauses_sound cfg cls h jwt :
  let r := clock_from jwt cfg cls 0%Z 0 (trace cfg (state0 (clients_of cls)) h) in
  r <> Some "token_reported_active_after_its_expiry"%string /\
  r <> Some "jwt_access_token_honoured_within_the_second_after_its_expiry"%string /\
  r <> Some "advertised_expires_in_differs_from_the_honoured_expiry"%string.
Proof.
  intros r. pose proof (clock_clauses_sound cfg h (state0 (clients_of cls)) jwt cfg cls (Inv_state0 _)) as H.
  change (~ clock_tag r) in H. unfold clock_tag, expiry_tag in H.
  repeat split; intros E; apply H; rewrite E; auto.
Qed.
