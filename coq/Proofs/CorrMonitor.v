(* When the correspondence check accepts a history case, the implementation's trace IS the model's trace of the same
   operations; hence the C07 monitor, proved to accept every model trace, accepts the implementation's. *)
From FositeModel Require Import Base.Str Model.Scope Model.Core Model.Flows Cases.Common Cases.CasesHist Cases.Monitors
     Proofs.CoreInv Proofs.StepInv Proofs.MonitorC07 Proofs.MonitorC07b Proofs.MonitorC07c.

Lemma list_eqb_eq : forall a b, list_eqb a b = true -> a = b.
Proof.
  induction a as [|x a IH]; destruct b as [|y b]; cbn; try discriminate; [reflexivity|].
  intros H. apply andb_true_iff in H as [H1 H2]. apply String.eqb_eq in H1. f_equal; auto.
Qed.

Lemma ckind_eqb_eq a b : ckind_eqb a b = true -> a = b.
Proof. destruct a, b; cbn; try discriminate; reflexivity. Qed.

Lemma ckinds_eqb_eq : forall a b, ckinds_eqb a b = true -> a = b.
Proof.
  unfold ckinds_eqb. induction a as [|x a IH]; destruct b as [|y b]; cbn; try discriminate; [reflexivity|].
  intros H. apply andb_true_iff in H as [H1 H2]. apply andb_true_iff in H2 as [H2 H3].
  apply ckind_eqb_eq in H2. f_equal; [exact H2|]. apply IH. now rewrite H1, H3.
Qed.

Lemma obs_eqb_eq a b : obs_eqb a b = true -> a = b.
Proof.
  unfold obs_eqb. intros H. repeat (apply andb_true_iff in H as [H ?]).
  destruct a, b. cbn in *. apply String.eqb_eq in H. apply ckinds_eqb_eq in H2. apply Z.eqb_eq in H1. apply list_eqb_eq in H0.
  congruence.
Qed.

Lemma optZ_eqb_eq a b : optZ_eqb a b = true -> a = b.
Proof. destruct a, b; cbn; try discriminate; [|reflexivity]. intros H. apply Z.eqb_eq in H. congruence. Qed.

Lemma payload_eqb_eq a b : payload_eqb a b = true -> a = b.
Proof.
  unfold payload_eqb. intros H. repeat (apply andb_true_iff in H as [H ?]).
  destruct a, b. cbn in *. apply ckind_eqb_eq in H. apply Nat.eqb_eq in H4. apply String.eqb_eq in H3.
  apply list_eqb_eq in H2. apply list_eqb_eq in H1. apply optZ_eqb_eq in H0. congruence.
Qed.

Lemma probes_eqb_eq : forall a b, probes_eqb a b = true -> a = b.
Proof.
  induction a as [|x a IH]; destruct b as [|y b]; cbn; try discriminate; [reflexivity|].
  intros H. apply andb_true_iff in H as [H1 H2]. f_equal; [|now apply IH].
  destruct x, y; cbn in H1; try discriminate; [|reflexivity]. f_equal. now apply payload_eqb_eq.
Qed.

(* the correspondence function accepts exactly when the implementation's expanded trace is the model's trace *)
Lemma corr_from_trace cfg : forall steps s prev i,
  corr_from cfg s prev i steps = None ->
  expand_from prev steps = trace cfg s (map (fun x => fst (fst x)) steps).
Proof.
  induction steps as [|[[o ob] d] steps IH]; intros s prev i H; cbn [corr_from expand_from map trace fst] in *; [reflexivity|].
  destruct (step cfg s o) as [s' mob] eqn:Es.
  destruct (obs_eqb mob ob) eqn:E1; cbn [negb] in H; [|discriminate].
  destruct (probes_eqb (probes cfg s') (apply_delta prev (List.length (o_minted ob)) d)) eqn:E2; cbn [negb] in H; [|discriminate].
  apply obs_eqb_eq in E1. apply probes_eqb_eq in E2. subst mob. rewrite <- E2. f_equal. rewrite E2. eapply IH. exact H.
Qed.

Theorem correspondence_implies_monitor_C07 cfg cls steps :
  hist_corr (HCase cfg cls steps) = None -> monitor_C07 (HCase cfg cls steps) = None.
Proof.
  intros H. unfold monitor_C07, impl_trace, is_jwt_case, case_cfg, case_clients. cbn [hist_corr] in H.
  rewrite (corr_from_trace cfg steps _ _ _ H). apply monitor_C07_accepts_every_model_trace.
Qed.
