(* Specification and theorems for Model/Hmac.v.
   The declarative reading ("a presented string is accepted iff it has the <key>.<signature> layout,
   both parts decode, and a configured secret of at least 32 bytes authenticates the key part
   against the signature part, all secrets tried before it being at least 32 bytes long") is written
   from the property text and the comments of token/hmac/hmacsha.go, not from the loop. *)
From FositeModel Require Import Base.Str Model.Hmac.
From Coq Require Import Permutation.

(* ------------------------------------------------------------------ strings *)
Fixpoint has_char (c : ascii) (s : string) : bool :=
  match s with
  | EmptyString => false
  | String a r => Ascii.eqb a c || has_char c r
  end.

Lemma cut_some sep s a b :
  cut sep s = Some (a, b) <-> s = a ++ String sep b /\ has_char sep a = false.
Proof.
  revert a b. induction s as [|c r IH]; intros a b; cbn.
  - split; [easy|]. intros [H _]. destruct a; discriminate.
  - destruct (Ascii.eqb_spec c sep) as [->|Hne].
    + split.
      * intros H. injection H as <- <-. cbn. split; reflexivity.
      * intros [H Hn]. destruct a as [|x a]; cbn in *.
        -- injection H as ->. reflexivity.
        -- injection H as <- _. rewrite Ascii.eqb_refl in Hn. discriminate.
    + destruct (cut sep r) as [[a' b']|] eqn:E.
      * split.
        -- intros H. injection H as <- <-. destruct (proj1 (IH a' b') eq_refl) as [-> Hn].
           cbn. split; [reflexivity|]. destruct (Ascii.eqb_spec c sep); [contradiction|assumption].
        -- intros [H Hn]. destruct a as [|x a]; cbn in *.
           ++ injection H as -> _. contradiction.
           ++ injection H as <- H. apply orb_false_iff in Hn as [_ Hn].
              assert (Some (a', b') = Some (a, b)) as Hq by (apply IH; split; assumption).
              injection Hq as -> ->. reflexivity.
      * split; [easy|]. intros [H Hn]. destruct a as [|x a]; cbn in *.
        -- injection H as -> _. contradiction.
        -- injection H as <- H. apply orb_false_iff in Hn as [_ Hn].
           assert (None = Some (a, b)) as Hq by (apply IH; split; assumption). discriminate.
Qed.

Lemma cut_none sep s : cut sep s = None <-> has_char sep s = false.
Proof.
  induction s as [|c r IH]; cbn; [tauto|].
  destruct (Ascii.eqb_spec c sep); cbn; [split; discriminate|].
  destruct (cut sep r) as [[a b]|]; [split; [discriminate|]|tauto].
  intros H. apply IH in H. discriminate.
Qed.

Lemma split_nodot sep s : has_char sep s = false -> split sep s = [s].
Proof.
  induction s as [|c r IH]; cbn; [reflexivity|].
  intros H. apply orb_false_iff in H as [H1 H2]. rewrite H1, (IH H2). reflexivity.
Qed.

Lemma split_app sep a b : has_char sep a = false -> split sep (a ++ String sep b) = a :: split sep b.
Proof.
  induction a as [|c r IH]; cbn.
  - intros _. now rewrite Ascii.eqb_refl.
  - intros H. apply orb_false_iff in H as [H1 H2]. rewrite H1, (IH H2). reflexivity.
Qed.

Lemma split_nonnil sep s : split sep s <> [].
Proof.
  induction s as [|c r IH]; cbn; [discriminate|].
  destruct (Ascii.eqb c sep); [discriminate|]. destruct (split sep r); [contradiction|discriminate].
Qed.

Lemma split_hasdot sep s : has_char sep s = true -> exists x y r, split sep s = x :: y :: r.
Proof.
  induction s as [|c r IH]; cbn; [discriminate|].
  destruct (Ascii.eqb c sep); cbn.
  - intros _. destruct (split sep r) as [|h t] eqn:E; [exfalso; exact (split_nonnil _ _ E)|].
    now exists "", h, t.
  - intros H. destruct (IH H) as [x [y [t Hs]]]. rewrite Hs. now exists (String c x), y, t.
Qed.

Lemma has_char_app c a b : has_char c (a ++ b) = has_char c a || has_char c b.
Proof. induction a as [|x a IH]; cbn; [reflexivity|]. now rewrite IH, orb_assoc. Qed.

Lemma has_prefix_app p s : has_prefix p (p ++ s) = true.
Proof. induction p as [|a p IH]; cbn; [reflexivity|]. now rewrite Ascii.eqb_refl. Qed.

Lemma drop_app p s : drop (String.length p) (p ++ s) = s.
Proof. induction p as [|a p IH]; cbn; [reflexivity|assumption]. Qed.

Lemma trim_prefix_app p s : trim_prefix p (p ++ s) = s.
Proof. unfold trim_prefix. now rewrite has_prefix_app, drop_app. Qed.

Lemma trim_prefix_none p s : has_prefix p s = false -> trim_prefix p s = s.
Proof. unfold trim_prefix. now intros ->. Qed.

(* ------------------------------------------------------------------ Signature *)
(* Signature() uses Split and insists on exactly two parts; validate() uses Cut at the FIRST dot.
   They agree on strings with exactly one dot and disagree on strings with several. *)
Theorem signature_of_cut tok k g :
  cut dot tok = Some (k, g) -> signature tok = if has_char dot g then "" else g.
Proof.
  intros H. apply cut_some in H as [-> Hk]. unfold signature. rewrite (split_app _ _ _ Hk).
  destruct (has_char dot g) eqn:Hg.
  - destruct (split_hasdot _ _ Hg) as [x [y [r ->]]]. reflexivity.
  - now rewrite (split_nodot _ _ Hg).
Qed.

Theorem signature_nodot tok : cut dot tok = None -> signature tok = "".
Proof. intros H. apply cut_none in H. unfold signature. now rewrite (split_nodot _ _ H). Qed.

Theorem signature_ignores_prefix p tok : has_char dot p = false -> signature (p ++ tok) = signature tok.
Proof.
  intros Hp. destruct (cut dot tok) as [[k g]|] eqn:E.
  - rewrite (signature_of_cut _ _ _ E). apply cut_some in E as [-> Hk].
    assert (H : cut dot (p ++ (k ++ String dot g)) = Some (p ++ k, g)).
    { apply cut_some. split.
      - clear. induction p; cbn; [reflexivity|now f_equal].
      - now rewrite has_char_app, Hp, Hk. }
    now rewrite (signature_of_cut _ _ _ H).
  - rewrite (signature_nodot _ E). apply signature_nodot. apply cut_none.
    apply cut_none in E. now rewrite has_char_app, Hp, E.
Qed.

(* ------------------------------------------------------------------ validate *)
Definition long (s : sfact) : Prop := (32 <= sf_len s)%N.

(* layout and decodability of a presented string (after prefix trimming) *)
Definition wf (tok : string) (kd sd : bool) : Prop :=
  exists k g, tok = k ++ String dot g /\ has_char dot k = false /\ k <> "" /\ g <> "" /\ kd = true /\ sd = true.

Definition wf_b (tok : string) (kd sd : bool) : bool :=
  match cut dot tok with
  | Some (k, g) => negb (String.eqb k "") && negb (String.eqb g "") && kd && sd
  | None => false
  end.

Lemma wf_b_iff tok kd sd : wf_b tok kd sd = true <-> wf tok kd sd.
Proof.
  unfold wf_b, wf. destruct (cut dot tok) as [[k g]|] eqn:E.
  - apply cut_some in E as [-> Hk]. rewrite !andb_true_iff, !negb_true_iff. split.
    + intros [[[H1 H2] H3] H4]. exists k, g. apply String.eqb_neq in H1, H2. tauto.
    + intros [k' [g' [Heq [Hk' [H1 [H2 [H3 H4]]]]]]].
      assert (Some (k, g) = Some (k', g')) as Hq.
      { transitivity (cut dot (k' ++ String dot g')).
        - symmetry. rewrite <- Heq. apply cut_some. tauto.
        - apply cut_some. tauto. }
      injection Hq as -> ->. apply String.eqb_neq in H1, H2. tauto.
  - split; [discriminate|]. intros [k [g [Heq [Hk _]]]].
    assert (cut dot tok = Some (k, g)) by (apply cut_some; tauto). congruence.
Qed.

Lemma long_dec s : N.ltb (sf_len s) min_secret = false <-> long s.
Proof. unfold long, min_secret. rewrite N.ltb_ge. reflexivity. Qed.

Lemma validate1_cases tok kd sd s :
  validate1 tok kd sd s =
  if N.ltb (sf_len s) min_secret then Some EShort
  else if wf_b tok kd sd then (if sf_mac s then None else Some EMismatch)
  else match cut dot tok with
       | None => Some EFormat
       | Some (k, g) => if String.eqb k "" || String.eqb g "" then Some EFormat else Some EDecode
       end.
Proof.
  unfold validate1, wf_b. destruct (N.ltb (sf_len s) min_secret); [reflexivity|].
  destruct (cut dot tok) as [[k g]|]; [|reflexivity].
  destruct (String.eqb k ""), (String.eqb g ""), sd, kd; reflexivity.
Qed.

Theorem validate1_accept_iff tok kd sd s :
  validate1 tok kd sd s = None <-> long s /\ wf tok kd sd /\ sf_mac s = true.
Proof.
  rewrite validate1_cases, <- long_dec, <- wf_b_iff.
  destruct (N.ltb (sf_len s) min_secret); [split; [discriminate|intros [H _]; discriminate]|].
  destruct (wf_b tok kd sd).
  - destruct (sf_mac s); split; try tauto; try discriminate. intros [_ [_ H]]. discriminate.
  - split; [|intros [_ [H _]]; discriminate].
    destruct (cut dot tok) as [[k g]|]; [destruct (_ || _)|]; discriminate.
Qed.

Theorem validate1_mismatch_iff tok kd sd s :
  validate1 tok kd sd s = Some EMismatch <-> long s /\ wf tok kd sd /\ sf_mac s = false.
Proof.
  rewrite validate1_cases, <- long_dec, <- wf_b_iff.
  destruct (N.ltb (sf_len s) min_secret); [split; [discriminate|intros [H _]; discriminate]|].
  destruct (wf_b tok kd sd).
  - destruct (sf_mac s); split; try tauto; try discriminate. intros [_ [_ H]]. discriminate.
  - split; [|intros [_ [H _]]; discriminate].
    destruct (cut dot tok) as [[k g]|]; [destruct (_ || _)|]; discriminate.
Qed.

Theorem validate1_short_iff tok kd sd s :
  validate1 tok kd sd s = Some EShort <-> (sf_len s < 32)%N.
Proof.
  rewrite validate1_cases. unfold min_secret. destruct (N.ltb_spec (sf_len s) 32); [tauto|].
  split; [|lia]. destruct (wf_b tok kd sd); [destruct (sf_mac s); discriminate|].
  destruct (cut dot tok) as [[k g]|]; [destruct (_ || _)|]; discriminate.
Qed.

(* the specification of acceptance by a list of secrets in trial order *)
Definition reaches (keys : list sfact) : Prop :=
  exists pre s post, keys = (pre ++ s :: post)%list /\ Forall long pre /\ long s /\ sf_mac s = true.

Lemma loop_accept_iff tok kd sd keys err :
  validate_loop tok kd sd keys err = None <->
  (keys = [] /\ err = None) \/ (wf tok kd sd /\ reaches keys).
Proof.
  revert err. induction keys as [|k r IH]; intros err; cbn [validate_loop].
  - split; [tauto|]. intros [[_ H]|[_ [pre [s [post [H _]]]]]]; [assumption|]. destruct pre; discriminate.
  - destruct (validate1 tok kd sd k) as [e|] eqn:E.
    + assert (Hrej : forall e', e = e' -> e' <> EMismatch ->
                (Some e' = None <-> (k :: r = [] /\ err = None) \/ (wf tok kd sd /\ reaches (k :: r)))).
      { intros e' -> Hne. split; [discriminate|]. intros [[H _]|[Hwf [pre [s [post [Hk [Hpre [Hs Hm]]]]]]]]; [discriminate|].
        exfalso. destruct pre as [|p pre]; cbn in Hk; injection Hk as <- _.
        - assert (validate1 tok kd sd k = None) by (apply validate1_accept_iff; tauto). congruence.
        - inversion Hpre as [|? ? Hp _]; subst.
          destruct (sf_mac k) eqn:Em.
          + assert (validate1 tok kd sd k = None) by (apply validate1_accept_iff; tauto). congruence.
          + assert (validate1 tok kd sd k = Some EMismatch) by (apply validate1_mismatch_iff; tauto). congruence. }
      destruct e; try (apply Hrej; [reflexivity|discriminate]).
      (* mismatch: continue with the next key *)
      rewrite IH. apply validate1_mismatch_iff in E as [Hl [Hwf Hm]]. split.
      * intros [[-> H]|[_ [pre [s [post [-> [Hpre [Hs Hms]]]]]]]]; [discriminate|].
        right. split; [assumption|]. exists (k :: pre), s, post. repeat split; auto.
      * intros [[H _]|[_ [pre [s [post [Hk [Hpre [Hs Hms]]]]]]]]; [discriminate|].
        right. split; [assumption|]. destruct pre as [|p pre]; cbn in Hk; injection Hk as <- ->.
        -- congruence.
        -- inversion Hpre; subst. now exists pre, s, post.
    + apply validate1_accept_iff in E as [Hl [Hwf Hm]]. split; [|reflexivity].
      intros _. right. split; [assumption|]. exists [], k, r. repeat split; auto.
Qed.

(* Theorem 1: exactly which strings and secret lists are accepted *)
Theorem validate_accept_iff tok kd sd g rot :
  validate tok kd sd g rot = None <-> wf tok kd sd /\ reaches (key_list g rot).
Proof.
  unfold validate. destruct (key_list g rot) as [|k r] eqn:E.
  - split; [discriminate|]. intros [_ [pre [s [post [H _]]]]]. destruct pre; discriminate.
  - rewrite loop_accept_iff. split; [intros [[H _]|H]; [discriminate|assumption]|tauto].
Qed.

(* soundness: acceptance needs an authenticating secret of adequate length, current or rotated *)
Theorem validate_sound tok kd sd g rot :
  validate tok kd sd g rot = None ->
  wf tok kd sd /\ exists s, In s (key_list g rot) /\ long s /\ sf_mac s = true.
Proof.
  intros H. apply validate_accept_iff in H as [Hwf [pre [s [post [-> [_ [Hs Hm]]]]]]].
  split; [assumption|]. exists s. split; [apply in_or_app; right; now left|tauto].
Qed.

(* every mutation class: if no configured secret of >= 32 bytes authenticates, the string is rejected *)
Theorem validate_rejects_unauthenticated tok kd sd g rot :
  (forall s, In s (key_list g rot) -> long s -> sf_mac s = false) ->
  validate tok kd sd g rot <> None.
Proof.
  intros Hno H. apply validate_sound in H as [_ [s [Hin [Hl Hm]]]]. rewrite (Hno s Hin Hl) in Hm. discriminate.
Qed.

Theorem validate_rejects_malformed tok kd sd g rot : ~ wf tok kd sd -> validate tok kd sd g rot <> None.
Proof. intros Hn H. apply validate_sound in H. tauto. Qed.

(* with secrets of adequate length only, the order and the length of the list do not matter *)
Theorem validate_all_long tok kd sd g rot :
  Forall long (key_list g rot) ->
  (validate tok kd sd g rot = None <-> wf tok kd sd /\ exists s, In s (key_list g rot) /\ sf_mac s = true).
Proof.
  intros Hall. rewrite validate_accept_iff. split.
  - intros [Hwf [pre [s [post [E [_ [_ Hm]]]]]]]. split; [assumption|]. exists s. rewrite E.
    split; [apply in_or_app; right; now left|assumption].
  - intros [Hwf [s [Hin Hm]]]. split; [assumption|].
    apply in_split in Hin as [pre [post E]]. exists pre, s, post. rewrite E in Hall.
    apply Forall_app in Hall as [Hpre Hrest]. inversion Hrest; subst. tauto.
Qed.

Theorem validate_order_free tok kd sd g rot g' rot' :
  Forall long (key_list g rot) -> Permutation (key_list g rot) (key_list g' rot') ->
  (validate tok kd sd g rot = None <-> validate tok kd sd g' rot' = None).
Proof.
  intros Hall Hp.
  assert (Hall' : Forall long (key_list g' rot')).
  { apply Forall_forall. intros x Hx. rewrite Forall_forall in Hall. apply Hall.
    apply Permutation_sym in Hp. exact (Permutation_in _ Hp Hx). }
  rewrite (validate_all_long _ _ _ _ _ Hall), (validate_all_long _ _ _ _ _ Hall').
  split; intros [Hwf [s [Hin Hm]]]; (split; [assumption|]); exists s; (split; [|assumption]).
  - exact (Permutation_in _ Hp Hin).
  - exact (Permutation_in _ (Permutation_sym Hp) Hin).
Qed.

(* the documented quirk: a secret shorter than 32 bytes that is reached before a match is an error,
   also when a later secret would authenticate the string *)
Lemma loop_short_iff tok kd sd keys err :
  validate_loop tok kd sd keys err = Some EShort <->
  (keys = [] /\ err = Some EShort) \/
  exists pre s post, keys = (pre ++ s :: post)%list /\ (sf_len s < 32)%N /\
                     Forall (fun x => long x /\ wf tok kd sd /\ sf_mac x = false) pre.
Proof.
  revert err. induction keys as [|k r IH]; intros err; cbn [validate_loop].
  - split; [tauto|]. intros [[_ H]|[pre [s [post [H _]]]]]; [assumption|]. destruct pre; discriminate.
  - destruct (validate1 tok kd sd k) as [e|] eqn:E.
    + destruct e.
      * (* short *) split; [|reflexivity]. intros _. right. exists [], k, r. apply validate1_short_iff in E. auto.
      * split; [discriminate|]. intros [[H _]|[pre [s [post [Hk [Hs Hpre]]]]]]; [discriminate|]. exfalso.
        destruct pre as [|p pre]; cbn in Hk; injection Hk as <- _.
        -- pose proof (proj2 (validate1_short_iff tok kd sd _) Hs) as Hx. rewrite Hx in E. discriminate.
        -- inversion Hpre as [|? ? Hp _]; subst. pose proof (proj2 (validate1_mismatch_iff tok kd sd _) Hp) as Hx. congruence.
      * split; [discriminate|]. intros [[H _]|[pre [s [post [Hk [Hs Hpre]]]]]]; [discriminate|]. exfalso.
        destruct pre as [|p pre]; cbn in Hk; injection Hk as <- _.
        -- pose proof (proj2 (validate1_short_iff tok kd sd _) Hs) as Hx. rewrite Hx in E. discriminate.
        -- inversion Hpre as [|? ? Hp _]; subst. pose proof (proj2 (validate1_mismatch_iff tok kd sd _) Hp) as Hx. congruence.
      * (* mismatch *) rewrite IH. split.
        -- intros [[-> H]|[pre [s [post [-> [Hs Hpre]]]]]]; [discriminate|].
           right. exists (k :: pre), s, post. repeat split; auto. constructor; [|assumption].
           now apply validate1_mismatch_iff.
        -- intros [[H _]|[pre [s [post [Hk [Hs Hpre]]]]]]; [discriminate|].
           destruct pre as [|p pre]; cbn in Hk; injection Hk as <- ->.
           ++ pose proof (proj2 (validate1_short_iff tok kd sd _) Hs) as Hx. rewrite Hx in E. discriminate.
           ++ inversion Hpre; subst. right. now exists pre, s, post.
      * split; [discriminate|]. intros [[H _]|[pre [s [post [Hk [Hs Hpre]]]]]]; [discriminate|]. exfalso.
        destruct pre as [|p pre]; cbn in Hk; injection Hk as <- _.
        -- pose proof (proj2 (validate1_short_iff tok kd sd _) Hs) as Hx. rewrite Hx in E. discriminate.
        -- inversion Hpre as [|? ? Hp _]; subst. pose proof (proj2 (validate1_mismatch_iff tok kd sd _) Hp) as Hx. congruence.
    + split; [discriminate|]. intros [[H _]|[pre [s [post [Hk [Hs Hpre]]]]]]; [discriminate|]. exfalso.
      destruct pre as [|p pre]; cbn in Hk; injection Hk as <- _.
      * pose proof (proj2 (validate1_short_iff tok kd sd _) Hs) as Hx. rewrite Hx in E. discriminate.
      * inversion Hpre as [|? ? Hp _]; subst. pose proof (proj2 (validate1_mismatch_iff tok kd sd _) Hp) as Hx. congruence.
Qed.

Theorem validate_short_iff tok kd sd g rot :
  validate tok kd sd g rot = Some EShort <->
  exists pre s post, key_list g rot = (pre ++ s :: post)%list /\ (sf_len s < 32)%N /\
                     Forall (fun x => long x /\ wf tok kd sd /\ sf_mac x = false) pre.
Proof.
  unfold validate. destruct (key_list g rot) as [|k r] eqn:E.
  - split; [discriminate|]. intros [pre [s [post [H _]]]]. destruct pre; discriminate.
  - rewrite loop_short_iff. split; [intros [[H _]|H]; [discriminate|assumption]|tauto].
Qed.

Lemma loop_not_nosecret tok kd sd keys err :
  err <> Some ENoSecret -> validate_loop tok kd sd keys err <> Some ENoSecret.
Proof.
  revert err. induction keys as [|k r IH]; intros err He; cbn; [assumption|].
  unfold validate1. destruct (N.ltb (sf_len k) min_secret); [discriminate|].
  destruct (cut dot tok) as [[a b]|]; [|discriminate].
  destruct (_ || _); [discriminate|]. destruct (negb sd); [discriminate|]. destruct (negb kd); [discriminate|].
  destruct (sf_mac k); [discriminate|]. apply IH. discriminate.
Qed.

Theorem validate_no_secret_iff tok kd sd g rot :
  validate tok kd sd g rot = Some ENoSecret <-> sf_len g = 0%N /\ rot = [].
Proof.
  unfold validate. destruct (key_list g rot) as [|k r] eqn:E.
  - split; [intros _|reflexivity]. unfold key_list in E.
    destruct (N.ltb_spec 0 (sf_len g)); cbn in E; [discriminate|]. split; [lia|assumption].
  - split.
    + intros H. exfalso. revert H. apply loop_not_nosecret. discriminate.
    + intros [Hz ->]. unfold key_list in E. rewrite Hz in E. discriminate.
Qed.

(* ------------------------------------------------------------------ Generate *)
Theorem generate_refuses_short gl e h : generate gl e h = None <-> (gl < 32)%N.
Proof. unfold generate, min_secret. destruct (N.ltb_spec gl 32); split; try tauto; try discriminate; lia. Qed.

Theorem generate_entropy gl e h kl sl :
  generate gl e h = Some (kl, sl) ->
  (32 <= gl)%N /\ (32 <= kl)%Z /\ (e <= kl)%Z /\ kl = Z.max (if Z.eqb e 0 then 32 else e)%Z 32%Z /\ sl = h.
Proof.
  unfold generate, min_secret, gen_key_len. destruct (N.ltb_spec gl 32); [discriminate|].
  intros Hq. injection Hq as <- <-. split; [assumption|].
  destruct (Z.eqb_spec e 0) as [->|Hne]; cbn.
  - repeat split; lia.
  - destruct (Z.ltb_spec e 32); repeat split; lia.
Qed.

Theorem hmac_for_string_refuses_short gl : hmac_for_string_ok gl = false <-> (gl < 32)%N.
Proof. unfold hmac_for_string_ok, min_secret. destruct (N.ltb_spec gl 32); cbn; split; try tauto; try discriminate; lia. Qed.

(* ------------------------------------------------------------------ prefixes *)
Lemma prefix_nodot k : has_char dot (prefix_of k) = false.
Proof. destruct k; reflexivity. Qed.

(* the prefixed strategies accept a string with and without its own prefix alike, and the storage
   key does not depend on the prefix *)
Theorem prefixed_validate_with_prefix k t kd sd g rot :
  strat_validate true k (prefix_of k ++ t) kd sd g rot = validate t kd sd g rot.
Proof. unfold strat_validate, strat_trim. destruct k; now rewrite trim_prefix_app. Qed.

Theorem prefixed_validate_without_prefix k t kd sd g rot :
  has_prefix (prefix_of k) t = false ->
  strat_validate true k t kd sd g rot = validate t kd sd g rot.
Proof. intros H. unfold strat_validate, strat_trim. destruct k; now rewrite (trim_prefix_none _ _ H). Qed.

Theorem unprefixed_validate k t kd sd g rot :
  k <> KDc -> strat_validate false k t kd sd g rot = validate t kd sd g rot.
Proof. intros H. unfold strat_validate, strat_trim. destruct k; congruence. Qed.

Theorem signature_prefix_free k t : strat_signature (prefix_of k ++ t) = strat_signature t.
Proof. apply signature_ignores_prefix, prefix_nodot. Qed.

(* ------------------------------------------------------------------ end to end *)
Lemma verr_name_nonempty e : verr_name e <> "".
Proof. destruct e; discriminate. Qed.

Lemma mem_In x l : mem x l = true <-> In x l.
Proof.
  induction l as [|y r IH]; cbn; [split; [discriminate|tauto]|].
  destruct (String.eqb_spec x y) as [->|Hne]; [tauto|]. rewrite IH. split; [tauto|]. intros [H|H]; [congruence|assumption].
Qed.

Theorem e2e_honoured_iff ep p k stored tok kd sd g rot :
  e2e ep p k stored tok kd sd g rot = "" <->
  In (strat_signature tok) stored /\ strat_validate p k tok kd sd g rot = None.
Proof.
  unfold e2e. destruct (mem (strat_signature tok) stored) eqn:Em.
  - apply mem_In in Em. destruct (strat_validate p k tok kd sd g rot) as [e|].
    + split; [|intros [_ H]; discriminate]. destruct ep; try discriminate. intros H. now apply verr_name_nonempty in H.
    + tauto.
  - assert (~ In (strat_signature tok) stored) by (rewrite <- mem_In; congruence).
    split; [destruct ep; discriminate|tauto].
Qed.

(* a presented string is honoured by introspection / refresh / redemption / device poll only if its
   signature part names a stored record AND the string itself authenticates *)
Theorem e2e_sound ep p k stored tok kd sd g rot :
  e2e ep p k stored tok kd sd g rot = "" ->
  In (strat_signature tok) stored /\ wf (strat_trim p k tok) kd sd /\
  exists s, In s (key_list g rot) /\ long s /\ sf_mac s = true.
Proof.
  intros H. apply e2e_honoured_iff in H as [Hin Hv]. apply validate_sound in Hv. tauto.
Qed.

(* ------------------------------------------------------------------ symbolic mutations *)
(* a configuration names each secret and gives its length: (id, len) *)
Definition sfacts_of (kd sd : bool) (t : stok) (cfg : list (N * N)) : list sfact :=
  map (fun p => sym_fact kd sd t (fst p) (snd p)) cfg.

Definition sym_validate (tok : string) (kd sd : bool) (t : stok) (g : N * N) (rot : list (N * N)) : option verr :=
  validate tok kd sd (sym_fact kd sd t (fst g) (snd g)) (sfacts_of kd sd t rot).

Lemma key_list_sub g rot s : In s (key_list g rot) -> s = g \/ In s rot.
Proof.
  unfold key_list. intros H. apply in_app_or in H as [H|H]; [|tauto].
  destruct (N.ltb 0 (sf_len g)); cbn in H; [destruct H as [<-|[]]; now left|contradiction].
Qed.

(* acceptance always exhibits a configured secret, at least 32 bytes long, under which the decoded
   signature part IS the MAC of the decoded key part *)
Theorem sym_validate_sound tok kd sd t g rot :
  sym_validate tok kd sd t g rot = None ->
  wf tok kd sd /\ exists id len, In (id, len) (g :: rot) /\ (32 <= len)%N /\ sym_mac id t = true.
Proof.
  intros H. apply validate_sound in H as [Hwf [s [Hin [Hl Hm]]]]. split; [assumption|].
  apply key_list_sub in Hin as [->|Hin].
  - exists (fst g), (snd g). cbn in *. repeat split.
    + left. now destruct g.
    + exact Hl.
    + apply andb_true_iff in Hm. tauto.
  - unfold sfacts_of in Hin. apply in_map_iff in Hin as [[id len] [<- Hin]]. exists id, len. cbn in *. repeat split.
    + now right.
    + exact Hl.
    + apply andb_true_iff in Hm. tauto.
Qed.

(* minted under secret [o] with key [k]; decoded parts unchanged *)
Definition minted (o k : N) : stok := ST k (SMac o k).

Theorem minted_accept_iff tok kd sd o k g rot :
  sym_validate tok kd sd (minted o k) g rot = None <->
  wf tok kd sd /\
  exists pre len post, (if N.ltb 0 (snd g) then g :: rot else rot) = (pre ++ (o, len) :: post)%list /\
                       Forall (fun p => 32 <= snd p)%N pre /\ (32 <= len)%N.
Proof.
  unfold sym_validate. rewrite validate_accept_iff.
  assert (Hkl : forall wfp : wf tok kd sd,
             key_list (sym_fact kd sd (minted o k) (fst g) (snd g)) (sfacts_of kd sd (minted o k) rot)
             = sfacts_of kd sd (minted o k) (if N.ltb 0 (snd g) then g :: rot else rot)).
  { intros _. unfold key_list. cbn [sf_len sym_fact]. destruct (N.ltb 0 (snd g)); reflexivity. }
  split.
  - intros [Hwf [pre [s [post [E [Hpre [Hs Hm]]]]]]]. split; [assumption|]. rewrite (Hkl Hwf) in E.
    unfold sfacts_of in E. apply map_eq_app in E as [l1 [l2 [E0 [E1 E2]]]].
    destruct l2 as [|[id len] l2]; [discriminate|]. cbn in E2. injection E2 as Es E2. subst s.
    cbn in Hm, Hs. unfold long in Hs. cbn in Hs.
    apply andb_true_iff in Hm as [_ Hm]. unfold sym_mac, minted in Hm. cbn in Hm.
    apply andb_true_iff in Hm as [Hm _]. apply N.eqb_eq in Hm. subst id.
    exists l1, len, l2. split; [assumption|]. split; [|assumption].
    subst pre. apply Forall_forall. intros p Hp. rewrite Forall_forall in Hpre.
    specialize (Hpre (sym_fact kd sd (ST k (SMac o k)) (fst p) (snd p))). apply Hpre.
    apply in_map_iff. now exists p.
  - intros [Hwf [pre [len [post [E [Hpre Hl]]]]]]. split; [assumption|]. rewrite (Hkl Hwf), E.
    unfold sfacts_of. rewrite map_app. cbn [map].
    eexists _, _, _. split; [reflexivity|]. repeat split.
    + apply Forall_forall. intros x Hx. apply in_map_iff in Hx as [p [<- Hp]]. rewrite Forall_forall in Hpre.
      unfold long. cbn. now apply Hpre.
    + exact Hl.
    + destruct Hwf as [? [? [_ [_ [_ [_ [-> ->]]]]]]]. cbn. unfold sym_mac, minted. cbn. now rewrite !N.eqb_refl.
Qed.

(* altering the decoded random part (bit flip, truncation that still decodes, the key of another
   token, a fresh random part under a stored signature): rejected under every secret list *)
Theorem altered_key_rejected tok kd sd o k k' g rot :
  k' <> k -> sym_validate tok kd sd (ST k' (SMac o k)) g rot <> None.
Proof.
  intros Hne H. apply sym_validate_sound in H as [_ [id [len [_ [_ Hm]]]]].
  unfold sym_mac in Hm. cbn in Hm. apply andb_true_iff in Hm as [_ Hm]. apply N.eqb_eq in Hm. congruence.
Qed.

(* altering the decoded signature part: the result is no MAC at all *)
Theorem altered_signature_rejected tok kd sd k g rot :
  sym_validate tok kd sd (ST k SJunk) g rot <> None.
Proof. intros H. apply sym_validate_sound in H as [_ [id [len [_ [_ Hm]]]]]. discriminate. Qed.

(* minted (or re-signed) under a secret that is not configured *)
Theorem unknown_secret_rejected tok kd sd o k g rot :
  (forall id len, In (id, len) (g :: rot) -> id <> o) ->
  sym_validate tok kd sd (minted o k) g rot <> None.
Proof.
  intros Hun H. apply sym_validate_sound in H as [_ [id [len [Hin [_ Hm]]]]].
  unfold sym_mac, minted in Hm. cbn in Hm. apply andb_true_iff in Hm as [Hm _]. apply N.eqb_eq in Hm.
  exact (Hun id len Hin (eq_sym Hm)).
Qed.

(* a secret shorter than 32 bytes never authenticates anything, wherever it is configured *)
Theorem short_secret_refused tok kd sd t g rot :
  (forall id len, In (id, len) (g :: rot) -> sym_mac id t = true -> (len < 32)%N) ->
  sym_validate tok kd sd t g rot <> None.
Proof.
  intros Hs H. apply sym_validate_sound in H as [_ [id [len [Hin [Hl Hm]]]]].
  specialize (Hs id len Hin Hm). lia.
Qed.

(* ------------------------------------------------------------------ non-vacuity *)
Definition ex_tok : string := "a2V5.c2ln".
Example ex_wf : wf ex_tok true true.
Proof. apply wf_b_iff. reflexivity. Qed.
Example ex_accept_rotated :
  validate ex_tok true true (SF 1 32 false) [SF 2 40 false; SF 3 64 true] = None.
Proof. reflexivity. Qed.
Example ex_short_before_match :
  validate ex_tok true true (SF 1 32 false) [SF 2 31 false; SF 3 64 true] = Some EShort.
Proof. reflexivity. Qed.
Example ex_short_after_match :
  validate ex_tok true true (SF 1 32 false) [SF 3 64 true; SF 2 31 false] = None.
Proof. reflexivity. Qed.
Example ex_empty_global_uses_rotated :
  validate ex_tok true true (SF 0 0 false) [SF 3 32 true] = None.
Proof. reflexivity. Qed.
Example ex_no_secret : validate ex_tok true true (SF 0 0 false) [] = Some ENoSecret.
Proof. reflexivity. Qed.
Example ex_several_dots : signature "a.b.c" = "" /\ cut dot "a.b.c" = Some ("a", "b.c").
Proof. split; reflexivity. Qed.
Example ex_minted_accept :
  sym_validate ex_tok true true (minted 7 1) (7, 32)%N [] = None.
Proof. reflexivity. Qed.
Example ex_e2e_swap :
  e2e EpRefresh true KRt ["c2ln"] "ory_rt_a2V5.c2ln" true true (SF 1 32 false) [] = "invalid_request:400".
Proof. reflexivity. Qed.
