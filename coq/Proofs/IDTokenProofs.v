(* C14: declarative specification of ID-token issuance, written from the property text /
   OpenID Connect Core (sections 2, 3.1.3.6, 3.3.2.11, 12.2), and the theorems that the Go-shaped
   model of Model/IDToken.v decides exactly that specification, for all inputs. *)
From FositeModel Require Import Base.Str Model.IDToken.
Local Open Scope Z_scope.

(* ------------------------------------------------------------------ small facts *)
Lemma mem_In x l : mem x l = true <-> In x l.
Proof.
  induction l as [|y r IH]; cbn; [split; easy|].
  destruct (String.eqb_spec x y); subst; [split; auto|].
  rewrite IH. split; [auto|]. intros [H|H]; [congruence|exact H].
Qed.

Lemma mem_false_In x l : mem x l = false <-> ~ In x l.
Proof. rewrite <- mem_In. destruct (mem x l); split; congruence. Qed.

Lemma unique_acc_keeps x l : forall seen, In x l -> mem x seen = true \/ In x (unique_acc seen l).
Proof.
  induction l as [|y r IH]; intros seen H; [destruct H|].
  cbn. destruct H as [->|H].
  - destruct (mem x seen) eqn:E; [now left|right; now left].
  - destruct (mem y seen) eqn:E; [apply IH, H|].
    destruct (IH (y :: seen) H) as [Hm|Hi]; [|right; now right].
    cbn in Hm. destruct (String.eqb_spec x y); [subst; right; now left|now left].
Qed.

Lemma unique_keeps x l : In x l -> In x (unique l).
Proof. intros H. destruct (unique_acc_keeps x l [] H) as [Hm|Hi]; [discriminate|exact Hi]. Qed.

Lemma unique_acc_sub x l : forall seen, In x (unique_acc seen l) -> In x l.
Proof.
  induction l as [|y r IH]; intros seen H; [exact H|].
  cbn in H. destruct (mem y seen); [right; eapply IH, H|].
  destruct H as [->|H]; [now left|right; eapply IH, H].
Qed.

Lemma unique_sub x l : In x (unique l) -> In x l.
Proof. apply unique_acc_sub. Qed.

Lemma fget_sanitize k wl f : fget k (sanitize wl f) = if mem k wl then fget k f else "".
Proof.
  induction f as [|[k' v] r IH]; cbn; [now destruct (mem k wl)|].
  destruct (mem k' wl) eqn:E; cbn.
  - destruct (String.eqb_spec k k'); [subst; now rewrite E|exact IH].
  - destruct (String.eqb_spec k k'); [subst; rewrite E in *; exact IH|exact IH].
Qed.

Lemma eqb_false_neq a b : String.eqb a b = false <-> a <> b.
Proof. destruct (String.eqb_spec a b); split; congruence. Qed.

(* ------------------------------------------------------------------ specification *)
(* the authentication-related requirements of a request (everything except refresh), OIDC Core 3.1.2.1:
   max_age, prompt=none, prompt=login, id_token_hint; plus the sanity condition on auth_time *)
Record auth_ok (f : form) (p : parsed) (c : claims) (now : Z) : Prop := {
  ao_not_future : tval (c_auth c) <= now + 5;
  ao_max_age : 0 < maxage_of f p ->
      c_auth c <> None /\ c_rat c <> None /\ tval (c_rat c) <= tval (c_auth c) + maxage_of f p;
  ao_prompt_needs_auth_time : fget "prompt" f <> "" -> c_auth c <> None;
  ao_prompt_none : fget "prompt" f = "none" -> tval (c_auth c) <= tval (c_rat c);
  ao_prompt_login : fget "prompt" f = "login" -> tval (c_rat c) <= tval (c_auth c);
  ao_hint : match hint_of f p with
            | HintAbsent => True
            | HintBad => False
            | HintOk s | HintExpired s => s <> "" /\ s = c_sub c
            end }.

Definition life_of (lifespan : Z) : Z := if Z.eqb lifespan 0 then 3600 else lifespan.
Definition exp_of (lifespan : Z) (c : claims) (now : Z) : Z :=
  match c_exp c with Some e => e | None => now + life_of lifespan end.
Definition is_refresh (f : form) : Prop := fget "grant_type" f = "refresh_token".

(* when may an ID token be issued at all *)
Record issuable (g : config) (lifespan : Z) (f : form) (p : parsed) (c : claims) (now : Z) : Prop := {
  is_subject : c_sub c <> "";
  is_auth : ~ is_refresh f -> auth_ok f p c now;
  is_not_expired : now <= exp_of lifespan c now;
  is_nonce_entropy : fget "nonce" f <> "" -> (g_entropy g <= String.length (fget "nonce" f))%nat }.

Definition acr_of (f : form) (c : claims) : string :=
  if negb (String.eqb (fget "acr_values" f) "") && String.eqb (c_acr c) "" && negb (String.eqb (fget "grant_type" f) "refresh_token")
  then "0" else c_acr c.

(* what the session's claims are afterwards = what the token says *)
Definition issued_claims (g : config) (cid : string) (lifespan : Z) (f : form) (c : claims) (now : Z) : claims :=
  mkClaims (c_sub c)
           (if String.eqb (c_iss c) "" then g_iss g else c_iss c)
           (unique (c_aud c ++ [cid]))
           (if String.eqb (fget "nonce" f) "" then c_nonce c else fget "nonce" f)
           (Some (exp_of lifespan c now))
           (Some now)
           (c_rat c)
           (Some (match c_auth c with Some a => a | None => now end))
           (c_at c) (c_ch c) (acr_of f c) (c_jti c) (c_extra c).

(* ------------------------------------------------------------------ gen_auth_checks *)
Lemma is_zero_None t : is_zero t = true <-> t = None.
Proof. destruct t; cbn; split; congruence. Qed.
Lemma is_zero_false t : is_zero t = false <-> t <> None.
Proof. destruct t; cbn; split; congruence. Qed.

Ltac bool_hyps :=
  repeat match goal with
  | H : _ && _ = true |- _ => apply andb_true_iff in H; destruct H
  | H : _ && _ = false |- _ => apply andb_false_iff in H
  | H : _ || _ = false |- _ => apply orb_false_iff in H; destruct H
  | H : negb _ = true |- _ => apply negb_true_iff in H
  | H : negb _ = false |- _ => apply negb_false_iff in H
  | H : Z.ltb _ _ = true |- _ => apply Z.ltb_lt in H
  | H : Z.ltb _ _ = false |- _ => apply Z.ltb_ge in H
  | H : Z.leb _ _ = true |- _ => apply Z.leb_le in H
  | H : Z.leb _ _ = false |- _ => apply Z.leb_gt in H
  | H : Z.eqb _ _ = true |- _ => apply Z.eqb_eq in H
  | H : Z.eqb _ _ = false |- _ => apply Z.eqb_neq in H
  | H : String.eqb _ _ = true |- _ => apply String.eqb_eq in H
  | H : String.eqb _ _ = false |- _ => apply eqb_false_neq in H
  | H : is_zero _ = true |- _ => apply is_zero_None in H
  | H : is_zero _ = false |- _ => apply is_zero_false in H
  end.

Definition acr1 (f : form) (c : claims) : claims :=
  if negb (String.eqb (fget "acr_values" f) "") && String.eqb (c_acr c) "" then set_acr c "0" else c.

Lemma acr1_fields f c :
  c_sub (acr1 f c) = c_sub c /\ c_exp (acr1 f c) = c_exp c /\ c_auth (acr1 f c) = c_auth c /\
  c_iss (acr1 f c) = c_iss c.
Proof. unfold acr1. destruct (negb (String.eqb (fget "acr_values" f) "") && String.eqb (c_acr c) ""); now repeat split. Qed.

Lemma gen_auth_checks_sound f p c now c1 :
  gen_auth_checks f p c now = (c1, None) -> auth_ok f p c now /\ c1 = acr1 f c.
Proof.
  unfold gen_auth_checks, t_after, t_before, t_equal. fold (acr1 f c).
  destruct (Z.ltb (tval (Some (now + 5))) (tval (c_auth c))) eqn:E1; [easy|].
  destruct (Z.ltb 0 (maxage_of f p) && is_zero (c_auth c)) eqn:E2; [easy|].
  destruct (Z.ltb 0 (maxage_of f p) && is_zero (c_rat c)) eqn:E3; [easy|].
  destruct (Z.ltb 0 (maxage_of f p) && Z.ltb (tval (c_auth c) + maxage_of f p) (tval (c_rat c))) eqn:E4; [easy|].
  destruct (negb (String.eqb (fget "prompt" f) "") && is_zero (c_auth c)) eqn:E5; [easy|].
  destruct (String.eqb (fget "prompt" f) "none" && negb (Z.eqb (tval (c_auth c)) (tval (c_rat c))) && Z.ltb (tval (c_rat c)) (tval (c_auth c))) eqn:E6; [easy|].
  destruct (String.eqb (fget "prompt" f) "login" && negb (Z.eqb (tval (c_auth c)) (tval (c_rat c))) && Z.ltb (tval (c_auth c)) (tval (c_rat c))) eqn:E7; [easy|].
  assert (Hsub : c_sub (acr1 f c) = c_sub c) by apply acr1_fields.
  intros H.
  assert (Hh : match hint_of f p with HintAbsent => True | HintBad => False
               | HintOk s | HintExpired s => s <> "" /\ s = c_sub c end /\ c1 = acr1 f c).
  { destruct (hint_of f p) as [|s|s|]; try (inversion H; subst; now split); try easy;
      destruct (String.eqb_spec s ""); try easy; rewrite Hsub in H;
      destruct (String.eqb_spec s (c_sub c)); cbn in H; try easy; inversion H; subst; now repeat split. }
  destruct Hh as [Hh ->]. split; [|reflexivity].
  cbn [tval] in E1. apply Z.ltb_ge in E1.
  constructor; try assumption.
  - intros Hm. apply Z.ltb_lt in Hm. rewrite Hm in E2, E3, E4. cbn in E2, E3, E4.
    apply is_zero_false in E2. apply is_zero_false in E3. apply Z.ltb_ge in E4. now repeat split.
  - intros Hp. apply eqb_false_neq in Hp. rewrite Hp in E5. cbn in E5. now apply is_zero_false.
  - intros Hp. rewrite Hp in E6. cbn in E6.
    destruct (Z.eqb_spec (tval (c_auth c)) (tval (c_rat c))); [lia|]. cbn in E6. apply Z.ltb_ge in E6. lia.
  - intros Hp. rewrite Hp in E7. cbn in E7.
    destruct (Z.eqb_spec (tval (c_auth c)) (tval (c_rat c))); [lia|]. cbn in E7. apply Z.ltb_ge in E7. lia.
Qed.

Lemma gen_auth_checks_complete f p c now :
  auth_ok f p c now -> gen_auth_checks f p c now = (acr1 f c, None).
Proof.
  intros [A1 A2 A3 A4 A5 A6].
  unfold gen_auth_checks, t_after, t_before, t_equal. fold (acr1 f c).
  cbn [tval].
  replace (Z.ltb (now + 5) (tval (c_auth c))) with false by (symmetry; apply Z.ltb_ge; lia).
  assert (Hmax : Z.ltb 0 (maxage_of f p) && is_zero (c_auth c) = false /\
                 Z.ltb 0 (maxage_of f p) && is_zero (c_rat c) = false /\
                 Z.ltb 0 (maxage_of f p) && Z.ltb (tval (c_auth c) + maxage_of f p) (tval (c_rat c)) = false).
  { destruct (Z.ltb_spec 0 (maxage_of f p)) as [Hm|Hm]; cbn; [|easy].
    destruct (A2 Hm) as (Ha & Hr & Hle). repeat split.
    - now apply is_zero_false. - now apply is_zero_false. - apply Z.ltb_ge. lia. }
  destruct Hmax as (-> & -> & ->).
  assert (negb (String.eqb (fget "prompt" f) "") && is_zero (c_auth c) = false) as ->.
  { destruct (String.eqb_spec (fget "prompt" f) ""); cbn; [easy|]. apply is_zero_false. now apply A3. }
  assert (String.eqb (fget "prompt" f) "none" && negb (Z.eqb (tval (c_auth c)) (tval (c_rat c))) && Z.ltb (tval (c_rat c)) (tval (c_auth c)) = false) as ->.
  { destruct (String.eqb_spec (fget "prompt" f) "none"); cbn; [|easy].
    specialize (A4 e). apply andb_false_iff. right. apply Z.ltb_ge. lia. }
  assert (String.eqb (fget "prompt" f) "login" && negb (Z.eqb (tval (c_auth c)) (tval (c_rat c))) && Z.ltb (tval (c_auth c)) (tval (c_rat c)) = false) as ->.
  { destruct (String.eqb_spec (fget "prompt" f) "login"); cbn; [|easy].
    specialize (A5 e). apply andb_false_iff. right. apply Z.ltb_ge. lia. }
  assert (Hsub : c_sub (acr1 f c) = c_sub c) by apply acr1_fields.
  destruct (hint_of f p) as [|s|s|]; try reflexivity; try easy;
    destruct A6 as [Hne ->]; rewrite Hsub, String.eqb_refl; cbn;
    destruct (String.eqb_spec (c_sub c) ""); [congruence|reflexivity|congruence|reflexivity].
Qed.

(* ------------------------------------------------------------------ generate decides the specification *)
Lemma acr_of_refresh f c : fget "grant_type" f = "refresh_token" -> acr_of f c = c_acr c.
Proof. intros H. unfold acr_of. rewrite H. cbn. now rewrite andb_false_r. Qed.
Lemma acr_of_other f c : fget "grant_type" f <> "refresh_token" -> acr_of f c = c_acr (acr1 f c).
Proof.
  intros H. unfold acr_of, acr1. apply eqb_false_neq in H. rewrite H. cbn. rewrite andb_true_r.
  now destruct (_ && _).
Qed.

Lemma exp_step c now l :
  tval (c_exp (if is_zero (c_exp c) then set_exp c (Some (now + l)) else c)) =
  match c_exp c with Some e => e | None => now + l end.
Proof. destruct c as [sub iss aud nonce exp iat rat auth at_ ch acr jti extra]; cbn. destruct exp; reflexivity. Qed.

Theorem generate_sound g cid lifespan f p c now c' t :
  generate g cid lifespan f p c now = (c', OTok t) ->
  issuable g lifespan f p c now /\ c' = issued_claims g cid lifespan f c now /\ t = to_map c'.
Proof.
  unfold generate. fold (life_of lifespan).
  destruct (String.eqb_spec (c_sub c) "") as [|Hsub]; [easy|].
  destruct (String.eqb_spec (fget "grant_type" f) "refresh_token") as [Hr|Hr].
  - (* refresh: no authentication checks *)
    cbn iota beta.
    assert (Hexp : tval (c_exp (if is_zero (c_exp c) then set_exp c (Some (now + life_of lifespan)) else c)) = exp_of lifespan c now)
      by (unfold exp_of; apply exp_step).
    unfold t_before. rewrite Hexp. cbn [tval].
    destruct (Z.ltb_spec (exp_of lifespan c now) now) as [|Hnow]; [easy|].
    destruct (negb (String.eqb (fget "nonce" f) "") && Nat.ltb (String.length (fget "nonce" f)) (g_entropy g)) eqn:En; [easy|].
    intros H. inversion H; subst; clear H. split; [|split; [|reflexivity]].
    + constructor; try assumption; [intros Hn; now elim Hn|].
      intros Hn. apply eqb_false_neq in Hn. rewrite Hn in En. cbn in En. apply Nat.ltb_ge in En. exact En.
    + unfold issued_claims. rewrite (acr_of_refresh f c Hr). unfold exp_of.
      destruct c as [sub iss aud nonce exp iat rat auth at_ ch acr jti extra].
      destruct exp, auth; cbn -[String.eqb unique];
        destruct (String.eqb iss ""), (String.eqb (fget "nonce" f) ""); reflexivity.
  - destruct (gen_auth_checks f p c now) as [c1 [e|]] eqn:Eg; [easy|].
    apply gen_auth_checks_sound in Eg. destruct Eg as [Hok ->].
    destruct (acr1_fields f c) as (_ & He & Ha & Hi).
    assert (Hexp : tval (c_exp (if is_zero (c_exp (acr1 f c)) then set_exp (acr1 f c) (Some (now + life_of lifespan)) else acr1 f c)) = exp_of lifespan c now)
      by (unfold exp_of; rewrite exp_step, He; reflexivity).
    unfold t_before. rewrite Hexp. cbn [tval].
    destruct (Z.ltb_spec (exp_of lifespan c now) now) as [|Hnow]; [easy|].
    destruct (negb (String.eqb (fget "nonce" f) "") && Nat.ltb (String.length (fget "nonce" f)) (g_entropy g)) eqn:En; [easy|].
    intros H. inversion H; subst; clear H. split; [|split; [|reflexivity]].
    + constructor; try assumption; [now intros _|].
      intros Hn. apply eqb_false_neq in Hn. rewrite Hn in En. cbn in En. apply Nat.ltb_ge in En. exact En.
    + unfold issued_claims. rewrite (acr_of_other f c Hr). unfold exp_of.
      unfold acr1 in *. destruct (negb (String.eqb (fget "acr_values" f) "") && String.eqb (c_acr c) "");
        destruct c as [sub iss aud nonce exp iat rat auth at_ ch acr jti extra];
        destruct exp, auth; cbn -[String.eqb unique];
        destruct (String.eqb iss ""), (String.eqb (fget "nonce" f) ""); reflexivity.
Qed.

Theorem generate_complete g cid lifespan f p c now :
  issuable g lifespan f p c now ->
  generate g cid lifespan f p c now =
    (issued_claims g cid lifespan f c now, OTok (to_map (issued_claims g cid lifespan f c now))).
Proof.
  intros [Hsub Hauth Hexp Hn].
  unfold generate. fold (life_of lifespan).
  apply eqb_false_neq in Hsub. rewrite Hsub.
  assert (Hnonce : negb (String.eqb (fget "nonce" f) "") && Nat.ltb (String.length (fget "nonce" f)) (g_entropy g) = false).
  { destruct (String.eqb_spec (fget "nonce" f) ""); cbn; [easy|]. apply Nat.ltb_ge. now apply Hn. }
  destruct (String.eqb_spec (fget "grant_type" f) "refresh_token") as [Hr|Hr].
  - cbn iota beta.
    assert (Hx : tval (c_exp (if is_zero (c_exp c) then set_exp c (Some (now + life_of lifespan)) else c)) = exp_of lifespan c now)
      by (unfold exp_of; apply exp_step).
    unfold t_before. rewrite Hx. cbn [tval].
    replace (Z.ltb (exp_of lifespan c now) now) with false by (symmetry; apply Z.ltb_ge; lia).
    rewrite Hnonce.
    assert (Hc : set_iat (set_aud (let c4 := (let c3 := (if is_zero (c_auth (if is_zero (c_exp c) then set_exp c (Some (now + life_of lifespan)) else c)) then set_auth (if is_zero (c_exp c) then set_exp c (Some (now + life_of lifespan)) else c) (Some now) else (if is_zero (c_exp c) then set_exp c (Some (now + life_of lifespan)) else c)) in if String.eqb (c_iss c3) "" then set_iss c3 (g_iss g) else c3) in if String.eqb (fget "nonce" f) "" then c4 else set_nonce c4 (fget "nonce" f)) (unique (c_aud (let c4 := (let c3 := (if is_zero (c_auth (if is_zero (c_exp c) then set_exp c (Some (now + life_of lifespan)) else c)) then set_auth (if is_zero (c_exp c) then set_exp c (Some (now + life_of lifespan)) else c) (Some now) else (if is_zero (c_exp c) then set_exp c (Some (now + life_of lifespan)) else c)) in if String.eqb (c_iss c3) "" then set_iss c3 (g_iss g) else c3) in if String.eqb (fget "nonce" f) "" then c4 else set_nonce c4 (fget "nonce" f)) ++ [cid])%list)) (Some now) = issued_claims g cid lifespan f c now).
    { unfold issued_claims. rewrite (acr_of_refresh f c Hr). unfold exp_of.
      destruct c as [sub iss aud nonce exp iat rat auth at_ ch acr jti extra].
      destruct exp, auth; cbn -[String.eqb unique];
        destruct (String.eqb iss ""), (String.eqb (fget "nonce" f) ""); reflexivity. }
    cbn zeta in Hc. cbn zeta. rewrite Hc. reflexivity.
  - rewrite (gen_auth_checks_complete f p c now (Hauth Hr)).
    assert (Hsame : c_exp (acr1 f c) = c_exp c) by apply acr1_fields.
    assert (Hx : tval (c_exp (if is_zero (c_exp (acr1 f c)) then set_exp (acr1 f c) (Some (now + life_of lifespan)) else acr1 f c)) = exp_of lifespan c now)
      by (unfold exp_of; rewrite exp_step, Hsame; reflexivity).
    unfold t_before. rewrite Hx. cbn [tval].
    replace (Z.ltb (exp_of lifespan c now) now) with false by (symmetry; apply Z.ltb_ge; lia).
    rewrite Hnonce. cbn zeta.
    match goal with |- (?a, OTok (to_map ?a)) = _ => assert (Hc : a = issued_claims g cid lifespan f c now) end.
    { unfold issued_claims. rewrite (acr_of_other f c Hr). unfold exp_of.
      unfold acr1. destruct (negb (String.eqb (fget "acr_values" f) "") && String.eqb (c_acr c) "");
        destruct c as [sub iss aud nonce exp iat rat auth at_ ch acr jti extra];
        destruct exp, auth; cbn -[String.eqb unique];
        destruct (String.eqb iss ""), (String.eqb (fget "nonce" f) ""); reflexivity. }
    rewrite Hc. reflexivity.
Qed.

(* the iff-characterisation: an ID token comes out exactly when the specification allows it,
   and then it is the specified one *)
Theorem generate_spec g cid lifespan f p c now c' t :
  generate g cid lifespan f p c now = (c', OTok t) <->
  issuable g lifespan f p c now /\ c' = issued_claims g cid lifespan f c now /\ t = to_map c'.
Proof.
  split; [apply generate_sound|].
  intros (H & -> & ->). now apply generate_complete.
Qed.

(* ------------------------------------------------------------------ the claims of an issued token *)
Lemma filter_In_pair (P : string * string -> bool) l kv : In kv (filter P l) -> In kv l /\ P kv = true.
Proof. apply filter_In. Qed.

Theorem generate_token_claims g cid lifespan f p c now c' t :
  generate g cid lifespan f p c now = (c', OTok t) ->
  c_sub c <> "" /\ t_sub t = c_sub c /\
  In cid (t_aud t) /\ (forall a, In a (t_aud t) -> a = cid \/ In a (c_aud c)) /\
  t_iss t = (if String.eqb (c_iss c) "" then g_iss g else c_iss c) /\
  t_nonce t = (if String.eqb (fget "nonce" f) "" then c_nonce c else fget "nonce" f) /\
  t_exp t = Some (exp_of lifespan c now) /\ now <= exp_of lifespan c now /\
  t_iat t = Some now /\ t_rat t = c_rat c /\
  t_at t = c_at c /\ t_ch t = c_ch c /\
  (forall k v, In (k, v) (t_extra t) -> In (k, v) (c_extra c) /\ ~ In k std_claims).
Proof.
  intros H. apply generate_sound in H. destruct H as ([Hs _ He _] & -> & ->).
  unfold to_map, issued_claims.
  cbn [t_sub t_iss t_aud t_nonce t_exp t_iat t_rat t_auth t_at t_ch t_acr t_extra
       c_sub c_iss c_aud c_nonce c_exp c_iat c_rat c_auth c_at c_ch c_acr c_jti c_extra].
  repeat split; try assumption; try reflexivity.
  - apply unique_keeps, in_or_app. right. now left.
  - intros a Ha. apply unique_sub, in_app_or in Ha. destruct Ha as [Ha|[Ha|[]]]; [now right|now left].
  - apply filter_In_pair in H. apply H.
  - apply filter_In_pair in H. destruct H as [_ H]. apply negb_true_iff, mem_false_In in H. exact H.
Qed.

(* expiry: in the future, and within the lifetime unless the session pre-set one *)
Corollary generate_expiry g cid lifespan f p c now c' t :
  generate g cid lifespan f p c now = (c', OTok t) ->
  exists e, t_exp t = Some e /\ now <= e /\
    match c_exp c with
    | Some preset => e = preset
    | None => e = now + life_of lifespan
    end.
Proof.
  intros H. apply generate_token_claims in H. destruct H as (_ & _ & _ & _ & _ & _ & He & Hn & _).
  exists (exp_of lifespan c now). repeat split; try assumption. unfold exp_of. now destruct (c_exp c).
Qed.

(* the failure clause: an unmet max_age / prompt=none / prompt=login / id_token_hint makes issuance fail *)
Definition requirement_unmet (f : form) (p : parsed) (c : claims) : Prop :=
  (0 < maxage_of f p /\ (c_auth c = None \/ c_rat c = None \/ tval (c_auth c) + maxage_of f p < tval (c_rat c)))
  \/ (fget "prompt" f = "none" /\ tval (c_rat c) < tval (c_auth c))
  \/ (fget "prompt" f = "login" /\ tval (c_auth c) < tval (c_rat c))
  \/ match hint_of f p with
     | HintAbsent => False
     | HintBad => True
     | HintOk s | HintExpired s => s <> c_sub c
     end.

Lemma auth_ok_met f p c now : auth_ok f p c now -> ~ requirement_unmet f p c.
Proof.
  intros [A1 A2 A3 A4 A5 A6] [[Hm H]|[[Hp H]|[[Hp H]|H]]].
  - destruct (A2 Hm) as (Ha & Hr & Hle). destruct H as [H|[H|H]]; [congruence|congruence|lia].
  - specialize (A4 Hp). lia.
  - specialize (A5 Hp). lia.
  - destruct (hint_of f p); try easy; destruct A6 as [_ A6]; congruence.
Qed.

Theorem generate_refuses_unmet g cid lifespan f p c now :
  ~ is_refresh f -> requirement_unmet f p c ->
  exists c' e, generate g cid lifespan f p c now = (c', OErr e).
Proof.
  intros Hr Hu. destruct (generate g cid lifespan f p c now) as [c' [e|t]] eqn:E; [now exists c', e|].
  apply generate_sound in E. destruct E as ([_ Ha _ _] & _). elim (auth_ok_met _ _ _ _ (Ha Hr) Hu).
Qed.

Theorem generate_needs_subject g cid lifespan f p c now :
  c_sub c = "" -> exists c' e, generate g cid lifespan f p c now = (c', OErr e).
Proof.
  intros Hs. destruct (generate g cid lifespan f p c now) as [c' [e|t]] eqn:E; [now exists c', e|].
  apply generate_sound in E. destruct E as ([H _ _ _] & _). congruence.
Qed.

(* ------------------------------------------------------------------ ValidatePrompt *)
Definition prompt_list (f : form) : list string := remove_empty (split space (fget "prompt" f)).

(* the same requirements with the prompt parameter read as a space-separated list *)
Definition requirement_unmet_at_authorization (f : form) (p : parsed) (c : claims) : Prop :=
  (0 < maxage_of f p /\ (c_auth c = None \/ c_rat c = None \/ tval (c_auth c) + maxage_of f p < tval (c_rat c)))
  \/ (In "none" (prompt_list f) /\ tval (c_rat c) < tval (c_auth c))
  \/ (In "login" (prompt_list f) /\ tval (c_auth c) < tval (c_rat c))
  \/ match hint_of f p with
     | HintAbsent => False
     | HintBad => True
     | HintOk s | HintExpired s => s <> c_sub c
     end.

Theorem validate_prompt_pass g public secure f p c now :
  validate_prompt g public secure f p c now = None ->
  c_sub c <> "" /\ ~ requirement_unmet_at_authorization f p c.
Proof.
  unfold validate_prompt, t_after, t_before, t_equal. fold (prompt_list f).
  destruct (public && mem "none" (prompt_list f) && negb secure); [easy|].
  destruct (negb (forallb _ (prompt_list f))); [easy|].
  destruct (mem "none" (prompt_list f) && Nat.ltb 1 (List.length (prompt_list f))); [easy|].
  destruct (String.eqb_spec (c_sub c) "") as [|Hs]; [easy|].
  destruct (Z.ltb (tval (Some (now + 5))) (tval (c_auth c))); [easy|].
  destruct (Z.ltb 0 (maxage_of f p) && is_zero (c_auth c)) eqn:E2; [easy|].
  destruct (Z.ltb 0 (maxage_of f p) && is_zero (c_rat c)) eqn:E3; [easy|].
  destruct (Z.ltb 0 (maxage_of f p) && Z.ltb (tval (c_auth c) + maxage_of f p) (tval (c_rat c))) eqn:E4; [easy|].
  destruct (mem "none" (prompt_list f) && is_zero (c_auth c)) eqn:E5; [easy|].
  destruct (mem "none" (prompt_list f) && negb (Z.eqb (tval (c_auth c)) (tval (c_rat c))) && Z.ltb (tval (c_rat c)) (tval (c_auth c))) eqn:E6; [easy|].
  destruct (mem "login" (prompt_list f) && Z.ltb (tval (c_auth c)) (tval (c_rat c))) eqn:E7; [easy|].
  intros H. split; [assumption|].
  intros [[Hm Hu]|[[Hp Hu]|[[Hp Hu]|Hu]]].
  - apply Z.ltb_lt in Hm. rewrite Hm in E2, E3, E4. cbn in E2, E3, E4.
    apply is_zero_false in E2. apply is_zero_false in E3. apply Z.ltb_ge in E4.
    destruct Hu as [Hu|[Hu|Hu]]; [congruence|congruence|lia].
  - apply mem_In in Hp. rewrite Hp in E6. cbn in E6.
    destruct (Z.eqb_spec (tval (c_auth c)) (tval (c_rat c))); [lia|]. cbn in E6. apply Z.ltb_ge in E6. lia.
  - apply mem_In in Hp. rewrite Hp in E7. cbn in E7. apply Z.ltb_ge in E7. lia.
  - destruct (hint_of f p) as [|s|s|]; try easy;
      destruct (String.eqb_spec s ""); try easy;
      destruct (String.eqb_spec s (c_sub c)); cbn in H; try easy.
Qed.

Corollary validate_prompt_refuses_unmet g public secure f p c now :
  requirement_unmet_at_authorization f p c -> exists e, validate_prompt g public secure f p c now = Some e.
Proof.
  intros Hu. destruct (validate_prompt g public secure f p c now) as [e|] eqn:E; [now exists e|].
  apply validate_prompt_pass in E. now elim (proj2 E).
Qed.

(* ------------------------------------------------------------------ the issuing paths *)
(* claims that agree everywhere except possibly at_hash / c_hash *)
Definition same_but_hashes (a b : claims) : Prop :=
  c_sub a = c_sub b /\ c_iss a = c_iss b /\ c_aud a = c_aud b /\ c_nonce a = c_nonce b /\
  c_exp a = c_exp b /\ c_rat a = c_rat b /\ c_auth a = c_auth b /\ c_extra a = c_extra b.

Lemma same_refl a : same_but_hashes a a.
Proof. now repeat split. Qed.
Lemma same_set_at a v : same_but_hashes (set_at a v) a.
Proof. now repeat split. Qed.
Lemma same_set_ch a v : same_but_hashes (set_ch a v) a.
Proof. now repeat split. Qed.

Lemma authorize_implicit_idt g cl h a c now t :
  r_idt (authorize_implicit g cl h a c now) = Some t ->
  args_has (cl_grants cl) ["implicit"] = true /\ fget "nonce" (a_form a) <> "" /\
  validate_prompt g (cl_public cl) (a_redirect_secure a) (a_form a) (a_parsed a) c now = None /\
  exists c2,
    generate g (cl_id cl) (eff_life g cl GImplicit) (a_form a) (a_parsed a)
             (if args_has (a_rts a) ["token"] then set_at c (HOf (hash_of_hdr h) (a_token a)) else c) now = (c2, OTok t) /\
    authorize_implicit g cl h a c now = mkAres None (Some t) false (args_has (a_rts a) ["token"]) None c2.
Proof.
  unfold authorize_implicit.
  destruct (args_has (cl_grants cl) ["implicit"]); [|easy]. cbn [negb].
  destruct (redirect_present (a_form a)); [|easy]. cbn [negb].
  destruct (String.eqb_spec (fget "nonce" (a_form a)) "") as [|Hn]; [easy|].
  destruct (Nat.ltb _ _); [easy|].
  destruct (a_scopes_ok a); [|easy]. cbn [negb].
  destruct (validate_prompt _ _ _ _ _ _ _) as [e|] eqn:Ev; [easy|].
  destruct (generate _ _ _ _ _ _ _) as [c2 [e|t']] eqn:Eg; [easy|].
  cbn. intros H. inversion H; subst. repeat split; try assumption. now exists c2.
Qed.

Lemma authorize_hybrid_idt g cl h a c now t :
  r_idt (authorize_hybrid g cl h a c now) = Some t ->
  has_openid (a_granted a) = true /\ fget "nonce" (a_form a) <> "" /\
  validate_prompt g (cl_public cl) (a_redirect_secure a) (a_form a) (a_parsed a) c now = None /\
  exists c3,
    generate g (cl_id cl) (eff_life g cl GImplicit) (a_form a) (a_parsed a)
             (let c1 := set_ch c (HOf (hash_of_hdr h) (a_code a)) in
              if args_has (a_rts a) ["token"] then set_at c1 (HOf (hash_of_hdr h) (a_token a)) else c1) now = (c3, OTok t) /\
    authorize_hybrid g cl h a c now = mkAres None (Some t) true (args_has (a_rts a) ["token"]) (Some (mk_stored cl a)) c3.
Proof.
  unfold authorize_hybrid.
  destruct (String.eqb_spec (fget "nonce" (a_form a)) "") as [Hn|Hn].
  - cbn [andb negb]. destruct (args_has (a_rts a) ["id_token"]) eqn:Ei; [easy|].
    destruct (redirect_present (a_form a)); [|easy]. cbn [negb].
    destruct (validate_prompt _ _ _ _ _ _ _) as [e|]; [easy|].
    destruct (a_scopes_ok a); [|easy]. cbn [negb].
    destruct (args_has (cl_grants cl) ["authorization_code"]); [|easy]. cbn [negb].
    destruct (args_has (a_rts a) ["token"] && negb (args_has (cl_grants cl) ["implicit"])); [easy|].
    rewrite orb_true_r. easy.
  - cbn [andb negb].
    destruct (Nat.ltb _ _); [easy|].
    destruct (redirect_present (a_form a)); [|easy]. cbn [negb].
    destruct (validate_prompt _ _ _ _ _ _ _) as [e|] eqn:Ev; [easy|].
    destruct (a_scopes_ok a); [|easy]. cbn [negb].
    destruct (args_has (cl_grants cl) ["authorization_code"]); [|easy]. cbn [negb].
    destruct (args_has (a_rts a) ["token"] && negb (args_has (cl_grants cl) ["implicit"])); [easy|].
    destruct (has_openid (a_granted a)) eqn:Eo; [|easy]. cbn [negb orb].
    destruct (args_has (a_rts a) ["id_token"]); [|easy]. cbn [negb].
    cbn zeta.
    destruct (generate _ _ _ _ _ _ _) as [c3 [e|t']] eqn:Eg; [easy|].
    cbn. intros H. inversion H; subst. repeat split; try assumption. now exists c3.
Qed.

Lemma authorize_code_no_idt g cl h a c now : r_idt (authorize_code g cl h a c now) = None.
Proof.
  unfold authorize_code.
  destruct (a_redirect_secure a); [|easy]. destruct (a_scopes_ok a); [|easy].
  destruct (has_openid (a_granted a)); [|easy]. destruct (redirect_present (a_form a)); [|easy].
  cbn [negb]. now destruct (validate_prompt _ _ _ _ _ _ _).
Qed.

(* Every ID token that leaves the authorization endpoint. *)
Theorem authorize_step_idt g cl h a c now t :
  r_idt (authorize_step g cl h a c now) = Some t ->
  let r := authorize_step g cl h a c now in
  has_openid (a_granted a) = true /\ fget "nonce" (a_form a) <> "" /\
  validate_prompt g (cl_public cl) (a_redirect_secure a) (a_form a) (a_parsed a) c now = None /\
  r_err r = None /\
  exists c1,
    same_but_hashes c1 c /\
    c_at c1 = (if r_at r then HOf (hash_of_hdr h) (a_token a) else c_at c) /\
    c_ch c1 = (if r_code r then HOf (hash_of_hdr h) (a_code a) else c_ch c) /\
    generate g (cl_id cl) (eff_life g cl GImplicit) (a_form a) (a_parsed a) c1 now = (r_claims r, OTok t).
Proof.
  unfold authorize_step.
  destruct (args_exact_one (a_rts a) "code"); [now rewrite authorize_code_no_idt|].
  destruct (args_exact_one (a_rts a) "token").
  { destruct (args_has (cl_grants cl) ["implicit"]); [|easy]. now destruct (a_scopes_ok a). }
  destruct (has_openid (a_granted a) && _ && negb (args_has (a_rts a) ["code"])) eqn:Ei.
  - intros H. apply authorize_implicit_idt in H. destruct H as (_ & Hn & Hv & c2 & Hg & ->).
    apply andb_true_iff in Ei. destruct Ei as [Ei _]. apply andb_true_iff in Ei. destruct Ei as [Eo _].
    cbn [r_err r_at r_code r_claims r_idt r_stored]. repeat split; try assumption.
    eexists. split; [|split; [|split; [|exact Hg]]].
    + destruct (args_has (a_rts a) ["token"]); [apply same_set_at|apply same_refl].
    + now destruct (args_has (a_rts a) ["token"]).
    + now destruct (args_has (a_rts a) ["token"]).
  - destruct (Nat.leb 2 (List.length (a_rts a)) && _); [|easy].
    intros H. apply authorize_hybrid_idt in H. destruct H as (Eo & Hn & Hv & c3 & Hg & ->).
    cbn [r_err r_at r_code r_claims r_idt r_stored]. repeat split; try assumption.
    eexists. split; [|split; [|split; [|exact Hg]]].
    + cbn zeta. destruct (args_has (a_rts a) ["token"]); now repeat split.
    + cbn zeta. now destruct (args_has (a_rts a) ["token"]).
    + cbn zeta. now destruct (args_has (a_rts a) ["token"]).
Qed.

(* token endpoint: code redemption *)
Lemma redeem_step_idt g cl h st at_ c now t :
  x_idt (redeem_step g cl h st at_ c now) = Some t ->
  exists s c2, st = Some s /\ has_openid (s_granted s) = true /\
    generate g (cl_id (s_client s)) (eff_life g cl GCode) (s_form s) (s_parsed s)
             (set_at c (HOf (hash_of_hdr h) at_)) now = (c2, OTok t) /\
    redeem_step g cl h st at_ c now = mkTres None (Some t) c2.
Proof.
  unfold redeem_step. destruct st as [s|]; [|easy].
  destruct (has_openid (s_granted s)) eqn:Eo; [|easy]. cbn [negb].
  destruct (args_has (cl_grants cl) ["authorization_code"]); [|easy]. cbn [negb].
  destruct (String.eqb (c_sub c) ""); [easy|].
  destruct (generate _ _ _ _ _ _ _) as [c2 [e|t']] eqn:Eg; [easy|].
  cbn. intros H. inversion H; subst. now exists s, c2.
Qed.

Lemma device_step_idt g cl h st at_ c now t :
  x_idt (device_step g cl h st at_ c now) = Some t ->
  exists s c2, st = Some s /\ has_openid (s_granted s) = true /\
    generate g (cl_id (s_client s)) (eff_life g cl GDevice) (s_form s) (s_parsed s)
             (set_at c (HOf (hash_of_hdr h) at_)) now = (c2, OTok t) /\
    device_step g cl h st at_ c now = mkTres None (Some t) c2.
Proof.
  unfold device_step.
  destruct (args_has (cl_grants cl) _); [|easy]. cbn [negb].
  destruct st as [s|]; [|easy].
  destruct (has_openid (s_granted s)) eqn:Eo; [|easy]. cbn [negb].
  destruct (String.eqb (c_sub c) ""); [easy|].
  destruct (generate _ _ _ _ _ _ _) as [c2 [e|t']] eqn:Eg; [easy|].
  cbn. intros H. inversion H; subst. now exists s, c2.
Qed.

Definition refresh_claims (h : hdr) (at_ : nat) (c : claims) (now : Z) : claims :=
  set_iat (set_ch (set_jti (set_at (refresh_reset c) (HOf (hash_of_hdr h) at_)) true) HNone) (Some now).

Lemma refresh_step_idt g cl h granted f at_ c now t :
  x_idt (refresh_step g cl h granted f at_ c now) = Some t ->
  has_openid granted = true /\
  exists c2,
    generate g (cl_id cl) (eff_life g cl GRefresh) f (mkParsed 0 HintAbsent) (refresh_claims h at_ c now) now = (c2, OTok t) /\
    refresh_step g cl h granted f at_ c now = mkTres None (Some t) c2.
Proof.
  unfold refresh_step. fold (refresh_claims h at_ c now).
  destruct (has_openid granted); [|easy]. cbn [negb].
  destruct (args_has (cl_grants cl) ["refresh_token"]); [|easy]. cbn [negb].
  destruct (String.eqb (c_sub (refresh_reset c)) ""); [easy|].
  destruct (generate _ _ _ _ _ _ _) as [c2 [e|t']] eqn:Eg; [easy|].
  cbn. intros H. inversion H; subst. split; [reflexivity|]. now exists c2.
Qed.
