(* C20, second half: what reaches the storage interface.  Theorems about Request.Sanitize, about the
   table of storage call sites (Model/Secrecy.v), the three clauses that are false of the faithful
   model, and the agreement of the string-searching monitor with the model. *)
From FositeModel Require Import Base.Str Model.Errors Model.Secrecy Cases.CasesC20.

Lemma mem_In x l : mem x l = true <-> In x l.
Proof.
  induction l as [|y r IH]; cbn; [split; [discriminate|tauto]|].
  destruct (String.eqb_spec x y) as [->|N]; [tauto|]. rewrite IH. split; [tauto|]. intros [E|H]; [congruence|assumption].
Qed.

(* Request.Sanitize keeps exactly the white-listed keys, with their values untouched *)
Theorem sanitize_spec allowed form k vs :
  In (k, vs) (sanitize_form allowed form) <-> In (k, vs) form /\ In k allowed.
Proof. unfold sanitize_form. rewrite filter_In. cbn [fst]. rewrite mem_In. reflexivity. Qed.

(* no secret-bearing parameter survives a white-list that names none *)
Theorem sanitize_drops_secrets src allowed form :
  existsb (secret_param src) allowed = false ->
  forall k vs, In (k, vs) (sanitize_form allowed form) -> secret_param src k = false.
Proof.
  intros H k vs I. apply sanitize_spec in I as [_ I].
  destruct (secret_param src k) eqn:E; [|reflexivity].
  assert (existsb (secret_param src) allowed = true) by (apply existsb_exists; eauto). congruence.
Qed.

(* ---------------------------------------------------------------- the call-site table, by reflection *)
Definition oidc_methods : list string :=
  ["CreateOpenIDConnectSession"; "GetOpenIDConnectSession"; "DeleteOpenIDConnectSession"].

Definition form_ok (s : site) : bool :=
  match st_form s with
  | NoForm => true
  | Sanitized wl => forallb (fun src => negb (existsb (secret_param src) (wl ++ default_allowed))) (st_src s)
  | RawForm => String.eqb (st_method s) "CreatePARSession"
  end.
Definition key_ok (s : site) : bool :=
  match st_key s with
  | KeyOpaque => true
  | KeyComplete _ => mem (st_method s) oidc_methods
  end.

Lemma site_table_checked : forallb (fun s => form_ok s && key_ok s) site_table = true.
Proof. vm_compute. reflexivity. Qed.

Lemma site_of_in m src s : site_of m src = Some s ->
  In s site_table /\ st_method s = m /\ existsb (endpoint_eqb src) (st_src s) = true.
Proof.
  unfold site_of. intros H. apply find_some in H as [I M]. unfold site_matches in M.
  apply andb_true_iff in M as [M1 M2]. apply String.eqb_eq in M1. auto.
Qed.

Lemma endpoint_eqb_eq a b : endpoint_eqb a b = true -> a = b.
Proof. destruct a, b; cbn; congruence. Qed.

(* Every storage call site other than CreatePARSession stores a request form without any
   secret-bearing parameter, whatever the request form contains. *)
Theorem stored_forms_secret_free m src s input f k vs :
  site_of m src = Some s -> m <> "CreatePARSession" ->
  expected_form s input = Some f -> In (k, vs) f -> secret_param src k = false.
Proof.
  intros S N E I. apply site_of_in in S as (Is & Em & Esrc).
  pose proof site_table_checked as T. rewrite forallb_forall in T. specialize (T s Is).
  apply andb_true_iff in T as [T _]. unfold form_ok in T. unfold expected_form in E.
  destruct (st_form s) as [|wl|]; [discriminate| |].
  - injection E as <-. rewrite forallb_forall in T.
    apply existsb_exists in Esrc as [src' [I' E']]. apply endpoint_eqb_eq in E'. subst src'.
    specialize (T src I'). apply negb_true_iff in T.
    eapply sanitize_drops_secrets; eauto.
  - apply String.eqb_eq in T. congruence.
Qed.

(* Every storage call site outside the three OpenID Connect session methods is keyed by a
   signature or an identifier, never by a complete credential. *)
Theorem storage_keys_opaque m src s :
  site_of m src = Some s -> ~ In m oidc_methods -> st_key s = KeyOpaque.
Proof.
  intros S N. apply site_of_in in S as (Is & Em & _).
  pose proof site_table_checked as T. rewrite forallb_forall in T. specialize (T s Is).
  apply andb_true_iff in T as [_ T]. unfold key_ok in T.
  destruct (st_key s); [reflexivity|]. apply mem_In in T. congruence.
Qed.

(* The three clauses that are false of the faithful model (and of the code): *)
Theorem oidc_session_keyed_by_full_code_refuted :
  exists s, site_of "CreateOpenIDConnectSession" EAuthorize = Some s /\ st_key s = KeyComplete "authorization_code".
Proof. eexists. split; reflexivity. Qed.

(* the device flow's OpenID Connect session is looked up and deleted under the device-code signature
   (true since the repair recorded as fixed: oidc_device_delete_full_code) *)
Theorem oidc_device_session_keyed_by_signature m s :
  In m oidc_methods -> site_of m ETokenDevice = Some s -> st_key s = KeyOpaque.
Proof.
  intros I S. cbn in I. destruct I as [<-|[<-|[<-|[]]]]; cbn in S; try discriminate; injection S as <-; reflexivity.
Qed.

Theorem par_stores_raw_form_refuted :
  exists s input f, site_of "CreatePARSession" EPar = Some s /\ expected_form s input = Some f /\
                    In ("client_secret", ["the secret"]) f /\ secret_param EPar "client_secret" = true.
Proof.
  eexists. exists [("client_id", ["c"]); ("client_secret", ["the secret"])]. eexists.
  split; [reflexivity|]. split; [reflexivity|]. split; [cbn; auto|reflexivity].
Qed.

(* non-vacuity: a sanitised site with a hostile form *)
Example sanitised_site_example :
  exists s, site_of "CreateAccessTokenSession" ETokenCode = Some s /\
            expected_form s [("grant_type", ["authorization_code"]); ("code", ["c.sig"]); ("code_verifier", ["v"]);
                             ("client_secret", ["s"]); ("client_id", ["c"])]
            = Some [("grant_type", ["authorization_code"]); ("client_id", ["c"])].
Proof. eexists. split; reflexivity. Qed.

(* ---------------------------------------------------------------- the scanner and the sanitiser *)
Lemma flat_map_nil {A B} (f : A -> list B) l : (forall x, In x l -> f x = []) -> flat_map f l = [].
Proof. induction l as [|x r IH]; cbn; [reflexivity|]. intros H. rewrite (H x) by auto. cbn. apply IH. auto. Qed.

(* If the recognisable secrets occur in the request form only under parameters that are not
   white-listed, the string search finds nothing in the stored (sanitised) form. *)
Theorem sanitised_form_scans_clean secs allowed input :
  (forall k vs, In (k, vs) input -> In k allowed ->
     leaks_in secs k = [] /\ forall v, In v vs -> leaks_in secs v = []) ->
  scan_form secs (Some (sanitize_form allowed input)) = [].
Proof.
  intros H. cbn [scan_form]. apply flat_map_nil. intros [k vs] I.
  apply sanitize_spec in I as [I A]. destruct (H k vs I A) as [Hk Hv]. cbn [fst snd].
  rewrite Hk. cbn. apply flat_map_nil. exact Hv.
Qed.

(* ---------------------------------------------------------------- the storage monitor and the model *)
Definition model_call_tags (c : scall) : list string :=
  if exempt (sc_method c) then []
  else match site_of (sc_method c) (sc_src c) with
       | Some s => call_tags (model_key_leak s) (nonnil (model_form_leak (sc_src c) s (sc_input c))) (sc_method c)
       | None => []
       end.
Definition model_store_tag (log : list scall) : option string := prioritise (flat_map model_call_tags log).

Lemma ostr_eqb_eq a b : ostr_eqb a b = true -> a = b.
Proof. destruct a, b; cbn; try congruence. intros H. apply String.eqb_eq in H. congruence. Qed.

Lemma corr_call_none secs c :
  corr_call secs c = None ->
  (if exempt (sc_method c) then []
   else call_tags (scan_keys secs (sc_keys c))
                  (match scan_form secs (sc_form c) with [] => false | _ => true end) (sc_method c))
  = model_call_tags c.
Proof.
  unfold corr_call, model_call_tags. destruct (site_of (sc_method c) (sc_src c)) as [s|]; [|discriminate].
  destruct (negb (ovalues_eqb _ _)); [discriminate|].
  destruct (exempt (sc_method c)); [reflexivity|].
  destruct (negb (ostr_eqb (model_key_leak s) (scan_keys secs (sc_keys c)))) eqn:K; [discriminate|].
  destruct (negb (Bool.eqb _ _)) eqn:F; [discriminate|]. intros _.
  apply negb_false_iff in K. apply ostr_eqb_eq in K. apply negb_false_iff in F. apply Bool.eqb_prop in F.
  rewrite <- K, F. unfold nonnil. destruct (scan_form secs (sc_form c)); reflexivity.
Qed.

(* whenever the recorded storage traffic matches the model, the monitor's verdict is the model's *)
Theorem store_monitor_on_model secs log :
  corr_store secs log = None -> mon_store secs log = model_store_tag log.
Proof.
  unfold corr_store, mon_store, model_store_tag. intros H. f_equal.
  induction log as [|c log IH]; [reflexivity|]. cbn [flat_map] in *.
  destruct (corr_call secs c) eqn:C; [discriminate|]. cbn [opt_list app] in H.
  rewrite (corr_call_none secs c C), IH by exact H. reflexivity.
Qed.

(* ... and the model's verdict is either "nothing leaks" or one of the three recorded findings *)
Definition site_tags_known (s : site) : bool :=
  forallb (fun fl => forallb known_tag (call_tags (model_key_leak s) fl (st_method s)))
          (match st_form s with RawForm => [true; false] | _ => [false] end).

Lemma site_tags_checked : forallb site_tags_known site_table = true.
Proof. vm_compute. reflexivity. Qed.

Lemma model_form_leak_nil src s m input :
  site_of m src = Some s -> st_form s <> RawForm -> model_form_leak src s input = [].
Proof.
  intros S N. unfold model_form_leak. destruct (expected_form s input) as [f|] eqn:E; [|reflexivity].
  assert (m <> "CreatePARSession") as Nm.
  { intros ->. apply N. clear -S. destruct src; vm_compute in S; inversion S; reflexivity. }
  assert (forall k' vs', In (k', vs') f -> secret_param src k' = false) as A
    by (intros k' vs' I; exact (stored_forms_secret_free m src s input f k' vs' S Nm E I)).
  clear E. induction f as [|[k vs] f IH]; [reflexivity|]. cbn. rewrite (A k vs) by (cbn; auto). apply IH.
  intros k2 vs2 I. apply (A k2 vs2). cbn; auto.
Qed.

Lemma model_call_tags_known c t : In t (model_call_tags c) -> known_tag t = true.
Proof.
  unfold model_call_tags. destruct (exempt (sc_method c)); [intros []|].
  destruct (site_of (sc_method c) (sc_src c)) as [s|] eqn:S; [|intros []].
  pose proof (site_of_in _ _ _ S) as (Is & Em & _).
  pose proof site_tags_checked as T. rewrite forallb_forall in T. specialize (T s Is). unfold site_tags_known in T.
  rewrite forallb_forall in T. rewrite <- Em. intros I.
  assert (In (nonnil (model_form_leak (sc_src c) s (sc_input c)))
             (match st_form s with RawForm => [true; false] | _ => [false] end)) as Hin.
  { destruct (st_form s) eqn:F.
    - rewrite (model_form_leak_nil _ _ _ _ S) by congruence. cbn; auto.
    - rewrite (model_form_leak_nil _ _ _ _ S) by congruence. cbn; auto.
    - destruct (nonnil _); cbn; auto. }
  specialize (T _ Hin). rewrite forallb_forall in T. apply T. exact I.
Qed.

Theorem model_store_tag_known log :
  match model_store_tag log with None => True | Some t => known_tag t = true end.
Proof.
  unfold model_store_tag, prioritise.
  assert (forall t, In t (flat_map model_call_tags log) -> known_tag t = true) as A.
  { intros t I. apply in_flat_map in I as [c [_ I]]. eapply model_call_tags_known; eauto. }
  destruct (filter (fun t => negb (known_tag t)) (flat_map model_call_tags log)) as [|t r] eqn:F.
  - destruct (flat_map model_call_tags log) as [|t r]; [exact I|]. apply A. cbn; auto.
  - assert (In t (filter (fun t => negb (known_tag t)) (flat_map model_call_tags log))) as I by (rewrite F; cbn; auto).
    apply filter_In in I as [I N]. rewrite (A t I) in N. discriminate.
Qed.

(* so: on storage traffic that matches the model, the monitor reports nothing or a recorded finding *)
Corollary store_monitor_only_known_findings secs log :
  corr_store secs log = None ->
  match mon_store secs log with None => True | Some t => known_tag t = true end.
Proof. intros H. rewrite (store_monitor_on_model secs log H). apply model_store_tag_known. Qed.

(* the syntactic call-site check: when the sites read from the source agree with the model's table,
   its verdict is "nothing" or a recorded finding *)
Definition model_site_ok (s : site) : bool :=
  (match st_form s with RawForm => String.eqb (st_method s) "CreatePARSession" | _ => true end)
  && (match st_key s with KeyOpaque => true | KeyComplete _ => is_oidc_method (st_method s) end).

Lemma model_sites_checked : forallb model_site_ok site_table = true.
Proof. vm_compute. reflexivity. Qed.

Lemma corr_site_known c t : corr_site c = None -> In t (mon_site c) -> known_tag t = true.
Proof.
  unfold corr_site, model_site. destruct (find _ site_table) as [s|] eqn:F; [|discriminate].
  apply find_some in F as [Is Em]. apply String.eqb_eq in Em.
  destruct (negb (Bool.eqb (cs_sanitized c) _)) eqn:A; [discriminate|].
  destruct (negb (Bool.eqb (key_expr_ok (cs_key c)) _)) eqn:B; [discriminate|]. intros _.
  apply negb_false_iff, Bool.eqb_prop in A. apply negb_false_iff, Bool.eqb_prop in B.
  pose proof model_sites_checked as T. rewrite forallb_forall in T. specialize (T s Is).
  unfold model_site_ok in T. apply andb_true_iff in T as [T1 T2]. rewrite Em in T1, T2.
  unfold mon_site. rewrite A, B. intros I. apply in_app_or in I as [I|I].
  - destruct (st_form s); [destruct I|destruct I|]. cbn [app] in I. rewrite T1 in I. destruct I as [<-|[]]. reflexivity.
  - destruct (st_key s); [destruct I|]. cbn [app] in I. rewrite T2 in I. destruct I as [<-|[]]. reflexivity.
Qed.

Theorem sites_monitor_only_known_findings l :
  corr_sites l = None ->
  match mon_sites l with None => True | Some t => known_tag t = true end.
Proof.
  unfold corr_sites, mon_sites, prioritise. intros H.
  assert (forall t, In t (flat_map mon_site l) -> known_tag t = true) as A.
  { intros t I. apply in_flat_map in I as [c [Ic I]].
    assert (corr_site c = None) as C.
    { destruct (corr_site c) eqn:E; [|reflexivity]. exfalso.
      assert (In s (flat_map (fun c => opt_list (corr_site c)) l)) as X by (apply in_flat_map; exists c; rewrite E; cbn; auto).
      destruct (flat_map (fun c => opt_list (corr_site c)) l); [destruct X|discriminate]. }
    eapply corr_site_known; eauto. }
  destruct (filter (fun t => negb (known_tag t)) (flat_map mon_site l)) as [|t r] eqn:F.
  - destruct (flat_map mon_site l) as [|t r]; [exact I|]. apply A. cbn; auto.
  - assert (In t (filter (fun t => negb (known_tag t)) (flat_map mon_site l))) as I by (rewrite F; cbn; auto).
    apply filter_In in I as [I N]. rewrite (A t I) in N. discriminate.
Qed.

(* the function-level Sanitize monitor on the model *)
Theorem sanitize_monitor_on_model a d form :
  NoDup (map fst form) -> mon_sanitize a d form (sanitize_form (a ++ d) form) = None.
Proof.
  intros ND. unfold mon_sanitize.
  assert (forall k vs (m : values), NoDup (map fst m) -> In (k, vs) m -> vget k m = vs) as G.
  { intros k vs m. induction m as [|[k' vs'] r IH]; cbn; [tauto|]. intros N [E|I].
    - injection E as -> ->. now rewrite String.eqb_refl.
    - inversion N; subst. destruct (String.eqb_spec k k') as [->|_]; [|now apply IH].
      exfalso. apply H1. change k' with (fst (k', vs)). now apply in_map. }
  assert (NoDup (map fst (sanitize_form (a ++ d) form))) as ND'.
  { unfold sanitize_form. clear G. induction form as [|[k vs] r IH]; cbn; [constructor|].
    inversion ND; subst. destruct (mem k (a ++ d)); [|now apply IH]. cbn. constructor; [|now apply IH].
    intros I. apply H1. apply in_map_iff in I as [[k' vs'] [E I]]. cbn in E. subst k'.
    apply filter_In in I as [I _]. change k with (fst (k, vs')). now apply in_map. }
  assert (forallb (fun kv => mem (fst kv) (a ++ d) && slist_eqb idn (snd kv) (vget (fst kv) form))
                  (sanitize_form (a ++ d) form) = true) as ->.
  { apply forallb_forall. intros [k vs] I. cbn [fst snd]. apply sanitize_spec in I as [I A].
    apply mem_In in A. rewrite A, (G k vs form ND I). cbn. unfold slist_eqb.
    clear. induction vs; cbn; [reflexivity|]. now rewrite String.eqb_refl. }
  assert (forallb (fun kv => negb (mem (fst kv) (a ++ d)) || slist_eqb idn (snd kv) (vget (fst kv) (sanitize_form (a ++ d) form)))
                  form = true) as ->.
  { apply forallb_forall. intros [k vs] I. cbn [fst snd]. destruct (mem k (a ++ d)) eqn:M; [|reflexivity]. cbn.
    assert (In (k, vs) (sanitize_form (a ++ d) form)) as I' by (apply sanitize_spec; split; [assumption|now apply mem_In]).
    rewrite (G k vs _ ND' I'). unfold slist_eqb. clear. induction vs; cbn; [reflexivity|]. now rewrite String.eqb_refl. }
  reflexivity.
Qed.
