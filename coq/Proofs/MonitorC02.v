(* C02: the acceptance clauses of the history monitor (Cases/Monitors.v judge_C02: "redeemed by a foreign client /
   without client authentication / with a redirect_uri that differs from the authorization request / with a token
   response whose scope differs from the grant") are sound for the model: for every configuration and state and every
   tracker whose view of the presented code (client, redirect_uri, granted scopes) is the stored authorization
   request's, the only alarm the judge can raise on an accepted model redemption is the clock clause, which compares
   two tracker-side clock readings. *)
From FositeModel Require Import Base.Str Model.Scope Model.Core Model.Flows Cases.Common Cases.CasesHist Cases.Monitors
     Proofs.CoreInv Proofs.StepInv Proofs.StepProps Proofs.MonitorC12H.

Theorem judge_C02_acceptance_clauses_sound cfg m s auth code redirect v vh sm pr i c :
  cred m code = Some (i, c) ->
  (forall k r, key_of s code = Some k -> codes (st s) k = Some (true, r) ->
     ci_client c = r_client r /\ ci_redirect c = r_redirect r /\ ci_scopes c = r_gscopes r) ->
  let o := ORedeem auth code redirect v vh sm in
  o_err (snd (step cfg s o)) = "" ->
  let verdict := fst (fst (judge_C02 cfg m o (snd (step cfg s o)) pr)) in
  verdict = None \/ verdict = Some "code_redeemed_after_its_expiry".
Proof.
  intros Hc Hv o E. subst o. cbn [step judge_C02] in *. rewrite Hc, E. cbn [String.eqb].
  destruct (redeem_ok_facts cfg s auth code redirect v vh E) as [k [r [cl [F [Hsc _]]]]].
  destruct F as [Fk Fa _ Fc _ _ Fr _ _].
  destruct (Hv k r Fk Fa) as [V1 [V2 V3]]. subst auth. rewrite V1, Nat.eqb_refl.
  destruct (Z.ltb _ _); [right; reflexivity|left].
  rewrite V2. cbn zeta in Hsc. rewrite Hsc, V3, list_eqb_refl.
  destruct Fr as [Fr|Fr]; rewrite Fr.
  - reflexivity.
  - rewrite String.eqb_refl. cbn [negb]. rewrite Bool.andb_false_r. reflexivity.
Qed.
