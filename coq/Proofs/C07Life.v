(* C07, last clause: per-client lifetime overrides take precedence over the server defaults exactly for
   their grant / token-type pair. *)
From FositeModel Require Import Base.Str Model.Scope Model.Core Model.Flows Proofs.CoreInv Proofs.StepInv Proofs.Family Proofs.Decay Proofs.StepProps Proofs.C16Proofs Proofs.C17Proofs Proofs.C12Flows.

(* each (grant, token type) pair reads its own field of the table and no other *)
Theorem override_reads_its_own_field cl l :
  cl_life cl = Some l ->
  override cl LAuthCode false = lf_ac_at l /\ override cl LAuthCode true = lf_ac_rt l /\
  override cl LClientCreds false = lf_cc_at l /\ override cl LClientCreds true = None /\
  override cl LImplicit false = lf_im_at l /\ override cl LImplicit true = None /\
  override cl LPassword false = lf_pw_at l /\ override cl LPassword true = lf_pw_rt l /\
  override cl LRefresh false = lf_rt_at l /\ override cl LRefresh true = lf_rt_rt l /\
  override cl LDevice false = None /\ override cl LDevice true = None.
Proof. intros H. unfold override. rewrite H. repeat split. Qed.

Theorem no_table_no_override cl g rt : cl_life cl = None -> override cl g rt = None.
Proof. intros H. unfold override. now rewrite H. Qed.

Theorem override_takes_precedence v d : eff (Some v) d = v /\ eff None d = d.
Proof. split; reflexivity. Qed.

(* only the two token lifetimes of the effective configuration can differ from the server's *)
Theorem eff_cfg_touches_only_token_lifetimes cfg cl g :
  let c := eff_cfg cfg cl g in
  cf_life_at c = eff (override cl g false) (cf_life_at cfg) /\ cf_life_rt c = eff (override cl g true) (cf_life_rt cfg) /\
  cf_life_code c = cf_life_code cfg /\ cf_life_dev c = cf_life_dev cfg /\ cf_par_life c = cf_par_life cfg /\
  cf_scope c = cf_scope cfg /\ cf_aud_exact c = cf_aud_exact cfg /\ cf_refresh_scopes c = cf_refresh_scopes cfg /\
  cf_pkce_enforce c = cf_pkce_enforce cfg /\ cf_pkce_enforce_public c = cf_pkce_enforce_public cfg /\ cf_pkce_plain c = cf_pkce_plain cfg /\
  cf_introspect_rt c = cf_introspect_rt cfg /\ cf_par_enforced c = cf_par_enforced cfg.
Proof. cbn. repeat split. Qed.

(* the flows: which pair each one reads *)
Theorem redeem_lifetimes cfg s auth code redirect v vh :
  o_err (snd (redeem cfg s auth code redirect v vh)) = "" ->
  exists c cl ka r, auth = Some c /\ clients s c = Some cl /\
    access (st (fst (redeem cfg s auth code redirect v vh))) ka = Some r /\
    s_exp_at (r_sess r) = Some (round_s (now s + eff (override cl LAuthCode false) (cf_life_at cfg))) /\
    (0 <= eff (override cl LAuthCode true) (cf_life_rt cfg) ->
     s_exp_rt (r_sess r) = Some (round_s (now s + eff (override cl LAuthCode true) (cf_life_rt cfg))))%Z.
Proof.
  intros H. destruct (redeem_ok_facts cfg s auth code redirect v vh H) as [k [r [cl [F [_ [_ [[ka Ha] _]]]]]]].
  destruct F. exists (r_client r), cl, ka, (minted_record (eff_cfg cfg cl LAuthCode) s r cl).
  repeat split; try assumption.
  intros Hpos. cbn. apply Z.leb_le in Hpos. now rewrite Hpos.
Qed.

Theorem refresh_lifetimes cfg s auth tok :
  o_err (snd (refresh_flow cfg s auth tok)) = "" ->
  exists c cl ka r, auth = Some c /\ clients s c = Some cl /\
    access (st (fst (refresh_flow cfg s auth tok))) ka = Some r /\
    s_exp_at (r_sess r) = Some (round_s (now s + eff (override cl LRefresh false) (cf_life_at cfg))) /\
    (0 <= eff (override cl LRefresh true) (cf_life_rt cfg) ->
     s_exp_rt (r_sess r) = Some (round_s (now s + eff (override cl LRefresh true) (cf_life_rt cfg))))%Z.
Proof.
  intros H. destruct (refresh_ok_facts cfg s auth tok H) as [k [r [cl [_ [_ [_ [Ha [Hcl [_ [_ [_ [_ [_ [_ [[ka Hka] _]]]]]]]]]]]]]]].
  exists (r_client r), cl, ka, (minted_record (eff_cfg cfg cl LRefresh) s r cl).
  repeat split; try assumption.
  intros Hpos. cbn. apply Z.leb_le in Hpos. now rewrite Hpos.
Qed.

Theorem password_lifetimes cfg s c ok sc au g ga :
  o_err (snd (password_flow cfg s (Some c) ok sc au g ga)) = "" ->
  exists cl ka r, clients s c = Some cl /\
    access (st (fst (password_flow cfg s (Some c) ok sc au g ga))) ka = Some r /\
    s_exp_at (r_sess r) = Some (round_s (now s + eff (override cl LPassword false) (cf_life_at cfg))).
Proof.
  unfold password_flow. destruct (clients s c) as [cl|]; [|discriminate].
  repeat match goal with |- context [if ?c then fail s _ else _] => destruct c; [discriminate|] end.
  match goal with |- context [fresh_grant s ?mk ?w] =>
    pose proof (fresh_grant_records s mk w) as FG; destruct (fresh_grant s mk w) as [s2 minted] end.
  cbn [fst snd] in *. intros _. destruct FG as [ka [Ha _]]. exists cl, ka. eexists. split; [reflexivity|]. split; [exact Ha|reflexivity].
Qed.

Theorem client_credentials_lifetimes cfg s c sc au g ga :
  o_err (snd (client_credentials_flow cfg s (Some c) sc au g ga)) = "" ->
  exists cl ka r, clients s c = Some cl /\
    access (st (fst (client_credentials_flow cfg s (Some c) sc au g ga))) ka = Some r /\
    s_exp_at (r_sess r) = Some (now s + eff (override cl LClientCreds false) (cf_life_at cfg))%Z.
Proof.
  unfold client_credentials_flow. destruct (clients s c) as [cl|]; [|discriminate].
  repeat match goal with |- context [if ?c then fail s _ else _] => destruct c; [discriminate|] end.
  match goal with |- context [fresh_grant s ?mk ?w] =>
    pose proof (fresh_grant_records s mk w) as FG; destruct (fresh_grant s mk w) as [s2 minted] end.
  cbn [fst snd] in *. intros _. destruct FG as [ka [Ha _]]. exists cl, ka. eexists. split; [reflexivity|]. split; [exact Ha|reflexivity].
Qed.

(* tokens from the authorization endpoint (implicit, and the hybrid flow, which inherits the implicit grant's entry) *)
Theorem implicit_lifetime cfg s cl a ec :
  s_exp_at (implicit_session cfg s cl a ec) = Some (round_s (now s + eff (override cl LImplicit false) (cf_life_at cfg))).
Proof. reflexivity. Qed.

(* the device grant has no entry: its tokens always use the server's lifetimes *)
Theorem device_poll_uses_server_lifetimes cfg s auth dev :
  o_err (snd (device_poll cfg s auth dev)) = "" ->
  exists ka r, access (st (fst (device_poll cfg s auth dev))) ka = Some r /\
    s_exp_at (r_sess r) = Some (round_s (now s + cf_life_at cfg)).
Proof.
  intros H. destruct (poll_ok_facts cfg s auth dev H) as [k [stt [r [cl F]]]].
  destruct F as [_ [_ [_ [_ [_ [_ [_ [_ [_ [_ [_ [[ka Ha] _]]]]]]]]]]]].
  exists ka, (minted_record cfg s r cl). split; [exact Ha|reflexivity].
Qed.
