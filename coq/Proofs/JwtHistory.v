(* C15 - histories: between the acceptance of an assertion carrying (jti, exp) and the instant
   exp no assertion with that jti is accepted, for all histories; a JWT-bearer grant assertion is
   accepted at most once; so is a client assertion (since fix 3e32ae1 of the library); in general a
   jti is accepted again only with a strictly later exp. *)
From FositeModel Require Import Base.Str Model.Scope Model.Assertion Proofs.JwtStore Proofs.AssertionProofs.
Local Open Scope Z_scope.

(* the (jti, exp) pairs that an accepted operation has consumed *)
Definition ca_mark (a : cassert) : list (string * Z) :=
  match ca_jti a, to_int64 (ca_exp a) with
  | JStr j, Some e => [(j, e)]
  | _, _ => []
  end.
Definition ba_mark (b : bassert) : list (string * Z) :=
  if String.eqb (ba_jti b) "" then []
  else match ba_exp b with Some e => [(ba_jti b, e)] | None => [] end.
Definition marks (o : op) (r : res) : list (string * Z) :=
  match o, r with
  | OAuth a, Acc _ _ => ca_mark a
  | OGrant ca b, Acc cid _ =>
      ((match ca with Some a => if String.eqb cid "" then [] else ca_mark a | None => [] end) ++ ba_mark b)%list
  | _, _ => []
  end.

(* the trace of a history: state before each operation, the operation, its verdict *)
Fixpoint trace (w : world) (s : state) (ops : list op) : list (state * op * res) :=
  match ops with
  | [] => []
  | o :: r => let (s1, x) := step w s o in (s, o, x) :: trace w s1 r
  end.

Lemma trace_run w ops : forall s, map (fun t => snd t) (trace w s ops) = snd (run w s ops).
Proof.
  induction ops as [|o r IH]; intros s; [reflexivity|]. cbn.
  destruct (step w s o) as [s1 x]. specialize (IH s1). destruct (run w s1 r) as [s2 xs]. cbn in *. now rewrite IH.
Qed.

(* ------------------------------------------------------------------ accepted flows and their marks *)
Lemma ca_flow_pre tus clients nw a :
  (exists e, f_pre (ca_flow tus clients nw a) = inl e) \/
  exists cid j, ca_pre tus clients nw a = inr (cid, j) /\ f_pre (ca_flow tus clients nw a) = inr (Some j) /\
                ca_jti a = JStr j /\
                f_mid (ca_flow tus clients nw a) =
                  match to_int64 (ca_exp a) with
                  | Some e => if before_now nw e then inl EInvalidClient else inr e
                  | None => inl EInvalidClient
                  end.
Proof.
  unfold ca_flow. destruct (ca_pre tus clients nw a) as [e|[cid j]] eqn:H; [left; eexists; reflexivity|].
  right. exists cid, j. apply ca_pre_iff in H as Hs.
  destruct Hs as (_ & _ & _ & _ & c & keys & rsa & k & Hs). repeat split; try reflexivity. tauto.
Qed.

Lemma client_auth_mark tus clients nw st a st' cid sub :
  client_auth tus clients nw st a = (st', Acc cid sub) ->
  exists j e, ca_mark a = [(j, e)] /\ flow_mark (ca_flow tus clients nw a) = Some (j, e) /\ nw <= e * 1000.
Proof.
  unfold client_auth. intros H. apply run_flow_acc in H as [_ H].
  destruct (ca_flow_pre tus clients nw a) as [[x Hx]|(c0 & j & _ & Hp & Hj & Hm)].
  - destruct H as [(Hp & _)|(j & e & Hp & _)]; congruence.
  - destruct H as [(Hp' & _)|(j' & e & Hp' & Hm' & _)]; [congruence|].
    rewrite Hp in Hp'. injection Hp' as <-. rewrite Hm in Hm'.
    destruct (to_int64 (ca_exp a)) as [e0|] eqn:He; [|discriminate].
    destruct (before_now nw e0) eqn:Hb; [discriminate|]. injection Hm' as <-.
    exists j, e0. unfold ca_mark, flow_mark. rewrite Hj, He, Hp, Hm. apply not_before_iff in Hb. auto.
Qed.

Lemma client_auth_cid_nonempty tus clients nw st a st' cid sub :
  client_auth tus clients nw st a = (st', Acc cid sub) -> cid <> "".
Proof.
  intros H. apply client_auth_accept_iff in H as (_ & j & e & Hpre & _).
  destruct Hpre as (_ & _ & _ & _ & c & keys & rsa & k & Hs). tauto.
Qed.

Lemma bearer_mark cfg tus iks nw st cl_id cl_grants b st' c s :
  run_flow nw st (ba_flow cfg tus iks nw cl_id cl_grants b) = (st', Acc c s) ->
  (ba_jti b = "" /\ ba_mark b = [] /\ st' = st) \/
  exists e, ba_mark b = [(ba_jti b, e)] /\ flow_mark (ba_flow cfg tus iks nw cl_id cl_grants b) = Some (ba_jti b, e)
            /\ nw <= e * 1000.
Proof.
  intros H. destruct (ba_flow_ok cfg tus iks nw cl_id cl_grants b) as [[x Hx]|(k & e & Hfacts & Hflow)].
  - unfold run_flow in H. rewrite Hx in H. discriminate.
  - destruct Hfacts as (_ & _ & _ & _ & _ & _ & _ & _ & Hspec). destruct Hspec as (_ & Hexp & Hle & _).
    rewrite Hflow in *. apply run_flow_acc in H as [_ H]. cbn [f_pre f_mid] in H. unfold ba_mark, flow_mark. cbn [f_pre f_mid].
    destruct (String.eqb_spec (ba_jti b) "").
    + left. destruct H as [(_ & -> & _)|(j & x & Hp & _)]; [auto|discriminate].
    + right. destruct H as [(Hp & _)|(j & x & Hp & Hm & _)]; [discriminate|].
      rewrite Hm, Hexp. exists e. destruct (forallb _ _); [|discriminate]. injection Hm as <-. auto.
Qed.

(* ------------------------------------------------------------------ one step *)
Lemma step_time_mono w s o : now s <= now (fst (step w s o)).
Proof.
  destruct o as [d|a|ca b]; cbn.
  - lia.
  - destruct (client_auth _ _ _ _ _); cbn; lia.
  - destruct (grant_request _ _ _ _ _); cbn; lia.
Qed.

Lemma grant_request_persist w nw st ca b st' r j e :
  jget st j = Some e -> nw <= e * 1000 -> grant_request w nw st ca b = (st', r) -> jget st' j = Some e.
Proof.
  intros Hg Hn. unfold grant_request.
  destruct (match ca with Some a => client_auth (w_tus w) (w_clients w) nw st a | None => (st, Rej EInvalidRequest) end)
    as [st1 cres] eqn:Hc.
  assert (H1 : jget st1 j = Some e).
  { destruct ca as [a|]; [|now inversion Hc; subst]. unfold client_auth in Hc. eapply run_flow_persist; eassumption. }
  destruct cres as [cid sub|x].
  - intros H. eapply run_flow_persist; eassumption.
  - destruct (negb (b_skip_auth (w_bcfg w))); intros H; [now inversion H; subst|]. eapply run_flow_persist; eassumption.
Qed.

Lemma step_persist w s o j e :
  jget (jt s) j = Some e -> now (fst (step w s o)) <= e * 1000 -> jget (jt (fst (step w s o))) j = Some e.
Proof.
  intros Hg. destruct o as [d|a|ca b]; cbn.
  - auto.
  - destruct (client_auth _ _ _ _ _) as [st' r] eqn:H. cbn. intros Hn. unfold client_auth in H. eapply run_flow_persist; eassumption.
  - destruct (grant_request _ _ _ _ _) as [st' r] eqn:H. cbn. intros Hn. eapply grant_request_persist; eassumption.
Qed.

(* what [grant_request] does when it accepts: the client part (if a client was authenticated) and
   the grant part are both accepted flows, run one after the other *)
Lemma grant_request_acc w nw st ca b st' cid sub :
  grant_request w nw st ca b = (st', Acc cid sub) ->
  exists st1 grants,
    run_flow nw st1 (ba_flow (w_bcfg w) (w_tus w) (w_ikeys w) nw cid grants b) = (st', Acc cid sub) /\
    ((cid = "" /\ forall j e, jget st j = Some e -> nw <= e * 1000 -> jget st1 j = Some e) \/
     exists a s0, ca = Some a /\ client_auth (w_tus w) (w_clients w) nw st a = (st1, Acc cid s0)).
Proof.
  unfold grant_request.
  destruct (match ca with Some a => client_auth (w_tus w) (w_clients w) nw st a | None => (st, Rej EInvalidRequest) end)
    as [st1 cres] eqn:Hc.
  destruct cres as [c0 s0|x].
  - intros H. pose proof H as H'. apply run_flow_acc in H' as [Hpost _].
    assert (c0 = cid).
    { destruct (ba_flow_ok (w_bcfg w) (w_tus w) (w_ikeys w) nw c0
                  (match find_client (w_clients w) c0 with Some c => c_grants c | None => [] end) b) as [[y Hy]|(k & e & _ & Hf)].
      - unfold run_flow in H. rewrite Hy in H. discriminate.
      - rewrite Hf in Hpost. cbn in Hpost. congruence. }
    subst c0. exists st1. eexists. split; [exact H|]. right.
    destruct ca as [a|]; [|discriminate]. eauto.
  - destruct (negb (b_skip_auth (w_bcfg w))); [discriminate|]. intros H.
    pose proof H as H'. apply run_flow_acc in H' as [Hpost _].
    assert (cid = "").
    { destruct (ba_flow_ok (w_bcfg w) (w_tus w) (w_ikeys w) nw "" [] b) as [[y Hy]|(k & e & _ & Hf)].
      - unfold run_flow in H. rewrite Hy in H. discriminate.
      - rewrite Hf in Hpost. cbn in Hpost. congruence. }
    subst cid. exists st1, []. split; [exact H|]. left. split; [reflexivity|].
    intros j e Hg Hn. destruct ca as [a|]; [|now inversion Hc; subst].
    unfold client_auth in Hc. eapply run_flow_persist; eassumption.
Qed.

(* an accepted operation leaves each of its marks in the replay memory (as long as the mark's exp
   is not already past) *)
Lemma step_establish w s o j e :
  In (j, e) (marks o (snd (step w s o))) -> now s <= e * 1000 -> jget (jt (fst (step w s o))) j = Some e.
Proof.
  destruct o as [d|a|ca b]; cbn.
  - easy.
  - destruct (client_auth _ _ _ _ _) as [st' r] eqn:H. cbn. destruct r as [cid sub|]; [|easy].
    intros Hin _. destruct (client_auth_mark _ _ _ _ _ _ _ _ H) as (j0 & e0 & Hm & Hf & _).
    rewrite Hm in Hin. destruct Hin as [[= <- <-]|[]].
    unfold client_auth in H. destruct (run_flow_mark _ _ _ _ _ _ _ _ H Hf) as [_ ->]. cbn. now rewrite String.eqb_refl.
  - destruct (grant_request _ _ _ _ _) as [st' r] eqn:H. cbn. destruct r as [cid sub|]; [|easy].
    intros Hin Hn. apply grant_request_acc in H as (st1 & grants & Hb & Hc).
    apply in_app_or in Hin as [Hin|Hin].
    + (* the client assertion's mark: written by the first flow, kept by the second *)
      destruct ca as [a|]; [|easy]. destruct (String.eqb_spec cid ""); [easy|].
      destruct Hc as [[-> _]|(a' & s0 & [= <-] & Hc)]; [easy|].
      destruct (client_auth_mark _ _ _ _ _ _ _ _ Hc) as (j0 & e0 & Hm & Hf & _).
      rewrite Hm in Hin. destruct Hin as [[= <- <-]|[]].
      unfold client_auth in Hc. destruct (run_flow_mark _ _ _ _ _ _ _ _ Hc Hf) as [_ Hst1].
      eapply run_flow_persist; [|exact Hn|exact Hb]. rewrite Hst1. cbn. now rewrite String.eqb_refl.
    + destruct (bearer_mark _ _ _ _ _ _ _ _ _ _ _ Hb) as [(_ & Hm & _)|(e0 & Hm & Hf & _)]; rewrite Hm in Hin; [easy|].
      destruct Hin as [[= <- <-]|[]].
      destruct (run_flow_mark _ _ _ _ _ _ _ _ Hb Hf) as [_ ->]. cbn. now rewrite String.eqb_refl.
Qed.

(* while a jti is remembered and the instant of its exp has not passed, no operation that would
   consume that jti is accepted *)
Lemma step_refuse w s o j e e2 :
  jget (jt s) j = Some e -> now s <= e * 1000 -> In (j, e2) (marks o (snd (step w s o))) -> False.
Proof.
  intros Hg Hn. destruct o as [d|a|ca b]; cbn.
  - easy.
  - destruct (client_auth _ _ _ _ _) as [st' r] eqn:H. cbn. destruct r as [cid sub|]; [|easy].
    intros Hin. destruct (client_auth_mark _ _ _ _ _ _ _ _ H) as (j0 & e0 & Hm & Hf & _).
    rewrite Hm in Hin. destruct Hin as [[= <- <-]|[]].
    unfold client_auth in H. unfold flow_mark in Hf.
    destruct (f_pre (ca_flow (w_tus w) (w_clients w) (now s) a)) as [|[j1|]] eqn:Hp; try discriminate.
    destruct (f_mid (ca_flow (w_tus w) (w_clients w) (now s) a)); [discriminate|]. injection Hf as -> _.
    destruct (run_flow_refused _ _ _ _ _ _ _ Hg Hn Hp H) as [x Hx]. discriminate.
  - destruct (grant_request _ _ _ _ _) as [st' r] eqn:H. cbn. destruct r as [cid sub|]; [|easy].
    intros Hin. apply grant_request_acc in H as (st1 & grants & Hb & Hc).
    apply in_app_or in Hin as [Hin|Hin].
    + destruct ca as [a|]; [|easy]. destruct (String.eqb_spec cid ""); [easy|].
      destruct Hc as [[-> _]|(a' & s0 & [= <-] & Hc)]; [easy|].
      destruct (client_auth_mark _ _ _ _ _ _ _ _ Hc) as (j0 & e0 & Hm & Hf & _).
      rewrite Hm in Hin. destruct Hin as [[= <- <-]|[]].
      unfold client_auth in Hc. unfold flow_mark in Hf.
      destruct (f_pre (ca_flow (w_tus w) (w_clients w) (now s) a)) as [|[j1|]] eqn:Hp; try discriminate.
      destruct (f_mid (ca_flow (w_tus w) (w_clients w) (now s) a)); [discriminate|]. injection Hf as -> _.
      destruct (run_flow_refused _ _ _ _ _ _ _ Hg Hn Hp Hc) as [x Hx]. discriminate.
    + assert (Hg1 : jget st1 j = Some e).
      { destruct Hc as [[_ Hk]|(a & s0 & -> & Hc)]; [now apply Hk|].
        unfold client_auth in Hc. eapply run_flow_persist; eassumption. }
      destruct (bearer_mark _ _ _ _ _ _ _ _ _ _ _ Hb) as [(_ & Hm & _)|(e0 & Hm & Hf & _)]; rewrite Hm in Hin; [easy|].
      destruct Hin as [[= <- <-]|[]]. unfold flow_mark in Hf.
      destruct (f_pre (ba_flow (w_bcfg w) (w_tus w) (w_ikeys w) (now s) cid grants b)) as [|[j1|]] eqn:Hp; try discriminate.
      destruct (f_mid (ba_flow (w_bcfg w) (w_tus w) (w_ikeys w) (now s) cid grants b)); [discriminate|]. injection Hf as -> _.
      destruct (run_flow_refused _ _ _ _ _ _ _ Hg1 Hn Hp Hb) as [x Hx]. discriminate.
Qed.

(* ------------------------------------------------------------------ along a history *)
Lemma trace_mono w ops : forall s k sk ok rk,
  nth_error (trace w s ops) k = Some (sk, ok, rk) -> now s <= now sk.
Proof.
  induction ops as [|o r IH]; intros s k sk ok rk; [destruct k; discriminate|].
  cbn. destruct (step w s o) as [s1 x] eqn:Hs. destruct k as [|k]; cbn.
  - intros [= <- _ _]. lia.
  - intros H. apply IH in H. pose proof (step_time_mono w s o) as Hm. rewrite Hs in Hm. cbn in Hm. lia.
Qed.

Lemma trace_persist w ops : forall s k sk ok rk j e,
  jget (jt s) j = Some e -> nth_error (trace w s ops) k = Some (sk, ok, rk) -> now sk <= e * 1000 ->
  jget (jt sk) j = Some e.
Proof.
  induction ops as [|o r IH]; intros s k sk ok rk j e Hg; [destruct k; discriminate|].
  cbn. destruct (step w s o) as [s1 x] eqn:Hs. destruct k as [|k]; cbn.
  - intros [= <- _ _] _. assumption.
  - intros H Hn. eapply IH; [|exact H|exact Hn].
    pose proof (step_persist w s o j e Hg) as Hp. rewrite Hs in Hp. cbn in Hp. apply Hp.
    apply trace_mono in H. lia.
Qed.

(* Between the acceptance of an assertion carrying (j, e1) and the instant e1, no assertion
   carrying j is accepted: a later acceptance lies strictly after e1.  All histories, all positions. *)
Theorem jti_window w ops : forall s i k si oi ri sk ok rk j e1 e2,
  nth_error (trace w s ops) i = Some (si, oi, ri) ->
  nth_error (trace w s ops) k = Some (sk, ok, rk) -> (i < k)%nat ->
  In (j, e1) (marks oi ri) -> In (j, e2) (marks ok rk) ->
  e1 * 1000 < now sk.
Proof.
  induction ops as [|o r IH]; intros s i k si oi ri sk ok rk j e1 e2; [destruct i; discriminate|].
  cbn. destruct (step w s o) as [s1 x] eqn:Hs. destruct i as [|i]; destruct k as [|k]; cbn; try lia.
  - intros [= <- <- <-] Hk _ H1 H2.
    destruct (Z.lt_ge_cases (e1 * 1000) (now sk)) as [|Hle]; [assumption|exfalso].
    pose proof (trace_mono _ _ _ _ _ _ _ Hk) as Hm1.
    pose proof (step_time_mono w s o) as Hm0. rewrite Hs in Hm0. cbn in Hm0.
    assert (Hg : jget (jt s1) j = Some e1).
    { pose proof (step_establish w s o j e1) as He. rewrite Hs in He. cbn in He. apply He; [assumption|lia]. }
    pose proof (trace_persist _ _ _ _ _ _ _ _ _ Hg Hk Hle) as Hgk.
    (* the k-th element of the trace is produced by [step] from sk *)
    clear - Hk Hgk Hle H2. revert s1 k Hk. induction r as [|o' r' IHr]; intros s1 k Hk; [destruct k; discriminate|].
    cbn in Hk. destruct (step w s1 o') as [s2 y] eqn:Hs2. destruct k as [|k]; cbn in Hk.
    + injection Hk as <- <- <-. pose proof (step_refuse w s1 o' j e1 e2 Hgk Hle) as Hr. rewrite Hs2 in Hr. cbn in Hr. auto.
    + eapply IHr; eassumption.
  - intros Hi Hk Hlt. eapply IH; try eassumption. lia.
Qed.

(* ------------------------------------------------------------------ at most once *)
(* the JWT-bearer grant refuses an assertion after the instant of its own exp ... *)
Lemma grant_accept_unexpired w s ca b cid sub :
  snd (step w s (OGrant ca b)) = Acc cid sub ->
  ba_jti b = "" \/ exists e, ba_mark b = [(ba_jti b, e)] /\ now s <= e * 1000.
Proof.
  cbn. destruct (grant_request _ _ _ _ _) as [st' r] eqn:H. cbn. intros ->.
  apply grant_request_acc in H as (st1 & grants & Hb & _).
  destruct (bearer_mark _ _ _ _ _ _ _ _ _ _ _ Hb) as [(Hm & _)|(e0 & Hm & _ & Hle)]; [now left|right; eauto].
Qed.

(* ... hence one grant assertion (fixed jti and exp) is accepted at most once in any history *)
Theorem bearer_assertion_once w ops s i k si ri sk rk ca1 ca2 b c1 s1 c2 s2 :
  nth_error (trace w s ops) i = Some (si, OGrant ca1 b, ri) ->
  nth_error (trace w s ops) k = Some (sk, OGrant ca2 b, rk) -> (i < k)%nat ->
  ba_jti b <> "" ->
  ri = Acc c1 s1 -> rk = Acc c2 s2 -> False.
Proof.
  intros Hi Hk Hlt Hj -> ->.
  assert (Hr : snd (step w sk (OGrant ca2 b)) = Acc c2 s2).
  { clear - Hk. revert s k Hk. induction ops as [|o r IH]; intros s k Hk; [destruct k; discriminate|].
    cbn in Hk. destruct (step w s o) as [s1 x] eqn:Hs. destruct k; cbn in Hk.
    - injection Hk as <- <- <-. now rewrite Hs.
    - eapply IH; eassumption. }
  destruct (grant_accept_unexpired _ _ _ _ _ _ Hr) as [Hm|(e & Hm & Hle)].
  - contradiction.
  - assert (Hin1 : In (ba_jti b, e) (marks (OGrant ca1 b) (Acc c1 s1))) by (cbn; apply in_or_app; right; rewrite Hm; now left).
    assert (Hin2 : In (ba_jti b, e) (marks (OGrant ca2 b) (Acc c2 s2))) by (cbn; apply in_or_app; right; rewrite Hm; now left).
    pose proof (jti_window _ _ _ _ _ _ _ _ _ _ _ _ _ _ Hi Hk Hlt Hin1 Hin2). lia.
Qed.

(* ------------------------------------------------------------------ at most once, at full strength *)
Lemma trace_nth_step w ops : forall s k sk ok rk,
  nth_error (trace w s ops) k = Some (sk, ok, rk) -> rk = snd (step w sk ok).
Proof.
  induction ops as [|o r IH]; intros s k sk ok rk Hk; [destruct k; discriminate|].
  cbn [trace] in Hk. destruct (step w s o) as [s1 x] eqn:Hs. destruct k; cbn in Hk.
  - injection Hk as <- <- <-. now rewrite Hs.
  - eapply IH; eassumption.
Qed.

(* whatever an accepted operation consumes is not past the instant of its exp: the grant handler
   refuses an assertion with exp*1000 < now, and so does (since fix 3e32ae1) client authentication *)
Lemma step_marks_live w s o j e :
  In (j, e) (marks o (snd (step w s o))) -> now s <= e * 1000.
Proof.
  destruct o as [d|a|ca b]; cbn.
  - easy.
  - destruct (client_auth _ _ _ _ _) as [st' r] eqn:H. cbn. destruct r as [cid sub|]; [|easy].
    intros Hin. destruct (client_auth_mark _ _ _ _ _ _ _ _ H) as (j0 & e0 & Hm & _ & Hle).
    rewrite Hm in Hin. destruct Hin as [[= <- <-]|[]]. assumption.
  - destruct (grant_request _ _ _ _ _) as [st' r] eqn:H. cbn. destruct r as [cid sub|]; [|easy].
    intros Hin. apply grant_request_acc in H as (st1 & grants & Hb & Hc).
    apply in_app_or in Hin as [Hin|Hin].
    + destruct ca as [a|]; [|easy]. destruct (String.eqb_spec cid ""); [easy|].
      destruct Hc as [[-> _]|(a' & s0 & [= <-] & Hc)]; [easy|].
      destruct (client_auth_mark _ _ _ _ _ _ _ _ Hc) as (j0 & e0 & Hm & _ & Hle).
      rewrite Hm in Hin. destruct Hin as [[= <- <-]|[]]. assumption.
    + destruct (bearer_mark _ _ _ _ _ _ _ _ _ _ _ Hb) as [(_ & Hm & _)|(e0 & Hm & _ & Hle)]; rewrite Hm in Hin; [easy|].
      destruct Hin as [[= <- <-]|[]]. assumption.
Qed.

(* All histories, all positions, both kinds of assertion and mixed use of one jti: a jti that was
   accepted with exp e1 is accepted again only by an assertion with a strictly later exp (and then
   only after the instant e1).  In particular no assertion (fixed jti and exp) is accepted twice. *)
Theorem jti_once w ops s i k si oi ri sk ok rk j e1 e2 :
  nth_error (trace w s ops) i = Some (si, oi, ri) ->
  nth_error (trace w s ops) k = Some (sk, ok, rk) -> (i < k)%nat ->
  In (j, e1) (marks oi ri) -> In (j, e2) (marks ok rk) ->
  e1 < e2.
Proof.
  intros Hi Hk Hlt H1 H2.
  pose proof (jti_window _ _ _ _ _ _ _ _ _ _ _ _ _ _ Hi Hk Hlt H1 H2) as Hw.
  rewrite (trace_nth_step _ _ _ _ _ _ _ Hk) in H2. apply step_marks_live in H2. lia.
Qed.

(* one client assertion is accepted at most once in any history: before, at and after its expiry *)
Theorem client_assertion_once w ops s i k si ri sk rk a c1 s1 c2 s2 :
  nth_error (trace w s ops) i = Some (si, OAuth a, ri) ->
  nth_error (trace w s ops) k = Some (sk, OAuth a, rk) -> (i < k)%nat ->
  ri = Acc c1 s1 -> rk = Acc c2 s2 -> False.
Proof.
  intros Hi Hk Hlt -> ->.
  pose proof (trace_nth_step _ _ _ _ _ _ _ Hk) as Hr. cbn in Hr.
  destruct (client_auth (w_tus w) (w_clients w) (now sk) (jt sk) a) as [st' r] eqn:H. cbn in Hr. subst r.
  destruct (client_auth_mark _ _ _ _ _ _ _ _ H) as (j & e & Hm & _).
  assert (Hin : In (j, e) (marks (OAuth a) (Acc c1 s1))) by (cbn; rewrite Hm; now left).
  assert (Hin2 : In (j, e) (marks (OAuth a) (Acc c2 s2))) by (cbn; rewrite Hm; now left).
  pose proof (jti_once _ _ _ _ _ _ _ _ _ _ _ _ _ _ Hi Hk Hlt Hin Hin2). lia.
Qed.

(* the same when the client assertion authenticates a JWT-bearer grant request *)
Theorem client_assertion_once_any_role w ops s i k si oi ri sk ok rk j e :
  nth_error (trace w s ops) i = Some (si, oi, ri) ->
  nth_error (trace w s ops) k = Some (sk, ok, rk) -> (i < k)%nat ->
  In (j, e) (marks oi ri) -> In (j, e) (marks ok rk) -> False.
Proof.
  intros Hi Hk Hlt H1 H2. pose proof (jti_once _ _ _ _ _ _ _ _ _ _ _ _ _ _ Hi Hk Hlt H1 H2). lia.
Qed.
