(* The executable specification / monitor of Cases/CasesC10.v agrees with the model on every input:
   [spec_who] (who the request is entitled to act as, written from the property text) IS the
   client the model's authenticate accepts, and the monitor accepts the model's own observation on
   every input.  The two tags of the repaired defects (PAR client binding, class of a time-invalid
   assertion) stay in the monitor; the examples at the end show that they still fire on the
   observations the unrepaired code produced. *)
From FositeModel Require Import Base.Str Model.ClientAuth Proofs.ClientAuthProofs Cases.CasesC10.

Local Open Scope string_scope.
Local Arguments String.eqb : simpl never.

Lemma registered_lookup : forall st id, registered st id = lookup st id.
Proof.
  induction st as [|x r IH]; intros id; simpl; [reflexivity|].
  destruct (String.eqb (c_id x) id); [reflexivity|apply IH].
Qed.

Lemma presented_creds : forall rq,
  presented rq = match creds rq with inr p => Some p | inl _ => None end.
Proof.
  intros rq. unfold presented, creds, nonempty.
  destruct (r_hdr rq) as [|raw [i|] [s|]]; try reflexivity.
  destruct (String.eqb (r_fid rq) ""); reflexivity.
Qed.

Lemma permitted_violation : forall c rq, permitted c rq = negb (method_violation c rq).
Proof.
  intros c rq. unfold permitted, method_violation, secret_in_body, secret_in_header, basic_secret_nonempty.
  destruct (c_oidc c); simpl; [|reflexivity].
  destruct (nonempty (r_fid rq)), (nonempty (r_fsec rq)), (String.eqb (c_method c) m_post),
    (String.eqb (c_method c) m_basic), (String.eqb (c_method c) m_none), (c_public c);
    simpl; try reflexivity;
    destruct (r_hdr rq) as [|raw i s]; simpl; try reflexivity;
    destruct (nonempty raw); reflexivity.
Qed.

Lemma knows_secret_check : forall cmp c s, knows_secret cmp c s = check_secret cmp c s.
Proof. intros. unfold knows_secret, check_secret. simpl. now destruct (cmp (c_hash c) s). Qed.

(* the executable specification names exactly the client the model authenticates *)
Theorem spec_who_is_model : forall cmp st rq,
  spec_who cmp st rq = client_of (authenticate cmp st rq).
Proof.
  intros cmp st rq. unfold spec_who, claimed_id, authenticate.
  destruct (String.eqb (r_atype rq) jwt_bearer_type) eqn:Et.
  - (* assertion *)
    unfold auth_assertion.
    destruct (if nonempty (r_fid rq) then Some (r_fid rq) else as_sub (r_as rq)) as [cid|] eqn:Ecid.
    + rewrite registered_lookup.
      destruct (lookup st cid) as [c|] eqn:El.
      * destruct (lookup_some _ _ _ El) as [_ Hid].
        unfold entitled, valid_assertion. rewrite Et, Hid.
        destruct (r_ahas rq); simpl; [|now rewrite !andb_false_r].
        destruct (as_parse (r_as rq)); simpl; [|now rewrite !andb_false_r].
        destruct (c_oidc c); simpl; [|reflexivity].
        destruct (String.eqb (c_method c) m_pkjwt); simpl; [|reflexivity].
        assert (Hf : (String.eqb (r_fid rq) "" || String.eqb (r_fid rq) cid) = true).
        { destruct (nonempty (r_fid rq)) eqn:En.
          - inversion Ecid. rewrite String.eqb_refl. apply orb_true_r.
          - apply nonempty_false in En. rewrite En. reflexivity. }
        rewrite Hf. simpl.
        destruct (match as_key_of (r_as rq) with Some k => String.eqb k cid | None => false end);
          simpl; [|now rewrite !andb_false_r].
        destruct (as_time_ok (r_as rq)); simpl; [|now rewrite !andb_false_r].
        destruct (String.eqb (as_iss (r_as rq)) cid); simpl; [|now rewrite !andb_false_r].
        destruct (match as_sub (r_as rq) with Some s => String.eqb s cid | None => false end);
          simpl; [|reflexivity].
        destruct (as_jti (r_as rq)); simpl; [|reflexivity].
        destruct (as_jti_known (r_as rq)); simpl; [reflexivity|].
        destruct (as_aud_ok (r_as rq)); reflexivity.
      * destruct (r_ahas rq); simpl; [|reflexivity].
        destruct (as_parse (r_as rq)); reflexivity.
    + destruct (r_ahas rq); simpl; [|reflexivity].
      destruct (as_parse (r_as rq)); reflexivity.
  - rewrite presented_creds.
    destruct (nonempty (r_atype rq)) eqn:En.
    + destruct (creds rq) as [e|[i s]]; simpl; [reflexivity|].
      rewrite registered_lookup. destruct (lookup st i); [|reflexivity].
      unfold entitled. now rewrite Et, En.
    + destruct (creds rq) as [e|[i s]] eqn:Ec; simpl; [reflexivity|].
      rewrite registered_lookup. destruct (lookup st i) as [c|] eqn:El; [|reflexivity].
      destruct (lookup_some _ _ _ El) as [_ Hid].
      unfold entitled. rewrite Et, En, presented_creds, Ec, Hid, String.eqb_refl, permitted_violation, knows_secret_check.
      simpl. destruct (method_violation c rq); simpl; [reflexivity|].
      destruct (c_public c); simpl; [reflexivity|].
      destruct (check_secret cmp c s); reflexivity.
Qed.

Corollary spec_who_iff : forall cmp st rq c,
  spec_who cmp st rq = Some c <-> by_secret cmp st rq c \/ by_assertion st rq c.
Proof.
  intros. rewrite spec_who_is_model, <- authenticate_ok_iff.
  destruct (authenticate cmp st rq); simpl; split; intros H; inversion H; reflexivity.
Qed.

(* ------------------------------------------------------------------ the monitor on the model's observation *)

Definition no_empty_id (st : list client) : Prop := forall c, In c st -> c_id c <> "".

Lemma list_eqb_true : forall a b, list_eqb a b = true -> a = b.
Proof.
  induction a as [|x a IH]; destruct b as [|y b]; simpl; try easy.
  intros H. apply andb_true_iff in H. destruct H as [H1 H2]. apply String.eqb_eq in H1.
  f_equal; auto.
Qed.
Lemma list_eqb_refl : forall a, list_eqb a a = true.
Proof. induction a; simpl; [reflexivity|]. now rewrite String.eqb_refl. Qed.

Lemma err_named : forall cmp st rq e, authenticate cmp st rq = AErr e -> ecode_str e <> "".
Proof.
  intros cmp st rq e H. apply authenticate_err_class in H.
  destruct H as [X|[X|[X _]]]; subst e; easy.
Qed.

Local Arguments responsible : simpl never.
Local Arguments is_cc : simpl never.
Local Arguments skip_eval : simpl never.

Lemma token_loop_accept_calls : forall switch hs i gts a houts,
  (forall e, a = AErr e -> ecode_str e <> "") ->
  tres_str (fst (token_loop switch hs i gts a houts false)) = "" ->
  snd (token_loop switch hs i gts a houts false) <> [].
Proof.
  intros switch hs. induction hs as [|h r IH]; intros i gts a houts Hn; simpl; [easy|].
  destruct (responsible h gts); simpl; [|now apply IH].
  destruct (gate switch h a) as [e|] eqn:Eg.
  - simpl. intros H. exfalso. unfold gate in Eg. destruct a as [c|e']; [easy|].
    destruct (skip_eval switch h); [easy|]. inversion Eg; subst. now apply (Hn e).
  - destruct (if is_cc h then cc_handle (client_of a) else hout houts i).
    + destruct (token_loop switch r (S i) gts a houts true). easy.
    + destruct (token_loop switch r (S i) gts a houts false). easy.
    + easy.
Qed.

Lemma rev_loop_accept_calls : forall n i houts,
  tres_str (fst (rev_loop n i houts false)) = "" -> snd (rev_loop n i houts false) <> [].
Proof.
  induction n as [|m IH]; intros i houts; simpl; [easy|].
  destruct (hout houts i).
  - destruct (rev_loop m (S i) houts true). easy.
  - destruct (rev_loop m (S i) houts false). easy.
  - easy.
Qed.

Lemma skip_allowed_token_false : forall cf g,
  skip_allowed cf (EToken g) = false -> cf_switch cf = false \/ grant_types g <> [jwt_bearer_grant].
Proof.
  intros cf g. unfold skip_allowed. destruct (cf_switch cf); simpl; [|now left].
  intros H. right. intros E. rewrite E, list_eqb_refl in H. easy.
Qed.

Lemma rejection_class_named : forall cmp st rq e,
  authenticate cmp st rq = AErr e -> rejection_class_ok rq (ecode_str e) = true.
Proof.
  intros cmp st rq e H. apply authenticate_err_class in H.
  destruct H as [X|[X|[X [Y Z]]]]; subst e; [reflexivity|reflexivity|].
  unfold rejection_class_ok. rewrite Y, Z, String.eqb_refl. reflexivity.
Qed.

Definition par_tag : string := "par_client_id_not_bound_to_authenticated_client".
Definition time_tag : string := "assertion_time_claims_rejected_as_server_error".

Definition processed (o : obs) : bool := negb (nil_b (ob_calls o)) || String.eqb (ob_res o) "".

(* the monitor's verdict from facts about an observation *)
Lemma monitor_cases : forall cmp cf st ep rq o changed final,
  let who := client_of (authenticate cmp st rq) in
  (processed o = true -> ob_client o <> "" -> exists c, who = Some c /\ c_id c = ob_client o) ->
  (processed o = true -> ob_client o = "" -> skip_allowed cf ep = true) ->
  (who = None -> skip_allowed cf ep = false ->
     ob_calls o = [] /\ rejection_class_ok rq (ob_res o) = true) ->
  (ob_res o <> "" -> ob_calls o = [] -> changed = false) ->
  (is_cc_grant ep = true -> forall c, who = Some c -> c_public c = true -> ob_res o <> "" /\ changed = false) ->
  monitor cmp cf st ep rq o changed final = None.
Proof.
  intros cmp cf st ep rq o changed final who F1 F2 F3 F5 F6.
  unfold monitor. rewrite spec_who_is_model. fold who. fold (processed o).
  assert (C1 : processed o && nonempty (ob_client o) &&
               negb (match who with Some c => String.eqb (c_id c) (ob_client o) | None => false end) = false).
  { destruct (processed o) eqn:Ep; [|reflexivity].
    destruct (nonempty (ob_client o)) eqn:Ec; [|reflexivity]. simpl.
    destruct (F1 eq_refl (proj1 (nonempty_true _) Ec)) as [c [Hw Hid]].
    rewrite Hw, Hid, String.eqb_refl. reflexivity. }
  rewrite C1.
  assert (C2 : processed o && negb (nonempty (ob_client o)) && negb (skip_allowed cf ep) = false).
  { destruct (processed o) eqn:Ep; [|reflexivity].
    destruct (nonempty (ob_client o)) eqn:Ec; [reflexivity|]. simpl.
    rewrite (F2 eq_refl (proj1 (nonempty_false _) Ec)). reflexivity. }
  rewrite C2.
  assert (C5 : nonempty (ob_res o) && nil_b (ob_calls o) && changed = false).
  { destruct (nonempty (ob_res o)) eqn:En; [|reflexivity].
    destruct (ob_calls o) eqn:Ec; [|reflexivity]. simpl.
    apply F5; [now apply nonempty_true|reflexivity]. }
  destruct who as [c|] eqn:Ew; simpl.
  - rewrite C5.
    destruct (is_cc_grant ep) eqn:Ecc; [|reflexivity].
    destruct (c_public c) eqn:Ep; [|reflexivity]. simpl.
    destruct (F6 eq_refl c eq_refl Ep) as [A B]. subst changed.
    apply nonempty_true in A. rewrite A. apply nonempty_true in A.
    apply String.eqb_neq in A. rewrite A. reflexivity.
  - destruct (skip_allowed cf ep) eqn:Es; simpl.
    + rewrite C5. now rewrite andb_false_r.
    + destruct (F3 eq_refl eq_refl) as [A B]. rewrite A in C5. simpl in C5. rewrite A. simpl.
      rewrite B. simpl. rewrite C5. now rewrite andb_false_r.
Qed.

Lemma auth_ok_in : forall cmp st rq c, authenticate cmp st rq = AOk c -> In c st.
Proof.
  intros cmp st rq c H. apply authenticate_ok_iff in H.
  destruct H as [[_ [i [s [_ [Hl _]]]]] | [_ [_ [_ [Hl _]]]]]; now destruct (lookup_some _ _ _ Hl).
Qed.

Lemma processed_false : forall r c, r <> "" -> processed (Obs r c []) = false.
Proof. intros r c H. unfold processed. simpl. now apply String.eqb_neq. Qed.

Lemma monitor_token : forall cmp cf st g rq houts changed final,
  table_ok (cf_handlers cf) = true -> no_empty_id st ->
  let o := run_endpoint cmp cf st (EToken g) rq houts in
  (ob_res o <> "" -> (ob_calls o = [] \/ is_cc_grant (EToken g) = true) -> changed = false) ->
  monitor cmp cf st (EToken g) rq o changed final = None.
Proof.
  intros cmp cf st g rq houts changed final Ht Hne o Hch.
  apply monitor_cases.
  - (* F1 *)
    subst o. unfold run_endpoint, token_endpoint.
    destruct (grant_types g) as [|g0 gr] eqn:Eg; [intros H; now rewrite processed_false in H|].
    destruct (authenticate cmp st rq) as [c|e] eqn:Ea.
    + destruct (token_loop (cf_switch cf) (cf_handlers cf) 0 (g0 :: gr) (AOk c) houts false) as [t calls].
      simpl. intros _ Hc. exists c. split; [reflexivity|]. now destruct calls.
    + destruct (token_loop (cf_switch cf) (cf_handlers cf) 0 (g0 :: gr) (AErr e) houts false) as [t calls].
      simpl. intros _ Hc. now destruct calls.
  - (* F2 *)
    subst o. unfold run_endpoint, token_endpoint.
    destruct (grant_types g) as [|g0 gr] eqn:Eg; [intros H; now rewrite processed_false in H|].
    destruct (authenticate cmp st rq) as [c|e] eqn:Ea.
    + pose proof (token_loop_accept_calls (cf_switch cf) (cf_handlers cf) 0 (g0 :: gr) (AOk c) houts) as L.
      destruct (token_loop (cf_switch cf) (cf_handlers cf) 0 (g0 :: gr) (AOk c) houts false) as [t calls].
      simpl in *. unfold processed. simpl. intros Hp Hc. exfalso.
      destruct calls as [|i r].
      * simpl in Hp. apply String.eqb_eq in Hp. apply L; [easy|exact Hp|reflexivity].
      * apply (Hne c); [now apply auth_ok_in with cmp rq|exact Hc].
    + destruct (skip_allowed cf (EToken g)) eqn:Es; [reflexivity|].
      apply skip_allowed_token_false in Es. rewrite Eg in Es.
      destruct (token_failure_guarded cmp st (cf_switch cf) (cf_handlers cf) rq g houts e Ht Ea) as [A [B C]];
        [now rewrite Eg|].
      unfold token_endpoint in A, B, C. rewrite Eg, Ea in A, B, C.
      destruct (token_loop (cf_switch cf) (cf_handlers cf) 0 (g0 :: gr) (AErr e) houts false) as [t calls].
      simpl in *. subst calls. unfold processed. simpl. intros Hp _. exfalso.
      apply String.eqb_eq in Hp. destruct C as [C|C]; rewrite C in Hp; [now apply (err_named cmp st rq e)|easy].
  - (* F3 *)
    subst o. unfold run_endpoint, token_endpoint.
    destruct (grant_types g) as [|g0 gr] eqn:Eg; [intros _ _; split; reflexivity|].
    destruct (authenticate cmp st rq) as [c|e] eqn:Ea; [easy|].
    intros _ Es. apply skip_allowed_token_false in Es. rewrite Eg in Es.
    destruct (token_failure_guarded cmp st (cf_switch cf) (cf_handlers cf) rq g houts e Ht Ea) as [A [B C]];
      [now rewrite Eg|].
    unfold token_endpoint in A, B, C. rewrite Eg, Ea in A, B, C.
    destruct (token_loop (cf_switch cf) (cf_handlers cf) 0 (g0 :: gr) (AErr e) houts false) as [t calls].
    simpl in *. split; [exact A|].
    destruct C as [C|C]; rewrite C; [now apply rejection_class_named with cmp st|reflexivity].
  - (* F5 *) intros A B. apply Hch; auto.
  - (* F6 *)
    intros Hcc c Hw Hp. simpl in Hcc. apply list_eqb_true in Hcc.
    destruct (authenticate cmp st rq) as [c'|e] eqn:Ea; [|easy]. simpl in Hw. inversion Hw; subst c'.
    assert (R : ob_res o = "invalid_grant").
    { subst o. simpl. now apply public_never_client_credentials with c. }
    split; [now rewrite R|]. apply Hch; [now rewrite R|]. right. simpl. now rewrite Hcc.
Qed.

(* an observation "refused before any handler ran" *)
Lemma monitor_rejected : forall cmp cf st ep rq r changed final,
  r <> "" ->
  (client_of (authenticate cmp st rq) = None -> rejection_class_ok rq r = true) ->
  changed = false ->
  monitor cmp cf st ep rq (Obs r "" []) changed final = None.
Proof.
  intros cmp cf st ep rq r changed final Hr Hc Hch. apply monitor_cases; simpl.
  - intros H. now rewrite processed_false in H.
  - intros H. now rewrite processed_false in H.
  - intros Hw _. split; [reflexivity|now apply Hc].
  - intros _ _. exact Hch.
  - intros _ c _ _. split; assumption.
Qed.

(* an observation "processed in the name of the authenticated client" *)
Lemma monitor_as_authenticated : forall cmp cf st ep rq c r calls changed final,
  authenticate cmp st rq = AOk c -> c_id c <> "" -> is_cc_grant ep = false ->
  (r <> "" -> calls = [] -> changed = false) ->
  monitor cmp cf st ep rq (Obs r (c_id c) calls) changed final = None.
Proof.
  intros cmp cf st ep rq c r calls changed final Ha Hid Hcc Hch. apply monitor_cases; simpl; rewrite ?Ha; simpl.
  - intros _ _. exists c. auto.
  - intros _ H. contradiction.
  - easy.
  - exact Hch.
  - now rewrite Hcc.
Qed.

Lemma monitor_revoke : forall cmp cf st rq houts changed final,
  no_empty_id st ->
  let o := run_endpoint cmp cf st ERevoke rq houts in
  (ob_res o <> "" -> ob_calls o = [] -> changed = false) ->
  monitor cmp cf st ERevoke rq o changed final = None.
Proof.
  intros cmp cf st rq houts changed final Hne o. subst o. unfold run_endpoint, revoke_endpoint.
  destruct (authenticate cmp st rq) as [c|e] eqn:Ea.
  - pose proof (rev_loop_accept_calls (cf_nrev cf) 0 houts) as L.
    destruct (rev_loop (cf_nrev cf) 0 houts false) as [t calls]. simpl in *.
    destruct calls as [|i r]; intros Hch.
    + assert (Hr : tres_str t <> "") by (intros E; now apply L).
      apply monitor_rejected; auto. rewrite Ea. easy.
    + apply monitor_as_authenticated; auto.
      apply Hne. now apply auth_ok_in with cmp rq.
  - simpl. intros Hch. pose proof (err_named _ _ _ _ Ea) as Hn.
    apply monitor_rejected; auto. intros _. now apply rejection_class_named with cmp st.
Qed.

Lemma monitor_device : forall cmp cf st rq houts changed final,
  no_empty_id st ->
  let o := run_endpoint cmp cf st EDevice rq houts in
  (ob_res o <> "" -> ob_calls o = [] -> changed = false) ->
  monitor cmp cf st EDevice rq o changed final = None.
Proof.
  intros cmp cf st rq houts changed final Hne o. subst o. unfold run_endpoint, device_endpoint.
  destruct (authenticate cmp st rq) as [c|e] eqn:Ea.
  - destruct (String.eqb (c_id c) (r_fid rq)); simpl; intros Hch.
    + apply monitor_as_authenticated; auto. apply Hne. now apply auth_ok_in with cmp rq.
    + apply monitor_rejected; [easy | intros H; rewrite Ea in H; discriminate H | apply Hch; [easy|reflexivity]].
  - simpl. intros Hch. pose proof (err_named _ _ _ _ Ea) as Hn.
    apply monitor_rejected; auto. intros _. now apply rejection_class_named with cmp st.
Qed.

Lemma monitor_par : forall cmp cf st u rq houts changed final,
  no_empty_id st ->
  let o := run_endpoint cmp cf st (EPAR u) rq houts in
  (ob_res o <> "" -> ob_calls o = [] -> changed = false) ->
  monitor cmp cf st (EPAR u) rq o changed final = None.
Proof.
  intros cmp cf st u rq houts changed final Hne o. subst o. unfold run_endpoint, par_endpoint.
  destruct (authenticate cmp st rq) as [c|e] eqn:Ea.
  - destruct u; [simpl; intros Hch; apply monitor_rejected;
                  [easy | intros H; rewrite Ea in H; discriminate H | apply Hch; [easy|reflexivity]]|].
    destruct (lookup st (if nonempty (r_fid rq) then r_fid rq else c_id c)) as [c'|] eqn:El;
      [|simpl; intros Hch; apply monitor_rejected;
        [easy | intros H; rewrite Ea in H; discriminate H | apply Hch; [easy|reflexivity]]].
    destruct (String.eqb (c_id c') (c_id c)) eqn:Ecc; simpl; intros Hch.
    + apply String.eqb_eq in Ecc. rewrite Ecc. apply monitor_as_authenticated; auto.
      apply Hne. now apply auth_ok_in with cmp rq.
    + apply monitor_rejected; [easy | intros H; rewrite Ea in H; discriminate H | apply Hch; [easy|reflexivity]].
  - simpl. intros Hch.
    pose proof (authenticate_err_class _ _ _ _ Ea) as K.
    assert (Hp : par_err e = "invalid_client") by (destruct K as [X|[X|[X _]]]; subst e; reflexivity).
    rewrite Hp in *. apply monitor_rejected; [easy | reflexivity | apply Hch; [easy|reflexivity]].
Qed.

(* The hypothesis about [changed] states what the model's endpoint functions show structurally: a
   request refused before any handler ran has called no storage function, and the
   client-credentials handler's refusal has no storage call either. *)
Theorem monitor_accepts_model : forall cmp cf st ep rq houts changed final,
  table_ok (cf_handlers cf) = true -> no_empty_id st ->
  let o := run_endpoint cmp cf st ep rq houts in
  (ob_res o <> "" -> (ob_calls o = [] \/ is_cc_grant ep = true) -> changed = false) ->
  monitor cmp cf st ep rq o changed final = None.
Proof.
  intros cmp cf st ep rq houts changed final Ht Hne o Hch.
  destruct ep as [g| |u|].
  - now apply monitor_token.
  - apply monitor_revoke; auto.
  - apply monitor_par; auto.
  - apply monitor_device; auto.
Qed.

(* The tags of the two repaired defects are still live: on the observations that the code produced
   before commits 59b9417 / 37f391e the monitor answers with exactly these tags (whereas the model
   now produces "invalid_request" resp. "invalid_client", on which it is silent). *)
Example par_tag_still_fires :
  let st := [Cl "t" false false "" "h" []; Cl "o" false false "" "g" []] in
  let rq := Rq (HBasic "s" (Some "t") (Some "s")) "o" "" "" false no_as in
  let cmp := cmp_of [("h", "s")] in
  let cf := Cfg false [] 1 in
  monitor cmp cf st (EPAR false) rq (Obs "" "o" []) true "" = Some par_tag /\
  run_endpoint cmp cf st (EPAR false) rq [] = Obs "invalid_request" "" [].
Proof. split; vm_compute; reflexivity. Qed.

Example time_tag_still_fires :
  let st := [Cl "svc" false true m_pkjwt "" []] in
  let rq := Rq HNone "" "" jwt_bearer_type true (As true (Some "svc") "svc" (Some "svc") false true false true) in
  let cmp := cmp_of [] in
  let cf := Cfg false [] 1 in
  monitor cmp cf st ERevoke rq (Obs "error" "" []) false "error" = Some time_tag /\
  run_endpoint cmp cf st ERevoke rq [] = Obs "invalid_client" "" [].
Proof. split; vm_compute; reflexivity. Qed.


(* ------------------------------------------------------------------ client credentials in the request URI *)
(* at the token, revocation and device-authorization endpoints nothing in the request URI takes part *)
Theorem uri_credentials_ignored_outside_par cmp cf st ep rq u houts :
  is_par ep = false -> run_endpoint_uri cmp cf st ep rq u houts = run_endpoint cmp cf st ep rq houts.
Proof. destruct ep; cbn; intros H; try reflexivity; discriminate. Qed.

(* the clause "through a transport the client's registered authentication method permits" at full strength is false of
   the faithful model of the pushed-authorization endpoint (and of the code: known finding
   C10-par-credentials-from-request-uri): a request whose body and header entitle it to act as nobody is processed in
   the name of a confidential client because the secret stands in the request URI *)
Definition uri_witness_client : client := Cl "t" false true m_post "h" [].
Definition uri_witness_body : request := Rq HNone "t" "" "" false no_as.
Definition uri_witness_uri : request := Rq HNone "" "s3cr3t" "" false no_as.
Definition uri_witness_cmp (h s : string) : bool := String.eqb h "h" && String.eqb s "s3cr3t".

Theorem par_uri_credentials_refuted :
  exists cmp cf st rq u houts,
    spec_who cmp st rq = None /\
    (exists c, In c st /\ c_public c = false /\
       ob_res (run_endpoint_uri cmp cf st (EPAR false) rq u houts) = "" /\
       ob_client (run_endpoint_uri cmp cf st (EPAR false) rq u houts) = c_id c).
Proof.
  exists uri_witness_cmp, (Cfg false [] 0), [uri_witness_client], uri_witness_body, uri_witness_uri, [].
  split; [vm_compute; reflexivity|]. exists uri_witness_client. vm_compute. auto.
Qed.
