(* Declarative specifications of the scope / audience strategies (written from the README and the
   property text, not from the loops) and the proofs that the transliterated loops decide them. *)
From FositeModel Require Import Base.Str Model.Scope.

(* ------------------------------------------------------------------ split / join *)
Lemma split_nonempty sep s : split sep s <> [].
Proof.
  destruct s as [|c r]; cbn [split]; [discriminate|].
  destruct (Ascii.eqb c sep); [discriminate|].
  destruct (split sep r); discriminate.
Qed.

Lemma join_cons sep x r : r <> [] -> join sep (x :: r) = x ++ String sep (join sep r).
Proof. destruct r; [congruence|reflexivity]. Qed.

Lemma join_split sep s : join sep (split sep s) = s.
Proof.
  induction s as [|c r IH]; [reflexivity|].
  cbn [split]. destruct (Ascii.eqb_spec c sep) as [->|Hne].
  - rewrite join_cons by apply split_nonempty. cbn. now rewrite IH.
  - pose proof (split_nonempty sep r) as Hn.
    destruct (split sep r) as [|h t] eqn:E; [congruence|].
    destruct t as [|h2 t2].
    + cbn in *. now rewrite IH.
    + rewrite join_cons by discriminate. rewrite join_cons in IH by discriminate.
      cbn [append]. now rewrite IH.
Qed.

Lemma append_length a b : String.length (a ++ b) = String.length a + String.length b.
Proof. induction a as [|c a IH]; cbn; [reflexivity|now rewrite IH]. Qed.

Lemma join_app_length sep (a b : list string) :
  a <> [] -> b <> [] ->
  String.length (join sep (a ++ b)) = String.length (join sep a) + 1 + String.length (join sep b).
Proof.
  induction a as [|x a IH]; intros Ha Hb; [congruence|].
  destruct a as [|y a].
  - cbn [app]. rewrite join_cons by assumption. cbn [join]. rewrite append_length. cbn. lia.
  - change ((x :: y :: a) ++ b)%list with (x :: ((y :: a) ++ b))%list.
    rewrite join_cons by (destruct b; discriminate).
    rewrite (join_cons sep x (y :: a)) by discriminate.
    rewrite !append_length. cbn [String.length]. rewrite IH by (discriminate || assumption). lia.
Qed.

(* ------------------------------------------------------------------ exact *)
Theorem exact_strategy_spec haystack needle :
  exact_strategy haystack needle = true <-> In needle haystack.
Proof.
  unfold exact_strategy. rewrite existsb_exists. split.
  - intros [x [Hin Heq]]. apply String.eqb_eq in Heq. now subst.
  - intros Hin. exists needle. split; [assumption|apply String.eqb_refl].
Qed.

(* ------------------------------------------------------------------ hierarchic *)
Definition proper_prefix (hs ns : list string) : Prop :=
  exists rest, rest <> [] /\ ns = (hs ++ rest)%list.

Lemma hier_loop_spec hs ns : hier_loop hs ns = true <-> proper_prefix hs ns.
Proof.
  revert hs. induction ns as [|n ns IH]; intros hs; cbn [hier_loop].
  - split; [easy|]. intros [rest [Hne Heq]]. destruct hs, rest; cbn in Heq; congruence.
  - destruct hs as [|h hs].
    + split; [|reflexivity]. intros _. exists (n :: ns). split; [discriminate|reflexivity].
    + destruct (String.eqb_spec h n) as [->|Hne].
      * rewrite IH. split; intros [rest [Hr Heq]]; exists rest; split; try assumption.
        -- cbn. now rewrite Heq.
        -- cbn in Heq. congruence.
      * split; [easy|]. intros [rest [Hr Heq]]. cbn in Heq. congruence.
Qed.

Lemma proper_prefix_length sep a b :
  proper_prefix (split sep a) (split sep b) -> String.length a < String.length b.
Proof.
  intros [rest [Hr Heq]].
  rewrite <- (join_split sep a), <- (join_split sep b), Heq.
  rewrite join_app_length by (apply split_nonempty || assumption). lia.
Qed.

Definition hier_spec (this needle : string) : Prop :=
  this = needle \/ proper_prefix (split dot this) (split dot needle).

Lemma hier_one_spec this needle : hier_one this needle = true <-> hier_spec this needle.
Proof.
  unfold hier_one, hier_spec.
  destruct (String.eqb_spec this needle) as [->|Hne]; [tauto|].
  destruct (Nat.ltb_spec (String.length needle) (String.length this)) as [Hlt|Hge].
  - split; [easy|]. intros [?|Hp]; [congruence|].
    apply proper_prefix_length in Hp. lia.
  - rewrite hier_loop_spec. tauto.
Qed.

(* "a parent covers a needle iff it is equal to it or its dotted segments are a proper prefix of the needle's" *)
Theorem hierarchic_strategy_spec haystack needle :
  hierarchic_strategy haystack needle = true <-> exists this, In this haystack /\ hier_spec this needle.
Proof.
  unfold hierarchic_strategy. rewrite existsb_exists.
  split; intros [x [Hin H]]; exists x; (split; [assumption|]); now apply hier_one_spec.
Qed.

(* ------------------------------------------------------------------ wildcard *)
Definition seg_match (c n : string) : Prop :=
  if String.eqb c "*" then n <> "" else c = n.

(* "`*` matches exactly one non-empty segment; a trailing `*` matches one or more segments,
   the first of which is non-empty; every other segment must be equal." *)
Inductive wild_spec : list string -> list string -> Prop :=
| ws_nil : wild_spec [] []
| ws_trail n rest : n <> "" -> rest <> [] -> wild_spec ["*"] (n :: rest)
| ws_cons c n ms ns : seg_match c n -> wild_spec ms ns -> wild_spec (c :: ms) (n :: ns).

Lemma wild_spec_nil_l ns : wild_spec [] ns -> ns = [].
Proof. inversion 1; reflexivity. Qed.

Lemma seg_match_dec c n :
  (if is_star c && negb (is_empty n) then true else String.eqb c n) = true <-> seg_match c n.
Proof.
  unfold seg_match, is_star, is_empty.
  destruct (String.eqb_spec c "*") as [->|Hc]; cbn.
  - destruct (String.eqb_spec n "") as [->|Hn]; cbn.
    + split; [discriminate|congruence].
    + tauto.
  - destruct (String.eqb_spec c n); split; congruence.
Qed.

Lemma wild_loop_spec ms ns :
  ms <> [] -> List.length ms <= List.length ns ->
  wild_loop ms ns (Nat.eqb (List.length ms) (List.length ns)) = true <-> wild_spec ms ns.
Proof.
  revert ns. induction ms as [|c ms IH]; intros ns Hne Hlen; [congruence|].
  destruct ns as [|n ns]; [cbn in Hlen; lia|].
  destruct ms as [|c2 ms].
  - (* last matcher segment *)
    cbn [wild_loop List.length]. destruct ns as [|n2 ns].
    + cbn [List.length Nat.eqb negb andb].
      rewrite ?andb_false_r. cbn [andb].
      pose proof (seg_match_dec c n) as Hd.
      destruct (is_star c && negb (is_empty n)) eqn:E1.
      * split; [intros _; constructor; [apply Hd; reflexivity|constructor]|reflexivity].
      * destruct (String.eqb c n) eqn:E2; cbn [negb].
        -- split; [intros _; constructor; [apply Hd; reflexivity|constructor]|reflexivity].
        -- split; [easy|]. intros H. inversion H; subst.
           ++ congruence.
           ++ match goal with Hs : seg_match _ _ |- _ => apply Hd in Hs; discriminate end.
    + cbn [List.length Nat.eqb negb andb].
      unfold is_star, is_empty.
      destruct (String.eqb_spec c "*") as [->|Hc]; cbn [negb andb].
      * destruct (String.eqb_spec n "") as [->|Hn]; cbn [negb].
        -- cbn. split; [easy|]. intros H. inversion H; subst; [congruence|].
           match goal with Hs : seg_match _ _ |- _ => unfold seg_match in Hs; cbn in Hs; congruence end.
        -- split; [intros _; constructor; [assumption|discriminate]|reflexivity].
      * split; [easy|]. intros H. inversion H; subst; [congruence|].
        match goal with Hs : wild_spec [] _ |- _ => apply wild_spec_nil_l in Hs; discriminate end.
  - (* not the last matcher segment *)
    cbn [List.length] in Hlen.
    change (wild_loop (c :: c2 :: ms) (n :: ns) (Nat.eqb (List.length (c :: c2 :: ms)) (List.length (n :: ns))))
      with (if is_star c && negb (is_empty n)
            then wild_loop (c2 :: ms) ns (Nat.eqb (List.length (c2 :: ms)) (List.length ns))
            else if negb (String.eqb c n) then false
                 else wild_loop (c2 :: ms) ns (Nat.eqb (List.length (c2 :: ms)) (List.length ns))).
    pose proof (seg_match_dec c n) as Hd.
    assert (IH' := IH ns ltac:(discriminate) ltac:(cbn [List.length]; lia)).
    destruct (is_star c && negb (is_empty n)) eqn:E1.
    + rewrite IH'. split.
      * intros H. constructor; [apply Hd; reflexivity|assumption].
      * intros H. inversion H; subst. assumption.
    + destruct (String.eqb c n) eqn:E2; cbn [negb].
      * rewrite IH'. split.
        -- intros H. constructor; [apply Hd; reflexivity|assumption].
        -- intros H. inversion H; subst. assumption.
      * split; [easy|]. intros H. inversion H; subst.
        match goal with Hs : seg_match _ _ |- _ => apply Hd in Hs; discriminate end.
Qed.

Lemma wild_spec_length ms ns : wild_spec ms ns -> List.length ms <= List.length ns.
Proof. induction 1; cbn; lia. Qed.

Lemma wildcard_one_spec matcher needle :
  wildcard_one matcher needle = true <-> wild_spec (split dot matcher) (split dot needle).
Proof.
  unfold wildcard_one.
  destruct (Nat.ltb_spec (List.length (split dot needle)) (List.length (split dot matcher))) as [Hlt|Hge].
  - split; [easy|]. intros H. apply wild_spec_length in H. lia.
  - apply wild_loop_spec; [apply split_nonempty|assumption].
Qed.

Theorem wildcard_strategy_spec matchers needle :
  wildcard_strategy matchers needle = true <->
  exists m, In m matchers /\ wild_spec (split dot m) (split dot needle).
Proof.
  unfold wildcard_strategy. rewrite existsb_exists.
  split; intros [x [Hin H]]; exists x; (split; [assumption|]); now apply wildcard_one_spec.
Qed.

(* The README's examples, as a non-vacuity check of the specification itself *)
Example readme_wildcard :
  wildcard_strategy ["users.*"] "users.read" = true /\
  wildcard_strategy ["users.*"] "users.read.foo" = true /\
  wildcard_strategy ["users"] "users.read" = false /\
  wildcard_strategy ["users.read.*"] "users.read" = false /\
  wildcard_strategy ["users.*.*"] "users.read" = false /\
  wildcard_strategy ["users.*.*"] "users.read.own.other" = true /\
  wildcard_strategy ["users.*"] "users." = false.
Proof. vm_compute. repeat split. Qed.

Example readme_hierarchic :
  hierarchic_strategy ["users"] "users.read.own" = true /\
  hierarchic_strategy ["users.read"] "users.write" = false /\
  hierarchic_strategy ["users.read"] "users.readx" = false.
Proof. vm_compute. repeat split. Qed.

(* ------------------------------------------------------------------ exact audience *)
Theorem exact_audience_spec hs ns :
  exact_audience hs ns = true <-> forall n, In n ns -> In n hs.
Proof.
  unfold exact_audience. rewrite forallb_forall. split; intros H n Hn.
  - specialize (H n Hn). apply existsb_exists in H as [h [Hh He]]. apply String.eqb_eq in He. now subst.
  - apply existsb_exists. exists n. split; [auto|apply String.eqb_refl].
Qed.
