(* C15 - decision theorems: the Go-shaped functions of Model/Assertion.v accept exactly when the
   conjunction the property lists holds (specifications written from the property text and
   RFC 7523 section 3, not from the code), plus the two places where the faithful model
   does not satisfy the text (exp = 0; the second named by exp). *)
From FositeModel Require Import Base.Str Model.Scope Model.Assertion Proofs.JwtStore.
Local Open Scope Z_scope.

(* ------------------------------------------------------------------ small facts *)
Lemma existsb_nat_in n l : existsb (Nat.eqb n) l = true <-> In n l.
Proof.
  rewrite existsb_exists. split.
  - intros [x [Hx He]]. apply Nat.eqb_eq in He. now subst.
  - intros H. exists n. split; [assumption|apply Nat.eqb_refl].
Qed.

Lemma mem_in x l : mem x l = true <-> In x l.
Proof.
  induction l as [|y r IH]; cbn; [easy|].
  destruct (String.eqb_spec x y); [subst; tauto|]. rewrite IH. split; [tauto|]. intros [H|H]; [congruence|assumption].
Qed.

Lemma jstr_is_iff v s : jstr_is v s = true <-> v = JStr s.
Proof.
  destruct v; cbn; try (split; [discriminate|discriminate]).
  rewrite String.eqb_eq. split; [now intros ->|now intros [= ->]].
Qed.

(* ------------------------------------------------------------------ audience *)
(* "aud contains the token endpoint URL": aud is that string, or a list with that string as an element *)
Definition aud_contains (aud : jval) (tus : list string) : Prop :=
  exists tu, In tu tus /\ (aud = JStr tu \/ exists l, aud = JList l /\ In (Some tu) l).

Lemma aud_matches_iff aud tus : aud_matches aud tus = true <-> aud_contains aud tus.
Proof.
  unfold aud_matches, aud_contains. rewrite existsb_exists. split.
  - intros [tu [Hin H]]. exists tu. split; [assumption|]. destruct aud; cbn in H; try discriminate.
    + left. apply String.eqb_eq in H. now subst.
    + right. exists l. split; [reflexivity|]. apply existsb_exists in H as [[a|] [Ha He]]; [|discriminate].
      apply String.eqb_eq in He. now subst.
  - intros [tu [Hin [->|[l [-> Hl]]]]]; exists tu; (split; [assumption|]); cbn.
    + apply String.eqb_refl.
    + apply existsb_exists. exists (Some tu). split; [assumption|apply String.eqb_refl].
Qed.

(* ------------------------------------------------------------------ key selection *)
(* what the selection guarantees about the key: it is one of the client's registered keys, is a
   signature key of the family of the algorithm, and carries the kid of the header if there is one *)
Lemma find_public_key_sound keys kid rsa k :
  find_public_key keys kid rsa = Some k ->
  In k keys /\ k_use k = "sig" /\ k_kty k = (if rsa then KRsa else KEc) /\ (kid = "" \/ k_kid k = kid).
Proof.
  unfold find_public_key. destruct keys as [|k0 r]; [discriminate|].
  intros H. apply find_some in H as [Hin He].
  unfold key_eligible in He. apply andb_true_iff in He as [Hu Ht]. apply String.eqb_eq in Hu.
  assert (Hty : k_kty k = (if rsa then KRsa else KEc)).
  { destruct (k_kty k), rsa; cbn in Ht; congruence. }
  destruct (String.eqb_spec kid "") as [->|Hk].
  - repeat split; auto.
  - apply filter_In in Hin as [Hin Hkid]. apply String.eqb_eq in Hkid. repeat split; auto.
Qed.

(* ------------------------------------------------------------------ private_key_jwt: everything before the jti *)
Definition ca_pre_spec (tus : list string) (clients : list client) (nw : Z) (a : cassert) (cid j : string) : Prop :=
  ca_type a = assertion_type /\ ca_empty a = false /\ ca_parse a = true /\
  (* which client: client_id of the form, else the sub claim *)
  (if String.eqb (ca_form_cid a) "" then ca_sub a = JStr cid else ca_form_cid a = cid) /\
  exists c keys (rsa : bool) k,
    find_client clients cid = Some c /\ c_oidc c = true /\ c_method c = "private_key_jwt" /\
    (* the registered algorithm, and it is an asymmetric one *)
    c_alg c = ca_alg a /\ alg_class_of (ca_alg a) = (if rsa then ARsa else AEc) /\
    (* the key selected from the client's registered set; the signature verifies under it *)
    c_jwks c = Some keys /\ find_public_key keys (ca_kid a) rsa = Some k /\ In (k_kp k) (ca_ver a) /\
    claims_valid nw (ca_exp a) (ca_iat a) (ca_nbf a) = true /\
    ca_iss a = JStr cid /\ cid <> "" /\ tus <> [] /\ ca_sub a = JStr cid /\
    ca_jti a = JStr j /\ j <> "".

Lemma ca_pre_iff tus clients nw a cid j :
  ca_pre tus clients nw a = inr (cid, j) <-> ca_pre_spec tus clients nw a cid j.
Proof.
  unfold ca_pre, ca_pre_spec. split.
  - destruct (String.eqb_spec (ca_type a) assertion_type) as [Ht|]; cbn [negb]; [|discriminate].
    destruct (ca_empty a); [discriminate|].
    destruct (ca_parse a); cbn [negb]; [|discriminate].
    set (who := if String.eqb (ca_form_cid a) "" then _ else _).
    destruct who as [cid0|] eqn:Hwho; [|discriminate].
    destruct (find_client clients cid0) as [c|] eqn:Hc; [|discriminate].
    destruct (c_oidc c) eqn:Ho; cbn [negb]; [|discriminate].
    destruct (String.eqb_spec (c_method c) "private_key_jwt") as [Hm|]; cbn [negb]; [|discriminate].
    destruct (String.eqb_spec (c_alg c) (ca_alg a)) as [Ha|]; cbn [negb]; [|discriminate].
    destruct (alg_class_of (ca_alg a)) eqn:Hcls; try discriminate;
    (destruct (c_jwks c) as [keys|] eqn:Hk; [|discriminate];
     match goal with |- context [find_public_key keys (ca_kid a) ?b] => set (rsa := b) end;
     destruct (find_public_key keys (ca_kid a) rsa) as [k|] eqn:Hf; [|discriminate];
     destruct (existsb (Nat.eqb (k_kp k)) (ca_ver a)) eqn:Hv; cbn [negb]; [|discriminate];
     destruct (claims_valid nw (ca_exp a) (ca_iat a) (ca_nbf a)) eqn:Hcv; cbn [negb]; [|discriminate];
     destruct (jstr_is (ca_iss a) cid0 && negb (String.eqb cid0 "")) eqn:Hi; cbn [negb]; [|discriminate];
     destruct tus as [|tu0 tus']; [discriminate|];
     destruct (jstr_is (ca_sub a) cid0) eqn:Hs; cbn [negb]; [|discriminate];
     destruct (ca_jti a) as [| |j0| | | | |] eqn:Hj; try discriminate;
     destruct (String.eqb_spec j0 "") as [|Hj0]; [discriminate|];
     intros H; injection H as <- <-;
     apply andb_true_iff in Hi as [Hi Hne]; apply jstr_is_iff in Hi; apply jstr_is_iff in Hs;
     apply negb_true_iff, String.eqb_neq in Hne; apply existsb_nat_in in Hv;
     repeat (split; [first [assumption|reflexivity]|]); split;
     [ subst who; destruct (String.eqb (ca_form_cid a) "");
       [assumption|now injection Hwho]
     | exists c, keys, rsa, k; subst rsa; repeat (split; [first [assumption|reflexivity|easy]|]); easy ]).
  - intros (Ht & He & Hp & Hwho & c & keys & rsa & k & Hc & Ho & Hm & Ha & Hcls & Hk & Hf & Hv & Hcv & Hi & Hne & Htus & Hs & Hj & Hj0).
    rewrite Ht, String.eqb_refl, He, Hp. cbn [negb].
    assert (Hw : (if String.eqb (ca_form_cid a) "" then match ca_sub a with JStr s => Some s | _ => None end
                  else Some (ca_form_cid a)) = Some cid).
    { destruct (String.eqb (ca_form_cid a) ""); [now rewrite Hs|now rewrite Hwho]. }
    rewrite Hw, Hc, Ho, Hm, Ha, String.eqb_refl. cbn [negb]. rewrite String.eqb_refl. cbn [negb].
    rewrite Hcls, Hk.
    apply existsb_nat_in in Hv. apply String.eqb_neq in Hne. apply String.eqb_neq in Hj0.
    destruct rsa; rewrite Hf, Hv, Hcv, Hi, Hs; cbn [jstr_is negb andb]; rewrite String.eqb_refl, Hne; cbn [negb andb];
      (destruct tus; [easy|]); rewrite Hj, Hj0; reflexivity.
Qed.

(* ------------------------------------------------------------------ private_key_jwt: the complete decision *)
(* [ca_accepts ... cid st']: the exact acceptance condition of the model *)
Definition ca_accepts (tus : list string) (clients : list client) (nw : Z) (st : jstore) (a : cassert)
           (cid : string) (st' : jstore) : Prop :=
  exists j e,
    ca_pre_spec tus clients nw a cid j /\
    to_int64 (ca_exp a) = Some e /\
    (* the expiry instant has not passed (the instant the replay memory uses; fix 3e32ae1) *)
    nw <= e * 1000 /\
    (* the replay memory holds no entry for j that is not past its own exp *)
    jget (purge nw st) j = None /\ st' = (j, e) :: purge nw st /\
    aud_contains (ca_aud a) tus.

Theorem client_auth_accept_iff tus clients nw st a cid sub st' :
  client_auth tus clients nw st a = (st', Acc cid sub) <-> (sub = "" /\ ca_accepts tus clients nw st a cid st').
Proof.
  unfold client_auth, ca_accepts. split.
  - intros H. pose proof H as H0. apply run_flow_acc in H as [Hpost Hrest].
    unfold ca_flow in *. destruct (ca_pre tus clients nw a) as [e|[cid0 j]] eqn:Hpre.
    + cbn in Hpost. discriminate.
    + cbn [f_post f_pre f_mid] in *. destruct Hrest as [[Hp _]|[j0 [e [Hp [Hm Hs]]]]]; [discriminate|].
      injection Hp as <-.
      destruct (aud_matches (ca_aud a) tus) eqn:Haud; [|discriminate]. injection Hpost as <- <-.
      split; [reflexivity|]. destruct (to_int64 (ca_exp a)) as [e0|] eqn:He; [|discriminate].
      destruct (before_now nw e0) eqn:Hb; [discriminate|]. apply not_before_iff in Hb.
      injection Hm as <-. apply jti_set_ok_inv in Hs as [Hn ->].
      exists j, e0. split; [now apply ca_pre_iff|]. repeat split; try assumption. now apply aud_matches_iff.
  - intros [-> [j [e [Hpre [He [Hle [Hn [-> Haud]]]]]]]].
    apply ca_pre_iff in Hpre. apply aud_matches_iff in Haud. apply not_before_iff in Hle.
    unfold ca_flow. rewrite Hpre. unfold run_flow. cbn [f_pre f_mid f_post f_kerr].
    assert (Hset : jti_set nw st j e = ((j, e) :: purge nw st, true)) by (unfold jti_set; now rewrite Hn).
    rewrite (set_ok_implies_valid _ _ _ _ _ Hset). cbn [negb]. rewrite He, Hle, Hset, Haud. reflexivity.
Qed.

(* The first sentence of the property, clause by clause, for every input, at full strength: the
   assertion is unexpired at the instant of acceptance for every representation of exp (int64,
   float64, 0, fractions): the expiry instant exp*1000 ms has not passed, hence also the second
   named by exp has not. *)
Theorem client_assertion_sound tus clients nw st a cid sub st' :
  client_auth tus clients nw st a = (st', Acc cid sub) ->
  exists c keys k j e,
    (* the client that is authenticated is the registered private_key_jwt client cid *)
    find_client clients cid = Some c /\ c_method c = "private_key_jwt" /\
    (* signed with a key registered for that client ... *)
    c_jwks c = Some keys /\ In k keys /\ k_use k = "sig" /\ In (k_kp k) (ca_ver a) /\
    (ca_kid a = "" \/ k_kid k = ca_kid a) /\
    (* ... using the client's registered asymmetric algorithm *)
    c_alg c = ca_alg a /\ (alg_class_of (ca_alg a) = ARsa /\ k_kty k = KRsa \/ alg_class_of (ca_alg a) = AEc /\ k_kty k = KEc) /\
    (* iss and sub both equal the client id *)
    ca_iss a = JStr cid /\ ca_sub a = JStr cid /\
    (* aud contains the token endpoint URL *)
    aud_contains (ca_aud a) tus /\
    (* exp is a number and its instant has not passed *)
    to_int64 (ca_exp a) = Some e /\ nw <= e * 1000 /\ unix nw <= e /\
    (* jti is a non-empty string that the replay memory does not hold, and is recorded now *)
    ca_jti a = JStr j /\ j <> "" /\ jget (purge nw st) j = None /\ st' = (j, e) :: purge nw st.
Proof.
  intros H. apply client_auth_accept_iff in H as [_ [j [e [Hpre [He [Hle [Hn [Hst Haud]]]]]]]].
  destruct Hpre as (_ & _ & _ & _ & c & keys & rsa & k & Hc & _ & Hm & Ha & Hcls & Hk & Hf & Hv & Hcv & Hi & _ & _ & Hs & Hj & Hj0).
  apply find_public_key_sound in Hf as [Hin [Hu [Hty Hkid]]].
  exists c, keys, k, j, e. repeat split; try assumption.
  - destruct rsa; [left|right]; split; assumption.
  - unfold unix. apply Z.div_le_upper_bound; lia.
Qed.

Corollary client_assertion_unexpired tus clients nw st a cid sub st' :
  client_auth tus clients nw st a = (st', Acc cid sub) ->
  exists e, to_int64 (ca_exp a) = Some e /\ nw <= e * 1000.
Proof.
  intros H. apply client_assertion_sound in H as (c & keys & k & j & e & Hs).
  exists e. tauto.
Qed.

(* ------------------------------------------------------------------ JWT-bearer grant *)
Definition issued_ms (nw : Z) (b : bassert) : Z := match ba_iat b with Some i => i * 1000 | None => nw end.

Definition ba_claims_spec (cfg : bcfg) (tus : list string) (nw : Z) (b : bassert) (e : Z) : Prop :=
  (* aud contains the token URL *)
  (exists tu, In tu tus /\ In tu (ba_aud b)) /\
  (* exp present, not in the past, not beyond the maximum counted from iat (or from now) *)
  ba_exp b = Some e /\ nw <= e * 1000 /\ e * 1000 - issued_ms nw b <= max_duration cfg /\
  (* nbf, when present, lies in the past *)
  (forall n, ba_nbf b = Some n -> n * 1000 < nw) /\
  (* iat present unless optional; jti present unless optional *)
  (b_iat_optional cfg = false -> ba_iat b <> None) /\
  (b_id_optional cfg = false -> ba_jti b <> "").

Lemma any_in_iff xs ys : any_in xs ys = true <-> exists x, In x xs /\ In x ys.
Proof.
  unfold any_in. rewrite existsb_exists. split; intros [x [H1 H2]]; exists x; (split; [assumption|]); now apply mem_in.
Qed.

Lemma ba_claims_check_iff cfg tus nw b :
  ba_claims_check cfg tus nw b = None <-> exists e, ba_claims_spec cfg tus nw b e.
Proof.
  unfold ba_claims_check, ba_claims_spec, issued_ms. split.
  - destruct (ba_aud b) as [|a0 ar] eqn:Haud; [discriminate|]. rewrite <- Haud.
    destruct (any_in tus (ba_aud b)) eqn:Ha; cbn [negb]; [|discriminate].
    destruct (ba_exp b) as [e|]; [|discriminate].
    destruct (before_now nw e) eqn:Hb; [discriminate|].
    destruct (match ba_nbf b with Some n => negb (before_now nw n) | None => false end) eqn:Hn; [discriminate|].
    destruct (negb (b_iat_optional cfg) && match ba_iat b with None => true | Some _ => false end) eqn:Hi; [discriminate|].
    destruct (Z.ltb_spec (max_duration cfg) (e * 1000 - match ba_iat b with Some i => i * 1000 | None => nw end)); [discriminate|].
    destruct (negb (b_id_optional cfg) && String.eqb (ba_jti b) "") eqn:Hid; [discriminate|].
    intros _. exists e. apply any_in_iff in Ha. apply not_before_iff in Hb.
    split; [assumption|]. split; [reflexivity|]. split; [assumption|]. split; [assumption|].
    split; [|split].
    + intros n0 Hn0. rewrite Hn0 in Hn. apply negb_false_iff in Hn. now apply before_iff.
    + intros Ho. rewrite Ho in Hi. cbn in Hi. now destruct (ba_iat b).
    + intros Ho. rewrite Ho in Hid. cbn in Hid. now apply String.eqb_neq.
  - intros [e [[tu [Ht1 Ht2]] [He [Hle [Hmax [Hnbf [Hiat Hjti]]]]]]].
    assert (Ha : any_in tus (ba_aud b) = true) by (apply any_in_iff; eauto).
    destruct (ba_aud b) as [|a0 ar] eqn:Haud; [easy|]. cbv iota. rewrite Ha, He. cbn [negb].
    apply not_before_iff in Hle. rewrite Hle.
    assert (Hn : match ba_nbf b with Some n => negb (before_now nw n) | None => false end = false).
    { destruct (ba_nbf b) as [n|]; [|reflexivity]. apply negb_false_iff, before_iff. now apply Hnbf. }
    rewrite Hn.
    assert (Hi : negb (b_iat_optional cfg) && match ba_iat b with None => true | Some _ => false end = false).
    { destruct (b_iat_optional cfg); [reflexivity|]. specialize (Hiat eq_refl). now destruct (ba_iat b). }
    rewrite Hi.
    destruct (Z.ltb_spec (max_duration cfg) (e * 1000 - match ba_iat b with Some i => i * 1000 | None => nw end)); [lia|].
    destruct (b_id_optional cfg); cbn [negb andb]; [reflexivity|].
    specialize (Hjti eq_refl). apply String.eqb_neq in Hjti. now rewrite Hjti.
Qed.

Lemma find_issuer_key_sound iks b k :
  find_issuer_key iks b = Some k ->
  In k iks /\ ik_iss k = ba_iss b /\ ik_sub k = ba_sub b /\ (ba_kid b = "" \/ ik_kid k = ba_kid b).
Proof.
  unfold find_issuer_key. intros H.
  assert (G : In k (filter (ik_for (ba_iss b) (ba_sub b)) iks) /\ (ba_kid b = "" \/ ik_kid k = ba_kid b)).
  { destruct (String.eqb_spec (ba_kid b) "").
    - apply find_some in H as [H _]. auto.
    - apply find_some in H as [H H2]. apply String.eqb_eq in H2. auto. }
  destruct G as [G Hk]. apply filter_In in G as [G1 G2]. unfold ik_for in G2.
  apply andb_true_iff in G2 as [G2 G3]. apply String.eqb_eq in G2, G3. auto.
Qed.

(* the exact acceptance condition of the grant handler, given the client set on the request *)
Definition ba_accepts (cfg : bcfg) (tus : list string) (iks : list ikey) (nw : Z) (st : jstore)
           (cl_grants : list string) (b : bassert) (st' : jstore) : Prop :=
  (b_skip_auth cfg = true \/ args_has cl_grants [grant_jwt_bearer] = true) /\
  ba_empty b = false /\ ba_parse b = true /\ ba_claims_ok b = true /\ ba_iss b <> "" /\ ba_sub b <> "" /\
  exists k e,
    (* a key registered for (iss, sub), by kid or by trying all, under which the signature verifies *)
    find_issuer_key iks b = Some k /\ In (ik_kp k) (ba_ver b) /\
    ba_claims_spec cfg tus nw b e /\
    (* every requested scope is covered by the scopes registered with that key *)
    (forall s, In s (ba_scopes b) -> scope_match (b_strategy cfg) (ik_scopes k) s = true) /\
    (* the jti, when there is one, is not in the replay memory and is recorded now *)
    (if String.eqb (ba_jti b) "" then st' = st
     else jget (purge nw st) (ba_jti b) = None /\ st' = (ba_jti b, e) :: purge nw st).

Lemma ba_flow_ok cfg tus iks nw cl_id cl_grants b :
  (exists e, f_pre (ba_flow cfg tus iks nw cl_id cl_grants b) = inl e) \/
  exists k e,
    ((b_skip_auth cfg = true \/ args_has cl_grants [grant_jwt_bearer] = true) /\
     ba_empty b = false /\ ba_parse b = true /\ ba_claims_ok b = true /\ ba_iss b <> "" /\ ba_sub b <> "" /\
     find_issuer_key iks b = Some k /\ In (ik_kp k) (ba_ver b) /\ ba_claims_spec cfg tus nw b e) /\
    ba_flow cfg tus iks nw cl_id cl_grants b =
      {| f_pre := inr (if String.eqb (ba_jti b) "" then None else Some (ba_jti b));
         f_mid := if forallb (scope_match (b_strategy cfg) (ik_scopes k)) (ba_scopes b) then inr e else inl EInvalidScope;
         f_kerr := EServerError;
         f_post := Acc cl_id (ba_sub b) |}.
Proof.
  unfold ba_flow.
  destruct (negb (b_skip_auth cfg) && negb (args_has cl_grants [grant_jwt_bearer])) eqn:Hs; [left; eexists; reflexivity|].
  destruct (ba_empty b); [left; eexists; reflexivity|].
  destruct (ba_parse b); cbn [negb]; [|left; eexists; reflexivity].
  destruct (ba_claims_ok b); cbn [negb]; [|left; eexists; reflexivity].
  destruct (String.eqb_spec (ba_iss b) ""); [left; eexists; reflexivity|].
  destruct (String.eqb_spec (ba_sub b) ""); [left; eexists; reflexivity|].
  destruct (find_issuer_key iks b) as [k|] eqn:Hk; [|left; eexists; reflexivity].
  destruct (existsb (Nat.eqb (ik_kp k)) (ba_ver b)) eqn:Hv; cbn [negb]; [|left; eexists; reflexivity].
  destruct (ba_claims_check cfg tus nw b) eqn:Hc; [left; eexists; reflexivity|].
  apply ba_claims_check_iff in Hc as [e Hc]. apply existsb_nat_in in Hv.
  right. exists k, e. split.
  - split. { apply andb_false_iff in Hs as [Hs|Hs]; apply negb_false_iff in Hs; [left|right]; assumption. }
    repeat (split; [first [assumption|reflexivity]|]). assumption.
  - destruct Hc as (_ & He & _). rewrite He. reflexivity.
Qed.

Lemma ba_flow_complete cfg tus iks nw cl_id cl_grants b k e :
  (b_skip_auth cfg = true \/ args_has cl_grants [grant_jwt_bearer] = true) ->
  ba_empty b = false -> ba_parse b = true -> ba_claims_ok b = true -> ba_iss b <> "" -> ba_sub b <> "" ->
  find_issuer_key iks b = Some k -> In (ik_kp k) (ba_ver b) -> ba_claims_spec cfg tus nw b e ->
  ba_flow cfg tus iks nw cl_id cl_grants b =
      {| f_pre := inr (if String.eqb (ba_jti b) "" then None else Some (ba_jti b));
         f_mid := if forallb (scope_match (b_strategy cfg) (ik_scopes k)) (ba_scopes b) then inr e else inl EInvalidScope;
         f_kerr := EServerError;
         f_post := Acc cl_id (ba_sub b) |}.
Proof.
  intros Hs He Hp Hc Hi Hsub Hk Hv Hspec. unfold ba_flow.
  assert (Hs' : negb (b_skip_auth cfg) && negb (args_has cl_grants [grant_jwt_bearer]) = false).
  { destruct Hs as [-> | ->]; [reflexivity|apply andb_false_r]. }
  apply String.eqb_neq in Hi, Hsub. apply existsb_nat_in in Hv.
  rewrite Hs', He, Hp, Hc, Hi, Hsub, Hk, Hv. cbn [negb].
  assert (Hcc : ba_claims_check cfg tus nw b = None) by (apply ba_claims_check_iff; eauto).
  rewrite Hcc. destruct Hspec as (_ & Hexp & _). rewrite Hexp. reflexivity.
Qed.

Theorem bearer_accept_iff cfg tus iks nw st cl_id cl_grants b st' c s :
  run_flow nw st (ba_flow cfg tus iks nw cl_id cl_grants b) = (st', Acc c s) <->
  (c = cl_id /\ s = ba_sub b /\ ba_accepts cfg tus iks nw st cl_grants b st').
Proof.
  unfold ba_accepts. split.
  - intros H. destruct (ba_flow_ok cfg tus iks nw cl_id cl_grants b) as [[x Hx]|[k [e [Hfacts Hflow]]]].
    + unfold run_flow in H. rewrite Hx in H. discriminate.
    + rewrite Hflow in H. apply run_flow_acc in H as [Hpost Hrest]. cbn [f_post f_pre f_mid] in *.
      injection Hpost as <- <-. split; [reflexivity|]. split; [reflexivity|].
      destruct Hfacts as (F1 & F2 & F3 & F4 & F5 & F6 & F7 & F8 & F9).
      repeat (split; [assumption|]). exists k, e. repeat (split; [assumption|]).
      destruct (forallb (scope_match (b_strategy cfg) (ik_scopes k)) (ba_scopes b)) eqn:Hsc.
      2:{ destruct Hrest as [(_ & _ & x & Hx)|(j & x & _ & Hx & _)]; discriminate. }
      split. { intros sc Hin. rewrite forallb_forall in Hsc. now apply Hsc. }
      destruct (String.eqb (ba_jti b) "") eqn:Hj.
      * destruct Hrest as [(_ & -> & _)|(j & x & Hp & _)]; [reflexivity|discriminate].
      * destruct Hrest as [(Hp & _)|(j & x & Hp & Hm & Hset)]; [discriminate|].
        injection Hp as <-. injection Hm as <-. now apply jti_set_ok_inv.
  - intros (-> & -> & Hs & He & Hp & Hc & Hi & Hsub & k & e & Hk & Hv & Hspec & Hsc & Hst).
    rewrite (ba_flow_complete cfg tus iks nw cl_id cl_grants b k e) by assumption.
    assert (Hf : forallb (scope_match (b_strategy cfg) (ik_scopes k)) (ba_scopes b) = true)
      by (apply forallb_forall; assumption).
    unfold run_flow. cbn [f_pre f_mid f_post f_kerr]. rewrite Hf.
    destruct (String.eqb (ba_jti b) "").
    + now subst.
    + destruct Hst as [Hn ->].
      assert (Hset : jti_set nw st (ba_jti b) e = ((ba_jti b, e) :: purge nw st, true)) by (unfold jti_set; now rewrite Hn).
      rewrite (set_ok_implies_valid _ _ _ _ _ Hset). cbn [negb]. rewrite Hset. reflexivity.
Qed.

(* The second sentence of the property, clause by clause, for every input. *)
Theorem bearer_grant_sound cfg tus iks nw st cl_id cl_grants b st' c s :
  run_flow nw st (ba_flow cfg tus iks nw cl_id cl_grants b) = (st', Acc c s) ->
  exists k e,
    (* signed by a key registered for its (iss, sub) *)
    In k iks /\ ik_iss k = ba_iss b /\ ik_sub k = ba_sub b /\ In (ik_kp k) (ba_ver b) /\
    (ba_kid b = "" \/ ik_kid k = ba_kid b) /\
    (* aud contains the token URL *)
    (exists tu, In tu tus /\ In tu (ba_aud b)) /\
    (* exp in the future but not beyond the configured maximum *)
    ba_exp b = Some e /\ nw <= e * 1000 /\ e * 1000 - issued_ms nw b <= max_duration cfg /\
    (* nbf respected, iat present when required *)
    (forall n, ba_nbf b = Some n -> n * 1000 < nw) /\
    (b_iat_optional cfg = false -> ba_iat b <> None) /\
    (* requested scopes covered by the key's scopes *)
    (forall sc, In sc (ba_scopes b) -> scope_match (b_strategy cfg) (ik_scopes k) sc = true) /\
    (* (when required) a jti, and one that the replay memory does not hold; it is recorded now *)
    (b_id_optional cfg = false -> ba_jti b <> "") /\
    (ba_jti b <> "" -> jget (purge nw st) (ba_jti b) = None /\ st' = (ba_jti b, e) :: purge nw st) /\
    s = ba_sub b.
Proof.
  intros H. apply bearer_accept_iff in H as (_ & -> & _ & _ & _ & _ & _ & _ & k & e & Hk & Hv & Hspec & Hsc & Hst).
  apply find_issuer_key_sound in Hk as (K1 & K2 & K3 & K4).
  destruct Hspec as (S1 & S2 & S3 & S4 & S5 & S6 & S7).
  exists k, e. repeat (split; [assumption|]). split; [|reflexivity].
  intros Hj. apply String.eqb_neq in Hj. now rewrite Hj in Hst.
Qed.
