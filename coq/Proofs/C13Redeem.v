(* C13, the clause about the authorization_code grant: the token endpoint's code handler of the
   history model (Model/Flows.v, [redeem]; handler/oauth2/flow_authorize_code_token.go) refuses a
   client whose registration lacks the authorization_code grant before it looks at the code, for
   every state, code, redirect URI and verifier, and leaves the state as it is. *)
From FositeModel Require Import Base.Str Model.Scope Model.Core Model.Flows.

Theorem redeem_requires_grant cfg s c cl code redirect verifier verifier_s256 :
  clients s c = Some cl ->
  args_has (cl_grants cl) ["authorization_code"] = false ->
  redeem cfg s (Some c) code redirect verifier verifier_s256 = (s, err_obs "unauthorized_client").
Proof.
  intros Hc Hg. unfold redeem. rewrite Hc, Hg. reflexivity.
Qed.

(* and the refusal mints nothing: the observation carries no credential *)
Corollary redeem_without_grant_mints_nothing cfg s c cl code redirect verifier verifier_s256 :
  clients s c = Some cl ->
  args_has (cl_grants cl) ["authorization_code"] = false ->
  o_minted (snd (redeem cfg s (Some c) code redirect verifier verifier_s256)) = [] /\
  fst (redeem cfg s (Some c) code redirect verifier verifier_s256) = s.
Proof. intros Hc Hg. rewrite (redeem_requires_grant _ _ _ _ _ _ _ _ Hc Hg). split; reflexivity. Qed.

(* non-vacuity: with the grant a live code is redeemed (C01's examples exercise that path) *)
