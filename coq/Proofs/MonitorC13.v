(* The monitor of C13 (Cases/CasesC13.v) accepts the model's own observation on every input: an
   alarm can only come from an observation the model does not reproduce.  This is at the same time
   the statement that the model has every property the monitor checks. *)
From FositeModel Require Import Base.Str Model.Scope Model.Authz Proofs.AuthzProofs Proofs.AuthzHandlers Cases.CasesC13.

(* ------------------------------------------------------------------ boolean readings *)
Lemma nodup_ci_iff l : nodup_ci l = true <-> NoDup (map lower l).
Proof.
  induction l as [|x r IH]; cbn; [split; [constructor|reflexivity]|].
  rewrite andb_true_iff, negb_true_iff, IH. split.
  - intros [Hn Hd]. constructor; [|assumption]. intros Hin. apply in_slice_ci_In in Hin. congruence.
  - intros H. inversion H as [|? ? Hn Hd]; subst. split; [|assumption].
    destruct (in_slice_ci x r) eqn:E; [|reflexivity]. apply in_slice_ci_In in E. contradiction.
Qed.

Lemma subset_ci_iff a b : subset_ci a b = true <-> incl (map lower a) (map lower b).
Proof.
  unfold subset_ci. rewrite forallb_forall. split.
  - intros H x Hx. apply in_map_iff in Hx as [y [<- Hy]]. apply in_slice_ci_In. auto.
  - intros H x Hx. apply in_slice_ci_In. apply H. now apply in_map.
Qed.

Lemma matches_same_set r items :
  nodup_ci items = true -> args_matches r items = true -> same_set_ci r items = true.
Proof.
  intros Hnd Hm. apply nodup_ci_iff in Hnd. apply (args_matches_sets r items Hnd) in Hm as [Hr Heq].
  unfold same_set_ci. rewrite !andb_true_iff. repeat split.
  - now apply nodup_ci_iff.
  - now apply nodup_ci_iff.
  - apply subset_ci_iff. intros x. apply Heq.
  - apply subset_ci_iff. intros x. apply Heq.
Qed.

Lemma registered_same_set cl rts :
  forallb (fun t => nodup_ci (fields t)) (c_rtypes cl) = true ->
  rtypes_registered cl rts = true ->
  existsb (fun t => same_set_ci rts (fields t)) (c_rtypes cl) = true.
Proof.
  unfold rtypes_registered. intros Hall Hex. rewrite forallb_forall in Hall.
  apply existsb_exists in Hex as [t [Hin Hm]]. apply existsb_exists. exists t. split; [assumption|].
  apply matches_same_set; auto.
Qed.

Lemma mem_filter k f l : mem k (filter f l) = true -> mem k l = true /\ f k = true.
Proof. rewrite !mem_In, filter_In. tauto. Qed.

Lemma mem_proj k p : mem k (proj p) = true -> has_param k p = true.
Proof. unfold proj. intros H. now apply mem_filter in H. Qed.

Lemma state_values_In v p : In v (state_values p) <-> In ("state", v) p.
Proof.
  unfold state_values. rewrite in_map_iff. split.
  - intros [[k v'] [Hs Hin]]. cbn in Hs. subst v'. apply filter_In in Hin as [Hin Hk]. cbn in Hk.
    apply String.eqb_eq in Hk. now subst.
  - intros Hin. exists ("state", v). split; [reflexivity|]. apply filter_In. split; [assumption|reflexivity].
Qed.

Lemma state_values_nonempty p : has_param "state" p = true -> state_values p <> [].
Proof.
  intros H. apply has_param_In in H as [v Hv]. apply state_values_In in Hv. intros E. rewrite E in Hv. contradiction.
Qed.

Lemma first_fail_none l : Forall (fun c => fst c = true) l -> first_fail l = None.
Proof.
  unfold first_fail. intros H. destruct (find (fun c => negb (fst c)) l) as [c|] eqn:E; [|reflexivity].
  apply find_some in E as [Hin Hn]. rewrite Forall_forall in H. rewrite (H c Hin) in Hn. discriminate.
Qed.

Lemma opt_str_empty o : String.eqb (opt_str o) "" = match o with None => true | Some _ => false end.
Proof. destruct o as [e|]; [|reflexivity]. cbn. destruct (String.eqb_spec e ""); [reflexivity|]. now apply String.eqb_neq. Qed.

(* the effective-form projection read back *)
Lemma eff_get_eff_of k f ob :
  In k watched -> ob_eff ob = eff_of f -> eff_get k ob = fget k f.
Proof.
  intros Hk He. unfold eff_get. rewrite He. cbn in Hk.
  repeat (destruct Hk as [<-|Hk]; [reflexivity|]). contradiction.
Qed.

(* ------------------------------------------------------------------ what the error writer produces *)
Lemma write_error_obs ar e :
  let w := write_authorize_error ar e in
  (redirect_usable ar = false /\ w_place w = PJson) \/
  (redirect_usable ar = true /\ proj (w_params w) = ["error"; "state"] /\ state_values (w_params w) = [a_state ar] /\
   (w_place w = PQuery \/ w_place w = PFragment \/ w_place w = PForm)).
Proof.
  unfold write_authorize_error. destruct (redirect_usable ar); cbn [negb].
  - right. split; [reflexivity|].
    destruct (String.eqb (a_rmode ar) "form_post"); [|destruct (String.eqb (a_rmode ar) "fragment")]; cbn; auto.
  - left. split; reflexivity.
Qed.

(* the clauses about written tokens and the state, for an error answer *)
Lemma error_answer_clauses ar e st :
  a_state ar = st ->
  let w := write_authorize_error ar e in
  let q := if is_place (w_place w) PQuery then proj (w_params w) else [] in
  let f := if is_place (w_place w) PFragment then proj (w_params w) else [] in
  let b := if is_place (w_place w) PForm then proj (w_params w) else [] in
  let states := if is_place (w_place w) PJson then [] else state_values (w_params w) in
  (negb (mem "access_token" q) && negb (mem "id_token" q)) = true /\
  negb (existsb (fun k => mem k ["access_token"; "id_token"; "code"]) (q ++ f ++ b)%list) = true /\
  (negb (existsb (fun k => String.eqb k "error") (q ++ f ++ b)%list)
   || (negb (match states with [] => true | _ => false end) && forallb (fun v => String.eqb v st) states)) = true.
Proof.
  intros Hst. cbv zeta. destruct (write_error_obs ar e) as [[_ Hp]|[_ [Hproj [Hsv Hp]]]].
  - rewrite Hp. cbn. auto.
  - rewrite Hproj, Hsv, Hst. destruct Hp as [Hp|[Hp|Hp]]; rewrite Hp; cbn; rewrite String.eqb_refl; auto.
Qed.

(* ------------------------------------------------------------------ request objects: Prop to bool *)
Lemma ro_key_ok_b keys j :
  ro_key_ok keys j -> (if String.eqb (j_alg j) "none" then true else existsb (key_fits j) keys) = true.
Proof.
  intros [Hn|[k [rsa [Hin [Hf [Hr [Hu [Hk Hs]]]]]]]].
  - rewrite Hn. reflexivity.
  - destruct (String.eqb (j_alg j) "none"); [reflexivity|]. apply existsb_exists. exists k. split; [assumption|].
    unfold key_fits. rewrite Hu, Hf, Hs, Hr. cbn. rewrite Nat.eqb_refl, Bool.eqb_reflx, andb_true_r.
    destruct Hk as [-> | ->]; [reflexivity|]. rewrite String.eqb_refl. apply orb_true_r.
Qed.

Lemma honourable_b cl rq claims :
  ro_honourable cl rq claims ->
  (ro_signed_ok cl (q_ro rq) && ro_uri_ok cl rq && c_oidc cl
   && args_has (fields (fget "scope" (q_form rq))) ["openid"]) = true /\ ro_claims rq = claims.
Proof.
  intros [Ho H1 Hc Hu [keys [j [Hj [Hq [Hcl [Hv [Ha Hk]]]]]]]].
  split.
  - rewrite Ho, Hc, !andb_true_r. apply andb_true_iff. split.
    + unfold ro_signed_ok. rewrite Hq, Hj, Hv, andb_true_r. apply andb_true_iff. split; [|now apply ro_key_ok_b].
      destruct Ha as [-> | ->]; [reflexivity|]. rewrite String.eqb_refl. apply orb_true_r.
    + unfold ro_uri_ok. destruct (String.eqb_spec (fget "request_uri" (q_form rq)) "") as [|Hne]; [reflexivity|].
      destruct (Hu Hne) as [Hin Hf]. apply mem_In in Hin. now rewrite Hin, Hf.
  - unfold ro_claims. now rewrite Hq.
Qed.

Lemma origins_ok_same honour rq f :
  (forall k, In k watched -> k <> "scope" -> origin_ok honour rq k (fget k f) = true) ->
  origins_ok honour rq watched (eff_of f) = true.
Proof.
  intros H. unfold eff_of. generalize dependent watched. intros ks.
  induction ks as [|k ks IH]; intros H; cbn; [reflexivity|].
  rewrite IH by (intros k' Hk'; apply H; now right). rewrite andb_true_r.
  destruct (String.eqb_spec k "scope") as [|Hk]; [reflexivity|]. cbn. apply H; [now left|assumption].
Qed.

(* ------------------------------------------------------------------ the theorem *)
Section Agreement.
Variables (cfg : config) (cid : string) (clo : option client) (rq : request)
          (granted : list string) (se : session) (now : Z).

Let lk := lookup_of cid clo.
Let ob := model_obs cfg cid clo rq granted se now.
Let c := K cfg cid clo rq granted se now ob.

(* the effective form the model reports, and the request-object clauses *)
Lemma ro_clauses cl ar r :
  lk (fget "client_id" (q_form rq)) = Some cl ->
  new_authorize_request cfg lk rq = (ar, r) ->
  let honour := ro_signed_ok cl (q_ro rq) && ro_uri_ok cl rq && c_oidc cl
                && args_has (fields (fget "scope" (q_form rq))) ["openid"] in
  let changed := neq_l (eff_of (a_form ar)) (eff_of (q_form rq)) in
  (negb changed || ro_uri_ok cl rq) = true /\ (negb changed || honour) = true /\
  origins_ok honour rq watched (eff_of (a_form ar)) = true.
Proof.
  intros Hl H. cbv zeta. apply new_authorize_request_form in H as [_ [Hf|[cl' [claims [Hl' [Hro Hf]]]]]].
  - rewrite Hf. unfold neq_l.
    assert (E : list_eqb (eff_of (q_form rq)) (eff_of (q_form rq)) = true).
    { generalize (eff_of (q_form rq)). intros l. induction l; cbn; [reflexivity|]. now rewrite String.eqb_refl. }
    rewrite E. cbn. repeat split. apply origins_ok_same. intros k _ _. unfold origin_ok. now rewrite String.eqb_refl.
  - rewrite Hl in Hl'. injection Hl' as <-. apply ro_process_sound in Hro. apply honourable_b in Hro as [Hh Hc].
    rewrite Hh. apply andb_true_iff in Hh as [Hh _]. apply andb_true_iff in Hh as [Hh _]. apply andb_true_iff in Hh as [_ Hu].
    rewrite Hu, !orb_true_r. repeat split. apply origins_ok_same. intros k _ Hk. unfold origin_ok.
    rewrite Hf, fget_ro_apply by assumption. rewrite Hc. unfold has_key.
    destruct (existsb (fun kv => String.eqb (fst kv) k) claims); cbn; rewrite String.eqb_refl; [apply orb_true_r|reflexivity].
Qed.

Theorem monitor_accepts_model : monitor c = None.
Proof.
  unfold monitor, c, K. cbn [k_obs k_cfg k_rq k_cid k_cl].
  fold lk.
  destruct (new_authorize_request cfg lk rq) as [ar0 re] eqn:Enar.
  assert (Hob_eff : ob_eff ob = eff_of (a_form ar0)) by (unfold ob, model_obs; fold lk; now rewrite Enar).
  assert (Hob_state : ob_state ob = a_state ar0) by (unfold ob, model_obs; fold lk; now rewrite Enar).
  pose proof (new_authorize_request_form _ _ _ _ _ Enar) as [Hstate_form _].
  destruct (lk (fget "client_id" (q_form rq))) as [cl|] eqn:Elk.
  2:{ (* unknown client: the request is refused with a JSON error *)
    assert (Hre : exists e, re = Some e /\ a_form ar0 = q_form rq /\ redirect_usable ar0 = false).
    { revert Enar. unfold new_authorize_request. fold lk. rewrite Elk.
      destruct (negb (String.eqb (fget "request_uri" (q_form rq)) "") && has_prefix par_prefix (fget "request_uri" (q_form rq)));
        intros H; injection H as <- <-; eexists; repeat split. }
    destruct Hre as [e [-> [Hf Hu]]].
    unfold ob, model_obs. fold lk. unfold authorize. fold lk. rewrite Enar. cbn [fst o_req_err o_resp_err o_written o_params o_fx].
    cbn [ob_req_err ob_eff ob_state ob_resp_err ob_keys ob_access ob_redeem ob_q ob_f ob_b ob_states].
    rewrite opt_str_empty. rewrite Hf.
    assert (E : neq_l (eff_of (q_form rq)) (eff_of (q_form rq)) = false).
    { unfold neq_l. generalize (eff_of (q_form rq)). intros l. induction l; cbn; [reflexivity|]. now rewrite String.eqb_refl. }
    rewrite E. destruct (write_error_obs ar0 e) as [[_ Hp]|[Hu' _]]; [|congruence]. rewrite Hp. reflexivity. }
  (* the client exists *)
  destruct (ro_clauses cl ar0 re Elk Enar) as [Curi [Chon Corig]].
  assert (Hget : forall k, In k watched -> eff_get k ob = fget k (a_form ar0))
    by (intros k Hk; now apply eff_get_eff_of).
  rewrite Hob_eff, Hob_state.
  rewrite !Hget by (cbn; tauto).
  apply first_fail_none.
  destruct re as [e|].
  - (* ---- NewAuthorizeRequest refuses *)
    assert (Hobs : ob = {| ob_req_err := opt_str (Some e); ob_eff := eff_of (a_form ar0); ob_state := a_state ar0;
                          ob_resp_err := ""; ob_keys := []; ob_codes := 0; ob_access := 0; ob_oidc := 0;
                          ob_status := w_status (write_authorize_error ar0 e);
                          ob_q := if is_place (w_place (write_authorize_error ar0 e)) PQuery then proj (w_params (write_authorize_error ar0 e)) else [];
                          ob_f := if is_place (w_place (write_authorize_error ar0 e)) PFragment then proj (w_params (write_authorize_error ar0 e)) else [];
                          ob_b := if is_place (w_place (write_authorize_error ar0 e)) PForm then proj (w_params (write_authorize_error ar0 e)) else [];
                          ob_states := if is_place (w_place (write_authorize_error ar0 e)) PJson then [] else state_values (w_params (write_authorize_error ar0 e));
                          ob_json_err := if is_place (w_place (write_authorize_error ar0 e)) PJson then fget "error" (w_params (write_authorize_error ar0 e)) else "";
                          ob_redeem := 0 |}).
    { unfold ob, model_obs. fold lk. unfold authorize. fold lk. rewrite Enar. reflexivity. }
    rewrite Hobs. cbn [ob_req_err ob_resp_err ob_keys ob_access ob_redeem ob_q ob_f ob_b ob_states].
    rewrite opt_str_empty. cbn [negb andb orb mem Nat.eqb].
    destruct (error_answer_clauses ar0 e (a_state ar0) eq_refl) as [C1 [C2 C3]]. cbv zeta in C1, C2, C3.
    repeat constructor; cbn [fst]; try assumption; try reflexivity.
    now rewrite Hstate_form, String.eqb_refl.
  - (* ---- NewAuthorizeRequest accepts *)
    destruct (new_authorize_request_ok _ _ _ _ Enar) as [cl' [f [Hl [Hcl [_ [Hf [Hs [Hg [Hh V]]]]]]]]].
    rewrite Elk in Hl. injection Hl as <-. subst f.
    destruct V as [Vrt Vne Vreg Vkm Vpm Vrm Vsl Vsc Vso Vor Vrd Vreg0].
    assert (Aresp : True) by exact I.
    (* clauses about acceptance *)
    assert (A1 : (negb (forallb (fun t => nodup_ci (fields t)) (c_rtypes cl))
                  || existsb (fun t => same_set_ci (fields (fget "response_type" (a_form ar0))) (fields t)) (c_rtypes cl)) = true).
    { destruct (forallb (fun t => nodup_ci (fields t)) (c_rtypes cl)) eqn:En; [|reflexivity]. cbn.
      rewrite <- Vrt. now apply registered_same_set. }
    assert (A2 : (String.eqb (fget "response_mode" (a_form ar0)) ""
                  || (c_rm_iface cl && mem (fget "response_mode" (a_form ar0)) (c_rmodes cl))) = true).
    { revert Vpm. unfold rmode_permitted. destruct (String.eqb (fget "response_mode" (a_form ar0)) ""); [reflexivity|].
      destruct (c_rm_iface cl); cbn; [tauto|discriminate]. }
    assert (A3 : (Nat.leb (min_entropy cfg) (String.length (a_state ar0))
                  && Nat.leb (min_entropy cfg) (String.length (fget "state" (a_form ar0)))) = true).
    { rewrite <- Hs. apply Nat.leb_le in Vsl. now rewrite Vsl. }
    assert (A4 : (negb (in_slice_ci "openid" (fields (fget "scope" (a_form ar0))))
                  || negb (String.eqb (fget "redirect_uri" (a_form ar0)) "")) = true).
    { destruct (in_slice_ci "openid" (fields (fget "scope" (a_form ar0)))) eqn:Eo; [|reflexivity]. cbn.
      apply negb_true_iff, String.eqb_neq. apply Vor. rewrite Vsc. cbn. now rewrite Eo. }
    assert (A15 : String.eqb (a_state ar0) (fget "state" (a_form ar0)) = true) by (rewrite Hs; apply String.eqb_refl).
    (* the response *)
    destruct (new_authorize_response cfg (with_granted ar0 granted) se now) as [h rr] eqn:Eresp.
    assert (Hbase0 : a_form (with_granted ar0 granted) = a_form ar0 /\ a_state (with_granted ar0 granted) = a_state ar0 /\
                     a_cl (with_granted ar0 granted) = Some cl /\ a_rtypes (with_granted ar0 granted) = a_rtypes ar0 /\
                     a_rmode (with_granted ar0 granted) = a_rmode ar0 /\ a_handled (with_granted ar0 granted) = [])
      by (repeat split; assumption).
    destruct Hbase0 as [G1 [G2 [G3 [G4 [G5 G6]]]]].
    destruct rr as [e|].
    + (* NewAuthorizeResponse refuses *)
      destruct (new_authorize_response_inv _ _ _ _ _ _ Eresp) as [cl2 [Hc2 Hi]].
      destruct Hc2 as [Hc2|[Hc2 _]]; [|congruence]. rewrite G3 in Hc2. injection Hc2 as <-.
      destruct (i_base _ _ _ _ Hi) as [Bf [Bs _]]. rewrite G2 in Bs.
      assert (Hobs : ob = {| ob_req_err := ""; ob_eff := eff_of (a_form ar0); ob_state := a_state ar0;
                            ob_resp_err := opt_str (Some e); ob_keys := []; ob_codes := x_codes (h_fx h); ob_access := x_access (h_fx h);
                            ob_oidc := x_oidc (h_fx h);
                            ob_status := w_status (write_authorize_error (h_ar h) e);
                            ob_q := if is_place (w_place (write_authorize_error (h_ar h) e)) PQuery then proj (w_params (write_authorize_error (h_ar h) e)) else [];
                            ob_f := if is_place (w_place (write_authorize_error (h_ar h) e)) PFragment then proj (w_params (write_authorize_error (h_ar h) e)) else [];
                            ob_b := if is_place (w_place (write_authorize_error (h_ar h) e)) PForm then proj (w_params (write_authorize_error (h_ar h) e)) else [];
                            ob_states := if is_place (w_place (write_authorize_error (h_ar h) e)) PJson then [] else state_values (w_params (write_authorize_error (h_ar h) e));
                            ob_json_err := if is_place (w_place (write_authorize_error (h_ar h) e)) PJson then fget "error" (w_params (write_authorize_error (h_ar h) e)) else "";
                            ob_redeem := 0 |}).
      { unfold ob, model_obs. fold lk. unfold authorize. fold lk. rewrite Enar, Eresp. reflexivity. }
      rewrite Hobs. cbn [ob_req_err ob_resp_err ob_keys ob_access ob_redeem ob_q ob_f ob_b ob_states].
      rewrite opt_str_empty. cbn [String.eqb negb andb orb mem Nat.eqb].
      destruct (error_answer_clauses (h_ar h) e (a_state ar0) Bs) as [C1 [C2 C3]]. cbv zeta in C1, C2, C3.
      assert (A10 : (Nat.eqb (x_access (h_fx h)) 0 || args_has (c_grants cl) ["implicit"]) = true).
      { destruct (x_access (h_fx h)) as [|n] eqn:En; [reflexivity|]. cbn. apply (i_fx _ _ _ _ Hi). lia. }
      repeat constructor; cbn [fst]; try assumption; try reflexivity.
    + (* NewAuthorizeResponse accepts *)
      destruct (new_authorize_response_ok _ _ _ _ _ Eresp) as [cl2 [Hc2 [Hi [He [Hd Hnq]]]]].
      rewrite G3 in Hc2. injection Hc2 as <-.
      destruct (i_base _ _ _ _ Hi) as [Bf [Bs [_ [_ [Bg [_ Bt]]]]]]. rewrite G2 in Bs. rewrite G1 in Bf. rewrite G4 in Bt.
      specialize (He G6).
      set (w := write_authorize_response (h_ar h) (h_params h)).
      assert (Hobs : ob = {| ob_req_err := ""; ob_eff := eff_of (a_form ar0); ob_state := a_state ar0;
                            ob_resp_err := ""; ob_keys := proj (h_params h); ob_codes := x_codes (h_fx h); ob_access := x_access (h_fx h);
                            ob_oidc := x_oidc (h_fx h);
                            ob_status := w_status w;
                            ob_q := if is_place (w_place w) PQuery then proj (w_params w) else [];
                            ob_f := if is_place (w_place w) PFragment then proj (w_params w) else [];
                            ob_b := if is_place (w_place w) PForm then proj (w_params w) else [];
                            ob_states := if is_place (w_place w) PJson then [] else state_values (w_params w);
                            ob_json_err := if is_place (w_place w) PJson then fget "error" (w_params w) else "";
                            ob_redeem := if has_param "code" (h_params h)
                                         then match redeem_gate cl with Some _ => 1 | None => 3 end else 0 |}).
      { unfold ob, model_obs. fold lk. unfold authorize. fold lk. rewrite Enar, Eresp. cbn. rewrite Hcl. reflexivity. }
      rewrite Hobs. cbn [ob_req_err ob_resp_err ob_keys ob_access ob_redeem ob_q ob_f ob_b ob_states].
      cbn [String.eqb negb andb orb].
      (* the mode is one of the three real ones, so the parameters are written somewhere *)
      assert (Hmode : a_rmode (h_ar h) = "query" \/ a_rmode (h_ar h) = "fragment" \/ a_rmode (h_ar h) = "form_post").
      { assert (H0 : a_rmode ar0 = "query" \/ a_rmode ar0 = "fragment" \/ a_rmode ar0 = "form_post").
        { rewrite Vrm. destruct (String.eqb_spec (fget "response_mode" (a_form ar0)) "") as [|Hne].
          - destruct (args_exact_one (a_rtypes ar0) "code"); auto.
          - revert Vkm. unfold known_mode. cbn. generalize dependent (fget "response_mode" (a_form ar0)). intros m Hne.
            destruct (String.eqb_spec m ""); [contradiction|].
            destruct (String.eqb_spec m "fragment"); [auto|]. destruct (String.eqb_spec m "query"); [auto|].
            destruct (String.eqb_spec m "form_post"); [auto|discriminate]. }
        destruct (i_rmode _ _ _ _ Hi) as [R|[R _]]; rewrite G5 in R.
        - now rewrite R.
        - rewrite R in H0. destruct H0 as [H0|[H0|H0]]; discriminate. }
      assert (Hw : w_params w = h_params h /\ (w_place w = PQuery \/ w_place w = PFragment \/ w_place w = PForm)).
      { unfold w, write_authorize_response. destruct Hmode as [-> | [-> | ->]]; cbn; auto. }
      destruct Hw as [Hwp Hpl].
      assert (Hstates : state_values (h_params h) <> [] /\ forallb (fun v => String.eqb v (a_state ar0)) (state_values (h_params h)) = true).
      { split.
        - apply state_values_nonempty. apply He. pose proof Hd as Hd'. unfold did_handle_all in Hd'.
          apply andb_true_iff in Hd' as [Hall Hlen]. rewrite Bt in Hall, Hlen.
          destruct (a_rtypes ar0) as [|t ts] eqn:Et; [contradiction|]. cbn in Hall. apply andb_true_iff in Hall as [Hin _].
          intros Hnil. rewrite Hnil in Hin. discriminate.
        - apply forallb_forall. intros v Hv. apply state_values_In in Hv. apply (i_state _ _ _ _ Hi) in Hv. rewrite G2 in Hv.
          subst. apply String.eqb_refl. }
      destruct Hstates as [Hsne Hsall].
      assert (A8 : (negb (mem "id_token" (proj (h_params h)))
                    || Nat.leb (min_entropy cfg) (String.length (fget "nonce" (a_form ar0)))) = true).
      { destruct (mem "id_token" (proj (h_params h))) eqn:Em; [|reflexivity]. cbn [negb orb].
        apply mem_proj in Em. apply (i_idt _ _ _ _ Hi) in Em as [Hn _]. rewrite G1 in Hn. now apply Nat.leb_le. }
      assert (A9 : (negb (mem "access_token" (proj (h_params h))) || args_has (c_grants cl) ["implicit"]) = true).
      { destruct (mem "access_token" (proj (h_params h))) eqn:Em; [|reflexivity]. cbn [negb orb].
        apply mem_proj in Em. now apply (i_at _ _ _ _ Hi). }
      assert (A10 : (Nat.eqb (x_access (h_fx h)) 0 || args_has (c_grants cl) ["implicit"]) = true).
      { destruct (x_access (h_fx h)) as [|n] eqn:En; [reflexivity|]. cbn. apply (i_fx _ _ _ _ Hi). lia. }
      assert (A11 : (negb (mem "id_token" (proj (h_params h))) || args_has (c_grants cl) ["implicit"]
                     || in_slice_ci "code" (fields (fget "response_type" (a_form ar0)))) = true).
      { destruct (mem "id_token" (proj (h_params h))) eqn:Em; [|reflexivity]. cbn [negb orb].
        apply mem_proj in Em. apply (i_idt _ _ _ _ Hi) in Em as [_ [_ [_ [Himp|Hcode]]]].
        - now rewrite Himp.
        - rewrite G4, Vrt in Hcode. cbn in Hcode. rewrite andb_true_r in Hcode. rewrite Hcode. apply orb_true_r. }
      assert (A12 : (negb (Nat.eqb (if has_param "code" (h_params h) then match redeem_gate cl with Some _ => 1 | None => 3 end else 0) 3)
                     || args_has (c_grants cl) ["authorization_code"]) = true).
      { unfold redeem_gate. destruct (has_param "code" (h_params h)); [|reflexivity].
        destruct (args_has (c_grants cl) ["authorization_code"]); reflexivity. }
      assert (A13 : (negb (mem "access_token" (if is_place (w_place w) PQuery then proj (w_params w) else []))
                     && negb (mem "id_token" (if is_place (w_place w) PQuery then proj (w_params w) else []))) = true).
      { destruct (is_place (w_place w) PQuery) eqn:Ep; [|reflexivity].
        assert (Hq : w_place w = PQuery) by (destruct (w_place w); try discriminate; reflexivity).
        destruct (no_tokens_in_query _ _ _ _ _ Eresp Hq) as [Ha Hi'].
        rewrite Hwp. destruct (mem "access_token" (proj (h_params h))) eqn:E1; [apply mem_proj in E1; congruence|].
        destruct (mem "id_token" (proj (h_params h))) eqn:E2; [apply mem_proj in E2; congruence|]. reflexivity. }
      assert (A16 : (negb (match (if is_place (w_place w) PJson then [] else state_values (w_params w)) with [] => true | _ => false end)
                     && forallb (fun v => String.eqb v (a_state ar0)) (if is_place (w_place w) PJson then [] else state_values (w_params w))) = true).
      { rewrite Hwp. destruct Hpl as [Hp|[Hp|Hp]]; rewrite Hp; cbn [is_place]; rewrite Hsall;
          destruct (state_values (h_params h)); try contradiction; reflexivity. }
      repeat constructor; cbn [fst]; try assumption; try reflexivity.
Qed.
End Agreement.
