(* The log of issued credentials grows by exactly the credentials an operation's observation reports as minted,
   in that order: the index a presentation refers to (CRef) is the position of the credential in the sequence of
   everything the server handed out. *)
From FositeModel Require Import Base.Str Model.Scope Model.Core Model.Flows Proofs.CoreInv Proofs.StepInv Proofs.Family.

Definition grows_by (s : state) (r : state * obs) : Prop :=
  exists new, log (fst r) = (log s ++ new)%list /\ map i_kind new = o_minted (snd r).

Lemma grows_by_fail s s' e : log s' = log s -> grows_by s (fail s' e).
Proof. intros H. exists []. cbn. rewrite app_nil_r. auto. Qed.

Ltac same_log := apply grows_by_fail; reflexivity.

Lemma log_grant_tokens s stored w :
  exists new, log (fst (grant_tokens s stored w)) = (log s ++ new)%list /\ map i_kind new = snd (grant_tokens s stored w).
Proof. unfold grant_tokens, mint, log_add. destruct w; cbn; eexists; split; reflexivity. Qed.

Lemma log_fresh_grant s mk w :
  exists new, log (fst (fresh_grant s mk w)) = (log s ++ new)%list /\ map i_kind new = snd (fresh_grant s mk w).
Proof.
  unfold fresh_grant, fresh_rid.
  match goal with |- context [grant_tokens ?s1 ?st ?w] => destruct (log_grant_tokens s1 st w) as [new [H1 H2]] end.
  exists new. split; [exact H1|exact H2].
Qed.

Lemma log_pkce_token cfg s cl key v vh : log (fst (pkce_token cfg s cl key v vh)) = log s.
Proof. destruct (pkce_token_state cfg s cl key v vh) as [->|[k ->]]; reflexivity. Qed.

Lemma log_store_implicit cfg s cl a rid ec : log (fst (store_implicit cfg s cl a rid ec)) = log s.
Proof. unfold store_implicit, mint. reflexivity. Qed.

Lemma grows_authorize_core cfg s0 s cl a : log s0 = log s -> grows_by s (authorize_core cfg s0 cl a).
Proof.
  intros H0. unfold authorize_core, fresh_rid, mint, log_add, fail.
  destruct (negb (scopes_ok cfg cl (az_scopes a))); [apply grows_by_fail; exact H0|].
  destruct (negb (aud_ok cfg (cl_aud cl) (az_aud a))); [apply grows_by_fail; exact H0|].
  destruct (pkce_validate cfg (az_challenge a) (az_method a) cl); [apply grows_by_fail; exact H0|].
  destruct (String.eqb (az_challenge a) "" && String.eqb (az_method a) ""); cbn; rewrite H0; eexists; split; reflexivity.
Qed.

Lemma grows_authorize_implicit cfg s cl a : grows_by s (authorize_implicit cfg s cl a).
Proof.
  unfold authorize_implicit, fresh_rid, issue_implicit, store_implicit, mint, log_add.
  repeat match goal with |- context [if ?c then fail s _ else _] => destruct c; [same_log|] end.
  cbn. eexists. split; reflexivity.
Qed.

Lemma grows_authorize_hybrid cfg s cl a : grows_by s (authorize_hybrid cfg s cl a).
Proof.
  unfold authorize_hybrid, fresh_rid, issue_implicit, store_implicit, mint, log_add.
  repeat match goal with |- context [if ?c then fail s _ else _] => destruct c; [same_log|] end.
  destruct (negb (args_has (cl_grants cl) ["implicit"])); [same_log|].
  destruct (pkce_validate cfg (az_challenge a) (az_method a) cl); [same_log|].
  destruct (String.eqb (az_challenge a) "" && String.eqb (az_method a) ""); cbn;
    eexists; (split; [rewrite <- app_assoc; reflexivity|reflexivity]).
Qed.

Lemma grows_authorize cfg s a : grows_by s (authorize cfg s a).
Proof.
  unfold authorize. destruct (cf_par_enforced cfg); [same_log|].
  destruct (clients s (az_client a)) as [cl|]; [|same_log].
  destruct (az_rtype a); [apply grows_authorize_core; reflexivity|apply grows_authorize_implicit|apply grows_authorize_hybrid].
Qed.

Lemma grows_redeem cfg s auth code redirect v vh : grows_by s (redeem cfg s auth code redirect v vh).
Proof.
  unfold redeem.
  destruct auth as [c|]; [|same_log]. destruct (clients s c) as [cl|]; [|same_log].
  destruct (negb (args_has (cl_grants cl) ["authorization_code"])); [same_log|].
  destruct (key_of s code) as [k|]; [|same_log].
  destruct (codes (st s) k) as [[[|] r]|]; [| same_log |same_log].
  destruct (p_tampered code); [same_log|].
  destruct (negb (Nat.eqb (r_client r) c)); [same_log|].
  destruct (negb (String.eqb (r_redirect r) "") && negb (String.eqb (r_redirect r) redirect)); [same_log|].
  pose proof (log_pkce_token cfg s cl (Some k) v vh) as H1.
  destruct (pkce_token cfg s cl (Some k) v vh) as [s1 [e|]]; cbn [fst] in *; [apply grows_by_fail; exact H1|].
  destruct (expired _ _ _ _); [apply grows_by_fail; exact H1|].
  match goal with |- context [grant_tokens ?s2 ?stored ?w] =>
    destruct (log_grant_tokens s2 stored w) as [new [G1 G2]]; destruct (grant_tokens s2 stored w) as [s3 minted] end.
  cbn in *. exists new. rewrite <- H1. auto.
Qed.

Lemma grows_refresh_flow cfg s auth tok : grows_by s (refresh_flow cfg s auth tok).
Proof.
  unfold refresh_flow.
  destruct auth as [c|]; [|same_log]. destruct (clients s c) as [cl|]; [|same_log].
  destruct (negb (args_has (cl_grants cl) ["refresh_token"])); [same_log|].
  destruct (key_of s tok) as [k|]; cbn [find]; [|same_log].
  destruct (refresh (st s) k) as [[[|] r]|]; [| same_log |same_log].
  repeat match goal with |- context [if ?c then fail s _ else _] => destruct c; [same_log|] end.
  destruct (rotate_refresh (st s) (r_id r)) as [st1 [e|]]; [same_log|].
  match goal with |- context [grant_tokens ?s2 ?stored ?w] =>
    destruct (log_grant_tokens s2 stored w) as [new [G1 G2]]; destruct (grant_tokens s2 stored w) as [s3 minted] end.
  cbn in *. exists new. auto.
Qed.

Lemma grows_revoke cfg s auth tok h : grows_by s (revoke cfg s auth tok h).
Proof.
  unfold revoke.
  destruct auth as [c|]; [|same_log]. destruct (clients s c); [|same_log].
  destruct (revoke_lookup s (key_of s tok) h) as [r|]; [|same_log].
  destruct (negb (Nat.eqb (r_client r) c)); [same_log|].
  exists []. cbn. rewrite app_nil_r. auto.
Qed.

Lemma grows_push cfg s auth bc ru a : grows_by s (push cfg s auth bc ru a).
Proof.
  unfold push, fresh_rid, mint, log_add.
  destruct auth as [c|]; [|same_log]. destruct (clients s c); [|same_log].
  destruct ru; [same_log|].
  destruct (clients s _) as [cl|]; [|same_log].
  repeat match goal with |- context [if ?c then fail s _ else _] => destruct c; [same_log|] end.
  cbn. eexists. split; reflexivity.
Qed.

Lemma grows_device_authorize cfg s auth bc sc au : grows_by s (device_authorize cfg s auth bc sc au).
Proof.
  unfold device_authorize, fresh_rid, mint, log_add.
  destruct auth as [c|]; [|same_log]. destruct (clients s c) as [cl|]; [|same_log].
  repeat match goal with |- context [if ?c then fail s _ else _] => destruct c; [same_log|] end.
  cbn. eexists. split; reflexivity.
Qed.

Lemma grows_decide cfg s dev acc g ga sub fr : grows_by s (decide cfg s dev acc g ga sub fr).
Proof.
  unfold decide.
  destruct (key_of s dev) as [k|]; [|same_log].
  destruct (device (st s) k) as [[b r]|]; [|same_log].
  destruct (expired _ _ _ _); [same_log|].
  exists []. cbn. rewrite app_nil_r. auto.
Qed.

Lemma grows_device_poll cfg s auth dev : grows_by s (device_poll cfg s auth dev).
Proof.
  unfold device_poll.
  destruct auth as [c|]; [|same_log]. destruct (clients s c) as [cl|]; [|same_log].
  destruct (negb (args_has (cl_grants cl) _)); [same_log|].
  destruct (key_of s dev) as [k|]; [|same_log].
  destruct (used_device cfg (st s) k) as [rid|]; [same_log|].
  destruct (device (st s) k) as [[stt r]|]; [|same_log].
  repeat match goal with |- context [if ?c then fail s _ else _] => destruct c; [same_log|] end.
  match goal with |- context [grant_tokens ?s2 ?stored ?w] =>
    destruct (log_grant_tokens s2 stored w) as [new [G1 G2]]; destruct (grant_tokens s2 stored w) as [s3 minted] end.
  cbn in *. exists new. auto.
Qed.

Lemma grows_authorize_par cfg s cp uri a : grows_by s (authorize_par cfg s cp uri a).
Proof.
  unfold grows_by. rewrite authorize_par_fst, authorize_par_minted. unfold authorize_par0.
  destruct (key_of s uri) as [k|]; [|same_log].
  destruct (par (st s) k) as [pr|]; [|same_log].
  repeat match goal with |- context [if ?c then fail _ _ else _] => destruct c; [same_log|] end.
  apply grows_authorize_core. reflexivity.
Qed.

Lemma grows_password_flow cfg s auth ok sc au g ga : grows_by s (password_flow cfg s auth ok sc au g ga).
Proof.
  unfold password_flow. destruct auth as [c|]; [|same_log]. destruct (clients s c) as [cl|]; [|same_log].
  repeat match goal with |- context [if ?c then fail s _ else _] => destruct c; [same_log|] end.
  match goal with |- context [fresh_grant s ?mk ?w] =>
    destruct (log_fresh_grant s mk w) as [new [G1 G2]]; destruct (fresh_grant s mk w) as [s2 minted] end.
  cbn in *. exists new. auto.
Qed.

Lemma grows_client_credentials_flow cfg s auth sc au g ga : grows_by s (client_credentials_flow cfg s auth sc au g ga).
Proof.
  unfold client_credentials_flow. destruct auth as [c|]; [|same_log]. destruct (clients s c) as [cl|]; [|same_log].
  repeat match goal with |- context [if ?c then fail s _ else _] => destruct c; [same_log|] end.
  match goal with |- context [fresh_grant s ?mk ?w] =>
    destruct (log_fresh_grant s mk w) as [new [G1 G2]]; destruct (fresh_grant s mk w) as [s2 minted] end.
  cbn in *. exists new. auto.
Qed.

Theorem log_step_minted cfg s o : grows_by s (step cfg s o).
Proof.
  destruct o; cbn [step]; try (exists []; cbn; rewrite app_nil_r; auto; fail).
  - apply grows_authorize. - apply grows_redeem. - apply grows_refresh_flow. - apply grows_revoke.
  - exists []. cbn. rewrite app_nil_r. destruct (introspect _ _ _ _ _); auto.
  - apply grows_password_flow. - apply grows_client_credentials_flow.
  - exists []. cbn. rewrite app_nil_r. split; [reflexivity|]. unfold introspect_ep.
    repeat match goal with |- context [match ?x with _ => _ end] => destruct x end; reflexivity.
  - apply grows_push. - apply grows_authorize_par. - apply grows_device_authorize. - apply grows_decide.
  - apply grows_device_poll.
Qed.
