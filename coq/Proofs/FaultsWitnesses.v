(* C18: concrete witnesses (evaluated by vm_compute) for the clauses the faithful model refutes, and examples showing
   that the hypotheses of the positive theorems are satisfiable. *)
From FositeModel Require Import Base.Str Model.Scope Model.Core Model.Flows Model.Faults Cases.CasesC18
     Proofs.CoreInv Proofs.StepInv Proofs.FaultsProofs Proofs.FaultsFlows Proofs.FaultsFlows2 Proofs.FaultsTheorems.
Arguments upd : simpl never.

(* ================================================================== witnesses *)
Definition cfgW : config :=
  Build_config SExact false [] 600000%Z 3600000%Z 86400000%Z false false true true 600000%Z 300000%Z false false.
Definition clsW : list client := [Build_client false ["authorization_code"; "refresh_token"; "urn:ietf:params:oauth:grant-type:device_code"] ["photos"] [] None].
Definition authzW (challenge method : string) : op :=
  OAuthorize (Build_authz RCode 0 "" ["photos"] ["photos"] [] [] "peter" challenge method "").
Definition redeemW : op := ORedeem (Some 0) (Build_pres (CRef 0) false) "" "" "" [].
Definition envW (tx : bool) (plan : list (nat * fault)) : fenv := {| fe_tx := tx; fe_plan := plan_of plan |}.

(* a code bound to a PKCE challenge; the token request carries no verifier *)
Definition sW1 : state := run cfgW (state0 (clients_of clsW)) [authzW "E9Melhoa2OwvFrEMTJguCHaoeK1t8URWbuGJSstw-cM" "S256"].
(* a redeemed code: log = [code; access; refresh] *)
Definition sW2 : state := run cfgW (state0 (clients_of clsW)) [authzW "" ""; redeemW].
(* an unredeemed code without PKCE *)
Definition sW3 : state := run cfgW (state0 (clients_of clsW)) [authzW "" ""].

(* (b) at full strength is false of the model (and of the code): ErrNotFound from GetPKCERequestSession is read as
   "no PKCE session" *)
Lemma witness_pkce :
  let '(s', ob, calls) := fstep (envW false [(1, FNotFound)]) cfgW sW1 redeemW in
  In (MGetPkce, RInj FNotFound) calls /\ o_err ob = "" /\ o_minted ob = [KAccess; KRefresh] /\
  o_err (snd (step cfgW sW1 redeemW)) = "invalid_grant".
Proof. vm_compute. repeat split; auto. Qed.

(* revocation: ErrNotFound from RevokeRefreshToken is read as "already revoked" *)
Definition revokeW : op := ORevoke (Some 0) (Build_pres (CRef 2) false) HRefresh.
Lemma witness_revocation :
  let '(s', ob, calls) := fstep (envW false [(1, FNotFound)]) cfgW sW2 revokeW in
  In (MRevokeRT, RInj FNotFound) calls /\ o_err ob = "" /\
  is_some (introspect cfgW s' (Build_pres (CRef 2) false) HRefresh []) = true /\
  is_some (introspect cfgW (fst (step cfgW sW2 revokeW)) (Build_pres (CRef 2) false) HRefresh []) = false.
Proof. vm_compute. repeat split; auto. Qed.

(* a failure after the issuing transaction was committed (here: DeletePKCERequestSession, call 9) is answered with an
   error although the code is consumed and the tokens are stored: the holder's retry is refused *)
Lemma witness_after_commit :
  let '(s', ob, calls) := fstep (envW true [(9, FGen)]) cfgW sW3 redeemW in
  o_err ob = "server_error" /\ o_minted ob = [] /\ tx_wf calls = true /\ In (MCommit, ROk) calls /\
  In (MDeletePkce, RInj FGen) calls /\ map (status_of s') (log s') = [2] /\
  o_err (snd (step cfgW s' redeemW)) = "invalid_grant".
Proof. vm_compute. repeat split; auto 12. Qed.

(* non-vacuity of (d): a write fails inside the transaction, the rollback succeeds, the tables are as before and the
   holder's retry gets the tokens *)
Lemma example_rolled_back :
  let '(s', ob, calls) := fstep (envW true [(5, FSerial)]) cfgW sW3 redeemW in
  rolled_back true calls = true /\ o_err ob = "server_error" /\
  calls = [(MGetCode, ROk); (MGetPkce, RNotFound); (MGetCode, ROk); (MBegin, ROk); (MInvalidateCode, ROk);
           (MCreateAT, RInj FSerial); (MRollback, ROk)] /\
  digest_of s' = digest_of sW3 /\ o_minted (snd (step cfgW s' redeemW)) = [KAccess; KRefresh].
Proof. vm_compute. repeat split; auto. Qed.

(* the device handler does roll back after a failed write (its deferred function reads the local [err] that the writes
   assign with "=") *)
Definition sW4 : state :=
  run cfgW (state0 (clients_of clsW))
      [ODeviceAuth (Some 0) 0 ["photos"] []; ODecide (Build_pres (CRef 0) false) true ["photos"] [] "peter" false].
Definition pollW : op := ODevicePoll (Some 0) (Build_pres (CRef 0) false).
Lemma example_device_rollback :
  let '(s', ob, calls) := fstep (envW true [(4, FGen)]) cfgW sW4 pollW in
  calls = [(MGetDevice, ROk); (MGetDevice, ROk); (MBegin, ROk); (MInvalidateDevice, ROk); (MCreateAT, RInj FGen); (MRollback, ROk)] /\
  o_err ob = "server_error" /\ digest_of s' = digest_of sW4 /\ o_minted (snd (step cfgW s' pollW)) = [KAccess; KRefresh].
Proof. vm_compute. repeat split; auto. Qed.

(* the refresh flow answers a serialization conflict inside its transaction with the retry class, and the retry works *)
Definition refreshW : op := ORefresh (Some 0) (Build_pres (CRef 2) false) [].
Lemma example_refresh_serialization :
  let '(s', ob, calls) := fstep (envW true [(2, FSerial)]) cfgW sW2 refreshW in
  calls = [(MGetRT, ROk); (MBegin, ROk); (MRotateRT, RInj FSerial); (MRollback, ROk)] /\
  o_err ob = "invalid_request" /\ digest_of s' = digest_of sW2 /\ o_minted (snd (step cfgW s' refreshW)) = [KAccess; KRefresh].
Proof. vm_compute. repeat split; auto. Qed.

(* a store that answers ErrInactiveToken for a refresh token it has no record of: refused with server_error before any
   write or BeginTX (the request used to end in a panic with the transaction left open) *)
Definition refreshUnknownW : op := ORefresh (Some 0) (Build_pres CUnknown false) [].
Lemma example_reuse_report_without_request :
  let '(s', ob, calls) := fstep (envW true [(0, FInactive)]) cfgW sW2 refreshUnknownW in
  o_err ob = "server_error" /\ calls = [(MGetRT, RInj FInactive)] /\ tx_wf calls = true /\ digest_of s' = digest_of sW2.
Proof. vm_compute. repeat split; auto. Qed.

Theorem refusal_after_every_fault_refuted :
  exists e cfg s o m f, faultable o = true /\ is_revoke o = false /\
    let '(s', ob, calls) := fstep e cfg s o in In (m, RInj f) calls /\ o_err ob = "" /\ o_minted ob <> [].
Proof.
  exists (envW false [(1, FNotFound)]), cfgW, sW1, redeemW, MGetPkce, FNotFound. split; [reflexivity|]. split; [reflexivity|].
  pose proof witness_pkce as H. destruct (fstep _ cfgW sW1 redeemW) as [[s' ob] calls]. destruct H as (H1 & H2 & H3 & _).
  split; [exact H1|]. split; [exact H2|]. rewrite H3. discriminate.
Qed.

Theorem accepted_revocation_revokes_refuted :
  exists e cfg s auth tok h m f,
    let '(s', ob, calls) := fstep e cfg s (ORevoke auth tok h) in
    In (m, RInj f) calls /\ o_err ob = "" /\ is_some (introspect cfg s' tok h []) = true.
Proof.
  exists (envW false [(1, FNotFound)]), cfgW, sW2, (Some 0), (Build_pres (CRef 2) false), HRefresh, MRevokeRT, FNotFound.
  pose proof witness_revocation as H. unfold revokeW in H. destruct (fstep _ cfgW sW2 _) as [[s' ob] calls].
  destruct H as (H1 & H2 & H3 & _). auto.
Qed.

(* "any failure with a transactional store leaves the tables unchanged" is false: writes happen after the commit *)
Theorem atomic_request_refuted :
  exists e cfg s o, fe_tx e = true /\ faultable o = true /\
    let '(s', ob, calls) := fstep e cfg s o in
    o_err ob <> "" /\ (exists m f, In (m, RInj f) calls) /\ digest_of s' <> digest_of s /\ o_err (snd (step cfg s' o)) <> "".
Proof.
  exists (envW true [(9, FGen)]), cfgW, sW3, redeemW. split; [reflexivity|]. split; [reflexivity|].
  pose proof witness_after_commit as H.
  assert (Hd : forall s', map (status_of s') (log s') = [2] -> digest_of s' <> digest_of sW3).
  { intros s' H1 H2. unfold digest_of in H2. rewrite H1 in H2. vm_compute in H2. discriminate. }
  destruct (fstep _ cfgW sW3 redeemW) as [[s' ob] calls]. destruct H as (H1 & _ & _ & _ & H5 & H6 & H7).
  split; [rewrite H1; discriminate|]. split; [eauto|]. split; [auto|]. rewrite H7. discriminate.
Qed.
