(* Flow-level theorems of the fault model, continued: the refresh flow (issuing transaction, reuse handler, the
   nil-requester panic) and revocation. *)
From FositeModel Require Import Base.Str Model.Scope Model.Core Model.Flows Model.Faults Cases.CasesC18
     Proofs.CoreInv Proofs.StepInv Proofs.FaultsProofs Proofs.FaultsFlows.
Arguments upd : simpl never.

Ltac use_reuse Hc Hwf Hpl Hsn Hcl Hnow Hlog Hkey Hle Herr Hrb Hser :=
  match goal with
  | H : freuse ?e ?x ?k ?rid = (?y, ?res) |- _ =>
      let L := fresh "L" in let l := fresh "l" in
      assert (L : reuse_okp e x (freuse e x k rid)) by (apply freuse_ok; reflexivity);
      rewrite H in L; destruct L as [l L]; cbn [fst snd] in L;
      destruct L as [Hc Hwf Hpl Hsn Hcl Hnow Hlog Hkey Hle Herr Hrb Hser]; clear H
  end.

Ltac reuse_flow_leaf Etx :=
  let Hc := fresh "Hc" in let Hwf := fresh "Hwf" in let Hpl := fresh "Hpl" in let Hsn := fresh "Hsn" in
  let Hcl := fresh "Hcl" in let Hnow := fresh "Hnow" in let Hlog := fresh "Hlog" in let Hkey := fresh "Hkey" in
  let Hle := fresh "Hle" in let Herr := fresh "Herr" in let Hrb := fresh "Hrb" in let Hser := fresh "Hser" in
  use_reuse Hc Hwf Hpl Hsn Hcl Hnow Hlog Hkey Hle Herr Hrb Hser; fl_cbn_all;
  unfold flow_okp, flow_ok; fl_cbn; rewrite ?Hc, ?Hsn, ?Hcl, ?Hnow, ?Hlog; cbn [app];
  mon_unfold; mon_cbn; rewrite ?existsb_app, ?forallb_app, ?tx_run_app; mon_cbn;
  rewrite ?Hwf; try (destruct (Herr _ eq_refl) as [-> | ->]); mon_cbn;
  try (rewrite (Hpl Etx)); rewrite ?Etx in *; mon_cbn;
  serial_cases Hser; mon_cbn;
  rewrite ?andb_false_r, ?orb_false_r, ?andb_true_r; mon_cbn;
  repeat match goal with |- _ /\ _ => split end;
  try reflexivity; try (right; reflexivity); try (left; reflexivity); try (intros; discriminate); try assumption;
  try (intros Hx; split; [apply Hrb; cbn [negb andb]; rewrite ?andb_true_r; exact Hx|reflexivity]).

Lemma frefresh_ok e cfg s auth tok sm :
  flow_okp e s (ORefresh auth tok sm) (frefresh e cfg (finit s) auth tok).
Proof.
  flow_unfold. fl_cbn. destruct (fe_tx e) eqn:Etx; destruct (key_of s tok) eqn:Ek.
  all: flow_split.
  all: try (lazymatch goal with
                 | H : tx_block _ _ _ _ _ _ _ _ = _ |- _ => fail
                 | H : freuse _ _ _ _ = _ |- _ => fail
                 | _ => solve [leaf] end).
  all: try solve [blk_flow_leaf Etx].
  all: solve [reuse_flow_leaf Etx].
Qed.


(* ================================================================== revocation: no transaction, no minting *)
Definition notx (l : list call) : bool := forallb (fun c => negb (is_tx_meth (fst c))) l.
Record Rinv (s : state) (x : fstate) : Prop := {
  ri_notx : notx (f_calls x) = true;
  ri_snap : f_snap x = None;
  ri_clients : clients (f_s x) = clients s;
  ri_now : now (f_s x) = now s;
  ri_log : log (f_s x) = log s;
  ri_le : store_le (next_key s) (st s) (st (f_s x))
}.
Lemma R_finit s : Rinv s (finit s).
Proof. constructor; try reflexivity. apply sle_refl. Qed.
Lemma R_logc s x m c : is_tx_meth m = false -> Rinv s x -> Rinv s (logc x m c).
Proof.
  intros Hm [H1 H2 H3 H4 H5 H6]. constructor; cbn [f_calls f_snap f_s logc]; auto.
  unfold notx in *. rewrite forallb_app. apply andb_true_iff. split; [exact H1|cbn; now rewrite Hm].
Qed.
Lemma R_rd e s x m c : is_tx_meth m = false -> Rinv s x -> Rinv s (snd (rd e x m c)).
Proof. intros Hm H. unfold rd. destruct (planned e x); [destruct (coincides _ _)|]; cbn [snd]; now apply R_logc. Qed.
Lemma R_wr e s x m c : is_tx_meth m = false -> Rinv s x -> Rinv s (snd (wr e x m c)).
Proof. intros Hm H. unfold wr. destruct (planned e x); cbn [snd]; now apply R_logc. Qed.
Lemma R_with_store s x v : Rinv s x -> store_le (next_key s) (st (f_s x)) v -> Rinv s (with_store x v).
Proof. intros [H1 H2 H3 H4 H5 H6] Hv. constructor; cbn; auto. eapply sle_trans; eassumption. Qed.

Lemma lookup_rt_R e s x key : Rinv s x -> Rinv s (fst (lookup_rt e x key)).
Proof.
  intros H. unfold lookup_rt.
  pose proof (R_rd e s x MGetRT (rt_class (f_s x) key) eq_refl H) as H1.
  destruct (rd e x MGetRT (rt_class (f_s x) key)) as [[f|] x1]; cbn [fst snd] in *; [assumption|].
  destruct (find (refresh (st (f_s x))) key) as [[[|] ?]|]; assumption.
Qed.
Lemma lookup_at_R e s x key : Rinv s x -> Rinv s (fst (lookup_at e x key)).
Proof.
  intros H. unfold lookup_at.
  match goal with |- context [rd e x MGetAT ?c] => pose proof (R_rd e s x MGetAT c eq_refl H) as H1; destruct (rd e x MGetAT c) as [[f|] x1] end;
    cbn [fst snd] in *; [assumption|].
  destruct (lookup_access (st (f_s x)) key); assumption.
Qed.

Lemma notx_wf l : notx l = true -> tx_run QIdle l = Some QIdle.
Proof.
  unfold notx. induction l as [|[m r] l IH]; cbn [forallb tx_run]; [reflexivity|].
  intros H. apply andb_true_iff in H as [Hm Hl]. cbn [fst] in Hm.
  assert (Hs : tx_step QIdle (ev_of (m, r)) = Some QIdle).
  { destruct m; try discriminate Hm; destruct r as [| | | |f]; cbn; try reflexivity; destruct f; reflexivity. }
  rewrite Hs. auto.
Qed.
Lemma notx_any l : notx l = true -> existsb (fun c : call => is_tx_meth (fst c)) l = false.
Proof.
  unfold notx. induction l as [|c l IH]; cbn; [reflexivity|].
  intros H. apply andb_true_iff in H as [Hm Hl]. rewrite (IH Hl). destruct (is_tx_meth (fst c)); [discriminate|reflexivity].
Qed.
Lemma notx_has l m p : is_tx_meth m = true -> notx l = true -> has_call l m p = false.
Proof.
  unfold notx, has_call. intros Hm. induction l as [|[m' r] l IH]; cbn; [reflexivity|].
  intros H. apply andb_true_iff in H as [H1 Hl]. rewrite (IH Hl). cbn [fst] in H1.
  destruct m, m'; try discriminate Hm; try discriminate H1; reflexivity.
Qed.

Lemma frevoke_R e cfg s auth tok h :
  Rinv s (fst (frevoke e cfg (finit s) auth tok h)) /\ (o_minted (snd (frevoke e cfg (finit s) auth tok h)) = [] /\ panicked (snd (frevoke e cfg (finit s) auth tok h)) = false).
Proof.
  unfold frevoke, ffail. cbv zeta. cbn [f_s finit].
  pose proof (R_finit s) as H0.
  destruct auth as [c|]; [|split; [exact H0|now split]].
  destruct (clients s c); [|split; [exact H0|now split]].
  assert (Hproceed : forall x2 r, Rinv s x2 ->
    let res := (if negb (Nat.eqb (r_client r) c) then (x2, err_obs "unauthorized_client")
        else
          let (st3, oe) := revoke_refresh (st (f_s x2)) (r_id r) in
          let (c3, x3) := match wr e x2 MRevokeRT (serr_class oe) with
                          | (Some f, y) => (RInj f, y)
                          | (None, y) => (serr_class oe, with_store y st3)
                          end in
          let (c4, x4) := match wr e x3 MRevokeAT ROk with
                          | (Some f, y) => (RInj f, y)
                          | (None, y) => (ROk, with_store y (revoke_access (st (f_s y)) (r_id r)))
                          end in
          if benign c3 && benign c4 then (x4, ok_obs [] 0%Z []) else (x4, err_obs "temporarily_unavailable")) in
    Rinv s (fst res) /\ (o_minted (snd res) = [] /\ panicked (snd res) = false)).
  { intros x2 r H2. cbv zeta. destruct (negb (Nat.eqb (r_client r) c)); [split; [exact H2|now split]|].
    destruct (revoke_refresh (st (f_s x2)) (r_id r)) as [st3 oe] eqn:Er.
    pose proof (R_wr e s x2 MRevokeRT (serr_class oe) eq_refl H2) as H3.
    assert (H3' : Rinv s (snd (match wr e x2 MRevokeRT (serr_class oe) with
                          | (Some f, y) => (RInj f, y)
                          | (None, y) => (serr_class oe, with_store y st3) end))).
    { unfold wr in *. destruct (planned e x2); cbn [fst snd] in *; [assumption|].
      apply R_with_store; [assumption|]. cbn. eapply sle_revoke_refresh; exact Er. }
    destruct (match wr e x2 MRevokeRT (serr_class oe) with
              | (Some f, y) => (RInj f, y) | (None, y) => (serr_class oe, with_store y st3) end) as [c3 x3].
    cbn [snd] in H3'.
    pose proof (R_wr e s x3 MRevokeAT ROk eq_refl H3') as H4.
    assert (H4' : Rinv s (snd (match wr e x3 MRevokeAT ROk with
                          | (Some f, y) => (RInj f, y)
                          | (None, y) => (ROk, with_store y (revoke_access (st (f_s y)) (r_id r))) end))).
    { unfold wr in *. destruct (planned e x3); cbn [fst snd] in *; [assumption|].
      apply R_with_store; [assumption|]. apply sle_revoke_access. }
    destruct (match wr e x3 MRevokeAT ROk with
              | (Some f, y) => (RInj f, y) | (None, y) => (ROk, with_store y (revoke_access (st (f_s y)) (r_id r))) end) as [c4 x4].
    cbn [snd] in H4'. destruct (benign c3 && benign c4); split; try assumption; now split. }
  set (first := match h with HAccess => lookup_at | _ => lookup_rt end).
  set (second := match h with HAccess => lookup_rt | _ => lookup_at end).
  assert (Hf : forall x key, Rinv s x -> Rinv s (fst (first e x key))) by (intros; subst first; destruct h; auto using lookup_rt_R, lookup_at_R).
  assert (Hs : forall x key, Rinv s x -> Rinv s (fst (second e x key))) by (intros; subst second; destruct h; auto using lookup_rt_R, lookup_at_R).
  pose proof (Hf (finit s) (key_of s tok) H0) as H1.
  destruct (first e (finit s) (key_of s tok)) as [x1 [r|c1]]; cbn [fst] in H1.
  - apply Hproceed; assumption.
  - pose proof (Hs x1 (key_of s tok) H1) as H2.
    destruct (second e x1 (key_of s tok)) as [x2 [r|c2]]; cbn [fst] in H2.
    + apply Hproceed; assumption.
    + destruct (benign c1 && benign c2); split; try assumption; now split.
Qed.

Lemma frevoke_ok e cfg s auth tok h :
  flow_okp e s (ORevoke auth tok h) (frevoke e cfg (finit s) auth tok h).
Proof.
  destruct (frevoke_R e cfg s auth tok h) as [[H1 H2 H3 H4 H5 H6] [Hm Hp]].
  unfold flow_okp, flow_ok.
  set (x' := fst (frevoke e cfg (finit s) auth tok h)) in *.
  set (ob := snd (frevoke e cfg (finit s) auth tok h)) in *.
  assert (Hrbf : rolled_back (fe_tx e) (f_calls x') = false)
    by (unfold rolled_back; rewrite (notx_has _ MBegin is_ok eq_refl H1); now rewrite andb_false_r).
  repeat split; auto; try congruence;
    try (match goal with Hk : _ < _ |- _ => destruct (H6 _ Hk) as [? [? [? [? ?]]]]; assumption end).
  - pose proof (notx_any _ H1) as Ha. unfold mon_c, tx_wf, call in *. rewrite (notx_wf _ H1), Ha. cbn. now rewrite andb_false_r.
  - unfold mon_b, no_tokens. rewrite Hm. cbn [negb is_revoke]. rewrite andb_false_r. left; reflexivity.
Qed.
