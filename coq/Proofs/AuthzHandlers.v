(* The handler loop of NewAuthorizeResponse and the writers (Model/Authz.v): invariants that every
   authorize endpoint handler preserves, and what they give for every answer of the endpoint. *)
From FositeModel Require Import Base.Str Model.Scope Model.Authz Proofs.AuthzProofs.

(* ------------------------------------------------------------------ parameters *)
Lemma has_param_app k p q : has_param k (p ++ q)%list = has_param k p || has_param k q.
Proof. unfold has_param. apply existsb_app. Qed.

Lemma has_param_In k p : has_param k p = true <-> exists v, In (k, v) p.
Proof.
  unfold has_param. rewrite existsb_exists. split.
  - intros [[k' v] [Hin He]]. cbn in He. apply String.eqb_eq in He. subst. now exists v.
  - intros [v Hin]. exists (k, v). split; [assumption|]. cbn. apply String.eqb_refl.
Qed.

Definition tokens_in (p : form) : bool := has_param "access_token" p || has_param "id_token" p.

(* ------------------------------------------------------------------ the invariant *)
(* the parts of the request no handler touches *)
Definition same_base (a b : areq) : Prop :=
  a_form a = a_form b /\ a_state a = a_state b /\ a_cl a = a_cl b /\ a_scopes a = a_scopes b /\
  a_granted a = a_granted b /\ a_redir a = a_redir b /\ a_rtypes a = a_rtypes b.

Definition id_token_ok (cfg : config) (cl : client) (ar0 : areq) : Prop :=
  min_entropy cfg <= String.length (fget "nonce" (a_form ar0)) /\
  fget "redirect_uri" (a_form ar0) <> "" /\
  args_has (a_granted ar0) ["openid"] = true /\
  (args_has (c_grants cl) ["implicit"] = true \/ args_has (a_rtypes ar0) ["code"] = true).

Definition mode_frag (ar : areq) : Prop := a_defmode ar = "fragment" /\ a_rmode ar <> "".

Record inv (cfg : config) (cl : client) (ar0 : areq) (h : hstate) : Prop := {
  i_base : same_base (h_ar h) ar0;
  i_at : has_param "access_token" (h_params h) = true -> args_has (c_grants cl) ["implicit"] = true;
  i_fx : 0 < x_access (h_fx h) -> args_has (c_grants cl) ["implicit"] = true;
  i_idt : has_param "id_token" (h_params h) = true -> id_token_ok cfg cl ar0;
  i_mode : tokens_in (h_params h) = true -> mode_frag (h_ar h);
  i_state : forall v, In ("state", v) (h_params h) -> v = a_state ar0;
  i_rmode : a_rmode (h_ar h) = a_rmode ar0 \/
            (a_rmode ar0 = "" /\ (a_rmode (h_ar h) = "query" \/ a_rmode (h_ar h) = "fragment"))
}.

(* on success: a handler that marked a response type as handled has also put the state in *)
Definition echo (h : hstate) : Prop :=
  a_handled (h_ar h) <> [] -> has_param "state" (h_params h) = true.

Lemma same_base_refl a : same_base a a.
Proof. repeat split. Qed.

(* ---- primitive steps *)
Lemma sdm_base ar m : same_base (set_default_mode ar m) ar.
Proof. repeat split. Qed.

Lemma sdm_frag ar : mode_frag (set_default_mode ar "fragment").
Proof.
  unfold mode_frag, set_default_mode. cbn. split; [reflexivity|].
  destruct (String.eqb_spec (a_rmode ar) ""); [discriminate|assumption].
Qed.

Lemma sdm_rmode ar m : m = "query" \/ m = "fragment" ->
  a_rmode (set_default_mode ar m) = a_rmode ar \/
  (a_rmode ar = "" /\ (a_rmode (set_default_mode ar m) = "query" \/ a_rmode (set_default_mode ar m) = "fragment")).
Proof.
  intros Hm. unfold set_default_mode. cbn. destruct (String.eqb_spec (a_rmode ar) ""); [|now left].
  right. split; [assumption|]. destruct Hm; subst; auto.
Qed.

Lemma rmode_trans (a b c : string) :
  (b = a \/ (a = "" /\ (b = "query" \/ b = "fragment"))) ->
  (c = b \/ (b = "" /\ (c = "query" \/ c = "fragment"))) ->
  (c = a \/ (a = "" /\ (c = "query" \/ c = "fragment"))).
Proof.
  intros [->|[Ha Hb]] [->|[Hb' Hc]]; auto; try (right; auto; fail).
Qed.

Lemma inv_sdm_fragment cfg cl ar0 h :
  inv cfg cl ar0 h -> inv cfg cl ar0 (hs_ar h (set_default_mode (h_ar h) "fragment")).
Proof.
  intros [B A F I M S R]. constructor; cbn [hs_ar h_ar h_params h_fx]; try assumption.
  - intros _. apply sdm_frag.
  - eapply rmode_trans; [exact R|]. apply sdm_rmode. now right.
Qed.

Lemma inv_sdm_query cfg cl ar0 h :
  tokens_in (h_params h) = false ->
  inv cfg cl ar0 h -> inv cfg cl ar0 (hs_ar h (set_default_mode (h_ar h) "query")).
Proof.
  intros Hno [B A F I M S R]. constructor; cbn [hs_ar h_ar h_params h_fx]; try assumption.
  - rewrite Hno. discriminate.
  - eapply rmode_trans; [exact R|]. apply sdm_rmode. now left.
Qed.

Lemma inv_add_plain cfg cl ar0 h k v :
  k <> "access_token" -> k <> "id_token" -> k <> "state" ->
  inv cfg cl ar0 h -> inv cfg cl ar0 (add_param h k v).
Proof.
  intros H1 H2 H3 [B A F I M S R].
  assert (N : forall k', k <> k' -> has_param k' (h_params h ++ [(k, v)])%list = has_param k' (h_params h)).
  { intros k' Hk. rewrite has_param_app. unfold has_param at 2. cbn [existsb fst]. destruct (String.eqb_spec k k'); [contradiction|]. now rewrite !orb_false_r. }
  constructor; cbn [add_param h_ar h_params h_fx]; try assumption.
  - rewrite N by assumption. assumption.
  - rewrite N by assumption. assumption.
  - unfold tokens_in. rewrite !N by assumption. assumption.
  - intros v' Hin. apply in_app_iff in Hin as [Hin|[Heq|[]]]; [auto|]. injection Heq as Hk _. contradiction.
Qed.

Lemma inv_add_state cfg cl ar0 h :
  inv cfg cl ar0 h -> inv cfg cl ar0 (add_param h "state" (a_state (h_ar h))).
Proof.
  intros [B A F I M S R].
  assert (N : forall k', "state" <> k' -> has_param k' (h_params h ++ [("state", a_state (h_ar h))])%list = has_param k' (h_params h)).
  { intros k' Hk. rewrite has_param_app. unfold has_param at 2. cbn [existsb fst]. destruct (String.eqb_spec "state" k'); [contradiction|]. now rewrite !orb_false_r. }
  constructor; cbn [add_param h_ar h_params h_fx]; try assumption.
  - rewrite N by discriminate. assumption.
  - rewrite N by discriminate. assumption.
  - unfold tokens_in. rewrite !N by discriminate. assumption.
  - intros v' Hin. apply in_app_iff in Hin as [Hin|[Heq|[]]]; [auto|]. injection Heq as <-. apply B.
Qed.

Lemma inv_add_at cfg cl ar0 h v :
  args_has (c_grants cl) ["implicit"] = true -> mode_frag (h_ar h) ->
  inv cfg cl ar0 h -> inv cfg cl ar0 (add_param h "access_token" v).
Proof.
  intros Himp Hm [B A F I M S R].
  assert (N : forall k', "access_token" <> k' -> has_param k' (h_params h ++ [("access_token", v)])%list = has_param k' (h_params h)).
  { intros k' Hk. rewrite has_param_app. unfold has_param at 2. cbn [existsb fst]. destruct (String.eqb_spec "access_token" k'); [contradiction|]. now rewrite !orb_false_r. }
  constructor; cbn [add_param h_ar h_params h_fx]; try assumption.
  - intros _. assumption.
  - rewrite N by discriminate. assumption.
  - intros _. assumption.
  - intros v' Hin. apply in_app_iff in Hin as [Hin|[Heq|[]]]; [auto|]. discriminate.
Qed.

Lemma inv_add_idt cfg cl ar0 h v :
  id_token_ok cfg cl ar0 -> mode_frag (h_ar h) ->
  inv cfg cl ar0 h -> inv cfg cl ar0 (add_param h "id_token" v).
Proof.
  intros Hok Hm [B A F I M S R].
  assert (N : forall k', "id_token" <> k' -> has_param k' (h_params h ++ [("id_token", v)])%list = has_param k' (h_params h)).
  { intros k' Hk. rewrite has_param_app. unfold has_param at 2. cbn [existsb fst]. destruct (String.eqb_spec "id_token" k'); [contradiction|]. now rewrite !orb_false_r. }
  constructor; cbn [add_param h_ar h_params h_fx]; try assumption.
  - rewrite N by discriminate. assumption.
  - intros _. assumption.
  - intros _. assumption.
  - intros v' Hin. apply in_app_iff in Hin as [Hin|[Heq|[]]]; [auto|]. discriminate.
Qed.

Lemma inv_handled cfg cl ar0 h t : inv cfg cl ar0 h -> inv cfg cl ar0 (handled h t).
Proof.
  intros [B A F I M S R]. constructor; cbn [handled hs_ar h_ar h_params h_fx]; assumption.
Qed.

Lemma inv_fx_code cfg cl ar0 h : inv cfg cl ar0 h -> inv cfg cl ar0 (fx_code h).
Proof. intros [B A F I M S R]. constructor; cbn [fx_code h_ar h_params h_fx x_access]; assumption. Qed.

Lemma inv_fx_oidc cfg cl ar0 h : inv cfg cl ar0 h -> inv cfg cl ar0 (fx_oidc h).
Proof. intros [B A F I M S R]. constructor; cbn [fx_oidc h_ar h_params h_fx x_access]; assumption. Qed.

Lemma inv_fx_access cfg cl ar0 h :
  args_has (c_grants cl) ["implicit"] = true -> inv cfg cl ar0 h -> inv cfg cl ar0 (fx_access h).
Proof. intros Himp [B A F I M S R]. constructor; cbn [fx_access h_ar h_params h_fx x_access]; try assumption. intros _. assumption. Qed.

Lemma inv_issue_access_token cfg cl ar0 h :
  args_has (c_grants cl) ["implicit"] = true -> mode_frag (h_ar h) ->
  inv cfg cl ar0 h -> inv cfg cl ar0 (issue_access_token h).
Proof.
  intros Himp Hm Hi. unfold issue_access_token.
  apply inv_handled.
  apply inv_add_plain; [discriminate..|].
  change (a_state (h_ar h)) with
    (a_state (h_ar (add_param (add_param (add_param (fx_access h) "access_token" "<access_token>") "expires_in" "<n>") "token_type" "bearer"))).
  apply inv_add_state.
  apply inv_add_plain; [discriminate..|].
  apply inv_add_plain; [discriminate..|].
  apply inv_add_at; [assumption|exact Hm|].
  apply inv_fx_access; assumption.
Qed.

Lemma issue_access_token_ar h : h_ar (issue_access_token h) = with_handled (h_ar h) "token".
Proof. reflexivity. Qed.

Lemma issue_access_token_state h : has_param "state" (h_params (issue_access_token h)) = true.
Proof.
  apply has_param_In. exists (a_state (h_ar h)). unfold issue_access_token. cbn [handled hs_ar add_param fx_access h_params h_ar].
  rewrite !in_app_iff. left. right. left. reflexivity.
Qed.

Lemma issue_handled_state h t : has_param "state" (h_params (handled (issue_access_token h) t)) = true.
Proof. exact (issue_access_token_state h). Qed.

Lemma has_param_add_same h k v : has_param k (h_params (add_param h k v)) = true.
Proof. apply has_param_In. exists v. cbn [add_param h_params]. apply in_app_iff. right. now left. Qed.

Lemma has_param_add_mono h k k' v : has_param k (h_params h) = true -> has_param k (h_params (add_param h k' v)) = true.
Proof. intros H. cbn [add_param h_params]. rewrite has_param_app, H. reflexivity. Qed.

Lemma tokens_in_add_plain p k v :
  k <> "access_token" -> k <> "id_token" -> tokens_in (p ++ [(k, v)])%list = tokens_in p.
Proof.
  intros H1 H2. unfold tokens_in. rewrite !has_param_app. unfold has_param at 2 4. cbn [existsb fst].
  destruct (String.eqb_spec k "access_token"); [contradiction|]. destruct (String.eqb_spec k "id_token"); [contradiction|].
  now rewrite !orb_false_r.
Qed.

(* ------------------------------------------------------------------ the handlers *)
Ltac norm_bool :=
  repeat match goal with
  | H : negb _ = true |- _ => apply negb_true_iff in H
  | H : negb _ = false |- _ => apply negb_false_iff in H
  | H : _ && _ = true |- _ => apply andb_true_iff in H; destruct H
  | H : _ || _ = false |- _ => apply orb_false_iff in H; destruct H
  end.

Ltac leaf H := injection H as <- <-.

Definition preserves (hd : handler) : Prop :=
  forall cfg cl se now ar0 h h' r,
    hd cfg cl se now h = (h', r) -> inv cfg cl ar0 h ->
    inv cfg cl ar0 h' /\ (r = None -> echo h -> echo h').

(* oauth2 explicit handler: it sets the default mode to query, so it must run before any token is
   in the response; it adds none *)
Lemma h_explicit_pres cfg cl se now ar0 h h' r :
  h_explicit cfg cl se now h = (h', r) -> tokens_in (h_params h) = false -> inv cfg cl ar0 h ->
  inv cfg cl ar0 h' /\ tokens_in (h_params h') = false /\ (r = None -> echo h -> echo h').
Proof.
  unfold h_explicit. intros H Hno Hi.
  destruct (args_exact_one (a_rtypes (h_ar h)) "code"); cbn [negb] in H.
  2:{ leaf H. auto. }
  destruct (redir_secure (h_ar h)); cbn [negb] in H.
  2:{ leaf H. split; [now apply inv_sdm_query|]. split; [assumption|discriminate]. }
  destruct (scopes_ok cfg cl (a_scopes (h_ar h))); cbn [negb] in H.
  2:{ leaf H. split; [now apply inv_sdm_query|]. split; [assumption|discriminate]. }
  leaf H. split; [|split].
  - apply inv_handled. apply inv_add_plain; [discriminate..|].
    change (a_state (h_ar h)) with
      (a_state (h_ar (add_param (fx_code (hs_ar h (set_default_mode (h_ar h) "query"))) "code" "<code>"))).
    apply inv_add_state. apply inv_add_plain; [discriminate..|]. apply inv_fx_code. now apply inv_sdm_query.
  - cbn [handled hs_ar add_param fx_code h_params h_ar].
    rewrite !tokens_in_add_plain by discriminate. assumption.
  - intros _ _ _. apply has_param_In. exists (a_state (h_ar h)). cbn [handled hs_ar add_param fx_code h_params h_ar].
    rewrite !in_app_iff. left. right. now left.
Qed.

Lemma h_implicit_pres : preserves h_implicit.
Proof.
  unfold preserves, h_implicit. intros cfg cl se now ar0 h h' r H Hi.
  destruct (args_exact_one (a_rtypes (h_ar h)) "token"); cbn [negb] in H.
  2:{ leaf H. auto. }
  destruct (args_has (c_grants cl) ["implicit"]) eqn:Eimp; cbn [negb] in H.
  2:{ leaf H. split; [now apply inv_sdm_fragment|discriminate]. }
  destruct (scopes_ok cfg cl (a_scopes (h_ar h))); cbn [negb] in H.
  2:{ leaf H. split; [now apply inv_sdm_fragment|discriminate]. }
  leaf H. split.
  - apply inv_issue_access_token; [assumption|apply sdm_frag|now apply inv_sdm_fragment].
  - intros _ _ _. apply issue_access_token_state.
Qed.

Lemma h_oidc_explicit_pres : preserves h_oidc_explicit.
Proof.
  unfold preserves, h_oidc_explicit. intros cfg cl se now ar0 h h' r H Hi.
  destruct (args_has (a_granted (h_ar h)) ["openid"] && args_exact_one (a_rtypes (h_ar h)) "code"); cbn [negb] in H.
  2:{ leaf H. auto. }
  destruct (has_param "code" (h_params h)); cbn [negb] in H.
  2:{ leaf H. split; [assumption|discriminate]. }
  destruct (String.eqb (fget "redirect_uri" (a_form (h_ar h))) "").
  { leaf H. split; [assumption|discriminate]. }
  destruct (validate_prompt cl (a_form (h_ar h)) (redir_secure (h_ar h)) se now).
  { leaf H. split; [assumption|discriminate]. }
  leaf H. split; [now apply inv_fx_oidc|]. intros _ He. exact He.
Qed.

Lemma gen_id_token_nonce cfg f se now :
  gen_id_token cfg f se now = None -> fget "nonce" f <> "" -> min_entropy cfg <= String.length (fget "nonce" f).
Proof.
  unfold gen_id_token. intros H Hn.
  destruct (s_oidc se); cbn [negb] in H; [|discriminate].
  destruct (String.eqb (s_subject se) ""); [discriminate|].
  match type of H with match ?p with _ => _ end = _ => destruct p; [discriminate|] end.
  destruct (String.eqb_spec (fget "nonce" f) ""); [contradiction|]. cbn [negb andb] in H.
  destruct (Nat.ltb_spec (String.length (fget "nonce" f)) (min_entropy cfg)); [discriminate|assumption].
Qed.

Lemma h_oidc_implicit_pres : preserves h_oidc_implicit.
Proof.
  unfold preserves, h_oidc_implicit. intros cfg cl se now ar0 h h' r H Hi.
  pose proof (i_base _ _ _ _ Hi) as [Bf [Bs [Bc [Bsc [Bg [Br Bt]]]]]].
  destruct (args_has (a_granted (h_ar h)) ["openid"]) eqn:Eg; cbn [negb andb] in H.
  2:{ leaf H. auto. }
  destruct (args_has (a_rtypes (h_ar h)) ["token"; "id_token"] || args_exact_one (a_rtypes (h_ar h)) "id_token"); cbn [negb] in H.
  2:{ leaf H. auto. }
  destruct (args_has (a_rtypes (h_ar h)) ["code"]).
  { leaf H. auto. }
  destruct (args_has (c_grants cl) ["implicit"]) eqn:Eimp; cbn [negb] in H.
  2:{ leaf H. split; [now apply inv_sdm_fragment|discriminate]. }
  destruct (String.eqb_spec (fget "redirect_uri" (a_form (h_ar h))) "") as [|Er].
  { leaf H. split; [now apply inv_sdm_fragment|discriminate]. }
  destruct (String.eqb_spec (fget "nonce" (a_form (h_ar h))) "") as [|En].
  { leaf H. split; [now apply inv_sdm_fragment|discriminate]. }
  destruct (Nat.ltb_spec (String.length (fget "nonce" (a_form (h_ar h)))) (min_entropy cfg)) as [|Hn].
  { leaf H. split; [now apply inv_sdm_fragment|discriminate]. }
  destruct (scopes_ok cfg cl (a_scopes (h_ar h))); cbn [negb] in H.
  2:{ leaf H. split; [now apply inv_sdm_fragment|discriminate]. }
  destruct (s_oidc se); cbn [negb] in H.
  2:{ leaf H. split; [now apply inv_sdm_fragment|discriminate]. }
  destruct (validate_prompt cl (a_form (h_ar h)) (redir_secure (h_ar h)) se now).
  { leaf H. split; [now apply inv_sdm_fragment|discriminate]. }
  assert (Hok : id_token_ok cfg cl ar0).
  { unfold id_token_ok. rewrite <- Bf, <- Bg. repeat split; auto. }
  set (h1 := hs_ar h (set_default_mode (h_ar h) "fragment")) in *.
  assert (Hi1 : inv cfg cl ar0 h1) by now apply inv_sdm_fragment.
  assert (Hm1 : mode_frag (h_ar h1)) by apply sdm_frag.
  destruct (args_has (a_rtypes (h_ar h)) ["token"]).
  - assert (Hi2 : inv cfg cl ar0 (handled (issue_access_token h1) "token"))
      by (apply inv_handled, inv_issue_access_token; assumption).
    destruct (gen_id_token cfg (a_form (h_ar h)) se now).
    + leaf H. split; [assumption|discriminate].
    + leaf H. split.
      * apply inv_handled. apply inv_add_idt; [assumption| |assumption]. exact Hm1.
      * intros _ _ _. apply has_param_add_mono. apply issue_access_token_state.
  - assert (Hi2 : inv cfg cl ar0 (add_param h1 "state" (a_state (h_ar h)))) by (apply (inv_add_state cfg cl ar0 h1); assumption).
    destruct (gen_id_token cfg (a_form (h_ar h)) se now).
    + leaf H. split; [assumption|discriminate].
    + leaf H. split.
      * apply inv_handled. apply inv_add_idt; [assumption| |assumption]. exact Hm1.
      * intros _ _ _. apply has_param_add_mono. apply has_param_add_same.
Qed.

Lemma h_oidc_hybrid_pres : preserves h_oidc_hybrid.
Proof.
  unfold preserves, h_oidc_hybrid. intros cfg cl se now ar0 h h' r H Hi.
  pose proof (i_base _ _ _ _ Hi) as [Bf [Bs [Bc [Bsc [Bg [Br Bt]]]]]].
  destruct (Nat.ltb (List.length (a_rtypes (h_ar h))) 2).
  { leaf H. auto. }
  destruct (args_matches (a_rtypes (h_ar h)) ["token"; "id_token"; "code"] || args_matches (a_rtypes (h_ar h)) ["token"; "code"]
            || args_matches (a_rtypes (h_ar h)) ["id_token"; "code"]) eqn:Em; cbn [negb] in H.
  2:{ leaf H. auto. }
  assert (Hcode : args_has (a_rtypes (h_ar h)) ["code"] = true).
  { cbn. rewrite andb_true_r.
    apply orb_true_iff in Em as [Em|Em]; [apply orb_true_iff in Em as [Em|Em]|];
      apply args_matches_spec in Em as [_ [Hin _]]; apply Hin; cbn; auto. }
  set (h1 := hs_ar h (set_default_mode (h_ar h) "fragment")) in *.
  assert (Hi1 : inv cfg cl ar0 h1) by now apply inv_sdm_fragment.
  assert (Hm1 : mode_frag (h_ar h1)) by apply sdm_frag.
  destruct (String.eqb_spec (fget "nonce" (a_form (h_ar h))) "") as [En|En]; cbn [negb andb] in H.
  - (* no nonce: no id_token may be requested *)
    destruct (args_has (a_rtypes (h_ar h)) ["id_token"]) eqn:Eidt.
    { leaf H. split; [assumption|discriminate]. }
    destruct (String.eqb (fget "redirect_uri" (a_form (h_ar h))) "").
    { leaf H. split; [assumption|discriminate]. }
    destruct (s_oidc se); cbn [negb] in H.
    2:{ leaf H. split; [assumption|discriminate]. }
    destruct (validate_prompt cl (a_form (h_ar h)) (redir_secure (h_ar h)) se now).
    { leaf H. split; [assumption|discriminate]. }
    destruct (scopes_ok cfg cl (a_scopes (h_ar h))); cbn [negb] in H.
    2:{ leaf H. split; [assumption|discriminate]. }
    rewrite Hcode in H.
    destruct (args_has (c_grants cl) ["authorization_code"]); cbn [negb] in H.
    2:{ leaf H. split; [assumption|discriminate]. }
    set (h2 := if args_has (a_granted (h_ar h)) ["openid"]
               then fx_oidc (handled (add_param (fx_code h1) "code" "<code>") "code")
               else handled (add_param (fx_code h1) "code" "<code>") "code") in *.
    assert (Hi2 : inv cfg cl ar0 h2).
    { subst h2. destruct (args_has (a_granted (h_ar h)) ["openid"]); [apply inv_fx_oidc|];
        apply inv_handled, inv_add_plain; try discriminate; now apply inv_fx_code. }
    assert (Hm2 : mode_frag (h_ar h2)) by (subst h2; destruct (args_has (a_granted (h_ar h)) ["openid"]); exact Hm1).
    assert (Hs2 : a_state (h_ar h2) = a_state (h_ar h)) by (subst h2; destruct (args_has (a_granted (h_ar h)) ["openid"]); reflexivity).
    rewrite orb_true_r in H.
    destruct (args_has (a_rtypes (h_ar h)) ["token"]).
    + destruct (args_has (c_grants cl) ["implicit"]) eqn:Eimp; cbn [negb] in H.
      2:{ leaf H. split; [assumption|discriminate]. }
      rewrite issue_handled_state in H.
      leaf H. split.
      * apply inv_handled, inv_handled, inv_issue_access_token; assumption.
      * intros _ _ _. apply issue_access_token_state.
    + cbn beta iota in H. destruct (has_param "state" (h_params h2)) eqn:Est.
      * leaf H. split; [now apply inv_handled|]. intros _ _ _. exact Est.
      * leaf H. split.
        -- apply inv_handled. rewrite <- Hs2. now apply inv_add_state.
        -- intros _ _ _. apply has_param_add_same.
  - (* a nonce is given: it must be long enough *)
    destruct (Nat.ltb_spec (String.length (fget "nonce" (a_form (h_ar h)))) (min_entropy cfg)) as [|Hn].
    { leaf H. split; [assumption|discriminate]. }
    destruct (String.eqb_spec (fget "redirect_uri" (a_form (h_ar h))) "") as [|Er].
    { leaf H. split; [assumption|discriminate]. }
    destruct (s_oidc se); cbn [negb] in H.
    2:{ leaf H. split; [assumption|discriminate]. }
    destruct (validate_prompt cl (a_form (h_ar h)) (redir_secure (h_ar h)) se now).
    { leaf H. split; [assumption|discriminate]. }
    destruct (scopes_ok cfg cl (a_scopes (h_ar h))); cbn [negb] in H.
    2:{ leaf H. split; [assumption|discriminate]. }
    rewrite Hcode in H.
    destruct (args_has (c_grants cl) ["authorization_code"]); cbn [negb] in H.
    2:{ leaf H. split; [assumption|discriminate]. }
    set (h2 := if args_has (a_granted (h_ar h)) ["openid"]
               then fx_oidc (handled (add_param (fx_code h1) "code" "<code>") "code")
               else handled (add_param (fx_code h1) "code" "<code>") "code") in *.
    assert (Hi2 : inv cfg cl ar0 h2).
    { subst h2. destruct (args_has (a_granted (h_ar h)) ["openid"]); [apply inv_fx_oidc|];
        apply inv_handled, inv_add_plain; try discriminate; now apply inv_fx_code. }
    assert (Hm2 : mode_frag (h_ar h2)) by (subst h2; destruct (args_has (a_granted (h_ar h)) ["openid"]); exact Hm1).
    assert (Hs2 : a_state (h_ar h2) = a_state (h_ar h)) by (subst h2; destruct (args_has (a_granted (h_ar h)) ["openid"]); reflexivity).
    assert (Hok : args_has (a_granted (h_ar h)) ["openid"] = true -> id_token_ok cfg cl ar0).
    { intros Eg. unfold id_token_ok. rewrite <- Bf, <- Bg, <- Bt. repeat split; auto. }
    destruct (args_has (a_rtypes (h_ar h)) ["token"]).
    + destruct (args_has (c_grants cl) ["implicit"]) eqn:Eimp; cbn [negb] in H.
      2:{ leaf H. split; [assumption|discriminate]. }
      rewrite issue_handled_state in H.
      assert (Hi3 : inv cfg cl ar0 (handled (issue_access_token h2) "token"))
        by (apply inv_handled, inv_issue_access_token; assumption).
      destruct (args_has (a_granted (h_ar h)) ["openid"]) eqn:Eg; cbn [negb orb] in H.
      2:{ leaf H. split; [now apply inv_handled|]. intros _ _ _. apply issue_access_token_state. }
      destruct (args_has (a_rtypes (h_ar h)) ["id_token"]); cbn [negb] in H.
      2:{ leaf H. split; [now apply inv_handled|]. intros _ _ _. apply issue_access_token_state. }
      destruct (gen_id_token cfg (a_form (h_ar h)) se now).
      { leaf H. split; [assumption|discriminate]. }
      leaf H. split.
      * apply inv_handled, inv_add_idt; [auto|exact Hm2|assumption].
      * intros _ _ _. apply has_param_add_mono, issue_access_token_state.
    + cbn beta iota in H.
      set (h4 := if has_param "state" (h_params h2) then h2 else add_param h2 "state" (a_state (h_ar h))) in *.
      assert (Hi4 : inv cfg cl ar0 h4).
      { subst h4. destruct (has_param "state" (h_params h2)); [assumption|]. rewrite <- Hs2. now apply inv_add_state. }
      assert (Hm4 : mode_frag (h_ar h4)) by (subst h4; destruct (has_param "state" (h_params h2)); exact Hm2).
      assert (Hst4 : has_param "state" (h_params h4) = true).
      { subst h4. destruct (has_param "state" (h_params h2)) eqn:Est; [assumption|apply has_param_add_same]. }
      destruct (args_has (a_granted (h_ar h)) ["openid"]) eqn:Eg; cbn [negb orb] in H.
      2:{ leaf H. split; [now apply inv_handled|]. intros _ _ _. exact Hst4. }
      destruct (args_has (a_rtypes (h_ar h)) ["id_token"]); cbn [negb] in H.
      2:{ leaf H. split; [now apply inv_handled|]. intros _ _ _. exact Hst4. }
      destruct (gen_id_token cfg (a_form (h_ar h)) se now).
      { leaf H. split; [assumption|discriminate]. }
      leaf H. split.
      * apply inv_handled, inv_add_idt; [auto|exact Hm4|assumption].
      * intros _ _ _. apply has_param_add_mono. exact Hst4.
Qed.

(* ------------------------------------------------------------------ the loop *)
Lemma run_preserving hs cfg cl se now ar0 h h' r :
  Forall preserves hs ->
  run_handlers hs cfg cl se now h = (h', r) -> inv cfg cl ar0 h ->
  inv cfg cl ar0 h' /\ (r = None -> echo h -> echo h').
Proof.
  intros Hall. revert h. induction Hall as [|hd tl Hhd Htl IH]; intros h H Hi; cbn in H.
  - injection H as <- <-. auto.
  - destruct (hd cfg cl se now h) as [h1 [e|]] eqn:E1.
    + injection H as <- <-. destruct (Hhd _ _ _ _ _ _ _ _ E1 Hi) as [Hi1 _]. split; [assumption|discriminate].
    + destruct (Hhd _ _ _ _ _ _ _ _ E1 Hi) as [Hi1 He1]. destruct (IH _ H Hi1) as [Hi' He']. split; [assumption|].
      intros Hr He. apply He'; [assumption|]. now apply He1.
Qed.

Definition h_init (ar : areq) : hstate := {| h_ar := ar; h_params := []; h_fx := {| x_codes := 0; x_access := 0; x_oidc := 0 |} |}.

Lemma inv_init cfg cl ar : inv cfg cl ar (h_init ar).
Proof.
  constructor; cbn; try discriminate; try (intros; lia || contradiction).
  - apply same_base_refl.
  - now left.
Qed.

Theorem handlers_invariant cfg cl se now ar h r :
  run_handlers handlers cfg cl se now (h_init ar) = (h, r) ->
  inv cfg cl ar h /\ (r = None -> a_handled ar = [] -> echo h).
Proof.
  unfold handlers. intros H. cbn [run_handlers] in H.
  destruct (h_explicit cfg cl se now (h_init ar)) as [h1 [e|]] eqn:E1.
  - injection H as <- <-.
    destruct (h_explicit_pres _ _ _ _ ar _ _ _ E1 eq_refl (inv_init cfg cl ar)) as [Hi _]. split; [assumption|discriminate].
  - destruct (h_explicit_pres _ _ _ _ ar _ _ _ E1 eq_refl (inv_init cfg cl ar)) as [Hi1 [_ He1]].
    change (run_handlers [h_implicit; h_oidc_explicit; h_oidc_implicit; h_oidc_hybrid] cfg cl se now h1 = (h, r)) in H.
    eapply run_preserving in H; [| |exact Hi1].
    + destruct H as [Hi He]. split; [assumption|]. intros Hr Hh0. apply He; [assumption|]. apply He1; [reflexivity|].
      intros Hh. cbn in Hh. contradiction.
    + constructor; [apply h_implicit_pres|]. constructor; [apply h_oidc_explicit_pres|].
      constructor; [apply h_oidc_implicit_pres|]. constructor; [apply h_oidc_hybrid_pres|constructor].
Qed.

(* ------------------------------------------------------------------ NewAuthorizeResponse *)
Theorem new_authorize_response_inv cfg ar se now h r :
  new_authorize_response cfg ar se now = (h, r) ->
  exists cl, (a_cl ar = Some cl \/ (a_cl ar = None /\ h = h_init ar)) /\ inv cfg cl ar h.
Proof.
  unfold new_authorize_response. fold (h_init ar).
  destruct (a_cl ar) as [cl|] eqn:Ecl.
  - destruct (run_handlers handlers cfg cl se now (h_init ar)) as [h1 [e|]] eqn:E.
    + intros H. injection H as <- <-. exists cl. split; [now left|]. now apply handlers_invariant in E.
    + apply handlers_invariant in E as [Hi _].
      destruct (negb (did_handle_all (h_ar h1))); [|destruct (String.eqb (a_defmode (h_ar h1)) "fragment" && String.eqb (a_rmode (h_ar h1)) "query")];
        intros H; injection H as <- <-; exists cl; (split; [now left|assumption]).
  - intros H. injection H as <- <-.
    exists {| c_public := false; c_grants := []; c_rtypes := []; c_scopes := []; c_rm_iface := false; c_rmodes := [];
              c_oidc := false; c_jwks := None; c_req_uris := []; c_ro_alg := "" |}.
    split; [now right|apply inv_init].
Qed.

Theorem new_authorize_response_ok cfg ar se now h :
  new_authorize_response cfg ar se now = (h, None) ->
  exists cl, a_cl ar = Some cl /\ inv cfg cl ar h /\ (a_handled ar = [] -> echo h) /\ did_handle_all (h_ar h) = true /\
             ~ (a_defmode (h_ar h) = "fragment" /\ a_rmode (h_ar h) = "query").
Proof.
  unfold new_authorize_response. fold (h_init ar).
  destruct (a_cl ar) as [cl|] eqn:Ecl; [|discriminate].
  destruct (run_handlers handlers cfg cl se now (h_init ar)) as [h1 [e|]] eqn:E; [discriminate|].
  apply handlers_invariant in E as [Hi He].
  destruct (did_handle_all (h_ar h1)) eqn:Ed; cbn [negb]; [|discriminate].
  destruct (String.eqb_spec (a_defmode (h_ar h1)) "fragment") as [Ef|Ef];
    destruct (String.eqb_spec (a_rmode (h_ar h1)) "query") as [Eq|Eq]; cbn [andb]; try discriminate;
    intros H; injection H as <-; exists cl;
    (split; [reflexivity|]); (split; [exact Hi|]); (split; [intros; apply He; auto|]); (split; [assumption|]);
    intros [? ?]; contradiction.
Qed.

(* ------------------------------------------------------------------ consequences *)

(* tokens never travel in the query: in every accepted response, if the writer puts the
   parameters into the query they contain neither an access token nor an ID token *)
Theorem no_tokens_in_query cfg ar se now h :
  new_authorize_response cfg ar se now = (h, None) ->
  w_place (write_authorize_response (h_ar h) (h_params h)) = PQuery ->
  has_param "access_token" (h_params h) = false /\ has_param "id_token" (h_params h) = false.
Proof.
  intros H Hw. apply new_authorize_response_ok in H as [cl [_ [Hi [_ [_ Hnq]]]]].
  destruct (tokens_in (h_params h)) eqn:Et.
  - exfalso. destruct (i_mode _ _ _ _ Hi Et) as [Hd Hr].
    unfold write_authorize_response in Hw.
    destruct (String.eqb_spec (a_rmode (h_ar h)) "form_post"); [discriminate|].
    destruct (String.eqb_spec (a_rmode (h_ar h)) "query") as [Eq|].
    + apply Hnq. split; assumption.
    + destruct (String.eqb_spec (a_rmode (h_ar h)) ""); [contradiction|]. cbn [orb] in Hw.
      destruct (String.eqb (a_rmode (h_ar h)) "fragment"); discriminate.
  - unfold tokens_in in Et. now apply orb_false_iff in Et.
Qed.

(* the error writer never carries a token *)
Lemma write_error_no_tokens ar e k :
  k <> "error" -> k <> "error_description" -> k <> "state" ->
  has_param k (w_params (write_authorize_error ar e)) = false.
Proof.
  intros H1 H2 H3. unfold write_authorize_error.
  destruct (redirect_usable ar); cbn [negb];
    [destruct (String.eqb (a_rmode ar) "form_post"); [|destruct (String.eqb (a_rmode ar) "fragment")]|];
    unfold has_param; cbn [w_params existsb fst];
    repeat match goal with |- context [String.eqb ?a k] => destruct (String.eqb_spec a k); [congruence|] end; reflexivity.
Qed.

(* a redirected error echoes the state *)
Lemma write_error_state ar e :
  redirect_usable ar = true ->
  w_place (write_authorize_error ar e) <> PJson /\
  In ("state", a_state ar) (w_params (write_authorize_error ar e)) /\
  forall v, In ("state", v) (w_params (write_authorize_error ar e)) -> v = a_state ar.
Proof.
  intros Hu. unfold write_authorize_error. rewrite Hu. cbn [negb].
  destruct (String.eqb (a_rmode ar) "form_post"); [|destruct (String.eqb (a_rmode ar) "fragment")]; cbn;
    (split; [discriminate|split; [auto|]]);
    intros v [H|[H|[H|[]]]]; try discriminate; now injection H.
Qed.
