(* Flow-level theorems of the fault model: every execution of the code, refresh and device flows under any
   fault plan satisfies [flow_ok] (Proofs/FaultsProofs.v), by case analysis over the flow with the two
   transactional blocks used through their specifications. *)
From FositeModel Require Import Base.Str Model.Scope Model.Core Model.Flows Model.Faults Cases.CasesC18
     Proofs.CoreInv Proofs.StepInv Proofs.FaultsProofs.
Arguments upd : simpl never.

Lemma inj_only l : injected l = false -> only_pkce_nf l = true.
Proof.
  unfold injected, only_pkce_nf. induction l as [|c l IH]; cbn; [reflexivity|].
  intros H. apply orb_false_iff in H as [H1 H2]. rewrite H1. cbn. auto.
Qed.

Lemma inj_serial l : injected l = false -> serial_in_tx l = false.
Proof.
  unfold injected, serial_in_tx. induction l as [|[m r] l IH]; cbn; [reflexivity|].
  intros H. apply orb_false_iff in H as [H1 H2]. rewrite (IH H2).
  destruct r; try discriminate H1; cbn; now rewrite andb_false_r.
Qed.

(* unfold the flow but keep the blocks folded *)
Ltac flow_unfold :=
  unfold fredeem, frefresh, fdevice, fpkce_handle, rd, wr, planned, ffail, code_class, rt_class; cbv zeta.
Ltac flow_split :=
  repeat (fl_cbn;
          first [ match goal with
                  | |- context [match ?x with _ => _ end] =>
                      lazymatch x with
                      | context [match _ with _ => _ end] => fail
                      | _ => destruct x eqn:?
                      end
                  end
                | match goal with
                  | |- context [match tx_block ?a ?b ?c ?d ?e ?f ?g ?h with _ => _ end] =>
                      destruct (tx_block a b c d e f g h) eqn:?
                  end ]).

Ltac mon_unfold :=
  unfold mon_c, mon_b, mon_serial, rolled_back, has_call, injected, only_pkce_nf, tx_wf, any_tx, any_rollback, serial_in_tx in *; unfold has_call, call in *.

Ltac solve_hw :=
  let v := fresh "v" in let w := fresh "w" in let c := fresh "c" in let Hv := fresh "Hv" in let E := fresh "E" in
  intros v w c Hv; unfold inval_code in Hv;
  first [ injection Hv as <- _; apply sle_delete_device
        | destruct (invalidate_code v _) eqn:E; injection Hv as <- _; eapply sle_invalidate_code; exact E
        | destruct (rotate_refresh v _) eqn:E; injection Hv as <- _; eapply sle_rotate_refresh; exact E ].

Ltac use_blk Hc Hwf Hpl Hsn Hcl Hnow Hlog Hkey Hle Hres :=
  match goal with
  | H : tx_block ?e ?x ?m1 ?w1 ?rid ?wrt ?sr srv = (?y, ?res) |- _ =>
      let L := fresh "L" in let l := fresh "l" in
      assert (L : blk_okp e false x (tx_block e x m1 w1 rid wrt sr (if false then refresh_err else srv)))
        by (apply tx_block_ok; [auto | solve_hw | reflexivity]);
      cbv iota in L; rewrite H in L; destruct L as [l L]; cbn [fst snd] in L;
      destruct L as [Hc Hwf Hpl Hsn Hcl Hnow Hlog Hkey Hle Hres]; clear H
  | H : tx_block ?e ?x ?m1 ?w1 ?rid ?wrt ?sr refresh_err = (?y, ?res) |- _ =>
      let L := fresh "L" in let l := fresh "l" in
      assert (L : blk_okp e true x (tx_block e x m1 w1 rid wrt sr (if true then refresh_err else srv)))
        by (apply tx_block_ok; [auto | solve_hw | reflexivity]);
      cbv iota in L; rewrite H in L; destruct L as [l L]; cbn [fst snd] in L;
      destruct L as [Hc Hwf Hpl Hsn Hcl Hnow Hlog Hkey Hle Hres]; clear H
  end.

Ltac fl_cbn_all :=
  cbn [f_s f_n f_calls f_snap finit logc with_s with_store set_snap fst snd app coincides o_err o_minted err_obs ok_obs
       nf_grant refresh_err raw_err serr_class kinds_of benign andb orb negb find
       st clients now next_key next_rid log owner set_store log_add] in *.

Lemma eqb_nonempty err : err <> "" -> String.eqb err "" = false.
Proof. intros H. now apply String.eqb_neq. Qed.

Ltac mon_cbn :=
  cbn [existsb forallb tx_run tx_step ev_of fst snd meth_eqb meth_n rclass_eqb rclass_n fault_n Nat.eqb Nat.add andb orb negb
       is_tx_meth is_ok is_injr is_inj pkce_nf in_refresh_tx tolerated is_revoke is_refresh succeeded no_tokens o_err o_minted
       err_obs ok_obs kinds_of String.eqb Ascii.eqb Bool.eqb app panicked].

Ltac serial_cases Hser :=
  match goal with
  | |- context [existsb (fun c => in_refresh_tx (fst c) && rclass_eqb (snd c) (RInj FSerial)) ?l] =>
      let Es := fresh "Es" in let Er := fresh "Er" in
      destruct (existsb (fun c => in_refresh_tx (fst c) && rclass_eqb (snd c) (RInj FSerial)) l) eqn:Es;
      destruct (existsb (fun c => meth_eqb (fst c) MRollback && is_injr (snd c)) l) eqn:Er;
      lazymatch type of Hser with
      | true = true -> false = false -> _ =>
          specialize (Hser eq_refl eq_refl); first [discriminate Hser | injection Hser as -> | subst]
      | _ => clear Hser
      end
  | _ => idtac
  end.

Ltac finish_conj Etx :=
  repeat match goal with |- _ /\ _ => split end;
  try reflexivity; try (right; reflexivity); try (left; reflexivity);
  try (intros; discriminate);
  try (sle_tac; eassumption);
  try assumption.

Ltac blk_flow_leaf Etx :=
  let Hc := fresh "Hc" in let Hwf := fresh "Hwf" in let Hpl := fresh "Hpl" in let Hsn := fresh "Hsn" in
  let Hcl := fresh "Hcl" in let Hnow := fresh "Hnow" in let Hlog := fresh "Hlog" in let Hkey := fresh "Hkey" in
  let Hle := fresh "Hle" in let Hres := fresh "Hres" in
  use_blk Hc Hwf Hpl Hsn Hcl Hnow Hlog Hkey Hle Hres; fl_cbn_all;
  lazymatch type of Hres with
  | _ /\ _ /\ _ = _ /\ _ = _ =>
      let Hinj := fresh "Hinj" in let Hrbk := fresh "Hrbk" in let Hcm := fresh "Hcm" in let Hbg := fresh "Hbg" in let Hon := fresh "Hon" in let Hsr := fresh "Hsr" in
      destruct Hres as [Hinj [Hrbk [Hcm Hbg]]]; pose proof (inj_only _ Hinj) as Hon; pose proof (inj_serial _ Hinj) as Hsr;
      unfold flow_okp, flow_ok; fl_cbn; rewrite ?Hc, ?Hsn, ?Hcl, ?Hnow, ?Hlog; cbn [app];
      mon_unfold; mon_cbn; rewrite ?existsb_app, ?forallb_app, ?tx_run_app; mon_cbn;
      rewrite ?Hwf, ?Hinj, ?Hrbk, ?Hcm, ?Hbg, ?Hon, ?Hsr, ?Etx; mon_cbn;
      try (rewrite (Hpl Etx)); mon_cbn;
      rewrite ?andb_false_r, ?orb_false_r, ?andb_true_r; mon_cbn;
      finish_conj Etx
  | (_ \/ _) /\ _ =>
      let Herr := fresh "Herr" in let Hrb := fresh "Hrb" in let Hser := fresh "Hser" in
      destruct Hres as [Herr [Hrb Hser]];
      unfold flow_okp, flow_ok; fl_cbn; rewrite ?Hc, ?Hsn, ?Hcl, ?Hnow, ?Hlog; cbn [app];
      mon_unfold; mon_cbn; rewrite ?existsb_app, ?forallb_app, ?tx_run_app; mon_cbn;
      rewrite ?Hwf; destruct Herr as [-> | ->]; mon_cbn;
      try (rewrite (Hpl Etx)); rewrite ?Etx in *; mon_cbn;
      try (specialize (Hser eq_refl)); serial_cases Hser; mon_cbn;
      rewrite ?andb_false_r, ?orb_false_r, ?andb_true_r; mon_cbn;
      repeat match goal with |- _ /\ _ => split end;
      try reflexivity; try (right; reflexivity); try (left; reflexivity); try (intros; discriminate); try assumption;
      try (intros Hx; split; [apply Hrb; cbn [negb andb]; rewrite ?andb_true_r; exact Hx|reflexivity])
  end.

Lemma fdevice_ok e cfg s auth dev :
  flow_okp e s (ODevicePoll auth dev) (fdevice e cfg (finit s) auth dev).
Proof.
  flow_unfold. fl_cbn. destruct (fe_tx e) eqn:Etx; destruct (key_of s dev) eqn:Ek.
  all: flow_split.
  all: try (lazymatch goal with H : tx_block _ _ _ _ _ _ _ _ = _ |- _ => fail | _ => solve [leaf] end).
  all: solve [blk_flow_leaf Etx].
Qed.

Lemma pkce_token_err2 cfg s cl key v vh s1 err :
  pkce_token cfg s cl key v vh = (s1, Some err) -> err = "invalid_request" \/ err = "invalid_grant".
Proof. intros H. apply (pkce_token_err cfg s cl key v vh). now rewrite H. Qed.
Ltac err_nonempty2 :=
  repeat match goal with
  | H : pkce_token _ _ _ _ _ _ = (_, ?o), H2 : ?o = Some ?err |- _ => subst o
  | H : pkce_token _ _ _ _ _ _ = (_, Some ?err) |- _ => destruct (pkce_token_err2 _ _ _ _ _ _ _ _ H); subst err; clear H
  end.

Lemma fredeem_ok e cfg s auth code redirect v vh sm :
  flow_okp e s (ORedeem auth code redirect v vh sm) (fredeem e cfg (finit s) auth code redirect v vh).
Proof.
  flow_unfold. fl_cbn. destruct (fe_tx e) eqn:Etx; destruct (key_of s code) eqn:Ek.
  all: flow_split.
  all: try (lazymatch goal with H : tx_block _ _ _ _ _ _ _ _ = _ |- _ => fail | _ => solve [leaf] end).
  all: try solve [err_nonempty; blk_flow_leaf Etx].
  all: solve [err_nonempty2; rr_class; leaf].
Qed.

