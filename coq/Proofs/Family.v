(* Provenance of live records, death of grant families, single use of codes and refresh tokens. *)
From FositeModel Require Import Base.Str Model.Scope Model.Core Model.Flows Proofs.CoreInv Proofs.StepInv.

Arguments upd : simpl never.

(* ------------------------------------------------------------------ provenance *)
(* every record that is live after a step was live before it, or belongs to a request id in [Src] *)
Definition prov (Src : nat -> Prop) (x x' : store) : Prop :=
  (forall k r, access x' k = Some r -> access x k = Some r \/ Src (r_id r)) /\
  (forall k r, refresh x' k = Some (true, r) -> refresh x k = Some (true, r) \/ Src (r_id r)) /\
  (forall k r, codes x' k = Some (true, r) -> codes x k = Some (true, r) \/ Src (r_id r)).

Lemma prov_refl Src x : prov Src x x.
Proof. repeat split; auto. Qed.

Lemma prov_trans Src x y z : prov Src x y -> prov Src y z -> prov Src x z.
Proof.
  intros [A1 [R1 C1]] [A2 [R2 C2]]. repeat split; intros k r H.
  - destruct (A2 _ _ H); auto.
  - destruct (R2 _ _ H); auto.
  - destruct (C2 _ _ H); auto.
Qed.

Lemma prov_eq_tables Src x y :
  codes y = codes x -> access y = access x -> refresh y = refresh x -> prov Src x y.
Proof. intros Hc Ha Hr. repeat split; intros k r H; left; congruence. Qed.

Lemma prov_delete_access Src x k : prov Src x (delete_access x k).
Proof. repeat split; cbn; intros k' r H; auto. upd_case k' k; [discriminate|auto]. Qed.
Lemma prov_revoke_access Src x X : prov Src x (revoke_access x X).
Proof. unfold revoke_access. repeat split; cbn; intros k' r H; auto. apply drop_rid_some in H as [H _]. auto. Qed.
Lemma prov_delete_refresh Src x k : prov Src x (delete_refresh x k).
Proof. repeat split; cbn; intros k' r H; auto. upd_case k' k; [discriminate|auto]. Qed.
Lemma prov_revoke_refresh Src x X : prov Src x (fst (revoke_refresh x X)).
Proof.
  unfold revoke_refresh. destruct (rt_idx x X) as [k|]; [|apply prov_refl].
  destruct (refresh x k) as [[b r]|]; [|apply prov_refl]. cbn [fst].
  repeat split; cbn; intros k' r' H; auto. upd_case k' k; [discriminate|auto].
Qed.
Lemma prov_invalidate_code Src x k : prov Src x (fst (invalidate_code x k)).
Proof.
  unfold invalidate_code. destruct (codes x k) as [[b r]|]; [|apply prov_refl]. cbn [fst].
  repeat split; cbn; intros k' r' H; auto. upd_case k' k; [discriminate|auto].
Qed.
Lemma prov_create_access (Src : nat -> Prop) x k r : Src (r_id r) -> prov Src x (create_access x k r).
Proof. intros HS. repeat split; cbn; intros k' r' H; auto. upd_case k' k; [injection H as <-; auto|auto]. Qed.
Lemma prov_create_refresh (Src : nat -> Prop) x k r : Src (r_id r) -> prov Src x (create_refresh x k r).
Proof. intros HS. repeat split; cbn; intros k' r' H; auto. upd_case k' k; [injection H as <-; auto|auto]. Qed.
Lemma prov_create_code (Src : nat -> Prop) x k r : Src (r_id r) -> prov Src x (create_code x k r).
Proof. intros HS. repeat split; cbn; intros k' r' H; auto. upd_case k' k; [injection H as <-; auto|auto]. Qed.

Lemma prov_grant_tokens (Src : nat -> Prop) s stored w :
  Src (r_id stored) -> prov Src (st s) (st (fst (grant_tokens s stored w))).
Proof.
  intros HS. unfold grant_tokens.
  destruct (mint s KAccess (r_id stored)) as [ka s2] eqn:E2.
  destruct (mint_spec _ _ _ _ _ E2) as [_ [_ [Hst2 _]]].
  destruct w.
  - destruct (mint s2 KRefresh (r_id stored)) as [kr s3] eqn:E3.
    destruct (mint_spec _ _ _ _ _ E3) as [_ [_ [Hst3 _]]].
    cbn [fst st log_add set_store]. rewrite Hst3, Hst2.
    eapply prov_trans; [exact (prov_create_access Src (st s) ka stored HS)|exact (prov_create_refresh Src _ kr stored HS)].
  - cbn [fst st log_add set_store]. rewrite Hst2. exact (prov_create_access Src (st s) ka stored HS).
Qed.

(* request ids that a step may issue records for: the next fresh one, or one that has an active
   code or an active refresh token *)
Definition src (s : state) (X : nat) : Prop :=
  X = next_rid s \/
  (exists k r, codes (st s) k = Some (true, r) /\ r_id r = X) \/
  (exists k r, refresh (st s) k = Some (true, r) /\ r_id r = X) \/
  (exists k b r, device (st s) k = Some (b, r) /\ r_id r = X).

Lemma prov_pkce_token Src cfg s cl key v vh : prov Src (st s) (st (fst (pkce_token cfg s cl key v vh))).
Proof.
  destruct (pkce_token_state cfg s cl key v vh) as [->|[k ->]]; [apply prov_refl|].
  apply prov_eq_tables; reflexivity.
Qed.

Lemma prov_authorize_core cfg s cl a : prov (src s) (st s) (st (fst (authorize_core cfg s cl a))).
Proof.
  unfold authorize_core.
  destruct (negb (scopes_ok cfg cl (az_scopes a))); [apply prov_refl|].
  destruct (negb (aud_ok cfg (cl_aud cl) (az_aud a))); [apply prov_refl|].
  destruct (fresh_rid s) as [rid s1] eqn:E1.
  destruct (fresh_rid_spec _ _ _ E1) as [Hrid [_ [Hst1 _]]].
  destruct (mint s1 KCode rid) as [k s2] eqn:E2.
  destruct (mint_spec _ _ _ _ _ E2) as [_ [_ [Hst2 _]]].
  assert (P : forall r, r_id r = rid -> prov (src s) (st s) (create_code (st s2) k r)).
  { intros r Hr. rewrite Hst2, Hst1. apply prov_create_code. left. congruence. }
  destruct (pkce_validate cfg (az_challenge a) (az_method a) cl); cbn [fst fail st set_store log_add].
  - match goal with |- prov _ _ (create_code _ _ ?r) => apply (P r); reflexivity end.
  - destruct (String.eqb (az_challenge a) "" && String.eqb (az_method a) ""); cbn [st set_store].
    + match goal with |- prov _ _ (create_code _ _ ?r) => apply (P r); reflexivity end.
    + match goal with |- prov _ _ (create_pkce (create_code _ _ ?r) _ _) =>
        eapply prov_trans; [apply (P r); reflexivity|] end.
      apply prov_eq_tables; reflexivity.
Qed.

Lemma prov_authorize cfg s a : prov (src s) (st s) (st (fst (authorize cfg s a))).
Proof.
  unfold authorize. destruct (cf_par_enforced cfg); [apply prov_refl|].
  destruct (clients s (az_client a)) as [cl|]; [|apply prov_refl].
  destruct (az_rtype a); [apply prov_authorize_core| |].
  - destruct (authorize_implicit_effect cfg s cl a) as [Ha [Hr [_ [_ [_ [_ [_ [_ [_ Hc]]]]]]]]].
    repeat split; intros k r H; [left; congruence|left; congruence|].
    destruct (Hc k true r H); [auto|right; left; assumption].
  - destruct (authorize_hybrid_effect cfg s cl a) as [Ha [Hr [_ [_ [_ [_ [_ [_ [_ Hc]]]]]]]]].
    repeat split; intros k r H; [left; congruence|left; congruence|].
    destruct (Hc k true r H); [auto|right; left; assumption].
Qed.

Lemma src_same s s' :
  next_rid s' = next_rid s -> codes (st s') = codes (st s) -> refresh (st s') = refresh (st s) -> device (st s') = device (st s) ->
  forall X, src s' X -> src s X.
Proof. intros Hn Hc Hr Hd X. unfold src. rewrite Hn, Hc, Hr, Hd. auto. Qed.

Lemma prov_weaken (S1 S2 : nat -> Prop) x y : (forall X, S1 X -> S2 X) -> prov S1 x y -> prov S2 x y.
Proof.
  intros HS [A [R C]]. repeat split; intros k r H.
  - destruct (A _ _ H); auto. - destruct (R _ _ H); auto. - destruct (C _ _ H); auto.
Qed.

Lemma prov_authorize_par cfg s cp uri a : prov (src s) (st s) (st (fst (authorize_par cfg s cp uri a))).
Proof.
  rewrite ?authorize_par_fst; unfold authorize_par0.
  destruct (key_of s uri) as [k|]; [|apply prov_refl].
  destruct (par (st s) k) as [pr|]; [|apply prov_refl].
  destruct (before _ _); [apply prov_eq_tables; reflexivity|].
  destruct (negb (Nat.eqb cp (r_client pr))); [apply prov_eq_tables; reflexivity|].
  match goal with |- context [authorize_core cfg ?s1 ?cl ?a'] =>
    pose proof (prov_authorize_core cfg s1 cl a') as P; set (res := authorize_core cfg s1 cl a') in * end.
  eapply prov_trans; [apply prov_eq_tables; reflexivity|].
  eapply prov_weaken; [|exact P]. apply src_same; reflexivity.
Qed.

Lemma push_tables cfg s auth bc ru a :
  let s' := fst (push cfg s auth bc ru a) in
  codes (st s') = codes (st s) /\ access (st s') = access (st s) /\ refresh (st s') = refresh (st s) /\
  device (st s') = device (st s) /\ pkce (st s') = pkce (st s) /\
  next_rid s <= next_rid s' /\ next_key s <= next_key s' /\ exists l, log s' = (log s ++ l)%list.
Proof.
  unfold push.
  assert (R : codes (st s) = codes (st s) /\ access (st s) = access (st s) /\ refresh (st s) = refresh (st s) /\
              device (st s) = device (st s) /\ pkce (st s) = pkce (st s) /\
              next_rid s <= next_rid s /\ next_key s <= next_key s /\ exists l, log s = (log s ++ l)%list)
    by (repeat split; try lia; exists []; now rewrite app_nil_r).
  destruct auth as [c|]; [|exact R]. destruct (clients s c); [|exact R].
  destruct ru; [exact R|].
  destruct (clients s _) as [cl|]; [|exact R].
  destruct (negb (scopes_ok cfg cl (az_scopes a))); [exact R|].
  destruct (negb (aud_ok cfg (cl_aud cl) (az_aud a))); [exact R|].
  destruct (negb (Nat.eqb _ c)); [exact R|].
  destruct (fresh_rid s) as [rid s1] eqn:E1.
  destruct (fresh_rid_spec _ _ _ E1) as [_ [_ [Hst1 [Hnr1 [Hnk1 [_ Hl1]]]]]].
  destruct (mint s1 KPar rid) as [k s2] eqn:E2.
  destruct (mint_spec _ _ _ _ _ E2) as [_ [_ [Hst2 [Hnr2 [Hnk2 [_ Hl2]]]]]].
  cbn. rewrite Hst2, Hst1, Hl2, Hl1. repeat split; try lia. eauto.
Qed.

Lemma device_authorize_tables cfg s auth bc sc au :
  let s' := fst (device_authorize cfg s auth bc sc au) in
  codes (st s') = codes (st s) /\ access (st s') = access (st s) /\ refresh (st s') = refresh (st s) /\
  pkce (st s') = pkce (st s) /\
  next_rid s <= next_rid s' /\ next_key s <= next_key s' /\ (exists l, log s' = (log s ++ l)%list) /\
  (forall k b r, device (st s') k = Some (b, r) -> device (st s) k = Some (b, r) \/ r_id r = next_rid s) /\
  (forall k, k < next_key s -> device (st s') k = device (st s) k).
Proof.
  unfold device_authorize.
  assert (R : codes (st s) = codes (st s) /\ access (st s) = access (st s) /\ refresh (st s) = refresh (st s) /\
              pkce (st s) = pkce (st s) /\
              next_rid s <= next_rid s /\ next_key s <= next_key s /\ (exists l, log s = (log s ++ l)%list) /\
              (forall k b r, device (st s) k = Some (b, r) -> device (st s) k = Some (b, r) \/ r_id r = next_rid s) /\
              (forall k, k < next_key s -> device (st s) k = device (st s) k))
    by (repeat split; try lia; auto; exists []; now rewrite app_nil_r).
  destruct auth as [c|]; [|exact R]. destruct (clients s c) as [cl|]; [|exact R].
  repeat match goal with |- context [if ?c then fail s _ else _] => destruct c; [exact R|] end.
  destruct (fresh_rid s) as [rid s1] eqn:E1.
  destruct (fresh_rid_spec _ _ _ E1) as [Hrid [_ [Hst1 [Hnr1 [Hnk1 [_ Hl1]]]]]].
  destruct (mint s1 KDevice rid) as [kd s2] eqn:E2.
  destruct (mint_spec _ _ _ _ _ E2) as [Hkd [_ [Hst2 [Hnr2 [Hnk2 [_ Hl2]]]]]].
  destruct (mint s2 KUser rid) as [ku s3] eqn:E3.
  destruct (mint_spec _ _ _ _ _ E3) as [_ [_ [Hst3 [Hnr3 [Hnk3 [_ Hl3]]]]]].
  cbn. rewrite Hst3, Hst2, Hst1, Hl3, Hl2, Hl1. repeat split; try lia; eauto.
  - intros k b r H. upd_case k kd; [injection H as <- <-; right; cbn; congruence|auto].
  - intros k Hk. rewrite upd_neq by lia. reflexivity.
Qed.

Lemma decide_tables cfg s dev acc g ga sub fr :
  let s' := fst (decide cfg s dev acc g ga sub fr) in
  codes (st s') = codes (st s) /\ access (st s') = access (st s) /\ refresh (st s') = refresh (st s) /\
  pkce (st s') = pkce (st s) /\ next_rid s' = next_rid s /\ next_key s' = next_key s /\ log s' = log s /\
  (forall k b r, device (st s') k = Some (b, r) -> exists b0 r0, device (st s) k = Some (b0, r0) /\ r_id r0 = r_id r) /\
  (forall k, device (st s) k = None -> device (st s') k = None).
Proof.
  unfold decide.
  assert (R : codes (st s) = codes (st s) /\ access (st s) = access (st s) /\ refresh (st s) = refresh (st s) /\
              pkce (st s) = pkce (st s) /\ next_rid s = next_rid s /\ next_key s = next_key s /\ log s = log s /\
              (forall k b r, device (st s) k = Some (b, r) -> exists b0 r0, device (st s) k = Some (b0, r0) /\ r_id r0 = r_id r) /\
              (forall k, device (st s) k = None -> device (st s) k = None)) by (repeat split; eauto).
  destruct (key_of s dev) as [k|]; [|exact R].
  destruct (device (st s) k) as [[b r]|] eqn:Ed; [|exact R].
  destruct (expired _ _ _ _); [exact R|].
  cbn. repeat split.
  - intros k0 b0 r0 H. upd_case k0 k; [injection H as <- <-; subst; eauto|eauto].
  - intros k0 H. upd_case k0 k; [subst; congruence|assumption].
Qed.

Lemma prov_device_poll cfg s auth dev : prov (src s) (st s) (st (fst (device_poll cfg s auth dev))).
Proof.
  unfold device_poll.
  destruct auth as [c|]; [|apply prov_refl]. destruct (clients s c) as [cl|]; [|apply prov_refl].
  destruct (negb (args_has (cl_grants cl) _)); [apply prov_refl|].
  destruct (key_of s dev) as [k|]; [|apply prov_refl].
  destruct (used_device cfg (st s) k) as [rid|].
  { cbn [fst fail st set_store]. eapply prov_trans; [apply prov_revoke_access|apply prov_revoke_refresh]. }
  destruct (device (st s) k) as [[stt r]|] eqn:Ed; [|apply prov_refl].
  repeat match goal with |- context [if ?c then fail s _ else _] => destruct c; [apply prov_refl|] end.
  match goal with |- context [grant_tokens ?s2 ?stored ?w] =>
    pose proof (prov_grant_tokens (src s) s2 stored w) as G; destruct (grant_tokens s2 stored w) as [s3 minted] end.
  cbn [fst] in *. eapply prov_trans; [apply prov_eq_tables; reflexivity|]. apply G.
  cbn. right. right. right. exists k, stt, r. auto.
Qed.

Lemma prov_redeem cfg s auth code redirect v vh : prov (src s) (st s) (st (fst (redeem cfg s auth code redirect v vh))).
Proof.
  unfold redeem.
  destruct auth as [c|]; [|apply prov_refl].
  destruct (clients s c) as [cl|]; [|apply prov_refl].
  destruct (negb (args_has (cl_grants cl) ["authorization_code"])); [apply prov_refl|].
  destruct (key_of s code) as [k|]; [|apply prov_refl].
  destruct (codes (st s) k) as [[[|] r]|] eqn:Ec; [| |apply prov_refl].
  - destruct (p_tampered code); [apply prov_refl|].
    destruct (negb (Nat.eqb (r_client r) c)); [apply prov_refl|].
    destruct (negb (String.eqb (r_redirect r) "") && negb (String.eqb (r_redirect r) redirect)); [apply prov_refl|].
    pose proof (prov_pkce_token (src s) cfg s cl (Some k) v vh) as P1.
    destruct (pkce_token cfg s cl (Some k) v vh) as [s1 [e|]]; cbn [fst] in *; [assumption|].
    destruct (expired _ _ _ _); [assumption|].
    match goal with |- context [grant_tokens ?s2 ?stored ?w] =>
      pose proof (prov_grant_tokens (src s) s2 stored w) as G; destruct (grant_tokens s2 stored w) as [s3 minted] end.
    cbn [fst st set_store] in *. eapply prov_trans; [exact P1|].
    eapply prov_trans; [apply prov_invalidate_code|].
    eapply prov_trans; [apply G; cbn; right; left; exists k, r; auto|]. apply prov_eq_tables; reflexivity.
  - cbn [fst fail st set_store].
    eapply prov_trans; [apply prov_revoke_access|apply prov_revoke_refresh].
Qed.

Lemma prov_refresh_flow cfg s auth tok : prov (src s) (st s) (st (fst (refresh_flow cfg s auth tok))).
Proof.
  unfold refresh_flow.
  destruct auth as [c|]; [|apply prov_refl].
  destruct (clients s c) as [cl|]; [|apply prov_refl].
  destruct (negb (args_has (cl_grants cl) ["refresh_token"])); [apply prov_refl|].
  destruct (key_of s tok) as [k|]; cbn [find]; [|apply prov_refl].
  destruct (refresh (st s) k) as [[[|] r]|] eqn:Er; [| |apply prov_refl].
  - repeat match goal with |- context [if ?c then _ else _] => destruct c; [apply prov_refl|] end.
    unfold rotate_refresh.
    pose proof (prov_revoke_refresh (src s) (st s) (r_id r)) as P1.
    destruct (revoke_refresh (st s) (r_id r)) as [st1 [e|]]; cbn [fst] in *; [assumption|].
    match goal with |- context [grant_tokens ?s2 ?stored ?w] =>
      pose proof (prov_grant_tokens (src s) s2 stored w) as G; destruct (grant_tokens s2 stored w) as [s3 minted] end.
    cbn [fst] in *. eapply prov_trans; [exact P1|].
    eapply prov_trans; [apply prov_revoke_access|]. apply G.
    cbn. right. right. left. exists k, r. auto.
  - cbn [fst fail st set_store].
    eapply prov_trans; [apply prov_delete_refresh|].
    eapply prov_trans; [apply prov_revoke_refresh|apply prov_revoke_access].
Qed.

Lemma prov_revoke cfg s auth tok h : prov (src s) (st s) (st (fst (revoke cfg s auth tok h))).
Proof.
  unfold revoke.
  destruct auth as [c|]; [|apply prov_refl].
  destruct (clients s c); [|apply prov_refl].
  destruct (revoke_lookup s (key_of s tok) h) as [r|]; [|apply prov_refl].
  destruct (negb (Nat.eqb (r_client r) c)); [apply prov_refl|].
  cbn [fst st set_store]. eapply prov_trans; [apply prov_revoke_refresh|apply prov_revoke_access].
Qed.

Lemma prov_fresh_grant s mk w : (forall rid, r_id (mk rid) = rid) -> prov (src s) (st s) (st (fst (fresh_grant s mk w))).
Proof.
  intros Hmk. unfold fresh_grant.
  destruct (fresh_rid s) as [rid s1] eqn:E1.
  destruct (fresh_rid_spec _ _ _ E1) as [Hrid [_ [Hst1 _]]].
  rewrite <- Hst1. apply prov_grant_tokens. left. rewrite Hmk. assumption.
Qed.

Lemma prov_password_flow cfg s auth ok sc au g ga : prov (src s) (st s) (st (fst (password_flow cfg s auth ok sc au g ga))).
Proof.
  unfold password_flow.
  destruct auth as [c|]; [|apply prov_refl]. destruct (clients s c) as [cl|]; [|apply prov_refl].
  repeat match goal with |- context [if ?c then fail s _ else _] => destruct c; [apply prov_refl|] end.
  match goal with |- context [fresh_grant s ?mk ?w] =>
    pose proof (prov_fresh_grant s mk w (fun _ => eq_refl)) as G; destruct (fresh_grant s mk w) as [s2 minted] end.
  exact G.
Qed.

Lemma prov_client_credentials_flow cfg s auth sc au g ga : prov (src s) (st s) (st (fst (client_credentials_flow cfg s auth sc au g ga))).
Proof.
  unfold client_credentials_flow.
  destruct auth as [c|]; [|apply prov_refl]. destruct (clients s c) as [cl|]; [|apply prov_refl].
  repeat match goal with |- context [if ?c then fail s _ else _] => destruct c; [apply prov_refl|] end.
  match goal with |- context [fresh_grant s ?mk ?w] =>
    pose proof (prov_fresh_grant s mk w (fun _ => eq_refl)) as G; destruct (fresh_grant s mk w) as [s2 minted] end.
  exact G.
Qed.

Theorem prov_step cfg s o : prov (src s) (st s) (st (fst (step cfg s o))).
Proof.
  destruct o; cbn [step].
  - apply prov_authorize. - apply prov_redeem. - apply prov_refresh_flow. - apply prov_revoke.
  - apply prov_refl. - apply prov_refl. - apply prov_refl.
  - apply prov_password_flow. - apply prov_client_credentials_flow. - apply prov_refl.
  - match goal with |- context [push cfg s ?x1 ?x2 ?x3 ?x4] => destruct (push_tables cfg s x1 x2 x3 x4) as [Hc [Ha [Hr _]]] end. now apply prov_eq_tables.
  - apply prov_authorize_par.
  - match goal with |- context [device_authorize cfg s ?x1 ?x2 ?x3 ?x4] => destruct (device_authorize_tables cfg s x1 x2 x3 x4) as [Hc [Ha [Hr _]]] end. now apply prov_eq_tables.
  - match goal with |- context [decide cfg s ?x1 ?x2 ?x3 ?x4 ?x5 ?x6] => destruct (decide_tables cfg s x1 x2 x3 x4 x5 x6) as [Hc [Ha [Hr _]]] end. now apply prov_eq_tables.
  - apply prov_device_poll.
  - apply prov_refl.
Qed.

Lemma grant_tokens_next_rid s stored w : next_rid (fst (grant_tokens s stored w)) = next_rid s.
Proof.
  unfold grant_tokens.
  destruct (mint s KAccess (r_id stored)) as [ka s2] eqn:E2.
  destruct (mint_spec _ _ _ _ _ E2) as [_ [_ [_ [Hn2 _]]]].
  destruct w.
  - destruct (mint s2 KRefresh (r_id stored)) as [kr s3] eqn:E3.
    destruct (mint_spec _ _ _ _ _ E3) as [_ [_ [_ [Hn3 _]]]]. cbn. congruence.
  - cbn. congruence.
Qed.

Lemma grant_tokens_codes s stored w : codes (st (fst (grant_tokens s stored w))) = codes (st s).
Proof.
  unfold grant_tokens.
  destruct (mint s KAccess (r_id stored)) as [ka s2] eqn:E2.
  destruct (mint_spec _ _ _ _ _ E2) as [_ [_ [Hs2 _]]].
  destruct w.
  - destruct (mint s2 KRefresh (r_id stored)) as [kr s3] eqn:E3.
    destruct (mint_spec _ _ _ _ _ E3) as [_ [_ [Hs3 _]]]. cbn. congruence.
  - cbn. congruence.
Qed.

Lemma fresh_grant_next_rid s mk w : next_rid (fst (fresh_grant s mk w)) = S (next_rid s).
Proof.
  unfold fresh_grant. destruct (fresh_rid s) as [rid s1] eqn:E1.
  destruct (fresh_rid_spec _ _ _ E1) as [_ [_ [_ [Hn _]]]]. rewrite grant_tokens_next_rid. assumption.
Qed.
Lemma fresh_grant_codes s mk w : codes (st (fst (fresh_grant s mk w))) = codes (st s).
Proof.
  unfold fresh_grant. destruct (fresh_rid s) as [rid s1] eqn:E1.
  destruct (fresh_rid_spec _ _ _ E1) as [_ [_ [Hst _]]]. rewrite grant_tokens_codes. congruence.
Qed.

Ltac new_flows_tac s lem k :=
  match goal with
  | |- context [password_flow _ s ?auth _ _ _ _ _] => unfold password_flow; destruct auth as [?c|]; [|k]
  | |- context [client_credentials_flow _ s ?auth _ _ _ _] => unfold client_credentials_flow; destruct auth as [?c|]; [|k]
  end;
  match goal with |- context [clients s ?c] => destruct (clients s c) as [?cl|]; [|k] end;
  repeat match goal with |- context [if ?c then fail s _ else _] => destruct c; [k|] end;
  match goal with |- context [fresh_grant s ?mk ?w] =>
    pose proof (lem s mk w) as FGfact; destruct (fresh_grant s mk w) as [?s2 ?minted] end.

(* counters and the log only grow *)
Definition grows (s s' : state) : Prop :=
  next_rid s <= next_rid s' /\ next_key s <= next_key s' /\ exists l, log s' = (log s ++ l)%list.

Lemma grows_refl s : grows s s.
Proof. repeat split; try lia. exists []. now rewrite app_nil_r. Qed.
Lemma grows_trans a b c : grows a b -> grows b c -> grows a c.
Proof.
  intros [R1 [K1 [l1 L1]]] [R2 [K2 [l2 L2]]]. repeat split; try lia.
  exists (l1 ++ l2)%list. rewrite L2, L1. now rewrite app_assoc.
Qed.
Lemma grows_set_store s x : grows s (set_store s x).
Proof. repeat split; cbn; try lia. exists []. now rewrite app_nil_r. Qed.
Lemma grows_eq s s' : next_rid s' = next_rid s -> next_key s' = next_key s -> log s' = log s -> grows s s'.
Proof. intros R K L. repeat split; try lia. exists []. rewrite app_nil_r. assumption. Qed.

Lemma grows_grant_tokens s stored w : grows s (fst (grant_tokens s stored w)).
Proof.
  unfold grant_tokens.
  destruct (mint s KAccess (r_id stored)) as [ka s2] eqn:E2.
  destruct (mint_spec _ _ _ _ _ E2) as [_ [_ [_ [Hr2 [Hk2 [_ Hl2]]]]]].
  destruct w.
  - destruct (mint s2 KRefresh (r_id stored)) as [kr s3] eqn:E3.
    destruct (mint_spec _ _ _ _ _ E3) as [_ [_ [_ [Hr3 [Hk3 [_ Hl3]]]]]].
    unfold grows. cbn. rewrite Hl3, Hl2. repeat split; try lia. eauto.
  - unfold grows. cbn. rewrite Hl2. repeat split; try lia. eauto.
Qed.

Lemma grows_fresh_grant s mk w : grows s (fst (fresh_grant s mk w)).
Proof.
  unfold fresh_grant. destruct (fresh_rid s) as [rid s1] eqn:E1.
  destruct (fresh_rid_spec _ _ _ E1) as [_ [_ [_ [Hr [Hk [_ Hl]]]]]].
  eapply grows_trans; [|apply grows_grant_tokens]. apply (grows_trans _ s1); [|apply grows_refl].
  repeat split; try lia. exists []. now rewrite app_nil_r.
Qed.

Lemma grows_authorize_core cfg s cl a : grows s (fst (authorize_core cfg s cl a)).
Proof.
  unfold authorize_core.
  destruct (negb (scopes_ok cfg cl (az_scopes a))); [apply grows_refl|].
  destruct (negb (aud_ok cfg (cl_aud cl) (az_aud a))); [apply grows_refl|].
  destruct (fresh_rid s) as [rid s1] eqn:E1. destruct (fresh_rid_spec _ _ _ E1) as [_ [_ [_ [Hn1 [Hk1 [_ Hl1]]]]]].
  destruct (mint s1 KCode rid) as [k s2] eqn:E2. destruct (mint_spec _ _ _ _ _ E2) as [_ [_ [_ [Hn2 [Hk2 [_ Hl2]]]]]].
  destruct (pkce_validate cfg (az_challenge a) (az_method a) cl); cbn [fst fail].
  - unfold grows. cbn. rewrite <- Hl1, <- Hl2. repeat split; try lia. exists []. now rewrite app_nil_r.
  - unfold grows. destruct (String.eqb (az_challenge a) "" && String.eqb (az_method a) ""); cbn; rewrite Hl2, Hl1; repeat split; try lia; eauto.
Qed.

Ltac gr := cbn [fst fail]; first [apply grows_refl | apply grows_set_store | (apply grows_eq; reflexivity)].

Theorem grows_step cfg s o : grows s (fst (step cfg s o)).
Proof.
  destruct o; cbn [step]; try gr;
    try (new_flows_tac s grows_fresh_grant ltac:(gr); exact FGfact).
  - unfold authorize. destruct (cf_par_enforced cfg); [gr|].
    destruct (clients s (az_client a)) as [cl|]; [|gr].
    destruct (az_rtype a); [apply grows_authorize_core| |].
    + destruct (authorize_implicit_effect cfg s cl a) as [_ [_ [_ [_ [_ [Hn [Hk [Hl _]]]]]]]]. repeat split; assumption.
    + destruct (authorize_hybrid_effect cfg s cl a) as [_ [_ [_ [_ [_ [Hn [Hk [Hl _]]]]]]]]. repeat split; assumption.
  - unfold redeem.
    destruct auth as [c|]; [|gr].
    destruct (clients s c) as [cl|]; [|gr].
    destruct (negb (args_has (cl_grants cl) ["authorization_code"])); [gr|].
    destruct (key_of s code) as [k|]; [|gr].
    destruct (codes (st s) k) as [[[|] r]|] eqn:Ec; [| gr |gr].
    destruct (p_tampered code); [gr|].
    destruct (negb (Nat.eqb (r_client r) c)); [gr|].
    destruct (negb (String.eqb (r_redirect r) "") && negb (String.eqb (r_redirect r) redirect)); [gr|].
    assert (H1 : grows s (fst (pkce_token cfg s cl (Some k) verifier verifier_s256)))
      by (destruct (pkce_token_state cfg s cl (Some k) verifier verifier_s256) as [->|[k0 ->]]; gr).
    destruct (pkce_token cfg s cl (Some k) verifier verifier_s256) as [s1 [e|]]; cbn [fst] in *; [assumption|].
    destruct (expired _ _ _ _); [assumption|].
    match goal with |- context [grant_tokens ?s2 ?stored ?w] =>
      pose proof (grows_grant_tokens s2 stored w) as G; destruct (grant_tokens s2 stored w) as [s3 minted] end.
    cbn [fst] in *. eapply grows_trans; [exact H1|]. eapply grows_trans; [|apply grows_set_store].
    eapply grows_trans; [apply grows_set_store|exact G].
  - unfold refresh_flow.
    destruct auth as [c|]; [|gr].
    destruct (clients s c) as [cl|]; [|gr].
    destruct (negb (args_has (cl_grants cl) ["refresh_token"])); [gr|].
    destruct (key_of s tok) as [k|]; cbn [find]; [|gr].
    destruct (refresh (st s) k) as [[[|] r]|] eqn:Er; [| gr |gr].
    repeat match goal with |- context [if ?c then _ else _] => destruct c; [gr|] end.
    destruct (rotate_refresh (st s) (r_id r)) as [st1 [e|]]; [gr|].
    match goal with |- context [grant_tokens ?s2 ?stored ?w] =>
      pose proof (grows_grant_tokens s2 stored w) as G; destruct (grant_tokens s2 stored w) as [s3 minted] end.
    cbn [fst] in *. eapply grows_trans; [apply grows_set_store|exact G].
  - unfold revoke.
    destruct auth as [c|]; [|gr].
    destruct (clients s c); [|gr].
    destruct (revoke_lookup s (key_of s tok) h) as [r|]; [|gr].
    destruct (negb (Nat.eqb (r_client r) c)); gr.
  - match goal with |- context [push cfg s ?x1 ?x2 ?x3 ?x4] => destruct (push_tables cfg s x1 x2 x3 x4) as [_ [_ [_ [_ [_ [Hr [Hk Hl]]]]]]] end. repeat split; assumption.
  - rewrite ?authorize_par_fst; unfold authorize_par0.
    destruct (key_of s uri) as [k|]; [|gr].
    destruct (par (st s) k) as [pr|]; [|gr].
    repeat match goal with |- context [if ?c then fail _ _ else _] => destruct c; [gr|] end.
    eapply grows_trans; [apply grows_set_store|apply grows_authorize_core].
  - match goal with |- context [device_authorize cfg s ?x1 ?x2 ?x3 ?x4] => destruct (device_authorize_tables cfg s x1 x2 x3 x4) as [_ [_ [_ [_ [Hr [Hk [Hl _]]]]]]] end. repeat split; assumption.
  - match goal with |- context [decide cfg s ?x1 ?x2 ?x3 ?x4 ?x5 ?x6] => destruct (decide_tables cfg s x1 x2 x3 x4 x5 x6) as [_ [_ [_ [_ [Hr [Hk [Hl _]]]]]]] end. now apply grows_eq.
  - unfold device_poll.
    destruct auth as [c|]; [|gr]. destruct (clients s c) as [cl|]; [|gr].
    destruct (negb (args_has (cl_grants cl) _)); [gr|].
    destruct (key_of s dev) as [k|]; [|gr].
    destruct (used_device cfg (st s) k) as [rid|]; [gr|].
    destruct (device (st s) k) as [[stt r]|] eqn:Ed; [|gr].
    repeat match goal with |- context [if ?c then fail s _ else _] => destruct c; [gr|] end.
    match goal with |- context [grant_tokens ?s2 ?stored ?w] =>
      pose proof (grows_grant_tokens s2 stored w) as G; destruct (grant_tokens s2 stored w) as [s3 minted] end.
    cbn [fst] in *. eapply grows_trans; [apply grows_set_store|exact G].
Qed.

Lemma next_rid_step cfg s o : next_rid s <= next_rid (fst (step cfg s o)).
Proof. exact (proj1 (grows_step cfg s o)). Qed.
Lemma next_key_step cfg s o : next_key s <= next_key (fst (step cfg s o)).
Proof. exact (proj1 (proj2 (grows_step cfg s o))). Qed.
Lemma log_step_prefix cfg s o : exists l, log (fst (step cfg s o)) = (log s ++ l)%list.
Proof. exact (proj2 (proj2 (grows_step cfg s o))). Qed.
Lemma log_run_nth cfg h : forall s i e, nth_error (log s) i = Some e -> nth_error (log (run cfg s h)) i = Some e.
Proof.
  unfold run. induction h as [|o h IH]; intros s i e Hn; cbn [fold_left]; [assumption|].
  apply IH. destruct (log_step_prefix cfg s o) as [l ->].
  rewrite nth_error_app1; [assumption|]. apply nth_error_Some. congruence.
Qed.

(* ------------------------------------------------------------------ dead families stay dead *)
(* device records: a step keeps them (possibly updated by the user's decision, same request id), deletes
   them, or creates one for the next fresh request id *)
Lemma grant_tokens_device s stored w : device (st (fst (grant_tokens s stored w))) = device (st s).
Proof.
  unfold grant_tokens.
  destruct (mint s KAccess (r_id stored)) as [ka s2] eqn:E2. destruct (mint_spec _ _ _ _ _ E2) as [_ [_ [H2 _]]].
  destruct w.
  - destruct (mint s2 KRefresh (r_id stored)) as [kr s3] eqn:E3. destruct (mint_spec _ _ _ _ _ E3) as [_ [_ [H3 _]]].
    cbn. congruence.
  - cbn. congruence.
Qed.
Lemma fresh_grant_device s mk w : device (st (fst (fresh_grant s mk w))) = device (st s).
Proof.
  unfold fresh_grant. destruct (fresh_rid s) as [rid s1] eqn:E1. destruct (fresh_rid_spec _ _ _ E1) as [_ [_ [H1 _]]].
  rewrite grant_tokens_device. congruence.
Qed.
Lemma authorize_core_device cfg s cl a : device (st (fst (authorize_core cfg s cl a))) = device (st s).
Proof.
  unfold authorize_core.
  destruct (negb (scopes_ok cfg cl (az_scopes a))); [reflexivity|].
  destruct (negb (aud_ok cfg (cl_aud cl) (az_aud a))); [reflexivity|].
  destruct (fresh_rid s) as [rid s1] eqn:E1. destruct (fresh_rid_spec _ _ _ E1) as [_ [_ [H1 _]]].
  destruct (mint s1 KCode rid) as [k s2] eqn:E2. destruct (mint_spec _ _ _ _ _ E2) as [_ [_ [H2 _]]].
  destruct (pkce_validate cfg (az_challenge a) (az_method a) cl); cbn [fst fail]; [cbn; congruence|].
  destruct (String.eqb (az_challenge a) "" && String.eqb (az_method a) ""); cbn; congruence.
Qed.
Lemma revoke_access_device x X : device (revoke_access x X) = device x.
Proof. reflexivity. Qed.
Lemma revoke_refresh_device x X : device (fst (revoke_refresh x X)) = device x.
Proof. unfold revoke_refresh. destruct (rt_idx x X) as [k|]; [destruct (refresh x k) as [[? ?]|]|]; reflexivity. Qed.
Lemma invalidate_code_device x k : device (fst (invalidate_code x k)) = device x.
Proof. unfold invalidate_code. destruct (codes x k) as [[? ?]|]; reflexivity. Qed.

Definition dev_keeps (s s' : state) : Prop :=
  forall k b r, device (st s') k = Some (b, r) ->
    (exists b0 r0, device (st s) k = Some (b0, r0) /\ r_id r0 = r_id r) \/ (r_id r = next_rid s /\ next_key s <= k).

Lemma dev_keeps_eq s s' : device (st s') = device (st s) -> dev_keeps s s'.
Proof. intros E k b r H. rewrite E in H. left. eauto. Qed.

Theorem dev_keeps_step cfg s o : dev_keeps s (fst (step cfg s o)).
Proof.
  destruct o; cbn [step]; try (apply dev_keeps_eq; reflexivity);
    try (new_flows_tac s fresh_grant_device ltac:(apply dev_keeps_eq; reflexivity); apply dev_keeps_eq; exact FGfact).
  - unfold authorize. destruct (cf_par_enforced cfg); [apply dev_keeps_eq; reflexivity|].
    destruct (clients s (az_client a)) as [cl|]; [|apply dev_keeps_eq; reflexivity].
    apply dev_keeps_eq. destruct (az_rtype a); [apply authorize_core_device| |].
    + exact (proj1 (proj2 (proj2 (authorize_implicit_effect cfg s cl a)))).
    + exact (proj1 (proj2 (proj2 (authorize_hybrid_effect cfg s cl a)))).
  - apply dev_keeps_eq. unfold redeem.
    destruct auth as [c|]; [|reflexivity].
    destruct (clients s c) as [cl|]; [|reflexivity].
    destruct (negb (args_has (cl_grants cl) ["authorization_code"])); [reflexivity|].
    destruct (key_of s code) as [k|]; [|reflexivity].
    destruct (codes (st s) k) as [[[|] r]|] eqn:Ec; [| |reflexivity].
    + destruct (p_tampered code); [reflexivity|].
      destruct (negb (Nat.eqb (r_client r) c)); [reflexivity|].
      destruct (negb (String.eqb (r_redirect r) "") && negb (String.eqb (r_redirect r) redirect)); [reflexivity|].
      assert (H1 : device (st (fst (pkce_token cfg s cl (Some k) verifier verifier_s256))) = device (st s))
        by (destruct (pkce_token_state cfg s cl (Some k) verifier verifier_s256) as [->|[k0 ->]]; reflexivity).
      destruct (pkce_token cfg s cl (Some k) verifier verifier_s256) as [s1 [e|]]; cbn [fst] in *; [assumption|].
      destruct (expired _ _ _ _); [assumption|].
      match goal with |- context [grant_tokens ?s2 ?stored ?w] =>
        pose proof (grant_tokens_device s2 stored w) as G; destruct (grant_tokens s2 stored w) as [s3 minted] end.
      cbn in *. rewrite G, invalidate_code_device. assumption.
    + cbn. now rewrite ?revoke_refresh_device, ?revoke_access_device.
  - apply dev_keeps_eq. unfold refresh_flow.
    destruct auth as [c|]; [|reflexivity].
    destruct (clients s c) as [cl|]; [|reflexivity].
    destruct (negb (args_has (cl_grants cl) ["refresh_token"])); [reflexivity|].
    destruct (key_of s tok) as [k|]; cbn [find]; [|reflexivity].
    destruct (refresh (st s) k) as [[[|] r]|] eqn:Er; [| |reflexivity].
    + repeat match goal with |- context [if ?c then _ else _] => destruct c; [reflexivity|] end.
      unfold rotate_refresh. pose proof (revoke_refresh_device (st s) (r_id r)) as Td.
      destruct (revoke_refresh (st s) (r_id r)) as [st1 [e|]]; cbn [fst] in *; [cbn; assumption|].
      match goal with |- context [grant_tokens ?s2 ?stored ?w] =>
        pose proof (grant_tokens_device s2 stored w) as G; destruct (grant_tokens s2 stored w) as [s3 minted] end.
      cbn in *. now rewrite G, ?revoke_access_device.
    + cbn. now rewrite ?revoke_access_device, ?revoke_refresh_device.
  - apply dev_keeps_eq. unfold revoke.
    destruct auth as [c|]; [|reflexivity].
    destruct (clients s c); [|reflexivity].
    destruct (revoke_lookup s (key_of s tok) h) as [r|]; [|reflexivity].
    destruct (negb (Nat.eqb (r_client r) c)); [reflexivity|]. cbn. now rewrite ?revoke_access_device, ?revoke_refresh_device.
  - apply dev_keeps_eq.
    match goal with |- context [push cfg s ?x1 ?x2 ?x3 ?x4] => destruct (push_tables cfg s x1 x2 x3 x4) as [_ [_ [_ [Hd _]]]] end. assumption.
  - apply dev_keeps_eq. rewrite ?authorize_par_fst; unfold authorize_par0.
    destruct (key_of s uri) as [k|]; [|reflexivity].
    destruct (par (st s) k) as [pr|]; [|reflexivity].
    repeat match goal with |- context [if ?c then fail _ _ else _] => destruct c; [reflexivity|] end.
    rewrite authorize_core_device. reflexivity.
  - match goal with |- context [device_authorize cfg s ?x1 ?x2 ?x3 ?x4] =>
      destruct (device_authorize_tables cfg s x1 x2 x3 x4) as [_ [_ [_ [_ [_ [_ [_ [Hd Hold]]]]]]]] end.
    intros k b r H. destruct (Nat.lt_ge_cases k (next_key s)) as [Hlt|Hge].
    + left. rewrite (Hold k Hlt) in H. eauto.
    + destruct (Hd k b r H); [left; eauto|right; split; assumption].
  - match goal with |- context [decide cfg s ?x1 ?x2 ?x3 ?x4 ?x5 ?x6] =>
      destruct (decide_tables cfg s x1 x2 x3 x4 x5 x6) as [_ [_ [_ [_ [_ [_ [_ [Hd _]]]]]]]] end.
    intros k b r H. left. exact (Hd k b r H).
  - unfold device_poll.
    destruct auth as [c|]; [|apply dev_keeps_eq; reflexivity]. destruct (clients s c) as [cl|]; [|apply dev_keeps_eq; reflexivity].
    destruct (negb (args_has (cl_grants cl) _)); [apply dev_keeps_eq; reflexivity|].
    destruct (key_of s dev) as [k|]; [|apply dev_keeps_eq; reflexivity].
    destruct (used_device cfg (st s) k) as [rid|].
    { apply dev_keeps_eq. cbn. now rewrite ?revoke_access_device, ?revoke_refresh_device. }
    destruct (device (st s) k) as [[stt r]|] eqn:Ed; [|apply dev_keeps_eq; reflexivity].
    repeat match goal with |- context [if ?c then fail s _ else _] => destruct c; [apply dev_keeps_eq; reflexivity|] end.
    match goal with |- context [grant_tokens ?s2 ?stored ?w] =>
      pose proof (grant_tokens_device s2 stored w) as G; destruct (grant_tokens s2 stored w) as [s3 minted] end.
    cbn [fst] in *. intros k0 b0 r0 H. rewrite G in H. cbn in H. upd_case k0 k; [discriminate|]. left. eauto.
Qed.

Theorem dead_step cfg s o X :
  dead (st s) X -> X < next_rid s -> dead (st (fst (step cfg s o))) X /\ X < next_rid (fst (step cfg s o)).
Proof.
  intros [Da [Dr [Dc Dd]]] Hlt. pose proof (prov_step cfg s o) as [PA [PR PC]].
  pose proof (next_rid_step cfg s o) as Hn. pose proof (dev_keeps_step cfg s o) as DK.
  assert (NS : ~ src s X).
  { intros [->|[[k [r [H <-]]]|[[k [r [H <-]]]|[k [b [r [H <-]]]]]]]; [lia|eapply Dc; eauto|eapply Dr; eauto|eapply Dd; eauto]. }
  split; [|lia]. repeat split.
  - intros k r H Heq. destruct (PA _ _ H) as [H0|H0]; [eapply Da; eauto|subst; auto].
  - intros k r H Heq. destruct (PR _ _ H) as [H0|H0]; [eapply Dr; eauto|subst; auto].
  - intros k r H Heq. destruct (PC _ _ H) as [H0|H0]; [eapply Dc; eauto|subst; auto].
  - intros k b r H Heq. destruct (DK _ _ _ H) as [[b0 [r0 [H0 Hr0]]]|[H0 _]]; [eapply Dd; [exact H0|congruence]|lia].
Qed.

Theorem dead_run cfg h : forall s X, dead (st s) X -> X < next_rid s -> dead (st (run cfg s h)) X.
Proof.
  unfold run. induction h as [|o h IH]; intros s X D Hlt; cbn [fold_left]; [assumption|].
  destruct (dead_step cfg s o X D Hlt). now apply IH.
Qed.

(* ------------------------------------------------------------------ a dead family has no active token *)
(* a credential of the log that belongs to request id X (minted for it) is reported inactive, whatever
   the hint, the required scopes and the presentation *)
Theorem dead_credential_inactive cfg s X i e tampered h scopes :
  Inv s -> dead (st s) X -> nth_error (log s) i = Some e -> i_rid e = X -> i_kind e <> KImplicit ->
  introspect cfg s {| p_ref := CRef i; p_tampered := tampered |} h scopes = None.
Proof.
  intros I [Da [Dr [Dc Dd]]] Hn Hrid Hkind.
  assert (Ho : owner s (i_key e) = Some (i_kind e, X)).
  { rewrite <- Hrid. apply (inv_log_owner s I). eapply nth_error_In; eassumption. }
  assert (HA : introspect_access cfg s (Some (i_key e)) tampered scopes = None).
  { unfold introspect_access, lookup_access. destruct (access (st s) (i_key e)) as [r|] eqn:E.
    - exfalso. pose proof (inv_owner_access s I _ _ E) as Ho'. rewrite Ho in Ho'. injection Ho' as _ Hx.
      eapply Da; eauto.
    - destruct (implicit (st s) (i_key e)) as [r|] eqn:Ei; [|reflexivity].
      exfalso. pose proof (inv_owner_implicit s I _ _ Ei) as Ho'. rewrite Ho in Ho'. congruence. }
  assert (HR : introspect_refresh cfg s (Some (i_key e)) tampered scopes = None).
  { unfold introspect_refresh. cbn [find]. destruct (refresh (st s) (i_key e)) as [[[|] r]|] eqn:E; try reflexivity.
    exfalso. pose proof (inv_owner_refresh s I _ _ _ E) as Ho'. rewrite Ho in Ho'. injection Ho' as _ Hx.
    eapply Dr; eauto. }
  unfold introspect, key_of. cbn [p_ref p_tampered]. rewrite Hn. cbn [option_map].
  rewrite HA, HR. destruct (negb (cf_introspect_rt cfg)); [reflexivity|destruct h; reflexivity].
Qed.

(* ------------------------------------------------------------------ what kills a family *)
Lemma kill_dead s X :
  Inv s -> no_active_code_rid (st s) X -> no_device_rid (st s) X ->
  dead (revoke_access (fst (revoke_refresh (st s) X)) X) X /\ dead (fst (revoke_refresh (revoke_access (st s) X) X)) X.
Proof.
  intros I Dc Dd. split.
  - pose proof (Inv_revoke_refresh s X I) as I1.
    pose proof (revoke_access_no_access (set_store s (fst (revoke_refresh (st s) X))) X I1) as Ha. cbn in Ha.
    destruct (revoke_access_tables (fst (revoke_refresh (st s) X)) X) as [Tc [Tr _]].
    destruct (revoke_refresh_tables (st s) X) as [Tc' _].
    repeat split; [exact Ha| | |].
    + intros k r H. rewrite Tr in H. exact (revoke_refresh_no_active s X I k r H).
    + intros k r H. rewrite Tc, Tc' in H. eauto.
    + intros k b r H. rewrite ?revoke_access_device, ?revoke_refresh_device in H. eauto.
  - pose proof (Inv_revoke_access s X I) as I1.
    pose proof (revoke_refresh_no_active (set_store s (revoke_access (st s) X)) X I1) as Hr. cbn in Hr.
    destruct (revoke_refresh_tables (revoke_access (st s) X) X) as [Tc [Ta _]].
    destruct (revoke_access_tables (st s) X) as [Tc' _].
    repeat split; [|exact Hr| |].
    + intros k r H. rewrite Ta in H. exact (revoke_access_no_access s X I k r H).
    + intros k r H. rewrite Tc, Tc' in H. eauto.
    + intros k b r H. rewrite ?revoke_refresh_device, ?revoke_access_device in H. eauto.
Qed.

(* replay of a used authorization code by an authenticated client registered for the grant *)
Theorem replay_kills cfg s c cl code redirect v vh k r :
  Inv s -> clients s c = Some cl -> args_has (cl_grants cl) ["authorization_code"] = true ->
  key_of s code = Some k -> codes (st s) k = Some (false, r) ->
  let res := redeem cfg s (Some c) code redirect v vh in
  o_err (snd res) = "invalid_grant" /\ o_minted (snd res) = [] /\ dead (st (fst res)) (r_id r).
Proof.
  intros I Hc Hg Hk Hcode. unfold redeem. rewrite Hc, Hg, Hk, Hcode. cbn.
  split; [reflexivity|split; [reflexivity|]].
  apply kill_dead; [assumption| |exact (inv_code_device s I _ _ _ Hcode)].
  intros k' r' H Heq. assert (k' = k) by (eapply (inv_code_rid s I); eassumption). congruence.
Qed.

(* presentation of an already-used (inactive) refresh token *)
Theorem reuse_kills cfg s c cl tok k r :
  Inv s -> clients s c = Some cl -> args_has (cl_grants cl) ["refresh_token"] = true ->
  key_of s tok = Some k -> refresh (st s) k = Some (false, r) ->
  let res := refresh_flow cfg s (Some c) tok in
  o_err (snd res) = "invalid_grant" /\ o_minted (snd res) = [] /\ dead (st (fst res)) (r_id r).
Proof.
  intros I Hc Hg Hk Hr. pose proof (inv_refresh_code s I _ _ _ Hr) as Dc. unfold refresh_flow. rewrite Hc, Hg, Hk. cbn [find negb]. rewrite Hr. cbn.
  split; [reflexivity|split; [reflexivity|]].
  pose proof (Inv_delete_refresh s k I) as I1.
  exact (proj1 (kill_dead (set_store s (delete_refresh (st s) k)) (r_id r) I1 Dc (inv_refresh_device s I _ _ _ Hr))).
Qed.

(* accepted revocation by the owning client *)
Lemma revoke_lookup_live s key h r :
  revoke_lookup s key h = Some r ->
  exists k, key = Some k /\
    (access (st s) k = Some r \/ (access (st s) k = None /\ implicit (st s) k = Some r) \/ refresh (st s) k = Some (true, r)).
Proof.
  unfold revoke_lookup, lookup_access. destruct key as [k|]; cbn [find]; [|destruct h; discriminate].
  intros H. exists k. split; [reflexivity|].
  destruct (refresh (st s) k) as [[[|] rr]|]; destruct (access (st s) k) as [ra|]; destruct (implicit (st s) k) as [ri|]; destruct h;
    try discriminate; injection H as <-; auto.
Qed.

(* [endpoint_token s tok]: the presented credential is not an access token minted by the authorization endpoint *)
Definition endpoint_token (s : state) (tok : pres) : Prop := forall k, key_of s tok = Some k -> implicit (st s) k = None.

Theorem revoke_kills cfg s c cl tok h r :
  Inv s -> clients s c = Some cl -> revoke_lookup s (key_of s tok) h = Some r -> r_client r = c ->
  endpoint_token s tok ->
  let res := revoke cfg s (Some c) tok h in
  o_err (snd res) = "" /\ dead (st (fst res)) (r_id r).
Proof.
  intros I Hc Hl Hcl Hep. unfold revoke. rewrite Hc, Hl, Hcl, Nat.eqb_refl. cbn.
  split; [reflexivity|].
  destruct (revoke_lookup_live _ _ _ _ Hl) as [k [Hk [Ha|[[_ Hi]|Hr]]]].
  - apply kill_dead; [assumption|exact (inv_access_code s I _ _ Ha)|exact (inv_access_device s I _ _ Ha)].
  - rewrite (Hep k Hk) in Hi. discriminate.
  - apply kill_dead; [assumption|exact (inv_refresh_code s I _ _ _ Hr)|exact (inv_refresh_device s I _ _ _ Hr)].
Qed.

(* ------------------------------------------------------------------ single use *)
(* a successful redemption consumes an active code *)
Theorem redeem_ok_consumes cfg s auth code redirect v vh :
  o_err (snd (redeem cfg s auth code redirect v vh)) = "" ->
  exists k r, key_of s code = Some k /\ codes (st s) k = Some (true, r) /\
              exists r', codes (st (fst (redeem cfg s auth code redirect v vh))) k = Some (false, r') /\ r_id r' = r_id r.
Proof.
  unfold redeem.
  destruct auth as [c|]; [|discriminate].
  destruct (clients s c) as [cl|]; [|discriminate].
  destruct (negb (args_has (cl_grants cl) ["authorization_code"])); [discriminate|].
  destruct (key_of s code) as [k|]; [|discriminate].
  destruct (codes (st s) k) as [[[|] r]|] eqn:Ec; [| discriminate |discriminate].
  destruct (p_tampered code); [discriminate|].
  destruct (negb (Nat.eqb (r_client r) c)); [discriminate|].
  destruct (negb (String.eqb (r_redirect r) "") && negb (String.eqb (r_redirect r) redirect)); [discriminate|].
  assert (H1 : codes (st (fst (pkce_token cfg s cl (Some k) v vh))) = codes (st s))
    by (destruct (pkce_token_state cfg s cl (Some k) v vh) as [->|[k1 ->]]; reflexivity).
  destruct (pkce_token cfg s cl (Some k) v vh) as [s1 [e|]] eqn:Ep; cbn [fst] in *.
  - cbn. intros He. exfalso. unfold pkce_token in Ep.
    destruct (find (pkce (st s)) (Some k)); [|destruct (Nat.eqb (String.length v) 0); [unfold pkce_no_pkce in Ep|]];
    repeat match type of Ep with context [if ?c then _ else _] => destruct c end;
    try (destruct (pkce_validate _ _ _ _) eqn:Ev; [unfold pkce_validate, pkce_no_pkce in Ev;
         repeat match type of Ev with context [if ?c then _ else _] => destruct c end|]);
    repeat match type of Ep with context [if ?c then _ else _] => destruct c end;
    try (injection Ep as _ <-); try discriminate; try (injection Ev as <-; discriminate).
  - destruct (expired _ _ _ _); [discriminate|]. intros _.
    exists k, r. split; [reflexivity|split; [assumption|]].
    match goal with |- context [grant_tokens ?s2 ?stored ?w] =>
      pose proof (grant_tokens_codes s2 stored w) as GT; destruct (grant_tokens s2 stored w) as [s3 minted] end.
    cbn in *. rewrite GT. unfold invalidate_code. rewrite H1, Ec. cbn. rewrite upd_eq. eauto.
Qed.

(* presenting a used code fails, with invalid_grant once the caller is an authenticated client allowed the grant *)
Theorem redeem_used_fails cfg s auth code redirect v vh k r :
  key_of s code = Some k -> codes (st s) k = Some (false, r) ->
  o_err (snd (redeem cfg s auth code redirect v vh)) <> "" /\
  o_minted (snd (redeem cfg s auth code redirect v vh)) = [] /\
  (forall c cl, auth = Some c -> clients s c = Some cl -> args_has (cl_grants cl) ["authorization_code"] = true ->
                o_err (snd (redeem cfg s auth code redirect v vh)) = "invalid_grant").
Proof.
  intros Hk Hc. unfold redeem.
  destruct auth as [c|]; [|cbn; repeat split; try reflexivity; easy].
  destruct (clients s c) as [cl|] eqn:Ecl;
    [|cbn; repeat split; try reflexivity; try easy; intros c0 cl0 [= <-]; congruence].
  destruct (negb (args_has (cl_grants cl) ["authorization_code"])) eqn:Eg.
  - cbn [snd fail err_obs o_err o_minted]. repeat split; try reflexivity; try easy.
    intros c0 cl0 [= <-] Hcl Hg. rewrite Ecl in Hcl. injection Hcl as <-. rewrite Hg in Eg. discriminate.
  - rewrite Hk, Hc. cbn. repeat split; try reflexivity; easy.
Qed.

(* ------------------------------------------------------------------ other grants are not touched by a kill *)
Lemma revoke_access_frame s X k :
  Inv s -> (forall kd, owner s k <> Some (kd, X)) ->
  access (revoke_access (st s) X) k = access (st s) k /\ implicit (revoke_access (st s) X) k = implicit (st s) k.
Proof.
  intros I Ho. unfold revoke_access. cbn. unfold drop_rid. split.
  - destruct (access (st s) k) as [r|] eqn:E; [|reflexivity].
    destruct (Nat.eqb_spec (r_id r) X) as [Hx|]; [|reflexivity].
    exfalso. apply (Ho KAccess). rewrite <- Hx. exact (inv_owner_access s I _ _ E).
  - destruct (implicit (st s) k) as [r|] eqn:E; [|reflexivity].
    destruct (Nat.eqb_spec (r_id r) X) as [Hx|]; [|reflexivity].
    exfalso. apply (Ho KImplicit). rewrite <- Hx. exact (inv_owner_implicit s I _ _ E).
Qed.
Lemma revoke_refresh_frame s X k :
  Inv s -> owner s k <> Some (KRefresh, X) -> refresh (fst (revoke_refresh (st s) X)) k = refresh (st s) k.
Proof.
  intros I Ho. unfold revoke_refresh. destruct (rt_idx (st s) X) as [k0|] eqn:E; [|reflexivity].
  destruct (refresh (st s) k0) as [[b r]|]; [|reflexivity].
  cbn. rewrite upd_neq; [reflexivity|]. intros ->. apply Ho. exact (inv_rt_idx_owner s I _ _ E).
Qed.

(* introspection of a credential only looks at the records under its key, the clock and the log *)
Lemma introspect_ext cfg s s' p h scopes :
  log s' = log s -> now s' = now s ->
  (forall k, key_of s p = Some k -> access (st s') k = access (st s) k /\ implicit (st s') k = implicit (st s) k /\
                                    refresh (st s') k = refresh (st s) k) ->
  introspect cfg s' p h scopes = introspect cfg s p h scopes.
Proof.
  intros Hl Hn Hk. unfold introspect, introspect_access, introspect_refresh, lookup_access, key_of. rewrite Hl, Hn.
  unfold key_of in Hk. destruct (p_ref p) as [i|]; cbn [find]; [|reflexivity].
  destruct (nth_error (log s) i) as [e|]; cbn [option_map find]; [|reflexivity].
  destruct (Hk _ eq_refl) as [-> [-> ->]]. reflexivity.
Qed.

Theorem replay_frame cfg s c cl code redirect v vh k r i e tampered h scopes :
  Inv s -> clients s c = Some cl -> args_has (cl_grants cl) ["authorization_code"] = true ->
  key_of s code = Some k -> codes (st s) k = Some (false, r) ->
  nth_error (log s) i = Some e -> i_rid e <> r_id r ->
  introspect cfg (fst (redeem cfg s (Some c) code redirect v vh)) {| p_ref := CRef i; p_tampered := tampered |} h scopes
  = introspect cfg s {| p_ref := CRef i; p_tampered := tampered |} h scopes.
Proof.
  intros I Hc Hg Hk Hcode Hn Hne. unfold redeem. rewrite Hc, Hg, Hk, Hcode. cbn [negb fst fail].
  apply introspect_ext; [reflexivity|reflexivity|].
  intros k0 Hk0. unfold key_of in Hk0. cbn in Hk0. rewrite Hn in Hk0. injection Hk0 as <-.
  assert (Ho : owner s (i_key e) = Some (i_kind e, i_rid e)) by (apply (inv_log_owner s I); eapply nth_error_In; eassumption).
  assert (Hno : forall kd, owner s (i_key e) <> Some (kd, r_id r)) by (intros kd; rewrite Ho; congruence).
  cbn [st set_store].
  destruct (revoke_refresh_tables (revoke_access (st s) (r_id r)) (r_id r)) as [_ [Ta _]].
  assert (Ti : implicit (fst (revoke_refresh (revoke_access (st s) (r_id r)) (r_id r))) = implicit (revoke_access (st s) (r_id r))).
  { unfold revoke_refresh. destruct (rt_idx _ _) as [k1|]; [destruct (refresh _ k1) as [[? ?]|]|]; reflexivity. }
  destruct (revoke_access_tables (st s) (r_id r)) as [_ [Tr _]].
  destruct (revoke_access_frame s (r_id r) (i_key e) I Hno) as [Fa Fi].
  split; [rewrite Ta; exact Fa|]. split; [rewrite Ti; exact Fi|].
  pose proof (Inv_revoke_access s (r_id r) I) as I1.
  pose proof (revoke_refresh_frame (set_store s (revoke_access (st s) (r_id r))) (r_id r) (i_key e) I1) as F.
  cbn in F. rewrite F, Tr; [reflexivity|]. rewrite Ho. congruence.
Qed.
