(* The monitor of C06 (Cases/CasesC06.v) can never raise an alarm on an observation that the model
   reproduces: for every case, [corr = None] implies [mon = None].  (KFresh carries no model: the
   measurement of duplicates / byte statistics is judged by the monitor alone.) *)
From FositeModel Require Import Base.Str Model.Hmac Model.Jwt Proofs.HmacProofs Proofs.JwtProofs Cases.CasesC06.

Lemma sym_consistent_in kd sd t l s :
  sym_consistent kd sd t l = true -> In s l -> sf_mac s = true -> sym_mac (sf_id s) t = true.
Proof.
  unfold sym_consistent. rewrite forallb_forall. intros H Hin Hm. specialize (H s Hin).
  rewrite Hm in H. apply eqb_prop in H. symmetry in H. apply andb_true_iff in H. tauto.
Qed.

Lemma key_list_incl g rot s : In s (key_list g rot) -> In s (g :: rot).
Proof. intros H. apply key_list_sub in H as [->|H]; [now left|now right]. Qed.

Lemma authenticated_of_sound kd sd t g rot :
  sym_consistent kd sd t (g :: rot) = true ->
  (exists s, In s (key_list g rot) /\ long s /\ sf_mac s = true) ->
  authenticated_b t (g :: rot) = true.
Proof.
  intros Hc [s [Hin [Hl Hm]]]. apply key_list_incl in Hin. unfold authenticated_b. apply existsb_exists.
  exists s. split; [assumption|]. rewrite (sym_consistent_in _ _ _ _ _ Hc Hin Hm). cbn.
  apply N.leb_le. exact Hl.
Qed.

Lemma mon_accept_silent kd sd t g rot accepted :
  sym_consistent kd sd t (g :: rot) = true ->
  (accepted = true -> exists s, In s (key_list g rot) /\ long s /\ sf_mac s = true) ->
  mon_accept t g rot accepted = None.
Proof.
  intros Hc Hs. unfold mon_accept. destruct accepted; [|reflexivity]. cbn [negb].
  now rewrite (authenticated_of_sound _ _ _ _ _ Hc (Hs eq_refl)).
Qed.

Lemma res_eqb_none r : res_eqb r None = true -> r = None.
Proof. destruct r; [discriminate|reflexivity]. Qed.


Lemma optin_of_decode pk : decode_key pk = Some VNoneMagic -> optin_none_b pk = true.
Proof.
  destruct pk as [|c|a inner|a inner|algs pub| |]; cbn; try discriminate.
  - destruct inner as [|c| | |algs pub| |]; cbn; try discriminate. intros H. injection H as ->. reflexivity.
  - intros H. injection H as ->. reflexivity.
Qed.

Lemma optin_sym_of_decode pk : decode_key pk = Some VSym -> optin_sym_b pk = true.
Proof.
  destruct pk as [|c|a inner|a inner|algs pub| |]; cbn; try discriminate.
  - destruct inner as [|c| | |algs pub| |]; cbn; try discriminate. intros H. injection H as ->. reflexivity.
  - intros H. injection H as ->. reflexivity.
Qed.

Lemma mon_jwt_silent pk f accepted :
  (accepted = true -> jwt_validate pk f = "") -> mon_jwt pk f accepted = None.
Proof.
  intros Hacc. unfold mon_jwt. destruct accepted; [|reflexivity]. cbn [negb]. specialize (Hacc eq_refl).
  destruct (String.eqb_spec (j_alg f) "none") as [Ha|Ha].
  - now rewrite (optin_of_decode _ (jwt_none_needs_optin _ _ Hacc Ha)).
  - rewrite (jwt_signed_needs_signature _ _ Hacc Ha). cbn [negb].
    destruct (asymmetric (j_alg f)) eqn:Easym; [reflexivity|].
    destruct (jwt_signed_alg_fits _ _ Hacc Ha) as [vk [Hd Hf]].
    destruct vk as [|c| | | | | |]; try discriminate.
    + destruct (fits_asym VRsa _ (or_introl eq_refl) Hf) as [H _]. congruence.
    + destruct (fits_asym (VEc c) _ (or_intror (ex_intro _ c eq_refl)) Hf) as [H _]. congruence.
    + change (mem (j_alg f) sym_algs = true) in Hf. rewrite Hf, (optin_sym_of_decode _ Hd). reflexivity.
Qed.

Lemma plain_gen_asym pk a : plain_key_b pk = true -> gen_alg pk = Some a -> asymmetric a = true.
Proof.
  assert (Hr : forall x, mem x rsa_algs = true -> asymmetric x = true) by (intros x H; unfold asymmetric; now rewrite H).
  assert (He : forall x s, String.eqb x s = true -> asymmetric s = true -> asymmetric x = true)
    by (intros x s H; apply String.eqb_eq in H; now subst).
  destruct pk as [|c|al inner|al inner|algs pub| |]; cbn [plain_key_b gen_alg]; try discriminate.
  - intros _ H. injection H as <-. reflexivity.
  - intros _. destruct c; [|discriminate]. intros H. injection H as <-. reflexivity.
  - destruct inner as [|c| | | | |]; try discriminate; intros _; cbn [priv_fits].
    + destruct (mem al rsa_algs) eqn:E; [|discriminate]. intros H. injection H as <-. now apply Hr.
    + destruct c; (destruct (String.eqb al _) eqn:E; [|discriminate]); intros H; injection H as <-;
        (eapply He; [exact E|reflexivity]).
  - destruct inner as [|c| | | | |]; try discriminate; intros _; cbn [priv_fits].
    + destruct (mem al rsa_algs) eqn:E; [|discriminate]. intros H. injection H as <-. now apply Hr.
    + destruct c; (destruct (String.eqb al _) eqn:E; [|discriminate]); intros H; injection H as <-;
        (eapply He; [exact E|reflexivity]).
Qed.

Definition has_model (c : c06case) : bool := match c with KFresh _ _ _ _ => false | _ => true end.

Theorem monitor_silent_on_model c :
  has_model c = true -> corr (check c) = None -> mon (check c) = None.
Proof.
  destruct c as [p k raw kd sd t g rot impl|ep k stored raw kd sd t g rot impl|glen e h impl|glen impl
                 |m d tl b|pk f impl|stored raw pk f impl|pk impl]; cbn [has_model check corr mon]; intros Hm; try discriminate.
  - destruct (sym_consistent kd sd t (g :: rot)) eqn:Hc; cbn [negb]; [|discriminate].
    destruct (res_eqb _ impl) eqn:Er; [|discriminate]. intros _.
    apply (mon_accept_silent kd sd); [assumption|]. destruct impl; [discriminate|]. intros _.
    apply res_eqb_none in Er. unfold strat_validate in Er. apply validate_sound in Er. tauto.
  - destruct (sym_consistent kd sd t (g :: rot)) eqn:Hc; cbn [negb]; [|discriminate].
    destruct (String.eqb_spec (e2e ep true k stored raw kd sd g rot) impl) as [Er|]; [|discriminate]. intros _.
    apply (mon_accept_silent kd sd); [assumption|]. intros Ha. apply String.eqb_eq in Ha. subst impl.
    apply e2e_sound in Ha. tauto.
  - destruct (opt_zz_eqb (generate glen e h) impl) eqn:Eg; [|discriminate]. intros _.
    unfold mon_mint. destruct impl as [[kl sl]|]; [|reflexivity].
    destruct (generate glen e h) as [[kl' sl']|] eqn:G; [|discriminate]. cbn in Eg.
    apply andb_true_iff in Eg as [E1 E2]. apply Z.eqb_eq in E1, E2. subst kl' sl'.
    apply generate_entropy in G as [Hg [_ [He _]]].
    destruct (N.ltb_spec glen 32); [lia|]. destruct (Z.ltb_spec kl e); [lia|reflexivity].
  - unfold corr_b. destruct (Bool.eqb (hmac_for_string_ok glen) impl) eqn:E; [|discriminate]. intros _.
    apply eqb_prop in E. subst impl. unfold hmac_for_string_ok, min_secret. now destruct (N.ltb glen 32).
  - destruct (String.eqb_spec (jwt_validate pk f) impl) as [E|]; [|discriminate]. intros _.
    apply mon_jwt_silent. intros H. apply String.eqb_eq in H. congruence.
  - destruct (String.eqb_spec (if jwt_e2e stored raw pk f then "" else "inactive") impl) as [E|]; [|discriminate]. intros _.
    apply mon_jwt_silent. intros H. apply String.eqb_eq in H. subst impl.
    destruct (jwt_e2e stored raw pk f) eqn:Ej; [|discriminate]. unfold jwt_e2e in Ej.
    apply andb_true_iff in Ej as [_ Ej]. now apply String.eqb_eq in Ej.
  - destruct (opt_str_eqb (gen_alg pk) impl) eqn:E; [|discriminate]. intros _.
    destruct impl as [a|]; [|reflexivity]. destruct (plain_key_b pk) eqn:Ep; [|reflexivity].
    destruct (gen_alg pk) as [a'|] eqn:G; [|discriminate]. cbn in E. apply String.eqb_eq in E. subst a'.
    now rewrite (plain_gen_asym _ _ Ep G).
Qed.

(* the monitor is not vacuous: it rejects an accepted string whose key part was altered, an accepted
   string under a short secret, minting under a short secret, and a JWT accepted with alg=none *)
Example mon_rejects_tampered :
  mon (check (KVal true KAt "ory_at_a2V5.c2ln" true true (ST 2 (SMac 7 1)) (SF 7 32 false) [] None))
  = Some "accepted-unauthenticated".
Proof. reflexivity. Qed.
Example mon_rejects_short :
  mon (check (KVal true KAt "ory_at_a2V5.c2ln" true true (ST 1 (SMac 7 1)) (SF 7 31 true) [] None))
  = Some "accepted-under-short-secret".
Proof. reflexivity. Qed.
Example mon_rejects_short_mint : mon (check (KMint 31 32 32 (Some (32, 32)%Z))) = Some "minted-under-short-secret".
Proof. reflexivity. Qed.
Example mon_rejects_none :
  mon (check (KJwt PRsa (JF true true 1 "none" false true true true) "")) = Some "jwt-accepted-none".
Proof. reflexivity. Qed.
