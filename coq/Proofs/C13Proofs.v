(* C13: the clauses of the property as theorems about the whole authorization endpoint of the model
   ([authorize]: NewAuthorizeRequest, grant, NewAuthorizeResponse, writer) and about its parts. *)
From FositeModel Require Import Base.Str Model.Scope Model.Authz Proofs.AuthzProofs Proofs.AuthzHandlers.

(* ------------------------------------------------------------------ acceptance *)
Theorem request_accept_sound cfg lookup rq ar :
  new_authorize_request cfg lookup rq = (ar, None) ->
  exists cl f,
    (* the client exists *)
    lookup (fget "client_id" (q_form rq)) = Some cl /\
    (* the parameters used are the query's, or those of a request object that may be honoured *)
    (f = q_form rq \/ exists claims, ro_honourable cl rq claims /\ f = ro_apply claims (q_form rq)) /\
    a_form ar = f /\ a_state ar = fget "state" f /\
    (* response_type is one of the registered combinations *)
    (exists t, In t (c_rtypes cl) /\ args_matches (fields (fget "response_type" f)) (fields t) = true) /\
    (* response_mode is the default or one the client may use *)
    (fget "response_mode" f = "" \/ (c_rm_iface cl = true /\ In (fget "response_mode" f) (c_rmodes cl))) /\
    (* state has the configured minimum length *)
    min_entropy cfg <= String.length (fget "state" f) /\
    (* OpenID Connect requests carry a redirect_uri *)
    (in_slice_ci "openid" (fields (fget "scope" f)) = true -> fget "redirect_uri" f <> "") /\
    (* the redirect URI passed the matcher, every scope is allowed by the client's registration *)
    (exists e, a_redir ar = Some e /\ rv_raw e = fget "redirect_uri" f /\ rv_match e = true /\ rv_valid e = true) /\
    scopes_ok cfg cl (fields (fget "scope" f)) = true.
Proof.
  intros H. destruct (new_authorize_request_ok _ _ _ _ H) as [cl [f [Hl [Hcl [Hro [Hf [Hs [_ [_ V]]]]]]]]].
  destruct V as [Vrt Vne Vreg Vkm Vpm Vrm Vsl Vsc Vso Vor Vrd Vreg0].
  exists cl, f. split; [assumption|]. split.
  { destruct Hro as [[_ ->]|[claims [Hro ->]]]; [now left|]. right. exists claims. split; [now apply ro_process_sound|reflexivity]. }
  split; [assumption|]. split; [assumption|]. split.
  { unfold rtypes_registered in Vreg. apply existsb_exists in Vreg as [t [Hin Hm]]. exists t. rewrite <- Vrt. auto. }
  split.
  { revert Vpm. unfold rmode_permitted. destruct (String.eqb_spec (fget "response_mode" f) ""); [auto|].
    destruct (c_rm_iface cl); cbn; [|discriminate]. intros Hm. right. split; [reflexivity|now apply mem_In]. }
  split; [now rewrite <- Hs|]. split.
  { intros Ho. apply Vor. rewrite Vsc. cbn. now rewrite Ho. }
  split.
  { destruct Vrd as [e [He [Hfr [Hm Hv]]]]. exists e. repeat split; try assumption.
    clear -Hfr. induction (q_redirs rq) as [|x r IH]; cbn in Hfr; [discriminate|].
    destruct (String.eqb_spec (fget "redirect_uri" f) (rv_raw x)); [injection Hfr as <-; auto|auto]. }
  now rewrite <- Vsc.
Qed.

(* the conditions of [ro_honourable], spelled out *)
Theorem ro_process_sound_explicit cl rq claims :
  ro_process cl rq = RoUse claims ->
  args_has (fields (fget "scope" (q_form rq))) ["openid"] = true /\
  c_oidc cl = true /\
  (fget "request_uri" (q_form rq) <> "" ->
     In (fget "request_uri" (q_form rq)) (c_req_uris cl) /\ q_fetch_ok rq = true) /\
  exists keys j,
    c_jwks cl = Some keys /\ q_ro rq = Some (RoJwt j) /\ claims = j_claims j /\ j_claims_ok j = true /\
    (c_ro_alg cl = "" \/ c_ro_alg cl = j_alg j) /\
    (j_alg j = "none" \/
     exists k rsa, In k keys /\ alg_family (j_alg j) = Some rsa /\ k_rsa k = rsa /\ k_use k = "sig" /\
                   (j_kid j = "" \/ k_kid k = j_kid j) /\ j_signer j = Some (k_mat k)).
Proof.
  intros H. destruct (ro_process_sound cl rq claims H) as [H1 H2 H3 H4 H5].
  exact (conj H1 (conj H3 (conj H4 H5))).
Qed.

Theorem effective_parameters_origin cfg lookup rq ar r :
  new_authorize_request cfg lookup rq = (ar, r) ->
  a_state ar = fget "state" (a_form ar) /\
  (a_form ar = q_form rq \/
   exists cl claims, lookup (fget "client_id" (q_form rq)) = Some cl /\ ro_process cl rq = RoUse claims /\
     a_form ar = ro_apply claims (q_form rq) /\
     forall k, k <> "scope" ->
       fget k (a_form ar) = if existsb (fun kv => String.eqb (fst kv) k) claims then fget k claims else fget k (q_form rq)).
Proof.
  intros H. destruct (new_authorize_request_form _ _ _ _ _ H) as [Hs [Hf|[cl [claims [Hl [Hro Hf]]]]]].
  - split; [assumption|now left].
  - split; [assumption|]. right. exists cl, claims. repeat split; try assumption.
    intros k Hk. rewrite Hf. now apply fget_ro_apply.
Qed.

(* the response mode of an accepted request is one of the three the writers know *)
Lemma accepted_mode cfg lookup rq ar :
  new_authorize_request cfg lookup rq = (ar, None) ->
  a_rmode ar = "query" \/ a_rmode ar = "fragment" \/ a_rmode ar = "form_post".
Proof.
  intros H. destruct (new_authorize_request_ok _ _ _ _ H) as [cl [f [_ [_ [_ [_ [_ [_ [_ V]]]]]]]]].
  destruct V as [Vrt Vne Vreg Vkm Vpm Vrm Vsl Vsc Vso Vor Vrd Vreg0]. rewrite Vrm.
  destruct (String.eqb_spec (fget "response_mode" f) "") as [|Hne].
  - destruct (args_exact_one (a_rtypes ar) "code"); auto.
  - revert Vkm. unfold known_mode. generalize dependent (fget "response_mode" f). intros m _ _ Hne. cbn.
    destruct (String.eqb_spec m ""); [contradiction|].
    destruct (String.eqb_spec m "fragment"); [auto|]. destruct (String.eqb_spec m "query"); [auto|].
    destruct (String.eqb_spec m "form_post"); [auto|discriminate].
Qed.

(* ------------------------------------------------------------------ what NewAuthorizeResponse hands out *)

(* an ID token leaves the authorization endpoint only for a request with a nonce of minimum length,
   a redirect_uri parameter and a granted openid scope; whatever the verdict *)
Theorem id_token_requires_nonce cfg ar se now h r :
  new_authorize_response cfg ar se now = (h, r) ->
  has_param "id_token" (h_params h) = true ->
  min_entropy cfg <= String.length (fget "nonce" (a_form ar)) /\ fget "nonce" (a_form ar) <> "" /\
  fget "redirect_uri" (a_form ar) <> "" /\ args_has (a_granted ar) ["openid"] = true.
Proof.
  intros H Hid. apply new_authorize_response_inv in H as [cl [_ Hi]].
  destruct (i_idt _ _ _ _ Hi Hid) as [Hn [Hr [Hg _]]]. repeat split; try assumption.
  intros E. rewrite E in Hn. cbn in Hn. pose proof (min_entropy_pos cfg). lia.
Qed.

(* a client lacking the implicit grant: no access token is minted or delivered, whatever the verdict *)
Theorem no_implicit_no_access_token cfg ar se now h r cl :
  a_cl ar = Some cl -> args_has (c_grants cl) ["implicit"] = false ->
  new_authorize_response cfg ar se now = (h, r) ->
  has_param "access_token" (h_params h) = false /\ x_access (h_fx h) = 0.
Proof.
  intros Hcl Himp H. apply new_authorize_response_inv in H as [cl' [[Hc|[Hc _]] Hi]]; [|congruence].
  rewrite Hcl in Hc. injection Hc as <-. split.
  - destruct (has_param "access_token" (h_params h)) eqn:E; [|reflexivity]. apply (i_at _ _ _ _ Hi) in E. congruence.
  - destruct (x_access (h_fx h)) eqn:E; [reflexivity|]. assert (Hp : 0 < x_access (h_fx h)) by lia.
    apply (i_fx _ _ _ _ Hi) in Hp. congruence.
Qed.

(* ... and an ID token only through a response type that contains "code" (the hybrid flow, A9) *)
Theorem no_implicit_id_token_only_hybrid cfg ar se now h r cl :
  a_cl ar = Some cl -> args_has (c_grants cl) ["implicit"] = false ->
  new_authorize_response cfg ar se now = (h, r) ->
  has_param "id_token" (h_params h) = true -> args_has (a_rtypes ar) ["code"] = true.
Proof.
  intros Hcl Himp H Hid. apply new_authorize_response_inv in H as [cl' [[Hc|[Hc _]] Hi]]; [|congruence].
  rewrite Hcl in Hc. injection Hc as <-. destruct (i_idt _ _ _ _ Hi Hid) as [_ [_ [_ [Hx|Hx]]]]; [congruence|assumption].
Qed.

(* ------------------------------------------------------------------ the whole endpoint *)
Section Endpoint.
Variables (cfg : config) (lookup : string -> option client) (rq : request)
          (granted : list string) (se : session) (now : Z).
Let o := authorize cfg lookup rq granted se now.
Let st := a_state (fst (new_authorize_request cfg lookup rq)).

(* tokens never travel in the query string *)
Theorem authorize_no_tokens_in_query :
  w_place (o_written o) = PQuery ->
  has_param "access_token" (w_params (o_written o)) = false /\ has_param "id_token" (w_params (o_written o)) = false.
Proof.
  unfold o, authorize. destruct (new_authorize_request cfg lookup rq) as [ar [e|]].
  - cbn [o_written]. intros _. split; apply write_error_no_tokens; discriminate.
  - destruct (new_authorize_response cfg (with_granted ar granted) se now) as [h [e|]] eqn:E; cbn [o_written].
    + intros _. split; apply write_error_no_tokens; discriminate.
    + intros Hq. destruct (no_tokens_in_query _ _ _ _ _ E Hq) as [Ha Hi].
      assert (Hp : w_params (write_authorize_response (h_ar h) (h_params h)) = h_params h).
      { revert Hq. unfold write_authorize_response.
        destruct (String.eqb (a_rmode (h_ar h)) "form_post"); [discriminate|].
        destruct (String.eqb (a_rmode (h_ar h)) "query" || String.eqb (a_rmode (h_ar h)) ""); [reflexivity|].
        destruct (String.eqb (a_rmode (h_ar h)) "fragment"); discriminate. }
      rewrite Hp. split; assumption.
Qed.

(* an answer that is not a success carries no credential at all *)
Theorem authorize_error_carries_no_token k :
  (o_req_err o <> None \/ o_resp_err o <> None) ->
  In k ["access_token"; "id_token"; "code"] -> has_param k (w_params (o_written o)) = false.
Proof.
  unfold o, authorize. destruct (new_authorize_request cfg lookup rq) as [ar [e|]].
  - cbn. intros _ [<-|[<-|[<-|[]]]]; apply write_error_no_tokens; discriminate.
  - destruct (new_authorize_response cfg (with_granted ar granted) se now) as [h [e|]]; cbn [o_written o_req_err o_resp_err].
    + intros _ [<-|[<-|[<-|[]]]]; apply write_error_no_tokens; discriminate.
    + intros [H|H]; contradiction.
Qed.

(* the state is echoed unchanged: on success and on every error that is delivered by redirect or
   form post, the written parameters contain the request's state (the query's, or the honoured
   request object's) and no other value for it *)
Theorem authorize_state_echo :
  st = fget "state" (a_form (fst (new_authorize_request cfg lookup rq))) /\
  ((o_req_err o = None /\ o_resp_err o = None) \/ w_place (o_written o) <> PJson ->
   (w_place (o_written o) = PQuery \/ w_place (o_written o) = PFragment \/ w_place (o_written o) = PForm) /\
   In ("state", st) (w_params (o_written o)) /\
   forall v, In ("state", v) (w_params (o_written o)) -> v = st).
Proof.
  unfold st, o, authorize. destruct (new_authorize_request cfg lookup rq) as [ar re] eqn:Enar. cbn [fst].
  split; [apply (new_authorize_request_form _ _ _ _ _ Enar)|].
  assert (Herr : forall ar' e, a_state ar' = a_state ar -> w_place (write_authorize_error ar' e) <> PJson ->
            (w_place (write_authorize_error ar' e) = PQuery \/ w_place (write_authorize_error ar' e) = PFragment \/ w_place (write_authorize_error ar' e) = PForm) /\
            In ("state", a_state ar) (w_params (write_authorize_error ar' e)) /\
            forall v, In ("state", v) (w_params (write_authorize_error ar' e)) -> v = a_state ar).
  { intros ar' e Hs Hp. destruct (redirect_usable ar') eqn:Eu.
    - destruct (write_error_state ar' e Eu) as [_ [Hin Hall]]. rewrite Hs in *. repeat split; try assumption.
      revert Hp. unfold write_authorize_error. rewrite Eu. cbn [negb].
      destruct (String.eqb (a_rmode ar') "form_post"); [|destruct (String.eqb (a_rmode ar') "fragment")]; cbn; auto.
    - exfalso. apply Hp. unfold write_authorize_error. now rewrite Eu. }
  destruct re as [e|].
  - cbn [o_written o_req_err o_resp_err]. intros [[H _]|H]; [discriminate|]. now apply Herr.
  - destruct (new_authorize_response cfg (with_granted ar granted) se now) as [h [e|]] eqn:E; cbn [o_written o_req_err o_resp_err].
    + intros [[_ H]|H]; [discriminate|]. apply Herr; [|assumption].
      apply new_authorize_response_inv in E as [cl [_ Hi]]. apply (i_base _ _ _ _ Hi).
    + intros _. pose proof (accepted_mode _ _ _ _ Enar) as Hm0.
      destruct (new_authorize_request_ok _ _ _ _ Enar) as [cl0 [f0 [_ [_ [_ [_ [_ [_ [Hh0 V]]]]]]]]].
      destruct (new_authorize_response_ok _ _ _ _ _ E) as [cl [_ [Hi [He [Hd _]]]]].
      assert (Hmode : a_rmode (h_ar h) = "query" \/ a_rmode (h_ar h) = "fragment" \/ a_rmode (h_ar h) = "form_post").
      { destruct (i_rmode _ _ _ _ Hi) as [R|[R _]]; cbn in R.
        - now rewrite R.
        - rewrite R in Hm0. destruct Hm0 as [H0|[H0|H0]]; discriminate. }
      assert (Hw : w_params (write_authorize_response (h_ar h) (h_params h)) = h_params h /\
                   (w_place (write_authorize_response (h_ar h) (h_params h)) = PQuery \/
                    w_place (write_authorize_response (h_ar h) (h_params h)) = PFragment \/
                    w_place (write_authorize_response (h_ar h) (h_params h)) = PForm)).
      { unfold write_authorize_response. destruct Hmode as [-> | [-> | ->]]; cbn; auto. }
      destruct Hw as [Hwp Hpl]. rewrite Hwp. split; [assumption|].
      assert (Hst : forall v, In ("state", v) (h_params h) -> v = a_state ar)
        by (intros v Hv; apply (i_state _ _ _ _ Hi) in Hv; exact Hv).
      split; [|assumption].
      assert (Hhas : has_param "state" (h_params h) = true).
      { apply He; [exact Hh0|]. unfold did_handle_all in Hd. apply andb_true_iff in Hd as [Hall Hlen].
        destruct (i_base _ _ _ _ Hi) as [_ [_ [_ [_ [_ [_ Bt]]]]]]. cbn in Bt. rewrite Bt in Hall, Hlen.
        destruct (a_rtypes ar) as [|t ts]; [discriminate|]. cbn in Hall. apply andb_true_iff in Hall as [Hin _].
        intros Hnil. rewrite Hnil in Hin. discriminate. }
      apply has_param_In in Hhas as [v Hv]. rewrite (Hst v Hv) in Hv. assumption.
Qed.
End Endpoint.

(* ------------------------------------------------------------------ examples (non-vacuity) and A9 *)
Definition ex_cl (grants : list string) : client :=
  {| c_public := false; c_grants := grants;
     c_rtypes := ["code"; "token"; "id_token token"; "code id_token"; "code id_token token"];
     c_scopes := ["openid"; "profile"]; c_rm_iface := true; c_rmodes := ["query"; "fragment"; "form_post"];
     c_oidc := false; c_jwks := None; c_req_uris := []; c_ro_alg := "" |}.
Definition ex_cfg : config := {| cf_min_raw := 0; cf_scope := SWildcard |}.
Definition ex_lookup (grants : list string) : string -> option client :=
  fun id => if String.eqb id "app" then Some (ex_cl grants) else None.
Definition ex_rq (rt mode : string) : request :=
  {| q_form := [("client_id", "app"); ("response_type", rt); ("response_mode", mode); ("scope", "openid profile");
                ("redirect_uri", "https://app.example/cb"); ("state", "state-12345678"); ("nonce", "nonce-12345678")];
     q_ro := None; q_fetch_ok := false;
     q_redirs := [{| rv_raw := "https://app.example/cb"; rv_match := true; rv_valid := true; rv_revalid := true; rv_secure := true |}] |}.
Definition ex_se : session := {| s_oidc := true; s_subject := "alice"; s_auth := Some 1000%Z; s_rat := Some 1000%Z |}.
Definition ex_run grants rt mode := authorize ex_cfg (ex_lookup grants) (ex_rq rt mode) ["openid"; "profile"] ex_se 1000%Z.

Definition keys_of (p : form) : list string := map fst p.

(* code flow: code, state and scope in the query *)
Example ex_code_flow :
  let o := ex_run ["authorization_code"] "code" "" in
  o_req_err o = None /\ o_resp_err o = None /\ w_place (o_written o) = PQuery /\
  keys_of (w_params (o_written o)) = ["code"; "state"; "scope"].
Proof. vm_compute. repeat split. Qed.

(* implicit flow with both tokens: everything in the fragment; asking for the query is refused *)
Example ex_implicit_flow :
  let o := ex_run ["implicit"] "token id_token" "" in
  o_resp_err o = None /\ w_place (o_written o) = PFragment /\
  keys_of (w_params (o_written o)) = ["access_token"; "expires_in"; "token_type"; "state"; "scope"; "id_token"].
Proof. vm_compute. repeat split. Qed.

Example ex_implicit_flow_query_refused :
  let o := ex_run ["implicit"] "id_token token" "query" in
  o_req_err o = None /\ o_resp_err o = Some "unsupported_response_mode" /\
  keys_of (w_params (o_written o)) = ["error"; "error_description"; "state"].
Proof. vm_compute. repeat split. Qed.

Example ex_form_post :
  let o := ex_run ["authorization_code"; "implicit"] "code token id_token" "form_post" in
  o_resp_err o = None /\ w_place (o_written o) = PForm /\ has_param "id_token" (w_params (o_written o)) = true.
Proof. vm_compute. repeat split. Qed.

(* without the implicit grant "token" is refused with invalid_grant, delivered in the fragment with the state *)
Example ex_token_without_implicit :
  let o := ex_run ["authorization_code"] "token" "" in
  o_resp_err o = Some "invalid_grant" /\ w_place (o_written o) = PFragment /\
  fget "state" (w_params (o_written o)) = "state-12345678".
Proof. vm_compute. repeat split. Qed.

(* A9 (DESIGN.md section 8): the hybrid response type "code id_token" hands an ID token to a client that
   is registered for the authorization_code grant only.  Recorded, not alarmed on (section 6.0). *)
Theorem hybrid_id_token_without_implicit_grant :
  exists grants rt,
    args_has grants ["implicit"] = false /\
    let o := ex_run grants rt "" in
    o_req_err o = None /\ o_resp_err o = None /\ has_param "id_token" (w_params (o_written o)) = true /\
    has_param "access_token" (w_params (o_written o)) = false /\ w_place (o_written o) = PFragment.
Proof. exists ["authorization_code"], "code id_token". vm_compute. repeat split. Qed.
