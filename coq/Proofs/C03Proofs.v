(* PKCE over histories: the session written at authorization stays in place until the code is exchanged, so the
   per-attempt guarantee holds after any number of failed attempts. *)
From FositeModel Require Import Base.Str Model.Scope Model.Core Model.Flows Proofs.CoreInv Proofs.StepInv Proofs.Family Proofs.Decay Proofs.StepProps.

Arguments upd : simpl never.

Lemma grant_tokens_pkce s stored w : pkce (st (fst (grant_tokens s stored w))) = pkce (st s).
Proof.
  unfold grant_tokens.
  destruct (mint s KAccess (r_id stored)) as [ka s2] eqn:E2. destruct (mint_spec _ _ _ _ _ E2) as [_ [_ [H2 _]]].
  destruct w.
  - destruct (mint s2 KRefresh (r_id stored)) as [kr s3] eqn:E3. destruct (mint_spec _ _ _ _ _ E3) as [_ [_ [H3 _]]].
    cbn. congruence.
  - cbn. congruence.
Qed.
Lemma fresh_grant_pkce s mk w : pkce (st (fst (fresh_grant s mk w))) = pkce (st s).
Proof.
  unfold fresh_grant. destruct (fresh_rid s) as [rid s1] eqn:E1. destruct (fresh_rid_spec _ _ _ E1) as [_ [_ [H1 _]]].
  rewrite grant_tokens_pkce. congruence.
Qed.

Lemma authorize_core_pkce_old cfg s cl a k :
  k < next_key s -> pkce (st (fst (authorize_core cfg s cl a))) k = pkce (st s) k.
Proof.
  intros Hk. unfold authorize_core.
  destruct (negb (scopes_ok cfg cl (az_scopes a))); [reflexivity|].
  destruct (negb (aud_ok cfg (cl_aud cl) (az_aud a))); [reflexivity|].
  destruct (fresh_rid s) as [rid s1] eqn:E1. destruct (fresh_rid_spec _ _ _ E1) as [_ [_ [Hst1 [_ [Hk1 _]]]]].
  destruct (mint s1 KCode rid) as [k0 s2] eqn:E2. destruct (mint_spec _ _ _ _ _ E2) as [Hk0 [_ [Hst2 _]]].
  destruct (pkce_validate cfg (az_challenge a) (az_method a) cl); cbn [fst fail]; [cbn; congruence|].
  destruct (String.eqb (az_challenge a) "" && String.eqb (az_method a) ""); cbn; [congruence|].
  rewrite upd_neq by lia. congruence.
Qed.

(* under an existing key the PKCE table changes only when the code stored under that key is exchanged *)
Theorem pkce_stable_step cfg s o k :
  k < next_key s ->
  pkce (st (fst (step cfg s o))) k = pkce (st s) k \/
  exists r r', codes (st s) k = Some (true, r) /\ codes (st (fst (step cfg s o))) k = Some (false, r').
Proof.
  intros Hk.
  assert (G : forall x, pkce x = pkce (st s) -> pkce x k = pkce (st s) k \/
            exists r r', codes (st s) k = Some (true, r) /\ codes (st (fst (step cfg s o))) k = Some (false, r'))
    by (intros x ->; auto).
  destruct o; cbn [step]; try (left; reflexivity);
    try (new_flows_tac s fresh_grant_pkce ltac:(left; reflexivity); left; cbn in *; now rewrite FGfact).
  - unfold authorize. destruct (cf_par_enforced cfg); [auto|].
    destruct (clients s (az_client a)) as [cl|]; [|auto]. left.
    destruct (az_rtype a); [now apply authorize_core_pkce_old| |].
    + destruct (authorize_implicit_effect cfg s cl a) as [_ [_ [_ [_ [_ [_ [_ [_ [Hold _]]]]]]]]]. exact (proj1 (proj2 (Hold k Hk))).
    + destruct (authorize_hybrid_effect cfg s cl a) as [_ [_ [_ [_ [_ [_ [_ [_ [Hold _]]]]]]]]]. exact (proj1 (proj2 (Hold k Hk))).
  - unfold redeem.
    destruct auth as [c|]; [|auto].
    destruct (clients s c) as [cl|]; [|auto].
    destruct (negb (args_has (cl_grants cl) ["authorization_code"])); [auto|].
    destruct (key_of s code) as [k0|]; [|auto].
    destruct (codes (st s) k0) as [[[|] r]|] eqn:Ec; [| |auto].
    + destruct (p_tampered code); [auto|].
      destruct (negb (Nat.eqb (r_client r) c)); [auto|].
      destruct (negb (String.eqb (r_redirect r) "") && negb (String.eqb (r_redirect r) redirect)); [auto|].
      pose proof (pkce_token_state cfg s cl (Some k0) verifier verifier_s256) as Hst.
      assert (H1 : fst (pkce_token cfg s cl (Some k0) verifier verifier_s256) = s).
      { destruct Hst as [H|[k1 H]]; [exact H|]. unfold pkce_token in *. cbn [find] in *.
        destruct (pkce (st s) k0); [|destruct (Nat.eqb _ _); reflexivity].
        destruct (pkce_validate _ _ _ _); [reflexivity|].
        repeat match goal with |- context [if ?c then _ else _] => destruct c end; reflexivity. }
      destruct (pkce_token cfg s cl (Some k0) verifier verifier_s256) as [s1 [e|]]; cbn [fst] in *; subst s1; [auto|].
      destruct (expired _ _ _ _); [auto|].
      match goal with |- context [grant_tokens ?s2 ?stored ?w] =>
        pose proof (grant_tokens_pkce s2 stored w) as GP; pose proof (grant_tokens_codes s2 stored w) as GC;
        destruct (grant_tokens s2 stored w) as [s3 minted] end.
      cbn [fst snd st set_store] in *.
      destruct (Nat.eq_dec k k0) as [->|Hne].
      * right. exists r. cbn. rewrite GC. unfold invalidate_code. rewrite Ec. cbn. rewrite upd_eq. eauto.
      * left. cbn. rewrite upd_neq by assumption. rewrite GP.
        unfold invalidate_code. destruct (codes (st s) k0) as [[? ?]|]; reflexivity.
    + left. cbn. destruct (revoke_refresh_tables (revoke_access (st s) (r_id r)) (r_id r)) as [_ [_ [_ [_ Tp]]]].
      destruct (revoke_access_tables (st s) (r_id r)) as [_ [_ [_ [_ Tp']]]]. now rewrite Tp, Tp'.
  - unfold refresh_flow.
    destruct auth as [c|]; [|auto].
    destruct (clients s c) as [cl|]; [|auto].
    destruct (negb (args_has (cl_grants cl) ["refresh_token"])); [auto|].
    destruct (key_of s tok) as [k0|]; cbn [find]; [|auto].
    destruct (refresh (st s) k0) as [[[|] r]|] eqn:Er; [| |auto].
    + repeat match goal with |- context [if ?c then _ else _] => destruct c; [auto|] end.
      unfold rotate_refresh.
      destruct (revoke_refresh_tables (st s) (r_id r)) as [_ [_ [_ [_ Tp]]]].
      destruct (revoke_refresh (st s) (r_id r)) as [st1 [e|]]; cbn [fst] in *; [left; cbn; now rewrite Tp|].
      destruct (revoke_access_tables st1 (r_id r)) as [_ [_ [_ [_ Tp']]]].
      match goal with |- context [grant_tokens ?s2 ?stored ?w] =>
        pose proof (grant_tokens_pkce s2 stored w) as GP; destruct (grant_tokens s2 stored w) as [s3 minted] end.
      left. cbn in *. now rewrite GP, Tp', Tp.
    + left. cbn.
      destruct (revoke_access_tables (fst (revoke_refresh (delete_refresh (st s) k0) (r_id r))) (r_id r)) as [_ [_ [_ [_ Tp]]]].
      destruct (revoke_refresh_tables (delete_refresh (st s) k0) (r_id r)) as [_ [_ [_ [_ Tp']]]].
      now rewrite Tp, Tp'.
  - unfold revoke.
    destruct auth as [c|]; [|auto].
    destruct (clients s c); [|auto].
    destruct (revoke_lookup s (key_of s tok) h) as [r|]; [|auto].
    destruct (negb (Nat.eqb (r_client r) c)); [auto|]. left. cbn.
    destruct (revoke_access_tables (fst (revoke_refresh (st s) (r_id r))) (r_id r)) as [_ [_ [_ [_ Tp]]]].
    destruct (revoke_refresh_tables (st s) (r_id r)) as [_ [_ [_ [_ Tp']]]]. now rewrite Tp, Tp'.
  - left. match goal with |- context [push cfg s ?x1 ?x2 ?x3 ?x4] => destruct (push_tables cfg s x1 x2 x3 x4) as [_ [_ [_ [_ [Hp _]]]]] end.
    now rewrite Hp.
  - left. rewrite ?authorize_par_fst; unfold authorize_par0.
    destruct (key_of s uri) as [k0|]; [|reflexivity].
    destruct (par (st s) k0) as [pr|]; [|reflexivity].
    repeat match goal with |- context [if ?c then fail _ _ else _] => destruct c; [reflexivity|] end.
    rewrite authorize_core_pkce_old by assumption. reflexivity.
  - left. match goal with |- context [device_authorize cfg s ?x1 ?x2 ?x3 ?x4] => destruct (device_authorize_tables cfg s x1 x2 x3 x4) as [_ [_ [_ [Hp _]]]] end.
    now rewrite Hp.
  - left. match goal with |- context [decide cfg s ?x1 ?x2 ?x3 ?x4 ?x5 ?x6] => destruct (decide_tables cfg s x1 x2 x3 x4 x5 x6) as [_ [_ [_ [Hp _]]]] end.
    now rewrite Hp.
  - left. unfold device_poll.
    destruct auth as [c|]; [|reflexivity]. destruct (clients s c) as [cl|]; [|reflexivity].
    destruct (negb (args_has (cl_grants cl) _)); [reflexivity|].
    destruct (key_of s dev) as [k0|]; [|reflexivity].
    destruct (used_device cfg (st s) k0) as [rid|].
    { cbn. destruct (revoke_refresh_tables (revoke_access (st s) rid) rid) as [_ [_ [_ [_ Tp]]]].
      destruct (revoke_access_tables (st s) rid) as [_ [_ [_ [_ Tp']]]]. now rewrite Tp, Tp'. }
    destruct (device (st s) k0) as [[stt r]|] eqn:Ed; [|reflexivity].
    repeat match goal with |- context [if ?c then fail s _ else _] => destruct c; [reflexivity|] end.
    match goal with |- context [grant_tokens ?s2 ?stored ?w] =>
      pose proof (grant_tokens_pkce s2 stored w) as GP; destruct (grant_tokens s2 stored w) as [s3 minted] end.
    cbn in *. now rewrite GP.
Qed.

(* as long as the code is unused its PKCE session is the one written at authorization *)
Theorem pkce_stable_run cfg h : forall s k r,
  Inv s -> k < next_key s ->
  codes (st (run cfg s h)) k = Some (true, r) -> pkce (st (run cfg s h)) k = pkce (st s) k.
Proof.
  unfold run. induction h as [|o h IH]; intros s k r I Hk Hc; cbn [fold_left] in *; [reflexivity|].
  pose proof (next_key_step cfg s o) as Hn.
  rewrite (IH (fst (step cfg s o)) k r (Inv_step cfg s o I) ltac:(lia) Hc).
  destruct (pkce_stable_step cfg s o k Hk) as [E|[r0 [r1 [_ Hin]]]]; [exact E|].
  exfalso. destruct (code_inactive_run cfg h _ k r1 (Inv_step cfg s o I) Hin) as [r2 [H2 _]].
  unfold run in H2. congruence.
Qed.

(* THE PROPERTY: a code issued for an authorization request that carried a challenge is redeemable — after
   any history, hence after any number of failed attempts — only with a well-formed verifier that transforms
   to that challenge under the method fixed at authorization time *)
Theorem pkce_binding cfg cls h1 a h2 auth redirect v vh tampered :
  let s1 := run cfg (state0 cls) h1 in
  az_rtype a <> RToken -> o_err (snd (authorize cfg s1 a)) = "" -> az_challenge a <> "" ->
  let s2 := run cfg (fst (authorize cfg s1 a)) h2 in
  let code := {| p_ref := CRef (List.length (log s1) + code_pos a); p_tampered := tampered |} in
  o_err (snd (redeem cfg s2 auth code redirect v vh)) = "" ->
  verifier_well_formed v /\
  (if String.eqb (az_method a) "S256" then vh = az_challenge a else v = az_challenge a) /\
  (az_method a = "S256" \/ ((az_method a = "plain" \/ az_method a = "") /\ cf_pkce_plain cfg = true)).
Proof.
  intros s1 Hrt Hok Hch s2 code Hred.
  assert (I1 : Inv s1) by apply Inv_reachable.
  destruct (authorize_code_stores_challenge cfg s1 a Hrt Hok) as [cl [Hcl [_ [k [Hlog [_ Hstore]]]]]].
  destruct Hstore as [pr [Hp [Hc [Hm Hrcl]]]]; [intros [H _]; contradiction|].
  set (sa := fst (authorize cfg s1 a)) in *.
  assert (Ia : Inv sa) by (unfold sa; change (authorize cfg s1 a) with (step cfg s1 (OAuthorize a)); now apply Inv_step).
  assert (Hka : k < next_key sa).
  { pose proof (inv_log_owner sa Ia _ (nth_error_In _ _ Hlog)) as Ho. cbn in Ho.
    exact (proj1 (inv_owner_fresh sa Ia _ _ _ Ho)). }
  destruct (redeem_ok_facts cfg s2 auth code redirect v vh Hred) as [k' [r [cl' [F _]]]].
  destruct F as [Fk Fact _ _ _ _ _ _ Fp].
  assert (Hk' : k' = k).
  { unfold key_of in Fk. cbn in Fk. unfold s2 in Fk. rewrite (log_run_nth cfg h2 sa _ _ Hlog) in Fk. cbn in Fk. congruence. }
  subst k'.
  unfold s2 in Fp, Fact. rewrite (pkce_stable_run cfg h2 sa k r Ia Hka Fact), Hp in Fp.
  destruct Fp as [Hv [[Hc0 _]|[_ [Hwf Hmatch]]]]; [congruence|].
  rewrite Hc, Hm in *. split; [assumption|]. split; [assumption|].
  destruct (pkce_validate_ok _ _ _ _ Hv) as [[H0 _]|[_ H]]; [contradiction|assumption].
Qed.
