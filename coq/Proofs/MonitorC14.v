(* The executable specification of Cases/CasesC14.v (the monitor evaluated on the
   implementation's observations) accepts every observation the model can produce:
   [mon] never raises an alarm on code that matches the model, except for the two findings,
   which it reports under their own tags and exactly under the stated conditions. *)
From FositeModel Require Import Base.Str Model.IDToken Proofs.IDTokenProofs Cases.CasesC14 Proofs.C14Proofs.
Local Open Scope Z_scope.

(* ------------------------------------------------------------------ first_diff *)
Definition tagged (P : string -> Prop) (l : list (bool * string)) : Prop :=
  forall b t, In (b, t) l -> b = true \/ P t.
Definition all_true (l : list (bool * string)) : Prop := tagged (fun _ => False) l.

Lemma first_diff_tagged P l : tagged P l -> first_diff l = None \/ exists t, first_diff l = Some t /\ P t.
Proof.
  unfold first_diff. induction l as [|[b t] r IH]; intros H; [now left|].
  cbn. destruct b; cbn.
  - apply IH. intros b' t' Hin. apply (H b' t'). now right.
  - right. exists t. split; [reflexivity|]. destruct (H false t) as [?|?]; [now left|easy|assumption].
Qed.

Lemma first_diff_all_true l : all_true l -> first_diff l = None.
Proof. intros H. destruct (first_diff_tagged _ l H) as [?|(t & _ & [])]. assumption. Qed.

Lemma tagged_app P l1 l2 : tagged P l1 -> tagged P l2 -> tagged P (l1 ++ l2).
Proof. intros H1 H2 b t Hin. apply in_app_or in Hin. destruct Hin; [eapply H1|eapply H2]; eassumption. Qed.

Lemma tagged_weaken (P Q : string -> Prop) l : (forall t, P t -> Q t) -> tagged P l -> tagged Q l.
Proof. intros HPQ H b t Hin. destruct (H b t Hin); [now left|right; auto]. Qed.

Lemma all_true_tagged P l : all_true l -> tagged P l.
Proof. apply tagged_weaken. easy. Qed.

Ltac in_cases H :=
  cbn [In] in H;
  repeat (destruct H as [H|H]; [inversion H; subst; clear H|]); try (now destruct H).

(* ------------------------------------------------------------------ clause groups *)
Definition model_idt (g : config) (o : option tokclaims) : option idt :=
  match o with Some t => Some (mkIdt true (key_alg (g_key g)) t) | None => None end.

Lemma binding_ok g cid hd life n c now t at_ code chk bl f p :
  bound_to g cid life n c now t ->
  all_true (binding_clauses
              (mkExpect true cid (key_alg (g_key g)) hd (g_iss g) c now life (c_exp c) (NEcho n) at_ code chk bl f p)
              (mkIdt true (key_alg (g_key g)) t)).
Proof.
  intros (B1 & B2 & B3 & B4 & B5 & (e & He & Hle & Hx) & _) b tg Hin. left.
  unfold binding_clauses in Hin.
  cbn [e_openid e_client e_key_alg e_iss e_sess e_now e_life e_preset e_nonce i_tok i_sig i_alg] in Hin.
  in_cases Hin.
  - reflexivity.
  - apply eqb_false_neq in B1. now rewrite B1, B2, String.eqb_refl.
  - cbn. apply String.eqb_refl.
  - now apply mem_In.
  - rewrite B4. apply String.eqb_refl.
  - rewrite B5. apply String.eqb_refl.
  - rewrite He. apply andb_true_iff. split; [now apply Z.leb_le|].
    destruct (c_exp c); subst e; [apply Z.eqb_refl|]. apply Z.leb_le. unfold life_of. lia.
Qed.

Lemma refresh_nonce_echo x i n : e_nonce x = NEcho n -> all_true (refresh_nonce_clauses x i).
Proof. intros E b tg Hin. unfold refresh_nonce_clauses in Hin. rewrite E in Hin. in_cases Hin. now left. Qed.

(* requirements, prompt compared as a single value (the strategy) *)
Lemma unmet_exact f p c now :
  auth_ok f p c now ->
  unmet_max_age f p c = false /\ unmet_prompt_none false f c = false /\
  unmet_prompt_login false f c = false /\ unmet_hint f p c = false.
Proof.
  intros [A1 A2 A3 A4 A5 A6]. repeat split.
  - unfold unmet_max_age. destruct (Z.ltb_spec 0 (maxage_of f p)) as [Hm|]; [|reflexivity].
    destruct (A2 Hm) as (Ha & Hr & Hle). cbn.
    apply is_zero_false in Ha. apply is_zero_false in Hr. rewrite Ha, Hr. cbn. apply Z.ltb_ge. lia.
  - unfold unmet_prompt_none, asks. destruct (String.eqb_spec (fget "prompt" f) "none"); [|reflexivity].
    cbn. apply Z.ltb_ge. auto.
  - unfold unmet_prompt_login, asks. destruct (String.eqb_spec (fget "prompt" f) "login"); [|reflexivity].
    cbn. apply Z.ltb_ge. auto.
  - unfold unmet_hint. destruct (hint_of f p); try easy; destruct A6 as [_ ->]; now rewrite String.eqb_refl.
Qed.

(* requirements, prompt read as a list (ValidatePrompt) *)
Lemma unmet_list g public secure f p c now :
  validate_prompt g public secure f p c now = None ->
  unmet_max_age f p c = false /\ unmet_prompt_none true f c = false /\
  unmet_prompt_login true f c = false /\ unmet_hint f p c = false.
Proof.
  intros H. apply validate_prompt_pass in H. destruct H as [_ H].
  repeat split.
  - destruct (unmet_max_age f p c) eqn:E; [|reflexivity]. elim H. left.
    unfold unmet_max_age in E. apply andb_true_iff in E. destruct E as [E1 E2]. apply Z.ltb_lt in E1.
    split; [assumption|]. apply orb_true_iff in E2. destruct E2 as [E2|E2].
    + apply orb_true_iff in E2. destruct E2 as [E2|E2]; apply is_zero_None in E2; auto.
    + apply Z.ltb_lt in E2. auto.
  - destruct (unmet_prompt_none true f c) eqn:E; [|reflexivity]. elim H. right. left.
    unfold unmet_prompt_none, asks in E. apply andb_true_iff in E. destruct E as [E1 E2].
    apply mem_In in E1. apply Z.ltb_lt in E2. now split.
  - destruct (unmet_prompt_login true f c) eqn:E; [|reflexivity]. elim H. right. right. left.
    unfold unmet_prompt_login, asks in E. apply andb_true_iff in E. destruct E as [E1 E2].
    apply mem_In in E1. apply Z.ltb_lt in E2. now split.
  - destruct (unmet_hint f p c) eqn:E; [|reflexivity]. elim H. right. right. right.
    unfold unmet_hint in E. destruct (hint_of f p); try easy; now apply negb_true_iff, eqb_false_neq in E.
Qed.

Lemma requirement_ok x :
  (e_checks x = true ->
   unmet_max_age (e_form x) (e_parsed x) (e_sess x) = false /\
   unmet_prompt_none (e_by_list x) (e_form x) (e_sess x) = false /\
   unmet_prompt_login (e_by_list x) (e_form x) (e_sess x) = false /\
   unmet_hint (e_form x) (e_parsed x) (e_sess x) = false) ->
  all_true (requirement_clauses x).
Proof.
  intros H b tg Hin. left. unfold requirement_clauses in Hin.
  destruct (e_checks x); [|in_cases Hin; reflexivity].
  destruct (H eq_refl) as (H1 & H2 & H3 & H4). rewrite H1, H2, H3, H4 in Hin. in_cases Hin; reflexivity.
Qed.

(* hashes: the model computes them with hash_of_hdr; under a consistent header that is the
   token's hash function, otherwise the A6 tag (and only that tag) may appear *)
Definition is_a6 (t : string) : Prop := t = "hash_alg_from_session_header".

Lemma hash_is_consistent g h v n :
  header_consistent g h -> v = HOf (hash_of_hdr h) n -> hash_is (key_alg (g_key g)) v n = true.
Proof.
  unfold header_consistent, hash_is. intros -> ->. cbn. destruct (hash_of_hdr h); cbn; now rewrite Nat.eqb_refl.
Qed.

Lemma other_alg_same_token a n : hash_of_token_other_alg (HOf a n) n = true.
Proof. cbn. apply Nat.eqb_refl. Qed.

Definition code_state (h : hdr) (r : code_rule) (v : hashv) : Prop :=
  match r with
  | CDelivered n => v = HOf (hash_of_hdr h) n
  | CRedeemed n => v = HNone \/ v = HOf (hash_of_hdr h) n
  | CDropped => v = HNone
  | CFree => True
  end.

Lemma from_header_same h n : from_header h (HOf (hash_of_hdr h) n) n = true.
Proof. unfold from_header. cbn. destruct (hash_of_hdr h); cbn; now rewrite Nat.eqb_refl. Qed.

Lemma hash_tagged g h (x : expect) t :
  e_key_alg x = key_alg (g_key g) -> e_hdr x = h ->
  (forall n, e_at x = Some n -> t_at t = HOf (hash_of_hdr h) n) ->
  code_state h (e_code x) (t_ch t) ->
  tagged is_a6 (hash_clauses x (mkIdt true (key_alg (g_key g)) t)) /\
  (header_consistent g h -> all_true (hash_clauses x (mkIdt true (key_alg (g_key g)) t))).
Proof.
  intros Hk Hh Hat Hc. split.
  - intros b tg Hin. unfold hash_clauses in Hin. cbn [i_tok i_alg] in Hin. rewrite Hh in Hin. clear Hh. in_cases Hin.
    + left. destruct (e_at x) as [n|]; [|reflexivity]. rewrite (Hat n eq_refl), other_alg_same_token. apply orb_true_r.
    + now right.
    + left. destruct (e_at x) as [n|]; [|reflexivity]. rewrite (Hat n eq_refl), from_header_same. apply orb_true_r.
    + left. destruct (e_code x) as [n|n| |]; cbn in Hc; try reflexivity.
      * rewrite Hc, other_alg_same_token. apply orb_true_r.
      * destruct Hc as [-> | ->]; [reflexivity|]. rewrite other_alg_same_token. apply orb_true_r.
      * now rewrite Hc.
    + now right.
    + left. destruct (e_code x) as [n|n| |]; cbn in Hc; try reflexivity.
      * rewrite Hc, from_header_same. apply orb_true_r.
      * destruct Hc as [-> | ->]; [reflexivity|]. rewrite from_header_same. apply orb_true_r.
  - intros Hcons b tg Hin. left. unfold hash_clauses in Hin. cbn [i_tok i_alg] in Hin. rewrite Hh in Hin. clear Hh. in_cases Hin.
    + destruct (e_at x) as [n|]; [|reflexivity]. now rewrite (hash_is_consistent g h _ n Hcons (Hat n eq_refl)).
    + destruct (e_at x) as [n|]; [|reflexivity]. now rewrite (hash_is_consistent g h _ n Hcons (Hat n eq_refl)).
    + destruct (e_at x) as [n|]; [|reflexivity]. now rewrite (hash_is_consistent g h _ n Hcons (Hat n eq_refl)).
    + destruct (e_code x) as [n|n| |]; cbn in Hc; try reflexivity.
      * now rewrite (hash_is_consistent g h _ n Hcons Hc).
      * destruct Hc as [-> | Hc]; [reflexivity|]. rewrite (hash_is_consistent g h _ n Hcons Hc), orb_true_r. reflexivity.
      * now rewrite Hc.
    + destruct (e_code x) as [n|n| |]; cbn in Hc; try reflexivity.
      * rewrite (hash_is_consistent g h _ n Hcons Hc), orb_true_r. reflexivity.
      * destruct Hc as [-> | Hc]; [reflexivity|]. rewrite (hash_is_consistent g h _ n Hcons Hc), orb_true_r. reflexivity.
    + destruct (e_code x) as [n|n| |]; cbn in Hc; try reflexivity.
      * rewrite (hash_is_consistent g h _ n Hcons Hc), orb_true_r. reflexivity.
      * destruct Hc as [-> | Hc]; [reflexivity|]. rewrite (hash_is_consistent g h _ n Hcons Hc), orb_true_r. reflexivity.
Qed.

(* assembling a verdict *)
Lemma mon_idt_verdict P x i :
  tagged P (binding_clauses x i) -> tagged P (requirement_clauses x) ->
  tagged P (refresh_nonce_clauses x i) -> tagged P (hash_clauses x i) ->
  mon_idt x i = None \/ exists t, mon_idt x i = Some t /\ P t.
Proof.
  intros H1 H2 H3 H4. apply first_diff_tagged. repeat apply tagged_app; assumption.
Qed.

(* ------------------------------------------------------------------ direct strategy calls *)
Theorem mon_gen_is_model g cid life f p c now :
  mon_opt (expect_gen g cid life f p c now) (model_idt g (match snd (generate g cid life f p c now) with OTok t => Some t | OErr _ => None end)) = None.
Proof.
  destruct (generate g cid life f p c now) as [c' [e|t]] eqn:Eg; [reflexivity|]. cbn [snd model_idt mon_opt].
  pose proof (generate_sound _ _ _ _ _ _ _ _ _ Eg) as ([_ Hauth _ _] & _).
  apply generate_bound in Eg. destruct Eg as (Hb & _ & _).
  unfold expect_gen.
  match goal with |- mon_idt ?x _ = None =>
    destruct (mon_idt_verdict (fun _ => False) x (mkIdt true (key_alg (g_key g)) t)) as [H|(tg & _ & [])]; [| | | |exact H] end.
  - apply binding_ok. exact Hb.
  - apply requirement_ok. cbn [e_checks e_form e_parsed e_sess e_by_list]. intros Hc.
    apply negb_true_iff, eqb_false_neq in Hc. apply (unmet_exact f p c now). now apply Hauth.
  - now apply (refresh_nonce_echo _ _ (fget "nonce" f)).
  - intros b tg Hin. left. unfold hash_clauses in Hin. cbn [e_at e_code] in Hin. in_cases Hin; reflexivity.
Qed.

(* ------------------------------------------------------------------ authorization endpoint *)
Theorem mon_auth_is_model g cl h a c now :
  let r := authorize_step g cl h a c now in
  let m := mon_opt (expect_auth g cl h a c now (r_code r) (r_at r)) (model_idt g (r_idt r)) in
  (m = None \/ m = Some "hash_alg_from_session_header") /\ (header_consistent g h -> m = None).
Proof.
  intros r m. subst m. destruct (r_idt r) as [t|] eqn:Et; [|now split; [left|]]. cbn [model_idt mon_opt].
  unfold r in Et. pose proof (authorization_endpoint_id_token _ _ _ _ _ _ _ Et) as (Ho & _ & Hb & Hat & Hch & _).
  pose proof (authorize_step_idt _ _ _ _ _ _ _ Et) as (_ & _ & Hv & _).
  fold r in Hat, Hch.
  assert (Hbind : all_true (binding_clauses (expect_auth g cl h a c now (r_code r) (r_at r)) (mkIdt true (key_alg (g_key g)) t))).
  { unfold expect_auth. rewrite Ho. apply binding_ok. exact Hb. }
  assert (Hreq : all_true (requirement_clauses (expect_auth g cl h a c now (r_code r) (r_at r)))).
  { apply requirement_ok. intros _. cbn [expect_auth e_form e_parsed e_sess e_by_list]. eapply unmet_list. exact Hv. }
  assert (Hrn : all_true (refresh_nonce_clauses (expect_auth g cl h a c now (r_code r) (r_at r)) (mkIdt true (key_alg (g_key g)) t)))
    by now apply (refresh_nonce_echo _ _ (fget "nonce" (a_form a))).
  destruct (hash_tagged g h (expect_auth g cl h a c now (r_code r) (r_at r)) t) as [Hh1 Hh2].
  { reflexivity. }
  { reflexivity. }
  { cbn [expect_auth e_at]. intros n. destruct (r_at r); [|easy]. intros E. inversion E; subst. now apply Hat. }
  { cbn [expect_auth e_code]. destruct (r_code r); cbn; [now apply Hch|exact I]. }
  split.
  - destruct (mon_idt_verdict is_a6 _ (mkIdt true (key_alg (g_key g)) t)
               (all_true_tagged _ _ Hbind) (all_true_tagged _ _ Hreq) (all_true_tagged _ _ Hrn) Hh1) as [H|(tg & H & ->)]; auto.
  - intros Hc. destruct (mon_idt_verdict (fun _ => False) _ (mkIdt true (key_alg (g_key g)) t) Hbind Hreq Hrn (Hh2 Hc)) as [H|(tg & _ & [])].
    exact H.
Qed.

(* ------------------------------------------------------------------ code redemption *)
(* hypotheses: the stored request does not claim to be a refresh (see Proofs/C14Proofs.v) and the
   session's c_hash is what the authorization endpoint leaves behind *)
Theorem mon_redeem_is_model g cl h (present : bool) ocl a at_ c now :
  fget "grant_type" (a_form a) <> "refresh_token" ->
  (c_ch c = HNone \/ c_ch c = HOf (hash_of_hdr h) (a_code a)) ->
  let r := redeem_step g cl h (if present then Some (mk_stored ocl a) else None) at_ c now in
  let m := mon_opt (expect_redeem g cl ocl h a at_ c now) (model_idt g (x_idt r)) in
  (m = None \/ m = Some "hash_alg_from_session_header") /\ (header_consistent g h -> m = None).
Proof.
  intros Hgt Hcc r m. subst m. destruct (x_idt r) as [t|] eqn:Et; [|now split; [left|]]. cbn [model_idt mon_opt].
  unfold r in Et. pose proof (redemption_id_token _ _ _ _ _ _ _ _ Et) as (s & Hst & Ho & Hb & Hat & Hch & Hu).
  destruct present; [|discriminate]. inversion Hst; subst s. clear Hst.
  cbn [mk_stored s_granted s_client s_form s_parsed] in *.
  assert (Hgt' : fget "grant_type" (sanitize oidc_parameters (a_form a)) <> "refresh_token") by now rewrite fget_sanitize.
  pose proof (redeem_step_idt _ _ _ _ _ _ _ _ Et) as (s' & c2 & Hst & _ & Hg & _). inversion Hst; subst s'. clear Hst.
  pose proof (generate_sound _ _ _ _ _ _ _ _ _ Hg) as ([_ Hauth _ _] & _).
  cbn [mk_stored s_granted s_client s_form s_parsed] in *.
  assert (Hbind : all_true (binding_clauses (expect_redeem g cl ocl h a at_ c now) (mkIdt true (key_alg (g_key g)) t))).
  { unfold expect_redeem. rewrite Ho. rewrite oidc_nonce_kept in Hb. apply binding_ok. exact Hb. }
  assert (Hreq : all_true (requirement_clauses (expect_redeem g cl ocl h a at_ c now))).
  { apply requirement_ok. intros _. cbn [expect_redeem e_form e_parsed e_sess e_by_list].
    specialize (Hauth Hgt'). destruct Hauth as [A1 A2 A3 A4 A5 A6].
    apply (unmet_exact _ _ c now). constructor; assumption. }
  assert (Hrn : all_true (refresh_nonce_clauses (expect_redeem g cl ocl h a at_ c now) (mkIdt true (key_alg (g_key g)) t)))
    by now apply (refresh_nonce_echo _ _ (fget "nonce" (a_form a))).
  destruct (hash_tagged g h (expect_redeem g cl ocl h a at_ c now) t) as [Hh1 Hh2].
  { reflexivity. }
  { reflexivity. }
  { cbn [expect_redeem e_at]. intros n E. inversion E; subst. exact Hat. }
  { cbn [expect_redeem e_code code_state]. rewrite Hch. exact Hcc. }
  split.
  - destruct (mon_idt_verdict is_a6 _ (mkIdt true (key_alg (g_key g)) t)
               (all_true_tagged _ _ Hbind) (all_true_tagged _ _ Hreq) (all_true_tagged _ _ Hrn) Hh1) as [H|(tg & H & ->)]; auto.
  - intros Hc. destruct (mon_idt_verdict (fun _ => False) _ (mkIdt true (key_alg (g_key g)) t) Hbind Hreq Hrn (Hh2 Hc)) as [H|(tg & _ & [])].
    exact H.
Qed.

(* ------------------------------------------------------------------ device grant *)
Theorem mon_device_is_model g cl h s at_ c now :
  fget "grant_type" (s_form s) <> "refresh_token" ->
  let r := device_step g cl h (Some s) at_ c now in
  let m := mon_opt (expect_device g cl h s at_ c now) (model_idt g (x_idt r)) in
  (m = None \/ m = Some "hash_alg_from_session_header") /\ (header_consistent g h -> m = None).
Proof.
  intros Hgt r m. subst m. destruct (x_idt r) as [t|] eqn:Et; [|now split; [left|]]. cbn [model_idt mon_opt].
  unfold r in Et. pose proof (device_id_token _ _ _ _ _ _ _ _ Et) as (s' & Hst & Ho & Hb & Hat & Hch & Hu).
  inversion Hst; subst s'. clear Hst.
  pose proof (device_step_idt _ _ _ _ _ _ _ _ Et) as (s' & c2 & Hst & _ & Hg & _). inversion Hst; subst s'. clear Hst.
  pose proof (generate_sound _ _ _ _ _ _ _ _ _ Hg) as ([_ Hauth _ _] & _).
  assert (Hbind : all_true (binding_clauses (expect_device g cl h s at_ c now) (mkIdt true (key_alg (g_key g)) t))).
  { unfold expect_device. rewrite Ho. apply binding_ok. exact Hb. }
  assert (Hreq : all_true (requirement_clauses (expect_device g cl h s at_ c now))).
  { apply requirement_ok. intros _. cbn [expect_device e_form e_parsed e_sess e_by_list].
    specialize (Hauth Hgt). destruct Hauth as [A1 A2 A3 A4 A5 A6].
    apply (unmet_exact _ _ c now). constructor; assumption. }
  assert (Hrn : all_true (refresh_nonce_clauses (expect_device g cl h s at_ c now) (mkIdt true (key_alg (g_key g)) t)))
    by now apply (refresh_nonce_echo _ _ (fget "nonce" (s_form s))).
  destruct (hash_tagged g h (expect_device g cl h s at_ c now) t) as [Hh1 Hh2].
  { reflexivity. }
  { reflexivity. }
  { cbn [expect_device e_at]. intros n E. inversion E; subst. exact Hat. }
  { cbn [expect_device e_code code_state]. exact I. }
  split.
  - destruct (mon_idt_verdict is_a6 _ (mkIdt true (key_alg (g_key g)) t)
               (all_true_tagged _ _ Hbind) (all_true_tagged _ _ Hreq) (all_true_tagged _ _ Hrn) Hh1) as [H|(tg & H & ->)]; auto.
  - intros Hc. destruct (mon_idt_verdict (fun _ => False) _ (mkIdt true (key_alg (g_key g)) t) Hbind Hreq Hrn (Hh2 Hc)) as [H|(tg & _ & [])].
    exact H.
Qed.

(* ------------------------------------------------------------------ refresh *)
Definition is_refresh_finding (t : string) : Prop :=
  t = "hash_alg_from_session_header" \/ t = "refresh_nonce_not_authorization_nonce".

(* hypothesis: the session carries no nonce or the nonce of the authorization request *)
Theorem mon_refresh_is_model g cl h granted f at_ c now auth_nonce :
  (c_nonce c = "" \/ c_nonce c = auth_nonce) ->
  let r := refresh_step g cl h granted f at_ c now in
  let m := mon_opt (expect_refresh g cl h granted f at_ c now auth_nonce) (model_idt g (x_idt r)) in
  (m = None \/ exists t, m = Some t /\ is_refresh_finding t) /\
  (header_consistent g h -> (fget "nonce" f = "" \/ fget "nonce" f = auth_nonce) -> m = None).
Proof.
  intros Hcn r m. subst m. destruct (x_idt r) as [t|] eqn:Et; [|now split; [left|]]. cbn [model_idt mon_opt].
  unfold r in Et. pose proof (refresh_id_token _ _ _ _ _ _ _ _ _ Et) as (Ho & H1 & H2 & H3 & H4 & Hat & Hch & Hexp & Hle & Hnon).
  assert (Hbind : all_true (binding_clauses (expect_refresh g cl h granted f at_ c now auth_nonce) (mkIdt true (key_alg (g_key g)) t))).
  { intros b tg Hin. left. unfold binding_clauses, expect_refresh in Hin.
    cbn [e_openid e_client e_key_alg e_iss e_sess e_now e_life e_preset e_nonce i_tok i_sig i_alg] in Hin.
    in_cases Hin.
    - exact Ho.
    - apply eqb_false_neq in H1. now rewrite H1, H2, String.eqb_refl.
    - cbn. apply String.eqb_refl.
    - now apply mem_In.
    - rewrite H4. apply String.eqb_refl.
    - reflexivity.
    - rewrite Hexp. apply andb_true_iff. split; [now apply Z.leb_le|]. apply Z.leb_le. unfold life_of. lia. }
  assert (Hreq : all_true (requirement_clauses (expect_refresh g cl h granted f at_ c now auth_nonce))).
  { apply requirement_ok. cbn [expect_refresh e_checks]. discriminate. }
  destruct (hash_tagged g h (expect_refresh g cl h granted f at_ c now auth_nonce) t) as [Hh1 Hh2].
  { reflexivity. }
  { reflexivity. }
  { cbn [expect_refresh e_at]. intros n E. inversion E; subst. exact Hat. }
  { cbn [expect_refresh e_code code_state]. exact Hch. }
  split.
  - apply mon_idt_verdict.
    + now apply all_true_tagged.
    + now apply all_true_tagged.
    + intros b tg Hin. unfold refresh_nonce_clauses in Hin. in_cases Hin. right. now right.
    + eapply tagged_weaken; [|exact Hh1]. intros tg ->. now left.
  - intros Hc Hf.
    destruct (mon_idt_verdict (fun _ => False) _ (mkIdt true (key_alg (g_key g)) t) Hbind Hreq) as [H|(tg & _ & [])]; [| |exact H].
    + intros b tg Hin. left. unfold refresh_nonce_clauses, expect_refresh in Hin. cbn [e_nonce i_tok] in Hin. in_cases Hin.
      rewrite Hnon. destruct (String.eqb_spec (fget "nonce" f) "") as [E|E].
      * destruct Hcn as [-> | ->]; [reflexivity|]. rewrite String.eqb_refl. apply orb_true_r.
      * destruct Hf as [Hf|Hf]; [congruence|]. rewrite Hf, String.eqb_refl. apply orb_true_r.
    + exact (Hh2 Hc).
Qed.

(* ------------------------------------------------------------------ the white-list read from the source *)
Theorem whitelist_model_ok : whitelist_ok oidc_parameters = true.
Proof. reflexivity. Qed.
