(* Every operation preserves the state invariant; hence it holds in every reachable state. *)
From FositeModel Require Import Base.Str Model.Scope Model.Core Model.Flows Proofs.CoreInv.

Arguments upd : simpl never.

Lemma mint_spec s kd rid k s' :
  mint s kd rid = (k, s') ->
  k = next_key s /\ s' = snd (mint s kd rid) /\ st s' = st s /\ next_rid s' = next_rid s /\
  next_key s' = S (next_key s) /\ owner s' = upd (owner s) (next_key s) (Some (kd, rid)) /\ log s' = log s.
Proof. unfold mint. intros H. injection H as <- <-. cbn. auto 10. Qed.

Lemma fresh_rid_spec s rid s' :
  fresh_rid s = (rid, s') ->
  rid = next_rid s /\ s' = snd (fresh_rid s) /\ st s' = st s /\ next_rid s' = S (next_rid s) /\
  next_key s' = next_key s /\ owner s' = owner s /\ log s' = log s.
Proof. unfold fresh_rid. intros H. injection H as <- <-. cbn. auto 10. Qed.


(* ------------------------------------------------------------------ revocation primitives and the family predicates *)
Lemma with_mode_fst m res : fst (with_mode m res) = fst res.
Proof. unfold with_mode. destruct (String.eqb (o_err (snd res)) "" && negb (String.eqb (reported_mode m) "")); reflexivity. Qed.
Lemma with_mode_err m res : o_err (snd (with_mode m res)) = o_err (snd res).
Proof.
  unfold with_mode. destruct (String.eqb (o_err (snd res)) "") eqn:E; cbn [andb]; [|reflexivity].
  destruct (negb (String.eqb (reported_mode m) "")); [|reflexivity]. cbn. apply String.eqb_eq in E. now rewrite E.
Qed.
Lemma with_mode_minted m res : o_minted (snd (with_mode m res)) = o_minted (snd res).
Proof. unfold with_mode. destruct (String.eqb (o_err (snd res)) "" && negb (String.eqb (reported_mode m) "")); reflexivity. Qed.
Lemma authorize_par_fst cfg s cp uri a : fst (authorize_par cfg s cp uri a) = fst (authorize_par0 cfg s cp uri a).
Proof. unfold authorize_par. destruct (key_of s uri) as [k|]; [|reflexivity]. destruct (par (st s) k); [apply with_mode_fst|reflexivity]. Qed.
Lemma authorize_par_err cfg s cp uri a : o_err (snd (authorize_par cfg s cp uri a)) = o_err (snd (authorize_par0 cfg s cp uri a)).
Proof. unfold authorize_par. destruct (key_of s uri) as [k|]; [|reflexivity]. destruct (par (st s) k); [apply with_mode_err|reflexivity]. Qed.
Lemma authorize_par_minted cfg s cp uri a : o_minted (snd (authorize_par cfg s cp uri a)) = o_minted (snd (authorize_par0 cfg s cp uri a)).
Proof. unfold authorize_par. destruct (key_of s uri) as [k|]; [|reflexivity]. destruct (par (st s) k); [apply with_mode_minted|reflexivity]. Qed.

Lemma revoke_access_no_access s X : Inv s -> no_access_rid (revoke_access (st s) X) X.
Proof. intros _ k r H Heq. unfold revoke_access in H. cbn in H. apply drop_rid_some in H as [_ Hn]. contradiction. Qed.

Lemma revoke_refresh_no_active s X : Inv s -> no_active_refresh_rid (fst (revoke_refresh (st s) X)) X.
Proof.
  intros I k r H Heq. unfold revoke_refresh in H.
  destruct (rt_idx (st s) X) as [k0|] eqn:E.
  - destruct (refresh (st s) k0) as [[b0 r0]|] eqn:E0; cbn in H.
    + upd_case k k0; [discriminate|].
      pose proof (inv_rt_idx s I _ _ H) as Hi. rewrite Heq, E in Hi. congruence.
    + pose proof (inv_rt_idx s I _ _ H) as Hi. rewrite Heq, E in Hi. injection Hi as ->. congruence.
  - cbn in H. pose proof (inv_rt_idx s I _ _ H) as Hi. rewrite Heq, E in Hi. discriminate.
Qed.

(* what the primitives leave alone *)
Lemma revoke_access_tables x X :
  codes (revoke_access x X) = codes x /\ refresh (revoke_access x X) = refresh x /\
  at_idx (revoke_access x X) = at_idx x /\ rt_idx (revoke_access x X) = rt_idx x /\ pkce (revoke_access x X) = pkce x.
Proof. unfold revoke_access. cbn. auto. Qed.
Lemma revoke_refresh_tables x X :
  codes (fst (revoke_refresh x X)) = codes x /\ access (fst (revoke_refresh x X)) = access x /\
  at_idx (fst (revoke_refresh x X)) = at_idx x /\ rt_idx (fst (revoke_refresh x X)) = rt_idx x /\ pkce (fst (revoke_refresh x X)) = pkce x.
Proof. unfold revoke_refresh. destruct (rt_idx x X) as [k|]; [destruct (refresh x k) as [[? ?]|]|]; cbn; auto. Qed.

Lemma revoke_access_sub x X k r : access (revoke_access x X) k = Some r -> access x k = Some r.
Proof. unfold revoke_access. cbn. intros H. now apply drop_rid_some in H as [H _]. Qed.
Lemma revoke_refresh_sub x X k r : refresh (fst (revoke_refresh x X)) k = Some (true, r) -> refresh x k = Some (true, r).
Proof.
  unfold revoke_refresh. destruct (rt_idx x X) as [k0|]; [|auto].
  destruct (refresh x k0) as [[b0 r0]|] eqn:E; cbn; [|auto]. intros H. upd_case k k0; [discriminate|assumption].
Qed.

Lemma invalidate_code_tables x k :
  access (fst (invalidate_code x k)) = access x /\ refresh (fst (invalidate_code x k)) = refresh x /\
  at_idx (fst (invalidate_code x k)) = at_idx x /\ rt_idx (fst (invalidate_code x k)) = rt_idx x.
Proof. unfold invalidate_code. destruct (codes x k) as [[? ?]|]; cbn; auto. Qed.
Lemma invalidate_code_active x k k' r :
  codes (fst (invalidate_code x k)) k' = Some (true, r) -> k' <> k /\ codes x k' = Some (true, r).
Proof.
  unfold invalidate_code. destruct (codes x k) as [[b0 r0]|] eqn:E; cbn.
  - intros H. upd_case k' k; [discriminate|]. auto.
  - intros H. split; [|assumption]. intros ->. congruence.
Qed.

(* ------------------------------------------------------------------ issuing tokens *)
Lemma Inv_grant_tokens s stored with_rt :
  Inv s -> r_id stored < next_rid s ->
  no_access_rid (st s) (r_id stored) -> no_active_refresh_rid (st s) (r_id stored) -> no_active_code_rid (st s) (r_id stored) ->
  no_device_rid (st s) (r_id stored) ->
  Inv (fst (grant_tokens s stored with_rt)).
Proof.
  intros I Hrid Hna Hnr Hnc Hnd. unfold grant_tokens.
  destruct (mint s KAccess (r_id stored)) as [ka s2] eqn:E2.
  assert (I2 : Inv s2) by (replace s2 with (snd (mint s KAccess (r_id stored))) by (now rewrite E2); now apply Inv_mint).
  assert (Hka : ka = next_key s) by (unfold mint in E2; congruence).
  assert (Hs2 : st s2 = st s /\ next_rid s2 = next_rid s /\ next_key s2 = S (next_key s) /\
                owner s2 = upd (owner s) (next_key s) (Some (KAccess, r_id stored)))
    by (unfold mint in E2; injection E2 as _ <-; cbn; auto).
  destruct Hs2 as [Hst2 [Hr2 [Hk2 Ho2]]].
  destruct with_rt.
  - destruct (mint s2 KRefresh (r_id stored)) as [kr s3] eqn:E3.
    assert (I3 : Inv s3) by (replace s3 with (snd (mint s2 KRefresh (r_id stored))) by (now rewrite E3); apply Inv_mint; [assumption|lia]).
    assert (Hs3 : st s3 = st s2 /\ kr = next_key s2 /\ owner s3 = upd (owner s2) (next_key s2) (Some (KRefresh, r_id stored)))
      by (unfold mint in E3; injection E3 as <- <-; cbn; auto).
    destruct Hs3 as [Hst3 [Hkr Ho3]].
    cbn [fst].
    assert (Ia : Inv (set_store s3 (create_access (st s3) ka stored))).
    { apply Inv_create_access; [assumption| |rewrite Hst3, Hst2; assumption|rewrite Hst3, Hst2; assumption|rewrite Hst3, Hst2; assumption].
      rewrite Ho3, Ho2, upd_neq by lia. subst ka. apply upd_eq. }
    assert (Ir : Inv (set_store s3 (create_refresh (create_access (st s3) ka stored) kr stored))).
    { change (set_store s3 (create_refresh (create_access (st s3) ka stored) kr stored))
        with (set_store (set_store s3 (create_access (st s3) ka stored))
                        (create_refresh (st (set_store s3 (create_access (st s3) ka stored))) kr stored)).
      apply Inv_create_refresh; [assumption| | | |].
      - cbn. rewrite Ho3, Hkr. apply upd_eq.
      - cbn. rewrite Hst3, Hst2. assumption.
      - cbn. rewrite Hst3, Hst2. assumption.
      - cbn. rewrite Hst3, Hst2. assumption. }
    apply Inv_log_add; [assumption|].
    intros e [<-|[<-|[]]]; cbn.
    + rewrite Ho3, Ho2, upd_neq by lia. subst ka. apply upd_eq.
    + rewrite Ho3, Hkr. apply upd_eq.
  - cbn [fst].
    assert (Ia : Inv (set_store s2 (create_access (st s2) ka stored))).
    { apply Inv_create_access; [assumption| |rewrite Hst2; assumption|rewrite Hst2; assumption|rewrite Hst2; assumption].
      rewrite Ho2. subst ka. apply upd_eq. }
    apply Inv_log_add; [assumption|].
    intros e [<-|[]]; cbn. rewrite Ho2. subst ka. apply upd_eq.
Qed.

Lemma Inv_fresh_grant s mk w : Inv s -> (forall rid, r_id (mk rid) = rid) -> Inv (fst (fresh_grant s mk w)).
Proof.
  intros I Hmk. unfold fresh_grant.
  destruct (fresh_rid s) as [rid s1] eqn:E1.
  destruct (fresh_rid_spec _ _ _ E1) as [Hrid [Hs1 [Hst1 [Hnr1 _]]]].
  assert (I1 : Inv s1) by (rewrite Hs1; apply Inv_fresh_rid; assumption).
  apply Inv_grant_tokens; [assumption| | | | |]; rewrite Hmk, ?Hst1.
  - lia.
  - intros k r H. destruct (inv_access_fresh s _ _ I H). lia.
  - intros k r H. destruct (inv_refresh_fresh s _ _ _ I H). lia.
  - intros k r H. destruct (inv_code_fresh s _ _ _ I H). lia.
  - intros k b r H. destruct (inv_owner_fresh s I _ _ _ (inv_owner_device s I _ _ _ H)). lia.
Qed.

(* ------------------------------------------------------------------ PKCE touches only its own table *)
Lemma pkce_token_state cfg s cl key v vh :
  fst (pkce_token cfg s cl key v vh) = s \/
  exists k, fst (pkce_token cfg s cl key v vh) = set_store s (delete_pkce (st s) k).
Proof.
  unfold pkce_token.
  destruct (find (pkce (st s)) key) as [pr|]; [destruct key as [k|]|]; cbn [fst].
  - left.
    destruct (pkce_validate cfg (r_challenge pr) (r_method pr) (r_cl pr)); [reflexivity|].
    repeat match goal with |- context [if ?c then _ else _] => destruct c end; reflexivity.
  - left. destruct (Nat.eqb (String.length v) 0); reflexivity.
  - left. destruct (Nat.eqb (String.length v) 0); reflexivity.
Qed.

Lemma Inv_pkce_token cfg s cl key v vh : Inv s -> Inv (fst (pkce_token cfg s cl key v vh)).
Proof.
  intros I. destruct (pkce_token_state cfg s cl key v vh) as [->|[k ->]]; [assumption|].
  apply (Inv_set_pkce s _ I).
Qed.

(* ------------------------------------------------------------------ the flows *)
Lemma Inv_fail s e : Inv s -> Inv (fst (fail s e)).
Proof. auto. Qed.

Lemma Inv_authorize_core cfg s cl a : Inv s -> Inv (fst (authorize_core cfg s cl a)).
Proof.
  intros I. unfold authorize_core.
  destruct (negb (scopes_ok cfg cl (az_scopes a))); [assumption|].
  destruct (negb (aud_ok cfg (cl_aud cl) (az_aud a))); [assumption|].
  destruct (fresh_rid s) as [rid s1] eqn:E1.
  destruct (fresh_rid_spec _ _ _ E1) as [Hrid [Hs1 [Hst1 [Hnr1 [Hnk1 [Ho1 Hl1]]]]]].
  destruct (mint s1 KCode rid) as [k s2] eqn:E2.
  destruct (mint_spec _ _ _ _ _ E2) as [Hk [Hs2 [Hst2 [Hnr2 [Hnk2 [Ho2 Hl2]]]]]].
  assert (I1 : Inv s1) by (rewrite Hs1; apply Inv_fresh_rid; assumption).
  assert (I2 : Inv s2) by (rewrite Hs2; apply Inv_mint; [assumption|lia]).
  match goal with |- context [create_code _ k ?r] => set (rec := r) end.
  assert (I3 : Inv (set_store s2 (create_code (st s2) k rec))).
  { apply Inv_create_code; [assumption| | | | | |].
    - rewrite Ho2, Hk. apply upd_eq.
    - rewrite Hst2, Hst1. destruct (codes (st s) k) as [[b r]|] eqn:E; [|reflexivity].
      destruct (inv_code_fresh s _ _ _ I E). lia.
    - rewrite Hst2, Hst1. cbn. intros k' b' r' H. destruct (inv_code_fresh s _ _ _ I H). lia.
    - rewrite Hst2, Hst1. cbn. intros k' r' H. destruct (inv_access_fresh s _ _ I H). lia.
    - rewrite Hst2, Hst1. cbn. intros k' b' r' H. destruct (inv_refresh_fresh s _ _ _ I H). lia.
    - rewrite Hst2, Hst1. cbn. intros k' b' r' H. destruct (inv_owner_fresh s I _ _ _ (inv_owner_device s I _ _ _ H)). lia. }
  destruct (pkce_validate cfg (az_challenge a) (az_method a) cl); [assumption|].
  cbn [fst]. apply Inv_log_add.
  - destruct (String.eqb (az_challenge a) "" && String.eqb (az_method a) ""); [assumption|].
    apply (Inv_set_pkce _ _ I3).
  - intros e [<-|[]]. cbn.
    destruct (String.eqb (az_challenge a) "" && String.eqb (az_method a) ""); cbn; rewrite Ho2, Hk; apply upd_eq.
Qed.

Lemma store_implicit_spec cfg s cl a rid exp_code :
  let res := store_implicit cfg s cl a rid exp_code in
  snd res = next_key s /\
  codes (st (fst res)) = codes (st s) /\ access (st (fst res)) = access (st s) /\ refresh (st (fst res)) = refresh (st s) /\
  rt_idx (st (fst res)) = rt_idx (st s) /\ device (st (fst res)) = device (st s) /\ pkce (st (fst res)) = pkce (st s) /\
  par (st (fst res)) = par (st s) /\
  next_rid (fst res) = next_rid s /\ next_key (fst res) = S (next_key s) /\
  owner (fst res) = upd (owner s) (next_key s) (Some (KImplicit, rid)) /\
  log (fst res) = log s /\
  (forall k, k <> next_key s -> implicit (st (fst res)) k = implicit (st s) k).
Proof.
  unfold store_implicit. destruct (mint s KImplicit rid) as [ka s1] eqn:E1.
  destruct (mint_spec _ _ _ _ _ E1) as [Hka [_ [Hst [Hnr [Hnk [Ho Hl]]]]]].
  cbn. rewrite Hst, Hl. repeat split; try assumption.
  intros k Hk. rewrite upd_neq by congruence. reflexivity.
Qed.

Lemma Inv_store_implicit cfg s cl a rid exp_code :
  Inv s -> rid < next_rid s -> no_access_rid (st s) rid -> Inv (fst (store_implicit cfg s cl a rid exp_code)).
Proof.
  intros I Hrid Hna. unfold store_implicit. destruct (mint s KImplicit rid) as [ka s1] eqn:E1.
  destruct (mint_spec _ _ _ _ _ E1) as [Hka [Hs1 [Hst [Hnr [Hnk [Ho Hl]]]]]].
  assert (I1 : Inv s1) by (rewrite Hs1; apply Inv_mint; assumption).
  cbn [fst]. apply Inv_create_implicit; [assumption| |].
  - cbn. rewrite Ho, Hka. apply upd_eq.
  - cbn. rewrite Hst. assumption.
Qed.

Lemma issue_implicit_spec cfg s cl a rid exp_code :
  let res := issue_implicit cfg s cl a rid exp_code in
  codes (st (fst res)) = codes (st s) /\ access (st (fst res)) = access (st s) /\ refresh (st (fst res)) = refresh (st s) /\
  rt_idx (st (fst res)) = rt_idx (st s) /\ device (st (fst res)) = device (st s) /\ pkce (st (fst res)) = pkce (st s) /\
  par (st (fst res)) = par (st s) /\
  next_rid (fst res) = next_rid s /\ next_key (fst res) = S (next_key s) /\
  owner (fst res) = upd (owner s) (next_key s) (Some (KImplicit, rid)) /\
  (exists e, log (fst res) = (log s ++ [e])%list /\ i_key e = next_key s /\ i_kind e = KImplicit /\ i_rid e = rid) /\
  (forall k, k <> next_key s -> implicit (st (fst res)) k = implicit (st s) k).
Proof.
  pose proof (store_implicit_spec cfg s cl a rid exp_code) as SP. unfold issue_implicit.
  destruct (store_implicit cfg s cl a rid exp_code) as [s2 ka]. cbn [fst snd] in *.
  destruct SP as [Hka [Hc [Ha [Hr [Hri [Hd [Hp [Hpar [Hnr [Hnk [Ho [Hl Him]]]]]]]]]]]].
  cbn. rewrite Hl. repeat split; try assumption.
  eexists. split; [reflexivity|]. cbn. auto.
Qed.

Lemma Inv_issue_implicit cfg s cl a rid exp_code :
  Inv s -> rid < next_rid s -> no_access_rid (st s) rid -> Inv (fst (issue_implicit cfg s cl a rid exp_code)).
Proof.
  intros I Hrid Hna.
  pose proof (store_implicit_spec cfg s cl a rid exp_code) as SP.
  pose proof (Inv_store_implicit cfg s cl a rid exp_code I Hrid Hna) as I2. unfold issue_implicit.
  destruct (store_implicit cfg s cl a rid exp_code) as [s2 ka]. cbn [fst snd] in *.
  destruct SP as [Hka [_ [_ [_ [_ [_ [_ [_ [_ [_ [Ho _]]]]]]]]]]].
  apply Inv_log_add; [assumption|].
  intros e [<-|[]]. cbn. rewrite Ho, Hka. apply upd_eq.
Qed.

Lemma Inv_authorize_implicit cfg s cl a : Inv s -> Inv (fst (authorize_implicit cfg s cl a)).
Proof.
  intros I. unfold authorize_implicit.
  repeat match goal with |- context [if ?c then fail s _ else _] => destruct c; [assumption|] end.
  destruct (fresh_rid s) as [rid s1] eqn:E1.
  destruct (fresh_rid_spec _ _ _ E1) as [Hrid [Hs1 [Hst1 [Hnr1 _]]]].
  assert (I1 : Inv s1) by (rewrite Hs1; apply Inv_fresh_rid; assumption).
  pose proof (Inv_issue_implicit cfg s1 cl a rid None I1) as G.
  destruct (issue_implicit cfg s1 cl a rid None) as [s2 ein]. cbn [fst] in *. apply G; [lia|].
  rewrite Hst1. intros k r H. destruct (inv_access_fresh s _ _ I H). lia.
Qed.

Lemma Inv_authorize_hybrid cfg s cl a : Inv s -> Inv (fst (authorize_hybrid cfg s cl a)).
Proof.
  intros I. unfold authorize_hybrid.
  repeat match goal with |- context [if ?c then fail s _ else _] => destruct c; [assumption|] end.
  destruct (fresh_rid s) as [rid s1] eqn:E1.
  destruct (fresh_rid_spec _ _ _ E1) as [Hrid [Hs1 [Hst1 [Hnr1 [Hnk1 [Ho1 Hl1]]]]]].
  destruct (mint s1 KCode rid) as [k s2] eqn:E2.
  destruct (mint_spec _ _ _ _ _ E2) as [Hk [Hs2 [Hst2 [Hnr2 [Hnk2 [Ho2 Hl2]]]]]].
  assert (I1 : Inv s1) by (rewrite Hs1; apply Inv_fresh_rid; assumption).
  assert (I2 : Inv s2) by (rewrite Hs2; apply Inv_mint; [assumption|lia]).
  match goal with |- context [create_code _ k ?r] => set (rec := r) end.
  assert (I3 : Inv (set_store s2 (create_code (st s2) k rec))).
  { apply Inv_create_code; [assumption| | | | | |].
    - rewrite Ho2, Hk. apply upd_eq.
    - rewrite Hst2, Hst1. destruct (codes (st s) k) as [[b r]|] eqn:E; [|reflexivity].
      destruct (inv_code_fresh s _ _ _ I E). lia.
    - rewrite Hst2, Hst1. cbn. intros k' b' r' H. destruct (inv_code_fresh s _ _ _ I H). lia.
    - rewrite Hst2, Hst1. cbn. intros k' r' H. destruct (inv_access_fresh s _ _ I H). lia.
    - rewrite Hst2, Hst1. cbn. intros k' b' r' H. destruct (inv_refresh_fresh s _ _ _ I H). lia.
    - rewrite Hst2, Hst1. cbn. intros k' b' r' H. destruct (inv_owner_fresh s I _ _ _ (inv_owner_device s I _ _ _ H)). lia. }
  destruct (negb (args_has (cl_grants cl) ["implicit"])); [exact I3|].
  destruct (pkce_validate cfg (az_challenge a) (az_method a) cl).
  { cbn [fst]. apply Inv_store_implicit; [assumption|cbn; lia|].
    cbn. rewrite Hst2, Hst1. intros k' r' H. destruct (inv_access_fresh s _ _ I H). lia. }
  match goal with |- context [issue_implicit cfg ?s3 cl a rid ?ec] =>
    pose proof (Inv_issue_implicit cfg s3 cl a rid ec I3) as G; pose proof (issue_implicit_spec cfg s3 cl a rid ec) as SP;
    destruct (issue_implicit cfg s3 cl a rid ec) as [s4 ein] end.
  cbn [fst] in *.
  assert (I4 : Inv s4).
  { apply G; [cbn; lia|]. cbn. rewrite Hst2, Hst1. intros k' r' H. destruct (inv_access_fresh s _ _ I H). lia. }
  destruct SP as [_ [_ [_ [_ [_ [_ [_ [_ [Hnk4 [Ho4 _]]]]]]]]]].
  cbn [fst]. apply Inv_log_add.
  - destruct (String.eqb (az_challenge a) "" && String.eqb (az_method a) ""); [assumption|].
    apply (Inv_set_pkce _ _ I4).
  - intros e [<-|[]]. cbn.
    assert (Hok : owner s4 k = Some (KCode, rid)).
    { rewrite Ho4. cbn. rewrite upd_neq by lia. rewrite Ho2, Hk. apply upd_eq. }
    destruct (String.eqb (az_challenge a) "" && String.eqb (az_method a) ""); cbn; exact Hok.
Qed.

(* what an authorization with response_type "token" / "code token" can change *)
Definition authz_effect (s s' : state) : Prop :=
  access (st s') = access (st s) /\ refresh (st s') = refresh (st s) /\ device (st s') = device (st s) /\
  par (st s') = par (st s) /\ rt_idx (st s') = rt_idx (st s) /\
  next_rid s <= next_rid s' /\ next_key s <= next_key s' /\ (exists l, log s' = (log s ++ l)%list) /\
  (forall k, k < next_key s -> codes (st s') k = codes (st s) k /\ pkce (st s') k = pkce (st s) k /\ implicit (st s') k = implicit (st s) k) /\
  (forall k b r, codes (st s') k = Some (b, r) -> codes (st s) k = Some (b, r) \/ r_id r = next_rid s).

Lemma authz_effect_refl s : authz_effect s s.
Proof. unfold authz_effect. repeat split; auto. exists []. now rewrite app_nil_r. Qed.

Lemma authorize_implicit_effect cfg s cl a : authz_effect s (fst (authorize_implicit cfg s cl a)).
Proof.
  unfold authorize_implicit.
  repeat match goal with |- context [if ?c then fail s _ else _] => destruct c; [apply authz_effect_refl|] end.
  destruct (fresh_rid s) as [rid s1] eqn:E1.
  destruct (fresh_rid_spec _ _ _ E1) as [Hrid [_ [Hst1 [Hnr1 [Hnk1 [_ Hl1]]]]]].
  pose proof (issue_implicit_spec cfg s1 cl a rid None) as SP.
  destruct (issue_implicit cfg s1 cl a rid None) as [s2 ein]. cbn [fst] in *.
  destruct SP as [Hc [Ha [Hr [Hri [Hd [Hp [Hpar [Hnr [Hnk [_ [[e [Hl _]] Him]]]]]]]]]]].
  unfold authz_effect. rewrite Hc, Ha, Hr, Hri, Hd, Hpar, Hl, Hst1, Hl1, Hnr, Hnk.
  repeat split; try lia; eauto.
  - rewrite Hp, Hst1. reflexivity.
  - rewrite Him by lia. now rewrite Hst1.
Qed.

Lemma authorize_hybrid_effect cfg s cl a : authz_effect s (fst (authorize_hybrid cfg s cl a)).
Proof.
  unfold authorize_hybrid.
  repeat match goal with |- context [if ?c then fail s _ else _] => destruct c; [apply authz_effect_refl|] end.
  destruct (fresh_rid s) as [rid s1] eqn:E1.
  destruct (fresh_rid_spec _ _ _ E1) as [Hrid [_ [Hst1 [Hnr1 [Hnk1 [_ Hl1]]]]]].
  destruct (mint s1 KCode rid) as [k s2] eqn:E2.
  destruct (mint_spec _ _ _ _ _ E2) as [Hk [_ [Hst2 [Hnr2 [Hnk2 [_ Hl2]]]]]].
  match goal with |- context [create_code _ k ?r] => set (rec := r) end.
  assert (Hrec : r_id rec = rid) by reflexivity.
  assert (E3 : authz_effect s (set_store s2 (create_code (st s2) k rec))).
  { unfold authz_effect. cbn. rewrite Hst2, Hst1, Hl2, Hl1, Hnr2, Hnr1, Hnk2, Hnk1.
    repeat split; try lia; auto.
    - exists []. now rewrite app_nil_r.
    - rewrite upd_neq by lia. reflexivity.
    - intros k0 b r H. upd_case k0 k; [injection H as <- <-; right; congruence|auto]. }
  destruct (negb (args_has (cl_grants cl) ["implicit"])); [exact E3|].
  destruct (pkce_validate cfg (az_challenge a) (az_method a) cl).
  { unfold fail. cbn [fst].
    match goal with |- context [store_implicit cfg ?s3 cl a rid ?ec] =>
      pose proof (store_implicit_spec cfg s3 cl a rid ec) as SP; destruct (store_implicit cfg s3 cl a rid ec) as [s4 ka] end.
    cbn [fst snd] in *.
    destruct SP as [_ [Hc [Ha [Hr [Hri [Hd [Hp [Hpar [Hnr [Hnk [_ [Hl Him]]]]]]]]]]]].
    destruct E3 as [A3 [R3 [D3 [P3 [RI3 [N3 [K3 [[l3 L3] [O3 C3]]]]]]]]].
    unfold authz_effect. rewrite Ha, Hr, Hd, Hpar, Hri, Hnr, Hnk, Hl, L3. cbn [st set_store next_key next_rid] in *.
    repeat split; try assumption; try lia.
    - exists l3. reflexivity.
    - rewrite Hc. apply O3. assumption.
    - rewrite Hp. apply O3. assumption.
    - rewrite Him by (cbn; lia). apply O3. assumption.
    - intros k0 b r H. rewrite Hc in H. auto. }
  match goal with |- context [issue_implicit cfg ?s3 cl a rid ?ec] =>
    pose proof (issue_implicit_spec cfg s3 cl a rid ec) as SP; destruct (issue_implicit cfg s3 cl a rid ec) as [s4 ein] end.
  cbn [fst] in *.
  destruct SP as [Hc [Ha [Hr [Hri [Hd [Hp [Hpar [Hnr [Hnk [_ [[e [Hl _]] Him]]]]]]]]]]].
  assert (E4 : authz_effect s s4).
  { destruct E3 as [A3 [R3 [D3 [P3 [RI3 [N3 [K3 [[l3 L3] [O3 C3]]]]]]]]].
    unfold authz_effect. rewrite Ha, Hr, Hd, Hpar, Hri, Hnr, Hnk, Hl, L3. cbn [st set_store next_key next_rid] in *.
    repeat split; try assumption; try lia.
    - exists (l3 ++ [e])%list. now rewrite app_assoc.
    - rewrite Hc. apply O3. assumption.
    - rewrite Hp. apply O3. assumption.
    - rewrite Him by (cbn; lia). apply O3. assumption.
    - intros k0 b r H. rewrite Hc in H. auto. }
  cbn [fst].
  destruct E4 as [A4 [R4 [D4 [P4 [RI4 [N4 [K4 [[l4 L4] [O4 C4]]]]]]]]].
  assert (Hk4 : next_key s < next_key s4 /\ k = next_key s) by (cbn in *; split; lia).
  unfold authz_effect.
  destruct (String.eqb (az_challenge a) "" && String.eqb (az_method a) ""); cbn; rewrite ?L4;
    (repeat split; try assumption; try lia;
     [exists (l4 ++ [{| i_kind := KCode; i_key := k; i_rid := rid; i_endpoint_token := false |}])%list; now rewrite app_assoc| ..]).
  - apply O4. assumption. - apply O4. assumption. - apply O4. assumption.
  - apply O4. assumption. - rewrite upd_neq by lia. apply O4. assumption. - apply O4. assumption.
Qed.

Lemma Inv_authorize cfg s a : Inv s -> Inv (fst (authorize cfg s a)).
Proof.
  intros I. unfold authorize. destruct (cf_par_enforced cfg); [assumption|].
  destruct (clients s (az_client a)) as [cl|]; [|assumption].
  destruct (az_rtype a); [now apply Inv_authorize_core|now apply Inv_authorize_implicit|now apply Inv_authorize_hybrid].
Qed.

Lemma Inv_authorize_par cfg s cp uri a : Inv s -> Inv (fst (authorize_par cfg s cp uri a)).
Proof.
  intros I. rewrite authorize_par_fst. unfold authorize_par0.
  destruct (key_of s uri) as [k|]; [|assumption].
  destruct (par (st s) k) as [pr|]; [|assumption].
  pose proof (Inv_set_par s (upd (par (st s)) k None) I) as I1.
  destruct (before _ _); [exact I1|].
  destruct (negb (Nat.eqb cp (r_client pr))); [exact I1|].
  apply Inv_authorize_core. exact I1.
Qed.

Lemma Inv_push cfg s auth bc ru a : Inv s -> Inv (fst (push cfg s auth bc ru a)).
Proof.
  intros I. unfold push.
  destruct auth as [c|]; [|assumption]. destruct (clients s c); [|assumption].
  destruct ru; [assumption|].
  destruct (clients s _) as [cl|]; [|assumption].
  destruct (negb (scopes_ok cfg cl (az_scopes a))); [assumption|].
  destruct (negb (aud_ok cfg (cl_aud cl) (az_aud a))); [assumption|].
  destruct (negb (Nat.eqb _ c)); [assumption|].
  destruct (fresh_rid s) as [rid s1] eqn:E1.
  destruct (fresh_rid_spec _ _ _ E1) as [Hrid [Hs1 [Hst1 [Hnr1 [Hnk1 [Ho1 Hl1]]]]]].
  destruct (mint s1 KPar rid) as [k s2] eqn:E2.
  destruct (mint_spec _ _ _ _ _ E2) as [Hk [Hs2 [Hst2 [Hnr2 [Hnk2 [Ho2 Hl2]]]]]].
  assert (I1 : Inv s1) by (rewrite Hs1; apply Inv_fresh_rid; assumption).
  assert (I2 : Inv s2) by (rewrite Hs2; apply Inv_mint; [assumption|lia]).
  cbn [fst]. apply Inv_log_add; [apply (Inv_set_par s2 _ I2)|].
  intros e [<-|[]]. cbn. rewrite Ho2, Hk. apply upd_eq.
Qed.

Lemma Inv_device_authorize cfg s auth bc sc au : Inv s -> Inv (fst (device_authorize cfg s auth bc sc au)).
Proof.
  intros I. unfold device_authorize.
  destruct auth as [c|]; [|assumption]. destruct (clients s c) as [cl|]; [|assumption].
  repeat match goal with |- context [if ?c then fail s _ else _] => destruct c; [assumption|] end.
  destruct (fresh_rid s) as [rid s1] eqn:E1.
  destruct (fresh_rid_spec _ _ _ E1) as [Hrid [Hs1 [Hst1 [Hnr1 [Hnk1 [Ho1 Hl1]]]]]].
  destruct (mint s1 KDevice rid) as [kd s2] eqn:E2.
  destruct (mint_spec _ _ _ _ _ E2) as [Hkd [Hs2 [Hst2 [Hnr2 [Hnk2 [Ho2 Hl2]]]]]].
  destruct (mint s2 KUser rid) as [ku s3] eqn:E3.
  destruct (mint_spec _ _ _ _ _ E3) as [Hku [Hs3 [Hst3 [Hnr3 [Hnk3 [Ho3 Hl3]]]]]].
  assert (I1 : Inv s1) by (rewrite Hs1; apply Inv_fresh_rid; assumption).
  assert (I2 : Inv s2) by (rewrite Hs2; apply Inv_mint; [assumption|lia]).
  assert (I3 : Inv s3) by (rewrite Hs3; apply Inv_mint; [assumption|lia]).
  cbn [fst]. match goal with |- context [put_device _ kd (0, ?r)] => set (rec := r) end.
  assert (I4 : Inv (set_store s3 (put_device (st s3) kd (0, rec)))).
  { apply Inv_put_device_new; [assumption| | | | | |]; rewrite ?Hst3, ?Hst2, ?Hst1; cbn.
    - rewrite Ho3, Ho2, upd_neq by lia. subst kd. apply upd_eq.
    - destruct (device (st s) kd) as [[b r]|] eqn:E; [|reflexivity].
      destruct (inv_owner_fresh s I _ _ _ (inv_owner_device s I _ _ _ E)). lia.
    - intros k' b' r' H. destruct (inv_owner_fresh s I _ _ _ (inv_owner_device s I _ _ _ H)). lia.
    - intros k' r' H. destruct (inv_access_fresh s _ _ I H). lia.
    - intros k' b' r' H. destruct (inv_refresh_fresh s _ _ _ I H). lia.
    - intros k' b' r' H. destruct (inv_code_fresh s _ _ _ I H). lia. }
  apply Inv_log_add; [exact I4|].
  intros e [<-|[<-|[]]]; cbn.
  - rewrite Ho3, Ho2, upd_neq by lia. subst kd. apply upd_eq.
  - rewrite Ho3. subst ku. apply upd_eq.
Qed.

Lemma Inv_decide cfg s dev acc g ga sub fr : Inv s -> Inv (fst (decide cfg s dev acc g ga sub fr)).
Proof.
  intros I. unfold decide.
  destruct (key_of s dev) as [k|]; [|assumption].
  destruct (device (st s) k) as [[b r]|] eqn:Ed; [|assumption].
  destruct (expired _ _ _ _); [assumption|].
  cbn [fst]. eapply Inv_put_device_update; [assumption|exact Ed|reflexivity].
Qed.

Lemma Inv_device_poll cfg s auth dev : Inv s -> Inv (fst (device_poll cfg s auth dev)).
Proof.
  intros I. unfold device_poll.
  destruct auth as [c|]; [|assumption]. destruct (clients s c) as [cl|]; [|assumption].
  destruct (negb (args_has (cl_grants cl) _)); [assumption|].
  destruct (key_of s dev) as [k|]; [|assumption].
  destruct (used_device cfg (st s) k) as [rid|].
  { change (Inv (set_store (set_store s (revoke_access (st s) rid))
                           (fst (revoke_refresh (st (set_store s (revoke_access (st s) rid))) rid)))).
    apply Inv_revoke_refresh. apply Inv_revoke_access. assumption. }
  destruct (device (st s) k) as [[stt r]|] eqn:Ed; [|assumption].
  repeat match goal with |- context [if ?c then fail s _ else _] => destruct c; [assumption|] end.
  match goal with |- context [grant_tokens ?s2 ?stored ?w] =>
    pose proof (Inv_grant_tokens s2 stored w) as G; destruct (grant_tokens s2 stored w) as [s3 minted] end.
  cbn [fst] in *. apply G; clear G; cbn.
  - now apply Inv_invalidate_device.
  - exact (proj2 (inv_owner_fresh s I _ _ _ (inv_owner_device s I _ _ _ Ed))).
  - intros k' r' H Heq. exact (inv_access_device s I _ _ H k stt r Ed (eq_sym Heq)).
  - intros k' r' H Heq. exact (inv_refresh_device s I _ _ _ H k stt r Ed (eq_sym Heq)).
  - intros k' r' H Heq. exact (inv_code_device s I _ _ _ H k stt r Ed (eq_sym Heq)).
  - eapply invalidate_device_no_device; eassumption.
Qed.

Lemma Inv_redeem cfg s auth code redirect v vh : Inv s -> Inv (fst (redeem cfg s auth code redirect v vh)).
Proof.
  intros I. unfold redeem.
  destruct auth as [c|]; [|assumption].
  destruct (clients s c) as [cl|]; [|assumption].
  destruct (negb (args_has (cl_grants cl) ["authorization_code"])); [assumption|].
  destruct (key_of s code) as [k|]; [|assumption].
  destruct (codes (st s) k) as [[[|] r]|] eqn:Ec; [| |assumption].
  - (* active code *)
    destruct (p_tampered code); [assumption|].
    destruct (negb (Nat.eqb (r_client r) c)); [assumption|].
    destruct (negb (String.eqb (r_redirect r) "") && negb (String.eqb (r_redirect r) redirect)); [assumption|].
    pose proof (Inv_pkce_token cfg s cl (Some k) v vh I) as I1.
    pose proof (pkce_token_state cfg s cl (Some k) v vh) as Hst.
    destruct (pkce_token cfg s cl (Some k) v vh) as [s1 [e|]]; cbn [fst] in *; [assumption|].
    destruct (expired _ _ _ _); [assumption|].
    assert (Hs1 : codes (st s1) = codes (st s) /\ access (st s1) = access (st s) /\ refresh (st s1) = refresh (st s) /\
                  next_rid s1 = next_rid s)
      by (destruct Hst as [->|[k0 ->]]; cbn; auto).
    destruct Hs1 as [Hc1 [Ha1 [Hr1 Hn1]]].
    match goal with |- context [grant_tokens ?s2 ?stored ?w] =>
      pose proof (Inv_grant_tokens s2 stored w) as G; destruct (grant_tokens s2 stored w) as [s3 minted] end.
    cbn [fst] in *. apply (Inv_set_pkce s3). apply G; clear G.
    + apply Inv_invalidate_code. assumption.
    + cbn. rewrite Hn1. exact (proj2 (inv_code_fresh s _ _ _ I Ec)).
    + cbn [st set_store]. destruct (invalidate_code_tables (st s1) k) as [Ta [Tr _]].
      intros k' r' H Heq. rewrite Ta, Ha1 in H.
      exact (inv_access_code s I _ _ H k r Ec (eq_sym Heq)).
    + cbn [st set_store]. destruct (invalidate_code_tables (st s1) k) as [Ta [Tr _]].
      intros k' r' H Heq. rewrite Tr, Hr1 in H.
      exact (inv_refresh_code s I _ _ _ H k r Ec (eq_sym Heq)).
    + cbn [st set_store]. intros k' r' H Heq. apply invalidate_code_active in H as [Hne H]. rewrite Hc1 in H.
      assert (k' = k) by (eapply (inv_code_rid s I); eassumption). contradiction.
    + cbn [st set_store]. intros k' b' r' H.
      assert (Hd : device (fst (invalidate_code (st s1) k)) = device (st s))
        by (unfold invalidate_code; destruct (codes (st s1) k) as [[? ?]|]; cbn; destruct Hst as [->|[k0 ->]]; reflexivity).
      rewrite Hd in H. exact (inv_code_device s I _ _ _ Ec _ _ _ H).
  - (* replay *)
    change (Inv (set_store (set_store s (revoke_access (st s) (r_id r)))
                           (fst (revoke_refresh (st (set_store s (revoke_access (st s) (r_id r)))) (r_id r))))).
    apply Inv_revoke_refresh. apply Inv_revoke_access. assumption.
Qed.

Lemma Inv_refresh_flow cfg s auth tok : Inv s -> Inv (fst (refresh_flow cfg s auth tok)).
Proof.
  intros I. unfold refresh_flow.
  destruct auth as [c|]; [|assumption].
  destruct (clients s c) as [cl|]; [|assumption].
  destruct (negb (args_has (cl_grants cl) ["refresh_token"])); [assumption|].
  destruct (key_of s tok) as [k|]; cbn [find]; [|assumption].
  destruct (refresh (st s) k) as [[[|] r]|] eqn:Er; [| |assumption].
  - (* active refresh token *)
    repeat match goal with |- context [if ?c then _ else _] => destruct c; [assumption|] end.
    unfold rotate_refresh.
    pose proof (Inv_revoke_refresh s (r_id r) I) as Irr.
    pose proof (revoke_refresh_no_active s (r_id r) I) as Hnr.
    pose proof (revoke_refresh_tables (st s) (r_id r)) as [Tc [Ta [Tai [Tri Tp]]]].
    assert (Td : device (fst (revoke_refresh (st s) (r_id r))) = device (st s)).
    { unfold revoke_refresh. destruct (rt_idx (st s) (r_id r)) as [k0|]; [destruct (refresh (st s) k0) as [[? ?]|]|]; reflexivity. }
    destruct (revoke_refresh (st s) (r_id r)) as [st1 [e|]]; cbn [fst] in *; [assumption|].
    match goal with |- context [grant_tokens ?s2 ?stored ?w] =>
      pose proof (Inv_grant_tokens s2 stored w) as G; destruct (grant_tokens s2 stored w) as [s3 minted] end.
    cbn [fst] in *. apply G; clear G.
    + change (Inv (set_store (set_store s st1) (revoke_access (st (set_store s st1)) (r_id r)))).
      apply Inv_revoke_access. assumption.
    + cbn. exact (proj2 (inv_refresh_fresh s _ _ _ I Er)).
    + cbn. exact (revoke_access_no_access (set_store s st1) (r_id r) Irr).
    + cbn. intros k' r' H. destruct (revoke_access_tables st1 (r_id r)) as [_ [Hr _]]. rewrite Hr in H. eauto.
    + cbn. intros k' r' H. destruct (revoke_access_tables st1 (r_id r)) as [Hc _]. rewrite Hc, Tc in H.
      exact (inv_refresh_code s I _ _ _ Er k' r' H).
    + cbn. intros k' b' r' H.
      assert (Hd : device (revoke_access st1 (r_id r)) = device (st s)).
      { unfold revoke_access. cbn. exact Td. }
      rewrite Hd in H. exact (inv_refresh_device s I _ _ _ Er _ _ _ H).
  - (* reuse of an inactive refresh token *)
    change (Inv (set_store (set_store (set_store s (delete_refresh (st s) k))
                   (fst (revoke_refresh (st (set_store s (delete_refresh (st s) k))) (r_id r))))
                   (revoke_access (st (set_store (set_store s (delete_refresh (st s) k))
                        (fst (revoke_refresh (st (set_store s (delete_refresh (st s) k))) (r_id r))))) (r_id r)))).
    apply Inv_revoke_access. apply Inv_revoke_refresh. apply Inv_delete_refresh. assumption.
Qed.

Lemma Inv_revoke cfg s auth tok h : Inv s -> Inv (fst (revoke cfg s auth tok h)).
Proof.
  intros I. unfold revoke.
  destruct auth as [c|]; [|assumption].
  destruct (clients s c); [|assumption].
  destruct (revoke_lookup s (key_of s tok) h) as [r|]; [|assumption].
  destruct (negb (Nat.eqb (r_client r) c)); [assumption|].
  change (Inv (set_store (set_store s (fst (revoke_refresh (st s) (r_id r))))
                         (revoke_access (st (set_store s (fst (revoke_refresh (st s) (r_id r))))) (r_id r)))).
  apply Inv_revoke_access. apply Inv_revoke_refresh. assumption.
Qed.

Ltac flow_head s :=
  match goal with |- context [match ?a with Some _ => _ | None => fail s _ end] => destruct a; [|try assumption] end.

Lemma Inv_password_flow cfg s auth ok sc au g ga : Inv s -> Inv (fst (password_flow cfg s auth ok sc au g ga)).
Proof.
  intros I. unfold password_flow.
  destruct auth as [c|]; [|assumption]. destruct (clients s c) as [cl|]; [|assumption].
  repeat match goal with |- context [if ?c then fail s _ else _] => destruct c; [assumption|] end.
  match goal with |- context [fresh_grant s ?mk ?w] =>
    pose proof (Inv_fresh_grant s mk w I (fun _ => eq_refl)) as G; destruct (fresh_grant s mk w) as [s2 minted] end.
  exact G.
Qed.

Lemma Inv_client_credentials_flow cfg s auth sc au g ga : Inv s -> Inv (fst (client_credentials_flow cfg s auth sc au g ga)).
Proof.
  intros I. unfold client_credentials_flow.
  destruct auth as [c|]; [|assumption]. destruct (clients s c) as [cl|]; [|assumption].
  repeat match goal with |- context [if ?c then fail s _ else _] => destruct c; [assumption|] end.
  match goal with |- context [fresh_grant s ?mk ?w] =>
    pose proof (Inv_fresh_grant s mk w I (fun _ => eq_refl)) as G; destruct (fresh_grant s mk w) as [s2 minted] end.
  exact G.
Qed.

Theorem Inv_step cfg s o : Inv s -> Inv (fst (step cfg s o)).
Proof.
  intros I. destruct o; cbn [step].
  - now apply Inv_authorize.
  - now apply Inv_redeem.
  - now apply Inv_refresh_flow.
  - now apply Inv_revoke.
  - assumption.
  - now apply Inv_set_now.
  - now apply Inv_set_clients.
  - now apply Inv_password_flow.
  - now apply Inv_client_credentials_flow.
  - assumption.
  - now apply Inv_push.
  - now apply Inv_authorize_par.
  - now apply Inv_device_authorize.
  - now apply Inv_decide.
  - now apply Inv_device_poll.
  - assumption.
Qed.

Theorem Inv_run cfg h : forall s, Inv s -> Inv (run cfg s h).
Proof.
  unfold run. induction h as [|o h IH]; intros s I; cbn [fold_left]; [assumption|].
  apply IH. now apply Inv_step.
Qed.

Corollary Inv_reachable cfg cls h : Inv (run cfg (state0 cls) h).
Proof. apply Inv_run. apply Inv_state0. Qed.
