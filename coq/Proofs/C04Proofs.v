(* Refresh-token rotation and reuse detection (C04), history level. *)
From FositeModel Require Import Base.Str Model.Scope Model.Core Model.Flows Proofs.CoreInv Proofs.StepInv Proofs.Family Proofs.Implicit Proofs.Decay.

Arguments upd : simpl never.

Lemma refresh_is_step cfg s auth tok sm : refresh_flow cfg s auth tok = step cfg s (ORefresh auth tok sm).
Proof. reflexivity. Qed.

(* a credential whose key holds no access record and no active refresh record is reported inactive *)
Lemma key_dead_inactive cfg s i e tampered h scopes :
  nth_error (log s) i = Some e -> access (st s) (i_key e) = None -> implicit (st s) (i_key e) = None -> rt_dead (st s) (i_key e) ->
  introspect cfg s {| p_ref := CRef i; p_tampered := tampered |} h scopes = None.
Proof.
  intros Hn Ha Hi Hr. unfold introspect, key_of. cbn [p_ref p_tampered]. rewrite Hn. cbn [option_map].
  unfold introspect_access, introspect_refresh, lookup_access. cbn [find]. rewrite Ha, Hi.
  destruct Hr as [->|[r ->]]; destruct (negb (cf_introspect_rt cfg)); try reflexivity; destruct h; reflexivity.
Qed.

(* a successful exchange: the presented token was active, it and every older credential of the grant are
   dead afterwards, and a new pair is returned *)
Theorem refresh_ok_rotates cfg s auth tok :
  Inv s -> o_err (snd (refresh_flow cfg s auth tok)) = "" ->
  exists k r, key_of s tok = Some k /\ refresh (st s) k = Some (true, r) /\
    o_minted (snd (refresh_flow cfg s auth tok)) = [KAccess; KRefresh] /\
    let s' := fst (refresh_flow cfg s auth tok) in
    rt_dead (st s') k /\
    (forall e, In e (log s) -> i_rid e = r_id r -> access (st s') (i_key e) = None /\ rt_dead (st s') (i_key e)).
Proof.
  intros I. unfold refresh_flow.
  destruct auth as [c|]; [|discriminate].
  destruct (clients s c) as [cl|]; [|discriminate].
  destruct (negb (args_has (cl_grants cl) ["refresh_token"])); [discriminate|].
  destruct (key_of s tok) as [k|]; cbn [find]; [|discriminate].
  destruct (refresh (st s) k) as [[[|] r]|] eqn:Er; [|discriminate|discriminate].
  repeat match goal with |- context [if ?c then _ else _] => destruct c; [discriminate|] end.
  unfold rotate_refresh.
  pose proof (Inv_revoke_refresh s (r_id r) I) as I1.
  pose proof (revoke_refresh_no_active s (r_id r) I) as Hnr.
  pose proof (revoke_refresh_tables (st s) (r_id r)) as [Tc [Ta _]].
  pose proof (decay_revoke_refresh (next_key s) (st s) (r_id r)) as D1.
  destruct (revoke_refresh (st s) (r_id r)) as [st1 [e|]] eqn:Err; cbn [fst] in *; [discriminate|].
  pose proof (revoke_access_no_access (set_store s st1) (r_id r) I1) as Hna. cbn in Hna.
  pose proof (Inv_revoke_access (set_store s st1) (r_id r) I1) as I2. cbn in I2.
  pose proof (decay_revoke_access (next_key s) st1 (r_id r)) as D2.
  destruct (revoke_access_tables st1 (r_id r)) as [_ [Tr _]].
  match goal with |- context [grant_tokens ?s2 ?stored ?w] =>
    pose proof (decay_grant_tokens s2 stored w) as G; destruct (grant_tokens s2 stored w) as [s3 minted] eqn:Eg end.
  cbn [fst snd] in *. intros _.
  exists k, r. split; [reflexivity|]. split; [exact Er|]. split.
  { apply (f_equal snd) in Eg. cbn [snd] in Eg. rewrite <- Eg. reflexivity. }
  (* every record of the grant that existed before is dead in the state after RotateRefreshToken *)
  set (st2 := revoke_access st1 (r_id r)) in *.
  assert (Hdead2 : forall k0 kd, owner s k0 = Some (kd, r_id r) -> access st2 k0 = None /\ rt_dead st2 k0).
  { intros k0 kd Ho. split.
    - destruct (access st2 k0) as [r0|] eqn:E0; [|reflexivity]. exfalso.
      pose proof (inv_owner_access _ I2 _ _ E0) as Ho'. cbn in Ho'. rewrite Ho in Ho'. injection Ho' as _ Hx.
      eapply Hna; eauto.
    - unfold rt_dead. rewrite Tr. destruct (refresh st1 k0) as [[[|] r0]|] eqn:E0; eauto.
      exfalso. pose proof (inv_owner_refresh _ I1 _ _ _ E0) as Ho'. cbn in Ho'. rewrite Ho in Ho'. injection Ho' as _ Hx.
      eapply Hnr; eauto. }
  assert (Hlift : forall k0, k0 < next_key s -> access st2 k0 = None /\ rt_dead st2 k0 ->
                             access (st s3) k0 = None /\ rt_dead (st s3) k0).
  { intros k0 Hk0 [Ha0 Hr0]. cbn in G. split; [eapply decay_access_gone|eapply decay_rt_dead]; eauto. }
  split.
  - apply Hlift; [exact (proj1 (inv_refresh_fresh s _ _ _ I Er))|].
    apply (Hdead2 k KRefresh). exact (inv_owner_refresh s I _ _ _ Er).
  - intros e0 He0 Hrid. pose proof (inv_log_owner s I e0 He0) as Ho. rewrite Hrid in Ho.
    apply Hlift; [exact (proj1 (inv_owner_fresh s I _ _ _ Ho))|]. eapply Hdead2; eassumption.
Qed.

(* presenting a refresh token whose record is inactive or gone is refused *)
Theorem refresh_dead_fails cfg s auth tok k :
  key_of s tok = Some k -> rt_dead (st s) k ->
  o_err (snd (refresh_flow cfg s auth tok)) <> "" /\ o_minted (snd (refresh_flow cfg s auth tok)) = [] /\
  (forall c cl, auth = Some c -> clients s c = Some cl -> args_has (cl_grants cl) ["refresh_token"] = true ->
                o_err (snd (refresh_flow cfg s auth tok)) = "invalid_grant").
Proof.
  intros Hk Hd. unfold refresh_flow.
  destruct auth as [c|]; [|cbn; repeat split; try reflexivity; easy].
  destruct (clients s c) as [cl|] eqn:Ecl;
    [|cbn; repeat split; try reflexivity; try easy; intros c0 cl0 [= <-]; congruence].
  destruct (negb (args_has (cl_grants cl) ["refresh_token"])) eqn:Eg.
  - cbn [snd fail err_obs o_err o_minted]. repeat split; try reflexivity; try easy.
    intros c0 cl0 [= <-] Hcl Hg. rewrite Ecl in Hcl. injection Hcl as <-. rewrite Hg in Eg. discriminate.
  - rewrite Hk. cbn [find]. destruct Hd as [->|[r ->]]; cbn; repeat split; try reflexivity; easy.
Qed.

Theorem refresh_token_single_use cfg cls h1 auth tok h2 auth' tok' :
  let s1 := run cfg (state0 cls) h1 in
  let res1 := refresh_flow cfg s1 auth tok in
  o_err (snd res1) = "" ->
  o_minted (snd res1) = [KAccess; KRefresh] /\
  (let s2 := run cfg (fst res1) h2 in
   key_of s2 tok' = key_of s1 tok ->
   let res2 := refresh_flow cfg s2 auth' tok' in
   o_err (snd res2) <> "" /\ o_minted (snd res2) = [] /\
   (forall c cl, auth' = Some c -> clients s2 c = Some cl ->
                 args_has (cl_grants cl) ["refresh_token"] = true -> o_err (snd res2) = "invalid_grant")).
Proof.
  intros s1 res1 Hok.
  assert (I1 : Inv s1) by apply Inv_reachable.
  destruct (refresh_ok_rotates cfg s1 auth tok I1 Hok) as [k [r [Hk [Hact [Hm [Hd _]]]]]].
  split; [exact Hm|]. intros s2 Hkey res2.
  assert (Hk' : k < next_key (fst res1)).
  { pose proof (next_key_step cfg s1 (ORefresh auth tok [])) as Hn. cbn [step] in Hn.
    pose proof (proj1 (inv_refresh_fresh s1 _ _ _ I1 Hact)). unfold res1. lia. }
  apply (refresh_dead_fails cfg s2 auth' tok' k); [congruence|].
  eapply decay_rt_dead; [apply decay_run|exact Hk'|exact Hd].
Qed.

(* the exchange also removes the access token the authorization endpoint handed out for the grant (hybrid flow) *)
Lemma refresh_ok_no_implicit cfg s auth tok k r :
  o_err (snd (refresh_flow cfg s auth tok)) = "" -> key_of s tok = Some k -> refresh (st s) k = Some (true, r) ->
  no_implicit_rid (st (fst (refresh_flow cfg s auth tok))) (r_id r).
Proof.
  unfold refresh_flow.
  destruct auth as [c|]; [|discriminate].
  destruct (clients s c) as [cl|]; [|discriminate].
  destruct (negb (args_has (cl_grants cl) ["refresh_token"])); [discriminate|].
  intros Hok Hk Hr. rewrite Hk in *. cbn [find] in *. rewrite Hr in *.
  revert Hok.
  repeat match goal with |- context [if ?c then _ else _] => destruct c; [discriminate|] end.
  unfold rotate_refresh.
  pose proof (revoke_refresh_imp (st s) (r_id r)) as Ti.
  destruct (revoke_refresh (st s) (r_id r)) as [st1 [e|]] eqn:Err; cbn [fst] in *; [discriminate|].
  match goal with |- context [grant_tokens ?s2 ?stored ?w] =>
    pose proof (grant_tokens_imp s2 stored w) as G; destruct (grant_tokens s2 stored w) as [s3 minted] eqn:Eg end.
  cbn [fst snd] in *. intros _ k0 r0 H. rewrite G in H. cbn [st set_store] in H.
  exact (revoke_access_no_implicit st1 (r_id r) k0 r0 H).
Qed.

(* after a successful exchange every credential the grant had before — the presented refresh token and the
   access token issued alongside it included — is inactive, now and after any further history *)
Theorem rotation_retires_old_pair cfg cls h1 auth tok h2 :
  let s1 := run cfg (state0 cls) h1 in
  let res1 := refresh_flow cfg s1 auth tok in
  o_err (snd res1) = "" ->
  exists k r, key_of s1 tok = Some k /\ refresh (st s1) k = Some (true, r) /\
  forall i e tampered hint scopes,
    nth_error (log s1) i = Some e -> i_rid e = r_id r ->
    introspect cfg (run cfg (fst res1) h2) {| p_ref := CRef i; p_tampered := tampered |} hint scopes = None.
Proof.
  intros s1 res1 Hok.
  assert (I1 : Inv s1) by apply Inv_reachable.
  destruct (refresh_ok_rotates cfg s1 auth tok I1 Hok) as [k [r [Hk [Hact [Hm [Hd Hall]]]]]].
  exists k, r. split; [exact Hk|]. split; [exact Hact|].
  intros i e tampered hint scopes Hn Hrid.
  pose proof (refresh_ok_no_implicit cfg s1 auth tok k r Hok Hk Hact) as Hni. fold res1 in Hni.
  assert (He : In e (log s1)) by (eapply nth_error_In; eassumption).
  destruct (Hall e He Hrid) as [Ha Hr].
  assert (Hlt : i_key e < next_key (fst res1)).
  { pose proof (next_key_step cfg s1 (ORefresh auth tok [])) as Hn'. cbn [step] in Hn'.
    pose proof (proj1 (inv_owner_fresh s1 I1 _ _ _ (inv_log_owner s1 I1 e He))). unfold res1. lia. }
  pose proof (decay_run cfg h2 (fst res1)) as D.
  assert (Hlog : exists j, nth_error (log (run cfg (fst res1) h2)) j = Some e /\ j = i).
  { exists i. split; [|reflexivity]. apply log_run_nth.
    unfold res1. rewrite (refresh_is_step _ _ _ _ []).
    destruct (log_step_prefix cfg s1 (ORefresh auth tok [])) as [l ->].
    rewrite nth_error_app1; [assumption|]. apply nth_error_Some. congruence. }
  destruct Hlog as [j [Hj ->]].
  assert (I2 : Inv (run cfg (fst res1) h2)).
  { apply Inv_run. unfold res1. rewrite (refresh_is_step _ _ _ _ []). now apply Inv_step. }
  eapply key_dead_inactive; [exact Hj| | |].
  - eapply decay_access_gone; eauto.
  - destruct (implicit (st (run cfg (fst res1) h2)) (i_key e)) as [ri|] eqn:Ei; [|reflexivity].
    exfalso. pose proof (inv_owner_implicit _ I2 _ _ Ei) as Ho1.
    pose proof (inv_log_owner _ I2 e (nth_error_In _ _ Hj)) as Ho2. rewrite Ho1 in Ho2. injection Ho2 as _ Hx.
    assert (Hltr : r_id r < next_rid (fst res1)).
    { pose proof (next_rid_step cfg s1 (ORefresh auth tok [])) as Hn'. cbn [step] in Hn'.
      pose proof (proj2 (inv_refresh_fresh s1 _ _ _ I1 Hact)). unfold res1. lia. }
    apply (no_implicit_run cfg h2 (fst res1) (r_id r) Hni Hltr _ _ Ei). congruence.
  - eapply decay_rt_dead; eauto.
Qed.

Theorem reuse_kills_family cfg cls h1 c cl tok k r h2 i e tampered hint scopes :
  let s1 := run cfg (state0 cls) h1 in
  clients s1 c = Some cl -> args_has (cl_grants cl) ["refresh_token"] = true ->
  key_of s1 tok = Some k -> refresh (st s1) k = Some (false, r) ->
  let res := refresh_flow cfg s1 (Some c) tok in
  o_err (snd res) = "invalid_grant" /\ o_minted (snd res) = [] /\
  (let s2 := run cfg (fst res) h2 in
   nth_error (log s2) i = Some e -> i_rid e = r_id r ->
   introspect cfg s2 {| p_ref := CRef i; p_tampered := tampered |} hint scopes = None).
Proof.
  intros s1 Hc Hg Hk Hr res.
  assert (I1 : Inv s1) by apply Inv_reachable.
  destruct (reuse_kills_all cfg s1 c cl tok k r I1 Hc Hg Hk Hr) as [He [Hm Hd]].
  split; [exact He|split; [exact Hm|]].
  intros s2 Hn Hrid.
  assert (I2 : Inv (fst res)).
  { unfold res. rewrite (refresh_is_step _ _ _ _ []). now apply Inv_step. }
  assert (Hlt : r_id r < next_rid (fst res)).
  { pose proof (next_rid_step cfg s1 (ORefresh (Some c) tok [])) as Hm'.
    cbn [step] in Hm'. pose proof (proj2 (inv_refresh_fresh s1 _ _ _ I1 Hr)). unfold res. lia. }
  eapply dead_all_credential_inactive; [apply Inv_run; exact I2|apply dead_all_run; [exact Hd|exact Hlt]|exact Hn|exact Hrid].
Qed.

Theorem reuse_spares_other_grants cfg cls h1 c cl tok k r i e tampered hint scopes :
  let s1 := run cfg (state0 cls) h1 in
  clients s1 c = Some cl -> args_has (cl_grants cl) ["refresh_token"] = true ->
  key_of s1 tok = Some k -> refresh (st s1) k = Some (false, r) ->
  nth_error (log s1) i = Some e -> i_rid e <> r_id r ->
  introspect cfg (fst (refresh_flow cfg s1 (Some c) tok)) {| p_ref := CRef i; p_tampered := tampered |} hint scopes
  = introspect cfg s1 {| p_ref := CRef i; p_tampered := tampered |} hint scopes.
Proof.
  intros s1 Hc Hg Hk Hr Hn Hne.
  assert (I : Inv s1) by apply Inv_reachable.
  unfold refresh_flow. rewrite Hc, Hg, Hk. cbn [find negb]. rewrite Hr. cbn [fst fail].
  apply introspect_ext; [reflexivity|reflexivity|].
  intros k0 Hk0. unfold key_of in Hk0. cbn in Hk0. rewrite Hn in Hk0. injection Hk0 as <-.
  assert (Ho : owner s1 (i_key e) = Some (i_kind e, i_rid e)) by (apply (inv_log_owner s1 I); eapply nth_error_In; eassumption).
  cbn [st set_store].
  pose proof (Inv_delete_refresh s1 k I) as I1.
  pose proof (Inv_revoke_refresh _ (r_id r) I1) as I2. cbn in I2.
  destruct (revoke_access_tables (fst (revoke_refresh (delete_refresh (st s1) k) (r_id r))) (r_id r)) as [_ [Tr _]].
  destruct (revoke_refresh_tables (delete_refresh (st s1) k) (r_id r)) as [_ [Ta _]].
  assert (Hkne : i_key e <> k).
  { intros Heq. pose proof (inv_owner_refresh s1 I _ _ _ Hr) as Ho'. rewrite <- Heq, Ho in Ho'. congruence. }
  assert (Hno : forall kd, owner s1 (i_key e) <> Some (kd, r_id r)) by (intros kd; rewrite Ho; congruence).
  assert (Ti : forall x X, implicit (fst (revoke_refresh x X)) = implicit x).
  { intros x X. unfold revoke_refresh. destruct (rt_idx x X) as [k1|]; [destruct (refresh x k1) as [[? ?]|]|]; reflexivity. }
  destruct (revoke_access_frame (set_store (set_store s1 (delete_refresh (st s1) k)) (fst (revoke_refresh (delete_refresh (st s1) k) (r_id r)))) (r_id r) (i_key e) I2 Hno) as [Fa Fi].
  cbn in Fa, Fi.
  split; [rewrite Fa, Ta; reflexivity|]. split; [rewrite Fi, Ti; reflexivity|].
  rewrite Tr.
  transitivity (refresh (delete_refresh (st s1) k) (i_key e)).
  - apply (revoke_refresh_frame (set_store s1 (delete_refresh (st s1) k)) (r_id r) (i_key e) I1).
    cbn. rewrite Ho. congruence.
  - cbn. now rewrite upd_neq.
Qed.
